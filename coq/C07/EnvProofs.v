(** C07 — proofs about identifier resolution (Env.v). *)
From Coq Require Import NArith List Bool Lia.
From ChibiV Require Import C07.Env.
Import ListNotations.

(** ** key equality *)
Lemma key_eqb_sym_clo : forall s i E fv x, key_eqb (Sym s) (Clo i E fv x) = false.
Proof. reflexivity. Qed.
Lemma key_eqb_clo_sym : forall s i E fv x, key_eqb (Clo i E fv x) (Sym s) = false.
Proof. reflexivity. Qed.
Lemma key_eqb_sym : forall s t, key_eqb (Sym s) (Sym t) = true <-> s = t.
Proof. intros s t; cbn [key_eqb]; apply N.eqb_eq. Qed.
Lemma key_eqb_comm : forall a b, key_eqb a b = key_eqb b a.
Proof. destruct a, b; cbn [key_eqb]; try reflexivity; apply N.eqb_sym. Qed.
Lemma key_eqb_refl_id : forall x, idp x = true -> key_eqb x x = true.
Proof.
  destruct x; cbn [idp id_name key_eqb]; intros H; try discriminate; apply N.eqb_refl.
Qed.

(** a key that no entry of any frame of [rho] has (as an object) *)
Definition fresh_in_list (k : sexp) (l : list (sexp * cell)) : Prop :=
  forall k' c, In (k', c) l -> key_eqb k' k = false.
Definition fresh_in_frame (k : sexp) (f : frame) : Prop :=
  fresh_in_list k (f_renames f) /\ fresh_in_list k (f_bindings f).
Definition fresh_key (k : sexp) (rho : env) : Prop := Forall (fresh_in_frame k) rho.

Lemma lookup_list_fresh : forall k l, fresh_in_list k l -> lookup_list k l = None.
Proof.
  induction l as [|[k' c] r IH]; intros H; cbn [lookup_list]; [reflexivity|].
  rewrite (H k' c (or_introl eq_refl)). apply IH. intros k2 c2 Hin. apply (H k2 c2). now right.
Qed.

Lemma frame_lookup_fresh : forall k f, fresh_in_frame k f -> frame_lookup k f = None.
Proof.
  intros k f [Hr Hb]. unfold frame_lookup. now rewrite (lookup_list_fresh _ _ Hr), (lookup_list_fresh _ _ Hb).
Qed.

Lemma cell_loc1_fresh : forall k rho lp, fresh_key k rho -> cell_loc1 rho k lp = None.
Proof.
  induction rho as [|f r IH]; intros lp H; cbn [cell_loc1]; [reflexivity|].
  inversion H as [|? ? Hf Hr]; subst. rewrite (frame_lookup_fresh _ _ Hf). destruct lp; [reflexivity|]. now apply IH.
Qed.

Lemma cell_loc1_app_fresh : forall k U rho, fresh_key k U -> cell_loc1 (U ++ rho) k false = cell_loc1 rho k false.
Proof.
  induction U as [|f r IH]; intros rho H; cbn [app cell_loc1]; [reflexivity|].
  inversion H as [|? ? Hf Hr]; subst. rewrite (frame_lookup_fresh _ _ Hf). now apply IH.
Qed.

(** ** bare symbols never look inside closures *)
Lemma env_cell_sym : forall rho s lp, env_cell [] rho (Sym s) lp = cell_loc1 rho (Sym s) lp.
Proof. intros. unfold env_cell. cbn. destruct (cell_loc1 rho (Sym s) lp); reflexivity. Qed.

(** ** referential transparency of inserted identifiers
    An identifier inserted by a macro is the closure object  Clo i E [] x  (make-renamer,
    init-7.scm:117-134).  Wherever it is looked up, as long as no frame binds that very object, it
    resolves exactly as [x] resolves in the macro's definition environment [E] — whatever the use
    environment binds under the bare name of [x] (user variables called if, tmp, car, ...). *)
Lemma inserted_ref_general : forall rho i E x lp,
  cell_loc1 rho (Clo i E [] x) lp = None ->
  env_cell [] rho (Clo i E [] x) lp = env_cell [] E x lp.
Proof.
  intros rho i E x lp H. unfold env_cell. cbn [fv_memq fv_first_env]. rewrite H.
  cbn [peel memq negb andb]. reflexivity.
Qed.

Theorem inserted_ref_resolves_at_definition_proof : forall (U E : env) i s,
  fresh_key (Clo i E [] (Sym s)) (U ++ E) ->
  env_cell [] (U ++ E) (Clo i E [] (Sym s)) false = sym_cell E s.
Proof.
  intros U E i s H. rewrite inserted_ref_general by (now apply cell_loc1_fresh).
  apply env_cell_sym.
Qed.

(** the use environment need not even extend the definition environment (macro imported from
    another module) *)
Theorem inserted_ref_any_use_env_proof : forall (rho E : env) i s,
  fresh_key (Clo i E [] (Sym s)) rho ->
  env_cell [] rho (Clo i E [] (Sym s)) false = sym_cell E s.
Proof.
  intros rho E i s H. rewrite inserted_ref_general by (now apply cell_loc1_fresh). apply env_cell_sym.
Qed.

(** ** binders introduced by a macro do not capture user identifiers
    analyze_lambda binds the parameter *objects* (sexp_extend_env, eval.c:877-878); a frame all of
    whose keys are closure objects is invisible to every bare symbol ... *)
Definition closure_keys (f : frame) : Prop :=
  forall k c, In (k, c) (f_renames f ++ f_bindings f) -> exists i E fv x, k = Clo i E fv x.

Lemma closure_keys_fresh_sym : forall f s, closure_keys f -> fresh_in_frame (Sym s) f.
Proof.
  intros f s H; split; intros k c Hin;
    (destruct (H k c) as (i & E & fv & x & ->); [apply in_or_app; auto | reflexivity]).
Qed.

Theorem introduced_binder_does_not_capture_proof : forall cfv (f : frame) rho s,
  closure_keys f ->
  env_cell cfv (f :: rho) (Sym s) false = env_cell cfv rho (Sym s) false.
Proof.
  intros cfv f rho s H. unfold env_cell. cbn [id_name].
  destruct (fv_first_env (fv_memq (Sym s) cfv)) as [e|]; [reflexivity|].
  cbn [cell_loc1 peel]. now rewrite (frame_lookup_fresh _ _ (closure_keys_fresh_sym f s H)).
Qed.

(** ... and to every other closure object (another expansion's renaming of the same name) *)
Theorem introduced_binder_only_binds_itself_proof : forall (f : frame) rho k,
  fresh_in_frame k f ->
  cell_loc1 (f :: rho) k false = cell_loc1 rho k false.
Proof. intros f rho k H. cbn [cell_loc1]. now rewrite (frame_lookup_fresh _ _ H). Qed.

(** conversely the introduced binder does bind the references inserted by the same expansion (same
    closure object, by make-renamer's memoisation) *)
Theorem introduced_binder_binds_own_refs_proof : forall i E x c others rho,
  env_cell [] (Frame [] ((Clo i E [] x, c) :: others) :: rho) (Clo i E [] x) false = Some c.
Proof.
  intros. unfold env_cell. cbn [fv_memq fv_first_env cell_loc1 frame_lookup f_renames f_bindings lookup_list key_eqb].
  now rewrite N.eqb_refl.
Qed.

(** ** free names of a closure resolve at the use site (sc-macro-transformer's contract) *)
Theorem free_name_resolves_at_use_proof : forall rho i E fv s,
  memq (Sym s) fv = true ->
  cell_loc1 rho (Clo i E fv (Sym s)) false = None ->
  env_cell [] rho (Clo i E fv (Sym s)) false = sym_cell rho s.
Proof.
  intros rho i E fv s Hm H. unfold env_cell. cbn [fv_memq fv_first_env]. rewrite H.
  cbn [peel negb andb]. rewrite Hm. cbn [negb andb]. unfold sym_cell.
  destruct (cell_loc1 rho (Sym s) false); reflexivity.
Qed.

(** ** redirection through the context's free-variable list (eval.c:106-111, 1201-1206) *)
Theorem context_fv_redirects_proof : forall cfv rho e i E fv s,
  fv_first_env (fv_memq (Sym s) cfv) = Some e ->
  env_cell cfv rho (Clo i E fv (Sym s)) false =
    match cell_loc1 e (Clo i E fv (Sym s)) false with
    | Some c => Some c
    | None => sym_cell e s
    end.
Proof.
  intros cfv rho e i E fv s H. unfold env_cell. cbn [id_name]. rewrite H.
  destruct (cell_loc1 e (Clo i E fv (Sym s)) false); [reflexivity|].
  cbn [peel negb andb]. unfold sym_cell. destruct (cell_loc1 e (Sym s) false); reflexivity.
Qed.

(** ** innermost binding wins — but only outside the free-name closures of sc-macro-transformer
    Without a context free-variable list the innermost frame that binds the object wins ... *)
Theorem innermost_binding_wins_proof : forall f rho k c,
  frame_lookup k f = Some c -> env_cell [] (f :: rho) k false = Some c.
Proof.
  intros f rho k c H. unfold env_cell. cbn [fv_memq fv_first_env cell_loc1]. now rewrite H.
Qed.

(** ... with one (F-C07-2, kept as the code has it): while a closure with free name [s] is being
    analysed, every lookup of [s] is redirected to the environment recorded in the context, even
    under a newer binding of [s] (a nested use of the same anaphoric macro, or the user's own
    (let ((it ...)) ...) inside the closure).  Witness: symbol 5 bound to cell 1 outside, rebound to
    cell 2 in the innermost frame; the lookup still answers cell 1. *)
Definition shadow_outer : env := [Frame [] [(Sym 5, mkcell 1 VLocal)]].
Definition shadow_inner : frame := Frame [] [(Sym 5, mkcell 2 VLocal)].
Theorem sc_free_name_rebinding_refuted_proof :
  ~ (forall cfv f rho k c, frame_lookup k f = Some c -> env_cell cfv (f :: rho) k false = Some c).
Proof.
  intros H.
  specialize (H [FvId (Sym 5); FvEnv shadow_outer] shadow_inner shadow_outer (Sym 5) (mkcell 2 VLocal) eq_refl).
  vm_compute in H. discriminate H.
Qed.

(** ** localp = 1 (sexp_env_define, eval.c:179): only the innermost frame *)
Theorem local_lookup_first_frame_proof : forall f rho s,
  env_cell [] (f :: rho) (Sym s) true = frame_lookup (Sym s) f.
Proof.
  intros. unfold env_cell. cbn [id_name fv_memq fv_first_env cell_loc1 peel].
  destruct (frame_lookup (Sym s) f); reflexivity.
Qed.

(** ** identifier=? *)
Theorem identifier_eq_spec_proof : forall cfv e1 id1 e2 id2,
  identifier_eq cfv e1 id1 e2 id2 = true <->
  (exists c1 c2, env_cell cfv e1 id1 false = Some c1 /\ env_cell cfv e2 id2 false = Some c2 /\ cid c1 = cid c2)
  \/ (env_cell cfv e1 id1 false = None /\ env_cell cfv e2 id2 false = None /\
      (key_eqb id1 id2 = true \/ key_eqb (id_name id1) (id_name id2) = true)).
Proof.
  intros. unfold identifier_eq.
  destruct (env_cell cfv e1 id1 false) as [c1|], (env_cell cfv e2 id2 false) as [c2|].
  - unfold cell_eqb. rewrite N.eqb_eq. split.
    + intros H; left; exists c1, c2; auto.
    + intros [(a & b & Ha & Hb & H)|(Ha & _)]; [|discriminate]. now inversion Ha; inversion Hb; subst.
  - split; [discriminate|]. intros [(a & b & _ & Hb & _)|(Ha & _)]; discriminate.
  - split; [discriminate|]. intros [(a & b & Ha & _)|(_ & Hb & _)]; discriminate.
  - rewrite orb_true_iff. split.
    + intros H; right; auto.
    + intros [(a & b & Ha & _)|(_ & _ & H)]; [discriminate|exact H].
Qed.

Lemma identifier_eq_comm : forall cfv e1 id1 e2 id2,
  identifier_eq cfv e1 id1 e2 id2 = identifier_eq cfv e2 id2 e1 id1.
Proof.
  intros. unfold identifier_eq.
  destruct (env_cell cfv e1 id1 false), (env_cell cfv e2 id2 false); try reflexivity.
  - unfold cell_eqb. apply N.eqb_sym.
  - now rewrite (key_eqb_comm id1 id2), (key_eqb_comm (id_name id1) (id_name id2)).
Qed.

Lemma id_name_idp_sym : forall x, idp x = true -> exists s, id_name x = Sym s.
Proof. intros x H. unfold idp in H. destruct (id_name x); try discriminate. eauto. Qed.

Lemma identifier_eq_refl : forall cfv e x, idp x = true -> identifier_eq cfv e x e x = true.
Proof.
  intros cfv e x H. unfold identifier_eq. destruct (env_cell cfv e x false).
  - unfold cell_eqb. apply N.eqb_refl.
  - destruct (id_name_idp_sym x H) as [s ->]. cbn [key_eqb]. rewrite N.eqb_refl. apply orb_true_r.
Qed.

(** a renamed literal (e.g. `else` inserted by cond) is NOT identifier=? to a user variable of the
    same name that is bound locally at the use site: hygienic literal matching *)
Theorem shadowed_literal_not_matched_proof : forall U E i s c,
  fresh_key (Clo i E [] (Sym s)) (U ++ E) ->
  cell_loc1 (U ++ E) (Sym s) false = Some c ->
  (forall c', sym_cell E s = Some c' -> cid c' <> cid c) ->
  identifier_eq [] (U ++ E) (Clo i E [] (Sym s)) (U ++ E) (Sym s) = false.
Proof.
  intros U E i s c Hf Hu Hd. unfold identifier_eq.
  rewrite (inserted_ref_resolves_at_definition_proof U E i s Hf), env_cell_sym, Hu.
  destruct (sym_cell E s) as [c'|] eqn:He; [|reflexivity].
  unfold cell_eqb. apply N.eqb_neq. now apply Hd.
Qed.

(** ** strip-syntactic-closures *)
Fixpoint no_clo (x : sexp) : Prop :=
  match x with
  | Clo _ _ _ _ => False
  | Lst l => (fix all (l : list sexp) : Prop := match l with [] => True | y :: r => no_clo y /\ all r end) l
  | _ => True
  end.

Lemma strip_no_clo_fix : forall x, no_clo (strip x).
Proof.
  fix IH 1. destruct x as [s|n|l|i E fv e]; cbn [strip no_clo]; auto.
  induction l as [|y r IHr]; cbn [map]; [exact I|]. split; [apply IH|exact IHr].
Qed.

Theorem strip_removes_all_closures_proof : forall x, no_clo (strip x).
Proof. exact strip_no_clo_fix. Qed.

Theorem strip_identifier_proof : forall x, idp x = true -> strip x = id_name x.
Proof.
  fix IH 1. destruct x as [s|n|l|i E fv e]; cbn [strip id_name idp]; intros H; try reflexivity; try discriminate.
  apply IH. exact H.
Qed.

(** ** non-vacuity: concrete environments *)
Definition c_if := mkcell 1 (VCore 3).
Definition c_user := mkcell 50 VLocal.
Definition c_tmp := mkcell 51 VLocal.
Definition G0 : env := [Frame [] [(Sym 10, c_if); (Sym 11, mkcell 2 VOther)]].     (* 10 = if, 11 = car *)
Definition ins_if := Clo 7 G0 [] (Sym 10).
Definition ins_tmp := Clo 8 G0 [] (Sym 20).                                         (* 20 = tmp *)
(* user wrote (lambda (if tmp) (my-or ...)); the expansion binds the renamed tmp *)
Definition U0 : env := [Frame [] [(ins_tmp, c_tmp)]; Frame [] [(Sym 10, c_user); (Sym 20, mkcell 52 VLocal)]].

Example ex_fresh : fresh_key ins_if (U0 ++ G0).
Proof.
  unfold fresh_key, U0, G0. cbn [app].
  repeat (apply Forall_cons;
    [split; intros k c Hin; cbn [f_renames f_bindings In] in Hin;
     repeat (destruct Hin as [Hin|Hin]; [inversion Hin; reflexivity|]); contradiction |]).
  apply Forall_nil.
Qed.
Example ex_inserted : env_cell [] (U0 ++ G0) ins_if false = Some c_if.
Proof. reflexivity. Qed.
Example ex_user_if : env_cell [] (U0 ++ G0) (Sym 10) false = Some c_user.
Proof. reflexivity. Qed.
Example ex_no_capture : env_cell [] (U0 ++ G0) (Sym 20) false = Some (mkcell 52 VLocal).
Proof. reflexivity. Qed.
Example ex_own_ref : env_cell [] (U0 ++ G0) ins_tmp false = Some c_tmp.
Proof. reflexivity. Qed.
Example ex_literal : identifier_eq [] (U0 ++ G0) ins_if (U0 ++ G0) (Sym 10) = false.
Proof. reflexivity. Qed.
Example ex_free_name : env_cell [] (U0 ++ G0) (Clo 9 G0 [Sym 10] (Sym 10)) false = Some c_user.
Proof. reflexivity. Qed.
Example ex_ctx_fv : env_cell [FvId (Sym 10); FvEnv (U0 ++ G0)] G0 (Clo 9 G0 [] (Sym 10)) false = Some c_user.
Proof. reflexivity. Qed.
Example ex_closure_keys : closure_keys (Frame [] [(ins_tmp, c_tmp)]).
Proof. intros k c [H|[]]. inversion H. unfold ins_tmp. eauto. Qed.
