(** C07 (round 2) — scoping of let-syntax / letrec-syntax ([bind_syntax], mirror of analyze_let_syntax_aux +
    analyze_bind_syntax, eval.c:1005-1094) and freshness of the renamer on closure arguments. *)
From Coq Require Import NArith List Bool Lia.
From ChibiV Require Import C07.Env C07.EnvProofs C07.Expand C07.RenamerProofs.
Import ListNotations.

(** every transformer made by [eval_specs] is closed in the environment handed over as [menv] *)
Lemma eval_spec_env : forall cfv erho menv sp k m,
  eval_spec cfv erho menv sp = Some (k, m) -> m_env m = menv.
Proof.
  intros cfv erho menv sp k m H. unfold eval_spec in H.
  repeat match type of H with
         | match ?x with _ => _ end = Some _ => destruct x eqn:?; try discriminate
         | (if ?x then _ else _) = Some _ => destruct x eqn:?; try discriminate
         end.
  inversion H; subst. reflexivity.
Qed.

Lemma eval_specs_env : forall cfv erho menv specs ms,
  eval_specs cfv erho menv specs = Some ms -> Forall (fun m => m_env m = menv) ms.
Proof.
  induction specs as [|sp r IH]; intros ms H; cbn [eval_specs] in H.
  - inversion H; subst. constructor.
  - destruct (eval_spec cfv erho menv sp) as [[k m]|] eqn:Hs; [|discriminate].
    destruct (eval_specs cfv erho menv r) as [ms'|] eqn:Hr; [|discriminate].
    inversion H; subst. constructor; [now apply (eval_spec_env _ _ _ _ _ _ Hs)|now apply IH].
Qed.

Lemma bind_syntax_inv : forall recp cfv rho specs base next fr ms n',
  bind_syntax recp cfv rho specs base next = Some (fr, ms, n') ->
  fr = Frame [] (kw_bindings (spec_keys specs) base next []) /\
  eval_specs cfv (if recp then fr :: rho else rho) (if recp then fr :: rho else rho) specs = Some ms.
Proof.
  intros recp cfv rho specs base next fr ms n' H. unfold bind_syntax in H.
  destruct (negb (Nat.eqb (length (spec_keys specs)) (length specs))); [discriminate|].
  destruct (recp && negb (nodup_keys (spec_keys specs))); [discriminate|].
  match type of H with match ?e with _ => _ end = _ => destruct e as [ms0|] eqn:He; [|discriminate] end.
  inversion H; subst. split; [reflexivity|]. destruct recp; exact He.
Qed.

(** let-syntax: every transformer is closed in the OUTER environment *)
Theorem let_syntax_transformers_closed_outside_proof : forall cfv rho specs base next fr ms n',
  bind_syntax false cfv rho specs base next = Some (fr, ms, n') ->
  Forall (fun m => m_env m = rho) ms.
Proof.
  intros cfv rho specs base next fr ms n' H. destruct (bind_syntax_inv _ _ _ _ _ _ _ _ _ H) as [_ He].
  now apply (eval_specs_env _ _ _ _ _ He).
Qed.

(** letrec-syntax: every transformer is closed in new frame :: outer environment *)
Theorem letrec_syntax_transformers_closed_inside_proof : forall cfv rho specs base next fr ms n',
  bind_syntax true cfv rho specs base next = Some (fr, ms, n') ->
  Forall (fun m => m_env m = fr :: rho) ms.
Proof.
  intros cfv rho specs base next fr ms n' H. destruct (bind_syntax_inv _ _ _ _ _ _ _ _ _ H) as [_ He].
  now apply (eval_specs_env _ _ _ _ _ He).
Qed.

(** the keywords are bound, as macros, in the new frame (both forms) *)
Definition is_macro_cell (c : cell) : Prop := exists m, cval c = VMacro m.

Lemma kw_bindings_skip : forall kws base next acc k,
  memq k kws = false -> lookup_list k (kw_bindings kws base next acc) = lookup_list k acc.
Proof.
  induction kws as [|k0 r IH]; intros base next acc k H; cbn [kw_bindings]; [reflexivity|].
  cbn [memq] in H. destruct (key_eqb k0 k) eqn:Hk; [discriminate|].
  rewrite IH by exact H. cbn [lookup_list]. now rewrite Hk.
Qed.

Lemma kw_bindings_hit : forall kws base next acc k,
  memq k kws = true -> exists c, lookup_list k (kw_bindings kws base next acc) = Some c /\ is_macro_cell c.
Proof.
  induction kws as [|k0 r IH]; intros base next acc k H; cbn [memq] in H; [discriminate|].
  cbn [kw_bindings]. destruct (memq k r) eqn:Hr.
  - now apply IH.
  - destruct (key_eqb k0 k) eqn:Hk; [|discriminate].
    rewrite kw_bindings_skip by exact Hr. cbn [lookup_list]. rewrite Hk.
    eexists. split; [reflexivity|]. now exists base.
Qed.

Theorem syntax_keywords_bound_in_new_frame_proof : forall recp cfv rho specs base next fr ms n' k,
  bind_syntax recp cfv rho specs base next = Some (fr, ms, n') ->
  memq k (spec_keys specs) = true ->
  exists c, cell_loc1 (fr :: rho) k true = Some c /\ is_macro_cell c.
Proof.
  intros recp cfv rho specs base next fr ms n' k H Hk.
  destruct (bind_syntax_inv _ _ _ _ _ _ _ _ _ H) as [-> _].
  destruct (kw_bindings_hit (spec_keys specs) base next [] k Hk) as (c & Hc & Hm).
  exists c. split; [|exact Hm]. cbn [cell_loc1]. unfold frame_lookup. cbn [f_renames f_bindings lookup_list].
  now rewrite Hc.
Qed.

(** ** what an identifier inserted by a local macro's template means.
    let-syntax: its name is looked up OUTSIDE the let-syntax form — also when it is the name of a sibling
    keyword (or of the macro itself): the new frame [fr] is skipped.
    letrec-syntax: it is looked up from the new frame on, so a sibling's name denotes the sibling. *)
Theorem let_syntax_inserted_name_resolves_outside_proof :
  forall cfv rho specs base next fr ms n' m U i s,
  bind_syntax false cfv rho specs base next = Some (fr, ms, n') -> In m ms ->
  fresh_key (Clo i (m_env m) [] (Sym s)) (U ++ fr :: rho) ->
  env_cell [] (U ++ fr :: rho) (Clo i (m_env m) [] (Sym s)) false = sym_cell rho s.
Proof.
  intros cfv rho specs base next fr ms n' m U i s H Hin Hf.
  pose proof (let_syntax_transformers_closed_outside_proof _ _ _ _ _ _ _ _ H) as Hall.
  rewrite Forall_forall in Hall. rewrite (Hall m Hin) in *.
  replace (U ++ fr :: rho) with ((U ++ [fr]) ++ rho) in * by (rewrite <- app_assoc; reflexivity).
  now apply inserted_ref_resolves_at_definition_proof.
Qed.

Theorem letrec_syntax_inserted_name_resolves_inside_proof :
  forall cfv rho specs base next fr ms n' m U i s,
  bind_syntax true cfv rho specs base next = Some (fr, ms, n') -> In m ms ->
  fresh_key (Clo i (m_env m) [] (Sym s)) (U ++ fr :: rho) ->
  env_cell [] (U ++ fr :: rho) (Clo i (m_env m) [] (Sym s)) false = sym_cell (fr :: rho) s.
Proof.
  intros cfv rho specs base next fr ms n' m U i s H Hin Hf.
  pose proof (letrec_syntax_transformers_closed_inside_proof _ _ _ _ _ _ _ _ H) as Hall.
  rewrite Forall_forall in Hall. rewrite (Hall m Hin) in *.
  now apply inserted_ref_resolves_at_definition_proof.
Qed.

(** ... and for a sibling keyword's name that is the sibling's macro cell *)
Theorem letrec_syntax_sibling_name_is_sibling_proof :
  forall cfv rho specs base next fr ms n' m U i s,
  bind_syntax true cfv rho specs base next = Some (fr, ms, n') -> In m ms ->
  memq (Sym s) (spec_keys specs) = true ->
  fresh_key (Clo i (m_env m) [] (Sym s)) (U ++ fr :: rho) ->
  exists c, env_cell [] (U ++ fr :: rho) (Clo i (m_env m) [] (Sym s)) false = Some c /\ is_macro_cell c.
Proof.
  intros cfv rho specs base next fr ms n' m U i s H Hin Hk Hf.
  rewrite (letrec_syntax_inserted_name_resolves_inside_proof _ _ _ _ _ _ _ _ _ _ _ _ H Hin Hf).
  destruct (bind_syntax_inv _ _ _ _ _ _ _ _ _ H) as [-> _].
  destruct (kw_bindings_hit (spec_keys specs) base next [] (Sym s) Hk) as (c & Hc & Hm).
  exists c. split; [|exact Hm]. unfold sym_cell. cbn [cell_loc1]. unfold frame_lookup.
  cbn [f_renames f_bindings lookup_list]. now rewrite Hc.
Qed.

(** non-vacuity and the difference between the two forms on one program:
      (let ((f ..)) (LET-SYNTAX ((g (syntax-rules () ((_ p) (f p)))) (f (syntax-rules () ((_ p) p)))) (g 1)))
    symbols: lambda 3, let-syntax 10, letrec-syntax 11, syntax-rules 12, _ 13, f 20, g 21, p 22 *)
Definition Gs : env :=
  [Frame [] [(Sym 3, mkcell 1 (VCore CORE_LAMBDA)); (Sym 10, mkcell 2 (VCore CORE_LET_SYNTAX));
             (Sym 11, mkcell 3 (VCore CORE_LETREC_SYNTAX)); (Sym 12, mkcell 4 (VCore CORE_SYNTAX_RULES))]].
Definition sib_prog (form : N) : sexp :=
  Lst [Sym 3; Lst [Sym 20];
       Lst [Sym form;
            Lst [Lst [Sym 21; Lst [Sym 12; Lst []; Lst [Lst [Sym 13; Sym 22]; Lst [Sym 20; Sym 22]]]];
                 Lst [Sym 20; Lst [Sym 12; Lst []; Lst [Lst [Sym 13; Sym 22]; Sym 22]]]];
            Lst [Sym 21; Lit 1]]].
Definition rterm_of (r : res (astate * rterm)) : option rterm := match r with OK (_, t) => Some t | Err _ => None end.
Example ex_let_syntax_sibling : rterm_of (analyze [] 30 Gs (sib_prog 10)) = Some (RLam [1000%N] (RApp [RRef 1000; RLit 1])).
Proof. vm_compute. reflexivity. Qed.
Example ex_letrec_syntax_sibling : rterm_of (analyze [] 30 Gs (sib_prog 11)) = Some (RLam [1000%N] (RLit 1)).
Proof. vm_compute. reflexivity. Qed.

(** ** the renamer on identifiers that are already closures (template identifiers of a macro that was itself
    produced by a macro template).  [rename] never returns its argument: a closure argument is closed once
    more, in a NEW object, and two expansions (different allocation counters) give different objects. *)
Theorem renamer_closure_arg_fresh_proof : forall E n memo i E0 fv e rs' c,
  memo_ok E (n, memo) -> (i < n)%N -> assq (Clo i E0 fv e) memo = None ->
  rename E (n, memo) (Clo i E0 fv e) = (rs', c) ->
  c = Clo n E [] (Clo i E0 fv e) /\ key_eqb c (Clo i E0 fv e) = false /\
  id_name c = id_name e /\ fst rs' = N.succ n /\
  (forall k v, In (k, v) memo -> key_eqb v c = false).
Proof.
  intros E n memo i E0 fv e rs' c Hok Hi Ha H.
  destruct (renamer_fresh_proof E (n, memo) (Clo i E0 fv e) rs' c Hok Ha H) as (Hc & Hn & Hd).
  cbn [fst snd] in *. subst c. repeat split; try assumption.
  cbn [key_eqb]. apply N.eqb_neq. lia.
Qed.

Theorem renamer_distinct_across_expansions_proof : forall E1 E2 x n1 m1 n2 m2 rs1 c1 rs2 c2,
  assq x m1 = None -> assq x m2 = None -> n1 <> n2 ->
  rename E1 (n1, m1) x = (rs1, c1) -> rename E2 (n2, m2) x = (rs2, c2) ->
  key_eqb c1 c2 = false.
Proof.
  intros E1 E2 x n1 m1 n2 m2 rs1 c1 rs2 c2 A1 A2 Hn H1 H2. unfold rename in *.
  rewrite A1 in H1. rewrite A2 in H2. inversion H1; inversion H2; subst.
  cbn [key_eqb]. now apply N.eqb_neq.
Qed.

(** memoisation holds for closure arguments as well ([renamer_memoises_proof] only needs idp) *)
Example ex_rename_closure_twice :
  let x := Clo 1 G0 [] (Sym 20) in
  let '(rs1, c1) := rename G0 (5%N, []) x in
  let '(rs2, c2) := rename G0 rs1 x in
  let '(_, c3) := rename G0 (9%N, []) x in
  (key_eqb c1 c2, key_eqb c1 x, key_eqb c1 c3) = (true, false, false).
Proof. vm_compute. reflexivity. Qed.
