(** C07 — make-renamer memoises: one closure object per name per expansion, fresh across expansions. *)
From Coq Require Import NArith List Bool Lia.
From ChibiV Require Import C07.Env C07.EnvProofs C07.Expand.
Import ListNotations.

Lemma key_eqb_trans : forall a b c, key_eqb a b = true -> key_eqb b c = true -> key_eqb a c = true.
Proof.
  destruct a, b, c; cbn [key_eqb]; intros H1 H2; try discriminate;
    apply N.eqb_eq in H1; apply N.eqb_eq in H2; subst; apply N.eqb_refl.
Qed.

Lemma assq_hit : forall x c memo, key_eqb x x = true -> assq x ((x, c) :: memo) = Some c.
Proof. intros. cbn [assq]. now rewrite H. Qed.

(** asking twice for the same identifier returns the same object and allocates nothing *)
Theorem renamer_memoises_proof : forall E rs x rs1 c1,
  idp x = true ->
  rename E rs x = (rs1, c1) ->
  rename E rs1 x = (rs1, c1).
Proof.
  intros E [next memo] x rs1 c1 Hid H. unfold rename in H.
  destruct (assq x memo) as [c|] eqn:Ha.
  - inversion H; subst. unfold rename. now rewrite Ha.
  - inversion H; subst. unfold rename. rewrite assq_hit; [reflexivity|]. now apply key_eqb_refl_id.
Qed.

(** memo invariant: every remembered closure was allocated below [next] and closes [E] with no
    free names; two entries with the same closure object have the same key *)
Definition memo_ok (E : env) (rs : rstate) : Prop :=
  (forall k v, In (k, v) (snd rs) -> exists i e, v = Clo i E [] e /\ (i < fst rs)%N) /\
  (forall k1 v1 k2 v2, In (k1, v1) (snd rs) -> In (k2, v2) (snd rs) ->
                       key_eqb v1 v2 = true -> key_eqb k1 k2 = true).

Lemma memo_ok_init : forall E n, memo_ok E (n, []).
Proof. intros; split; cbn [snd]; intros; contradiction. Qed.

Lemma assq_in : forall k memo v, assq k memo = Some v -> exists k', In (k', v) memo /\ key_eqb k' k = true.
Proof.
  induction memo as [|[k' v'] r IH]; cbn [assq]; intros v H; [discriminate|].
  destruct (key_eqb k' k) eqn:Hk.
  - inversion H; subst. exists k'. split; [now left|exact Hk].
  - destruct (IH v H) as (k2 & Hin & Hk2). exists k2. split; [now right|exact Hk2].
Qed.

Lemma rename_memo_ok : forall E rs x rs' c,
  idp x = true -> memo_ok E rs -> rename E rs x = (rs', c) ->
  memo_ok E rs' /\ (fst rs <= fst rs')%N /\ assq x (snd rs') = Some c.
Proof.
  intros E [next memo] x rs' c Hid [Hok Hinj] H. unfold rename in H. destruct (assq x memo) eqn:Ha.
  - inversion H; subst. split; [split; assumption|]. split; [cbn [fst]; lia|exact Ha].
  - inversion H; subst. cbn [fst snd] in *.
    split; [split|split; [lia| apply assq_hit; now apply key_eqb_refl_id]].
    + cbn [fst snd]. intros k v [Hin|Hin].
      * inversion Hin; subst. exists next, k. split; [reflexivity|lia].
      * destruct (Hok k v Hin) as (i & e & -> & Hi). exists i, e. split; [reflexivity|lia].
    + cbn [fst snd]. intros k1 v1 k2 v2 [H1|H1] [H2|H2] Hv.
      * inversion H1; inversion H2; subst. now apply key_eqb_refl_id.
      * inversion H1; subst. destruct (Hok k2 v2 H2) as (i & e & -> & Hi).
        cbn [key_eqb] in Hv. apply N.eqb_eq in Hv. lia.
      * inversion H2; subst. destruct (Hok k1 v1 H1) as (i & e & -> & Hi).
        cbn [key_eqb] in Hv. apply N.eqb_eq in Hv. lia.
      * now apply (Hinj k1 v1 k2 v2).
Qed.

(** a name not yet asked for gets a new closure object, different from every remembered one *)
Theorem renamer_fresh_proof : forall E rs x rs' c,
  memo_ok E rs -> assq x (snd rs) = None -> rename E rs x = (rs', c) ->
  c = Clo (fst rs) E [] x /\ fst rs' = N.succ (fst rs) /\
  forall k v, In (k, v) (snd rs) -> key_eqb v c = false.
Proof.
  intros E [next memo] x rs' c [Hok _] Ha H. unfold rename in H. cbn [snd] in Ha. rewrite Ha in H.
  inversion H; subst. cbn [fst snd]. split; [reflexivity|]. split; [reflexivity|]. intros k v Hin.
  destruct (Hok k v Hin) as (i & e & -> & Hi). cbn [key_eqb fst] in *. apply N.eqb_neq. lia.
Qed.

Lemma assq_rename_stable : forall E rs y rs' c x v,
  key_eqb y x = false -> rename E rs y = (rs', c) -> assq x (snd rs) = Some v -> assq x (snd rs') = Some v.
Proof.
  intros E [next memo] y rs' c x v Hyx H Ha. unfold rename in H. destruct (assq y memo).
  - inversion H; subst. exact Ha.
  - inversion H; subst. cbn [snd assq]. rewrite Hyx. exact Ha.
Qed.

(** different names get different closure objects (within one renamer) *)
Theorem renamer_injective_proof : forall E rs x y rs1 cx rs2 cy,
  memo_ok E rs -> idp x = true -> idp y = true -> key_eqb x y = false ->
  rename E rs x = (rs1, cx) -> rename E rs1 y = (rs2, cy) -> key_eqb cx cy = false.
Proof.
  intros E rs x y rs1 cx rs2 cy Hok Hx Hy Hxy H1 H2.
  destruct (rename_memo_ok _ _ _ _ _ Hx Hok H1) as (Hok1 & _ & Ax).
  destruct (rename_memo_ok _ _ _ _ _ Hy Hok1 H2) as ([_ Hinj2] & _ & Ay).
  assert (Ax2 : assq x (snd rs2) = Some cx).
  { apply (assq_rename_stable E rs1 y rs2 cy); auto. now rewrite key_eqb_comm. }
  destruct (assq_in _ _ _ Ax2) as (k1 & In1 & K1). destruct (assq_in _ _ _ Ay) as (k2 & In2 & K2).
  destruct (key_eqb cx cy) eqn:Hc; [|reflexivity].
  pose proof (Hinj2 k1 cx k2 cy In1 In2 Hc) as K12.
  assert (key_eqb x y = true).
  { apply (key_eqb_trans x k1 y); [now rewrite key_eqb_comm|]. now apply (key_eqb_trans k1 k2 y). }
  congruence.
Qed.

(** template instantiation keeps the invariant and only ever moves the allocation counter up: the
    closure objects of one expansion are numbered in [next_clo, next'), so two expansions (the second
    starts at next') never share an inserted identifier *)
Lemma inst_memo_ok : forall E args t rs rs' x,
  memo_ok E rs -> inst E args t rs = (rs', x) -> memo_ok E rs' /\ (fst rs <= fst rs')%N.
Proof.
  intros E args. fix IH 1. destruct t as [i|s|n|l]; intros rs rs' x Hok H; cbn [inst] in H.
  - inversion H; subst. split; [exact Hok|lia].
  - destruct (rename_memo_ok E rs (Sym s) rs' x eq_refl Hok H) as (A & B & _). now split.
  - inversion H; subst. split; [exact Hok|lia].
  - match type of H with (let '(_, _) := ?go l rs in _) = _ => set (g := go) in * end.
    assert (Hgo : forall l rs rs' out, memo_ok E rs -> g l rs = (rs', out) -> memo_ok E rs' /\ (fst rs <= fst rs')%N).
    { clear H. induction l0 as [|t r IHr]; intros rs0 rs0' out Hok0 Hg; cbn in Hg.
      - inversion Hg; subst. split; [exact Hok0|lia].
      - destruct (inst E args t rs0) as [rs1 x1] eqn:H1. fold g in Hg.
        destruct (g r rs1) as [rs2 xs] eqn:H2. inversion Hg; subst.
        destruct (IH t rs0 rs1 x1 Hok0 H1) as [Hok1 L1].
        destruct (IHr rs1 rs0' xs Hok1 H2) as [Hok2 L2]. split; [exact Hok2|lia]. }
    destruct (g l rs) as [rs1 out] eqn:Hg. inversion H; subst. now apply (Hgo l rs rs' out).
Qed.

Theorem expansions_disjoint_proof : forall m args n n' x,
  expand m args n = Some (n', x) -> (n <= n')%N.
Proof.
  intros m args n n' x H. unfold expand in H. destruct (Nat.eqb (length args) (m_arity m)); [|discriminate].
  destruct (inst (m_env m) args (m_tmpl m) (n, [])) as [[next' memo'] y] eqn:Hi. inversion H; subst.
  destruct (inst_memo_ok _ _ _ _ _ _ (memo_ok_init (m_env m) n) Hi) as [_ L]. exact L.
Qed.

(** non-vacuity: the `or` macro of init-7.scm:177-186 as a template
    (or a b) -> (let ((tmp a)) (if tmp tmp (or b)))   with symbols let=30 tmp=20 if=10 or=31 *)
Definition or_tmpl : tmpl :=
  TLst [TId 30; TLst [TLst [TId 20; TVar 0]]; TLst [TId 10; TId 20; TId 20; TLst [TId 31; TVar 1]]].
Example ex_or : snd (inst G0 [Sym 20; Lit 5] or_tmpl (1%N, [])) =
  Lst [Clo 1 G0 [] (Sym 30); Lst [Lst [Clo 2 G0 [] (Sym 20); Sym 20]];
       Lst [Clo 3 G0 [] (Sym 10); Clo 2 G0 [] (Sym 20); Clo 2 G0 [] (Sym 20); Lst [Clo 4 G0 [] (Sym 31); Lit 5]]].
Proof. reflexivity. Qed.
