(** C07 — renaming invariance of the model expander + resolve: the induction over [resolve].

      Theorem rename_invariance_core : forall fuel a b mt G st U x r,
        no_local G -> wfx x = true ->
        resolve [a; b] mt fuel st [] (U ++ G) x = OK r ->
        resolve []     mt fuel st [] (swap_env a b U ++ G) (swapU a b x) = OK r.

    If in the analysis of a program the bare symbols a and b only ever resolve to lambda-bound cells and
    never occur in quoted data (what the guard [a; b] checks; a guarded run also refuses let-syntax /
    letrec-syntax), then swapping a and b everywhere in the user text — b may be if, tmp, car, ...: any name
    the macro templates or the global environment use — and in the keys of the user frames yields the very
    same analysis result: same binding structure, same cells, same final state.  The macro table is
    arbitrary (any definition environments, any templates of the model's template language); [wfx]: the
    text contains, besides symbols / literals / lists, only renamed template symbols (which is what
    expansions insert). *)
From Coq Require Import NArith List Bool Lia.
From ChibiV Require Import C07.Env C07.EnvProofs C07.Expand C07.RenamerProofs C07.ExpandProofs.
Import ListNotations.

(** well-formed program text *)
Fixpoint wfx (x : sexp) : bool :=
  match x with
  | Sym _ | Lit _ => true
  | Lst l => forallb wfx l
  | Clo _ _ [] (Sym _) => true
  | Clo _ _ _ _ => false
  end.

Section Core.
Variables a b : N.
Variable mt : list macro.
Variable G : env.
Hypothesis HG : no_local G.

Notation SW := (swapU a b).
Notation SE := (swap_env a b).

Lemma idp_swap : forall x, idp (SW x) = idp x.
Proof. destruct x; reflexivity. Qed.

Lemma wfx_idp_wf_id : forall x, wfx x = true -> idp x = true -> wf_id x = true.
Proof.
  destruct x as [s|n|l|i E fv e]; cbn [wfx idp id_name wf_id]; intros Hw Hi; try reflexivity; try discriminate.
  destruct fv; [|discriminate]. destruct e; try discriminate. reflexivity.
Qed.

Lemma wfx_clo_idp : forall i E fv e, wfx (Clo i E fv e) = true -> idp (Clo i E fv e) = true.
Proof. intros i E fv e H. cbn [wfx] in H. destruct fv; [|discriminate]. destruct e; try discriminate. reflexivity. Qed.

Lemma id_name_swap_fix : forall k, SW k = k -> id_name (SW k) = id_name k.
Proof. intros k H. now rewrite H. Qed.

Lemma var_ref_swap : forall U k t,
  wf_id k = true ->
  var_ref [a; b] [] (U ++ G) k = OK t ->
  var_ref [] [] (SE U ++ G) (SW k) = OK t.
Proof.
  intros U k t Hwf H. unfold var_ref in *.
  destruct (lookup_g [a; b] [] (U ++ G) k) as [ro|e] eqn:HL; [|discriminate].
  destruct (rename_invariance_lookup_partial_proof a b U G k ro HG Hwf HL) as [HL' Hnone].
  rewrite HL'. destruct ro as [c|]; [exact H|].
  rewrite (Hnone eq_refl). exact H.
Qed.

Lemma lookup_swap : forall U k ro,
  wf_id k = true ->
  lookup_g [a; b] [] (U ++ G) k = OK ro ->
  lookup_g [] [] (SE U ++ G) (SW k) = OK ro.
Proof. intros U k ro Hwf H. exact (proj1 (rename_invariance_lookup_partial_proof a b U G k ro HG Hwf H)). Qed.

(** quoted data that does not mention a, b is untouched by the swap *)
Lemma mentions_swap : forall d, mentions [a; b] d = false -> SW d = d.
Proof.
  fix IH 1. destruct d as [s|n|l|i E fv e]; cbn [mentions swapU]; intros H; try reflexivity.
  - now rewrite (sw_other a b s H).
  - f_equal. induction l as [|y r IHr]; cbn [map]; [reflexivity|].
    cbn [existsb] in H. apply orb_false_iff in H. destruct H as [Hy Hr]. now rewrite (IH y Hy), (IHr Hr).
Qed.

Lemma memq_swap : forall p l, memq (SW p) (map SW l) = memq p l.
Proof.
  induction l as [|y r IH]; cbn [map memq]; [reflexivity|]. rewrite key_eqb_swap. now rewrite IH.
Qed.

Lemma params_ok_swap : forall ps, params_ok (map SW ps) = params_ok ps.
Proof.
  induction ps as [|p r IH]; cbn [map params_ok]; [reflexivity|]. now rewrite idp_swap, memq_swap, IH.
Qed.

Lemma push_params_swap : forall ps next acc,
  push_params (map SW ps) next (swap_al a b acc) =
  let '(n', bnds, ids) := push_params ps next acc in (n', swap_al a b bnds, ids).
Proof.
  induction ps as [|p r IH]; intros next acc; cbn [map push_params]; [reflexivity|].
  change ((SW p, mkcell next VLocal) :: swap_al a b acc) with (swap_al a b ((p, mkcell next VLocal) :: acc)).
  rewrite IH. destruct (push_params r (N.succ next) ((p, mkcell next VLocal) :: acc)) as [[n' bnds] ids]. reflexivity.
Qed.

(** expansions of well-formed text are well formed *)
Lemma rename_wfx : forall E rs s rs' x, memo_sym E rs -> rename E rs (Sym s) = (rs', x) -> wfx x = true.
Proof.
  intros E rs s rs' x Hm H. destruct (rename_sym E rs s rs' x Hm H) as [_ (i & s' & ->)]. reflexivity.
Qed.

Lemma nth_wfx : forall i args, forallb wfx args = true -> wfx (nth i args (Lst [])) = true.
Proof.
  induction i as [|i IH]; destruct args as [|y r]; cbn [nth forallb]; intros H; try reflexivity.
  - now apply andb_true_iff in H.
  - apply andb_true_iff in H. now apply IH.
Qed.

Lemma inst_wfx : forall E args, forallb wfx args = true ->
  forall t rs rs' x, memo_sym E rs -> inst E args t rs = (rs', x) -> wfx x = true /\ memo_sym E rs'.
Proof.
  intros E args Hargs. fix IH 1. destruct t as [i|s|n|l]; intros rs rs' x Hm H; cbn [inst] in H.
  - inversion H; subst. split; [now apply nth_wfx|exact Hm].
  - split; [exact (rename_wfx E rs s rs' x Hm H)|exact (proj1 (rename_sym E rs s rs' x Hm H))].
  - inversion H; subst. split; [reflexivity|exact Hm].
  - match type of H with (let '(_, _) := ?go l rs in _) = _ => set (g := go) in * end.
    assert (Hgo : forall l rs rs' out, memo_sym E rs -> g l rs = (rs', out) -> forallb wfx out = true /\ memo_sym E rs').
    { clear H. induction l0 as [|t r IHr]; intros rs0 rs0' out Hm0 Hg; cbn in Hg.
      - inversion Hg; subst. split; [reflexivity|exact Hm0].
      - destruct (inst E args t rs0) as [rs1 x1] eqn:H1. fold g in Hg.
        destruct (g r rs1) as [rs2 xs] eqn:H2. inversion Hg; subst.
        destruct (IH t rs0 rs1 x1 Hm0 H1) as [W1 Hm1].
        destruct (IHr rs1 rs0' xs Hm1 H2) as [W2 Hm2]. split; [|exact Hm2].
        cbn [forallb]. now rewrite W1, W2. }
    destruct (g l rs) as [rs1 out] eqn:Hg. inversion H; subst.
    destruct (Hgo l rs rs' out Hm Hg) as [W Hm1]. split; [exact W|exact Hm1].
Qed.

Lemma expand_wfx : forall m args n n' x,
  forallb wfx args = true -> expand m args n = Some (n', x) -> wfx x = true.
Proof.
  intros m args n n' x Hargs H. unfold expand in H.
  destruct (Nat.eqb (length args) (m_arity m)); [|discriminate].
  destruct (inst (m_env m) args (m_tmpl m) (n, [])) as [[nx memo] y] eqn:Hi. inversion H; subst.
  assert (Hm : memo_sym (m_env m) (n, [])) by (intros k v []).
  exact (proj1 (inst_wfx _ _ Hargs _ _ _ _ Hm Hi)).
Qed.

(** threading through a list of subforms *)
Lemma mapM_swap : forall f U l st r,
  (forall st U x r, wfx x = true ->
     resolve [a; b] mt f st [] (U ++ G) x = OK r -> resolve [] mt f st [] (SE U ++ G) (SW x) = OK r) ->
  forallb wfx l = true ->
  mapM (fun st y => resolve [a; b] mt f st [] (U ++ G) y) st l = OK r ->
  mapM (fun st y => resolve [] mt f st [] (SE U ++ G) y) st (map SW l) = OK r.
Proof.
  intros f U l st r IH. revert st r. induction l as [|y l IHl]; intros st r Hw H; cbn [map mapM] in *; [exact H|].
  cbn [forallb] in Hw. apply andb_true_iff in Hw. destruct Hw as [Hy Hl].
  destruct (resolve [a; b] mt f st [] (U ++ G) y) as [[st1 t]|e] eqn:H1; [|discriminate].
  rewrite (IH st U y (st1, t) Hy H1).
  destruct (mapM (fun st y => resolve [a; b] mt f st [] (U ++ G) y) st1 l) as [[st2 ts]|e] eqn:H2; [|discriminate].
  rewrite (IHl st1 (st2, ts) Hl H2). exact H.
Qed.

Lemma forallb_wfx_cons : forall h args, forallb wfx (h :: args) = true -> wfx h = true /\ forallb wfx args = true.
Proof. intros h args H. cbn [forallb] in H. now apply andb_true_iff in H. Qed.

(** the application case, shared by several branches *)
Lemma app_swap : forall f U st l r,
  (forall st U x r, wfx x = true ->
     resolve [a; b] mt f st [] (U ++ G) x = OK r -> resolve [] mt f st [] (SE U ++ G) (SW x) = OK r) ->
  forallb wfx l = true ->
  match mapM (fun st y => resolve [a; b] mt f st [] (U ++ G) y) st l with
  | Err e => Err e | OK (st', ts) => OK (st', RApp ts) end = OK r ->
  match mapM (fun st y => resolve [] mt f st [] (SE U ++ G) y) st (map SW l) with
  | Err e => Err e | OK (st', ts) => OK (st', RApp ts) end = OK r.
Proof.
  intros f U st l r IH Hw H.
  destruct (mapM (fun st y => resolve [a; b] mt f st [] (U ++ G) y) st l) as [[st' ts]|e] eqn:HM; [|discriminate].
  now rewrite (mapM_swap f U l st (st', ts) IH Hw HM).
Qed.

Theorem rename_invariance_core_proof : forall fuel st U x r,
  wfx x = true ->
  resolve [a; b] mt fuel st [] (U ++ G) x = OK r ->
  resolve [] mt fuel st [] (SE U ++ G) (SW x) = OK r.
Proof.
  induction fuel as [|f IH]; intros st U x r Hw H; [discriminate|].
  destruct x as [s|n|l|i E fv e].
  - (* bare symbol *)
    cbn [resolve idp id_name] in H |- *. cbn [swapU idp id_name].
    destruct (var_ref [a; b] [] (U ++ G) (Sym s)) as [t|e] eqn:HV; [|discriminate].
    change (Sym (sw a b s)) with (SW (Sym s)). now rewrite (var_ref_swap U (Sym s) t eq_refl HV).
  - cbn [resolve idp id_name swapU] in H |- *. exact H.
  - (* a combination *)
    cbn [swapU]. destruct l as [|h args].
    + cbn [resolve idp id_name map] in H |- *. exact H.
    + destruct (forallb_wfx_cons h args Hw) as [Hh Hargs]. cbn [wfx] in Hw.
      cbn [resolve idp id_name map] in H |- *.
      rewrite idp_swap. destruct (idp h) eqn:Hid.
      2:{ change (SW h :: map SW args) with (map SW (h :: args)). apply (app_swap f U st (h :: args) r IH Hw H). }
      pose proof (wfx_idp_wf_id h Hh Hid) as Hwid.
      destruct (lookup_g [a; b] [] (U ++ G) h) as [ro|e] eqn:HL; [|discriminate].
      rewrite (lookup_swap U h ro Hwid HL).
      destruct ro as [c|].
      2:{ change (SW h :: map SW args) with (map SW (h :: args)). apply (app_swap f U st (h :: args) r IH Hw H). }
      destruct (cval c) as [code|m| |] eqn:Hc.
      * (* core forms *)
        destruct (N.eqb code CORE_LAMBDA).
        { destruct args as [|ps [|body [|z zs]]]; try discriminate; try (destruct ps; discriminate).
          destruct ps as [| |ps|]; try discriminate.
          cbn [map swapU]. rewrite params_ok_swap. destruct (params_ok ps); [|discriminate].
          change (@nil (sexp * cell)) with (swap_al a b []) at 1. rewrite push_params_swap.
          destruct (push_params ps (st_cell st) []) as [[next' bnds] ids].
          cbn [forallb] in Hargs. apply andb_true_iff in Hargs. destruct Hargs as [_ Hb]. apply andb_true_iff in Hb. destruct Hb as [Hb _].
          destruct (resolve [a; b] mt f (set_cell st next') [] (Frame [] bnds :: U ++ G) body) as [[st' bt]|e] eqn:HB; [|discriminate].
          change (Frame [] bnds :: U ++ G) with ((Frame [] bnds :: U) ++ G) in HB.
          assert (HB' : resolve [] mt f (set_cell st next') [] (Frame [] (swap_al a b bnds) :: SE U ++ G) (SW body) = OK (st', bt))
            by exact (IH _ (Frame [] bnds :: U) _ _ Hb HB).
          rewrite HB'. exact H. }
        destruct (N.eqb code CORE_IF).
        { destruct args as [|x1 [|x2 [|x3 [|z zs]]]]; try discriminate.
          - cbn [map].
            destruct (mapM (fun st y => resolve [a; b] mt f st [] (U ++ G) y) st [x1; x2]) as [[st' ts]|e] eqn:HM; [|discriminate].
            change [SW x1; SW x2] with (map SW [x1; x2]).
            now rewrite (mapM_swap f U [x1; x2] st (st', ts) IH Hargs HM).
          - cbn [map].
            destruct (mapM (fun st y => resolve [a; b] mt f st [] (U ++ G) y) st [x1; x2; x3]) as [[st' ts]|e] eqn:HM; [|discriminate].
            change [SW x1; SW x2; SW x3] with (map SW [x1; x2; x3]).
            now rewrite (mapM_swap f U [x1; x2; x3] st (st', ts) IH Hargs HM). }
        destruct (N.eqb code CORE_QUOTE).
        { destruct args as [|d [|z zs]]; try discriminate. cbn [map].
          destruct (mentions [a; b] d) eqn:Hm; [discriminate|].
          rewrite (mentions_swap d Hm). cbn [mentions]. 
          assert (HE : mentions [] d = false).
          { clear. revert d. fix IHd 1. destruct d as [s|n|l|i E fv e]; cbn [mentions]; try reflexivity.
            induction l as [|y r IHr]; cbn [existsb]; [reflexivity|]. now rewrite IHd, IHr. }
          rewrite HE. exact H. }
        destruct (N.eqb code CORE_SET).
        { destruct args as [|tg [|v [|z zs]]]; try discriminate. cbn [map]. rewrite idp_swap.
          apply andb_true_iff in Hargs. destruct Hargs as [Htg Hv]. apply andb_true_iff in Hv. destruct Hv as [Hv _].
          destruct (idp tg) eqn:Hitg; [|discriminate].
          destruct (var_ref [a; b] [] (U ++ G) tg) as [tr|e] eqn:HV; [|discriminate].
          rewrite (var_ref_swap U tg tr (wfx_idp_wf_id tg Htg Hitg) HV).
          destruct (resolve [a; b] mt f st [] (U ++ G) v) as [[st' tv]|e] eqn:HR; [|discriminate].
          now rewrite (IH _ _ _ _ Hv HR). }
        destruct (N.eqb code CORE_LET_SYNTAX || N.eqb code CORE_LETREC_SYNTAX); discriminate.
      * (* macro use *)
        destruct (nth_error (mt ++ st_dyn st) (N.to_nat m)) as [mac|]; [|discriminate].
        destruct (expand mac args (st_clo st)) as [[nclo x']|] eqn:HX; [|discriminate].
        rewrite (expand_equivariant_proof a b mac args (st_clo st) nclo x' HX).
        apply IH; [exact (expand_wfx mac args (st_clo st) nclo x' Hargs HX)|exact H].
      * change (SW h :: map SW args) with (map SW (h :: args)). apply (app_swap f U st (h :: args) r IH Hw H).
      * change (SW h :: map SW args) with (map SW (h :: args)). apply (app_swap f U st (h :: args) r IH Hw H).
  - (* a renamed template symbol *)
    pose proof (wfx_clo_idp i E fv e Hw) as Hid.
    pose proof (wfx_idp_wf_id _ Hw Hid) as Hwid.
    cbn [wfx] in Hw. destruct fv; [|discriminate]. destruct e as [s'| | |]; try discriminate.
    cbn [resolve idp id_name swapU] in H |- *.
    destruct (var_ref [a; b] [] (U ++ G) (Clo i E [] (Sym s'))) as [t|e] eqn:HV; [|discriminate].
    pose proof (var_ref_swap U _ t Hwid HV) as HV'. cbn [swapU] in HV'. now rewrite HV'.
Qed.

End Core.

Theorem rename_invariance_core_thm : forall a b mt G fuel st U x r,
  no_local G -> wfx x = true ->
  resolve [a; b] mt fuel st [] (U ++ G) x = OK r ->
  resolve [] mt fuel st [] (swap_env a b U ++ G) (swapU a b x) = OK r.
Proof. intros a b mt G fuel st U x r HG. exact (rename_invariance_core_proof a b mt G HG fuel st U x r). Qed.

(** non-vacuity: the program of ExpandProofs.v — (lambda (x) (or2 x 5)), x renamed to `if` — satisfies the
    hypotheses; a nested program with two user binders, a macro-introduced binder handed on to another macro
    use, set! and quoted template data *)
Lemma no_local_Gm : no_local Gm.
Proof.
  unfold no_local, Gm. apply Forall_cons; [|apply Forall_nil]. split; intros k c Hin; cbn [f_renames f_bindings In] in Hin.
  - contradiction.
  - repeat (destruct Hin as [Hin|Hin]; [inversion Hin; reflexivity|]). contradiction.
Qed.
Example ex_core_hyps : wfx prog = true /\ exists r, resolve [40; 10]%N [or2] 20 ((1000, 1)%N, []) [] ([] ++ Gm) prog = OK r.
Proof. split; [reflexivity|]. eexists. vm_compute. reflexivity. Qed.
Example ex_core_instance :
  resolve [] [or2] 20 ((1000, 1)%N, []) [] Gm (swapU 40 10 prog)
  = resolve [40; 10]%N [or2] 20 ((1000, 1)%N, []) [] Gm prog.
Proof.
  destruct ex_core_hyps as [Hw [r Hr]].
  pose proof (rename_invariance_core_proof 40 10 [or2] Gm no_local_Gm 20 ((1000, 1)%N, []) [] prog r Hw Hr) as H.
  change (swap_env 40 10 [] ++ Gm) with Gm in H. change ([] ++ Gm) with Gm in Hr. now rewrite H, Hr.
Qed.
