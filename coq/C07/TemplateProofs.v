(** C07 — proofs about the expand-template model (Template.v), round 4.

    template_output_clean          every identifier of the instantiated template that does not come from a
                                   pattern variable's value is a renamed identifier ([TRen]) — at every
                                   ellipsis depth, under ellipsis escapes, in vectors and dotted tails, for
                                   every ellipsis identifier
    escape_unwraps / escaped_compiles_alike / escaped_plain_template
                                   (... tmpl) is compiled exactly like tmpl with the ellipsis switched off,
                                   and for a tmpl without ellipsis identifiers exactly like tmpl itself
    plain_template_is_substitution ellipsis-free templates: the generated code computes the substitution
    literal_ellipsis               (... ...) is the renamed ellipsis identifier
    compile_fuel_suffices          fuel > size never runs out *)
From Coq Require Import NArith List Bool Arith Lia.
From ChibiV Require Import C07.Template.
Import ListNotations.

Fixpoint code_clean (k : code) : bool :=
  match k with
  | CConst t => nobare t
  | CCons a d => code_clean a && code_clean d
  | CVec x => code_clean x
  | CMap _ b => code_clean b
  | CFlat x => code_clean x
  | CAppend a b => code_clean a && code_clean b
  | _ => true
  end.

Lemma iter_flat_clean : forall n k, code_clean (iter_flat n k) = code_clean k.
Proof. induction n; intros k; cbn [iter_flat]; auto. rewrite IHn. reflexivity. Qed.

Lemma compile_clean : forall fuel c vars t dim esc k,
  compile c vars fuel t dim esc = TOK k -> code_clean k = true.
Proof.
  induction fuel as [|f IH]; intros c vars t dim esc k H; [discriminate|].
  cbn [compile] in H. destruct t as [s|s|n|u| |t1 t2|l].
  - destruct (assocN s vars); [destruct (Nat.leb n dim)|]; inversion H; reflexivity.
  - discriminate.
  - inversion H; reflexivity.
  - discriminate.
  - inversion H; reflexivity.
  - destruct (escape_p c (TPair t1 t2) && negb esc).
    + eapply IH; eauto.
    + destruct (ellipsis_p c (TPair t1 t2) && negb esc).
      * cbv zeta in H. destruct (fv vars (dim + ellipsis_depth c (TPair t1 t2)) t1 []) eqn:Efv; [discriminate|].
        destruct ((match t2 with TPair _ TNil => true | _ => false end) && is_sym t1).
        -- eapply IH; eauto.
        -- destruct (compile c vars f t1 (dim + ellipsis_depth c (TPair t1 t2)) esc) eqn:E1; [|discriminate].
           destruct (ellipsis_tail c (TPair t1 t2)) eqn:Et;
           try (match type of H with context [compile c vars f ?x dim esc] =>
                       destruct (compile c vars f x dim esc) eqn:E2; [|discriminate] end;
                     inversion H; subst; cbn [code_clean]; rewrite iter_flat_clean; cbn [code_clean];
                     rewrite (IH _ _ _ _ _ _ E1), (IH _ _ _ _ _ _ E2); reflexivity).
           inversion H; subst. rewrite iter_flat_clean. cbn [code_clean]. eapply IH; eauto.
      * destruct (compile c vars f t1 dim esc) eqn:E1; [|discriminate].
        destruct (compile c vars f t2 dim esc) eqn:E2; [|discriminate].
        inversion H; subst. cbn [code_clean]. rewrite (IH _ _ _ _ _ _ E1), (IH _ _ _ _ _ _ E2). reflexivity.
  - destruct (compile c vars f l dim esc) eqn:E1; [|discriminate]. inversion H; subst. cbn [code_clean]. eauto.
Qed.

Definition clean (x : tm) : Prop := nobare x = true.
Definition env_clean (rho : tenv) : Prop := forall s v, assocN s rho = Some v -> nobare v = true.

Lemma nobare_tm_list : forall t, nobare t = true -> Forall clean (tm_list t).
Proof.
  induction t; cbn [tm_list nobare]; intros H; try constructor.
  - apply andb_true_iff in H. destruct H as [H1 H2]. exact H1.
  - apply andb_true_iff in H. destruct H as [H1 H2]. auto.
Qed.

Lemma of_list_clean : forall l, Forall clean l -> nobare (of_list l) = true.
Proof. induction 1 as [|x l Hx Hl IH]; cbn; auto. rewrite Hx. exact IH. Qed.

Lemma tm_app_clean : forall x y, Forall clean (tm_list x) -> nobare y = true -> nobare (tm_app x y) = true.
Proof.
  intros x y. unfold tm_app. generalize (tm_list x). induction l as [|a l IH]; intros HF Hy; cbn; auto.
  inversion HF as [|? ? Ha Hl]; subst. rewrite Ha. cbn. auto.
Qed.

Lemma map_opt_Forall : forall (A B : Type) (f : A -> option B) (P : B -> Prop) l r,
  map_opt f l = Some r -> (forall a b, In a l -> f a = Some b -> P b) -> Forall P r.
Proof.
  intros A B f P. induction l as [|a l IH]; cbn [map_opt]; intros r H HP.
  - inversion H; constructor.
  - destruct (f a) eqn:Ea; [|discriminate]. destruct (map_opt f l) eqn:El; [|discriminate].
    inversion H; subst. constructor.
    + eapply HP; [left; reflexivity|exact Ea].
    + apply IH; auto. intros a0 b0 Hin. apply HP. right; exact Hin.
Qed.

Lemma assocN_app : forall (A : Type) s (l1 l2 : list (N * A)),
  assocN s (l1 ++ l2) = match assocN s l1 with Some v => Some v | None => assocN s l2 end.
Proof. induction l1 as [|[k v] l1 IH]; intros l2; cbn; auto. destruct (N.eqb k s); auto. Qed.

Lemma assocN_combine_In : forall s vs (r : list tm) v, assocN s (combine vs r) = Some v -> In v r.
Proof.
  induction vs as [|a vs IH]; intros r v H; destruct r as [|x r]; cbn in H; try discriminate.
  destruct (N.eqb a s).
  - inversion H; left; reflexivity.
  - right; eapply IH; eauto.
Qed.

Lemma eval_clean : forall k rho out,
  code_clean k = true -> env_clean rho -> eval k rho = Some out -> nobare out = true.
Proof.
  induction k as [s|s|t|a IHa d IHd|x IHx|vs body IHb|x IHx|a IHa b IHb]; intros rho out Hc Hr He;
    cbn [eval code_clean] in *.
  - eapply Hr; eauto.
  - inversion He; reflexivity.
  - inversion He; subst; auto.
  - apply andb_true_iff in Hc. destruct Hc as [Hc1 Hc2].
    destruct (eval a rho) eqn:Ea; [|discriminate]. destruct (eval d rho) eqn:Ed; [|discriminate].
    inversion He; subst. cbn. rewrite (IHa _ _ Hc1 Hr Ea), (IHd _ _ Hc2 Hr Ed). reflexivity.
  - destruct (eval x rho) eqn:Ex; [|discriminate]. inversion He; subst. cbn. eauto.
  - destruct (map_opt (fun v => assocN v rho) vs) as [vals|] eqn:Ev; [|discriminate].
    destruct (map_opt _ (seq 0 (min_len (map tm_list vals)))) as [outs|] eqn:Eo; [|discriminate].
    inversion He; subst. apply of_list_clean.
    assert (Hvals : Forall clean vals).
    { eapply map_opt_Forall; [exact Ev|]. intros v b _ Hb. cbv beta in Hb. unfold clean. eapply Hr; exact Hb. }
    eapply map_opt_Forall; [exact Eo|]. intros i o _ Ho. cbv beta in Ho.
    eapply IHb; [exact Hc| |exact Ho].
    intros s v Hs. rewrite assocN_app in Hs.
    destruct (assocN s (combine vs (row (map tm_list vals) i))) eqn:Ec.
    + inversion Hs; subst. apply assocN_combine_In in Ec. unfold row in Ec.
      apply in_map_iff in Ec. destruct Ec as [col [Hn Hcol]].
      apply in_map_iff in Hcol. destruct Hcol as [val [Hv Hin]]. subst col.
      rewrite Forall_forall in Hvals. specialize (Hvals _ Hin).
      apply nobare_tm_list in Hvals. rewrite Forall_forall in Hvals.
      destruct (nth_in_or_default i (tm_list val) TNil) as [Hi|Hi].
      * rewrite Hn in Hi. apply Hvals; exact Hi.
      * try rewrite Hn in Hi. try subst v. rewrite Hi. reflexivity.
    + eapply Hr; eauto.
  - destruct (eval x rho) eqn:Ex; [|discriminate]. inversion He; subst.
    specialize (IHx _ _ Hc Hr Ex). apply nobare_tm_list in IHx.
    induction IHx as [|y l Hy Hl IH]; cbn; auto.
    apply tm_app_clean; auto. apply nobare_tm_list; exact Hy.
  - apply andb_true_iff in Hc. destruct Hc as [Hc1 Hc2].
    destruct (eval a rho) eqn:Ea; [|discriminate]. destruct (eval b rho) eqn:Eb; [|discriminate].
    inversion He; subst. apply tm_app_clean; eauto. apply nobare_tm_list; eauto.
Qed.

(** THE hygiene statement for templates *)
Lemma template_output_clean : forall c vars fuel t rho out,
  (forall s v, assocN s rho = Some v -> nobare v = true) ->
  expand_template c vars fuel t rho = Some out -> nobare out = true.
Proof.
  intros c vars fuel t rho out Hr H. unfold expand_template in H.
  destruct (compile c vars fuel t 0 false) eqn:Ek; [|discriminate].
  eapply eval_clean; eauto. eapply compile_clean; eauto.
Qed.

(** at any depth / escape state, for the compiled code run in any clean environment *)
Lemma template_code_clean : forall c vars fuel t dim esc k rho out,
  compile c vars fuel t dim esc = TOK k ->
  (forall s v, assocN s rho = Some v -> nobare v = true) ->
  eval k rho = Some out -> nobare out = true.
Proof. intros. eapply eval_clean; eauto. eapply compile_clean; eauto. Qed.

(** *** the ellipsis escape *)
Lemma escape_unwraps : forall c vars f x dim,
  ell_off c = false ->
  compile c vars (S f) (TPair (TSym (ell c)) (TPair x TNil)) dim false = compile c vars f x dim true.
Proof.
  intros c vars f x dim Hoff. cbn [compile escape_p mark]. rewrite Hoff, N.eqb_refl. reflexivity.
Qed.

Lemma nomark_mark : forall c a, nomark c a = true -> mark c a = false.
Proof.
  intros c a H. destruct a; cbn [mark]; try reflexivity.
  cbn [nomark] in H. apply negb_true_iff in H. exact H.
Qed.

Lemma escaped_compiles_alike : forall fuel c vars t dim,
  nomark c t = true -> compile c vars fuel t dim true = compile c vars fuel t dim false.
Proof.
  induction fuel as [|f IH]; intros c vars t dim H; [reflexivity|].
  cbn [compile]. destruct t as [s|s|n|u| |t1 t2|l]; try reflexivity.
  - cbn [nomark] in H. apply andb_true_iff in H. destruct H as [H1 H2].
    assert (He : escape_p c (TPair t1 t2) = false) by (cbn [escape_p]; apply nomark_mark; exact H1).
    assert (Hl : ellipsis_p c (TPair t1 t2) = false).
    { cbn [ellipsis_p]. destruct t2; try reflexivity. cbn [nomark] in H2.
      apply andb_true_iff in H2. destruct H2 as [H2 _]. apply nomark_mark; exact H2. }
    rewrite He, Hl. cbn [andb]. rewrite (IH c vars t1 dim H1), (IH c vars t2 dim H2). reflexivity.
  - cbn [nomark] in H. rewrite (IH c vars l dim H). reflexivity.
Qed.

Lemma escaped_plain_template : forall c vars f x dim,
  ell_off c = false -> nomark c x = true ->
  compile c vars (S f) (TPair (TSym (ell c)) (TPair x TNil)) dim false = compile c vars f x dim false.
Proof. intros. rewrite escape_unwraps by assumption. apply escaped_compiles_alike; assumption. Qed.

Lemma literal_ellipsis : forall c vars f dim,
  ell_off c = false -> assocN (ell c) vars = None ->
  compile c vars (S (S f)) (TPair (TSym (ell c)) (TPair (TSym (ell c)) TNil)) dim false = TOK (CRen (ell c)).
Proof.
  intros c vars f dim Hoff Hv. rewrite escape_unwraps by assumption. cbn [compile]. rewrite Hv. reflexivity.
Qed.

(** *** ellipsis-free templates are plain substitution *)
Lemma plain_template_is_substitution : forall fuel c vars t dim esc k rho,
  nomark c t = true ->
  (forall s d, assocN s vars = Some d -> assocN s rho <> None) ->
  compile c vars fuel t dim esc = TOK k ->
  eval k rho = Some (subst vars rho t).
Proof.
  induction fuel as [|f IH]; intros c vars t dim esc k rho Hm Hv H; [discriminate|].
  cbn [compile] in H. destruct t as [s|s|n|u| |t1 t2|l]; try discriminate.
  - cbn [subst]. destruct (assocN s vars) as [d|] eqn:Es.
    + destruct (Nat.leb d dim); [|discriminate]. inversion H; subst. cbn [eval].
      specialize (Hv _ _ Es). destruct (assocN s rho); [reflexivity|congruence].
    + inversion H; subst. reflexivity.
  - inversion H; subst. reflexivity.
  - inversion H; subst. reflexivity.
  - cbn [nomark] in Hm. apply andb_true_iff in Hm. destruct Hm as [H1 H2].
    assert (He : escape_p c (TPair t1 t2) = false) by (cbn [escape_p]; apply nomark_mark; exact H1).
    assert (Hl : ellipsis_p c (TPair t1 t2) = false).
    { cbn [ellipsis_p]. destruct t2; try reflexivity. cbn [nomark] in H2.
      apply andb_true_iff in H2. destruct H2 as [H2 _]. apply nomark_mark; exact H2. }
    rewrite He, Hl in H. cbn [andb] in H.
    destruct (compile c vars f t1 dim esc) eqn:E1; [|discriminate].
    destruct (compile c vars f t2 dim esc) eqn:E2; [|discriminate].
    inversion H; subst. cbn [eval subst].
    rewrite (IH _ _ _ _ _ _ rho H1 Hv E1), (IH _ _ _ _ _ _ rho H2 Hv E2). reflexivity.
  - cbn [nomark] in Hm. destruct (compile c vars f l dim esc) eqn:E1; [|discriminate].
    inversion H; subst. cbn [eval subst]. rewrite (IH _ _ _ _ _ _ rho Hm Hv E1). reflexivity.
Qed.


(** under an escape the whole template — ellipsis identifiers included — is plain substitution *)
Lemma escaped_template_is_substitution : forall fuel c vars t dim k rho,
  (forall s d, assocN s vars = Some d -> assocN s rho <> None) ->
  compile c vars fuel t dim true = TOK k ->
  eval k rho = Some (subst vars rho t).
Proof.
  induction fuel as [|f IH]; intros c vars t dim k rho Hv H; [discriminate|].
  cbn [compile] in H. destruct t as [s|s|n|u| |t1 t2|l]; try discriminate.
  - cbn [subst]. destruct (assocN s vars) as [d|] eqn:Es.
    + destruct (Nat.leb d dim); [|discriminate]. inversion H; subst. cbn [eval].
      specialize (Hv _ _ Es). destruct (assocN s rho); [reflexivity|congruence].
    + inversion H; subst. reflexivity.
  - inversion H; subst. reflexivity.
  - inversion H; subst. reflexivity.
  - cbn [negb] in H. rewrite !andb_false_r in H.
    destruct (compile c vars f t1 dim true) eqn:E1; [|discriminate].
    destruct (compile c vars f t2 dim true) eqn:E2; [|discriminate].
    inversion H; subst. cbn [eval subst].
    rewrite (IH _ _ _ _ _ rho Hv E1), (IH _ _ _ _ _ rho Hv E2). reflexivity.
  - destruct (compile c vars f l dim true) eqn:E1; [|discriminate].
    inversion H; subst. cbn [eval subst]. rewrite (IH _ _ _ _ _ rho Hv E1). reflexivity.
Qed.

(** the form (... x) as a whole rule body *)
Lemma escape_form_is_substitution : forall c vars f x rho out,
  ell_off c = false ->
  (forall s d, assocN s vars = Some d -> assocN s rho <> None) ->
  expand_template c vars (S f) (TPair (TSym (ell c)) (TPair x TNil)) rho = Some out ->
  out = subst vars rho x.
Proof.
  intros c vars f x rho out Hoff Hv H. unfold expand_template in H.
  rewrite escape_unwraps in H by assumption.
  destruct (compile c vars f x 0 true) eqn:Ek; [|discriminate].
  rewrite (escaped_template_is_substitution _ _ _ _ _ _ rho Hv Ek) in H. inversion H; reflexivity.
Qed.

(** subst renames every identifier that is not a pattern variable: no bare identifier is left *)
Lemma subst_clean : forall vars rho t,
  (forall s v, assocN s rho = Some v -> nobare v = true) -> nobare (subst vars rho t) = true.
Proof.
  intros vars rho t Hr. induction t as [s|s|n|u| |t1 IH1 t2 IH2|l IHl]; cbn [subst nobare]; auto.
  - destruct (assocN s vars); [|reflexivity]. destruct (assocN s rho) eqn:E; [eapply Hr; eauto|reflexivity].
  - rewrite IH1, IH2. reflexivity.
Qed.

(** *** fuel *)
Lemma size_pos : forall t, 1 <= size t.
Proof. destruct t; cbn; lia. Qed.

Lemma ellipsis_tail_size : forall c t, size (ellipsis_tail c t) <= size t.
Proof.
  induction t as [s|s|n|u| |t1 IH1 t2 IH2|l IHl]; cbn [ellipsis_tail size]; try lia.
  destruct t2 as [s|s|n|u| |b r|l]; cbn [size]; try lia.
  destruct (mark c b); [|cbn [size]; lia]. cbn [size] in IH2. lia.
Qed.

Lemma ellipsis_tail_pair_size : forall c a d, size (ellipsis_tail c (TPair a d)) <= size d.
Proof.
  intros c a d. cbn [ellipsis_tail]. destruct d as [s|s|n|u| |b r|l]; try lia.
  destruct (mark c b); [|lia]. apply ellipsis_tail_size.
Qed.

Lemma compile_fuel_suffices : forall fuel c vars t dim esc,
  size t < fuel -> compile c vars fuel t dim esc <> TErr E_FUEL.
Proof.
  induction fuel as [|f IH]; intros c vars t dim esc Hs; [lia|].
  cbn [compile]. destruct t as [s|s|n|u| |t1 t2|l]; try discriminate.
  - destruct (assocN s vars); [destruct (Nat.leb n dim)|]; discriminate.
  - cbn [size] in Hs. pose proof (size_pos t1). pose proof (size_pos t2).
    destruct (escape_p c (TPair t1 t2) && negb esc).
    + apply IH. destruct t2 as [s|s|n|u| |x r|l]; cbn [size] in *; try lia.
      destruct r; cbn [size] in *; lia.
    + destruct (ellipsis_p c (TPair t1 t2) && negb esc).
      * cbv zeta. destruct (fv vars (dim + ellipsis_depth c (TPair t1 t2)) t1 []); [discriminate|].
        destruct ((match t2 with TPair _ TNil => true | _ => false end) && is_sym t1).
        -- apply IH; lia.
        -- assert (H1 := IH c vars t1 (dim + ellipsis_depth c (TPair t1 t2)) esc ltac:(lia)).
           destruct (compile c vars f t1 (dim + ellipsis_depth c (TPair t1 t2)) esc) as [once|e] eqn:E1;
             [|intros Hc; inversion Hc; subst; apply H1; reflexivity].
           pose proof (ellipsis_tail_pair_size c t1 t2) as Hts.
           destruct (ellipsis_tail c (TPair t1 t2)) eqn:Et; try discriminate;
           match goal with |- context [compile c vars f ?x dim esc] =>
                  assert (H2 := IH c vars x dim esc ltac:(lia));
                  destruct (compile c vars f x dim esc) eqn:E2; [discriminate|];
                  intros Hc; inversion Hc; subst; apply H2; reflexivity end.
      * assert (H1 := IH c vars t1 dim esc ltac:(lia)). assert (H2 := IH c vars t2 dim esc ltac:(lia)).
        destruct (compile c vars f t1 dim esc); [|intros Hc; inversion Hc; subst; apply H1; reflexivity].
        destruct (compile c vars f t2 dim esc); [discriminate|intros Hc; inversion Hc; subst; apply H2; reflexivity].
  - cbn [size] in Hs. assert (H1 := IH c vars l dim esc ltac:(lia)).
    destruct (compile c vars f l dim esc); [discriminate|intros Hc; inversion Hc; subst; apply H1; reflexivity].
Qed.

(** *** non-vacuity *)
Definition DOTS : N := 900.
Definition c0 : cfg := mkcfg DOTS false.
Definition L (l : list tm) : tm := fold_right TPair TNil l.

(** ((_ a (b ...) ...) => (... (plus a tmp)), b-groups unused: the escaped template inserts plus and tmp *)
Example ex_escape :
  expand_template c0 [(1%N, 0)] 50 (L [TSym DOTS; L [TSym 10%N; TSym 1%N; TSym 11%N]]) [(1%N, TUser 7%N)]
  = Some (L [TRen 10%N; TUser 7%N; TRen 11%N]).
Proof. vm_compute. reflexivity. Qed.

(** (plus (times a ((... plus) 0 b ...)) ...) with a at depth 1, b at depth 2 *)
Example ex_nested :
  expand_template c0 [(1%N, 1); (2%N, 2)] 50
    (L [TSym 10%N; L [TSym 12%N; TSym 1%N; L [L [TSym DOTS; TSym 10%N]; TNum 0%N; TSym 2%N; TSym DOTS]]; TSym DOTS])
    [(1%N, L [TUser 1%N; TUser 2%N]); (2%N, L [L [TUser 3%N; TUser 4%N]; L []])]
  = Some (L [TRen 10%N;
             L [TRen 12%N; TUser 1%N; L [TRen 10%N; TNum 0%N; TUser 3%N; TUser 4%N]];
             L [TRen 12%N; TUser 2%N; L [TRen 10%N; TNum 0%N]]]).
Proof. vm_compute. reflexivity. Qed.

(** (x ... ...) flattens; (... ...) is the renamed ellipsis; vector and dotted tail *)
Example ex_flat_vec_dotted :
  expand_template c0 [(1%N, 2)] 50
    (TPair (TVec (L [TSym 1%N; TSym DOTS; TSym DOTS; L [TSym DOTS; TSym DOTS]])) (TSym 13%N))
    [(1%N, L [L [TUser 1%N]; L [TUser 2%N; TUser 3%N]])]
  = Some (TPair (TVec (L [TUser 1%N; TUser 2%N; TUser 3%N; TRen DOTS])) (TRen 13%N)).
Proof. vm_compute. reflexivity. Qed.

Example ex_too_few : compile c0 [(1%N, 1)] 50 (L [TSym 10%N; TSym 1%N]) 0 false = TErr E_TOO_FEW.
Proof. vm_compute. reflexivity. Qed.
Example ex_too_many : compile c0 [(1%N, 0)] 50 (L [TSym 1%N; TSym DOTS]) 0 false = TErr E_TOO_MANY.
Proof. vm_compute. reflexivity. Qed.
(** custom ellipsis 901: `...` (900) is then an ordinary identifier *)
Example ex_custom :
  expand_template (mkcfg 901%N false) [(1%N, 1)] 50 (L [TSym DOTS; TSym 1%N; TSym 901%N]) [(1%N, L [TUser 1%N; TUser 2%N])]
  = Some (L [TRen DOTS; TUser 1%N; TUser 2%N]).
Proof. vm_compute. reflexivity. Qed.
(** (... (s10 a ... (... ...))) : everything under the escape is substituted / renamed, nothing repeated *)
Example ex_escape_subst :
  expand_template c0 [(1%N, 0)] 50 (L [TSym DOTS; L [TSym 10%N; TSym 1%N; TSym DOTS; L [TSym DOTS; TSym DOTS]]]) [(1%N, TUser 7%N)]
  = Some (L [TRen 10%N; TUser 7%N; TRen DOTS; L [TRen DOTS; TRen DOTS]]).
Proof. vm_compute. reflexivity. Qed.
(** the hypotheses of plain_template_is_substitution / escaped_plain_template on a real template *)
Example ex_plain_hyps :
  nomark c0 (L [TSym 10%N; TSym 1%N; TVec (L [TSym 11%N])]) = true /\ ell_off c0 = false.
Proof. vm_compute. auto. Qed.
