(** C07 — proofs about stripping syntactic closures from quoted data (Strip.v).

    Symbols a macro template inserts inside a QUOTE are data: after analysis they must be the plain
    symbols wherever they sit in the datum — car at any depth, any cdr of the chain, the DOTTED TAIL, any
    vector slot, under further closure layers.  sexp_strip_synclos is two-staged: a predicate decides
    whether the datum is copied at all; so the predicate must be COMPLETE (true whenever a closure
    occurs anywhere within the bound), and the copy must remove every closure. *)
From Coq Require Import NArith List Bool Lia PeanoNat.
From ChibiV Require Import C07.Env C07.Strip.
Import ListNotations.

Section DatumInd.
  Variable P : datum -> Prop.
  Hypothesis Hs : forall s, P (DSym s).
  Hypothesis Hl : forall n, P (DLit n).
  Hypothesis Hn : P DNil.
  Hypothesis Hp : forall a d, P a -> P d -> P (DPair a d).
  Hypothesis Hv : forall l, Forall P l -> P (DVec l).
  Hypothesis Hc : forall i e, P e -> P (DClo i e).
  Fixpoint datum_ind' (x : datum) : P x :=
    match x with
    | DSym s => Hs s
    | DLit n => Hl n
    | DNil => Hn
    | DPair a d => Hp a d (datum_ind' a) (datum_ind' d)
    | DVec l => Hv l ((fix go (l : list datum) : Forall P l :=
                         match l with
                         | [] => Forall_nil P
                         | y :: r => Forall_cons y (datum_ind' y) (go r)
                         end) l)
    | DClo i e => Hc i e (datum_ind' e)
    end.
End DatumInd.

Lemma existsb_ext_in : forall (A : Type) (f g : A -> bool) l,
  (forall y, In y l -> f y = g y) -> existsb f l = existsb g l.
Proof.
  induction l as [|y r IH]; intros H; cbn [existsb]; [reflexivity|].
  rewrite (H y (or_introl eq_refl)). f_equal. apply IH. intros z Hz. apply H. now right.
Qed.

Lemma map_ext_in' : forall (A B : Type) (f g : A -> B) l,
  (forall y, In y l -> f y = g y) -> map f l = map g l.
Proof.
  induction l as [|y r IH]; intros H; cbn [map]; [reflexivity|].
  rewrite (H y (or_introl eq_refl)). f_equal. apply IH. intros z Hz. apply H. now right.
Qed.

Lemma hgt_vec_in : forall l y, In y l -> hgt y <= fold_right (fun y m => Nat.max (hgt y) m) 0 l.
Proof.
  induction l as [|z r IH]; intros y Hin; [contradiction|]. cbn [fold_right].
  destruct Hin as [->|Hin]; [lia|]. specialize (IH y Hin). lia.
Qed.

(** ** the predicate *)
Lemma cloop_spec : forall d,
  (forall y, hgt y < d -> contains d y = has_clo y) ->
  forall ls, match ls with DPair _ _ => hgt ls < S d | _ => hgt ls < d end ->
  cloop (contains d) ls = has_clo ls.
Proof.
  intros d IH ls. induction ls as [s|n| |a r _ IHr|l _|i e _] using datum_ind'; intros H; cbn [cloop];
    try (apply IH; exact H).
  cbn [hgt] in H. cbn [has_clo]. rewrite (IH a) by lia.
  destruct (has_clo a); [reflexivity|]. cbn [orb]. apply IHr.
  destruct r; cbn [hgt] in *; lia.
Qed.

Theorem contains_exact : forall depth x, hgt x < depth -> contains depth x = has_clo x.
Proof.
  induction depth as [|d IH]; intros x H; [lia|].
  destruct x as [s|n| |a r|l|i e]; cbn [contains has_clo]; try reflexivity.
  - change (has_clo a || has_clo r) with (has_clo (DPair a r)). apply cloop_spec; [exact IH|exact H].
  - apply existsb_ext_in. intros y Hy. apply IH. cbn [hgt] in H. pose proof (hgt_vec_in l y Hy). lia.
Qed.

(** completeness, as the property needs it: a closure ANYWHERE in the datum (within the bound) makes the
    predicate true, so the datum is copied *)
Theorem contains_syntax_complete_proof : forall depth x,
  hgt x < depth -> has_clo x = true -> contains depth x = true.
Proof. intros depth x H Hc. now rewrite contains_exact. Qed.

(** soundness needs no bound: the predicate never reports a closure that is not there *)
Lemma cloop_sound : forall f, (forall y, f y = true -> has_clo y = true) ->
  forall ls, cloop f ls = true -> has_clo ls = true.
Proof.
  intros f Hf ls. induction ls as [s|n| |a r _ IHr|l _|i e _] using datum_ind'; cbn [cloop]; intros H;
    try (apply Hf; exact H).
  cbn [has_clo]. destruct (f a) eqn:Ha; [rewrite (Hf a Ha); reflexivity|]. rewrite (IHr H). apply orb_true_r.
Qed.

Theorem contains_sound_proof : forall depth x, contains depth x = true -> has_clo x = true.
Proof.
  induction depth as [|d IH]; intros x H.
  - destruct x; cbn [contains] in H; try discriminate. reflexivity.
  - destruct x as [s|n| |a r|l|i e]; cbn [contains] in H; try discriminate; try reflexivity.
    + apply (cloop_sound (contains d) IH). exact H.
    + cbn [has_clo]. apply existsb_exists in H. destruct H as (y & Hin & Hy).
      apply existsb_exists. exists y. split; [exact Hin|apply IH; exact Hy].
Qed.

(** ** the copy *)
Lemma strip_spec_did : forall x,
  strip_spec x = match did_name x with
                 | DPair a r => DPair (strip_spec a) (strip_spec r)
                 | DVec l => DVec (map strip_spec l)
                 | y => y
                 end.
Proof. induction x; cbn [strip_spec did_name]; try reflexivity. exact IHx. Qed.

Lemma hgt_did : forall x, hgt (did_name x) = hgt x.
Proof. induction x; cbn [hgt did_name]; try reflexivity. exact IHx. Qed.

Theorem strip_b_exact : forall depth x, hgt x < depth -> strip_b depth x = strip_spec x.
Proof.
  induction depth as [|d IH]; intros x H; [lia|].
  cbn [strip_b]. rewrite strip_spec_did. rewrite <- hgt_did in H.
  destruct (did_name x) as [s|n| |a r|l|i e]; try reflexivity.
  - cbn [hgt] in H. rewrite (IH a), (IH r) by lia. reflexivity.
  - f_equal. apply map_ext_in'. intros y Hy. apply IH. cbn [hgt] in H. pose proof (hgt_vec_in l y Hy). lia.
Qed.

Lemma has_clo_strip_spec : forall x, has_clo (strip_spec x) = false.
Proof.
  induction x as [s|n| |a r IHa IHr|l IHl|i e IHe] using datum_ind'; cbn [strip_spec has_clo]; try reflexivity.
  - now rewrite IHa, IHr.
  - induction IHl as [|y r Hy _ IHr]; cbn [map existsb]; [reflexivity|]. now rewrite Hy, IHr.
  - exact IHe.
Qed.

(** the fast path is correct: a datum without closures is its own stripped form *)
Lemma strip_spec_id : forall x, has_clo x = false -> strip_spec x = x.
Proof.
  induction x as [s|n| |a r IHa IHr|l IHl|i e IHe] using datum_ind'; cbn [strip_spec has_clo]; intros H;
    try reflexivity; try discriminate.
  - apply orb_false_elim in H. destruct H as [Ha Hr]. now rewrite IHa, IHr.
  - f_equal. induction IHl as [|y r Hy _ IHr]; cbn [map]; [reflexivity|].
    cbn [existsb] in H. apply orb_false_elim in H. destruct H as [Hy' Hr']. now rewrite Hy, IHr.
Qed.

Theorem strip_idempotent_proof : forall x, strip_spec (strip_spec x) = strip_spec x.
Proof. intros x. apply strip_spec_id. apply has_clo_strip_spec. Qed.

(** ** the two stages together = the specification, within the bound *)
Theorem strip_correct_proof : forall bound x, hgt x < bound -> strip_synclos bound x = strip_spec x.
Proof.
  intros bound x H. unfold strip_synclos. rewrite contains_exact by exact H.
  destruct (has_clo x) eqn:Hc.
  - now apply strip_b_exact.
  - symmetry. now apply strip_spec_id.
Qed.

Theorem strip_leaves_no_closure_proof : forall bound x, hgt x < bound -> has_clo (strip_synclos bound x) = false.
Proof. intros. rewrite strip_correct_proof by assumption. apply has_clo_strip_spec. Qed.

(** exactly the closure-free data are left alone *)
Theorem strip_spec_no_clo_fixpoint : forall x, has_clo x = false <-> strip_spec x = x.
Proof.
  intros x; split; [apply strip_spec_id|]. intros H. rewrite <- H. apply has_clo_strip_spec.
Qed.

(** ** the simple model of Env.v ([strip] on proper lists, used by [resolve] for quote) is this
    specification on the embedded data *)
Lemma strip_embed : forall x, strip_spec (embed x) = embed (strip x).
Proof.
  fix IH 1. destruct x as [s|n|l|i E fv e]; cbn [embed strip strip_spec]; try reflexivity.
  - induction l as [|y r IHr]; cbn [map fold_right strip_spec]; [reflexivity|]. now rewrite IH, IHr.
  - apply IH.
Qed.

(** ** non-vacuity and the position classes: a single closure at exactly one position *)
Definition c1 := DClo 7 (DSym 3).
(* '((1 . one) (2 . two)): closures only in the cdrs of the alist entries *)
Definition ex_alist := DPair (DPair (DLit 1) c1) (DPair (DPair (DLit 2) (DClo 8 (DSym 4))) DNil).
(* '(0 . tag): closure only in the dotted tail *)
Definition ex_tail := DPair (DLit 0) c1.
Definition ex_tail3 := DPair (DLit 0) (DPair (DLit 1) (DPair (DLit 2) c1)).
Definition ex_vec_last := DVec [DLit 0; DLit 1; c1].
Definition ex_nested := DPair (DLit 0) (DPair (DVec [DLit 1; DPair (DLit 2) (DClo 9 (DPair (DLit 5) c1))]) DNil).

Example ex_contains_positions :
  forallb (contains 10) [ex_alist; ex_tail; ex_tail3; ex_vec_last; ex_nested; c1] = true.
Proof. vm_compute; reflexivity. Qed.
Example ex_strip_positions :
  map (strip_synclos 10) [ex_tail; ex_tail3; ex_vec_last]
  = [DPair (DLit 0) (DSym 3); DPair (DLit 0) (DPair (DLit 1) (DPair (DLit 2) (DSym 3))); DVec [DLit 0; DLit 1; DSym 3]].
Proof. vm_compute; reflexivity. Qed.
Example ex_strip_nested : has_clo (strip_synclos 10 ex_nested) = false /\ hgt ex_nested < 10.
Proof. split; vm_compute; [reflexivity|lia]. Qed.
(* the bound is real: the predicate walks a list at one depth, the copy spends one unit per cdr *)
Example ex_bound : contains 3 ex_tail3 = true /\ has_clo (strip_synclos 3 ex_tail3) = true /\ hgt ex_tail3 = 3.
Proof. repeat split; vm_compute; reflexivity. Qed.
(* a predicate that forgets the dotted tail (the seeded change) leaves '(0 . tag) unstripped *)
Example ex_forgotten_tail :
  let bad_loop := fix lp (f : datum -> bool) (ls : datum) := match ls with DPair a r => if f a then true else lp f r | _ => false end in
  bad_loop (contains 9) ex_tail = false /\ contains 10 ex_tail = true.
Proof. split; vm_compute; reflexivity. Qed.
