(** C07 — stripping syntactic closures from quoted data (executable model, no proofs here).

    Mirrors, on data with pairs (incl. dotted tails) and vectors:
      sexp_contains_syntax_p_bound   eval.c:615-636   ([contains]: the fast "is there any closure" test)
      sexp_strip_synclos_bound       eval.c:638-658   ([strip_b])
      sexp_strip_synclos             eval.c:660-664   ([strip_synclos]: the predicate GATES the strip)
    both with their depth bound (SEXP_STRIP_SYNCLOS_BOUND = 10000, features.h:904; a parameter here, the
    harness prints the value of the scratch build).  Note the two different uses of the bound:
      [contains] walks the cdr chain of a list in a loop at the SAME depth and recurses with depth-1 into
                 every car, into the non-pair tail, and into every vector element;
      [strip_b]  recurses with depth-1 into car AND cdr, so a list of n elements needs depth n.
    Not modelled: the cycle test of the predicate's loop (eval.c:625-626, data here are trees without
    sharing: `ls1 == ls2` / `ls1 == car(ls2)` never hold); that the C code mutates vectors in place and
    marks the new pairs immutable. *)
From Coq Require Import NArith List Bool.
From ChibiV Require Import C07.Env.
Import ListNotations.

Inductive datum : Type :=
| DSym (s : N)
| DLit (n : N)                   (* any other atom: number, string, char, boolean *)
| DNil
| DPair (a d : datum)
| DVec (l : list datum)
| DClo (id : N) (e : datum).     (* a syntactic closure around e (environment and free names are irrelevant here) *)

(** sexp_id_name, eval.c:598-601 *)
Fixpoint did_name (x : datum) : datum :=
  match x with DClo _ e => did_name e | _ => x end.

(** the for-loop of sexp_contains_syntax_p_bound over the cdr chain, eval.c:623-629 ([f] = the
    predicate at depth-1):  for (ls1=x; pairp(ls1); ls1=cdr(ls1)) if (f(car(ls1))) return 1;
    return f(ls1);   -- the last line is the DOTTED TAIL (or the final ()) *)
Fixpoint cloop (f : datum -> bool) (ls : datum) : bool :=
  match ls with
  | DPair a r => if f a then true else cloop f r
  | tl => f tl
  end.

(** sexp_contains_syntax_p_bound, eval.c:615-636 *)
Fixpoint contains (depth : nat) (x : datum) {struct depth} : bool :=
  match x with
  | DClo _ _ => true                                   (* if (sexp_synclop(x)) return 1; *)
  | _ =>
      match depth with
      | O => false                                     (* if (depth <= 0) return 0; *)
      | S d =>
          match x with
          | DPair _ _ => cloop (contains d) x
          | DVec l => existsb (contains d) l           (* for (i = 0; i < length; ++i) *)
          | _ => false
          end
      end
  end.

(** sexp_strip_synclos_bound, eval.c:638-658 *)
Fixpoint strip_b (depth : nat) (x : datum) {struct depth} : datum :=
  match depth with
  | O => x                                             (* if (depth <= 0) return x; *)
  | S d =>
      match did_name x with                            (* x = sexp_id_name(x); *)
      | DPair a r => DPair (strip_b d a) (strip_b d r)
      | DVec l => DVec (map (strip_b d) l)
      | y => y
      end
  end.

(** sexp_strip_synclos, eval.c:660-664 *)
Definition strip_synclos (bound : nat) (x : datum) : datum :=
  if contains bound x then strip_b bound x else x.

(** *** SPEC: no bound, plain structural recursion *)
Fixpoint has_clo (x : datum) : bool :=
  match x with
  | DClo _ _ => true
  | DPair a r => has_clo a || has_clo r
  | DVec l => existsb has_clo l
  | _ => false
  end.

Fixpoint strip_spec (x : datum) : datum :=
  match x with
  | DClo _ e => strip_spec e
  | DPair a r => DPair (strip_spec a) (strip_spec r)
  | DVec l => DVec (map strip_spec l)
  | _ => x
  end.

(** car/cdr/vector-slot path length to the deepest node; closure layers are free (sexp_id_name loops) *)
Fixpoint hgt (x : datum) : nat :=
  match x with
  | DClo _ e => hgt e
  | DPair a r => S (Nat.max (hgt a) (hgt r))
  | DVec l => S (fold_right (fun y m => Nat.max (hgt y) m) 0 l)
  | _ => 0
  end.

(** the data of Env.v / Expand.v (proper lists only) as [datum] *)
Fixpoint embed (x : sexp) : datum :=
  match x with
  | Sym s => DSym s
  | Lit n => DLit n
  | Lst l => fold_right (fun y acc => DPair (embed y) acc) DNil l
  | Clo i _ _ e => DClo i (embed e)
  end.
