(** C07 — expand-template of syntax-rules with ellipsis, ellipsis escapes, custom ellipsis identifiers,
    vector and dotted templates (executable model, no proofs here; round 4).

    Mirrors lib/init-7.scm
      ellipsis-mark? / ellipsis-escape? / ellipsis?     982-992   ([mark], [escape_p], [ellipsis_p])
      ellipsis-depth / ellipsis-tail                    993-1000  ([ellipsis_depth], [ellipsis_tail])
      free-vars                                         1012-1023 ([fv])
      expand-template                                   1024-1069 ([compile]: the named let `lp` with its
                                                        arguments t, dim, ell-esc; same order of tests)
    and the code expand-template generates: (rename 'id), pattern variable references, cons-source,
    list->vector, (map (lambda ell-vars once) ell-vars ...), (apply append ..), (append many tail)
    ([code], evaluated by [eval] with init-7.scm's map:59-76 / append semantics on proper lists).

    Conventions: an identifier is a symbol number; [TRen s] is the syntactic closure (rename 's) makes;
    [TUser k] is an opaque piece of user text bound to a pattern variable.  The ellipsis identifier is
    [ell c] (`...` or the custom one given to syntax-rules); [ell_off c] = the ellipsis is among the
    literals, so ellipsis-mark? is constantly #f (init-7.scm:983-986).  ellipsis-mark? compares with
    compare / eq?: here symbol equality (the definition environment does not rebind the ellipsis).
    The shortcut at 1052-1055 (nest = once when once is the first pattern variable) is the identity map and
    is not distinguished.  Improper lists handed to map / append (an error in Scheme) are truncated.
    Not modelled: identifiers that are already closures (templates produced by another macro), the source
    information argument of cons-source, the pattern matcher (bindings are an input). *)
From Coq Require Import NArith List Bool Arith.
Import ListNotations.

Inductive tm : Type :=
| TSym (s : N)
| TRen (s : N)
| TNum (n : N)
| TUser (k : N)
| TNil
| TPair (a d : tm)
| TVec (l : tm).          (* l: the slots as a list-structured term *)

Record cfg : Type := mkcfg { ell : N; ell_off : bool }.

Inductive code : Type :=
| CVar (s : N)                       (* reference to a pattern variable *)
| CRen (s : N)                       (* (rename (quote s)) *)
| CConst (t : tm)                    (* (quote ()) / a self-evaluating atom *)
| CCons (a d : code)                 (* (cons-source a d (quote t)) *)
| CVec (c : code)                    (* (list->vector c) *)
| CMap (vs : list N) (body : code)   (* (map (lambda vs body) . vs) *)
| CFlat (c : code)                   (* (apply append c) *)
| CAppend (a b : code).              (* (append a b) *)

Inductive tres : Type := TOK (c : code) | TErr (e : N).
Definition E_TOO_FEW : N := 1.
Definition E_TOO_MANY : N := 2.
Definition E_FUEL : N := 3.
Definition E_SUBSET : N := 4.

Fixpoint assocN {A : Type} (s : N) (l : list (N * A)) : option A :=
  match l with [] => None | (k, v) :: r => if N.eqb k s then Some v else assocN s r end.

Definition tmemN (s : N) (l : list N) : bool := existsb (N.eqb s) l.

Definition mark (c : cfg) (t : tm) : bool :=
  match t with TSym s => negb (ell_off c) && N.eqb s (ell c) | _ => false end.

Definition escape_p (c : cfg) (t : tm) : bool :=
  match t with TPair a _ => mark c a | _ => false end.

Definition ellipsis_p (c : cfg) (t : tm) : bool :=
  match t with TPair _ (TPair b _) => mark c b | _ => false end.

Fixpoint ellipsis_depth (c : cfg) (t : tm) : nat :=
  match t with
  | TPair _ d => match d with
                 | TPair b _ => if mark c b then S (ellipsis_depth c d) else 0
                 | _ => 0
                 end
  | _ => 0
  end.

Fixpoint ellipsis_tail (c : cfg) (t : tm) : tm :=
  match t with
  | TPair _ d => match d with
                 | TPair b _ => if mark c b then ellipsis_tail c d else d
                 | _ => d
                 end
  | _ => TNil
  end.

(** free-vars x vars dim: cdr before car, consing in front, no duplicates *)
Fixpoint fv (vars : list (N * nat)) (dim : nat) (x : tm) (free : list N) : list N :=
  match x with
  | TSym s =>
      if negb (tmemN s free) && (match assocN s vars with Some d => Nat.leb dim d | None => false end)
      then s :: free else free
  | TPair a d => fv vars dim a (fv vars dim d free)
  | TVec l => fv vars dim l free
  | _ => free
  end.

Definition is_sym (t : tm) : bool := match t with TSym _ => true | _ => false end.

Fixpoint iter_flat (n : nat) (c : code) : code :=
  match n with O => c | S k => iter_flat k (CFlat c) end.

(** (lp t dim ell-esc) *)
Fixpoint compile (c : cfg) (vars : list (N * nat)) (fuel : nat) (t : tm) (dim : nat) (esc : bool) : tres :=
  match fuel with
  | O => TErr E_FUEL
  | S f =>
      match t with
      | TSym s =>
          match assocN s vars with
          | Some d => if Nat.leb d dim then TOK (CVar s) else TErr E_TOO_FEW
          | None => TOK (CRen s)
          end
      | TPair a d =>
          if escape_p c t && negb esc then
            compile c vars f (match d with TPair x TNil => x | _ => d end) dim true
          else if ellipsis_p c t && negb esc then
            let depth := ellipsis_depth c t in
            let edim := dim + depth in
            let evs := fv vars edim a [] in
            match evs with
            | [] => TErr E_TOO_MANY
            | _ :: _ =>
                if (match d with TPair _ TNil => true | _ => false end) && is_sym a
                then compile c vars f a edim esc
                else
                  match compile c vars f a edim esc with
                  | TErr e => TErr e
                  | TOK once =>
                      let many := iter_flat (depth - 1) (CMap evs once) in
                      match ellipsis_tail c t with
                      | TNil => TOK many
                      | tl => match compile c vars f tl dim esc with
                              | TOK r => TOK (CAppend many r)
                              | TErr e => TErr e
                              end
                      end
                  end
            end
          else
            match compile c vars f a dim esc with
            | TErr e => TErr e
            | TOK x => match compile c vars f d dim esc with
                      | TErr e => TErr e
                      | TOK y => TOK (CCons x y)
                      end
            end
      | TVec l => match compile c vars f l dim esc with TOK x => TOK (CVec x) | TErr e => TErr e end
      | TNil => TOK (CConst TNil)
      | TNum n => TOK (CConst (TNum n))
      | TRen _ => TErr E_SUBSET
      | TUser _ => TErr E_SUBSET
      end
  end.

(** *** evaluation of the generated code *)
Fixpoint tm_list (t : tm) : list tm :=
  match t with TPair a d => a :: tm_list d | _ => [] end.

Definition of_list (l : list tm) : tm := fold_right TPair TNil l.

Definition tm_app (x y : tm) : tm := fold_right TPair y (tm_list x).

Fixpoint map_opt {A B : Type} (f : A -> option B) (l : list A) : option (list B) :=
  match l with
  | [] => Some []
  | a :: r => match f a, map_opt f r with
              | Some b, Some bs => Some (b :: bs)
              | _, _ => None
              end
  end.

Fixpoint min_len (cols : list (list tm)) : nat :=
  match cols with
  | [] => 0
  | [c] => length c
  | c :: r => Nat.min (length c) (min_len r)
  end.

Definition row (cols : list (list tm)) (i : nat) : list tm := map (fun col => nth i col TNil) cols.

Definition tenv : Type := list (N * tm).

Fixpoint eval (c : code) (rho : tenv) : option tm :=
  match c with
  | CVar s => assocN s rho
  | CRen s => Some (TRen s)
  | CConst t => Some t
  | CCons a d =>
      match eval a rho, eval d rho with
      | Some x, Some y => Some (TPair x y)
      | _, _ => None
      end
  | CVec x => match eval x rho with Some l => Some (TVec l) | None => None end
  | CMap vs body =>
      match map_opt (fun v => assocN v rho) vs with
      | None => None
      | Some vals =>
          let cols := map tm_list vals in
          match map_opt (fun i => eval body (combine vs (row cols i) ++ rho)) (seq 0 (min_len cols)) with
          | Some outs => Some (of_list outs)
          | None => None
          end
      end
  | CFlat x =>
      match eval x rho with
      | Some l => Some (fold_right tm_app TNil (tm_list l))
      | None => None
      end
  | CAppend a b =>
      match eval a rho, eval b rho with
      | Some x, Some y => Some (tm_app x y)
      | _, _ => None
      end
  end.

(** the whole of a rule's right-hand side: compile once, run on the bindings of one use *)
Definition expand_template (c : cfg) (vars : list (N * nat)) (fuel : nat) (t : tm) (rho : tenv) : option tm :=
  match compile c vars fuel t 0 false with
  | TOK k => eval k rho
  | TErr _ => None
  end.

(** *** SPEC side *)
(** no bare identifier anywhere *)
Fixpoint nobare (t : tm) : bool :=
  match t with
  | TSym _ => false
  | TPair a d => nobare a && nobare d
  | TVec l => nobare l
  | _ => true
  end.

(** the ellipsis identifier does not occur *)
Fixpoint nomark (c : cfg) (t : tm) : bool :=
  match t with
  | TSym _ => negb (mark c t)
  | TPair a d => nomark c a && nomark c d
  | TVec l => nomark c l
  | _ => true
  end.

(** plain substitution: pattern variables by their values, every other identifier renamed *)
Fixpoint subst (vars : list (N * nat)) (rho : tenv) (t : tm) : tm :=
  match t with
  | TSym s => match assocN s vars with
              | Some _ => match assocN s rho with Some v => v | None => TNil end
              | None => TRen s
              end
  | TPair a d => TPair (subst vars rho a) (subst vars rho d)
  | TVec l => TVec (subst vars rho l)
  | _ => t
  end.

Fixpoint size (t : tm) : nat :=
  match t with
  | TPair a d => S (size a + size d)
  | TVec l => S (size l)
  | _ => 1
  end.

(** the symbols a term mentions as renamed identifiers / the symbols a template mentions *)
Fixpoint rens (t : tm) : list N :=
  match t with
  | TRen s => [s]
  | TPair a d => rens a ++ rens d
  | TVec l => rens l
  | _ => []
  end.

Fixpoint syms (t : tm) : list N :=
  match t with
  | TSym s => [s]
  | TPair a d => syms a ++ syms d
  | TVec l => syms l
  | _ => []
  end.
