(** C07 — the two facts the renaming-invariance theorem rests on (the theorem itself, the induction over
    [resolve], is rename_invariance_core in CoreProofs.v, proved in round 3):
      rename_invariance_lookup_partial : every guarded identifier lookup answers the same cell after
        the swap (user frames keyed by the swapped symbols, closure keys and the global part untouched);
      expand_equivariant : macro expansion commutes with the swap (templates never see user names). *)
From Coq Require Import NArith List Bool Lia.
From ChibiV Require Import C07.Env C07.EnvProofs C07.Expand C07.RenamerProofs.
Import ListNotations.

Section Swap.
Variables a b : N.

Lemma sw_invol : forall s, sw a b (sw a b s) = s.
Proof.
  intros s. unfold sw.
  destruct (N.eqb s a) eqn:Ha; [apply N.eqb_eq in Ha; subst|].
  - destruct (N.eqb b a) eqn:Hba; [now apply N.eqb_eq in Hba|]. now rewrite N.eqb_refl.
  - destruct (N.eqb s b) eqn:Hb; [apply N.eqb_eq in Hb; subst; now rewrite N.eqb_refl|].
    now rewrite Ha, Hb.
Qed.

Lemma sw_inj : forall s t, sw a b s = sw a b t -> s = t.
Proof. intros s t H. rewrite <- (sw_invol s), <- (sw_invol t). now rewrite H. Qed.

Lemma sw_eqb : forall s t, N.eqb (sw a b s) (sw a b t) = N.eqb s t.
Proof.
  intros s t. destruct (N.eqb s t) eqn:H.
  - apply N.eqb_eq in H; subst. apply N.eqb_refl.
  - apply N.eqb_neq. intros E. apply sw_inj in E. apply N.eqb_neq in H. contradiction.
Qed.

Lemma sw_other : forall s, memN s [a; b] = false -> sw a b s = s.
Proof.
  intros s H. unfold memN in H. cbn [existsb] in H. rewrite orb_false_r in H.
  apply orb_false_iff in H. destruct H as [Ha Hb]. unfold sw. now rewrite Ha, Hb.
Qed.

Lemma key_eqb_swap : forall k1 k2, key_eqb (swapU a b k1) (swapU a b k2) = key_eqb k1 k2.
Proof. destruct k1, k2; cbn [swapU key_eqb]; try reflexivity. apply sw_eqb. Qed.

Definition swap_al (l : list (sexp * cell)) : list (sexp * cell) :=
  map (fun kc => (swapU a b (fst kc), snd kc)) l.
Definition swap_frame (f : frame) : frame := Frame (swap_al (f_renames f)) (swap_al (f_bindings f)).
Definition swap_env (U : env) : env := map swap_frame U.

Lemma lookup_list_swap : forall k l, lookup_list (swapU a b k) (swap_al l) = lookup_list k l.
Proof.
  induction l as [|[k' c] r IH]; cbn [swap_al map lookup_list fst snd]; [reflexivity|].
  rewrite key_eqb_swap. destruct (key_eqb k' k); [reflexivity|exact IH].
Qed.

Lemma frame_lookup_swap : forall k f, frame_lookup (swapU a b k) (swap_frame f) = frame_lookup k f.
Proof.
  intros k [r bs]. unfold frame_lookup, swap_frame. cbn [f_renames f_bindings].
  now rewrite !lookup_list_swap.
Qed.

Lemma cell_loc1_swap : forall U k lp, cell_loc1 (swap_env U) (swapU a b k) lp = cell_loc1 U k lp.
Proof.
  induction U as [|f r IH]; intros k lp; cbn [swap_env map cell_loc1]; [reflexivity|].
  rewrite frame_lookup_swap. destruct (frame_lookup k f); [reflexivity|]. destruct lp; [reflexivity|apply IH].
Qed.

Lemma cell_loc1_app : forall U G k,
  cell_loc1 (U ++ G) k false = match cell_loc1 U k false with Some c => Some c | None => cell_loc1 G k false end.
Proof.
  induction U as [|f r IH]; intros G k; cbn [app cell_loc1]; [reflexivity|].
  destruct (frame_lookup k f); [reflexivity|apply IH].
Qed.

(** the global part holds no lambda-bound cell *)
Definition no_local_al (l : list (sexp * cell)) : Prop := forall k c, In (k, c) l -> is_local c = false.
Definition no_local (G : env) : Prop :=
  Forall (fun f => no_local_al (f_renames f) /\ no_local_al (f_bindings f)) G.

Lemma lookup_list_in : forall k l c, lookup_list k l = Some c -> exists k', In (k', c) l.
Proof.
  induction l as [|[k' c'] r IH]; cbn [lookup_list]; intros c H; [discriminate|].
  destruct (key_eqb k' k).
  - inversion H; subst. exists k'. now left.
  - destruct (IH c H) as [k2 Hin]. exists k2. now right.
Qed.

Lemma cell_loc1_no_local : forall G k lp c, no_local G -> cell_loc1 G k lp = Some c -> is_local c = false.
Proof.
  induction G as [|f r IH]; intros k lp c HG H; cbn [cell_loc1] in H; [discriminate|].
  inversion HG as [|? ? [Hr Hb] Hrest]; subst.
  unfold frame_lookup in H. destruct (lookup_list k (f_renames f)) as [c1|] eqn:L1.
  - inversion H; subst. destruct (lookup_list_in _ _ _ L1) as [k' Hin]. now apply (Hr k').
  - destruct (lookup_list k (f_bindings f)) as [c2|] eqn:L2.
    + inversion H; subst. destruct (lookup_list_in _ _ _ L2) as [k' Hin]. now apply (Hb k').
    + destruct lp; [discriminate|]. now apply (IH k false c).
Qed.

(** identifiers of well-formed program text: a bare symbol, or a renamed template symbol *)
Definition wf_id (k : sexp) : bool :=
  match k with
  | Sym _ => true
  | Clo _ _ [] (Sym _) => true
  | _ => false
  end.

(** *** the key fact: guarded lookups are invariant under swapping the user's names *)
Theorem rename_invariance_lookup_partial_proof : forall U G k r,
  no_local G -> wf_id k = true ->
  lookup_g [a; b] [] (U ++ G) k = OK r ->
  lookup_g [] [] (swap_env U ++ G) (swapU a b k) = OK r
  /\ (r = None -> swapU a b k = k).
Proof.
  intros U G k r HG Hwf H.
  destruct k as [s| |l|i E fv e]; try discriminate Hwf.
  - (* bare symbol *)
    unfold lookup_g in *. cbn [swapU]. rewrite env_cell_sym in *.
    assert (MN : forall t, memN t [] = false) by reflexivity. rewrite MN.
    rewrite cell_loc1_app in *. change (Sym (sw a b s)) with (swapU a b (Sym s)). rewrite cell_loc1_swap.
    destruct (memN s [a; b]) eqn:Hm.
    + destruct (cell_loc1 U (Sym s) false) as [c|] eqn:HU.
      * destruct (is_local c); inversion H; subst. split; [reflexivity|discriminate].
      * destruct (cell_loc1 G (Sym s) false) as [c|] eqn:HGl; [|discriminate].
        rewrite (cell_loc1_no_local G (Sym s) false c HG HGl) in H. discriminate.
    + inversion H; subst. cbn [swapU]. rewrite (sw_other s Hm).
      split; [reflexivity|]. intros _. reflexivity.
  - (* renamed template symbol: untouched by the swap, and found (or not) at the same place *)
    destruct fv; [|discriminate]. destruct e as [s'| | |]; try discriminate.
    cbn [swapU]. unfold lookup_g in *. split; [|reflexivity].
    inversion H; subst. f_equal. unfold env_cell. cbn [id_name fv_memq fv_first_env].
    rewrite !cell_loc1_app.
    change (Clo i E [] (Sym s')) with (swapU a b (Clo i E [] (Sym s'))) at 1.
    rewrite cell_loc1_swap. cbn [swapU].
    destruct (cell_loc1 U (Clo i E [] (Sym s')) false); [reflexivity|].
    destruct (cell_loc1 G (Clo i E [] (Sym s')) false); reflexivity.
Qed.

(** *** expansion commutes with the swap *)
Definition memo_sym (E : env) (rs : rstate) : Prop :=
  forall k v, In (k, v) (snd rs) -> exists i s, v = Clo i E [] (Sym s).

Lemma assq_in' : forall k memo v, assq k memo = Some v -> exists k', In (k', v) memo.
Proof.
  induction memo as [|[k' v'] r IH]; cbn [assq]; intros v H; [discriminate|].
  destruct (key_eqb k' k).
  - inversion H; subst. exists k'. now left.
  - destruct (IH v H) as [k2 Hin]. exists k2. now right.
Qed.

Lemma rename_sym : forall E rs s rs' x,
  memo_sym E rs -> rename E rs (Sym s) = (rs', x) ->
  memo_sym E rs' /\ exists i s', x = Clo i E [] (Sym s').
Proof.
  intros E [next memo] s rs' x Hm H. unfold rename in H. destruct (assq (Sym s) memo) as [c|] eqn:Ha.
  - inversion H; subst. split; [exact Hm|]. destruct (assq_in' _ _ _ Ha) as [k' Hin]. exact (Hm k' x Hin).
  - inversion H; subst. split; [|eauto]. intros k v [Hin|Hin].
    + inversion Hin; subst. eauto.
    + exact (Hm k v Hin).
Qed.

Lemma nth_swap : forall i args, nth i (map (swapU a b) args) (Lst []) = swapU a b (nth i args (Lst [])).
Proof. intros. change (Lst []) with (swapU a b (Lst [])) at 1. apply map_nth. Qed.

Lemma inst_swap : forall E args t rs rs' x,
  memo_sym E rs -> inst E args t rs = (rs', x) ->
  inst E (map (swapU a b) args) t rs = (rs', swapU a b x) /\ memo_sym E rs'.
Proof.
  intros E args. fix IH 1. destruct t as [i|s|n|l]; intros rs rs' x Hm H; cbn [inst] in *.
  - inversion H; subst. split; [now rewrite nth_swap|exact Hm].
  - destruct (rename_sym E rs s rs' x Hm H) as [Hm' (i & s' & ->)]. split; [exact H|exact Hm'].
  - inversion H; subst. split; [reflexivity|exact Hm].
  - match type of H with (let '(_, _) := ?go l rs in _) = _ => set (g := go) in * end.
    match goal with |- (let '(_, _) := ?go l rs in _) = _ /\ _ => set (g' := go) end.
    assert (Hgo : forall l rs rs' out, memo_sym E rs -> g l rs = (rs', out) ->
                    g' l rs = (rs', map (swapU a b) out) /\ memo_sym E rs').
    { clear H. induction l0 as [|t r IHr]; intros rs0 rs0' out Hm0 Hg; cbn in Hg |- *.
      - inversion Hg; subst. split; [reflexivity|exact Hm0].
      - destruct (inst E args t rs0) as [rs1 x1] eqn:H1. fold g in Hg. fold g'.
        destruct (g r rs1) as [rs2 xs] eqn:H2. inversion Hg; subst.
        destruct (IH t rs0 rs1 x1 Hm0 H1) as [E1 Hm1]. rewrite E1.
        destruct (IHr rs1 rs0' xs Hm1 H2) as [E2 Hm2]. rewrite E2. split; [reflexivity|exact Hm2]. }
    destruct (g l rs) as [rs1 out] eqn:Hg. inversion H; subst.
    destruct (Hgo l rs rs' out Hm Hg) as [E1 Hm1]. rewrite E1. split; [reflexivity|exact Hm1].
Qed.

Theorem expand_equivariant_proof : forall m args n n' x,
  expand m args n = Some (n', x) ->
  expand m (map (swapU a b) args) n = Some (n', swapU a b x).
Proof.
  intros m args n n' x H. unfold expand in *. rewrite map_length.
  destruct (Nat.eqb (length args) (m_arity m)); [|discriminate].
  destruct (inst (m_env m) args (m_tmpl m) (n, [])) as [[nx memo] y] eqn:Hi. inversion H; subst.
  assert (Hm : memo_sym (m_env m) (n, [])) by (intros k v []).
  destruct (inst_swap _ _ _ _ _ _ Hm Hi) as [E1 _]. now rewrite E1.
Qed.

End Swap.

(** non-vacuity: (lambda (x) (or2 x 5)) with x := 40, renamed to `if` (10); or2 inserts if / t *)
Definition Gm : env := [Frame [] [(Sym 3, mkcell 1 (VCore CORE_LAMBDA)); (Sym 10, mkcell 2 (VCore CORE_IF));
                                   (Sym 31, mkcell 3 (VMacro 0))]].
Definition or2 : macro := mkmacro Gm 2
  (TLst [TLst [TId 3; TLst [TId 20]; TLst [TId 10; TId 20; TId 20; TVar 1]]; TVar 0]).
Definition prog : sexp := Lst [Sym 3; Lst [Sym 40]; Lst [Sym 31; Sym 40; Lit 5]].
Example ex_guard_ok : exists r, resolve [40; 10]%N [or2] 20 ((1000, 1)%N, []) [] Gm prog = OK r.
Proof. eexists. vm_compute. reflexivity. Qed.
Example ex_invariant :
  resolve [] [or2] 20 ((1000, 1)%N, []) [] Gm (swapU 40 10 prog) = resolve [40; 10]%N [or2] 20 ((1000, 1)%N, []) [] Gm prog.
Proof. vm_compute. reflexivity. Qed.
Example ex_guard_fires :   (* the user text itself uses `if` as a keyword: renaming x to if is not allowed *)
  resolve [40; 10]%N [or2] 20 ((1000, 1)%N, []) [] Gm (Lst [Sym 3; Lst [Sym 40]; Lst [Sym 10; Sym 40; Lit 1; Lit 2]]) = Err Escaped.
Proof. vm_compute. reflexivity. Qed.
