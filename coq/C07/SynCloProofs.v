(** C07 — proofs about the environment a syntactic closure WITH free names is analysed in
    (sexp_extend_synclo_env, eval.c:235-255, and the context change of analyze, eval.c:1216-1224).

    The situation: an sc-macro-transformer / make-syntactic-closure macro closes a piece of USER code in
    the use environment U with a non-empty free-names list (the `exit` / `it` idiom) and puts it under
    bindings the macro introduces itself (frames on top of the macro environment: rho).  The closed code is
    analysed in copies of U's frames whose last parent is rho.  What the user's identifiers mean there
    must not depend on what rho binds: every identifier U binds — by a binding cell OR by a rename entry,
    which is where every IMPORTED binding lives — keeps its meaning; only the free names (and names U
    does not bind at all, the recorded finding F-C14-2) see rho. *)
From Coq Require Import NArith List Bool Lia.
From ChibiV Require Import C07.Env C07.EnvProofs.
Import ListNotations.

Lemma frame_lookup_copy : forall k f, frame_lookup k (copy_frame f) = frame_lookup k f.
Proof. intros k [r b]. reflexivity. Qed.

Lemma map_copy_frame_id : forall e, map copy_frame e = e.
Proof. induction e as [|[r b] e IH]; cbn [map copy_frame f_renames f_bindings]; [reflexivity|now rewrite IH]. Qed.

(** lookup in the copied frames, then in the context's environment *)
Lemma cell_loc1_copies : forall e cenv k,
  cell_loc1 (map copy_frame e ++ cenv) k false =
  match cell_loc1 e k false with Some c => Some c | None => cell_loc1 cenv k false end.
Proof.
  induction e as [|f e IH]; intros cenv k; cbn [map app cell_loc1]; [reflexivity|].
  rewrite frame_lookup_copy. destruct (frame_lookup k f); [reflexivity|apply IH].
Qed.

Lemma cell_loc1_extend : forall cfv cenv e k c,
  cell_loc1 e k false = Some c -> cell_loc1 (extend_synclo_env cfv cenv e) k false = Some c.
Proof.
  intros cfv cenv e k c H. destruct cfv as [|it r]; cbn [extend_synclo_env]; [exact H|].
  now rewrite cell_loc1_copies, H.
Qed.

(** the free-variable list after entering a closure with free names [fv] *)
Lemma fv_memq_app_none : forall n fv rest,
  memq n fv = false -> fv_memq n (map FvId fv ++ rest) = fv_memq n rest.
Proof.
  induction fv as [|y fv IH]; intros rest H; cbn [map app fv_memq]; [reflexivity|].
  cbn [memq] in H. destruct (key_eqb y n); [discriminate|]. now apply IH.
Qed.

Lemma fv_first_env_ids : forall l rho rest, fv_first_env (map FvId l ++ FvEnv rho :: rest) = Some rho.
Proof. induction l as [|y l IH]; intros; cbn [map app fv_first_env]; [reflexivity|apply IH]. Qed.

Lemma fv_memq_app_some : forall n fv rho rest,
  memq n fv = true -> fv_first_env (fv_memq n (map FvId fv ++ FvEnv rho :: rest)) = Some rho.
Proof.
  induction fv as [|y fv IH]; intros rho rest H; [discriminate|].
  cbn [memq] in H. cbn [map app fv_memq]. destruct (key_eqb y n).
  - change (FvId y :: map FvId fv ++ FvEnv rho :: rest) with (map FvId (y :: fv) ++ FvEnv rho :: rest).
    apply fv_first_env_ids.
  - now apply IH.
Qed.

(** ** user identifiers bound in the use environment keep their meaning inside closed code with free names
    [U] the use environment (closure's environment), [rho] the environment where the closure stands (macro
    environment + the bindings the macro introduced), [fv] the closure's free names, [cfv] the enclosing
    context's list.  A symbol that is not a free name (of this or an enclosing closure) and that U binds
    resolves to U's cell — whatever rho binds under that name. *)
Theorem closed_code_keeps_use_env_binding_proof : forall cfv rho U fv s c,
  memq (Sym s) fv = false ->
  fv_memq (Sym s) cfv = [] ->
  cell_loc1 U (Sym s) false = Some c ->
  env_cell (enter_fv cfv rho fv) (enter_env cfv rho U fv) (Sym s) false = Some c.
Proof.
  intros cfv rho U fv s c Hfv Hcfv HU. unfold env_cell, enter_env. cbn [id_name].
  assert (Hm : fv_memq (Sym s) (enter_fv cfv rho fv) = []).
  { unfold enter_fv. destruct fv as [|y fv]; [exact Hcfv|].
    rewrite fv_memq_app_none by exact Hfv. cbn [fv_memq]. exact Hcfv. }
  rewrite Hm. cbn [fv_first_env]. now rewrite (cell_loc1_extend _ _ _ _ _ HU).
Qed.

(** the same, stated for an IMPORTED binding: a rename entry (to |-> cell of another environment) in some
    frame of U, no earlier frame (and no earlier entry) of U binding the name *)
Theorem closed_code_keeps_import_proof : forall cfv rho U1 r b U2 fv s c,
  memq (Sym s) fv = false ->
  fv_memq (Sym s) cfv = [] ->
  cell_loc1 U1 (Sym s) false = None ->
  lookup_list (Sym s) r = Some c ->
  env_cell (enter_fv cfv rho fv) (enter_env cfv rho (U1 ++ Frame r b :: U2) fv) (Sym s) false = Some c.
Proof.
  intros cfv rho U1 r b U2 fv s c Hfv Hcfv H1 Hr.
  apply closed_code_keeps_use_env_binding_proof; try assumption.
  clear Hfv Hcfv. induction U1 as [|f U1 IH]; cbn [app cell_loc1].
  - unfold frame_lookup. cbn [f_renames]. now rewrite Hr.
  - cbn [cell_loc1] in H1. destruct (frame_lookup (Sym s) f); [discriminate|]. now apply IH.
Qed.

(** a free name of the closure resolves where the closure stands (the macro's binding of `exit` / `it`) *)
Theorem closed_code_free_name_at_use_proof : forall cfv rho U fv s,
  memq (Sym s) fv = true ->
  env_cell (enter_fv cfv rho fv) (enter_env cfv rho U fv) (Sym s) false = cell_loc1 rho (Sym s) false.
Proof.
  intros cfv rho U fv s Hfv. unfold env_cell. cbn [id_name].
  assert (Hm : fv_first_env (fv_memq (Sym s) (enter_fv cfv rho fv)) = Some rho).
  { unfold enter_fv. destruct fv as [|y fv]; [discriminate|]. now apply fv_memq_app_some. }
  rewrite Hm. destruct (cell_loc1 rho (Sym s) false); reflexivity.
Qed.

(** without free names anywhere the closure's environment is used as it is *)
Theorem closed_code_no_free_names_proof : forall rho U, enter_env [] rho U [] = U /\ enter_fv [] rho [] = [].
Proof. intros; split; reflexivity. Qed.

(** ** non-vacuity: the shape of the seeded change.  U imports `first` (symbol 5) by a rename entry to cell 77
    of another library; the macro's template binds `first` locally (cell 9, frame on top of the macro
    environment) and closes the user form with free name `exit` (symbol 6). *)
Example ex_import_not_captured :
  let U := [Frame [(Sym 5, mkcell 77 VOther)] [(Sym 1, mkcell 2 VOther)]] in
  let rho := [Frame [] [(Sym 5, mkcell 9 VLocal)]; Frame [] [(Sym 6, mkcell 8 VLocal)]] ++ U in
  env_cell (enter_fv [] rho [Sym 6]) (enter_env [] rho U [Sym 6]) (Sym 5) false = Some (mkcell 77 VOther)
  /\ env_cell (enter_fv [] rho [Sym 6]) (enter_env [] rho U [Sym 6]) (Sym 6) false = Some (mkcell 8 VLocal).
Proof. split; vm_compute; reflexivity. Qed.

(** were the renames dropped from the copies, the macro's local would capture the import *)
Example ex_import_captured_without_renames :
  let U := [Frame [(Sym 5, mkcell 77 VOther)] [(Sym 1, mkcell 2 VOther)]] in
  let rho := [Frame [] [(Sym 5, mkcell 9 VLocal)]; Frame [] [(Sym 6, mkcell 8 VLocal)]] ++ U in
  cell_loc1 (map (fun f => Frame [] (f_bindings f)) U ++ [Frame [] [(Sym 5, mkcell 9 VLocal)]]) (Sym 5) false
    = Some (mkcell 9 VLocal).
Proof. vm_compute; reflexivity. Qed.
