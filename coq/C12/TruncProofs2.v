(** C12 round 5 — string-set! at a cut-off lead byte, the in-place case: the new character is exactly as
    wide as the bytes left (k) and the string is not copy-on-write: the k bytes are overwritten inside the
    (possibly shared) store, nothing else changes. *)
From Coq Require Import ZifyBool.
From ChibiV Require Import C12.Model C12.Spec C12.Utf8Proofs C12.Proofs C12.TruncProofs.
Local Open Scope Z_scope.

Theorem set_at_truncated_lead_in_place h s a x k c : Trunc h s a x k -> cp c ->
  scow s = false -> width c = k ->
  exists h', string_set h s (Z.of_nat (length a)) c = Ok (h', s) /\ Rep h' s (a ++ [c]) /\
             (forall j, j <> sbytes s -> nth j h' [] = nth j h []).
Proof.
  intros T Hc Hcow Hw. unfold string_set. rewrite (trunc_cursor h s a x k T).
  pose proof (set_at_truncated_lead_replaces_remaining h s a x k T) as HK.
  destruct T as (Ha & Hx & Hx128 & Hk & Hid & Hsz & post & Hd & Hp).
  assert (E : (ssize s <=? length (enc_all a))%nat = false) by (apply Nat.leb_gt; lia).
  rewrite E. unfold utf8_set. rewrite HK. rewrite (encode_char_width c Hc).
  assert (B : scow s || negb (k =? width c)%nat = false).
  { rewrite Hcow, Hw, Nat.eqb_refl. reflexivity. }
  rewrite B. eexists. split; [reflexivity|].
  destruct post as [|t post']; [contradiction|].
  set (la := length (enc_all a)).
  assert (Hfk : length (firstn k (encode x)) = k).
  { apply firstn_length_le. rewrite (encode_length x Hx). lia. }
  assert (St : store h s = firstn (soff s) (store h s) ++ enc_all a ++ firstn k (encode x) ++ t :: post').
  { rewrite <- Hd. unfold sdata. symmetry. apply firstn_skipn. }
  assert (Lp : length (firstn (soff s) (store h s)) = soff s).
  { apply firstn_length_le.
    destruct (Nat.le_gt_cases (soff s) (length (store h s))) as [L|G]; [exact L|].
    unfold sdata in Hd. rewrite skipn_all2 in Hd by lia.
    apply (f_equal (@length Z)) in Hd. rewrite !app_length in Hd. cbn [length] in Hd. lia. }
  set (pre := firstn (soff s) (store h s)) in *.
  assert (Q : overwrite (store h s) (soff s + la) (encode c) = pre ++ enc_all a ++ encode c ++ t :: post').
  { rewrite St. rewrite (app_assoc pre (enc_all a)).
    rewrite (overwrite_app (pre ++ enc_all a) (firstn k (encode x)) _ (soff s + la) (encode c)).
    - rewrite <- app_assoc. reflexivity.
    - rewrite app_length, Lp. reflexivity.
    - rewrite Hfk, (encode_length c Hc). symmetry. exact Hw. }
  rewrite Q. split.
  - repeat split.
    + apply Forall_app. split; [exact Ha|]. constructor; [exact Hc|constructor].
    + rewrite set_nth_length. exact Hid.
    + rewrite Hsz, enc_all_app, app_length. cbn [enc_all flat_map]. rewrite app_nil_r, (encode_length c Hc). lia.
    + exists (t :: post'). split; [|discriminate].
      unfold sdata, store. rewrite nth_set_nth_eq by exact Hid.
      rewrite <- Lp at 1. rewrite skipn_app, skipn_all, Nat.sub_diag. cbn [skipn app].
      rewrite enc_all_app. cbn [enc_all flat_map]. rewrite app_nil_r, <- app_assoc. reflexivity.
  - intros j Hne. apply nth_set_nth_neq. auto.
Qed.
