(** C12 round 4 — the history theorem over the larger operation set of HistModel2.v:
    string-join with separator, string-fill! and string-copy! with optional ranges (other target and
    the string itself), and write-string with a range to an output string port. *)
From Coq Require Import ZifyBool.
From ChibiV Require Import C12.Model C12.Spec C12.Utf8Proofs C12.Proofs C12.Proofs2 C12.Proofs3 C12.Proofs4 C12.PortModel C12.PortProofs C12.RangeModel C12.OutProofs C12.RangeProofs C12.CopyProofs C12.HistModel2.
Local Open Scope Z_scope.
Ltac Zify.zify_post_hook ::= Z.div_mod_to_equations.

(* ------------------------------------------------------------------------------------- *)
(** * the array helpers of HistModel2 are the ones of the earlier rounds *)

Lemma rbounds_eq r len : rbounds r len = range_bounds r len.
Proof. destruct r; reflexivity. Qed.

Lemma copy_arr_eq tcs fcs at_ a e : copy_arr tcs fcs at_ a e = copy_result tcs fcs at_ a e.
Proof. reflexivity. Qed.

Lemma range_okb_iff a e len : range_okb a e len = true <-> 0 <= a <= e /\ e <= Z.of_nat len.
Proof. unfold range_okb. lia. Qed.

(* ------------------------------------------------------------------------------------- *)
(** * string-fill! with the frame: other stores untouched, the store id is the old one or a new one *)

Lemma fill_down_frame c a : cp c -> forall n h s l1 l2, length l1 = (a + n)%nat -> Rep h s (l1 ++ l2) ->
  exists h' s', fill_down h s c (Z.of_nat a) n = Ok (h', s') /\ Rep h' s' (firstn a l1 ++ repeat c n ++ l2) /\
    (sbytes s' = sbytes s \/ (length h <= sbytes s')%nat) /\ (length h <= length h')%nat /\
    (forall t ct, Rep h t ct -> sbytes t <> sbytes s -> Rep h' t ct).
Proof.
  intros Hc. induction n as [|n IH]; intros h s l1 l2 L R.
  - exists h, s. split; [reflexivity|]. cbn [repeat app]. rewrite firstn_all2 by lia.
    split; [exact R|]. split; [left; reflexivity|]. split; [lia|]. intros t ct Rt _. exact Rt.
  - cbn [fill_down]. destruct (split_last l1 (a + n)) as (l1' & x & -> & L'); [lia|].
    pose proof (set_refines h s _ (Z.of_nat a + Z.of_nat n) c R Hc) as HS.
    rewrite <- app_assoc in HS. cbn [app] in HS.
    replace ((0 <=? Z.of_nat a + Z.of_nat n) && (Z.of_nat a + Z.of_nat n <? Z.of_nat (length (l1' ++ x :: l2)))) with true in HS
      by (rewrite app_length; cbn [length]; lia).
    destruct HS as (h1 & s1 & HS & R1). rewrite HS.
    pose proof (string_set_id _ _ _ _ _ _ HS) as Hid.
    pose proof (string_set_heap_len _ _ _ _ _ _ HS) as Hlen.
    pose proof (Rep_id_lt _ _ _ R) as Hs.
    replace (Z.to_nat (Z.of_nat a + Z.of_nat n)) with (length l1') in R1 by lia. rewrite upd_app in R1.
    destruct (IH h1 s1 l1' (c :: l2) L' R1) as (h' & s' & F & R' & Hid' & Hlen' & Fr).
    exists h', s'. split; [exact F|]. split; [|split; [|split]].
    + rewrite firstn_app. replace (a - length l1')%nat with O by lia. rewrite firstn_O, app_nil_r.
      replace (repeat c (S n) ++ l2) with (repeat c n ++ c :: l2); [exact R'|].
      rewrite <- repeat_snoc, <- app_assoc. reflexivity.
    + destruct Hid' as [E|E]; [rewrite E; destruct Hid as [E2|E2]; [left; exact E2|right; lia]|right; lia].
    + lia.
    + intros t ct Rt Hne. pose proof (Rep_id_lt _ _ _ Rt) as Htl. apply Fr.
      * rewrite <- app_assoc in R. cbn [app] in R.
        apply (set_does_not_touch_other_strings h s _ _ c h1 s1 t ct R Hc HS Rt). left. exact Hne.
      * destruct Hid as [E|E]; rewrite E; [exact Hne|lia].
Qed.

Theorem string_fill_frame h s cs c r : Rep h s cs -> cp c ->
  let '(a, e) := range_bounds r (length cs) in
  0 <= a <= e -> e <= Z.of_nat (length cs) ->
  exists h' s', string_fill h s c r = Ok (h', s') /\ Rep h' s' (fill_arr cs c a e) /\
    (sbytes s' = sbytes s \/ (length h <= sbytes s')%nat) /\ (length h <= length h')%nat /\
    (forall t ct, Rep h t ct -> sbytes t <> sbytes s -> Rep h' t ct).
Proof.
  intros R Hc. destruct (range_bounds r (length cs)) as [a e] eqn:RB. intros Hae He.
  assert (G : exists h' s', fill_down h s c a (Z.to_nat (e - a)) = Ok (h', s') /\ Rep h' s' (fill_arr cs c a e) /\
              (sbytes s' = sbytes s \/ (length h <= sbytes s')%nat) /\ (length h <= length h')%nat /\
              (forall t ct, Rep h t ct -> sbytes t <> sbytes s -> Rep h' t ct)).
  { pose proof (fill_down_frame c (Z.to_nat a) Hc (Z.to_nat (e - a)) h s (firstn (Z.to_nat e) cs) (skipn (Z.to_nat e) cs)) as F.
    rewrite firstn_skipn in F. rewrite Z2Nat.id in F by lia.
    destruct F as (h' & s' & F & R' & Rest); [rewrite firstn_length; lia|exact R|].
    exists h', s'. split; [exact F|]. split; [|exact Rest].
    rewrite firstn_firstn in R'. rewrite Nat.min_l in R' by lia. exact R'. }
  unfold string_fill.
  destruct r as [|a0|a0 e0]; cbn [range_bounds] in RB; apply pair_equal_spec in RB; destruct RB as [<- <-].
  - rewrite (length_refines h s cs R). rewrite Z.sub_0_r in *. exact G.
  - rewrite (length_refines h s cs R). exact G.
  - exact G.
Qed.

(* ------------------------------------------------------------------------------------- *)
(** * the invariant under an in-place mutation of one variable *)

Lemma Inv_ids_lt st sp : Inv st sp -> forall k, In k (map sbytes (mvars st)) -> (k < length (mheap st))%nat.
Proof.
  intros (Hl & _ & Hr) k I. apply in_map_iff in I. destruct I as (s & E & I).
  destruct (In_nth _ _ dummy_str I) as (v & Hv & En).
  specialize (Hr v). rewrite <- Hl in Hr. specialize (Hr Hv). destruct Hr as (_ & Hid & _).
  unfold var in Hid. rewrite En, E in Hid. exact Hid.
Qed.

Lemma Inv_mutate st sp v h' s' cs' :
  Inv st sp -> (v < length sp)%nat -> Rep h' s' cs' ->
  (sbytes s' = sbytes (var st v) \/ (length (mheap st) <= sbytes s')%nat) ->
  (forall t ct, Rep (mheap st) t ct -> sbytes t <> sbytes (var st v) -> Rep h' t ct) ->
  Inv (mkst h' (set_nth v s' (mvars st))) (upd v cs' sp).
Proof.
  intros I Hv R' Hid Fr. pose proof I as (Hl & Hnd & Hr).
  split; [|split].
  - cbn [mvars]. rewrite set_nth_length, upd_length. exact Hl.
  - cbn [mvars]. rewrite map_set_nth. destruct Hid as [E|E].
    + rewrite E. unfold var. rewrite <- (map_nth sbytes). rewrite set_nth_same; [exact Hnd|]. rewrite map_length. lia.
    + apply NoDup_set_nth; [exact Hnd|]. intros Hin. pose proof (Inv_ids_lt st sp I _ Hin). lia.
  - intros w Hw. rewrite upd_length in Hw. unfold var, svar. cbn [mvars mheap].
    destruct (Nat.eq_dec w v) as [->|Hne].
    + rewrite nth_set_nth_eq, nth_upd_eq by lia. exact R'.
    + rewrite nth_set_nth_neq, nth_upd_neq by auto.
      apply Fr; [exact (Hr w Hw)|]. unfold var. apply NoDup_map_nth_neq; auto; lia.
Qed.

(* ------------------------------------------------------------------------------------- *)
(** * one operation *)

Definition xpre (sp : sstate) (o : xop) : Prop :=
  match o with
  | XBase o => op_ok o
  | XJoin _ _ => True
  | XFill v c r =>
      cp c /\ ((v < length sp)%nat ->
               let '(a, e) := rbounds r (length (svar sp v)) in 0 <= a <= e /\ e <= Z.of_nat (length (svar sp v)))
  | XCopyBang tv at_ fv r =>
      (tv < length sp)%nat -> (fv < length sp)%nat ->
      let '(a, e) := rbounds r (length (svar sp fv)) in
      0 <= a <= e /\ e <= Z.of_nat (length (svar sp fv)) /\ 0 <= at_ /\ at_ + (e - a) <= Z.of_nat (length (svar sp tv))
  end.

Fixpoint hist_ok (sp : sstate) (ops : list xop) : Prop :=
  match ops with
  | [] => True
  | o :: r => xpre sp o /\ hist_ok (match xspec_step sp o with Some sp' => sp' | None => sp end) r
  end.

(** the model raises exactly when the array operation is undefined; otherwise the new model state
    represents the new arrays *)
Theorem xstep_refines st sp o : Inv st sp -> xpre sp o ->
  match xstep st o, xspec_step sp o with
  | Some st', Some sp' => Inv st' sp'
  | None, None => True
  | _, _ => False
  end.
Proof.
  intros I Hok. pose proof I as (Hl & Hnd & Hr).
  destruct o as [o|vs sep|v c r|tv at_ fv r]; cbn [xstep xspec_step xpre] in *.
  - (* round 1 *) apply step_refines; assumption.
  - (* string-join *)
    rewrite Hl. destruct (forallb (fun v => (v <? length sp)%nat) vs) eqn:Hv; cbn [andb]; [|exact Logic.I].
    assert (J : forall seps, match option_map (var st) sep with Some s0 => Rep (mheap st) s0 seps | None => seps = [] end ->
                match (let '(h', s') := string_concatenate (mheap st) (map (var st) vs) (option_map (var st) sep) in
                       Some (mkst h' (mvars st ++ [s']))) with
                | Some st' => Inv st' (sp ++ [intercalate seps (map (svar sp) vs)]) | None => False end).
    { intros seps Hsep.
      destruct (concatenate_refines (mheap st) _ _ (option_map (var st) sep) seps (Forall2_vars st sp vs I Hv) Hsep)
        as (q & s' & S & Hid & R').
      rewrite S. apply Inv_push; assumption. }
    destruct sep as [w|]; cbn [option_map] in *.
    + destruct (w <? length sp)%nat eqn:Hw; [|exact Logic.I]. apply Nat.ltb_lt in Hw.
      apply (J (svar sp w)). apply Hr. exact Hw.
    + apply (J []). reflexivity.
  - (* string-fill! *)
    rewrite Hl. destruct (v <? length sp)%nat eqn:Hv; [|exact Logic.I].
    apply Nat.ltb_lt in Hv. destruct Hok as [Hc Hb]. specialize (Hb Hv). pose proof (Hr v Hv) as R.
    pose proof (string_fill_frame (mheap st) (var st v) (svar sp v) c r R Hc) as F.
    rewrite <- rbounds_eq in F.
    destruct (rbounds r (length (svar sp v))) as [a e]. destruct Hb as [Hae He].
    replace (range_okb a e (length (svar sp v))) with true by (symmetry; apply range_okb_iff; auto).
    destruct (F Hae He) as (h' & s' & S & R' & Hid & _ & Fr). rewrite S.
    apply Inv_mutate; assumption.
  - (* string-copy! *)
    rewrite Hl. destruct (tv <? length sp)%nat eqn:Htv; cbn [andb]; [|exact Logic.I].
    destruct (fv <? length sp)%nat eqn:Hfv; [|exact Logic.I].
    apply Nat.ltb_lt in Htv. apply Nat.ltb_lt in Hfv. specialize (Hok Htv Hfv).
    pose proof (Hr tv Htv) as Rt. pose proof (Hr fv Hfv) as Rf.
    destruct (Nat.eqb_spec tv fv) as [<-|Hne].
    + (* the string itself *)
      pose proof (copy_bang_same (mheap st) (var st tv) (svar sp tv) at_ r Rt) as F.
      rewrite <- rbounds_eq in F.
      destruct (rbounds r (length (svar sp tv))) as [a e]. destruct Hok as (Hae & He & Hat & Hroom).
      replace (range_okb a e (length (svar sp tv)) && (0 <=? at_) && (at_ + (e - a) <=? Z.of_nat (length (svar sp tv))))
        with true by (unfold range_okb; lia).
      destruct (F Hae He Hat Hroom) as (h' & s' & S & R' & Hid & _ & Fr). rewrite S.
      apply Inv_mutate; assumption.
    + (* another target *)
      assert (Hids : sbytes (var st tv) <> sbytes (var st fv)).
      { unfold var. apply NoDup_map_nth_neq; auto; lia. }
      pose proof (copy_bang_other (mheap st) (var st tv) (var st fv) (svar sp tv) (svar sp fv) at_ r Rt Rf Hids) as F.
      rewrite <- rbounds_eq in F.
      destruct (rbounds r (length (svar sp fv))) as [a e]. destruct Hok as (Hae & He & Hat & Hroom).
      replace (range_okb a e (length (svar sp fv)) && (0 <=? at_) && (at_ + (e - a) <=? Z.of_nat (length (svar sp tv))))
        with true by (unfold range_okb; lia).
      destruct (F Hae He Hat Hroom) as (h' & s' & S & R' & Hid & _ & Fr). rewrite S.
      apply Inv_mutate; assumption.
Qed.

(* ------------------------------------------------------------------------------------- *)
(** * histories *)

(** whatever sequence of operations is applied (with valid ranges for the two Scheme-level loops), every
    string variable of the model still represents the corresponding array of the specification *)
Theorem xhistory_refines ops : forall st sp, Inv st sp -> hist_ok sp ops -> Inv (xrun st ops) (xspec_run sp ops).
Proof.
  unfold xrun, xspec_run. induction ops as [|o ops IH]; intros st sp I F; cbn [fold_left]; [exact I|].
  cbn [hist_ok] in F. destruct F as [Ho Fo].
  pose proof (xstep_refines st sp o I Ho) as S.
  destruct (xstep st o) as [st'|], (xspec_step sp o) as [sp'|]; try contradiction; apply IH; assumption.
Qed.

(** ... and therefore everything observable about every string agrees with the array *)
Theorem xhistory_observables ops : hist_ok [] ops ->
  let st := xrun (mkst [] []) ops in let sp := xspec_run [] ops in
  length (mvars st) = length sp /\
  forall v, (v < length sp)%nat ->
    string_length (mheap st) (var st v) = Ok (length (svar sp v)) /\
    slice (mheap st) (var st v) = enc_all (svar sp v) /\
    forall i, string_ref (mheap st) (var st v) i =
              if (0 <=? i) && (i <? Z.of_nat (length (svar sp v))) then Ok (nth (Z.to_nat i) (svar sp v) 0) else Err RangeErr.
Proof.
  intros F st sp. pose proof (xhistory_refines ops _ _ Inv_empty F) as (Hl & _ & Hr). fold st sp in Hl, Hr.
  split; [exact Hl|]. intros v Hv. specialize (Hr v Hv).
  split; [apply length_refines; exact Hr|]. split; [apply slice_rep; exact Hr|].
  intros i. apply ref_refines; exact Hr.
Qed.

(** the round-1 theorem is the special case of histories of [XBase] operations *)
Lemma hist_ok_base ops : Forall op_ok ops -> forall sp, hist_ok sp (map XBase ops).
Proof.
  induction 1 as [|o ops Ho _ IH]; intros sp; cbn [map hist_ok]; [exact Logic.I|]. split; [exact Ho|apply IH].
Qed.

(* ------------------------------------------------------------------------------------- *)
(** * the executable precondition implies the precondition *)

Lemma cpb_cp c : cpb c = true -> cp c.
Proof. unfold cpb, cp. lia. Qed.

Lemma op_okb_ok o : op_okb o = true -> op_ok o.
Proof.
  destruct o as [v i c|v a b|vs|v|n c|cs]; cbn [op_okb op_ok]; intros H; try exact Logic.I; try (apply cpb_cp; exact H).
  apply Forall_forall. intros c Hc. apply cpb_cp. rewrite forallb_forall in H. apply H. exact Hc.
Qed.

Lemma xpreb_xpre sp o : xpreb sp o = true -> xpre sp o.
Proof.
  destruct o as [o|vs sep|v c r|tv at_ fv r]; cbn [xpreb xpre]; intros H.
  - apply op_okb_ok. exact H.
  - exact Logic.I.
  - apply andb_true_iff in H. destruct H as [Hc Hb]. split; [apply cpb_cp; exact Hc|].
    intros Hv. apply Nat.ltb_lt in Hv. rewrite Hv in Hb.
    destruct (rbounds r (length (svar sp v))) as [a e]. apply range_okb_iff in Hb. tauto.
  - intros Htv Hfv. apply Nat.ltb_lt in Htv. apply Nat.ltb_lt in Hfv. rewrite Htv, Hfv in H. cbn [andb] in H.
    destruct (rbounds r (length (svar sp fv))) as [a e]. unfold range_okb in H. lia.
Qed.

Lemma hist_okb_ok ops : forall sp, hist_okb sp ops = true -> hist_ok sp ops.
Proof.
  induction ops as [|o ops IH]; intros sp H; cbn [hist_okb hist_ok] in *; [exact Logic.I|].
  apply andb_true_iff in H. destruct H as [H1 H2]. split; [apply xpreb_xpre; exact H1|apply IH; exact H2].
Qed.

(** the form a driver uses: check the history with [hist_okb], then compare [xrun] with [xspec_run] *)
Corollary xhistory_checked ops : hist_okb [] ops = true ->
  map (fun s => slice (mheap (xrun (mkst [] []) ops)) s) (mvars (xrun (mkst [] []) ops)) = map enc_all (xspec_run [] ops).
Proof.
  intros H. destruct (xhistory_observables ops (hist_okb_ok ops [] H)) as [Hl Hobs].
  apply nth_ext with (d := slice (mheap (xrun (mkst [] []) ops)) dummy_str) (d' := enc_all []).
  - rewrite !map_length. exact Hl.
  - intros v Hv. rewrite map_length in Hv.
    rewrite (map_nth (fun s => slice (mheap (xrun (mkst [] []) ops)) s)), (map_nth enc_all).
    apply Hobs. rewrite <- Hl. exact Hv.
Qed.

(* ------------------------------------------------------------------------------------- *)
(** * second layer: write-string with a range to an output string port *)

Definition WInv (w : wstate) (ws : wspec) : Prop :=
  Inv (wst w) (fst ws) /\ oport_ok (wout w) /\ out_bytes (wout w) = enc_all (snd ws).

Definition wpre (ws : wspec) (o : wop) : Prop :=
  match o with WX o => xpre (fst ws) o | WWrite _ _ => True end.

Fixpoint whist_ok (ws : wspec) (ops : list wop) : Prop :=
  match ops with
  | [] => True
  | o :: r => wpre ws o /\ whist_ok (match wspec_step ws o with Some ws' => ws' | None => ws end) r
  end.

(** write-string raises exactly when the range is not one of the array; otherwise the port receives the
    UTF-8 encoding of the sub-array and no string variable changes (the heap may hold one more store) *)
Theorem wstep_refines w ws o : WInv w ws -> wpre ws o ->
  match wstep w o, wspec_step ws o with
  | Some w', Some ws' => WInv w' ws'
  | None, None => True
  | _, _ => False
  end.
Proof.
  destruct w as [st po]. destruct ws as [sp out]. unfold WInv. cbn [wst wout fst snd].
  intros (I & OK & OUT) Hok. pose proof I as (Hl & Hnd & Hr).
  destruct o as [o|v r]; cbn [wstep wspec_step wpre wst wout fst] in *.
  - pose proof (xstep_refines st sp o I Hok) as S.
    destruct (xstep st o) as [st'|], (xspec_step sp o) as [sp'|]; try contradiction; [|exact Logic.I].
    cbn [wst wout fst snd]. auto.
  - rewrite Hl. destruct (v <? length sp)%nat eqn:Hv; [|exact Logic.I].
    apply Nat.ltb_lt in Hv. pose proof (Hr v Hv) as R.
    pose proof (write_string_range_refines (mheap st) (var st v) (svar sp v) r po R OK) as F.
    rewrite <- rbounds_eq in F. destruct (rbounds r (length (svar sp v))) as [a e].
    fold (range_okb a e (length (svar sp v))) in F.
    destruct (range_okb a e (length (svar sp v))).
    + destruct F as (h' & o' & S & OK' & OUT' & Fr). rewrite S. cbn [wst wout fst snd].
      split; [|split; [exact OK'|]].
      * split; [exact Hl|]. split; [exact Hnd|]. intros w Hw. cbn [mheap]. unfold var. cbn [mvars].
        apply Fr. apply (Hr w Hw).
      * rewrite OUT', OUT, enc_all_app. reflexivity.
    + destruct F as (x & S). rewrite S. exact Logic.I.
Qed.

Theorem whistory_refines ops : forall w ws, WInv w ws -> whist_ok ws ops -> WInv (wrun w ops) (wspec_run ws ops).
Proof.
  unfold wrun, wspec_run. induction ops as [|o ops IH]; intros w ws I F; cbn [fold_left]; [exact I|].
  cbn [whist_ok] in F. destruct F as [Ho Fo].
  pose proof (wstep_refines w ws o I Ho) as S.
  destruct (wstep w o) as [w'|], (wspec_step ws o) as [ws'|]; try contradiction; apply IH; assumption.
Qed.

Lemma WInv_init n : (1 <= n)%nat -> WInv (winit n) wspec_init.
Proof.
  intros H. destruct (open_output_string_ok n H) as [OK OUT].
  split; [exact Inv_empty|]. split; [exact OK|]. cbn [winit wout wspec_init snd]. rewrite OUT. reflexivity.
Qed.

Lemma whist_okb_ok ops : forall ws, whist_okb ws ops = true -> whist_ok ws ops.
Proof.
  induction ops as [|o ops IH]; intros ws H; cbn [whist_okb whist_ok] in *; [exact Logic.I|].
  apply andb_true_iff in H. destruct H as [H1 H2]. split; [|apply IH; exact H2].
  destruct o as [o|v r]; cbn [wpreb wpre] in *; [apply xpreb_xpre; exact H1|exact Logic.I].
Qed.

(** from the empty state and a fresh string port of any buffer size: the strings agree with the arrays and
    get-output-string is the UTF-8 encoding of the characters the specification wrote *)
Theorem whistory_observables n ops : (1 <= n)%nat -> whist_ok wspec_init ops ->
  let w := wrun (winit n) ops in let ws := wspec_run wspec_init ops in
  out_bytes (wout w) = enc_all (snd ws) /\
  length (mvars (wst w)) = length (fst ws) /\
  forall v, (v < length (fst ws))%nat ->
    string_length (mheap (wst w)) (var (wst w) v) = Ok (length (svar (fst ws) v)) /\
    slice (mheap (wst w)) (var (wst w) v) = enc_all (svar (fst ws) v) /\
    forall i, string_ref (mheap (wst w)) (var (wst w) v) i =
              if (0 <=? i) && (i <? Z.of_nat (length (svar (fst ws) v))) then Ok (nth (Z.to_nat i) (svar (fst ws) v) 0) else Err RangeErr.
Proof.
  intros Hn F w ws. pose proof (whistory_refines ops _ _ (WInv_init n Hn) F) as ((Hl & _ & Hr) & _ & OUT).
  fold w ws in Hl, Hr, OUT.
  split; [exact OUT|]. split; [exact Hl|]. intros v Hv. specialize (Hr v Hv).
  split; [apply length_refines; exact Hr|]. split; [apply slice_rep; exact Hr|].
  intros i. apply ref_refines; exact Hr.
Qed.

(* ------------------------------------------------------------------------------------- *)
(** * non-vacuity: a concrete history with non-ASCII data through the model and through the arrays *)

(** v0 = "aλ€😀z", v1 = "€é", v2 = "hi";
    v3 = (string-join (list v0 v1 v2) v1): the multi-byte separator is one of the joined strings;
    width-changing fills (λ,€ -> 😀: 2,3 -> 4 bytes; h,i -> λ; é -> A with a start only);
    string-copy! of v3 onto itself overlapping in each direction (at 0 < start 1: forward loop;
    at 7 > start 5: backward loop), onto other targets with the default range and a start only;
    five operations that raise on both sides (variables out of range, index out of range);
    joins without separator and of the empty list *)
Definition ex_xops : list xop :=
  [XBase (OLit [97; 955; 8364; 128512; 122]); XBase (OLit [8364; 233]); XBase (OLit [104; 105]);
   XJoin [0; 1; 2]%nat (Some 1%nat);
   XFill 0%nat 128512 (RBoth 1 3); XFill 2%nat 955 RNone; XFill 3%nat 65 (RStart 11);
   XCopyBang 3%nat 0 3%nat (RBoth 1 6); XCopyBang 3%nat 7 3%nat (RBoth 5 10);
   XCopyBang 0%nat 3 1%nat RNone; XCopyBang 1%nat 1 2%nat (RStart 1);
   XJoin [0; 7]%nat None; XCopyBang 9%nat 0 0%nat RNone; XFill 5%nat 66 RNone; XBase (OSet 1%nat 5 66);
   XJoin [2; 1]%nat None; XJoin [] (Some 0%nat)].

Example xhistory_ex :
  hist_okb [] ex_xops = true /\
  xspec_run [] ex_xops =
    [[97; 128512; 128512; 8364; 233]; [8364; 955]; [955; 955];
     [955; 8364; 128512; 122; 8364; 8364; 233; 8364; 233; 8364; 233; 8364; 65];
     [955; 955; 8364; 955]; []] /\
  map (fun s => slice (mheap (xrun (mkst [] []) ex_xops)) s) (mvars (xrun (mkst [] []) ex_xops))
  = map enc_all (xspec_run [] ex_xops) /\
  (* the intermediate state after the join and the fills, before the copies *)
  xspec_run [] (firstn 7 ex_xops) =
    [[97; 128512; 128512; 128512; 122]; [8364; 233]; [955; 955];
     [97; 955; 8364; 128512; 122; 8364; 233; 8364; 233; 8364; 233; 65; 65]] /\
  map (fun s => slice (mheap (xrun (mkst [] []) (firstn 7 ex_xops))) s) (mvars (xrun (mkst [] []) (firstn 7 ex_xops)))
  = map enc_all (xspec_run [] (firstn 7 ex_xops)).
Proof. vm_compute. repeat split; reflexivity. Qed.

(** the same history, then write-string with ranges to a string port with a 4-byte buffer (every write
    goes through flushes); two writes raise on both sides (end 99 > length, variable 8) *)
Definition ex_wops : list wop :=
  map WX ex_xops ++
  [WWrite 3%nat (RBoth 1 4); WWrite 0%nat RNone; WWrite 0%nat (RBoth 3 99); WWrite 8%nat RNone;
   WX (XFill 1%nat 8364 (RStart 1)); WWrite 1%nat (RStart 1)].

Example whistory_ex :
  whist_okb wspec_init ex_wops = true /\
  snd (wspec_run wspec_init ex_wops) = [8364; 128512; 122; 97; 128512; 128512; 8364; 233; 8364] /\
  out_bytes (wout (wrun (winit 4) ex_wops)) = enc_all (snd (wspec_run wspec_init ex_wops)) /\
  map (fun s => slice (mheap (wst (wrun (winit 4) ex_wops))) s) (mvars (wst (wrun (winit 4) ex_wops)))
  = map enc_all (fst (wspec_run wspec_init ex_wops)).
Proof. vm_compute. repeat split; reflexivity. Qed.

(** the precondition is not decoration: string-fill! with an end beyond the string raises in chibi after
    having mutated nothing here (the first string-set! is the one out of range), but with start < 0 the
    loop mutates positions end-1 .. 0 BEFORE raising; the functional model reports [Err] for both, the
    array operation is undefined for both, and [hist_okb] rejects both *)
Example xpre_rejects :
  hist_okb [] [XBase (OLit [97; 98]); XFill 0%nat 955 (RBoth (-1) 2)] = false /\
  hist_okb [] [XBase (OLit [97; 98]); XFill 0%nat 955 (RBoth 0 3)] = false /\
  hist_okb [] [XBase (OLit [97; 98]); XBase (OLit [99]); XCopyBang 1%nat 0 0%nat RNone] = false.
Proof. vm_compute. repeat split; reflexivity. Qed.

Print Assumptions xstep_refines.
Print Assumptions xhistory_refines.
Print Assumptions xhistory_observables.
Print Assumptions xhistory_checked.
Print Assumptions wstep_refines.
Print Assumptions whistory_refines.
Print Assumptions whistory_observables.

(** the form a driver uses for the port layer *)
Corollary whistory_checked n ops : (1 <= n)%nat -> whist_okb wspec_init ops = true ->
  out_bytes (wout (wrun (winit n) ops)) = enc_all (snd (wspec_run wspec_init ops)) /\
  map (fun s => slice (mheap (wst (wrun (winit n) ops))) s) (mvars (wst (wrun (winit n) ops)))
  = map enc_all (fst (wspec_run wspec_init ops)).
Proof.
  intros Hn H. destruct (whistory_observables n ops Hn (whist_okb_ok ops _ H)) as (OUT & Hl & Hobs).
  split; [exact OUT|].
  apply nth_ext with (d := slice (mheap (wst (wrun (winit n) ops))) dummy_str) (d' := enc_all []).
  - rewrite !map_length. exact Hl.
  - intros v Hv. rewrite map_length in Hv.
    rewrite (map_nth (fun s => slice (mheap (wst (wrun (winit n) ops))) s)), (map_nth enc_all).
    apply Hobs. rewrite <- Hl. exact Hv.
Qed.
Print Assumptions whistory_checked.
