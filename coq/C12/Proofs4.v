(** C12 round 2 — string-concatenate / string-join with a separator; string-copy!, string-fill! *)
From Coq Require Import ZifyBool.
From ChibiV Require Import C12.Model C12.Spec C12.Utf8Proofs C12.Proofs C12.Proofs2.
Local Open Scope Z_scope.

Ltac Zify.zify_post_hook ::= Z.div_mod_to_equations.

(* ---------------------------------------------------------------- concatenate with separator *)
Lemma intercalate_cons {A} (sep x y : list A) r :
  intercalate sep (x :: y :: r) = x ++ sep ++ intercalate sep (y :: r).
Proof. reflexivity. Qed.

Lemma intercalate_len seps css :
  length (enc_all (intercalate seps css))
  = (length (enc_all (concat css)) + length (enc_all seps) * (length css - 1))%nat.
Proof.
  induction css as [|x r IH]; [cbn; lia|].
  destruct r as [|y r].
  - cbn [intercalate concat length]. rewrite app_nil_r. lia.
  - rewrite intercalate_cons. cbn [concat]. rewrite !enc_all_app, !app_length, IH.
    cbn [concat length]. rewrite !enc_all_app, !app_length. lia.
Qed.

Lemma concat_loop_spec h seps spost csep ss css : Forall2 (Rep h) ss css ->
  csep = enc_all seps ++ spost ->
  forall pre z,
  concat_loop h ss csep (length (enc_all seps))
              (pre ++ repeat 0 (length (enc_all (intercalate seps css))) ++ z) (length pre)
  = (pre ++ enc_all (intercalate seps css) ++ z, (length pre + length (enc_all (intercalate seps css)))%nat).
Proof.
  intros F Hc. induction F as [|s cs ss css R F IH]; intros pre z.
  - cbn. rewrite Nat.add_0_r. reflexivity.
  - destruct R as (Hcp & _ & Hsz & post & Hd & _).
    destruct F as [|s2 cs2 ss css R2 F].
    + cbn [concat_loop intercalate]. rewrite Hd, Hsz.
      rewrite memcpy_app by (rewrite repeat_length; reflexivity). reflexivity.
    + rewrite intercalate_cons.
      remember (s2 :: ss) as ss2. remember (cs2 :: css) as css2.
      cbn [concat_loop]. rewrite Heqss2 at 1.
      rewrite !enc_all_app, !app_length, !repeat_app, <- !app_assoc.
      rewrite Hd, Hsz. rewrite memcpy_app by (rewrite repeat_length; reflexivity).
      destruct (0 <? length (enc_all seps))%nat eqn:E.
      * subst csep.
        replace (length pre + length (enc_all cs))%nat with (length (pre ++ enc_all cs)) by (rewrite app_length; reflexivity).
        rewrite (app_assoc pre (enc_all cs)).
        rewrite memcpy_app by (rewrite repeat_length; reflexivity).
        specialize (IH ((pre ++ enc_all cs) ++ enc_all seps) z).
        rewrite !app_length, <- !app_assoc in IH. rewrite <- !app_assoc.
        rewrite app_length.
        replace (length pre + (length (enc_all cs) + length (enc_all seps)))%nat
          with (length pre + length (enc_all cs) + length (enc_all seps))%nat by lia.
        rewrite IH. f_equal. lia.
      * apply Nat.ltb_ge in E. assert (E0 : enc_all seps = []) by (destruct (enc_all seps); [reflexivity|cbn in E; lia]).
        specialize (IH (pre ++ enc_all cs) z).
        rewrite !app_length, <- !app_assoc in IH.
        rewrite E0 in *. cbn [length repeat app] in *.
        rewrite IH. f_equal. lia.
Qed.

Lemma Forall_cp_intercalate seps css : Forall cp seps -> Forall (Forall cp) css -> Forall cp (intercalate seps css).
Proof.
  intros Hs H. induction H as [|x r Hx Hr IH]; [constructor|].
  destruct r as [|y r]; [exact Hx|].
  rewrite intercalate_cons. apply Forall_app; split; [exact Hx|]. apply Forall_app; split; [exact Hs|exact IH].
Qed.

Lemma Forall2_len {A B} (R : A -> B -> Prop) l1 l2 : Forall2 R l1 l2 -> length l1 = length l2.
Proof. induction 1; cbn; congruence. Qed.

(** string-concatenate / string-join refines [intercalate]: for a separator of ANY byte width, the empty
    separator and no separator ([None]: #f), and any number of strings, into a fresh store *)
Theorem concatenate_refines h ss css sep seps : Forall2 (Rep h) ss css ->
  match sep with Some sp => Rep h sp seps | None => seps = [] end ->
  exists q s', string_concatenate h ss sep = (h ++ [q], s') /\ sbytes s' = length h /\
               Rep (h ++ [q]) s' (intercalate seps css).
Proof.
  intros F Hsep. unfold string_concatenate.
  rewrite (sum_sizes h ss css F 0%nat). cbn [Nat.add].
  rewrite (Forall2_len _ _ _ F).
  (* normalise the separator *)
  assert (Hcps : Forall cp seps) by (destruct sep; [apply Hsep|subst; constructor]).
  assert (Hfc : Forall (Forall cp) css).
  { clear Hsep. induction F as [|s cs ss css R _ IH]; constructor; [apply R|exact IH]. }
  destruct css as [|c0 css'].
  - (* no strings: i = 0, sep_len = 0 *)
    inversion F; subst. cbn [length Nat.ltb Nat.leb].
    replace (match sep with Some _ => 0%nat | None => 0%nat end) with 0%nat by (destruct sep; reflexivity).
    cbn. eexists _, _. split; [reflexivity|]. split; [reflexivity|].
    apply (Rep_fresh h []). constructor.
  - set (css := c0 :: css') in *.
    assert (Hi : (0 <? length css)%nat = true) by reflexivity. rewrite Hi.
    set (L := length (enc_all (intercalate seps css))).
    assert (exists spost, (match sep with Some sp => sdata h sp | None => [] end) = enc_all seps ++ spost /\
                          (match sep with Some sp => ssize sp | None => 0%nat end) = length (enc_all seps))
      as (spost & Hcs & Hsl).
    { destruct sep as [sp|].
      - destruct Hsep as (_ & _ & Hsz & post & Hd & _). exists post. split; [exact Hd|exact Hsz].
      - subst seps. exists []. split; reflexivity. }
    rewrite Hsl.
    assert (HL : (length (enc_all (concat css)) + length (enc_all seps) * (length css - 1))%nat = L)
      by (unfold L; rewrite intercalate_len; reflexivity).
    rewrite HL. unfold make_bytes. rewrite repeat_app. cbn [repeat].
    pose proof (concat_loop_spec h seps spost _ ss css F Hcs [] [0]) as A.
    cbn [app length Nat.add] in A. fold L in A. rewrite A.
    rewrite <- (app_nil_r (enc_all (intercalate seps css) ++ [0])), <- app_assoc.
    rewrite (overwrite_app (enc_all (intercalate seps css)) [0] [] L [0]) by reflexivity.
    rewrite app_nil_r.
    eexists _, _. split; [reflexivity|]. split; [reflexivity|].
    apply Rep_fresh. apply Forall_cp_intercalate; assumption.
Qed.

(** without separator it is string-append *)
Lemma concat_loop_nosep h csep ss : forall b p,
  concat_loop h ss csep 0 b p
  = fold_left (fun bp s => (memcpy (fst bp) (snd bp) (sdata h s) (ssize s), (snd bp + ssize s)%nat)) ss (b, p).
Proof.
  induction ss as [|s r IH]; intros b p; [reflexivity|].
  cbn [concat_loop fold_left fst snd]. destruct r as [|s2 r]; [reflexivity|].
  cbn [Nat.ltb Nat.leb]. apply IH.
Qed.

Lemma concatenate_none_is_append h ss : string_concatenate h ss None = string_append h ss.
Proof.
  unfold string_concatenate, string_append. cbn [Nat.mul]. rewrite Nat.add_0_r.
  rewrite concat_loop_nosep. reflexivity.
Qed.

Definition exj_heap : heap := [[97; 0]; [206; 187; 98; 0]; [120; 226; 134; 146; 0; 7]].
Lemma exj_a : Rep exj_heap (mkstr 0 0 1 false) [97].
Proof. repeat split; [repeat constructor; unfold cp; lia|cbn; lia|exists [0]; split; [vm_compute; reflexivity|discriminate]]. Qed.
Lemma exj_b : Rep exj_heap (mkstr 1 0 3 false) [955; 98].
Proof. repeat split; [repeat constructor; unfold cp; lia|cbn; lia|exists [0]; split; [vm_compute; reflexivity|discriminate]]. Qed.
Lemma exj_sep : Rep exj_heap (mkstr 2 1 3 false) [8594].
Proof. repeat split; [repeat constructor; unfold cp; lia|cbn; lia|exists [0; 7]; split; [vm_compute; reflexivity|discriminate]]. Qed.
Example ex_join :
  let a := mkstr 0 0 1 false in let b := mkstr 1 0 3 false in let sep := mkstr 2 1 3 false in
  let r := string_concatenate exj_heap [a; b; a] (Some sep) in
  slice (fst r) (snd r) = enc_all (intercalate [8594] [[97]; [955; 98]; [97]]).
Proof. vm_compute. reflexivity. Qed.
