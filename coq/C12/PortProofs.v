(** C12 round 2 — character I/O on buffered ports refines the stream of code points:
    read-char / peek-char over the refillable buffer (every position of a character relative to the
    refill boundary, every size of read(2) answer), write-char into a string port, read-string. *)
From Coq Require Import ZifyBool.
From ChibiV Require Import C12.Model C12.Spec C12.Utf8Proofs C12.Proofs C12.PortModel.
Local Open Scope Z_scope.

Ltac Zify.zify_post_hook ::= Z.div_mod_to_equations.

(* ---------------------------------------------------------------- lists *)
Lemma overwrite_decomp dst pos src : (pos + length src <= length dst)%nat ->
  overwrite dst pos src = firstn pos dst ++ src ++ skipn (pos + length src) dst.
Proof.
  intros H. unfold overwrite. apply firstn_all2.
  rewrite !app_length, firstn_length, skipn_length. lia.
Qed.

Lemma overwrite_length dst pos src : length (overwrite dst pos src) = length dst.
Proof.
  unfold overwrite. rewrite firstn_length, !app_length, firstn_length, skipn_length. lia.
Qed.

Lemma skipn_app_exact {A} (a b : list A) n : length a = n -> skipn n (a ++ b) = b.
Proof. intros <-. rewrite skipn_app, skipn_all, Nat.sub_diag. reflexivity. Qed.

Lemma firstn_app_exact {A} (a b : list A) n : length a = n -> firstn n (a ++ b) = a.
Proof. intros <-. rewrite firstn_app, firstn_all, Nat.sub_diag, firstn_O, app_nil_r. reflexivity. Qed.

Lemma skipn_cons_nth (l : list Z) n : (n < length l)%nat -> skipn n l = byte_at l n :: skipn (S n) l.
Proof.
  revert n. induction l as [|x l IH]; intros [|n] H; cbn in *; try lia; [reflexivity|].
  apply IH. lia.
Qed.

(** the unread part of the buffer *)
Definition window (p : iport) : list Z := firstn (psize p - poff p) (skipn (poff p) (pbuf p)).

Definition port_ok (p : iport) : Prop :=
  (poff p <= psize p)%nat /\ (psize p <= length (pbuf p))%nat /\
  match pkd p with PString => psrc p = [] | PFd => (BUF_START < length (pbuf p))%nat end.

Lemma pending_window p : pending p = window p ++ psrc p.
Proof. reflexivity. Qed.

(* ---------------------------------------------------------------- one byte *)
(** reading one byte: the byte is the head of what is pending, the rest stays pending; the offset either
    advanced by one or, after a refill, stands one past BUF_START *)
Lemma read_byte_some p b rest : port_ok p -> pending p = b :: rest ->
  exists p', read_byte p = (b, p') /\ port_ok p' /\ pending p' = rest /\
             (poff p' = S (poff p) \/ poff p' = S BUF_START).
Proof.
  intros (Ho & Hs & Hk) Hp. unfold read_byte.
  destruct (poff p <? psize p)%nat eqn:E.
  - apply Nat.ltb_lt in E. exists (set_off p (S (poff p))).
    unfold pending in Hp. rewrite (skipn_cons_nth (pbuf p) (poff p)) in Hp by lia.
    replace (psize p - poff p)%nat with (S (psize p - S (poff p))) in Hp by lia.
    cbn [firstn app] in Hp. injection Hp as Hb Hr.
    split; [rewrite Hb; reflexivity|]. split; [|split].
    + unfold port_ok, set_off; cbn. repeat split; try lia. exact Hk.
    + unfold pending, set_off; cbn. exact Hr.
    + left. reflexivity.
  - apply Nat.ltb_ge in E. assert (Eo : poff p = psize p) by lia.
    unfold pending in Hp. rewrite Eo, Nat.sub_diag in Hp. cbn [firstn app] in Hp.
    destruct (pkd p) eqn:K; [rewrite Hk in Hp; discriminate|].
    unfold refill. cbn [poff psize pbuf].
    set (cap := (length (pbuf p) - BUF_START)%nat).
    set (want := match psched p with [] => cap | n :: _ => Nat.min (Nat.max 1 n) cap end).
    assert (Hw : (1 <= want <= cap)%nat).
    { unfold want, cap. destruct (psched p); lia. }
    clearbody want.
    assert (Hd : firstn want (psrc p) = b :: firstn (want - 1) rest).
    { rewrite Hp. destruct want; [lia|]. cbn [firstn Nat.sub]. rewrite Nat.sub_0_r. reflexivity. }
    assert (Hl : (length (firstn want (psrc p)) <= cap)%nat) by (rewrite firstn_length; lia).
    rewrite Hd in *. cbn [length] in *.
    assert (Hlt : (BUF_START <? BUF_START + S (length (firstn (want - 1) rest)))%nat = true) by (apply Nat.ltb_lt; lia).
    rewrite Hlt. clear Hlt.
    assert (Hov : overwrite (pbuf p) BUF_START (b :: firstn (want - 1) rest)
                  = firstn BUF_START (pbuf p) ++ (b :: firstn (want - 1) rest)
                    ++ skipn (BUF_START + S (length (firstn (want - 1) rest))) (pbuf p)).
    { apply overwrite_decomp. cbn [length]. unfold cap in Hl. lia. }
    assert (Hb : byte_at (overwrite (pbuf p) BUF_START (b :: firstn (want - 1) rest)) BUF_START = b).
    { rewrite Hov. clear Hov. unfold byte_at.
      rewrite app_nth2 by (rewrite firstn_length; lia).
      rewrite firstn_length, Nat.min_l by lia. rewrite Nat.sub_diag. reflexivity. }
    rewrite Hb.
    eexists. split; [reflexivity|]. split; [|split].
    + clear Hov. unfold port_ok, set_off; cbn [poff psize pbuf pkd psrc]. rewrite overwrite_length, K.
      unfold cap in Hl. repeat split; lia.
    + unfold pending, set_off; cbn [poff psize pbuf psrc]. rewrite Hov. clear Hov Hb.
      remember (firstn (want - 1) rest) as T eqn:HT.
      remember (firstn BUF_START (pbuf p)) as F eqn:HF.
      assert (LF : length F = BUF_START) by (subst F; rewrite firstn_length; lia).
      replace (BUF_START + S (length T) - S BUF_START)%nat with (length T) by lia.
      change (b :: T) with ([b] ++ T). rewrite <- (app_assoc [b] T). rewrite (app_assoc F [b]).
      rewrite skipn_app_exact by (rewrite app_length; cbn [length]; lia).
      rewrite firstn_app_exact by reflexivity.
      subst T. rewrite Hp. destruct want; [lia|]. cbn [skipn Nat.sub]. rewrite Nat.sub_0_r. apply firstn_skipn.
    + right. reflexivity.
Qed.

(** end of input: nothing pending -> EOF, and nothing becomes pending *)
Lemma read_byte_eof p : port_ok p -> pending p = [] ->
  exists p', read_byte p = (-1, p') /\ port_ok p' /\ pending p' = [].
Proof.
  intros (Ho & Hs & Hk) Hp. unfold read_byte.
  unfold pending in Hp. apply app_eq_nil in Hp as [Hw Hsrc].
  destruct (poff p <? psize p)%nat eqn:E.
  - apply Nat.ltb_lt in E. rewrite (skipn_cons_nth (pbuf p) (poff p)) in Hw by lia.
    replace (psize p - poff p)%nat with (S (psize p - S (poff p))) in Hw by lia. discriminate.
  - destruct (pkd p) eqn:K.
    + exists p. split; [reflexivity|]. split; [unfold port_ok; rewrite K; auto|].
      unfold pending. rewrite Hw, Hsrc. reflexivity.
    + unfold refill. rewrite Hsrc. rewrite firstn_nil, skipn_nil. cbn [length poff psize].
      rewrite Nat.add_0_r, Nat.ltb_irrefl.
      eexists. split; [reflexivity|]. split.
      * unfold port_ok; cbn [poff psize pbuf pkd]. rewrite overwrite_length, K. repeat split; lia.
      * unfold pending; cbn [poff psize pbuf psrc]. rewrite Nat.sub_diag. reflexivity.
Qed.

(* ---------------------------------------------------------------- pushing back *)
Lemma push_bytes_spec p bs : port_ok p -> (length bs <= poff p)%nat ->
  exists p', push_bytes p bs = Ok p' /\ port_ok p' /\ pending p' = bs ++ pending p /\ pkd p' = pkd p.
Proof.
  intros (Ho & Hs & Hk) Hl. unfold push_bytes.
  assert (E : (poff p <? length bs)%nat = false) by (apply Nat.ltb_ge; lia). rewrite E. clear E.
  eexists. split; [reflexivity|]. split; [|split; [|reflexivity]].
  - unfold port_ok; cbn [poff psize pbuf pkd psrc]. rewrite overwrite_length. repeat split; try lia. exact Hk.
  - unfold pending; cbn [poff psize pbuf psrc].
    rewrite overwrite_decomp by lia.
    remember (firstn (poff p - length bs) (pbuf p)) as F eqn:HF.
    assert (LF : length F = (poff p - length bs)%nat) by (subst F; rewrite firstn_length; lia).
    rewrite skipn_app_exact by exact LF.
    replace (poff p - length bs + length bs)%nat with (poff p) by lia.
    replace (psize p - (poff p - length bs))%nat with (length bs + (psize p - poff p))%nat by lia.
    rewrite firstn_app, firstn_all2 by lia.
    replace (length bs + (psize p - poff p) - length bs)%nat with (psize p - poff p)%nat by lia.
    rewrite <- app_assoc. reflexivity.
Qed.

(* ---------------------------------------------------------------- one character *)
(** the continuation bytes of a non-ASCII character, read through [read_byte] whatever refills happen
    in between, give the character back; [k] bytes of room behind the offset become [k + #bytes] *)
Lemma read_utf8_char_spec p c i t rest k : port_ok p -> cp c -> 128 <= c -> encode c = i :: t ->
  pending p = t ++ rest -> (k <= poff p)%nat -> (k + length t <= S BUF_START)%nat ->
  exists p', read_utf8_char p i = (Some c, p') /\ port_ok p' /\ pending p' = rest /\
             (k + length t <= poff p')%nat.
Proof.
  intros Hok Hc H128 He Hp Hk Hroom. unfold read_utf8_char.
  destruct (cp_classes c Hc) as [K|[K|[K|K]]]; [lia| | |].
  - pose proof He as He'. rewrite (encode_2 c K) in He'.
    assert (Ei : i = 192 + c / 64) by congruence. assert (Et : t = [128 + c mod 64]) by congruence. subst i t. clear He'.
    destruct (read_byte_some p _ _ Hok Hp) as (p1 & R1 & O1 & P1 & F1).
    assert (E1 : (192 + c / 64 <? 192) || (247 <? 192 + c / 64) = false) by lia. rewrite E1.
    assert (E2 : (192 + c / 64 <? 224) = true) by lia. rewrite E2. cbn [read_cont]. rewrite R1.
    assert (N1 : (128 + c mod 64 =? -1) = false) by lia. rewrite N1.
    eexists. split; [|split; [exact O1|split; [exact P1|cbn [length] in *; unfold BUF_START in *; lia]]].
    f_equal. f_equal. bits. lia.
  - pose proof He as He'. rewrite (encode_3 c K) in He'.
    assert (Ei : i = 224 + c / 4096) by congruence. assert (Et : t = [128 + (c / 64) mod 64; 128 + c mod 64]) by congruence. subst i t. clear He'.
    destruct (read_byte_some p _ _ Hok Hp) as (p1 & R1 & O1 & P1 & F1).
    destruct (read_byte_some p1 _ _ O1 P1) as (p2 & R2 & O2 & P2 & F2).
    assert (E1 : (224 + c / 4096 <? 192) || (247 <? 224 + c / 4096) = false) by lia. rewrite E1.
    assert (E2 : (224 + c / 4096 <? 224) = false) by lia. rewrite E2.
    assert (E3 : (224 + c / 4096 <? 240) = true) by lia. rewrite E3. cbn [read_cont]. rewrite R1.
    assert (N1 : (128 + (c / 64) mod 64 =? -1) = false) by lia. rewrite N1. rewrite R2.
    assert (N2 : (128 + c mod 64 =? -1) = false) by lia. rewrite N2.
    eexists. split; [|split; [exact O2|split; [exact P2|cbn [length] in *; unfold BUF_START in *; lia]]].
    f_equal. f_equal. bits. lia.
  - pose proof He as He'. rewrite (encode_4 c K) in He'.
    assert (Ei : i = 240 + c / 262144) by congruence. assert (Et : t = [128 + (c / 4096) mod 64; 128 + (c / 64) mod 64; 128 + c mod 64]) by congruence. subst i t. clear He'.
    destruct (read_byte_some p _ _ Hok Hp) as (p1 & R1 & O1 & P1 & F1).
    destruct (read_byte_some p1 _ _ O1 P1) as (p2 & R2 & O2 & P2 & F2).
    destruct (read_byte_some p2 _ _ O2 P2) as (p3 & R3 & O3 & P3 & F3).
    unfold cp in Hc.
    assert (E1 : (240 + c / 262144 <? 192) || (247 <? 240 + c / 262144) = false) by lia. rewrite E1.
    assert (E2 : (240 + c / 262144 <? 224) = false) by lia. rewrite E2.
    assert (E3 : (240 + c / 262144 <? 240) = false) by lia. rewrite E3. cbn [read_cont]. rewrite R1.
    assert (N1 : (128 + (c / 4096) mod 64 =? -1) = false) by lia. rewrite N1. rewrite R2.
    assert (N2 : (128 + (c / 64) mod 64 =? -1) = false) by lia. rewrite N2. rewrite R3.
    assert (N3 : (128 + c mod 64 =? -1) = false) by lia. rewrite N3.
    eexists. split; [|split; [exact O3|split; [exact P3|cbn [length] in *; unfold BUF_START in *; lia]]].
    f_equal. f_equal. bits. lia.
Qed.

(** THE CHARACTER THEOREMS.  A port whose pending bytes start with the encoding of [c]:
    read-char returns [c] and leaves the rest pending; peek-char returns [c] and leaves the pending bytes
    exactly as they were — wherever the bytes of [c] lie relative to the buffer end (any split between
    buffer and source, any sequence of read(2) answers, one byte at a time included). *)
Theorem read_char_spec p c rest : port_ok p -> cp c -> pending p = encode c ++ rest ->
  exists p', read_char p = (RChar c, p') /\ port_ok p' /\ pending p' = rest.
Proof.
  intros Hok Hc Hp. unfold read_char.
  destruct (encode c) as [|i t] eqn:He.
  { pose proof (encode_nonempty c Hc) as N. rewrite He in N. cbn in N. lia. }
  cbn [app] in Hp.
  destruct (read_byte_some p i _ Hok Hp) as (p1 & R1 & O1 & P1 & F1). rewrite R1.
  destruct (cp_classes c Hc) as [K|K].
  - rewrite (encode_1 c K) in He. assert (Ei : i = c) by congruence. assert (Et : t = []) by congruence. subst i t.
    assert (E1 : (c =? -1) = false) by lia. assert (E2 : (128 <=? c) = false) by lia. rewrite E1, E2.
    eexists. split; [reflexivity|]. split; [exact O1|exact P1].
  - assert (H128 : 128 <= c) by lia.
    assert (Hi : 192 <= i < 248).
    { unfold cp in Hc. destruct K as [K|[K|K]];
        [rewrite (encode_2 c K) in He|rewrite (encode_3 c K) in He|rewrite (encode_4 c K) in He];
        [assert (Ei : i = 192 + c / 64) by congruence|assert (Ei : i = 224 + c / 4096) by congruence
        |assert (Ei : i = 240 + c / 262144) by congruence]; lia. }
    assert (E1 : (i =? -1) = false) by lia. assert (E2 : (128 <=? i) = true) by lia. rewrite E1, E2.
    assert (Lt : (length t <= 3)%nat).
    { pose proof (encode_length c Hc) as L. pose proof (width_range c Hc). rewrite He in L. cbn [length] in L. lia. }
    destruct (read_utf8_char_spec p1 c i t rest 0 O1 Hc H128 He P1) as (p2 & R2 & O2 & P2 & _);
      [lia|unfold BUF_START; lia|].
    rewrite R2. eexists. split; [reflexivity|]. split; [exact O2|exact P2].
Qed.

Theorem peek_char_spec p c rest : port_ok p -> cp c -> pending p = encode c ++ rest ->
  exists p', peek_char p = (RChar c, p') /\ port_ok p' /\ pending p' = pending p.
Proof.
  intros Hok Hc Hp. unfold peek_char. rewrite Hp.
  destruct (encode c) as [|i t] eqn:He.
  { pose proof (encode_nonempty c Hc) as N. rewrite He in N. cbn in N. lia. }
  cbn [app] in Hp.
  destruct (read_byte_some p i _ Hok Hp) as (p1 & R1 & O1 & P1 & F1). rewrite R1.
  assert (B1 : (1 <= poff p1)%nat) by (unfold BUF_START in F1; lia).
  destruct (cp_classes c Hc) as [K|K].
  - rewrite (encode_1 c K) in He. assert (Ei : i = c) by congruence. assert (Et : t = []) by congruence. subst i t.
    assert (E1 : (c =? -1) = false) by lia. assert (E2 : (128 <=? c) = false) by lia. rewrite E1, E2.
    destruct (push_bytes_spec p1 [c] O1) as (p2 & R2 & O2 & P2 & _); [cbn; lia|].
    rewrite R2. eexists. split; [reflexivity|]. split; [exact O2|]. rewrite P2, P1. reflexivity.
  - assert (H128 : 128 <= c) by lia.
    assert (Hi : 192 <= i < 248).
    { unfold cp in Hc. destruct K as [K|[K|K]];
        [rewrite (encode_2 c K) in He|rewrite (encode_3 c K) in He|rewrite (encode_4 c K) in He];
        [assert (Ei : i = 192 + c / 64) by congruence|assert (Ei : i = 224 + c / 4096) by congruence
        |assert (Ei : i = 240 + c / 262144) by congruence]; lia. }
    assert (E1 : (i =? -1) = false) by lia. assert (E2 : (128 <=? i) = true) by lia. rewrite E1, E2.
    assert (Lt : (S (length t) = width c)%nat).
    { pose proof (encode_length c Hc) as L. rewrite He in L. exact L. }
    pose proof (width_range c Hc) as Wr.
    destruct (read_utf8_char_spec p1 c i t rest 1 O1 Hc H128 He P1) as (p2 & R2 & O2 & P2 & B2);
      [lia|unfold BUF_START; lia|].
    rewrite R2. unfold push_utf8_char. rewrite (encode_char_width c Hc), He.
    destruct (push_bytes_spec p2 (i :: t) O2) as (p3 & R3 & O3 & P3 & _); [cbn [length]; lia|].
    rewrite R3. eexists. split; [reflexivity|]. split; [exact O3|]. rewrite P3, P2. reflexivity.
Qed.

(** end of input *)
Theorem read_peek_eof p : port_ok p -> pending p = [] ->
  (exists p', read_char p = (REof, p') /\ port_ok p' /\ pending p' = []) /\
  (exists p', peek_char p = (REof, p') /\ port_ok p' /\ pending p' = []).
Proof.
  intros Hok Hp. destruct (read_byte_eof p Hok Hp) as (p' & R & O & P).
  unfold read_char, peek_char. rewrite R. cbn. split; exists p'; auto.
Qed.

(* ---------------------------------------------------------------- read-string *)
Lemma read_string_loop_spec n : forall p cs acc, port_ok p -> Forall cp cs -> pending p = enc_all cs ->
  exists p', read_string_loop n p acc = (Ok (rev acc ++ firstn n cs), p') /\ port_ok p' /\
             pending p' = enc_all (skipn n cs).
Proof.
  induction n as [|n IH]; intros p cs acc Hok Hcs Hp.
  - cbn [read_string_loop firstn skipn]. rewrite app_nil_r. exists p. auto.
  - cbn [read_string_loop]. destruct cs as [|c r].
    + cbn [enc_all flat_map] in Hp.
      destruct (read_peek_eof p Hok Hp) as (_ & p1 & R1 & O1 & P1). rewrite R1.
      cbn [firstn skipn]. rewrite app_nil_r. exists p1. auto.
    + inversion Hcs as [|? ? Hc Hr]; subst. rewrite enc_all_cons in Hp.
      destruct (peek_char_spec p c _ Hok Hc Hp) as (p1 & R1 & O1 & P1). rewrite R1.
      rewrite Hp in P1.
      destruct (read_char_spec p1 c _ O1 Hc P1) as (p2 & R2 & O2 & P2). rewrite R2.
      destruct (IH p2 r (c :: acc) O2 Hr P2) as (p3 & R3 & O3 & P3). rewrite R3.
      exists p3. split; [|auto]. cbn [rev firstn]. rewrite <- app_assoc. reflexivity.
Qed.

(** read-string n = the first n characters (all of them when fewer are left), the others stay pending *)
Theorem read_string_spec n p cs : port_ok p -> Forall cp cs -> pending p = enc_all cs ->
  exists p', read_string n p = (Ok (firstn n cs), p') /\ port_ok p' /\ pending p' = enc_all (skipn n cs).
Proof. intros. unfold read_string. apply (read_string_loop_spec n p cs []); assumption. Qed.

(** constructors establish the invariant: a string port over the bytes of a string, and a
    file-descriptor port over any source with any buffer size above BUF_START and any read(2) schedule *)
Lemma open_string_port_ok bytes : port_ok (open_string_port bytes) /\ pending (open_string_port bytes) = bytes.
Proof.
  unfold open_string_port, port_ok, pending; cbn. repeat split; try lia.
  rewrite Nat.sub_0_r, firstn_all, app_nil_r. reflexivity.
Qed.

Lemma open_fd_port_ok n src sched : (BUF_START < n)%nat ->
  port_ok (open_fd_port n src sched) /\ pending (open_fd_port n src sched) = src.
Proof.
  intros H. unfold open_fd_port, port_ok, pending; cbn [poff psize pbuf pkd psrc].
  rewrite repeat_length, Nat.sub_diag. repeat split; try lia.
Qed.

(** reading back what was written: the characters [cs], stored as their standard encoding, come back
    through read-char one by one (here: all of them through read-string), whatever the buffer size,
    wherever the refill boundaries fall; then end of file *)
Theorem port_read_roundtrip cs n src sched : Forall cp cs -> (BUF_START < n)%nat -> src = enc_all cs ->
  (exists p', read_string (length cs) (open_fd_port n src sched) = (Ok cs, p') /\ pending p' = [] /\ port_ok p') /\
  (exists p', read_string (length cs) (open_string_port src) = (Ok cs, p') /\ pending p' = [] /\ port_ok p').
Proof.
  intros Hcs Hn ->. split.
  - destruct (open_fd_port_ok n (enc_all cs) sched Hn) as [O P].
    destruct (read_string_spec (length cs) _ cs O Hcs P) as (p' & R & O' & P').
    rewrite firstn_all in R. rewrite skipn_all in P'. exists p'. auto.
  - destruct (open_string_port_ok (enc_all cs)) as [O P].
    destruct (read_string_spec (length cs) _ cs O Hcs P) as (p' & R & O' & P').
    rewrite firstn_all in R. rewrite skipn_all in P'. exists p'. auto.
Qed.

(** an arrow cut by one-byte reads: every refill happens inside the character *)
Example ex_peek_straddle :
  let p := open_fd_port 8 [97; 226; 134; 146; 98] [2; 1; 1; 1]%nat in
  let '(a, p1) := read_char p in
  let '(b, p2) := peek_char p1 in
  let '(c, p3) := read_char p2 in
  let '(d, p4) := read_char p3 in
  (a, b, c, d) = (RChar 97, RChar 8594, RChar 8594, RChar 98) /\ pending p2 = [226; 134; 146; 98].
Proof. vm_compute. auto. Qed.
