(** C12 round 4 — character input on FILE* ports (open-input-file: no chibi buffer, every byte through
    getc / ungetc) refines the stream of code points PROVIDED the C library accepts four bytes of pushback;
    with ISO C's guaranteed minimum of one byte it does not (refutation at the end).
    Model: C12/FilePortModel.v. *)
From Coq Require Import ZifyBool.
From ChibiV Require Import C12.Model C12.Spec C12.Utf8Proofs C12.Proofs C12.Proofs2 C12.PortModel C12.PortProofs C12.FilePortModel.
Local Open Scope Z_scope.
Ltac Zify.zify_post_hook ::= Z.div_mod_to_equations.

(* ---------------------------------------------------------------- one byte *)
Lemma fgetc_some p b rest : fpending p = b :: rest ->
  exists p', fgetc p = (b, p') /\ fpending p' = rest /\ fcap p' = fcap p /\
             length (fpush p') = (length (fpush p) - 1)%nat.
Proof.
  destruct p as [pu sr cap]. unfold fpending, fgetc. cbn [fpush fsrc fcap]. intros Hp.
  destruct pu as [|x pu].
  - cbn [app] in Hp. subst sr. eexists. split; [reflexivity|]. cbn [fpush fsrc fcap app length]. auto.
  - cbn [app] in Hp. injection Hp as Hx Hr. subst x. eexists. split; [reflexivity|].
    cbn [fpush fsrc fcap length]. repeat split; [exact Hr|lia].
Qed.

Lemma fgetc_eof p : fpending p = [] -> fgetc p = (-1, p).
Proof.
  unfold fpending, fgetc. intros Hp. apply app_eq_nil in Hp as [Hu Hs]. rewrite Hu, Hs. reflexivity.
Qed.

(* ---------------------------------------------------------------- pushing back *)
Lemma fungetc_room p c : (length (fpush p) < fcap p)%nat ->
  fpending (fungetc p c) = c :: fpending p /\ fcap (fungetc p c) = fcap p /\
  length (fpush (fungetc p c)) = S (length (fpush p)).
Proof.
  intros H. unfold fungetc. assert (E : (length (fpush p) <? fcap p)%nat = true) by (apply Nat.ltb_lt; exact H).
  rewrite E. unfold fpending. cbn [fpush fsrc fcap length app]. auto.
Qed.

(** pushing bytes back within the capacity: last byte first, so they come out again in order *)
Lemma fungetc_all p bs : (length (fpush p) + length bs <= fcap p)%nat ->
  fpending (fold_left fungetc (rev bs) p) = bs ++ fpending p /\
  fcap (fold_left fungetc (rev bs) p) = fcap p /\
  length (fpush (fold_left fungetc (rev bs) p)) = (length (fpush p) + length bs)%nat.
Proof.
  revert p. induction bs as [|b bs IH]; intros p H.
  - cbn [rev fold_left app length]. repeat split. lia.
  - cbn [rev length] in *. rewrite fold_left_app. cbn [fold_left].
    destruct (IH p ltac:(lia)) as (P & C & L).
    destruct (fungetc_room (fold_left fungetc (rev bs) p) b ltac:(lia)) as (P' & C' & L').
    rewrite P', C', L', P, C, L. repeat split. lia.
Qed.

(* ---------------------------------------------------------------- one character *)
Lemma fread_utf8_char_spec p c i t rest : cp c -> 128 <= c -> encode c = i :: t ->
  fpending p = t ++ rest ->
  exists p', fread_utf8_char p i = (Some c, p') /\ fpending p' = rest /\ fcap p' = fcap p /\
             length (fpush p') = (length (fpush p) - length t)%nat.
Proof.
  intros Hc H128 He Hp. unfold fread_utf8_char.
  destruct (cp_classes c Hc) as [K|[K|[K|K]]]; [lia| | |].
  - pose proof He as He'. rewrite (encode_2 c K) in He'.
    assert (Ei : i = 192 + c / 64) by congruence. assert (Et : t = [128 + c mod 64]) by congruence. subst i t. clear He'.
    destruct (fgetc_some p _ _ Hp) as (p1 & R1 & P1 & C1 & L1).
    assert (E1 : (192 + c / 64 <? 192) || (247 <? 192 + c / 64) = false) by lia. rewrite E1.
    assert (E2 : (192 + c / 64 <? 224) = true) by lia. rewrite E2. cbn [fread_cont]. rewrite R1.
    assert (N1 : (128 + c mod 64 =? -1) = false) by lia. rewrite N1.
    eexists. split; [|split; [exact P1|split; [exact C1|cbn [length] in *; lia]]].
    f_equal. f_equal. bits. lia.
  - pose proof He as He'. rewrite (encode_3 c K) in He'.
    assert (Ei : i = 224 + c / 4096) by congruence. assert (Et : t = [128 + (c / 64) mod 64; 128 + c mod 64]) by congruence. subst i t. clear He'.
    destruct (fgetc_some p _ _ Hp) as (p1 & R1 & P1 & C1 & L1).
    destruct (fgetc_some p1 _ _ P1) as (p2 & R2 & P2 & C2 & L2).
    assert (E1 : (224 + c / 4096 <? 192) || (247 <? 224 + c / 4096) = false) by lia. rewrite E1.
    assert (E2 : (224 + c / 4096 <? 224) = false) by lia. rewrite E2.
    assert (E3 : (224 + c / 4096 <? 240) = true) by lia. rewrite E3. cbn [fread_cont]. rewrite R1.
    assert (N1 : (128 + (c / 64) mod 64 =? -1) = false) by lia. rewrite N1. rewrite R2.
    assert (N2 : (128 + c mod 64 =? -1) = false) by lia. rewrite N2.
    eexists. split; [|split; [exact P2|split; [congruence|cbn [length] in *; lia]]].
    f_equal. f_equal. bits. lia.
  - pose proof He as He'. rewrite (encode_4 c K) in He'.
    assert (Ei : i = 240 + c / 262144) by congruence. assert (Et : t = [128 + (c / 4096) mod 64; 128 + (c / 64) mod 64; 128 + c mod 64]) by congruence. subst i t. clear He'.
    destruct (fgetc_some p _ _ Hp) as (p1 & R1 & P1 & C1 & L1).
    destruct (fgetc_some p1 _ _ P1) as (p2 & R2 & P2 & C2 & L2).
    destruct (fgetc_some p2 _ _ P2) as (p3 & R3 & P3 & C3 & L3).
    unfold cp in Hc.
    assert (E1 : (240 + c / 262144 <? 192) || (247 <? 240 + c / 262144) = false) by lia. rewrite E1.
    assert (E2 : (240 + c / 262144 <? 224) = false) by lia. rewrite E2.
    assert (E3 : (240 + c / 262144 <? 240) = false) by lia. rewrite E3. cbn [fread_cont]. rewrite R1.
    assert (N1 : (128 + (c / 4096) mod 64 =? -1) = false) by lia. rewrite N1. rewrite R2.
    assert (N2 : (128 + (c / 64) mod 64 =? -1) = false) by lia. rewrite N2. rewrite R3.
    assert (N3 : (128 + c mod 64 =? -1) = false) by lia. rewrite N3.
    eexists. split; [|split; [exact P3|split; [congruence|cbn [length] in *; lia]]].
    f_equal. f_equal. bits. lia.
Qed.

(** the lead byte of a multi-byte character *)
Lemma lead_byte_range c i t : cp c -> 128 <= c -> encode c = i :: t -> 192 <= i < 248.
Proof.
  intros Hc H128 He. unfold cp in Hc.
  destruct (cp_classes c Hc) as [K|[K|[K|K]]]; [lia| | |];
    [rewrite (encode_2 c K) in He|rewrite (encode_3 c K) in He|rewrite (encode_4 c K) in He];
    [assert (Ei : i = 192 + c / 64) by congruence|assert (Ei : i = 224 + c / 4096) by congruence
    |assert (Ei : i = 240 + c / 262144) by congruence]; lia.
Qed.

(** read-char: the character, its bytes consumed, exactly [width c] fewer pushed-back bytes (or none) *)
Theorem fread_char_exact p c rest : cp c -> fpending p = encode c ++ rest ->
  exists p', fread_char p = (RChar c, p') /\ fpending p' = rest /\ fcap p' = fcap p /\
             length (fpush p') = (length (fpush p) - width c)%nat.
Proof.
  intros Hc Hp. unfold fread_char.
  pose proof (encode_length c Hc) as L.
  destruct (encode c) as [|i t] eqn:He.
  { pose proof (encode_nonempty c Hc) as N. rewrite He in N. cbn [length] in N. lia. }
  cbn [app] in Hp. cbn [length] in L.
  destruct (fgetc_some p i _ Hp) as (p1 & R1 & P1 & C1 & L1). rewrite R1.
  destruct (cp_classes c Hc) as [K|K].
  - rewrite (encode_1 c K) in He. assert (Ei : i = c) by congruence. assert (Et : t = []) by congruence. subst i t.
    assert (E1 : (c =? -1) = false) by lia. assert (E2 : (128 <=? c) = false) by lia. rewrite E1, E2.
    eexists. split; [reflexivity|]. cbn [length] in L. repeat split; [exact P1|exact C1|lia].
  - assert (H128 : 128 <= c) by lia.
    pose proof (lead_byte_range c i t Hc H128 He) as Hi.
    assert (E1 : (i =? -1) = false) by lia. assert (E2 : (128 <=? i) = true) by lia. rewrite E1, E2.
    destruct (fread_utf8_char_spec p1 c i t rest Hc H128 He P1) as (p2 & R2 & P2 & C2 & L2).
    rewrite R2. eexists. split; [reflexivity|]. repeat split; [exact P2|congruence|lia].
Qed.

Theorem fread_char_spec p c rest : cp c -> fpending p = encode c ++ rest ->
  exists p', fread_char p = (RChar c, p') /\ fpending p' = rest /\ fcap p' = fcap p /\
             (length (fpush p') <= length (fpush p))%nat.
Proof.
  intros Hc Hp. destruct (fread_char_exact p c rest Hc Hp) as (p' & R & P & C & L).
  exists p'. repeat split; [exact R|exact P|exact C|lia].
Qed.

(** peek-char leaves the stream unchanged PROVIDED the C library accepts as many pushed-back bytes as the
    character is wide (on top of those that stay pushed back) *)
Theorem fpeek_char_spec p c rest : cp c -> fpending p = encode c ++ rest ->
  (Nat.max (length (fpush p)) (width c) <= fcap p)%nat ->
  exists p', fpeek_char p = (RChar c, p') /\ fpending p' = fpending p /\ fcap p' = fcap p /\
             length (fpush p') = Nat.max (length (fpush p)) (width c).
Proof.
  intros Hc Hp Hcap. unfold fpeek_char. rewrite Hp.
  pose proof (encode_length c Hc) as L.
  destruct (encode c) as [|i t] eqn:He.
  { pose proof (encode_nonempty c Hc) as N. rewrite He in N. cbn [length] in N. lia. }
  cbn [app] in Hp. cbn [length] in L.
  destruct (fgetc_some p i _ Hp) as (p1 & R1 & P1 & C1 & L1). rewrite R1.
  destruct (cp_classes c Hc) as [K|K].
  - rewrite (encode_1 c K) in He. assert (Ei : i = c) by congruence. assert (Et : t = []) by congruence. subst i t.
    assert (E1 : (c =? -1) = false) by lia. assert (E2 : (128 <=? c) = false) by lia. rewrite E1, E2.
    cbn [length] in L.
    destruct (fungetc_room p1 c ltac:(lia)) as (P2 & C2 & L2).
    eexists. split; [reflexivity|]. rewrite P2, C2, L2, P1. repeat split; [exact C1|lia].
  - assert (H128 : 128 <= c) by lia.
    pose proof (lead_byte_range c i t Hc H128 He) as Hi.
    assert (E1 : (i =? -1) = false) by lia. assert (E2 : (128 <=? i) = true) by lia. rewrite E1, E2.
    destruct (fread_utf8_char_spec p1 c i t rest Hc H128 He P1) as (p2 & R2 & P2 & C2 & L2).
    rewrite R2. unfold fpush_utf8_char. rewrite (encode_char_width c Hc), He.
    destruct (fungetc_all p2 (i :: t) ltac:(cbn [length]; lia)) as (P3 & C3 & L3).
    eexists. split; [reflexivity|]. rewrite P3, C3, L3, P2. cbn [length]. repeat split; [congruence|lia].
Qed.

(** hence: with a capacity of at least 4 (glibc: unbounded, musl: 8) and the invariant
    length (fpush p) <= 4 — true after open and preserved by read-char / peek-char — every peek is
    transparent *)
Definition fport_ok (p : fport) : Prop := (4 <= fcap p)%nat /\ (length (fpush p) <= 4)%nat.

Lemma open_file_port_ok cap src : (4 <= cap)%nat ->
  fport_ok (open_file_port cap src) /\ fpending (open_file_port cap src) = src.
Proof. intros H. unfold fport_ok, open_file_port, fpending. cbn [fpush fsrc fcap length app]. repeat split; lia. Qed.

Corollary fpeek_transparent p c rest : fport_ok p -> cp c -> fpending p = encode c ++ rest ->
  exists p', fpeek_char p = (RChar c, p') /\ fpending p' = fpending p /\ fport_ok p'.
Proof.
  intros [Hcap Hlen] Hc Hp. pose proof (width_range c Hc) as W.
  destruct (fpeek_char_spec p c rest Hc Hp ltac:(lia)) as (p' & R & P & C & L).
  exists p'. split; [exact R|]. split; [exact P|]. unfold fport_ok. lia.
Qed.

Corollary fread_char_ok p c rest : fport_ok p -> cp c -> fpending p = encode c ++ rest ->
  exists p', fread_char p = (RChar c, p') /\ fpending p' = rest /\ fport_ok p'.
Proof.
  intros [Hcap Hlen] Hc Hp.
  destruct (fread_char_spec p c rest Hc Hp) as (p' & R & P & C & L).
  exists p'. split; [exact R|]. split; [exact P|]. unfold fport_ok. lia.
Qed.

(** end of input: EOF, the port untouched (EOF is never pushed back) *)
Theorem fread_peek_eof p : fpending p = [] -> fread_char p = (REof, p) /\ fpeek_char p = (REof, p).
Proof.
  intros Hp. unfold fread_char, fpeek_char. rewrite (fgetc_eof p Hp).
  assert (E : (-1 =? -1) = true) by reflexivity. rewrite E. auto.
Qed.

(* ---------------------------------------------------------------- read-string *)
Lemma fread_string_loop_spec n : forall p cs acc, fport_ok p -> Forall cp cs -> fpending p = enc_all cs ->
  exists p', fread_string_loop n p acc = (Ok (rev acc ++ firstn n cs), p') /\ fport_ok p' /\
             fpending p' = enc_all (skipn n cs).
Proof.
  induction n as [|n IH]; intros p cs acc Hok Hcs Hp.
  - cbn [fread_string_loop firstn skipn]. rewrite app_nil_r. exists p. auto.
  - cbn [fread_string_loop]. destruct cs as [|c r].
    + cbn [enc_all flat_map] in Hp.
      destruct (fread_peek_eof p Hp) as (_ & R1). rewrite R1.
      cbn [firstn skipn]. rewrite app_nil_r. exists p. auto.
    + inversion Hcs as [|? ? Hc Hr]; subst. rewrite enc_all_cons in Hp.
      destruct (fpeek_transparent p c _ Hok Hc Hp) as (p1 & R1 & P1 & O1). rewrite R1.
      rewrite Hp in P1.
      destruct (fread_char_ok p1 c _ O1 Hc P1) as (p2 & R2 & P2 & O2). rewrite R2.
      destruct (IH p2 r (c :: acc) O2 Hr P2) as (p3 & R3 & O3 & P3). rewrite R3.
      exists p3. split; [|auto]. cbn [rev firstn]. rewrite <- app_assoc. reflexivity.
Qed.

(** read-string n = the first n characters (all of them when fewer are left), the others stay pending *)
Theorem fread_string_spec n p cs : fport_ok p -> Forall cp cs -> fpending p = enc_all cs ->
  exists p', fread_string n p = (Ok (firstn n cs), p') /\ fport_ok p' /\ fpending p' = enc_all (skipn n cs).
Proof. intros. unfold fread_string. apply (fread_string_loop_spec n p cs []); assumption. Qed.

(** a file holding the standard encoding of [cs], opened with any C library that accepts 4 bytes of
    pushback: the characters come back, then end of file *)
Theorem file_port_roundtrip cs cap : (4 <= cap)%nat -> Forall cp cs ->
  exists p', fread_string (length cs) (open_file_port cap (enc_all cs)) = (Ok cs, p') /\ fpending p' = [].
Proof.
  intros Hcap Hcs. destruct (open_file_port_ok cap (enc_all cs) Hcap) as [O P].
  destruct (fread_string_spec (length cs) _ cs O Hcs P) as (p' & R & O' & P').
  rewrite firstn_all in R. rewrite skipn_all in P'. exists p'. auto.
Qed.

(* ---------------------------------------------------------------- error outcomes *)
(** [n] continuation bytes are wanted but only [t] (fewer) are left before end of input *)
Lemma fread_cont_truncated n : forall p i t, fpending p = t -> (length t < n)%nat ->
  Forall (fun b => 0 <= b < 256) t ->
  exists p', fread_cont n p i = (None, p') /\ fpending p' = [] /\ fcap p' = fcap p.
Proof.
  induction n as [|n IH]; intros p i t P L F; [lia|].
  cbn [fread_cont]. destruct t as [|b t].
  - rewrite (fgetc_eof p P).
    assert (E : (-1 =? -1) = true) by reflexivity. rewrite E. exists p. auto.
  - inversion F as [|? ? Hb Ft]; subst.
    destruct (fgetc_some p b t P) as (p1 & R1 & P1 & C1 & _). rewrite R1.
    assert (E : (b =? -1) = false) by lia. rewrite E.
    destruct (IH p1 (Z.shiftl i 6 + Z.land b 63) t P1 ltac:(cbn [length] in L; lia) Ft) as (p2 & R2 & P2 & C2).
    exists p2. repeat split; [exact R2|exact P2|congruence].
Qed.

Lemma fread_utf8_truncated p c i t k : cp c -> 128 <= c -> encode c = i :: t ->
  (k < length t)%nat -> fpending p = firstn k t ->
  exists p', fread_utf8_char p i = (None, p') /\ fpending p' = [] /\ fcap p' = fcap p.
Proof.
  intros Hc H128 He Hk P.
  pose proof (encode_bytes c Hc) as FB. rewrite He in FB. inversion FB as [|? ? Hi Ft]; subst.
  assert (Fk : Forall (fun b => 0 <= b < 256) (firstn k t)) by (apply Forall_firstn'; exact Ft).
  assert (Lk : length (firstn k t) = k) by (rewrite firstn_length; lia).
  unfold fread_utf8_char.
  destruct (cp_classes c Hc) as [K|[K|[K|K]]]; [lia| | |].
  - rewrite (encode_2 c K) in He. assert (Ei : i = 192 + c / 64) by congruence.
    assert (Et : t = [128 + c mod 64]) by congruence. subst i t.
    assert (E1 : (192 + c / 64 <? 192) || (247 <? 192 + c / 64) = false) by lia. rewrite E1.
    assert (E2 : (192 + c / 64 <? 224) = true) by lia. rewrite E2.
    apply (fread_cont_truncated 1 p _ _ P); [cbn [length] in *; lia|exact Fk].
  - rewrite (encode_3 c K) in He. assert (Ei : i = 224 + c / 4096) by congruence.
    assert (Et : t = [128 + (c / 64) mod 64; 128 + c mod 64]) by congruence. subst i t.
    assert (E1 : (224 + c / 4096 <? 192) || (247 <? 224 + c / 4096) = false) by lia. rewrite E1.
    assert (E2 : (224 + c / 4096 <? 224) = false) by lia. rewrite E2.
    assert (E3 : (224 + c / 4096 <? 240) = true) by lia. rewrite E3.
    apply (fread_cont_truncated 2 p _ _ P); [cbn [length] in *; lia|exact Fk].
  - rewrite (encode_4 c K) in He. assert (Ei : i = 240 + c / 262144) by congruence.
    assert (Et : t = [128 + (c / 4096) mod 64; 128 + (c / 64) mod 64; 128 + c mod 64]) by congruence. subst i t.
    unfold cp in Hc.
    assert (E1 : (240 + c / 262144 <? 192) || (247 <? 240 + c / 262144) = false) by lia. rewrite E1.
    assert (E2 : (240 + c / 262144 <? 224) = false) by lia. rewrite E2.
    assert (E3 : (240 + c / 262144 <? 240) = false) by lia. rewrite E3.
    apply (fread_cont_truncated 3 p _ _ P); [cbn [length] in *; lia|exact Fk].
Qed.

(** A STREAM THAT ENDS INSIDE A CHARACTER: the first k bytes (0 < k < width c) of the encoding of [c] and
    then end of input.  read-char and peek-char raise; the cut bytes are consumed; nothing is pushed back
    (whatever the pushback capacity). *)
Theorem ftruncated_sequence_is_error p c k : cp c -> (0 < k < width c)%nat ->
  fpending p = firstn k (encode c) ->
  (exists p', fread_char p = (RBad, p') /\ fpending p' = []) /\
  (exists p', fpeek_char p = (RBad, p') /\ fpending p' = []).
Proof.
  intros Hc Hk P.
  destruct (encode c) as [|i t] eqn:He.
  { pose proof (encode_nonempty c Hc) as N. rewrite He in N. cbn [length] in N. lia. }
  pose proof (encode_length c Hc) as L. rewrite He in L. cbn [length] in L.
  destruct k as [|k]; [lia|]. rewrite firstn_cons in P.
  destruct (fgetc_some p i _ P) as (p1 & R1 & P1 & _).
  assert (H128 : 128 <= c).
  { destruct (cp_classes c Hc) as [K|K]; [|lia]. rewrite (encode_1 c K) in He.
    assert (t = []) by congruence. subst t. cbn [length] in L. lia. }
  pose proof (lead_byte_range c i t Hc H128 He) as Hi.
  destruct (fread_utf8_truncated p1 c i t k Hc H128 He ltac:(lia) P1) as (p2 & R2 & P2 & _).
  assert (E1 : (i =? -1) = false) by lia. assert (E2 : (128 <=? i) = true) by lia.
  split; [unfold fread_char|unfold fpeek_char]; rewrite R1, E1, E2, R2; exists p2; auto.
Qed.

(** A BYTE THAT CANNOT START A CHARACTER: 0x80..0xBF (a stray continuation byte) or 0xF8..0xFF.
    read-char and peek-char raise; exactly that byte is consumed; whatever follows stays pending. *)
Theorem finvalid_lead_byte_is_error p b rest : fpending p = b :: rest ->
  128 <= b < 192 \/ 248 <= b < 256 ->
  (exists p', fread_char p = (RBad, p') /\ fpending p' = rest) /\
  (exists p', fpeek_char p = (RBad, p') /\ fpending p' = rest).
Proof.
  intros P Hb.
  destruct (fgetc_some p b rest P) as (p1 & R1 & P1 & _).
  assert (E1 : (b =? -1) = false) by lia. assert (E2 : (128 <=? b) = true) by lia.
  assert (E3 : (b <? 192) || (247 <? b) = true) by lia.
  split; [unfold fread_char|unfold fpeek_char]; rewrite R1, E1, E2; unfold fread_utf8_char; rewrite E3; exists p1; auto.
Qed.

(** read-string hands the exception on *)
Corollary fread_string_on_invalid_lead n p b rest : fpending p = b :: rest ->
  128 <= b < 192 \/ 248 <= b < 256 -> exists p', fread_string (S n) p = (Err Utf8Err, p') /\ fpending p' = rest.
Proof.
  intros P Hb. destruct (finvalid_lead_byte_is_error p b rest P Hb) as [_ (p1 & R1 & P1)].
  unfold fread_string. cbn [fread_string_loop]. rewrite R1. exists p1. auto.
Qed.

Corollary fread_string_on_truncated n p c k : cp c -> (0 < k < width c)%nat ->
  fpending p = firstn k (encode c) -> exists p', fread_string (S n) p = (Err Utf8Err, p') /\ fpending p' = [].
Proof.
  intros Hc Hk P. destruct (ftruncated_sequence_is_error p c k Hc Hk P) as [_ (p1 & R1 & P1)].
  unfold fread_string. cbn [fread_string_loop]. rewrite R1. exists p1. auto.
Qed.

(* ---------------------------------------------------------------- one byte of pushback is not enough *)
(** an ungetc on a full pushback area does nothing, however often it is repeated *)
Lemma fungetc_full bs : forall p, (fcap p <= length (fpush p))%nat -> fold_left fungetc bs p = p.
Proof.
  induction bs as [|b bs IH]; intros p H; [reflexivity|].
  cbn [fold_left]. unfold fungetc at 2.
  assert (E : (length (fpush p) <? fcap p)%nat = false) by (apply Nat.ltb_ge; exact H).
  rewrite E. apply IH. exact H.
Qed.

(** ISO C's guaranteed minimum of ONE byte of pushback (7.21.7.10) is NOT enough.  In general: on a stream
    with nothing pushed back and a capacity of one, peek-char of any non-ASCII character returns the
    character but leaves only its LAST byte pushed back — the lead byte (and the other continuation bytes)
    are lost, the pending bytes have changed, and the next read-char starts on a stray continuation byte. *)
Theorem fpeek_one_byte_pushback_loses p c rest : cp c -> 128 <= c ->
  fpush p = [] -> fcap p = 1%nat -> fsrc p = encode c ++ rest ->
  exists p', fpeek_char p = (RChar c, p') /\ fpending p' = ((128 + c mod 64) :: rest) /\
             fpending p' <> fpending p /\
             exists p'', fread_char p' = (RBad, p'') /\ fpending p'' = rest.
Proof.
  intros Hc H128 Hpu Hcap Hsrc.
  assert (Hp : fpending p = encode c ++ rest) by (unfold fpending; rewrite Hpu, Hsrc; reflexivity).
  assert (Hlast : exists p', fpeek_char p = (RChar c, p') /\ fpending p' = ((128 + c mod 64) :: rest)).
  { unfold fpeek_char.
    destruct (encode c) as [|i t] eqn:He.
    { pose proof (encode_nonempty c Hc) as N. rewrite He in N. cbn [length] in N. lia. }
    cbn [app] in Hp.
    destruct (fgetc_some p i _ Hp) as (p1 & R1 & P1 & C1 & L1). rewrite R1.
    pose proof (lead_byte_range c i t Hc H128 He) as Hi.
    assert (E1 : (i =? -1) = false) by lia. assert (E2 : (128 <=? i) = true) by lia. rewrite E1, E2.
    destruct (fread_utf8_char_spec p1 c i t rest Hc H128 He P1) as (p2 & R2 & P2 & C2 & L2).
    rewrite R2. unfold fpush_utf8_char. rewrite (encode_char_width c Hc), He.
    assert (Hrev : exists more, rev (i :: t) = (128 + c mod 64) :: more).
    { rewrite <- He. destruct (cp_classes c Hc) as [K|[K|[K|K]]]; [lia| | |];
        [rewrite (encode_2 c K)|rewrite (encode_3 c K)|rewrite (encode_4 c K)]; cbn [rev app]; eexists; reflexivity. }
    destruct Hrev as (more & Hrev). rewrite Hrev. cbn [fold_left].
    assert (L2' : length (fpush p2) = 0%nat) by (rewrite Hpu in L1; cbn [length] in L1; lia).
    destruct (fungetc_room p2 (128 + c mod 64) ltac:(lia)) as (P3 & C3 & L3).
    rewrite fungetc_full by lia.
    eexists. split; [reflexivity|]. rewrite P3, P2. reflexivity. }
  destruct Hlast as (p' & R & P). exists p'. split; [exact R|]. split; [exact P|]. split.
  - rewrite P, Hp. intros Heq.
    destruct (encode c) as [|i t] eqn:He; [cbn [app] in Heq|].
    { pose proof (encode_nonempty c Hc) as N. rewrite He in N. cbn [length] in N. lia. }
    pose proof (lead_byte_range c i t Hc H128 He) as Hi. cbn [app] in Heq. assert (Hh : 128 + c mod 64 = i) by congruence. lia.
  - destruct (finvalid_lead_byte_is_error p' _ rest P ltac:(lia)) as [H _]. exact H.
Qed.

(** the same on "λa" (CE BB 61): the peek answers λ, then read-char finds the stray BB *)
Example peek_with_one_byte_of_pushback_refuted :
  let p := open_file_port 1 [206; 187; 97] in
  let '(a, p1) := fpeek_char p in
  let '(b, p2) := fread_char p1 in
  a = RChar 955 /\ fpending p1 = [187; 97] /\ fpending p1 <> fpending p /\ b = RBad /\ fpending p2 = [97].
Proof. vm_compute. repeat split. discriminate. Qed.

(** U+1F600 with four bytes of pushback: peek, then read, the same character; the peek changed nothing *)
Example ex_file_peek_4byte :
  let p := open_file_port 4 [240; 159; 152; 128; 97] in
  let '(a, p1) := fpeek_char p in
  let '(b, p2) := fread_char p1 in
  (a, b) = (RChar 128512, RChar 128512) /\ fpending p1 = fpending p /\ fpending p2 = [97].
Proof. vm_compute. auto. Qed.

(** ... and with three it is lost like above *)
Example ex_file_peek_4byte_cap3 :
  let p := open_file_port 3 [240; 159; 152; 128; 97] in
  let '(a, p1) := fpeek_char p in
  let '(b, p2) := fread_char p1 in
  (a, b) = (RChar 128512, RBad) /\ fpending p1 = [159; 152; 128; 97].
Proof. vm_compute. auto. Qed.

Print Assumptions fpeek_char_spec.
Print Assumptions fread_string_spec.
Print Assumptions file_port_roundtrip.
Print Assumptions ftruncated_sequence_is_error.
Print Assumptions finvalid_lead_byte_is_error.
Print Assumptions fpeek_one_byte_pushback_loses.
