(** C12 round 2 — character I/O on buffered ports (executable model, no proofs in this file).

    Mirrors the buffered (non-FILE* ) port arm of chibi: a port is (buf, offset, size) over a byte
    buffer; string ports never refill; file-descriptor ports (and, up to their end-of-file
    bookkeeping, custom ports) refill the buffer from the underlying byte source at BUF_START = 4,
    keeping the first 4 bytes free so that peek-char can always "unread" one UTF-8 character.

      sexp_read_char macro                     include/chibi/sexp.h:1661
      sexp_buffered_read_char                  sexp.c:1674-1722   (string / fd arms)
      sexp_push_char macro                     include/chibi/sexp.h:1662
      sexp_read_utf8_char                      eval.c:2036-2058
      sexp_push_utf8_char                      eval.c:2060-2071   (buffered arm)
      SEXP_OP_READ_CHAR / SEXP_OP_PEEK_CHAR    vm.c:2305-2376
      sexp_write_char macro                    include/chibi/sexp.h:1663
      sexp_buffered_write_char / _string_n     sexp.c:1724-1749
      sexp_buffered_flush (string-port arm)    sexp.c:1755-1802
      sexp_write_utf8_char                     sexp.c:2585-2594, SEXP_OP_WRITE_CHAR vm.c:2175-2190
      %read-string / %read-line                lib/chibi/io/io.scm:63-88, 114-123

    The size of the buffer is [length (pbuf p)] (SEXP_PORT_BUFFER_SIZE = 4096 in the C; the
    theorems hold for every size > BUF_START).  How many bytes one read(2) delivers is the
    environment's choice: [psched] lists the successive answers (each at least 1 while the source
    is not exhausted, at most the free room); an empty schedule means full reads.
    Boxing of the result (sexp_make_character / sexp_unbox_character between read and push) is the
    identity on 0..0x1FFFFF (Utf8Proofs.unbox_make) and is not repeated here. *)
From ChibiV Require Export C12.Model.
Local Open Scope Z_scope.

Definition BUF_START : nat := 4.

Inductive pkind : Type := PString | PFd.

Record iport : Type := mkport {
  pkd : pkind; pbuf : list Z; poff : nat; psize : nat;
  psrc : list Z;            (* bytes of the underlying source not yet read into the buffer *)
  psched : list nat }.      (* sizes of the coming read(2) answers *)

Definition set_off (p : iport) (o : nat) : iport := mkport (pkd p) (pbuf p) o (psize p) (psrc p) (psched p).

(** res = read(fd, buf + BUF_START, SIZE - BUF_START); offset = BUF_START; size = res + BUF_START
    (sexp.c:1690-1693) *)
Definition refill (p : iport) : iport :=
  let cap := (length (pbuf p) - BUF_START)%nat in
  let want := match psched p with [] => cap | n :: _ => Nat.min (Nat.max 1 n) cap end in
  let data := firstn want (psrc p) in
  mkport (pkd p) (overwrite (pbuf p) BUF_START data) BUF_START (BUF_START + length data)
         (skipn want (psrc p)) (tl (psched p)).

(** sexp_read_char: the next byte, or -1 (EOF) *)
Definition read_byte (p : iport) : Z * iport :=
  if (poff p <? psize p)%nat then (byte_at (pbuf p) (poff p), set_off p (S (poff p)))
  else match pkd p with
       | PString => (-1, p)
       | PFd => let p' := refill p in
                if (poff p' <? psize p')%nat then (byte_at (pbuf p') (poff p'), set_off p' (S (poff p')))
                else (-1, p')
       end.

(** sexp_read_utf8_char (eval.c:2036-2058, after "fix: ... a UTF-8 sequence cut off by end of input is an
    error"), [i] = the lead byte already read, >= 0x80:
      if (i < 0xC0 || i > 0xF7) -> exception "invalid utf8 byte"           (nothing more is consumed)
      else i &= 0x3F / 0x1F / 0x0F; n = 1 / 2 / 3;
           for ( ; n > 0; n--) { c = sexp_read_char(port);
                                 if (c == EOF) -> exception "truncated utf8 sequence";   (the bytes read so far stay consumed)
                                 i = (i<<6) + (c&0x3F); }
    [None] = the exception.  The continuation bytes themselves are NOT validated (lenient decoder). *)
Fixpoint read_cont (n : nat) (p : iport) (i : Z) : option Z * iport :=
  match n with
  | O => (Some i, p)
  | S n' => let '(c, p1) := read_byte p in
            if c =? -1 then (None, p1)
            else read_cont n' p1 (Z.shiftl i 6 + Z.land c 63)
  end.

Definition read_utf8_char (p : iport) (i : Z) : option Z * iport :=
  if (i <? 192) || (247 <? i) then (None, p)
  else if i <? 224 then read_cont 1 p (Z.land i 63)
  else if i <? 240 then read_cont 2 p (Z.land i 31)
  else read_cont 3 p (Z.land i 15).

(** buf[--offset] = byte, for the bytes of [bs] from the last to the first; leaving the buffer at its
    front is an explicit error (the C would write before the buffer) *)
Definition push_bytes (p : iport) (bs : list Z) : res iport :=
  if (poff p <? length bs)%nat then Err RangeErr
  else Ok (mkport (pkd p) (overwrite (pbuf p) (poff p - length bs) bs) (poff p - length bs)%nat (psize p)
                  (psrc p) (psched p)).

(** sexp_push_utf8_char (eval.c:2038-2049): RE-ENCODES the character and writes it back *)
Definition push_utf8_char (p : iport) (c : Z) : res iport :=
  let len := width c in push_bytes p (sexp_utf8_encode_char (Z.of_nat len) c).

Inductive rd : Type := RChar (c : Z) | REof | RBad.

(** SEXP_OP_READ_CHAR (vm.c:2305-2340) *)
Definition read_char (p : iport) : rd * iport :=
  let '(i, p1) := read_byte p in
  if i =? -1 then (REof, p1)
  else if 128 <=? i then
    match read_utf8_char p1 i with (Some c, p2) => (RChar c, p2) | (None, p2) => (RBad, p2) end
  else (RChar i, p1).

(** SEXP_OP_PEEK_CHAR (vm.c:2341-2376): an exception from sexp_read_utf8_char is NOT pushed back
    (if (!sexp_exceptionp(tmp1)) sexp_push_utf8_char(...)): the bytes it consumed stay consumed *)
Definition peek_char (p : iport) : rd * iport :=
  let '(i, p1) := read_byte p in
  if i =? -1 then (REof, p1)
  else if 128 <=? i then
    match read_utf8_char p1 i with
    | (Some c, p2) => match push_utf8_char p2 c with Ok p3 => (RChar c, p3) | Err _ => (RBad, p2) end
    | (None, p2) => (RBad, p2)
    end
  else match push_bytes p1 [i] with Ok p2 => (RChar i, p2) | Err _ => (RBad, p1) end.

(** what is still to be read: the unread part of the buffer, then the source *)
Definition pending (p : iport) : list Z :=
  firstn (psize p - poff p) (skipn (poff p) (pbuf p)) ++ psrc p.

(** constructors: open-input-string (sexp.c:1804-1815); open-input-file-descriptor (sexp.c:1865-1883:
    a buffer of SIZE bytes, offset = size = SIZE, nothing read yet) *)
Definition open_string_port (bytes : list Z) : iport := mkport PString bytes 0 (length bytes) [] [].
Definition open_fd_port (bufsize : nat) (src : list Z) (sched : list nat) : iport :=
  mkport PFd (repeat 0 bufsize) bufsize bufsize src sched.

(** %read-string (io.scm:114-123): until i = n or (peek-char in) is eof: (write-char (read-char in) out).
    An exception raised by peek-char / read-char (invalid lead byte, truncated sequence) leaves the loop:
    [Err Utf8Err]; the characters read so far are lost with the local output port, the bytes stay consumed. *)
Fixpoint read_string_loop (n : nat) (p : iport) (acc : list Z) : res (list Z) * iport :=
  match n with
  | O => (Ok (rev acc), p)
  | S n' =>
      match peek_char p with
      | (RChar _, p1) =>
          match read_char p1 with
          | (RChar c, p2) => read_string_loop n' p2 (c :: acc)
          | (REof, p2) => (Ok (rev acc), p2)
          | (RBad, p2) => (Err Utf8Err, p2)
          end
      | (REof, p1) => (Ok (rev acc), p1)
      | (RBad, p1) => (Err Utf8Err, p1)
      end
  end.
Definition read_string (n : nat) (p : iport) : res (list Z) * iport := read_string_loop n p [].

(** %read-line (io.scm:63-88, non-stream arm), at most [n] characters, fuel = n + 1 iterations;
    [Ok None] = nothing at all was read (#f -> eof-object), [Ok (Some l)] = a line (possibly empty),
    [Err Utf8Err] = peek-char / read-char raised *)
Fixpoint read_line_loop (fuel : nat) (i n : nat) (p : iport) (acc : list Z) : res (option (list Z)) * iport :=
  match fuel with
  | O => (Ok (Some (rev acc)), p)
  | S f =>
      match peek_char p with
      | (REof, p1) => (Ok (match acc with [] => None | _ => Some (rev acc) end), p1)
      | (RChar 10, p1) => let '(_, p2) := read_char p1 in (Ok (Some (rev acc)), p2)
      | (RChar 13, p1) =>
          let '(_, p2) := read_char p1 in
          match peek_char p2 with
          | (RChar 10, p3) => let '(_, p4) := read_char p3 in (Ok (Some (rev acc)), p4)
          | (RBad, p3) => (Err Utf8Err, p3)
          | (_, p3) => (Ok (Some (rev acc)), p3)
          end
      | (RChar _, p1) =>
          if (n <=? i)%nat then (Ok (Some (rev acc)), p1)
          else match read_char p1 with
               | (RChar c, p2) => read_line_loop f (S i) n p2 (c :: acc)
               | (REof, p2) => (Ok (Some (rev acc)), p2)
               | (RBad, p2) => (Err Utf8Err, p2)
               end
      | (RBad, p1) => (Err Utf8Err, p1)
      end
  end.
Definition read_line (n : nat) (p : iport) : res (option (list Z)) * iport := read_line_loop (S n) 0 n p [].

(* ------------------------------------------------------------------------------------- *)
(** * Output: string ports *)

Record oport : Type := mkoport {
  obuf : list Z; ooff : nat; osize : nat;
  ochunks : list (list Z) }.     (* the flushed chunks, oldest first (the cookie list, reversed) *)

(** sexp_buffered_flush, string-port arm (sexp.c:1781-1797): if offset > 0, push
    sexp_c_string(buf, offset) on the cookie and reset the offset *)
Definition oflush (o : oport) : oport :=
  if (0 <? ooff o)%nat then mkoport (obuf o) 0 (osize o) (ochunks o ++ [firstn (ooff o) (obuf o)]) else o.

(** sexp_write_char macro + sexp_buffered_write_char *)
Definition write_byte (o : oport) (c : Z) : oport :=
  if (ooff o <? osize o)%nat then mkoport (overwrite (obuf o) (ooff o) [c]) (S (ooff o)) (osize o) (ochunks o)
  else let o := if (osize o <=? ooff o + 1)%nat then oflush o else o in
       mkoport (overwrite (obuf o) (ooff o) [c]) (S (ooff o)) (osize o) (ochunks o).

(** sexp_buffered_write_string_n (sexp.c:1733-1749); fuel: one iteration per flush *)
Fixpoint write_bytes_loop (fuel : nat) (o : oport) (str : list Z) : res oport :=
  if (osize o <=? ooff o + length str)%nat then
    match fuel with
    | O => Err FuelErr
    | S f =>
        let diff := (osize o - ooff o)%nat in
        let o1 := mkoport (overwrite (obuf o) (ooff o) (firstn diff str)) (osize o) (osize o) (ochunks o) in
        write_bytes_loop f (oflush o1) (skipn diff str)
    end
  else Ok (mkoport (overwrite (obuf o) (ooff o) str) (ooff o + length str)%nat (osize o) (ochunks o)).
Definition write_bytes (o : oport) (str : list Z) : res oport := write_bytes_loop (S (length str)) o str.

(** SEXP_OP_WRITE_CHAR: c >= 0x80 -> sexp_write_utf8_char (first byte by sexp_write_char, the rest by
    sexp_write_string), else sexp_write_char *)
Definition write_char (o : oport) (c : Z) : res oport :=
  if 128 <=? c then
    let enc := sexp_utf8_encode_char (Z.of_nat (width c)) c in
    write_bytes (write_byte o (hd 0 enc)) (tl enc)
  else Ok (write_byte o c).

(** the bytes get-output-string concatenates (sexp.c:1838-1863): the flushed chunks, then buf[0..offset) *)
Definition out_bytes (o : oport) : list Z := concat (ochunks o) ++ firstn (ooff o) (obuf o).

(** open-output-string (sexp.c:1817-1836) *)
Definition open_output_string (bufsize : nat) : oport := mkoport (repeat 0 bufsize) 0 bufsize [].

Fixpoint write_chars (o : oport) (cs : list Z) : res oport :=
  match cs with
  | [] => Ok o
  | c :: r => match write_char o c with Ok o' => write_chars o' r | Err e => Err e end
  end.
