(** C12 round 3 — procedures with optional range arguments, string output, and the Scheme-level
    loops over string-set! (executable model, no proofs in this file).

      SEXP_OP_WRITE_STRING ("%write-string")   vm.c:2241-2293  (with fixes/C12-write-string-shared-offset.patch)
      display (string arm)                     lib/init-7.scm:716-720
      write-string [port [start [end]]]        lib/chibi/io/io.scm:41-56
      string-fill! [start [end]]               lib/init-7.scm:620-624
      string-copy! to at from [start [end]]    lib/scheme/extras.scm:271-281
      string->utf8 [start [end]]               lib/chibi/io/io.scm:17-23
      string-map (one string)                  lib/chibi/string.sld:40-46 over string-fold / write-char
      string-cmp                               eval.c:1997-2014 (with fixes/C12-string-cmp-nul.patch: memcmp)

    THE BYTE-COUNT CONTRACT of the opcode: its second argument counts BYTES of the string's
    data (or is #t = all of them); it is not a character index.  A Scheme wrapper holding a
    character index has to convert it (string-index->cursor / substring) before calling it. *)
From ChibiV Require Export C12.PortModel.
Local Open Scope Z_scope.

(** SEXP_OP_WRITE_STRING: [count = None] is #t.  k = sexp_string_size(str), data = bytes + offset;
    count < 0 or count > k raises; otherwise sexp_write_string_n(data, count, port). *)
Definition op_write_string (h : heap) (s : str) (count : option Z) (o : oport) : res oport :=
  let k := Z.of_nat (ssize s) in
  let n := match count with None => k | Some n => n end in
  if (n <? 0) || (k <? n) then Err RangeErr
  else write_bytes o (firstn (Z.to_nat n) (sdata h s)).

(** (display str out) = (%write-string str #t out) *)
Definition display_string (h : heap) (s : str) (o : oport) : res oport := op_write_string h s None o.

(** optional arguments as the Scheme code sees them: () | (start) | (start end) *)
Inductive range : Type := RNone | RStart (a : Z) | RBoth (a e : Z).

(** write-string (io.scm:41-56, the arm this build compiles):
      no range         -> (display str out)
      (start [end])    -> end defaults to (string-length str); (display (substring str start end) out) *)
Definition write_string_io (h : heap) (s : str) (r : range) (o : oport) : res (heap * oport) :=
  match r with
  | RNone => match display_string h s o with Ok o' => Ok (h, o') | Err e => Err e end
  | _ =>
      let start := match r with RStart a => a | RBoth a _ => a | RNone => 0 end in
      match (match r with RBoth _ e => Ok (Z.to_nat e, e) | _ => match string_length h s with Ok n => Ok (n, Z.of_nat n) | Err e => Err e end end) with
      | Err e => Err e
      | Ok (_, e) =>
          match substring h s start (Some e) with
          | Err x => Err x
          | Ok (h', s') => match display_string h' s' o with Ok o' => Ok (h', o') | Err x => Err x end
          end
      end
  end.

(** string->utf8 with a range (io.scm:17-23): (string->utf8 (substring str start end)) *)
Definition string_to_utf8_range (h : heap) (s : str) (r : range) : res (heap * nat) :=
  match r with
  | RNone => Ok (to_utf8 h s)
  | _ =>
      let start := match r with RStart a => a | RBoth a _ => a | RNone => 0 end in
      match (match r with RBoth _ e => Ok e | _ => match string_length h s with Ok n => Ok (Z.of_nat n) | Err e => Err e end end) with
      | Err e => Err e
      | Ok e => match substring h s start (Some e) with
                | Err x => Err x
                | Ok (h', s') => Ok (to_utf8 h' s')
                end
      end
  end.

(** string-fill!: (let lp ((i (- end 1))) (if (>= i start) (begin (string-set! str i ch) (lp (- i 1))))).
    [n] = number of iterations left, the next index is start + n - 1.  The string object is
    mutated by string-set! (possibly re-pointed at a new store): the loop goes on with it. *)
Fixpoint fill_down (h : heap) (s : str) (c : Z) (start : Z) (n : nat) : res (heap * str) :=
  match n with
  | O => Ok (h, s)
  | S n' => match string_set h s (start + Z.of_nat n') c with
            | Ok (h', s') => fill_down h' s' c start n'
            | Err e => Err e
            end
  end.
Definition string_fill (h : heap) (s : str) (c : Z) (r : range) : res (heap * str) :=
  let start := match r with RStart a => a | RBoth a _ => a | RNone => 0 end in
  match (match r with RBoth _ e => Ok e | _ => match string_length h s with Ok n => Ok (Z.of_nat n) | Err e => Err e end end) with
  | Err e => Err e
  | Ok e => fill_down h s c start (Z.to_nat (e - start))
  end.

(** string-copy!: [same = true] when from and to are the same object (then every string-ref sees
    the string-set!s done so far).
      (if (<= at start) (do ((i at (+ i 1)) (j start (+ j 1))) ((>= j limit)) (string-set! to i (string-ref from j)))
          (do ((i (+ at (- end start 1)) (- i 1)) (j (- limit 1) (- j 1))) ((< j start)) (string-set! to i (string-ref from j)))) *)
Fixpoint copy_loop (h : heap) (to from : str) (same : bool) (i j : Z) (d : Z) (n : nat) : res (heap * str) :=
  match n with
  | O => Ok (h, to)
  | S n' =>
      match string_ref h (if same then to else from) j with
      | Err e => Err e
      | Ok c => match string_set h to i c with
                | Err e => Err e
                | Ok (h', to') => copy_loop h' to' from same (i + d) (j + d) d n'
                end
      end
  end.
Definition string_copy_bang (h : heap) (to : str) (at_ : Z) (from : str) (same : bool) (r : range) : res (heap * str) :=
  let start := match r with RStart a => a | RBoth a _ => a | RNone => 0 end in
  match string_length h (if same then to else from), string_length h to with
  | Ok flen, Ok tlen =>
      let e := match r with RBoth _ e => e | _ => Z.of_nat flen end in
      let limit := Z.min e (start + (Z.of_nat tlen - at_)) in
      if at_ <=? start then copy_loop h to from same at_ start 1 (Z.to_nat (limit - start))
      else copy_loop h to from same (at_ + (e - start - 1)) (limit - 1) (-1) (Z.to_nat (limit - start))
  | Err e, _ => Err e
  | _, Err e => Err e
  end.

(** string-map with one string: every character through [f], written to a string port by write-char;
    the result is the port's bytes (get-output-string).  Walk = string-fold: cursor from 0 to the end. *)
Fixpoint map_loop (fuel : nat) (h : heap) (s : str) (f : Z -> Z) (i : nat) (o : oport) : res oport :=
  match fuel with
  | O => if (i <? ssize s)%nat then Err FuelErr else Ok o
  | S fu =>
      if (i <? ssize s)%nat then
        match decode_at (sdata h s) i (remaining s i) with
        | None => Err Utf8Err
        | Some c => match write_char o (f c) with
                    | Err e => Err e
                    | Ok o' => map_loop fu h s f (cursor_next h s i) o'
                    end
        end
      else Ok o
  end.
Definition string_map (bufsize : nat) (h : heap) (s : str) (f : Z -> Z) : res (list Z) :=
  match map_loop (ssize s) h s f 0 (open_output_string bufsize) with
  | Ok o => Ok (out_bytes o)
  | Err e => Err e
  end.

(** sexp_string_cmp_op, case-sensitive arm: memcmp over min(size1,size2) bytes (unsigned), then the sizes *)
Fixpoint memcmp (a b : list Z) (n : nat) : Z :=
  match n with
  | O => 0
  | S n' => let x := byte_at a 0 in let y := byte_at b 0 in
            if x =? y then memcmp (tl a) (tl b) n' else x - y
  end.
Definition string_cmp (h : heap) (s1 s2 : str) : Z :=
  let len := Nat.min (ssize s1) (ssize s2) in
  let d := memcmp (sdata h s1) (sdata h s2) len in
  if d =? 0 then Z.of_nat (ssize s1) - Z.of_nat (ssize s2) else d.
