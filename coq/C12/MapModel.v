(** C12 round 4 — n-ary string-for-each / string-map: several strings walked in lock step, each with
    its own byte cursor; the shortest string decides where the walk stops (executable model, no
    proofs in this file).

      string-for-each proc str . los           lib/chibi/string.sld:28-39  (the [chibi] arm)
      string-map proc str . los                lib/chibi/string.sld:40-46
      string-fold kons knil str (one string)   lib/chibi/string.scm:233-238
      any pred ls . lol  (anyn)                lib/init-7.scm:91-96
      map over two lists                       stops at the shorter list

    Cursors are byte offsets into the string's own slice: string-cursor-start = 0,
    string-cursor-end s = [cursor_end s] = [ssize s], string-cursor-ref s i = [decode_at (sdata h s) i (remaining s i)],
    string-cursor-next s i = [cursor_next h s i]  (Model.v).  The one-string string-map of
    RangeModel.v ([map_loop] / [string_map]) stays; this file adds the arm taken when [los] is not empty. *)
From ChibiV Require Export C12.RangeModel.
Local Open Scope Z_scope.

(** (map f la lb): as long as BOTH lists have an element *)
Fixpoint map2 {A B C : Type} (f : A -> B -> C) (la : list A) (lb : list B) : list C :=
  match la, lb with
  | a :: la', b :: lb' => f a b :: map2 f la' lb'
  | _, _ => []
  end.

(** (any pred la lb) = anyn (init-7.scm:91-95): #f as soon as one of the lists is exhausted *)
Fixpoint any2 {A B : Type} (p : A -> B -> bool) (la : list A) (lb : list B) : bool :=
  match la, lb with
  | a :: la', b :: lb' => if p a b then true else any2 p la' lb'
  | _, _ => false
  end.

(** a list of string-cursor-ref results: the first decoding error aborts the whole (map ...) *)
Fixpoint all_some {A : Type} (l : list (option A)) : option (list A) :=
  match l with
  | [] => Some []
  | None :: _ => None
  | Some x :: r => match all_some r with Some xs => Some (x :: xs) | None => None end
  end.

(** string.sld:32  (map string-cursor-start los) *)
Definition cursor_starts (ss : list str) : list nat := map (fun _ : str => O) ss.
(** string.sld:34-36  (any (lambda (str i) (string-cursor>=? i (string-cursor-end str))) los is) *)
Definition any_at_end (ss : list str) (is : list nat) : bool :=
  any2 (fun s i => (cursor_end s <=? i)%nat) ss is.
(** string.sld:38  (map string-cursor-ref los is) *)
Definition cursor_refs (h : heap) (ss : list str) (is : list nat) : option (list Z) :=
  all_some (map2 (fun s i => decode_at (sdata h s) i (remaining s i)) ss is).
(** string.sld:39  (map string-cursor-next los is) *)
Definition cursor_nexts (h : heap) (ss : list str) (is : list nat) : list nat :=
  map2 (fun s i => cursor_next h s i) ss is.

(** string.sld:32-39, the named let [lp] over the list of cursors [is]; [ss] = (cons str los).
    [proc] is the effect of one application of the procedure on the state [a] (for string-map: one
    write-char to the string port); an error in it, or in a string-cursor-ref, ends the walk.
    Order of the tests as in the code: first the [any] test (line 33), only then the references (38),
    the application (38) and the advance of every cursor (39). *)
Fixpoint for_each_loop {A : Type} (fuel : nat) (h : heap) (ss : list str) (is : list nat)
    (proc : A -> list Z -> res A) (a : A) : res A :=
  match fuel with
  | O => Err FuelErr
  | S fu =>
      if any_at_end ss is then Ok a                                   (* 33-36 *)
      else match cursor_refs h ss is with                             (* 38 *)
           | None => Err Utf8Err
           | Some args =>
               match proc a args with                                 (* 38: (apply proc ...) *)
               | Err e => Err e
               | Ok a' => for_each_loop fu h ss (cursor_nexts h ss is) proc a'   (* 39 *)
               end
           end
  end.

(** string.scm:233-238, string-fold over one string (what string.sld:30 calls when [los] is null):
    cursor from the start to the end, [kons] on the character under it *)
Fixpoint fold1_loop {A : Type} (fuel : nat) (h : heap) (s : str) (i : nat)
    (proc : A -> list Z -> res A) (a : A) : res A :=
  match fuel with
  | O => Err FuelErr
  | S fu =>
      if (cursor_end s <=? i)%nat then Ok a
      else match decode_at (sdata h s) i (remaining s i) with
           | None => Err Utf8Err
           | Some c => match proc a [c] with
                       | Err e => Err e
                       | Ok a' => fold1_loop fu h s (cursor_next h s i) proc a'
                       end
           end
  end.

(** string-for-each (string.sld:28-39).  [ss] = str :: los; an empty [ss] is an arity error of the
    call and is not a case of the procedure.  Every round moves every cursor by at least one byte, so
    the byte size of the first string + 1 rounds are enough. *)
Definition string_for_each_n {A : Type} (h : heap) (ss : list str) (proc : A -> list Z -> res A) (a : A) : res A :=
  match ss with
  | [] => Err RangeErr
  | [s] => fold1_loop (S (ssize s)) h s O proc a                                  (* 29-30 *)
  | s :: _ => for_each_loop (S (ssize s)) h ss (cursor_starts ss) proc a         (* 31-39 *)
  end.

(** the argument tuples [proc] is applied to, in order *)
Definition for_each_args (h : heap) (ss : list str) : res (list (list Z)) :=
  string_for_each_n h ss (fun acc args => Ok (acc ++ [args])) [].

(** string-map (string.sld:40-46): call-with-output-string around string-for-each with
    (lambda args (write-char (apply proc args) out)); the result is the port's bytes.
    One string: the existing [string_map] (RangeModel.v). *)
Definition string_map_n (bufsize : nat) (h : heap) (ss : list str) (f : list Z -> Z) : res (list Z) :=
  match ss with
  | [s] => string_map bufsize h s (fun c => f [c])
  | _ =>
      match string_for_each_n h ss (fun o args => write_char o (f args)) (open_output_string bufsize) with
      | Ok o => Ok (out_bytes o)
      | Err e => Err e
      end
  end.
