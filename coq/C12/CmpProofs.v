(** C12 round 3 — string comparison: chibi compares the BYTES of two strings (memcmp over the common
    length, then the sizes); the specification compares the code-point arrays lexicographically.
    For UTF-8 the two orders coincide — proved here for all code points (so in particular U+E000..U+FFFF
    sort before U+10000.., unlike in UTF-16, and U+0000 is an ordinary character). *)
From ChibiV Require Import C12.Model C12.Spec C12.Utf8Proofs C12.Proofs C12.RangeModel.
Local Open Scope Z_scope.
Ltac Zify.zify_post_hook ::= Z.div_mod_to_equations.

(** lexicographic order on lists of integers (code points, or bytes) *)
Fixpoint lex (a b : list Z) : comparison :=
  match a, b with
  | [], [] => Eq
  | [], _ :: _ => Lt
  | _ :: _, [] => Gt
  | x :: a', y :: b' => match x ?= y with Eq => lex a' b' | c => c end
  end.

Lemma lex_antisym a : forall b, lex b a = CompOpp (lex a b).
Proof.
  induction a as [|x a IH]; intros [|y b]; cbn [lex CompOpp]; try reflexivity.
  rewrite (Z.compare_antisym x y). destruct (x ?= y); cbn [CompOpp]; auto.
Qed.

Lemma lex_app_same p : forall a b, lex (p ++ a) (p ++ b) = lex a b.
Proof. induction p as [|x p IH]; intros a b; cbn [app lex]; [reflexivity|]. rewrite Z.compare_refl. apply IH. Qed.

Lemma lex_refl a : lex a a = Eq.
Proof. induction a as [|x a IH]; cbn [lex]; [reflexivity|]. rewrite Z.compare_refl. exact IH. Qed.

(** memcmp over the common length, then the sizes = lexicographic order of the two byte slices,
    whatever follows them in their stores *)
Lemma memcmp_lex A : forall B pa pb,
  let d := memcmp (A ++ pa) (B ++ pb) (Nat.min (length A) (length B)) in
  ((if d =? 0 then Z.of_nat (length A) - Z.of_nat (length B) else d) ?= 0) = lex A B.
Proof.
  induction A as [|x A IH]; intros [|y B] pa pb; cbn [length Nat.min memcmp lex app].
  - reflexivity.
  - cbn [Z.eqb]. apply Z.compare_lt_iff. lia.
  - cbn [Z.eqb]. apply Z.compare_gt_iff. lia.
  - unfold byte_at. cbn [nth tl]. destruct (x =? y) eqn:E.
    + apply Z.eqb_eq in E. subst y. rewrite Z.compare_refl.
      specialize (IH B pa pb). cbv zeta in IH. rewrite <- IH.
      destruct (memcmp (A ++ pa) (B ++ pb) (Nat.min (length A) (length B)) =? 0); [|reflexivity].
      f_equal. lia.
    + apply Z.eqb_neq in E. replace (x - y =? 0) with false by lia.
      destruct (Z.compare_spec x y) as [H|H|H]; [lia| |].
      * apply Z.compare_lt_iff. lia.
      * apply Z.compare_gt_iff. lia.
Qed.

Ltac cmp_cases :=
  repeat match goal with
         | |- context [?a ?= ?b] => destruct (Z.compare_spec a b)
         end; try reflexivity; try (exfalso; lia).

(** the heart: for two different code points the byte order of the encodings is the order of the code
    points, and it is decided inside the two encodings (whatever follows) *)
Lemma encode_order_lt c1 c2 X Y : cp c1 -> cp c2 -> c1 < c2 -> lex (encode c1 ++ X) (encode c2 ++ Y) = Lt.
Proof.
  intros H1 H2 L. unfold cp in *.
  assert (C1 : 0 <= c1 < 128 \/ 128 <= c1 < 2048 \/ 2048 <= c1 < 65536 \/ 65536 <= c1 < 2097152) by lia.
  assert (C2 : 0 <= c2 < 128 \/ 128 <= c2 < 2048 \/ 2048 <= c2 < 65536 \/ 65536 <= c2 < 2097152) by lia.
  destruct C1 as [C1|[C1|[C1|C1]]]; destruct C2 as [C2|[C2|[C2|C2]]]; try (exfalso; lia);
    first [rewrite (encode_1 c1) by exact C1 | rewrite (encode_2 c1) by exact C1 | rewrite (encode_3 c1) by exact C1 | rewrite (encode_4 c1) by exact C1];
    first [rewrite (encode_1 c2) by exact C2 | rewrite (encode_2 c2) by exact C2 | rewrite (encode_3 c2) by exact C2 | rewrite (encode_4 c2) by exact C2];
    cbn [app lex]; cmp_cases.
Qed.

Lemma encode_order c1 c2 X Y : cp c1 -> cp c2 -> c1 <> c2 -> lex (encode c1 ++ X) (encode c2 ++ Y) = (c1 ?= c2).
Proof.
  intros H1 H2 N. destruct (Z.compare_spec c1 c2) as [E|L|G]; [contradiction| |].
  - apply encode_order_lt; assumption.
  - rewrite lex_antisym. rewrite (encode_order_lt c2 c1 Y X H2 H1 G). reflexivity.
Qed.

(** byte order of the encodings = code point order of the arrays *)
Theorem lex_enc_all cs1 : Forall cp cs1 -> forall cs2, Forall cp cs2 -> lex (enc_all cs1) (enc_all cs2) = lex cs1 cs2.
Proof.
  induction 1 as [|c1 r1 H1 _ IH]; intros cs2 F2.
  - destruct F2 as [|c2 r2 H2 _]; [reflexivity|]. rewrite enc_all_cons. cbn [enc_all flat_map lex].
    pose proof (encode_nonempty c2 H2) as NE. destruct (encode c2); [cbn in NE; lia|reflexivity].
  - destruct F2 as [|c2 r2 H2 F2].
    + rewrite enc_all_cons. cbn [enc_all flat_map lex].
      pose proof (encode_nonempty c1 H1) as NE. destruct (encode c1); [cbn in NE; lia|reflexivity].
    + rewrite !enc_all_cons. cbn [lex]. destruct (Z.eq_dec c1 c2) as [->|N].
      * rewrite lex_app_same, Z.compare_refl. apply IH. exact F2.
      * rewrite (encode_order c1 c2 _ _ H1 H2 N). destruct (Z.compare_spec c1 c2); [contradiction|reflexivity|reflexivity].
Qed.

(** string-cmp (what string=? string<? string>? string<=? string>=? test against 0): its sign is the
    lexicographic comparison of the two code-point arrays — for all widths, any offsets, any bytes around
    the slices, U+0000 included *)
Theorem string_cmp_refines h s1 s2 cs1 cs2 : Rep h s1 cs1 -> Rep h s2 cs2 ->
  (string_cmp h s1 s2 ?= 0) = lex cs1 cs2.
Proof.
  intros (F1 & _ & Z1 & p1 & D1 & _) (F2 & _ & Z2 & p2 & D2 & _). unfold string_cmp.
  rewrite D1, D2, Z1, Z2. rewrite <- (lex_enc_all cs1 F1 cs2 F2). apply (memcmp_lex (enc_all cs1) (enc_all cs2) p1 p2).
Qed.

Corollary string_eq_refines h s1 s2 cs1 cs2 : Rep h s1 cs1 -> Rep h s2 cs2 ->
  (string_cmp h s1 s2 = 0 <-> cs1 = cs2).
Proof.
  intros R1 R2. pose proof (string_cmp_refines h s1 s2 cs1 cs2 R1 R2) as C. split.
  - intros E. rewrite E in C. cbn in C. symmetry in C. clear - C. revert cs2 C.
    induction cs1 as [|x a IH]; intros [|y b] C; cbn [lex] in C; try discriminate; [reflexivity|].
    destruct (Z.compare_spec x y); try discriminate. subst. f_equal. apply IH. exact C.
  - intros ->. rewrite lex_refl in C. apply Z.compare_eq in C. exact C.
Qed.

Example ex_cmp : let h := [[239; 191; 191; 0]; [240; 144; 128; 128; 0]; [97; 0; 98; 0]; [97; 0; 99; 0]] in
  (string_cmp h (mkstr 0 0 3 false) (mkstr 1 0 4 false) ?= 0) = Lt /\        (* U+FFFF < U+10000 *)
  (string_cmp h (mkstr 2 0 3 false) (mkstr 3 0 3 false) ?= 0) = Lt.         (* "a\0b" < "a\0c" *)
Proof. vm_compute. auto. Qed.
