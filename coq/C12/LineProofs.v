(** C12 round 3 — read-line (%read-line of lib/chibi/io/io.scm, the peek-char/read-char loop) refines
    "the characters up to the line end": LF, CR, CR LF, the limit n, or end of file. *)
From ChibiV Require Import C12.Model C12.Spec C12.Utf8Proofs C12.Proofs C12.PortModel C12.PortProofs.
Local Open Scope Z_scope.

(** SPEC on the code-point array: (the line, what stays in the port) *)
Fixpoint spec_line (n : nat) (cs : list Z) {struct cs} : list Z * list Z :=
  match cs with
  | [] => ([], [])
  | c :: r =>
      if c =? 10 then ([], r)
      else if c =? 13 then
        match r with
        | c2 :: r2 => if c2 =? 10 then ([], r2) else ([], r)
        | [] => ([], r)
        end
      else match n with
           | O => ([], cs)
           | S n' => let '(l, rest) := spec_line n' r in (c :: l, rest)
           end
  end.

(** the literal patterns 10 / 13 of the model, as tests *)
Lemma z_case {A} (c : Z) (a b d : A) :
  match c with 10 => a | 13 => b | _ => d end = if c =? 10 then a else if c =? 13 then b else d.
Proof.
  destruct c as [|q|q]; try reflexivity.
  repeat (match goal with q : positive |- _ => destruct q end; try reflexivity).
Qed.

Lemma z_case10 {A} (c : Z) (a d : A) : match c with 10 => a | _ => d end = if c =? 10 then a else d.
Proof.
  destruct c as [|q|q]; try reflexivity.
  repeat (match goal with q : positive |- _ => destruct q end; try reflexivity).
Qed.

Lemma read_line_loop_spec n : forall fuel i p cs acc, port_ok p -> Forall cp cs -> pending p = enc_all cs ->
  (i <= n)%nat -> fuel = (S n - i)%nat ->
  exists p', read_line_loop fuel i n p acc =
             (Ok (match acc, cs with [], [] => None | _, _ => Some (rev acc ++ fst (spec_line (n - i) cs)) end), p') /\
             port_ok p' /\ pending p' = enc_all (snd (spec_line (n - i) cs)).
Proof.
  induction fuel as [|f IH]; intros i p cs acc OK F P LE FU; [lia|].
  cbn [read_line_loop]. destruct F as [|c r Hc Hr].
  - (* end of file *)
    destruct (read_peek_eof p OK P) as [_ (p1 & PK & OK1 & P1)]. rewrite PK.
    exists p1. cbn [spec_line fst snd]. rewrite app_nil_r. split; [|split; assumption].
    destruct acc; reflexivity.
  - rewrite enc_all_cons in P.
    destruct (peek_char_spec p c _ OK Hc P) as (p1 & PK & OK1 & P1). rewrite PK. rewrite P in P1.
    assert (RES : forall (x : list Z), match acc, c :: r with [], [] => None | _, _ => Some x end = Some x)
      by (intros; destruct acc; reflexivity).
    rewrite RES. rewrite (z_case c). cbn [spec_line].
    destruct (read_char_spec p1 c _ OK1 Hc P1) as (p2 & RD & OK2 & P2).
    destruct (c =? 10) eqn:E10.
    + rewrite RD. exists p2. cbn [fst snd]. rewrite app_nil_r. auto.
    + destruct (c =? 13) eqn:E13.
      * rewrite RD. destruct Hr as [|c2 r2 Hc2 Hr2].
        -- destruct (read_peek_eof p2 OK2 P2) as [_ (p3 & PK3 & OK3 & P3)]. rewrite PK3.
           exists p3. cbn [fst snd]. rewrite app_nil_r. auto.
        -- rewrite enc_all_cons in P2.
           destruct (peek_char_spec p2 c2 _ OK2 Hc2 P2) as (p3 & PK3 & OK3 & P3). rewrite PK3. rewrite P2 in P3.
           rewrite (z_case10 c2). destruct (c2 =? 10) eqn:E210.
           ++ destruct (read_char_spec p3 c2 _ OK3 Hc2 P3) as (p4 & RD4 & OK4 & P4). rewrite RD4.
              exists p4. cbn [fst snd]. rewrite app_nil_r. auto.
           ++ exists p3. cbn [fst snd]. rewrite app_nil_r. rewrite enc_all_cons. auto.
      * destruct (n <=? i)%nat eqn:LI.
        -- apply Nat.leb_le in LI. replace (n - i)%nat with O by lia.
           exists p1. cbn [fst snd]. rewrite app_nil_r, enc_all_cons. auto.
        -- apply Nat.leb_gt in LI. rewrite RD.
           destruct (IH (S i) p2 r (c :: acc) OK2 Hr P2 ltac:(lia) ltac:(lia)) as (p' & RL & OK' & P').
           rewrite RL. exists p'. replace (n - i)%nat with (S (n - S i)) by lia.
           destruct (spec_line (n - S i) r) as [l rest] eqn:SL. cbn [fst snd] in *.
           split; [|split; assumption]. cbn [rev]. rewrite <- app_assoc. reflexivity.
Qed.

(** read-line with limit n: the line is the characters before the first LF / CR / CR LF (consumed, not
    returned), at most n of them, or up to end of file; eof-object iff nothing at all is left; what stays
    pending is exactly the rest — for every width, every refill boundary, every schedule of read sizes *)
Theorem read_line_spec n p cs : port_ok p -> Forall cp cs -> pending p = enc_all cs ->
  exists p', read_line n p = (Ok (match cs with [] => None | _ => Some (fst (spec_line n cs)) end), p') /\
             port_ok p' /\ pending p' = enc_all (snd (spec_line n cs)).
Proof.
  intros OK F P. unfold read_line.
  destruct (read_line_loop_spec n (S n) 0 p cs [] OK F P ltac:(lia) ltac:(lia)) as (p' & RL & OK' & P').
  rewrite Nat.sub_0_r in *. exists p'. rewrite RL. cbn [rev app]. auto.
Qed.

Example ex_read_line :
  let p := open_fd_port 6 (enc_all [955; 8364; 13; 10; 128512; 97]) [1; 2; 1; 3]%nat in
  let '(l1, p1) := read_line 100 p in
  let '(l2, p2) := read_line 1 p1 in
  let '(l3, p3) := read_line 100 p2 in
  let '(l4, _) := read_line 100 p3 in
  (l1, l2, l3, l4) = (Ok (Some [955; 8364]), Ok (Some [128512]), Ok (Some [97]), Ok None).
Proof. vm_compute. reflexivity. Qed.
