(** C12 round 5 — a string whose last bytes are a lead byte cut off by the end of the string
    (the only ill-formed shape the repaired sexp_string_utf8_ref / sexp_string_utf8_set speak about;
    utf8->string of bytes ending in #xF0 or #xE2 #x82 builds one).

    [Trunc h s a x k]: the string [s] holds the encodings of [a] followed by the first [k] bytes
    (0 < k < width x) of the encoding of a non-ASCII [x]; whatever follows in the store is not part
    of the string.  string-ref at index [length a] raises; string-set! there replaces exactly the
    [k] remaining bytes and never reads the announced-but-absent ones as part of the string. *)
From Coq Require Import ZifyBool.
From ChibiV Require Import C12.Model C12.Spec C12.Utf8Proofs C12.Proofs.
Local Open Scope Z_scope.

Ltac Zify.zify_post_hook ::= Z.div_mod_to_equations.

Definition Trunc (h : heap) (s : str) (a : list Z) (x : Z) (k : nat) : Prop :=
  Forall cp a /\ cp x /\ 128 <= x /\ (0 < k < width x)%nat /\ (sbytes s < length h)%nat /\
  ssize s = (length (enc_all a) + k)%nat /\
  exists post, sdata h s = enc_all a ++ firstn k (encode x) ++ post /\ post <> [].

(** the translated sexp_string_utf8_ref: a non-ASCII lead byte announcing more than [rem] bytes *)
Lemma ref_truncated b0 b1 b2 b3 rem : 128 <= b0 -> rem < sexp_utf8_initial_byte_count b0 ->
  sexp_string_utf8_ref b0 b1 b2 b3 rem = RErr.
Proof.
  intros H0 Hr. unfold sexp_string_utf8_ref.
  destruct (b0 <? 128) eqn:E0; [lia|].
  destruct ((b0 <? 192) || (b0 >? 247)); [reflexivity|].
  destruct (sexp_utf8_initial_byte_count b0 >? rem) eqn:E1; [reflexivity|lia].
Qed.

Lemma encode_lead_nonascii x : cp x -> 128 <= x -> 128 <= hd 0 (encode x).
Proof. intros H Hx. classes x H; cbn [hd]; lia. Qed.

Lemma hd_firstn_app k (l post : list Z) : (0 < k)%nat -> l <> [] -> hd 0 (firstn k l ++ post) = hd 0 l.
Proof. intros Hk Hl. destruct k; [lia|]. destruct l; [contradiction|reflexivity]. Qed.

Lemma encode_not_nil x : cp x -> encode x <> [].
Proof. intros H E. pose proof (encode_nonempty x H) as L. rewrite E in L. cbn in L. lia. Qed.

(** index->cursor walks over complete characters only: any limit at or behind their end will do *)
Lemma i2c_loop_prefix cs : Forall cp cs -> forall pre post limit,
  (length pre + length (enc_all cs) <= limit)%nat ->
  i2c_loop (pre ++ enc_all cs ++ post) limit (length cs) (length pre) =
  (0%nat, (length pre + length (enc_all cs))%nat).
Proof.
  induction 1 as [|c cs Hc Hcs IH]; intros pre post limit Hl.
  - cbn [length i2c_loop enc_all flat_map]. rewrite Nat.add_0_r. reflexivity.
  - cbn [length i2c_loop]. rewrite enc_all_cons, app_length in *.
    pose proof (encode_nonempty c Hc) as Hn.
    assert (L : (length pre <? limit)%nat = true) by (apply Nat.ltb_lt; lia).
    rewrite L. rewrite <- app_assoc. rewrite lead_at by exact Hc.
    specialize (IH (pre ++ encode c) post limit).
    rewrite app_length in IH. rewrite <- app_assoc in IH.
    rewrite IH by lia. f_equal. lia.
Qed.

Lemma trunc_cursor h s a x k : Trunc h s a x k ->
  index_to_cursor h s (Z.of_nat (length a)) = Ok (length (enc_all a)).
Proof.
  intros (Ha & Hx & Hx128 & Hk & Hid & Hsz & post & Hd & Hp). unfold index_to_cursor.
  destruct (Z.of_nat (length a) <? 0) eqn:E; [lia|].
  rewrite Nat2Z.id, Hd, Hsz.
  pose proof (i2c_loop_prefix a Ha [] (firstn k (encode x) ++ post) (length (enc_all a) + k)%nat) as P.
  cbn [app length Nat.add] in P. rewrite P by lia. reflexivity.
Qed.

Lemma trunc_lead h s a x k : Trunc h s a x k ->
  byte_at (sdata h s) (length (enc_all a)) = hd 0 (encode x).
Proof.
  intros (Ha & Hx & Hx128 & Hk & Hid & Hsz & post & Hd & Hp).
  rewrite Hd, byte_at_app0. unfold byte_at.
  rewrite <- (hd_firstn_app k (encode x) post) by (try lia; apply encode_not_nil; exact Hx).
  destruct (firstn k (encode x) ++ post); reflexivity.
Qed.

(** string-ref of the cut-off character is an error (never a character decoded from bytes behind the
    end of the string) *)
Theorem ref_of_truncated_lead_is_error h s a x k : Trunc h s a x k ->
  string_ref h s (Z.of_nat (length a)) = Err Utf8Err.
Proof.
  intros T. unfold string_ref. rewrite (trunc_cursor h s a x k T).
  pose proof (trunc_lead h s a x k T) as HL.
  destruct T as (Ha & Hx & Hx128 & Hk & Hid & Hsz & post & Hd & Hp).
  assert (E : (ssize s <=? length (enc_all a))%nat = false) by (apply Nat.leb_gt; lia).
  rewrite E. unfold decode_at. rewrite HL.
  rewrite ref_truncated; [reflexivity|apply encode_lead_nonascii; assumption|].
  rewrite (ibc_width x Hx). unfold remaining. lia.
Qed.

(** string-set! at the cut-off character: the replaced block is exactly the [k] bytes left in the
    string, not the width the lead byte announces (so the suffix copy length is never negative) *)
Theorem set_at_truncated_lead_replaces_remaining h s a x k : Trunc h s a x k ->
  clamp_old_len (lead_count (byte_at (sdata h s) (length (enc_all a)))) (ssize s - length (enc_all a)) = k.
Proof.
  intros T. rewrite (trunc_lead h s a x k T).
  destruct T as (Ha & Hx & Hx128 & Hk & Hid & Hsz & post & Hd & Hp).
  rewrite (encode_lead x Hx). rewrite Hsz.
  replace (length (enc_all a) + k - length (enc_all a))%nat with k by lia.
  apply clamp_old_len_cut. lia.
Qed.

(** the result of string-set! there: a fresh store (the widths differ or the string is copy-on-write)
    holding [a ++ [c]] — the code points before the cut, then the new character *)
Theorem set_at_truncated_lead_fresh h s a x k c : Trunc h s a x k -> cp c ->
  (scow s = true \/ width c <> k) ->
  exists h' s', string_set h s (Z.of_nat (length a)) c = Ok (h', s') /\ Rep h' s' (a ++ [c]) /\
                sbytes s' = length h /\ (forall j, (j < length h)%nat -> nth j h' [] = nth j h []).
Proof.
  intros T Hc Hcase. unfold string_set. rewrite (trunc_cursor h s a x k T).
  pose proof (set_at_truncated_lead_replaces_remaining h s a x k T) as HK.
  destruct T as (Ha & Hx & Hx128 & Hk & Hid & Hsz & post & Hd & Hp).
  assert (E : (ssize s <=? length (enc_all a))%nat = false) by (apply Nat.leb_gt; lia).
  rewrite E. unfold utf8_set. rewrite HK. rewrite (encode_char_width c Hc).
  assert (B : scow s || negb (k =? width c)%nat = true).
  { destruct Hcase as [-> | Hw]; [reflexivity|].
    assert ((k =? width c)%nat = false) as -> by (apply Nat.eqb_neq; lia). apply orb_true_r. }
  rewrite B. eexists _, _. split; [reflexivity|].
  destruct post as [|t post']; [contradiction|].
  set (la := length (enc_all a)). pose proof (encode_length c Hc) as Lc.
  rewrite <- Lc. set (lc := length (encode c)).
  assert (Hfk : length (firstn k (encode x)) = k).
  { apply firstn_length_le. rewrite (encode_length x Hx). lia. }
  assert (Hlen : (ssize s + lc - k = la + lc)%nat) by (fold la in Hsz; lia).
  rewrite Hlen, Hd.
  assert (Q : overwrite
                (memcpy (memcpy (make_bytes (la + lc)) 0 (enc_all a ++ firstn k (encode x) ++ t :: post') la)
                   (la + lc) (skipn (la + k) (enc_all a ++ firstn k (encode x) ++ t :: post'))
                   (la + lc - la - lc + 1)) la (encode c)
              = enc_all a ++ encode c ++ [t]).
  { unfold memcpy, make_bytes.
    assert (F1 : firstn la (enc_all a ++ firstn k (encode x) ++ t :: post') = enc_all a).
    { unfold la. rewrite firstn_app, Nat.sub_diag, firstn_O, app_nil_r. apply firstn_all. }
    assert (F2 : firstn (la + lc - la - lc + 1)
                   (skipn (la + k) (enc_all a ++ firstn k (encode x) ++ t :: post')) = [t]).
    { replace (la + k)%nat with (length (enc_all a ++ firstn k (encode x))) by (rewrite app_length, Hfk; reflexivity).
      rewrite (app_assoc (enc_all a)), skipn_app, skipn_all, Nat.sub_diag. cbn [skipn app].
      replace (la + lc - la - lc + 1)%nat with 1%nat by lia. reflexivity. }
    rewrite F1, F2.
    replace (la + lc + 1)%nat with (la + (lc + 1))%nat by lia.
    rewrite !repeat_app.
    rewrite overwrite_app0 by (rewrite ?repeat_length; reflexivity).
    rewrite (app_assoc (enc_all a) (repeat 0 lc)).
    rewrite <- (app_nil_r (repeat 0 1)).
    rewrite (overwrite_app (enc_all a ++ repeat 0 lc) (repeat 0 1) [] (la + lc) [t])
      by (rewrite ?app_length, ?repeat_length; cbn [length]; fold la; lia).
    rewrite app_nil_r, <- app_assoc.
    apply overwrite_app; [reflexivity|rewrite repeat_length; reflexivity]. }
  rewrite Q. cbn [sbytes]. split; [|split; [reflexivity|]].
  - repeat split.
    + apply Forall_app. split; [exact Ha|]. constructor; [exact Hc|constructor].
    + cbn [sbytes]. rewrite app_length. cbn [length]. lia.
    + cbn [ssize]. rewrite enc_all_app, app_length. cbn [enc_all flat_map]. rewrite app_nil_r. reflexivity.
    + exists [t]. split; [|discriminate].
      unfold sdata, store. cbn [sbytes soff skipn]. rewrite app_nth2 by lia. rewrite Nat.sub_diag. cbn [nth].
      rewrite enc_all_app. cbn [enc_all flat_map]. rewrite app_nil_r, <- app_assoc. reflexivity.
  - intros j Hj. apply app_nth1. exact Hj.
Qed.

(** non-vacuity: "a€" cut after two bytes of the euro sign (61 E2 82), as (utf8->string #u8(#x61 #xE2 #x82)) *)
Example trunc_ex :
  let h := [[97; 226; 130; 0]] in let s := mkstr 0 0 3 false in
  Trunc h s [97] 8364 2 /\ string_ref h s 1 = Err Utf8Err /\ string_ref h s 0 = Ok 97 /\
  (exists h' s', string_set h s 1 955 = Ok (h', s') /\ slice h' s' = [97; 206; 187]) /\
  (exists h' s', string_set h s 1 65 = Ok (h', s') /\ slice h' s' = [97; 65] /\ store h' s' = [97; 65; 0]).
Proof.
  cbv zeta. split; [|split; [vm_compute; reflexivity|split; [vm_compute; reflexivity|split]]].
  - unfold Trunc. assert (W : width 8364 = 3%nat) by (vm_compute; reflexivity).
    split; [apply Forall_cons; [unfold cp; lia|apply Forall_nil]|]. split; [unfold cp; lia|]. split; [lia|].
    split; [rewrite W; lia|]. split; [cbn [length sbytes]; lia|]. split; [vm_compute; reflexivity|].
    exists [0]. split; [vm_compute; reflexivity|discriminate].
  - eexists _, _. split; vm_compute; reflexivity.
  - eexists _, _. split; [vm_compute; reflexivity|split; vm_compute; reflexivity].
Qed.
