(** C12 — proofs about the regenerated UTF-8 leaf functions (coq/Gen/C12_Leaf.v).
    Everything here is proved against whatever gen/c12_leaf.py produced from the current sexp.c:
    a change of a boundary, a shift or a mask in the C makes these proofs fail. *)
From Coq Require Import ZifyBool.
From ChibiV Require Import C12.Model C12.Spec.
Local Open Scope Z_scope.

Ltac Zify.zify_post_hook ::= Z.div_mod_to_equations.

(* ---------------------------------------------------------------- bit operations as arithmetic *)
Lemma land_ones_lit a n m : 0 <= n -> m = Z.ones n -> Z.land a m = a mod 2 ^ n.
Proof. intros Hn ->. apply Z.land_ones; exact Hn. Qed.

Lemma land1 a : Z.land a 1 = a mod 2.   Proof. apply (land_ones_lit a 1); [lia|reflexivity]. Qed.
Lemma land15 a : Z.land a 15 = a mod 16. Proof. apply (land_ones_lit a 4); [lia|reflexivity]. Qed.
Lemma land31 a : Z.land a 31 = a mod 32. Proof. apply (land_ones_lit a 5); [lia|reflexivity]. Qed.
Lemma land63 a : Z.land a 63 = a mod 64. Proof. apply (land_ones_lit a 6); [lia|reflexivity]. Qed.

Lemma shr4 a : Z.shiftr a 4 = a / 16.        Proof. rewrite Z.shiftr_div_pow2 by lia. reflexivity. Qed.
Lemma shr6 a : Z.shiftr a 6 = a / 64.        Proof. rewrite Z.shiftr_div_pow2 by lia. reflexivity. Qed.
Lemma shr8 a : Z.shiftr a 8 = a / 256.       Proof. rewrite Z.shiftr_div_pow2 by lia. reflexivity. Qed.
Lemma shr12 a : Z.shiftr a 12 = a / 4096.    Proof. rewrite Z.shiftr_div_pow2 by lia. reflexivity. Qed.
Lemma shr18 a : Z.shiftr a 18 = a / 262144.  Proof. rewrite Z.shiftr_div_pow2 by lia. reflexivity. Qed.
Lemma shl6 a : Z.shiftl a 6 = a * 64.        Proof. rewrite Z.shiftl_mul_pow2 by lia. reflexivity. Qed.
Lemma shl8 a : Z.shiftl a 8 = a * 256.       Proof. rewrite Z.shiftl_mul_pow2 by lia. reflexivity. Qed.
Lemma shl12 a : Z.shiftl a 12 = a * 4096.    Proof. rewrite Z.shiftl_mul_pow2 by lia. reflexivity. Qed.
Lemma shl18 a : Z.shiftl a 18 = a * 262144.  Proof. rewrite Z.shiftl_mul_pow2 by lia. reflexivity. Qed.

Ltac bits := rewrite ?land1, ?land15, ?land31, ?land63, ?shr4, ?shr6, ?shr8, ?shr12, ?shr18,
                     ?shl6, ?shl8, ?shl12, ?shl18.

Lemma wrap8_small x : 0 <= x < 256 -> wrap 8 x = x.
Proof. intros H. unfold wrap. change (2 ^ 8) with 256. apply Z.mod_small; exact H. Qed.

Definition two63 : Z := 2 ^ 63.
Definition two64 : Z := 2 ^ 64.

(** boxing a character and unboxing it again (sexp_make_character / sexp_unbox_character) *)
Lemma unbox_make n : 0 <= n < 2097152 ->
  verif_c12_unbox_character (wrap 64 (Z.shiftl n 8 + 30)) = n.
Proof.
  intros H. unfold verif_c12_unbox_character, wrap.
  rewrite shl8.
  assert (E : (n * 256 + 30) mod 2 ^ 64 = n * 256 + 30).
  { apply Z.mod_small. split; [lia|]. apply Z.lt_le_trans with (2 ^ 32); [lia|].
    apply Z.pow_le_mono_r; lia. }
  rewrite E, E.
  assert (S64 : swrap 64 (n * 256 + 30) = n * 256 + 30).
  { unfold swrap. rewrite E.
    assert (L : n * 256 + 30 < 2 ^ (64 - 1)).
    { apply Z.lt_le_trans with (2 ^ 32); [lia|]. apply Z.pow_le_mono_r; lia. }
    apply Z.ltb_lt in L. rewrite L. reflexivity. }
  rewrite S64, shr8.
  assert (D : (n * 256 + 30) / 256 = n) by lia.
  rewrite D. unfold swrap. change (2 ^ 32) with 4294967296. change (2 ^ (32 - 1)) with 2147483648.
  rewrite Z.mod_small by lia.
  assert (L : n <? 2147483648 = true) by lia. rewrite L. reflexivity.
Qed.

(* ---------------------------------------------------------------- width classes *)
Lemma width_1 c : c < 128 -> sexp_utf8_char_byte_count c = 1.
Proof. intros. unfold sexp_utf8_char_byte_count. destruct (c <? 128) eqn:?; lia. Qed.
Lemma width_2 c : 128 <= c < 2048 -> sexp_utf8_char_byte_count c = 2.
Proof. intros. unfold sexp_utf8_char_byte_count.
  destruct (c <? 128) eqn:?; [lia|]. destruct (c <? 2048) eqn:?; lia. Qed.
Lemma width_3 c : 2048 <= c < 65536 -> sexp_utf8_char_byte_count c = 3.
Proof. intros. unfold sexp_utf8_char_byte_count.
  destruct (c <? 128) eqn:?; [lia|]. destruct (c <? 2048) eqn:?; [lia|]. destruct (c <? 65536) eqn:?; lia. Qed.
Lemma width_4 c : 65536 <= c -> sexp_utf8_char_byte_count c = 4.
Proof. intros. unfold sexp_utf8_char_byte_count.
  destruct (c <? 128) eqn:?; [lia|]. destruct (c <? 2048) eqn:?; [lia|]. destruct (c <? 65536) eqn:?; lia. Qed.

(** the encoder, class by class, in arithmetic form *)
Lemma encode_1 c : 0 <= c < 128 -> encode c = [c].
Proof.
  intros H. unfold encode. rewrite width_1 by lia. unfold sexp_utf8_encode_char.
  cbn [Z.eqb Pos.eqb]. rewrite wrap8_small by lia. reflexivity.
Qed.

Lemma encode_2 c : 128 <= c < 2048 -> encode c = [192 + c / 64; 128 + c mod 64].
Proof.
  intros H. unfold encode. rewrite width_2 by lia. unfold sexp_utf8_encode_char.
  cbn [Z.eqb Pos.eqb]. bits. rewrite !wrap8_small by lia. reflexivity.
Qed.

Lemma encode_3 c : 2048 <= c < 65536 ->
  encode c = [224 + c / 4096; 128 + (c / 64) mod 64; 128 + c mod 64].
Proof.
  intros H. unfold encode. rewrite width_3 by lia. unfold sexp_utf8_encode_char.
  cbn [Z.eqb Pos.eqb]. bits. rewrite !wrap8_small by lia. reflexivity.
Qed.

Lemma encode_4 c : 65536 <= c < 2097152 ->
  encode c = [240 + c / 262144; 128 + (c / 4096) mod 64; 128 + (c / 64) mod 64; 128 + c mod 64].
Proof.
  intros H. unfold encode. rewrite width_4 by lia. unfold sexp_utf8_encode_char.
  cbn [Z.eqb Pos.eqb]. bits. rewrite !wrap8_small by lia. reflexivity.
Qed.

(** the four classes of a code point *)
Lemma cp_classes c : cp c ->
  (0 <= c < 128) \/ (128 <= c < 2048) \/ (2048 <= c < 65536) \/ (65536 <= c < 2097152).
Proof. unfold cp. lia. Qed.

Ltac classes c H :=
  destruct (cp_classes c H) as [K|[K|[K|K]]];
  [rewrite (encode_1 c K) | rewrite (encode_2 c K) | rewrite (encode_3 c K) | rewrite (encode_4 c K)].

(* ---------------------------------------------------------------- facts used by the string proofs *)
Lemma encode_length c : cp c -> length (encode c) = width c.
Proof.
  intros H. unfold width. classes c H; cbn [length];
    [rewrite width_1|rewrite width_2|rewrite width_3|rewrite width_4]; try lia; reflexivity.
Qed.

Lemma width_range c : cp c -> (1 <= width c <= 4)%nat.
Proof.
  intros H. unfold width. destruct (cp_classes c H) as [K|[K|[K|K]]];
    [rewrite width_1|rewrite width_2|rewrite width_3|rewrite width_4]; lia.
Qed.

Lemma lead_count_pos b : (1 <= lead_count b)%nat.
Proof.
  unfold lead_count, sexp_utf8_initial_byte_count.
  destruct (b <? 192) eqn:?; [lia|]. destruct (b <? 224) eqn:?; [lia|]. bits. lia.
Qed.

(** the lead byte announces exactly the encoder's width *)
Lemma encode_lead c : cp c -> lead_count (hd 0 (encode c)) = width c.
Proof.
  intros H. unfold width, lead_count, sexp_utf8_initial_byte_count.
  classes c H; cbn [hd];
    [rewrite width_1|rewrite width_2|rewrite width_3|rewrite width_4]; try lia.
  - destruct (c <? 192) eqn:?; lia.
  - destruct (192 + c / 64 <? 192) eqn:?; [lia|]. destruct (192 + c / 64 <? 224) eqn:?; lia.
  - destruct (224 + c / 4096 <? 192) eqn:?; [lia|]. destruct (224 + c / 4096 <? 224) eqn:?; [lia|].
    bits. lia.
  - destruct (240 + c / 262144 <? 192) eqn:?; [lia|]. destruct (240 + c / 262144 <? 224) eqn:?; [lia|].
    bits. lia.
Qed.

Lemma encode_bytes c : cp c -> Forall (fun b => 0 <= b < 256) (encode c).
Proof. intros H. classes c H; repeat constructor; lia. Qed.

(** continuation bytes have top bits 10, the lead byte does not (what sexp_string_utf8_prev tests) *)
Lemma encode_shape c : cp c ->
  Z.shiftr (hd 0 (encode c)) 6 <> 2 /\ Forall (fun b => Z.shiftr b 6 = 2) (tl (encode c)).
Proof.
  intros H. classes c H; cbn [hd tl]; split; bits; try lia; repeat constructor; bits; lia.
Qed.

(** decoding what was encoded, whatever follows, provided the string has room for the announced width *)
Lemma ibc_width c : cp c -> sexp_utf8_initial_byte_count (hd 0 (encode c)) = Z.of_nat (width c).
Proof.
  intros H. pose proof (encode_lead c H) as L. unfold lead_count in L. rewrite <- L.
  rewrite Z2Nat.id; [reflexivity|].
  unfold sexp_utf8_initial_byte_count.
  destruct (hd 0 (encode c) <? 192) eqn:?; [lia|]. destruct (hd 0 (encode c) <? 224) eqn:?; [lia|]. bits. lia.
Qed.

Lemma decode4_encode c r0 r1 r2 rem : cp c -> Z.of_nat (width c) <= rem ->
  let l := encode c ++ [r0; r1; r2] in
  match sexp_string_utf8_ref (nth 0 l 0) (nth 1 l 0) (nth 2 l 0) (nth 3 l 0) rem with
  | RVal w => Some (verif_c12_unbox_character w)
  | RErr => None
  end = Some c.
Proof.
  intros H Hrem l. subst l. pose proof (ibc_width c H) as IW. revert IW.
  classes c H; cbn [app nth hd]; intros IW; unfold sexp_string_utf8_ref; rewrite IW.
  - destruct (c <? 128) eqn:?; [|lia]. rewrite unbox_make by lia. reflexivity.
  - destruct (192 + c / 64 <? 128) eqn:?; [lia|].
    destruct ((192 + c / 64 <? 192) || (192 + c / 64 >? 247)) eqn:?; [lia|].
    destruct (Z.of_nat (width c) >? rem) eqn:?; [lia|].
    destruct (192 + c / 64 <? 224) eqn:?; [|lia].
    bits. rewrite <- shl8. rewrite unbox_make by lia. f_equal. lia.
  - destruct (224 + c / 4096 <? 128) eqn:?; [lia|].
    destruct ((224 + c / 4096 <? 192) || (224 + c / 4096 >? 247)) eqn:?; [lia|].
    destruct (Z.of_nat (width c) >? rem) eqn:?; [lia|].
    destruct (224 + c / 4096 <? 224) eqn:?; [lia|].
    destruct (224 + c / 4096 <? 240) eqn:?; [|lia].
    bits. rewrite <- shl8. rewrite unbox_make by lia. f_equal. lia.
  - destruct (240 + c / 262144 <? 128) eqn:?; [lia|].
    destruct ((240 + c / 262144 <? 192) || (240 + c / 262144 >? 247)) eqn:?; [lia|].
    destruct (Z.of_nat (width c) >? rem) eqn:?; [lia|].
    destruct (240 + c / 262144 <? 224) eqn:?; [lia|].
    destruct (240 + c / 262144 <? 240) eqn:?; [lia|].
    bits. rewrite <- shl8. rewrite unbox_make by lia. f_equal. lia.
Qed.

(** a lead byte cut off by the end of the string (fewer bytes left than it announces) is an error,
    whatever the bytes behind the end of the string are; an ASCII character never is cut off *)
Lemma decode4_truncated c r0 r1 r2 rem : cp c -> 128 <= c -> rem < Z.of_nat (width c) ->
  let l := encode c ++ [r0; r1; r2] in
  sexp_string_utf8_ref (nth 0 l 0) (nth 1 l 0) (nth 2 l 0) (nth 3 l 0) rem = RErr.
Proof.
  intros H Hc Hrem l. subst l. pose proof (ibc_width c H) as IW. revert IW.
  classes c H; cbn [app nth hd]; intros IW; unfold sexp_string_utf8_ref; rewrite IW.
  - lia.
  - destruct (192 + c / 64 <? 128) eqn:?; [lia|].
    destruct ((192 + c / 64 <? 192) || (192 + c / 64 >? 247)) eqn:?; [reflexivity|].
    destruct (Z.of_nat (width c) >? rem) eqn:?; [reflexivity|lia].
  - destruct (224 + c / 4096 <? 128) eqn:?; [lia|].
    destruct ((224 + c / 4096 <? 192) || (224 + c / 4096 >? 247)) eqn:?; [reflexivity|].
    destruct (Z.of_nat (width c) >? rem) eqn:?; [reflexivity|lia].
  - destruct (240 + c / 262144 <? 128) eqn:?; [lia|].
    destruct ((240 + c / 262144 <? 192) || (240 + c / 262144 >? 247)) eqn:?; [reflexivity|].
    destruct (Z.of_nat (width c) >? rem) eqn:?; [reflexivity|lia].
Qed.

(* ---------------------------------------------------------------- the property-level statements *)

(** every code point (so every scalar value) survives encode-then-decode, the lead byte announces the
    encoder's width, and that width is the number of bytes written *)
Theorem utf8_roundtrip_all c : cp c ->
  forall rest, (forall rem, Z.of_nat (width c) <= rem -> decode_at (encode c ++ rest) 0 rem = Some c)
            /\ lead_count (byte_at (encode c ++ rest) 0) = width c
            /\ length (encode c) = width c.
Proof.
  intros H rest. split; [|split].
  - intros rem Hrem. unfold decode_at, byte_at.
    rewrite <- (decode4_encode c (nth 0 rest 0) (nth 1 rest 0) (nth 2 rest 0) rem H Hrem).
    cbv zeta. classes c H; cbn [app nth Nat.add]; reflexivity.
  - unfold byte_at. rewrite <- (encode_lead c H). f_equal.
    classes c H; reflexivity.
  - apply encode_length; exact H.
Qed.

(** scalar values are encoded as well-formed UTF-8 (Unicode Table 3-7): shortest form, no
    surrogates, nothing above U+10FFFF; and the sequence denotes c *)
Theorem encode_wellformed_scalar c : is_scalar c -> wf_seq (encode c) /\ seq_value (encode c) = c.
Proof.
  intros S. pose proof (scalar_cp c S) as H. unfold is_scalar in S.
  classes c H; unfold wf_seq, seq_value, cont; split; try lia.
Qed.

(** conversely every well-formed sequence is decoded to the scalar value it denotes, and encoding
    that value gives the sequence back: decode and encode are inverse bijections between scalar
    values and Table 3-7 sequences *)
(** the same sequence with fewer bytes left in the string than its lead byte announces: an error *)
Theorem truncated_lead_is_error c : cp c -> 128 <= c ->
  forall rest rem, rem < Z.of_nat (width c) -> decode_at (encode c ++ rest) 0 rem = None.
Proof.
  intros H Hc rest rem Hrem. unfold decode_at, byte_at.
  pose proof (decode4_truncated c (nth 0 rest 0) (nth 1 rest 0) (nth 2 rest 0) rem H Hc Hrem) as T.
  cbv zeta in T.
  replace (sexp_string_utf8_ref _ _ _ _ rem) with RErr; [reflexivity|].
  rewrite <- T. classes c H; cbn [app nth Nat.add]; reflexivity.
Qed.

Theorem decode_wellformed l rest rem : wf_seq l -> Z.of_nat (length l) <= rem ->
  decode_at (l ++ rest) 0 rem = Some (seq_value l) /\ is_scalar (seq_value l) /\ encode (seq_value l) = l.
Proof.
  intros W Hrem.
  assert (V : is_scalar (seq_value l) /\ encode (seq_value l) = l).
  { destruct l as [|b0 [|b1 [|b2 [|b3 [|b4 l]]]]]; cbn [wf_seq] in W; try contradiction;
      unfold cont in W; cbn [seq_value]; unfold is_scalar.
    - split; [lia|]. apply encode_1; lia.
    - split; [lia|]. rewrite encode_2 by lia. f_equal; [lia|]. f_equal; lia.
    - split; [lia|]. rewrite encode_3 by lia. f_equal; [lia|]. f_equal; [lia|]. f_equal; lia.
    - split; [lia|]. rewrite encode_4 by lia.
      f_equal; [lia|]. f_equal; [lia|]. f_equal; [lia|]. f_equal; lia. }
  destruct V as [S E]. split; [|split; assumption].
  rewrite <- E at 1. apply utf8_roundtrip_all; [apply scalar_cp; exact S|].
  rewrite <- (encode_length _ (scalar_cp _ S)), E. exact Hrem.
Qed.

(** the signed C arithmetic inside the leaf functions never overflows on the domains they are
    called with (generated side conditions [_safe]) *)
Theorem leaves_no_signed_overflow :
  (forall b, 0 <= b < 256 -> sexp_utf8_initial_byte_count_safe b = true) /\
  (forall c, cp c -> sexp_utf8_char_byte_count_safe c = true) /\
  (forall c, cp c -> sexp_utf8_encode_char_safe (sexp_utf8_char_byte_count c) c = true).
Proof.
  split; [|split].
  - intros b Hb. unfold sexp_utf8_initial_byte_count_safe, in_s.
    destruct (b <? 192) eqn:?; [reflexivity|]. destruct (b <? 224) eqn:?; [reflexivity|].
    bits. change (2 ^ (32 - 1)) with 2147483648. lia.
  - intros c Hc. unfold sexp_utf8_char_byte_count_safe.
    destruct (c <? 128); [reflexivity|]. destruct (c <? 2048); [reflexivity|]. destruct (c <? 65536); reflexivity.
  - intros c Hc. unfold sexp_utf8_encode_char_safe, in_s. change (2 ^ (32 - 1)) with 2147483648.
    destruct (cp_classes c Hc) as [K|[K|[K|K]]];
      [rewrite width_1|rewrite width_2|rewrite width_3|rewrite width_4]; try lia;
      cbn [Z.eqb Pos.eqb]; bits; lia.
Qed.

(** non-vacuity *)
Example truncated_ex : decode_at (encode 8364 ++ [0]) 0 3 = Some 8364 /\ decode_at (firstn 2 (encode 8364) ++ [0]) 0 2 = None
  /\ decode_at [240; 0] 0 1 = None /\ decode_at [65; 0] 0 1 = Some 65.
Proof. vm_compute. repeat split. Qed.

Example roundtrip_ex : decode_at (encode 128512 ++ [0]) 0 4 = Some 128512 /\ encode 955 = [206; 187]
  /\ wf_seq (encode 8364) /\ width 65536 = 4%nat.
Proof.
  split; [vm_compute; reflexivity|]. split; [vm_compute; reflexivity|]. split; [|vm_compute; reflexivity].
  apply encode_wellformed_scalar. unfold is_scalar. lia.
Qed.
