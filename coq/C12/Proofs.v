(** C12 — the string operations refine the code-point array.
    [Rep h s cs]: in heap [h] the string record [s] represents the array [cs]: the bytes from its
    offset are the concatenated encodings of [cs], its byte size is their length, and at least one
    more byte (the terminator slot) follows inside the store. *)
From Coq Require Import ZifyBool.
From ChibiV Require Import C12.Model C12.Spec C12.Utf8Proofs.
Local Open Scope Z_scope.

Ltac Zify.zify_post_hook ::= Z.div_mod_to_equations.

Definition enc_all (cs : list Z) : list Z := flat_map encode cs.

Definition Rep (h : heap) (s : str) (cs : list Z) : Prop :=
  Forall cp cs /\ (sbytes s < length h)%nat /\ ssize s = length (enc_all cs) /\
  exists post, sdata h s = enc_all cs ++ post /\ post <> [].

(* ---------------------------------------------------------------- lists *)
Lemma enc_all_app a b : enc_all (a ++ b) = enc_all a ++ enc_all b.
Proof. apply flat_map_app. Qed.

Lemma enc_all_cons c cs : enc_all (c :: cs) = encode c ++ enc_all cs.
Proof. reflexivity. Qed.

Lemma nth_app_len {A} (pre l : list A) k d : nth (length pre + k) (pre ++ l) d = nth k l d.
Proof. rewrite app_nth2 by lia. f_equal. lia. Qed.

Lemma byte_at_app pre l k : byte_at (pre ++ l) (length pre + k) = byte_at l k.
Proof. apply nth_app_len. Qed.

Lemma byte_at_app0 pre l : byte_at (pre ++ l) (length pre) = byte_at l 0.
Proof. rewrite <- (Nat.add_0_r (length pre)). apply byte_at_app. Qed.

Lemma encode_nonempty c : cp c -> (1 <= length (encode c))%nat.
Proof. intros H. rewrite encode_length by exact H. apply width_range; exact H. Qed.

(** the lead byte found at the start of an encoding announces its length *)
Lemma lead_at pre c rest : cp c ->
  lead_count (byte_at (pre ++ encode c ++ rest) (length pre)) = length (encode c).
Proof.
  intros H. rewrite byte_at_app0.
  destruct (utf8_roundtrip_all c H rest) as (_ & L & E). rewrite L, E. reflexivity.
Qed.

(** the clamp of string-set! does nothing when the announced sequence fits into the string *)
Lemma clamp_old_len_noop n avail : (n <= avail)%nat -> clamp_old_len n avail = n.
Proof. intros H. unfold clamp_old_len. destruct (avail <? n)%nat eqn:E; [apply Nat.ltb_lt in E; lia|reflexivity]. Qed.

Lemma clamp_old_len_cut n avail : (avail < n)%nat -> clamp_old_len n avail = avail.
Proof. intros H. unfold clamp_old_len. destruct (avail <? n)%nat eqn:E; [reflexivity|apply Nat.ltb_ge in E; lia]. Qed.

Lemma decode_at_app pre l rem : decode_at (pre ++ l) (length pre) rem = decode_at l 0 rem.
Proof.
  unfold decode_at. rewrite !byte_at_app. rewrite byte_at_app0. reflexivity.
Qed.

Lemma set_nth_length {A} n (x : A) l : length (set_nth n x l) = length l.
Proof. revert n; induction l as [|y l IH]; intros [|n]; cbn; auto. Qed.

Lemma nth_set_nth_eq {A} n (x d : A) l : (n < length l)%nat -> nth n (set_nth n x l) d = x.
Proof. revert n; induction l as [|y l IH]; intros [|n] H; cbn in *; try lia; auto. apply IH; lia. Qed.

Lemma nth_set_nth_neq {A} n m (x d : A) l : n <> m -> nth m (set_nth n x l) d = nth m l d.
Proof. revert n m; induction l as [|y l IH]; intros [|n] [|m] H; cbn; auto; try lia. Qed.

Lemma upd_app {A} (a : list A) x y b : upd (length a) y (a ++ x :: b) = a ++ y :: b.
Proof. induction a as [|z a IH]; cbn; [reflexivity|]. rewrite IH. reflexivity. Qed.

Lemma split_nth {A} (l : list A) i d : (i < length l)%nat ->
  l = firstn i l ++ nth i l d :: skipn (S i) l /\ length (firstn i l) = i.
Proof.
  revert i; induction l as [|x l IH]; intros [|i] H; cbn in *; try lia.
  - auto.
  - destruct (IH i) as [E L]; [lia|]. rewrite <- E. auto.
Qed.

(** overwrite replaces exactly the middle block *)
Lemma overwrite_app x y z pos src : length x = pos -> length y = length src ->
  overwrite (x ++ y ++ z) pos src = x ++ src ++ z.
Proof.
  intros <- L. unfold overwrite.
  assert (F : firstn (length x) (x ++ y ++ z) = x).
  { rewrite firstn_app, Nat.sub_diag, firstn_O, app_nil_r. apply firstn_all. }
  assert (S : skipn (length x + length src) (x ++ y ++ z) = z).
  { rewrite <- L. replace (length x + length y)%nat with (length (x ++ y)) by apply app_length.
    rewrite app_assoc, skipn_app, skipn_all, Nat.sub_diag. reflexivity. }
  rewrite F, S. apply firstn_all2. rewrite !app_length. lia.
Qed.

Lemma overwrite_app0 y z src : length y = length src -> overwrite (y ++ z) 0 src = src ++ z.
Proof. intros L. apply (overwrite_app [] y z 0 src); [reflexivity|exact L]. Qed.

(* ---------------------------------------------------------------- length *)
Lemma utf8_length_loop_spec cs : Forall cp cs -> forall pre post i fuel,
  (length (enc_all cs) <= fuel)%nat ->
  utf8_length_loop fuel (pre ++ enc_all cs ++ post) (length pre) (length pre + length (enc_all cs)) i
  = Ok (i + length cs)%nat.
Proof.
  induction 1 as [|c cs Hc Hcs IH]; intros pre post i fuel Hf.
  - cbn [enc_all flat_map length]. rewrite Nat.add_0_r, Nat.add_0_r.
    destruct fuel; cbn [utf8_length_loop]; rewrite Nat.ltb_irrefl; reflexivity.
  - rewrite enc_all_cons in *. rewrite app_length in *.
    pose proof (encode_nonempty c Hc) as Hn.
    destruct fuel as [|f]; [lia|]. cbn [utf8_length_loop].
    assert (L : (length pre <? length pre + (length (encode c) + length (enc_all cs)))%nat = true)
      by (apply Nat.ltb_lt; lia).
    rewrite L. rewrite <- app_assoc. rewrite lead_at by exact Hc.
    specialize (IH (pre ++ encode c) post (S i) f).
    rewrite app_length in IH. rewrite <- app_assoc in IH.
    rewrite Nat.add_assoc. rewrite IH by lia. f_equal. cbn [length]. lia.
Qed.

Theorem length_refines h s cs : Rep h s cs -> string_length h s = Ok (length cs).
Proof.
  intros (Hcp & _ & Hsz & post & Hd & _). unfold string_length, utf8_length. rewrite Hd, Hsz.
  apply (utf8_length_loop_spec cs Hcp [] post 0%nat). lia.
Qed.

(* ---------------------------------------------------------------- index -> cursor *)
Lemma i2c_loop_spec cs : Forall cp cs -> forall pre post i,
  i2c_loop (pre ++ enc_all cs ++ post) (length pre + length (enc_all cs)) i (length pre) =
  if (i <=? length cs)%nat then (0%nat, (length pre + length (enc_all (firstn i cs)))%nat)
  else ((i - length cs)%nat, (length pre + length (enc_all cs))%nat).
Proof.
  induction 1 as [|c cs Hc Hcs IH]; intros pre post i.
  - destruct i as [|i]; cbn [i2c_loop enc_all flat_map length firstn Nat.leb Nat.sub];
      rewrite ?Nat.add_0_r, ?Nat.ltb_irrefl; reflexivity.
  - destruct i as [|i].
    + cbn [i2c_loop firstn enc_all flat_map length Nat.leb]. rewrite Nat.add_0_r. reflexivity.
    + cbn [i2c_loop]. rewrite enc_all_cons, app_length.
      pose proof (encode_nonempty c Hc) as Hn.
      assert (L : (length pre <? length pre + (length (encode c) + length (enc_all cs)))%nat = true)
        by (apply Nat.ltb_lt; lia).
      rewrite L. rewrite <- app_assoc. rewrite lead_at by exact Hc.
      specialize (IH (pre ++ encode c) post i).
      rewrite app_length in IH. rewrite <- app_assoc in IH.
      rewrite Nat.add_assoc. rewrite IH.
      cbn [length firstn]. rewrite enc_all_cons, app_length.
      change (S i <=? S (length cs))%nat with (i <=? length cs)%nat.
      destruct (i <=? length cs)%nat; f_equal; lia.
Qed.

(** the byte offset of the i-th code point; an error exactly for i < 0 or i > length *)
Theorem index_to_cursor_refines h s cs i : Rep h s cs ->
  index_to_cursor h s i =
  if (0 <=? i) && (i <=? Z.of_nat (length cs)) then Ok (length (enc_all (firstn (Z.to_nat i) cs)))
  else Err RangeErr.
Proof.
  intros (Hcp & _ & Hsz & post & Hd & _). unfold index_to_cursor.
  destruct (i <? 0) eqn:Hi.
  - assert (E : (0 <=? i) = false) by lia. rewrite E. reflexivity.
  - assert (E : (0 <=? i) = true) by lia. rewrite E. cbn [andb].
    rewrite Hd, Hsz.
    pose proof (i2c_loop_spec cs Hcp [] post (Z.to_nat i)) as L. cbn [app length Nat.add] in L.
    rewrite L.
    destruct (Z.to_nat i <=? length cs)%nat eqn:Hle.
    + assert (E2 : (i <=? Z.of_nat (length cs)) = true) by lia. rewrite E2. reflexivity.
    + assert (E2 : (i <=? Z.of_nat (length cs)) = false) by lia. rewrite E2.
      destruct (Z.to_nat i - length cs =? 0)%nat eqn:Hz; [lia|reflexivity].
Qed.

(** cursors of prefixes: strictly inside the string for i < length *)
Lemma prefix_len_lt cs i : Forall cp cs -> (i < length cs)%nat ->
  (length (enc_all (firstn i cs)) < length (enc_all cs))%nat.
Proof.
  intros Hcp Hi. destruct (split_nth cs i 0 Hi) as [E _].
  rewrite E at 2. rewrite enc_all_app, enc_all_cons, !app_length.
  assert (cp (nth i cs 0)) by (apply Forall_forall with (l := cs); [exact Hcp|apply nth_In; exact Hi]).
  pose proof (encode_nonempty _ H). lia.
Qed.

(* ---------------------------------------------------------------- string-ref *)
Theorem ref_refines h s cs i : Rep h s cs ->
  string_ref h s i =
  if (0 <=? i) && (i <? Z.of_nat (length cs)) then Ok (nth (Z.to_nat i) cs 0) else Err RangeErr.
Proof.
  intros R. unfold string_ref. rewrite (index_to_cursor_refines h s cs i R).
  destruct R as (Hcp & _ & Hsz & post & Hd & _).
  destruct (0 <=? i) eqn:H0; cbn [andb]; [|reflexivity].
  destruct (i <=? Z.of_nat (length cs)) eqn:H1.
  - destruct (i <? Z.of_nat (length cs)) eqn:H2.
    + assert (Hi : (Z.to_nat i < length cs)%nat) by lia.
      pose proof (prefix_len_lt cs _ Hcp Hi) as Hlt.
      assert (E : (ssize s <=? length (enc_all (firstn (Z.to_nat i) cs)))%nat = false)
        by (apply Nat.leb_gt; lia).
      rewrite E, Hd.
      destruct (split_nth cs (Z.to_nat i) 0 Hi) as [Es _].
      rewrite Es at 1. rewrite enc_all_app, enc_all_cons, <- !app_assoc, decode_at_app.
      assert (Hc : cp (nth (Z.to_nat i) cs 0))
        by (apply Forall_forall with (l := cs); [exact Hcp|apply nth_In; exact Hi]).
      destruct (utf8_roundtrip_all _ Hc (enc_all (skipn (S (Z.to_nat i)) cs) ++ post)) as (D & _ & W).
      rewrite D; [reflexivity|].
      (* the whole encoding of character i lies inside the string: remaining >= its width *)
      assert (HL : length (enc_all cs) = Nat.add (length (enc_all (firstn (Z.to_nat i) cs)))
                (Nat.add (length (encode (nth (Z.to_nat i) cs 0))) (length (enc_all (skipn (S (Z.to_nat i)) cs)))))
        by (rewrite Es at 1; rewrite enc_all_app, enc_all_cons, !app_length; reflexivity).
      unfold remaining. rewrite Hsz, <- W. lia.
    + assert (Hi : Z.to_nat i = length cs) by lia.
      rewrite Hi, firstn_all.
      assert (E : (ssize s <=? length (enc_all cs))%nat = true) by (apply Nat.leb_le; lia).
      rewrite E. reflexivity.
  - assert (E : (i <? Z.of_nat (length cs)) = false) by lia. rewrite E. reflexivity.
Qed.

(* ---------------------------------------------------------------- string-set! *)
Lemma encode_char_width c : cp c -> sexp_utf8_encode_char (Z.of_nat (width c)) c = encode c.
Proof.
  intros H. unfold encode, width. rewrite Z2Nat.id; [reflexivity|].
  pose proof (width_range c H) as W. unfold width in W. lia.
Qed.

Lemma Rep_heap_app h q s cs : Rep h s cs -> Rep (h ++ [q]) s cs.
Proof.
  intros (Hcp & Hid & Hsz & post & Hd & Hp). repeat split; auto.
  - rewrite app_length. lia.
  - exists post. split; [|exact Hp]. unfold sdata, store in *. rewrite app_nth1 by exact Hid. exact Hd.
Qed.

Lemma Rep_set_nth_other h k x t cs : sbytes t <> k -> Rep h t cs -> Rep (set_nth k x h) t cs.
Proof.
  intros Hk (Hcp & Hid & Hsz & post & Hd & Hp). repeat split; auto.
  - rewrite set_nth_length. exact Hid.
  - exists post. split; [|exact Hp]. unfold sdata, store in *.
    rewrite nth_set_nth_neq by auto. exact Hd.
Qed.

(** the core of string-set!: [cs = a ++ x :: b], cursor = byte length of [a] *)
Lemma utf8_set_spec h s a x b c : Rep h s (a ++ x :: b) -> cp c ->
  let r := utf8_set h s (length (enc_all a)) c in
  Rep (fst r) (snd r) (a ++ c :: b) /\
  (* what must not change: every other store, and - when the store is replaced - this one too *)
  (forall k, (k < length h)%nat -> k <> sbytes s -> nth k (fst r) [] = nth k h []) /\
  (sbytes (snd r) <> sbytes s -> forall k, (k < length h)%nat -> nth k (fst r) [] = nth k h []) /\
  (* in place exactly when the width is unchanged and the string is not copy-on-write *)
  (sbytes (snd r) = sbytes s <-> (scow s = false /\ width c = width x)) /\
  (length h <= length (fst r))%nat.
Proof.
  intros (Hcp & Hid & Hsz & post & Hd & Hp) Hc r.
  assert (Hx : cp x).
  { apply Forall_app in Hcp. destruct Hcp as [_ Hxb]. inversion Hxb; assumption. }
  assert (Hcp' : Forall cp (a ++ c :: b)).
  { apply Forall_app in Hcp. destruct Hcp as [Ha Hxb]. apply Forall_app. split; [exact Ha|].
    inversion Hxb; subst. constructor; assumption. }
  rewrite enc_all_app, enc_all_cons in Hd, Hsz. rewrite <- !app_assoc in Hd.
  destruct post as [|t post']; [contradiction|].
  subst r. unfold utf8_set.
  rewrite (encode_char_width c Hc).
  rewrite Hd. rewrite (lead_at (enc_all a) x (enc_all b ++ t :: post') Hx).
  rewrite (clamp_old_len_noop (length (encode x)) (ssize s - length (enc_all a)))
    by (rewrite Hsz, !app_length; lia).
  rewrite <- (encode_length c Hc), <- (encode_length x Hx).
  set (la := length (enc_all a)). set (lx := length (encode x)). set (lc := length (encode c)).
  set (lb := length (enc_all b)).
  assert (Hsz' : ssize s = (la + (lx + lb))%nat) by (rewrite Hsz, !app_length; reflexivity).
  pose proof (encode_nonempty x Hx) as Hlx. pose proof (encode_nonempty c Hc) as Hlc.
  fold lx in Hlx. fold lc in Hlc.
  destruct (scow s || negb (lx =? lc)%nat) eqn:Hcase.
  - (* a new store *)
    cbn [fst snd sbytes].
    assert (Hlen : (ssize s + lc - lx = la + (lc + lb))%nat) by lia.
    rewrite Hlen.
    assert (Q : overwrite
                  (memcpy (memcpy (make_bytes (la + (lc + lb))) 0 (enc_all a ++ encode x ++ enc_all b ++ t :: post') la)
                     (la + lc) (skipn (la + lx) (enc_all a ++ encode x ++ enc_all b ++ t :: post'))
                     (la + (lc + lb) - la - lc + 1)) la (encode c)
                = enc_all a ++ encode c ++ enc_all b ++ [t]).
    { unfold memcpy, make_bytes.
      assert (F1 : firstn la (enc_all a ++ encode x ++ enc_all b ++ t :: post') = enc_all a).
      { unfold la. rewrite firstn_app, Nat.sub_diag, firstn_O, app_nil_r. apply firstn_all. }
      assert (F2 : firstn (la + (lc + lb) - la - lc + 1)
                     (skipn (la + lx) (enc_all a ++ encode x ++ enc_all b ++ t :: post')) = enc_all b ++ [t]).
      { replace (la + lx)%nat with (length (enc_all a ++ encode x)) by (rewrite app_length; reflexivity).
        rewrite (app_assoc (enc_all a) (encode x)), skipn_app, skipn_all, Nat.sub_diag. cbn [skipn app].
        replace (la + (lc + lb) - la - lc + 1)%nat with (lb + 1)%nat by lia.
        unfold lb. rewrite firstn_app, firstn_all2 by lia.
        replace (length (enc_all b) + 1 - length (enc_all b))%nat with 1%nat by lia. reflexivity. }
      rewrite F1, F2.
      replace (la + (lc + lb) + 1)%nat with (la + (lc + (lb + 1)))%nat by lia.
      remember (lb + 1)%nat as lb1 eqn:Elb1.
      rewrite !repeat_app.
      rewrite overwrite_app0 by (rewrite ?repeat_length; reflexivity).
      rewrite (app_assoc (enc_all a) (repeat 0 lc)).
      rewrite <- (app_nil_r (repeat 0 lb1)).
      rewrite (overwrite_app (enc_all a ++ repeat 0 lc) (repeat 0 lb1) [] (la + lc) (enc_all b ++ [t]))
        by (rewrite ?app_length, ?repeat_length; cbn [length]; fold la lb; lia).
      rewrite app_nil_r, <- app_assoc.
      apply overwrite_app; [reflexivity|rewrite repeat_length; reflexivity]. }
    rewrite Q.
    split; [|split; [|split; [|split]]].
    + repeat split; auto.
      * cbn [sbytes]. rewrite app_length. cbn. lia.
      * cbn [ssize]. rewrite enc_all_app, enc_all_cons, !app_length. reflexivity.
      * exists [t]. split; [|discriminate].
        unfold sdata, store. cbn [sbytes soff skipn].
        rewrite app_nth2 by lia. rewrite Nat.sub_diag. cbn [nth].
        rewrite enc_all_app, enc_all_cons, <- !app_assoc. reflexivity.
    + intros k Hk _. apply app_nth1; exact Hk.
    + intros _ k Hk. apply app_nth1; exact Hk.
    + split.
      * intros E. lia.
      * intros [E1 E2]. rewrite E1 in Hcase. cbn [orb] in Hcase.
        rewrite E2, Nat.eqb_refl in Hcase. discriminate.
    + rewrite app_length. lia.
  - (* in place *)
    apply orb_false_iff in Hcase. destruct Hcase as [Hcow Heq].
    apply negb_false_iff, Nat.eqb_eq in Heq.
    cbn [fst snd].
    assert (St : store h s = firstn (soff s) (store h s) ++ enc_all a ++ encode x ++ enc_all b ++ t :: post').
    { rewrite <- Hd. unfold sdata. symmetry. apply firstn_skipn. }
    assert (Lp : length (firstn (soff s) (store h s)) = soff s).
    { apply firstn_length_le.
      destruct (Nat.le_gt_cases (soff s) (length (store h s))) as [L|G]; [exact L|].
      unfold sdata in Hd. rewrite skipn_all2 in Hd by lia.
      apply (f_equal (@length Z)) in Hd. rewrite !app_length in Hd. cbn [length] in Hd. lia. }
    set (pre := firstn (soff s) (store h s)) in *.
    assert (Q : overwrite (store h s) (soff s + la) (encode c)
                = pre ++ enc_all a ++ encode c ++ enc_all b ++ t :: post').
    { rewrite St. rewrite (app_assoc pre (enc_all a)).
      rewrite (overwrite_app (pre ++ enc_all a) (encode x) _ (soff s + la) (encode c)).
      - rewrite <- app_assoc. reflexivity.
      - rewrite app_length, Lp. reflexivity.
      - fold lx lc. exact Heq. }
    rewrite Q.
    split; [|split; [|split; [|split]]].
    + repeat split; auto.
      * rewrite set_nth_length. exact Hid.
      * rewrite Hsz', enc_all_app, enc_all_cons, !app_length. fold la lc lb. lia.
      * exists (t :: post'). split; [|discriminate].
        unfold sdata, store. rewrite nth_set_nth_eq by exact Hid.
        rewrite <- Lp at 1. rewrite skipn_app, skipn_all, Nat.sub_diag. cbn [skipn app].
        rewrite enc_all_app, enc_all_cons, <- !app_assoc. reflexivity.
    + intros k Hk Hne. apply nth_set_nth_neq. auto.
    + intros Hne. contradiction Hne. reflexivity.
    + split; [|reflexivity]. intros _. split; [exact Hcow|]. lia.
    + rewrite set_nth_length. lia.
Qed.

(** string-set! refines the array update for every old/new width, position and offset; errors
    exactly outside [0, length) *)
Theorem set_refines h s cs i c : Rep h s cs -> cp c ->
  if (0 <=? i) && (i <? Z.of_nat (length cs)) then
    exists h' s', string_set h s i c = Ok (h', s') /\ Rep h' s' (upd (Z.to_nat i) c cs)
  else string_set h s i c = Err RangeErr.
Proof.
  intros R Hc. unfold string_set. rewrite (index_to_cursor_refines h s cs i R).
  pose proof R as (Hcp & _ & Hsz & post & Hd & _).
  destruct (0 <=? i) eqn:H0; cbn [andb]; [|reflexivity].
  destruct (i <=? Z.of_nat (length cs)) eqn:H1.
  - destruct (i <? Z.of_nat (length cs)) eqn:H2.
    + assert (Hi : (Z.to_nat i < length cs)%nat) by lia.
      pose proof (prefix_len_lt cs _ Hcp Hi) as Hlt.
      assert (E : (ssize s <=? length (enc_all (firstn (Z.to_nat i) cs)))%nat = false)
        by (apply Nat.leb_gt; lia).
      rewrite E.
      destruct (split_nth cs (Z.to_nat i) 0 Hi) as [Es El].
      rewrite Es in R.
      pose proof (utf8_set_spec h s _ _ _ c R Hc) as (R' & _).
      destruct (utf8_set h s (length (enc_all (firstn (Z.to_nat i) cs))) c) as [h' s'] eqn:U.
      exists h', s'. split; [reflexivity|].
      cbn [fst snd] in R'. rewrite Es. rewrite <- El at 1. rewrite upd_app. exact R'.
    + assert (Hi : Z.to_nat i = length cs) by lia.
      rewrite Hi, firstn_all.
      assert (E : (ssize s <=? length (enc_all cs))%nat = true) by (apply Nat.leb_le; lia).
      rewrite E. reflexivity.
  - assert (E : (i <? Z.of_nat (length cs)) = false) by lia. rewrite E. reflexivity.
Qed.

(** aliasing: string-set! on [s] leaves every string [t] living in another store as it was; and when
    the store of [s] is replaced (width change or copy-on-write) also the strings that shared the old
    store of [s] keep their contents.  Only the same-width in-place case writes into a shared store. *)
Theorem set_does_not_touch_other_strings h s cs i c h' s' t ct :
  Rep h s cs -> cp c -> string_set h s i c = Ok (h', s') -> Rep h t ct ->
  (sbytes t <> sbytes s \/ sbytes s' <> sbytes s) -> Rep h' t ct /\ sdata h' t = sdata h t.
Proof.
  intros R Hc S Rt Hne.
  pose proof (set_refines h s cs i c R Hc) as SR.
  unfold string_set in S. rewrite (index_to_cursor_refines h s cs i R) in S.
  pose proof R as (Hcp & _ & Hsz & _).
  destruct (0 <=? i) eqn:H0; cbn [andb] in *; [|discriminate].
  destruct (i <=? Z.of_nat (length cs)) eqn:H1; [|discriminate].
  destruct (i <? Z.of_nat (length cs)) eqn:H2.
  - assert (Hi : (Z.to_nat i < length cs)%nat) by lia.
    pose proof (prefix_len_lt cs _ Hcp Hi) as Hlt.
    assert (E : (ssize s <=? length (enc_all (firstn (Z.to_nat i) cs)))%nat = false)
      by (apply Nat.leb_gt; lia).
    rewrite E in S.
    destruct (split_nth cs (Z.to_nat i) 0 Hi) as [Es El].
    rewrite Es in R.
    pose proof (utf8_set_spec h s _ _ _ c R Hc) as (_ & O1 & O2 & _ & _).
    apply (f_equal (fun r => match r with Ok p => p | Err _ => (h, s) end)) in S. cbn beta iota in S.
    rewrite S in O1, O2. cbn [fst snd] in O1, O2.
    destruct Rt as (Tcp & Tid & Tsz & tpost & Td & Tp).
    assert (Hst : nth (sbytes t) h' [] = nth (sbytes t) h []).
    { destruct Hne as [N|N]; [apply O1; auto|apply O2; auto]. }
    assert (Hd' : sdata h' t = sdata h t) by (unfold sdata, store; rewrite Hst; reflexivity).
    split; [|exact Hd'].
    repeat split; auto.
    + pose proof (utf8_set_spec h s _ _ _ c R Hc) as (_ & _ & _ & _ & L).
      rewrite S in L. cbn [fst] in L. lia.
    + exists tpost. rewrite Hd'. auto.
  - assert (Hi : Z.to_nat i = length cs) by lia.
    rewrite Hi, firstn_all in S.
    assert (E : (ssize s <=? length (enc_all cs))%nat = true) by (apply Nat.leb_le; lia).
    rewrite E in S. discriminate.
Qed.

(* ---------------------------------------------------------------- non-vacuity *)
(** "aλ€😀z" stored at offset 2 of a shared bytevector, then every width class written at index 2 *)
Definition ex_heap : heap := [[120; 121; 97; 206; 187; 226; 130; 172; 240; 159; 152; 128; 122; 33; 0]].
Definition ex_str : str := mkstr 0 2 11 false.
Definition ex_cs : list Z := [97; 955; 8364; 128512; 122].

Lemma ex_rep : Rep ex_heap ex_str ex_cs.
Proof.
  repeat split.
  - repeat constructor; unfold cp; lia.
  - cbn. lia.
  - exists [33; 0]. split; [vm_compute; reflexivity|discriminate].
Qed.

Example ex_set_grow :
  match string_set ex_heap ex_str 2 128512 with
  | Ok (h', s') => slice h' s' = enc_all [97; 955; 128512; 128512; 122] /\ soff s' = 0%nat /\ sbytes s' = 1%nat
  | Err _ => False
  end.
Proof. vm_compute. auto. Qed.

Example ex_set_inplace :
  match string_set ex_heap ex_str 2 8365 with
  | Ok (h', s') => slice h' s' = enc_all [97; 955; 8365; 128512; 122] /\ soff s' = 2%nat /\ sbytes s' = 0%nat
  | Err _ => False
  end.
Proof. vm_compute. auto. Qed.

Example ex_ref : string_ref ex_heap ex_str 3 = Ok 128512 /\ string_length ex_heap ex_str = Ok 5%nat
  /\ index_to_cursor ex_heap ex_str 5 = Ok 11%nat /\ index_to_cursor ex_heap ex_str 6 = Err RangeErr.
Proof. vm_compute. auto. Qed.
