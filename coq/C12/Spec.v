(** C12 specification: a string is a list of code points; nothing here mentions bytes. *)
From Coq Require Export ZArith List Lia Bool.
From ChibiV Require Import C12.Model.     (* only for the syntax of operations [op] *)
Export ListNotations.
Local Open Scope Z_scope.

(** code points; Unicode scalar values are the code points that are not surrogates *)
Definition cp (c : Z) : Prop := 0 <= c <= 1114111.                         (* U+0000..U+10FFFF *)
Definition is_scalar (c : Z) : Prop := 0 <= c < 55296 \/ 57344 <= c <= 1114111.

Lemma scalar_cp c : is_scalar c -> cp c.
Proof. unfold is_scalar, cp. lia. Qed.

(** well-formed UTF-8 byte sequences, Unicode 15 Table 3-7, written out independently of the code *)
Definition cont (lo hi b : Z) : Prop := lo <= b <= hi.
Definition wf_seq (l : list Z) : Prop :=
  match l with
  | [b0] => 0 <= b0 <= 127
  | [b0; b1] => 194 <= b0 <= 223 /\ cont 128 191 b1
  | [b0; b1; b2] =>
      (b0 = 224 /\ cont 160 191 b1 /\ cont 128 191 b2) \/
      (225 <= b0 <= 236 /\ cont 128 191 b1 /\ cont 128 191 b2) \/
      (b0 = 237 /\ cont 128 159 b1 /\ cont 128 191 b2) \/
      (238 <= b0 <= 239 /\ cont 128 191 b1 /\ cont 128 191 b2)
  | [b0; b1; b2; b3] =>
      (b0 = 240 /\ cont 144 191 b1 /\ cont 128 191 b2 /\ cont 128 191 b3) \/
      (241 <= b0 <= 243 /\ cont 128 191 b1 /\ cont 128 191 b2 /\ cont 128 191 b3) \/
      (b0 = 244 /\ cont 128 143 b1 /\ cont 128 191 b2 /\ cont 128 191 b3)
  | _ => False
  end.

(** the code point a well-formed sequence denotes (Unicode Table 3-6) *)
Definition seq_value (l : list Z) : Z :=
  match l with
  | [b0] => b0
  | [b0; b1] => (b0 - 192) * 64 + (b1 - 128)
  | [b0; b1; b2] => (b0 - 224) * 4096 + (b1 - 128) * 64 + (b2 - 128)
  | [b0; b1; b2; b3] => (b0 - 240) * 262144 + (b1 - 128) * 4096 + (b2 - 128) * 64 + (b3 - 128)
  | _ => 0
  end.

(** the array operations *)
Fixpoint upd {A} (i : nat) (x : A) (l : list A) : list A :=
  match l, i with
  | [], _ => []
  | _ :: r, O => x :: r
  | y :: r, S i' => y :: upd i' x r
  end.

Definition sub {A} (a b : nat) (l : list A) : list A := firstn (b - a) (skipn a l).

(** string-join: the strings with the separator between each two neighbours *)
Fixpoint intercalate {A} (sep : list A) (ls : list (list A)) : list A :=
  match ls with
  | [] => []
  | x :: rest => match rest with [] => x | _ :: _ => x ++ sep ++ intercalate sep rest end
  end.

(** specification state: one code-point array per string variable *)
Definition sstate : Type := list (list Z).
Definition svar (st : sstate) (v : nat) : list Z := nth v st [].

Definition spec_step (st : sstate) (o : op) : option sstate :=
  match o with
  | OSet v i c =>
      if (v <? length st)%nat && (0 <=? i) && (i <? Z.of_nat (length (svar st v)))
      then Some (upd v (upd (Z.to_nat i) c (svar st v)) st) else None
  | OSubstring v a b =>
      let n := Z.of_nat (length (svar st v)) in
      let e := match b with Some e => e | None => n end in
      if (v <? length st)%nat && (0 <=? a) && (a <=? e) && (e <=? n)
      then Some (st ++ [sub (Z.to_nat a) (Z.to_nat e) (svar st v)]) else None
  | OAppend vs =>
      if forallb (fun v => (v <? length st)%nat) vs
      then Some (st ++ [concat (map (svar st) vs)]) else None
  | OCopy v =>
      if (v <? length st)%nat then Some (st ++ [svar st v]) else None
  | OMake n c => Some (st ++ [repeat c n])
  | OLit cs => Some (st ++ [cs])
  end.

Definition spec_run (st : sstate) (ops : list op) : sstate :=
  fold_left (fun st o => match spec_step st o with Some st' => st' | None => st end) ops st.
