(** C12 round 4 — the two SPECIFIED outcomes on ill-formed input (after /repo's "fix: peek-char does not push
    back an exception object, and a UTF-8 sequence cut off by end of input is an error instead of being
    decoded from EOF"):
      * a byte 0x80..0xBF or 0xF8..0xFF where a character should start: read-char and peek-char raise,
        exactly that one byte is consumed, nothing is pushed back;
      * a stream that ends inside a 2/3/4-byte character (after 1 .. width-1 of its bytes): read-char and
        peek-char raise, the bytes of the cut character are consumed, nothing is pushed back, the port is at
        end of file afterwards;
    for every position of those bytes relative to the buffer end / refill boundary and every schedule of
    read(2) answers.  (The decoder stays lenient about the VALUES of continuation bytes: nothing is claimed
    there.) *)
From Coq Require Import ZifyBool.
From ChibiV Require Import C12.Model C12.Spec C12.Utf8Proofs C12.Proofs C12.Proofs2 C12.PortModel C12.PortProofs.
Local Open Scope Z_scope.
Ltac Zify.zify_post_hook ::= Z.div_mod_to_equations.

(** [n] continuation bytes are wanted but only [t] (fewer) are left before end of input *)
Lemma read_cont_truncated n : forall p i t, port_ok p -> pending p = t -> (length t < n)%nat ->
  Forall (fun b => 0 <= b < 256) t ->
  exists p', read_cont n p i = (None, p') /\ port_ok p' /\ pending p' = [].
Proof.
  induction n as [|n IH]; intros p i t OK P L F; [lia|].
  cbn [read_cont]. destruct t as [|b t].
  - destruct (read_byte_eof p OK P) as (p1 & R1 & O1 & P1). rewrite R1.
    assert (E : (-1 =? -1) = true) by reflexivity. rewrite E. exists p1. auto.
  - inversion F as [|? ? Hb Ft]; subst.
    destruct (read_byte_some p b t OK P) as (p1 & R1 & O1 & P1 & _). rewrite R1.
    assert (E : (b =? -1) = false) by lia. rewrite E.
    apply (IH p1 _ t O1 P1); [cbn [length] in L; lia|exact Ft].
Qed.

Lemma firstn_cons_S {A} (x : A) l k : firstn (S k) (x :: l) = x :: firstn k l.
Proof. reflexivity. Qed.

(** the lead byte of a multi-byte character and how many continuation bytes read_utf8_char then wants *)
Lemma read_utf8_truncated p c i t k : port_ok p -> cp c -> 128 <= c -> encode c = i :: t ->
  (k < length t)%nat -> pending p = firstn k t ->
  exists p', read_utf8_char p i = (None, p') /\ port_ok p' /\ pending p' = [].
Proof.
  intros OK Hc H128 He Hk P.
  pose proof (encode_bytes c Hc) as FB. rewrite He in FB. inversion FB as [|? ? Hi Ft]; subst.
  assert (Fk : Forall (fun b => 0 <= b < 256) (firstn k t)) by (apply Forall_firstn'; exact Ft).
  assert (Lk : length (firstn k t) = k) by (rewrite firstn_length; lia).
  unfold read_utf8_char.
  destruct (cp_classes c Hc) as [K|[K|[K|K]]]; [lia| | |].
  - rewrite (encode_2 c K) in He. assert (Ei : i = 192 + c / 64) by congruence.
    assert (Et : t = [128 + c mod 64]) by congruence. subst i t.
    assert (E1 : (192 + c / 64 <? 192) || (247 <? 192 + c / 64) = false) by lia. rewrite E1.
    assert (E2 : (192 + c / 64 <? 224) = true) by lia. rewrite E2.
    apply (read_cont_truncated 1 p _ _ OK P); [cbn [length] in *; lia|exact Fk].
  - rewrite (encode_3 c K) in He. assert (Ei : i = 224 + c / 4096) by congruence.
    assert (Et : t = [128 + (c / 64) mod 64; 128 + c mod 64]) by congruence. subst i t.
    assert (E1 : (224 + c / 4096 <? 192) || (247 <? 224 + c / 4096) = false) by lia. rewrite E1.
    assert (E2 : (224 + c / 4096 <? 224) = false) by lia. rewrite E2.
    assert (E3 : (224 + c / 4096 <? 240) = true) by lia. rewrite E3.
    apply (read_cont_truncated 2 p _ _ OK P); [cbn [length] in *; lia|exact Fk].
  - rewrite (encode_4 c K) in He. assert (Ei : i = 240 + c / 262144) by congruence.
    assert (Et : t = [128 + (c / 4096) mod 64; 128 + (c / 64) mod 64; 128 + c mod 64]) by congruence. subst i t.
    unfold cp in Hc.
    assert (E1 : (240 + c / 262144 <? 192) || (247 <? 240 + c / 262144) = false) by lia. rewrite E1.
    assert (E2 : (240 + c / 262144 <? 224) = false) by lia. rewrite E2.
    assert (E3 : (240 + c / 262144 <? 240) = false) by lia. rewrite E3.
    apply (read_cont_truncated 3 p _ _ OK P); [cbn [length] in *; lia|exact Fk].
Qed.

(** A STREAM THAT ENDS INSIDE A CHARACTER: the first k bytes (0 < k < width c) of the encoding of [c] and
    then end of input.  read-char and peek-char raise; the cut bytes are consumed; nothing is pushed back. *)
Theorem truncated_sequence_is_error p c k : port_ok p -> cp c -> (0 < k < width c)%nat ->
  pending p = firstn k (encode c) ->
  (exists p', read_char p = (RBad, p') /\ port_ok p' /\ pending p' = []) /\
  (exists p', peek_char p = (RBad, p') /\ port_ok p' /\ pending p' = []).
Proof.
  intros OK Hc Hk P.
  destruct (encode c) as [|i t] eqn:He.
  { pose proof (encode_nonempty c Hc) as N. rewrite He in N. cbn in N. lia. }
  pose proof (encode_length c Hc) as L. rewrite He in L. cbn [length] in L.
  destruct k as [|k]; [lia|]. rewrite firstn_cons_S in P.
  destruct (read_byte_some p i _ OK P) as (p1 & R1 & O1 & P1 & _).
  assert (H128 : 128 <= c).
  { destruct (cp_classes c Hc) as [K|K]; [|lia]. rewrite (encode_1 c K) in He.
    assert (t = []) by congruence. subst t. cbn [length] in L. lia. }
  assert (Hi : 192 <= i < 248).
  { unfold cp in Hc. destruct (cp_classes c Hc) as [K|[K|[K|K]]]; [lia| | |];
      [rewrite (encode_2 c K) in He|rewrite (encode_3 c K) in He|rewrite (encode_4 c K) in He];
      [assert (Ei : i = 192 + c / 64) by congruence|assert (Ei : i = 224 + c / 4096) by congruence
      |assert (Ei : i = 240 + c / 262144) by congruence]; lia. }
  destruct (read_utf8_truncated p1 c i t k O1 Hc H128 He ltac:(lia) P1) as (p2 & R2 & O2 & P2).
  assert (E1 : (i =? -1) = false) by lia. assert (E2 : (128 <=? i) = true) by lia.
  split; [unfold read_char|unfold peek_char]; rewrite R1, E1, E2, R2; exists p2; auto.
Qed.

(** A BYTE THAT CANNOT START A CHARACTER: 0x80..0xBF (a stray continuation byte) or 0xF8..0xFF.
    read-char and peek-char raise; exactly that byte is consumed (peek-char included: the exception is not
    pushed back); whatever follows stays pending. *)
Theorem invalid_lead_byte_is_error p b rest : port_ok p -> pending p = b :: rest ->
  128 <= b < 192 \/ 248 <= b < 256 ->
  (exists p', read_char p = (RBad, p') /\ port_ok p' /\ pending p' = rest) /\
  (exists p', peek_char p = (RBad, p') /\ port_ok p' /\ pending p' = rest).
Proof.
  intros OK P Hb.
  destruct (read_byte_some p b rest OK P) as (p1 & R1 & O1 & P1 & _).
  assert (E1 : (b =? -1) = false) by lia. assert (E2 : (128 <=? b) = true) by lia.
  assert (E3 : (b <? 192) || (247 <? b) = true) by lia.
  split; [unfold read_char|unfold peek_char]; rewrite R1, E1, E2; unfold read_utf8_char; rewrite E3; exists p1; auto.
Qed.

(** read-string and read-line hand the exception on (the loop is left) *)
Corollary read_string_on_invalid_lead n p b rest : port_ok p -> pending p = b :: rest ->
  128 <= b < 192 \/ 248 <= b < 256 -> exists p', read_string (S n) p = (Err Utf8Err, p') /\ pending p' = rest.
Proof.
  intros OK P Hb. destruct (invalid_lead_byte_is_error p b rest OK P Hb) as [_ (p1 & R1 & _ & P1)].
  unfold read_string. cbn [read_string_loop]. rewrite R1. exists p1. auto.
Qed.

Corollary read_line_on_truncated n p c k : port_ok p -> cp c -> (0 < k < width c)%nat ->
  pending p = firstn k (encode c) -> exists p', read_line n p = (Err Utf8Err, p') /\ pending p' = [].
Proof.
  intros OK Hc Hk P. destruct (truncated_sequence_is_error p c k OK Hc Hk P) as [_ (p1 & R1 & _ & P1)].
  unfold read_line. cbn [read_line_loop]. rewrite R1. exists p1. auto.
Qed.

(** the euro sign cut after 2 of its 3 bytes, the port refilling one byte at a time; a stray continuation byte *)
Example ex_truncated :
  let p := open_fd_port 8 [97; 226; 130] [1; 1; 1]%nat in
  let '(a, p1) := read_char p in
  let '(b, p2) := peek_char p1 in
  let '(c, p3) := read_char p2 in
  (a, b, c) = (RChar 97, RBad, REof) /\ pending p2 = [].
Proof. vm_compute. auto. Qed.

Example ex_invalid_lead :
  let p := open_string_port [128; 206; 187] in
  let '(a, p1) := peek_char p in
  let '(b, p2) := read_char p1 in
  (a, b) = (RBad, RChar 955) /\ pending p1 = [206; 187].
Proof. vm_compute. auto. Qed.
