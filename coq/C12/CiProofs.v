(** C12 round 4 — case-insensitive comparison: the two implementations of string-ci=? ... refine the
    lexicographic comparison of FOLDED code-point arrays, for two different foldings:

    (A) core (chibi) string-ci*? (sexp_string_cmp_op with ci, tolower on bytes) : [ascii_fold], A..Z only;
    (B) (scheme char) string-ci*? (string-foldcase of both, then string-cmp)     : [string_foldcase_cps],
        chibi's char-foldcase-map and special-cases tables (regenerated: Gen/C12_CaseFold.v), whose two
        binary searches are proved to find every entry and nothing else. *)
From ChibiV Require Import C12.Model C12.Spec C12.Utf8Proofs C12.Proofs C12.Proofs2 C12.PortModel C12.PortProofs
  C12.RangeModel C12.OutProofs C12.CmpProofs C12.CiModel.
Local Open Scope Z_scope.
Ltac Zify.zify_post_hook ::= Z.div_mod_to_equations.

(* ===================================================================================== *)
(** * (A) the core string-ci*? : ASCII folding *)

(** SPEC: fold A..Z to a..z, nothing else *)
Definition ascii_fold (c : Z) : Z := if (65 <=? c) && (c <=? 90) then c + 32 else c.

Lemma ascii_fold_cp c : cp c -> cp (ascii_fold c).
Proof. unfold cp, ascii_fold. intros H. destruct ((65 <=? c) && (c <=? 90)) eqn:E; lia. Qed.

Lemma tolower_high b : 128 <= b -> tolower_c b = b.
Proof. intros H. unfold tolower_c. replace (b <=? 90) with false by lia. rewrite Bool.andb_false_r. reflexivity. Qed.

(** (A1) per character: tolower on the BYTES of the encoding = the encoding of the folded character
    (all the bytes of a multi-byte character are >= 128) *)
Lemma encode_ascii_fold c : cp c -> encode (ascii_fold c) = map tolower_c (encode c).
Proof.
  intros H. destruct (cp_classes c H) as [K|[K|[K|K]]].
  - rewrite (encode_1 c K). cbn [map]. change (tolower_c c) with (ascii_fold c).
    apply encode_1. unfold ascii_fold. destruct ((65 <=? c) && (c <=? 90)) eqn:E; lia.
  - assert (E : ascii_fold c = c) by (unfold ascii_fold; replace (c <=? 90) with false by lia; rewrite Bool.andb_false_r; reflexivity).
    rewrite E, (encode_2 c K). cbn [map]. rewrite !tolower_high by lia. reflexivity.
  - assert (E : ascii_fold c = c) by (unfold ascii_fold; replace (c <=? 90) with false by lia; rewrite Bool.andb_false_r; reflexivity).
    rewrite E, (encode_3 c K). cbn [map]. rewrite !tolower_high by lia. reflexivity.
  - assert (E : ascii_fold c = c) by (unfold ascii_fold; replace (c <=? 90) with false by lia; rewrite Bool.andb_false_r; reflexivity).
    rewrite E, (encode_4 c K). cbn [map]. rewrite !tolower_high by lia. reflexivity.
Qed.

Theorem enc_all_ascii_fold cs : Forall cp cs -> enc_all (map ascii_fold cs) = map tolower_c (enc_all cs).
Proof.
  induction 1 as [|c r Hc _ IH]; [reflexivity|].
  cbn [map]. rewrite !enc_all_cons, map_app, IH, (encode_ascii_fold c Hc). reflexivity.
Qed.

(** the ci loop = memcmp of the tolower'ed data *)
Lemma memcmp_ci_map n : forall a b, memcmp_ci a b n = memcmp (map tolower_c a) (map tolower_c b) n.
Proof.
  induction n as [|n IH]; intros a b; cbn [memcmp_ci memcmp]; [reflexivity|].
  assert (B : forall l, byte_at (map tolower_c l) 0 = tolower_c (byte_at l 0)) by (intros [|x l]; reflexivity).
  assert (T : forall l, tl (map tolower_c l) = map tolower_c (tl l)) by (intros [|x l]; reflexivity).
  rewrite !B, !T, <- IH.
  destruct (tolower_c (byte_at a 0) - tolower_c (byte_at b 0) =? 0) eqn:E.
  - replace (tolower_c (byte_at a 0) =? tolower_c (byte_at b 0)) with true by lia. reflexivity.
  - replace (tolower_c (byte_at a 0) =? tolower_c (byte_at b 0)) with false by lia. reflexivity.
Qed.

Lemma lex_eq_iff a : forall b, lex a b = Eq <-> a = b.
Proof.
  induction a as [|x a IH]; intros [|y b]; cbn [lex]; split; intros H; try discriminate; try reflexivity.
  - destruct (Z.compare_spec x y); try discriminate. subst. f_equal. apply IH. exact H.
  - inversion H; subst. rewrite Z.compare_refl. apply IH. reflexivity.
Qed.

(** (A2) core string-ci*? : the sign of (string-cmp s1 s2 #t) is the lexicographic comparison of the
    ASCII-folded code-point arrays — only A..Z are folded, whatever the other characters are *)
Theorem string_cmp_ci_refines h s1 s2 cs1 cs2 : Rep h s1 cs1 -> Rep h s2 cs2 ->
  (string_cmp_ci h s1 s2 ?= 0) = lex (map ascii_fold cs1) (map ascii_fold cs2).
Proof.
  intros (F1 & _ & Z1 & p1 & D1 & _) (F2 & _ & Z2 & p2 & D2 & _). unfold string_cmp_ci.
  rewrite memcmp_ci_map, D1, D2, !map_app, <- !enc_all_ascii_fold by assumption.
  assert (L1 : ssize s1 = length (enc_all (map ascii_fold cs1))) by (rewrite enc_all_ascii_fold, map_length by assumption; exact Z1).
  assert (L2 : ssize s2 = length (enc_all (map ascii_fold cs2))) by (rewrite enc_all_ascii_fold, map_length by assumption; exact Z2).
  rewrite L1, L2.
  rewrite <- (lex_enc_all (map ascii_fold cs1)) by (apply Forall_map; revert F1 + revert F2; apply Forall_impl; exact ascii_fold_cp).
  apply (memcmp_lex (enc_all (map ascii_fold cs1)) (enc_all (map ascii_fold cs2))).
Qed.

Corollary string_ci_eq_refines h s1 s2 cs1 cs2 : Rep h s1 cs1 -> Rep h s2 cs2 ->
  (string_cmp_ci h s1 s2 = 0 <-> map ascii_fold cs1 = map ascii_fold cs2).
Proof.
  intros R1 R2. rewrite <- lex_eq_iff, <- (string_cmp_ci_refines h s1 s2 cs1 cs2 R1 R2). split.
  - intros ->. reflexivity.
  - apply Z.compare_eq.
Qed.

(* ===================================================================================== *)
(** * (B1) the tables and their binary searches *)

Definition cpb (c : Z) : bool := (0 <=? c) && (c <=? 1114111).
Lemma cpb_cp c : cpb c = true -> cp c.
Proof. unfold cpb, cp. lia. Qed.

Fixpoint sorted_keys {A} (m : list (Z * A)) : bool :=
  match m with
  | (k1, _) :: ((k2, _) :: _) as r => (k1 <? k2) && sorted_keys r
  | _ => true
  end.

(** sanity of the regenerated tables, by computation: sizes, strictly increasing keys, code points *)
Lemma foldcase_map_sane :
  length foldcase_map = foldcase_map_len /\ sorted_keys foldcase_map = true /\
  forallb (fun kv => cpb (fst kv) && cpb (snd kv)) foldcase_map = true.
Proof. vm_compute. auto. Qed.

Lemma special_fold_sane :
  length special_fold = special_fold_len /\ sorted_keys special_fold = true /\
  forallb (fun ks => cpb (fst ks) && forallb cpb (snd ks)) special_fold = true.
Proof. vm_compute. auto. Qed.

(** ** bsearch-kv, generically *)

Lemma vref_some {A} (v : list A) i : 0 <= i < Z.of_nat (length v) -> exists x, vref v i = Some x.
Proof.
  intros H. unfold vref. replace (i <? 0) with false by lia.
  destruct (nth_error v (Z.to_nat i)) as [x|] eqn:E; [eauto|].
  apply nth_error_None in E. lia.
Qed.

(** never a vector reference out of range, never out of fuel *)
Lemma bsearch_kv_ok vec n : forall fuel lo hi, 0 <= lo -> hi <= Z.of_nat (length vec) - 2 ->
  (1 <= fuel)%nat -> hi - lo < 2 * Z.of_nat fuel - 2 ->
  exists r, bsearch_kv fuel vec n lo hi = Ok r.
Proof.
  induction fuel as [|f IH]; intros lo hi Hlo Hhi H1 Hf; cbn [bsearch_kv].
  - lia.
  - destruct (lo <=? hi) eqn:E; [|eauto]. apply Z.leb_le in E.
    rewrite (Z.quot_div_nonneg (hi - lo) 4) by lia.
    set (mid := lo + (hi - lo) / 4 * 2).
    assert (Hm : lo <= mid <= hi) by (unfold mid; lia).
    destruct (vref_some vec mid) as (m & Em); [lia|]. rewrite Em.
    destruct (n =? m).
    + destruct (vref_some vec (mid + 1)) as (v & Ev); [lia|]. rewrite Ev. eauto.
    + destruct (n <? m); apply IH; lia.
Qed.

Lemma flat_kv_pair (m : list (Z * Z)) : forall k x y,
  nth_error (flat_kv m) (2 * k) = Some x -> nth_error (flat_kv m) (2 * k + 1) = Some y -> In (x, y) m.
Proof.
  induction m as [|[a b] m IH]; intros k x y Hx Hy.
  - destruct k; discriminate.
  - destruct k as [|k].
    + cbn in Hx, Hy. inversion Hx; inversion Hy; subst. left; reflexivity.
    + replace (2 * S k)%nat with (S (S (2 * k))) in Hx by lia.
      replace (2 * S k + 1)%nat with (S (S (2 * k + 1))) in Hy by lia.
      cbn [flat_kv flat_map app nth_error fst snd] in Hx, Hy. right. apply (IH k); assumption.
Qed.

(** what it returns is an entry of the table (no sortedness needed for this direction) *)
Lemma bsearch_kv_sound m n v : forall fuel lo hi, (exists k, lo = 2 * k) -> 0 <= lo ->
  bsearch_kv fuel (flat_kv m) n lo hi = Ok (Some v) -> In (n, v) m.
Proof.
  induction fuel as [|f IH]; intros lo hi (k & Hk) Hlo H; cbn [bsearch_kv] in H; [discriminate|].
  destruct (lo <=? hi) eqn:E; [|discriminate]. apply Z.leb_le in E.
  rewrite (Z.quot_div_nonneg (hi - lo) 4) in H by lia.
  set (q := (hi - lo) / 4) in *.
  assert (Hq : 0 <= q) by (unfold q; lia).
  replace (lo + q * 2) with (2 * (k + q)) in H by lia.
  unfold vref in H. replace (2 * (k + q) <? 0) with false in H by lia.
  replace (2 * (k + q) + 1 <? 0) with false in H by lia.
  replace (Z.to_nat (2 * (k + q))) with (2 * Z.to_nat (k + q))%nat in H by lia.
  replace (Z.to_nat (2 * (k + q) + 1)) with (2 * Z.to_nat (k + q) + 1)%nat in H by lia.
  destruct (nth_error (flat_kv m) (2 * Z.to_nat (k + q))) as [x|] eqn:Ex; [|discriminate].
  destruct (n =? x) eqn:En.
  - apply Z.eqb_eq in En. subst x.
    destruct (nth_error (flat_kv m) (2 * Z.to_nat (k + q) + 1)) as [y|] eqn:Ey; [|discriminate].
    inversion H; subst y. apply (flat_kv_pair m (Z.to_nat (k + q))); assumption.
  - destruct (n <? x).
    + apply (IH lo (2 * (k + q) - 2)); [exists k; exact Hk|exact Hlo|exact H].
    + apply (IH (2 * (k + q) + 2) hi); [exists (k + q + 1); lia|lia|exact H].
Qed.

Lemma flat_kv_length (m : list (Z * Z)) : length (flat_kv m) = (2 * length m)%nat.
Proof. induction m as [|kv m IH]; cbn [flat_kv flat_map app length] in *; [reflexivity|]. unfold flat_kv in IH. rewrite IH. lia. Qed.

(** the search of char-foldcase never raises ... *)
Lemma foldcase_lookup_ok c : exists r, foldcase_lookup c = Ok r.
Proof. unfold foldcase_lookup. apply bsearch_kv_ok; lia. Qed.

(** ... finds EVERY entry of the table (by computation over the whole table: an off-by-one in the
    search or an unsorted table shows up here) ... *)
Lemma foldcase_lookup_complete_b :
  forallb (fun kv => match foldcase_lookup (fst kv) with Ok (Some v) => v =? snd kv | _ => false end) foldcase_map = true.
Proof. vm_compute. reflexivity. Qed.

Lemma keys_unique {A} (m : list (Z * A)) : sorted_keys m = true ->
  forall k v w, In (k, v) m -> In (k, w) m -> v = w.
Proof.
  assert (LB : forall (r : list (Z * A)) k0 a0, sorted_keys ((k0, a0) :: r) = true -> forall k v, In (k, v) r -> k0 < k).
  { induction r as [|[k1 a1] r IH]; intros k0 a0 S k v I; [destruct I|].
    cbn [sorted_keys] in S. apply Bool.andb_true_iff in S. destruct S as [S1 S2]. apply Z.ltb_lt in S1.
    destruct I as [I|I]; [inversion I; subst; exact S1|]. specialize (IH k1 a1 S2 k v I). lia. }
  induction m as [|[k0 a0] r IH]; intros S k v w Iv Iw; [destruct Iv|].
  assert (S' : sorted_keys r = true).
  { destruct r as [|[k1 a1] r']; [reflexivity|]. cbn [sorted_keys] in S. apply Bool.andb_true_iff in S. apply S. }
  destruct Iv as [Iv|Iv]; destruct Iw as [Iw|Iw].
  - congruence.
  - inversion Iv; subst. pose proof (LB r _ _ S k w Iw). lia.
  - inversion Iw; subst. pose proof (LB r _ _ S k v Iv). lia.
  - apply (IH S' k v w Iv Iw).
Qed.

(** THE TABLE THEOREM for char-foldcase: on a key of char-foldcase-map its value, else the character itself *)
Theorem char_foldcase_in k v : In (k, v) foldcase_map -> char_foldcase k = v.
Proof.
  intros I. pose proof foldcase_lookup_complete_b as C. rewrite forallb_forall in C. specialize (C (k, v) I).
  cbn [fst snd] in C. unfold char_foldcase. destruct (foldcase_lookup k) as [[x|]|]; try discriminate. lia.
Qed.

Theorem char_foldcase_notin k : ~ In k (map fst foldcase_map) -> char_foldcase k = k.
Proof.
  intros N. unfold char_foldcase. destruct (foldcase_lookup_ok k) as (r & E). rewrite E.
  destruct r as [v|]; [|reflexivity]. exfalso. apply N.
  unfold foldcase_lookup, foldcase_vec in E. apply bsearch_kv_sound in E; [|exists 0; lia|lia].
  apply (in_map fst) in E. exact E.
Qed.

Lemma char_foldcase_cp c : cp c -> cp (char_foldcase c).
Proof.
  intros H. destruct (in_dec Z.eq_dec c (map fst foldcase_map)) as [I|N].
  - apply in_map_iff in I. destruct I as ([k v] & E & I). cbn [fst] in E. subst k.
    rewrite (char_foldcase_in c v I).
    destruct foldcase_map_sane as (_ & _ & F). rewrite forallb_forall in F. specialize (F (c, v) I).
    cbn [fst snd] in F. apply Bool.andb_true_iff in F. apply cpb_cp, F.
  - rewrite (char_foldcase_notin c N). exact H.
Qed.

(** ** char-get-special-case, generically *)

Lemma special_search_ok tab i : forall fuel a b, 0 <= a < Z.of_nat (length tab) -> a <= b <= Z.of_nat (length tab) ->
  b - a < Z.of_nat fuel -> exists r, special_search fuel tab i a b = Ok r.
Proof.
  induction fuel as [|f IH]; intros a b Ha Hb Hf; [lia|]. cbn [special_search].
  rewrite (Z.quot_div_nonneg (b - a) 2) by lia.
  set (mid := a + (b - a) / 2).
  assert (Hm : a <= mid <= b /\ (a < b -> mid < b)) by (unfold mid; lia).
  destruct (vref_some tab mid) as ([val s] & Em); [lia|]. rewrite Em.
  destruct (i <? val).
  - destruct (mid <? b) eqn:E; [|eauto]. apply IH; lia.
  - destruct (val <? i); [|eauto]. destruct (a <? mid) eqn:E; [|eauto]. apply IH; lia.
Qed.

Lemma special_search_sound tab i s : forall fuel a b,
  special_search fuel tab i a b = Ok (Some s) -> In (i, s) tab.
Proof.
  induction fuel as [|f IH]; intros a b H; cbn [special_search] in H; [discriminate|].
  destruct (vref tab (a + Z.quot (b - a) 2)) as [[val t]|] eqn:Em; [|discriminate].
  destruct (i <? val) eqn:E1.
  - destruct (a + Z.quot (b - a) 2 <? b); [eapply IH; exact H|discriminate].
  - destruct (val <? i) eqn:E2.
    + destruct (a <? a + Z.quot (b - a) 2); [eapply IH; exact H|discriminate].
    + inversion H; subst t. assert (i = val) by lia. subst val.
      unfold vref in Em. destruct (_ <? 0); [discriminate|]. eapply nth_error_In; exact Em.
Qed.

Lemma special_lookup_ok c : exists r, special_lookup c = Ok r.
Proof.
  unfold special_lookup. apply special_search_ok; try lia.
  destruct special_fold_sane as (L & _). rewrite L. unfold special_fold_len. lia.
Qed.

Lemma special_lookup_complete_b :
  forallb (fun ks => match special_lookup (fst ks) with
                     | Ok (Some s) => if list_eq_dec Z.eq_dec s (snd ks) then true else false
                     | _ => false end) special_fold = true.
Proof. vm_compute. reflexivity. Qed.

(** THE TABLE THEOREM for char-get-special-case: on a code of special-cases its (fold, else lower) string, else #f *)
Theorem special_case_fold_in k s : In (k, s) special_fold -> special_case_fold k = Some s.
Proof.
  intros I. pose proof special_lookup_complete_b as C. rewrite forallb_forall in C. specialize (C (k, s) I).
  cbn [fst snd] in C. unfold special_case_fold. destruct (special_lookup k) as [[x|]|]; try discriminate.
  destruct (list_eq_dec Z.eq_dec x s); [congruence|discriminate].
Qed.

Theorem special_case_fold_notin k : ~ In k (map fst special_fold) -> special_case_fold k = None.
Proof.
  intros N. unfold special_case_fold. destruct (special_lookup_ok k) as (r & E). rewrite E.
  destruct r as [s|]; [|reflexivity]. exfalso. apply N.
  unfold special_lookup in E. apply special_search_sound in E. apply (in_map fst) in E. exact E.
Qed.

Lemma special_case_fold_some k s : special_case_fold k = Some s -> In (k, s) special_fold.
Proof.
  unfold special_case_fold, special_lookup. intros H.
  destruct (special_search _ special_fold k 0 _) as [r|] eqn:E; [|discriminate]. subst r.
  eapply special_search_sound; exact E.
Qed.

(** the two searches as plain association-list lookups (first match in source order) *)
Definition assoc {A} (k : Z) (m : list (Z * A)) : option A :=
  match find (fun kv => fst kv =? k) m with Some kv => Some (snd kv) | None => None end.

Theorem char_foldcase_spec c : char_foldcase c = match assoc c foldcase_map with Some v => v | None => c end.
Proof.
  unfold assoc. destruct (find (fun kv => fst kv =? c) foldcase_map) as [[k v]|] eqn:E.
  - apply find_some in E. destruct E as [I E]. cbn [fst] in E. apply Z.eqb_eq in E. subst k.
    cbn [snd]. apply char_foldcase_in. exact I.
  - apply char_foldcase_notin. intros I. apply in_map_iff in I. destruct I as ([k v] & Ek & I). cbn [fst] in Ek. subst k.
    pose proof (find_none _ _ E (c, v) I) as N. cbn [fst] in N. lia.
Qed.

Theorem special_case_fold_spec c : special_case_fold c = assoc c special_fold.
Proof.
  unfold assoc. destruct (find (fun kv => fst kv =? c) special_fold) as [[k s]|] eqn:E.
  - apply find_some in E. destruct E as [I E]. cbn [fst] in E. apply Z.eqb_eq in E. subst k.
    cbn [snd]. apply special_case_fold_in. exact I.
  - apply special_case_fold_notin. intros I. apply in_map_iff in I. destruct I as ([k s] & Ek & I). cbn [fst] in Ek. subst k.
    pose proof (find_none _ _ E (c, s) I) as N. cbn [fst] in N. lia.
Qed.

(** string-foldcase produces code points *)
Lemma fold_char_cp c : cp c -> Forall cp (fold_char c).
Proof.
  intros H. unfold fold_char. destruct (special_case_fold c) as [s|] eqn:E.
  - apply special_case_fold_some in E.
    destruct special_fold_sane as (_ & _ & F). rewrite forallb_forall in F. specialize (F (c, s) E).
    cbn [fst snd] in F. apply Bool.andb_true_iff in F. destruct F as [_ F]. rewrite forallb_forall in F.
    apply Forall_forall. intros x Hx. apply cpb_cp, F, Hx.
  - constructor; [apply char_foldcase_cp; exact H|constructor].
Qed.

Lemma string_foldcase_cps_cp cs : Forall cp cs -> Forall cp (string_foldcase_cps cs).
Proof.
  induction 1 as [|c r Hc _ IH]; [constructor|].
  unfold string_foldcase_cps in *. cbn [flat_map]. apply Forall_app. split; [apply fold_char_cp; exact Hc|exact IH].
Qed.

(* ===================================================================================== *)
(** * (B2) string-foldcase on the bytes = the encoding of the folded code points *)

Lemma enc_all_length_ge cs : Forall cp cs -> (length cs <= length (enc_all cs))%nat.
Proof.
  induction 1 as [|c r Hc _ IH]; [cbn; lia|].
  rewrite enc_all_cons, app_length. pose proof (encode_nonempty c Hc). cbn [length]. lia.
Qed.

Lemma foldcase_loop_spec cs : forall fuel p o, Forall cp cs -> port_ok p -> pending p = enc_all cs -> oport_ok o ->
  (length cs < fuel)%nat ->
  exists o', foldcase_loop fuel p o = Ok o' /\ oport_ok o' /\
             out_bytes o' = out_bytes o ++ enc_all (string_foldcase_cps cs).
Proof.
  induction cs as [|c cs IH]; intros fuel p o F Hp Pp Ho Hf; (destruct fuel as [|fuel]; [cbn [length] in Hf; lia|]); cbn [foldcase_loop].
  - destruct (read_peek_eof p Hp Pp) as ((p' & R & _) & _). rewrite R.
    exists o. split; [reflexivity|]. split; [exact Ho|]. cbn. rewrite app_nil_r. reflexivity.
  - inversion F as [|? ? Hc Fcs]; subst. rewrite enc_all_cons in Pp.
    destruct (read_char_spec p c (enc_all cs) Hp Hc Pp) as (p' & R & Hp' & Pp'). rewrite R.
    assert (W : exists o1, (match special_case_fold c with
                            | Some s => write_bytes o (enc_bytes s)
                            | None => write_char o (char_foldcase c) end) = Ok o1 /\ oport_ok o1 /\
                           out_bytes o1 = out_bytes o ++ enc_all (fold_char c)).
    { unfold fold_char. destruct (special_case_fold c) as [s|].
      - apply (write_bytes_spec o (enc_bytes s) Ho).
      - assert (HC : cp (char_foldcase c)) by (apply char_foldcase_cp; exact Hc).
        generalize dependent (char_foldcase c). intros d HC.
        destruct (write_char_spec o d Ho HC) as (o1 & W1 & O1 & B1).
        exists o1. split; [exact W1|]. split; [exact O1|]. rewrite B1. cbn [enc_all flat_map]. rewrite app_nil_r. reflexivity. }
    destruct W as (o1 & W1 & O1 & B1). rewrite W1.
    destruct (IH fuel p' o1 Fcs Hp' Pp' O1) as (o' & L & O' & B'); [cbn [length] in Hf; lia|].
    exists o'. split; [exact L|]. split; [exact O'|].
    rewrite B', B1. unfold string_foldcase_cps. cbn [flat_map]. rewrite enc_all_app, app_assoc. reflexivity.
Qed.

(** (string-foldcase str): for every string (any offsets, shared stores), any size >= 1 of the output
    port's buffer, the result's bytes are the UTF-8 encoding of the folded code points; no error arises *)
Theorem string_foldcase_refines bufsize h s cs : Rep h s cs -> (1 <= bufsize)%nat ->
  string_foldcase bufsize h s = Ok (enc_all (string_foldcase_cps cs)).
Proof.
  intros R B. unfold string_foldcase. rewrite (slice_rep h s cs R).
  destruct (open_string_port_ok (enc_all cs)) as [Hp Pp].
  destruct (open_output_string_ok bufsize B) as [Ho Bo].
  pose proof R as (F & _ & Z & _).
  destruct (foldcase_loop_spec cs (S (ssize s)) _ _ F Hp Pp Ho) as (o' & L & _ & B').
  { rewrite Z. pose proof (enc_all_length_ge cs F). lia. }
  rewrite L, B', Bo. reflexivity.
Qed.

(* ===================================================================================== *)
(** * (B3) (scheme char) string-ci*? *)

(** the sign of what (scheme char)'s string-ci=? string-ci<? ... compare against 0 is the lexicographic
    comparison of the two FOLDED code-point arrays (full folding: the special cases expand, e.g. ß -> ss) *)
Theorem string_ci_full_refines bufsize h s1 s2 cs1 cs2 : Rep h s1 cs1 -> Rep h s2 cs2 -> (1 <= bufsize)%nat ->
  exists z, string_ci_cmp_full bufsize h s1 s2 = Ok z /\
            (z ?= 0) = lex (string_foldcase_cps cs1) (string_foldcase_cps cs2).
Proof.
  intros R1 R2 B. unfold string_ci_cmp_full.
  rewrite (string_foldcase_refines bufsize h s1 cs1 R1 B), (string_foldcase_refines bufsize h s2 cs2 R2 B).
  eexists. split; [reflexivity|].
  pose proof R1 as (F1 & _). pose proof R2 as (F2 & _).
  rewrite <- (lex_enc_all _ (string_foldcase_cps_cp cs1 F1) _ (string_foldcase_cps_cp cs2 F2)).
  unfold bytes_cmp. apply (memcmp_lex (enc_all (string_foldcase_cps cs1)) (enc_all (string_foldcase_cps cs2)) [0] [0]).
Qed.

Corollary string_ci_full_eq_refines bufsize h s1 s2 cs1 cs2 : Rep h s1 cs1 -> Rep h s2 cs2 -> (1 <= bufsize)%nat ->
  exists z, string_ci_cmp_full bufsize h s1 s2 = Ok z /\
            (z = 0 <-> string_foldcase_cps cs1 = string_foldcase_cps cs2).
Proof.
  intros R1 R2 B. destruct (string_ci_full_refines bufsize h s1 s2 cs1 cs2 R1 R2 B) as (z & E & C).
  exists z. split; [exact E|]. rewrite <- lex_eq_iff, <- C. split; [intros ->; reflexivity|apply Z.compare_eq].
Qed.

(* ===================================================================================== *)
(** * Examples (by computation, on multi-byte cased data) *)

(** what chibi's tables give for some characters *)
Example ex_char_foldcase :
  char_foldcase 65 = 97 /\ char_foldcase 913 = 945 /\            (* A -> a, U+0391 ALPHA -> U+03B1 *)
  char_foldcase 223 = 223 /\ fold_char 223 = [115; 115] /\      (* ß: char-foldcase keeps it, string-foldcase -> "ss" *)
  char_foldcase 7838 = 223 /\ fold_char 7838 = [115; 115] /\    (* U+1E9E CAPITAL SHARP S -> ß / "ss" *)
  char_foldcase 304 = 304 /\ fold_char 304 = [105; 775] /\      (* U+0130 I WITH DOT: not in the map; string: i + U+0307 *)
  char_foldcase 66560 = 66600 /\                                (* U+10400 DESERET LONG I -> U+10428 *)
  char_foldcase 8490 = 107 /\                                   (* U+212A KELVIN SIGN -> k *)
  char_foldcase 931 = 963 /\ char_foldcase 962 = 963 /\         (* SIGMA, FINAL SIGMA -> sigma *)
  char_foldcase 1114111 = 1114111.
Proof. vm_compute. repeat split. Qed.

(** stores (NUL-terminated): "ΑΒΓ" "αβγ" "Straße" "STRASSE" U+10400 U+10428 *)
Definition ex_heap : heap :=
  [[206; 145; 206; 146; 206; 147; 0]; [206; 177; 206; 178; 206; 179; 0];
   [83; 116; 114; 97; 195; 159; 101; 0]; [83; 84; 82; 65; 83; 83; 69; 0];
   [240; 144; 144; 128; 0]; [240; 144; 144; 168; 0]].

(** the CORE string-ci=? folds ASCII letters only: "ΑΒΓ" and "αβγ" differ for it (and "Straße"/"STRASSE"
    too), while they are equal for (scheme char)'s string-ci=? *)
Example core_string_ci_folds_ascii_only :
  string_cmp_ci ex_heap (mkstr 0 0 6 false) (mkstr 1 0 6 false) <> 0 /\
  string_ci_cmp_full 3 ex_heap (mkstr 0 0 6 false) (mkstr 1 0 6 false) = Ok 0 /\
  string_cmp_ci ex_heap (mkstr 2 0 7 false) (mkstr 3 0 7 false) <> 0 /\
  string_cmp_ci ex_heap (mkstr 3 0 4 false) (mkstr 2 0 4 false) = 0 /\        (* "STRA" / "Stra" *)
  (* the very numbers the real (string-cmp a b #t) returns: 0x91 - 0xB1, 0xC3 - 's' *)
  string_cmp_ci ex_heap (mkstr 0 0 6 false) (mkstr 1 0 6 false) = -32 /\
  string_cmp_ci ex_heap (mkstr 2 0 7 false) (mkstr 3 0 7 false) = 80.
Proof. vm_compute. repeat split; discriminate. Qed.

Example full_string_ci_examples :
  string_foldcase 2 ex_heap (mkstr 2 0 7 false) = Ok [115; 116; 114; 97; 115; 115; 101] /\   (* "strasse" *)
  string_ci_cmp_full 2 ex_heap (mkstr 2 0 7 false) (mkstr 3 0 7 false) = Ok 0 /\            (* "Straße" = "STRASSE" *)
  string_foldcase 1 ex_heap (mkstr 4 0 4 false) = Ok [240; 144; 144; 168] /\                (* U+10400 -> U+10428 *)
  string_ci_cmp_full 1 ex_heap (mkstr 4 0 4 false) (mkstr 5 0 4 false) = Ok 0 /\
  (exists z, string_ci_cmp_full 4 ex_heap (mkstr 0 0 6 false) (mkstr 2 0 7 false) = Ok z /\ z > 0).  (* "αβγ" > "strasse" *)
Proof. vm_compute. repeat split. eexists; split; reflexivity. Qed.

Print Assumptions enc_all_ascii_fold.
Print Assumptions string_cmp_ci_refines.
Print Assumptions string_ci_eq_refines.
Print Assumptions foldcase_map_sane.
Print Assumptions special_fold_sane.
Print Assumptions foldcase_lookup_ok.
Print Assumptions char_foldcase_in.
Print Assumptions char_foldcase_notin.
Print Assumptions special_case_fold_in.
Print Assumptions special_case_fold_notin.
Print Assumptions char_foldcase_spec.
Print Assumptions special_case_fold_spec.
Print Assumptions string_foldcase_refines.
Print Assumptions string_ci_full_refines.
Print Assumptions string_ci_full_eq_refines.
Print Assumptions core_string_ci_folds_ascii_only.
Print Assumptions full_string_ci_examples.
