(** C12 — cursors and UTF-8 bytevector conversions. *)
From Coq Require Import ZifyBool.
From ChibiV Require Import C12.Model C12.Spec C12.Utf8Proofs C12.Proofs C12.Proofs2.
Local Open Scope Z_scope.

(** the valid cursors of a string are the byte lengths of the prefixes of its array *)
Definition cursor_of (cs : list Z) (k : nat) : nat := length (enc_all (firstn k cs)).

Lemma firstn_S_nth {A} (l : list A) k d : (k < length l)%nat -> firstn (S k) l = firstn k l ++ [nth k l d].
Proof.
  revert k; induction l as [|x l IH]; intros [|k] H; cbn [length] in H; try lia; [reflexivity|].
  cbn [firstn nth app]. f_equal. apply IH. lia.
Qed.

Lemma cursor_of_S cs k : Forall cp cs -> (k < length cs)%nat ->
  cs = firstn k cs ++ nth k cs 0 :: skipn (S k) cs /\
  cursor_of cs (S k) = (cursor_of cs k + length (encode (nth k cs 0%Z)))%nat /\ cp (nth k cs 0).
Proof.
  intros Hcp Hk. destruct (split_nth cs k 0 Hk) as [E L]. split; [exact E|]. split.
  - unfold cursor_of. rewrite (firstn_S_nth cs k 0 Hk), enc_all_app, app_length.
    cbn [enc_all flat_map]. rewrite app_nil_r. reflexivity.
  - apply Forall_forall with (l := cs); [exact Hcp|apply nth_In; exact Hk].
Qed.

(** string-cursor-next moves from the k-th character to the (k+1)-th *)
Theorem cursor_next_refines h s cs k : Rep h s cs -> (k < length cs)%nat ->
  cursor_next h s (cursor_of cs k) = cursor_of cs (S k).
Proof.
  intros (Hcp & _ & _ & post & Hd & _) Hk.
  destruct (cursor_of_S cs k Hcp Hk) as (E & ES & Hc). rewrite ES.
  unfold cursor_next. f_equal. rewrite Hd. rewrite E at 1. unfold cursor_of.
  rewrite enc_all_app, enc_all_cons, <- !app_assoc. apply lead_at. exact Hc.
Qed.

Lemma prev_loop_conts t : Forall (fun b => Z.shiftr b 6 = 2) t -> forall p r,
  utf8_prev_loop (p ++ t ++ r) (length p + length t) = utf8_prev_loop (p ++ t ++ r) (length p).
Proof.
  induction t as [|b t IH] using rev_ind; intros F p r.
  - cbn [length]. rewrite Nat.add_0_r. reflexivity.
  - apply Forall_app in F. destruct F as [Ft Fb]. inversion Fb as [|? ? Hb _]; subst.
    rewrite app_length. cbn [length]. replace (length p + (length t + 1))%nat with (S (length p + length t)) by lia.
    cbn [utf8_prev_loop].
    assert (B : byte_at (p ++ (t ++ [b]) ++ r) (length p + length t) = b).
    { rewrite byte_at_app. rewrite <- app_assoc. rewrite <- (Nat.add_0_r (length t)). rewrite byte_at_app. reflexivity. }
    rewrite B, Hb. cbn [Z.eqb Pos.eqb]. rewrite <- app_assoc. apply IH. exact Ft.
Qed.

(** string-cursor-prev moves from the (k+1)-th character back to the k-th, without leaving the string *)
Theorem cursor_prev_refines h s cs k : Rep h s cs -> (k < length cs)%nat ->
  cursor_prev h s (cursor_of cs (S k)) = Ok (Z.of_nat (cursor_of cs k)).
Proof.
  intros (Hcp & _ & _ & post & Hd & _) Hk.
  destruct (cursor_of_S cs k Hcp Hk) as (E & ES & Hc). rewrite ES.
  unfold cursor_prev.
  assert (St : store h s = firstn (soff s) (store h s) ++ sdata h s) by (unfold sdata; symmetry; apply firstn_skipn).
  assert (Lp : length (firstn (soff s) (store h s)) = soff s).
  { apply firstn_length_le.
    destruct (Nat.le_gt_cases (soff s) (length (store h s))) as [L|G]; [exact L|].
    unfold sdata in Hd. rewrite skipn_all2 in Hd by lia.
    apply (f_equal (@length Z)) in Hd. rewrite E in Hd. rewrite enc_all_app, enc_all_cons, !app_length in Hd.
    pose proof (encode_nonempty _ Hc). cbn [length] in Hd. lia. }
  set (pre := firstn (soff s) (store h s)) in *.
  set (x := nth k cs 0) in *.
  destruct (encode_shape x Hc) as [Hlead Hcont].
  destruct (encode x) as [|b0 t] eqn:Ex; [pose proof (encode_nonempty x Hc) as N; rewrite Ex in N; cbn in N; lia|].
  cbn [hd tl] in Hlead, Hcont.
  assert (Sx : store h s = (pre ++ enc_all (firstn k cs) ++ [b0]) ++ t ++ (enc_all (skipn (S k) cs) ++ post)).
  { rewrite St, Hd. rewrite E at 1. rewrite enc_all_app, enc_all_cons, Ex. cbn [app].
    rewrite <- ?app_assoc. cbn [app]. rewrite <- ?app_assoc. reflexivity. }
  replace (soff s + (cursor_of cs k + length (b0 :: t)))%nat
    with (length (pre ++ enc_all (firstn k cs) ++ [b0]) + length t)%nat
    by (rewrite !app_length, Lp; unfold cursor_of; cbn [length]; lia).
  rewrite Sx. rewrite prev_loop_conts by exact Hcont.
  rewrite (app_assoc pre), app_length. cbn [length].
  replace (length (pre ++ enc_all (firstn k cs)) + 1)%nat with (S (length (pre ++ enc_all (firstn k cs)))) by lia.
  cbn [utf8_prev_loop].
  assert (B : byte_at (((pre ++ enc_all (firstn k cs)) ++ [b0]) ++ t ++ enc_all (skipn (S k) cs) ++ post)
                (length (pre ++ enc_all (firstn k cs))) = b0).
  { rewrite <- !app_assoc. rewrite (app_assoc pre). rewrite byte_at_app0. reflexivity. }
  rewrite B. destruct (Z.shiftr b0 6 =? 2) eqn:Q; [apply Z.eqb_eq in Q; contradiction|].
  f_equal. rewrite app_length, Lp. unfold cursor_of. lia.
Qed.

Theorem cursor_next_prev_inverse h s cs k : Rep h s cs -> (k < length cs)%nat ->
  cursor_prev h s (cursor_next h s (cursor_of cs k)) = Ok (Z.of_nat (cursor_of cs k)).
Proof. intros R Hk. rewrite (cursor_next_refines h s cs k R Hk). apply cursor_prev_refines; assumption. Qed.

(** string-cursor->index counts the characters before a valid cursor *)
Theorem cursor_to_index_refines h s cs k : Rep h s cs -> (k <= length cs)%nat ->
  cursor_to_index h s (Z.of_nat (cursor_of cs k)) = Ok k.
Proof.
  intros (Hcp & _ & Hsz & post & Hd & _) Hk. unfold cursor_to_index.
  assert (L : (cursor_of cs k <= ssize s)%nat).
  { rewrite Hsz. unfold cursor_of.
    replace (length (enc_all cs)) with (length (enc_all (firstn (length cs) cs))) by (rewrite firstn_all; reflexivity).
    apply prefix_len_le; auto. }
  assert (C : (Z.of_nat (cursor_of cs k) <? 0) || (Z.of_nat (ssize s) <? Z.of_nat (cursor_of cs k)) = false) by lia.
  assert (Ec : enc_all cs = enc_all (firstn k cs) ++ enc_all (skipn k cs))
    by (rewrite <- enc_all_app, firstn_skipn; reflexivity).
  rewrite C, Nat2Z.id. unfold utf8_length. rewrite Hd, Ec, <- app_assoc.
  pose proof (utf8_length_loop_spec (firstn k cs) (Forall_firstn' cp k cs Hcp) [] (enc_all (skipn k cs) ++ post) 0%nat
                (cursor_of cs k)) as U.
  cbn [app length Nat.add] in U. unfold cursor_of in *. rewrite U by lia.
  rewrite firstn_length. f_equal. lia.
Qed.

(* ---------------------------------------------------------------- UTF-8 bytevectors *)
(** utf8->string! : a string sharing bytevector [bv] from [start] to [end_] represents [cs] when those
    bytes are the encodings of [cs] (and the bytevector object has its terminator slot after them) *)
Theorem of_utf8_shared_rep h bv pre cs post : (bv < length h)%nat -> Forall cp cs ->
  nth bv h [] = pre ++ enc_all cs ++ post -> post <> [] ->
  Rep h (of_utf8_shared bv (length pre) (length pre + length (enc_all cs))) cs.
Proof.
  intros Hb Hcp Hs Hp. unfold of_utf8_shared. repeat split; auto.
  - cbn [ssize]. lia.
  - exists post. split; [|exact Hp]. unfold sdata, store. cbn [sbytes soff]. rewrite Hs.
    rewrite skipn_app, skipn_all, Nat.sub_diag. reflexivity.
Qed.

(** string->utf8 copies exactly the encodings of the characters into a fresh bytevector *)
Theorem to_utf8_refines h s cs : Rep h s cs ->
  to_utf8 h s = (h ++ [enc_all cs ++ [0]], length h).
Proof.
  intros (Hcp & _ & Hsz & post & Hd & _). unfold to_utf8.
  rewrite (new_string_from_spec h (sdata h s) (ssize s) (enc_all cs) post Hd (eq_sym Hsz)). reflexivity.
Qed.

(** utf8->string after string->utf8 gives a string with the same characters *)
Theorem to_utf8_of_utf8 h s cs : Rep h s cs ->
  let '(h1, bv) := to_utf8 h s in
  exists q s', of_utf8 h1 bv 0 (length (enc_all cs)) = Ok (h1 ++ [q], s') /\ Rep (h1 ++ [q]) s' cs.
Proof.
  intros R. rewrite (to_utf8_refines h s cs R).
  pose proof R as (Hcp & _).
  assert (Rs : Rep (h ++ [enc_all cs ++ [0]]) (of_utf8_shared (length h) 0 (length (enc_all cs))) cs).
  { apply (of_utf8_shared_rep (h ++ [enc_all cs ++ [0]]) (length h) [] cs [0]); auto.
    - rewrite app_length. cbn. lia.
    - rewrite app_nth2 by lia. rewrite Nat.sub_diag. reflexivity.
    - discriminate. }
  unfold of_utf8.
  destruct (string_copy_refines _ _ _ Rs) as (q & s' & S & _ & R'). exists q, s'. split; assumption.
Qed.

Example cursor_ex : cursor_next ex_heap ex_str 3 = 6%nat /\ cursor_prev ex_heap ex_str 10 = Ok 6
  /\ cursor_to_index ex_heap ex_str 10 = Ok 4%nat /\ cursor_of ex_cs 3 = 6%nat.
Proof. vm_compute. auto. Qed.
