(** C12 round 4 — case-insensitive string comparison (executable model, no proofs in this file).

    chibi has TWO implementations behind the same names string-ci=? string-ci<? ... :

    (A) the core (chibi) one                     lib/init-7.scm:641-645  (string-cmp s1 s2 #t)
        sexp_string_cmp_op, ci arm               eval.c:2003-2018
          for (diff=0, i=0; i<len && !diff; i++)
            diff = tolower((unsigned char)d1[i]) - tolower((unsigned char)d2[i]);
          if (! diff) diff = len1 - len2;
        chibi never calls setlocale: tolower is the "C" locale's, 'A'..'Z' -> +32, identity on every other
        byte — in particular on all the bytes >= 0x80 of multi-byte characters.  ASCII folding only.

    (B) the (scheme char) one with full-unicode  lib/scheme/char/full.scm
          (string-cmp-ci op a ls) = (op (string-foldcase a) (string-foldcase b))      :152-164
          string-foldcase = (string-down-or-fold-case str #t)                        :110-136
          char-get-special-case                                                      :74-84
          char-foldcase / bsearch-kv                                                 :10-21, 47-50
        tables: Gen/C12_CaseFold.v, regenerated on every run from lib/scheme/char/case-offsets.scm
        (char-foldcase-map) and lib/scheme/char/special-casing.scm (special-cases).

    Vector references are modelled with [nth_error]: an index outside the vector is [Err RangeErr]
    (the Scheme raises), running out of fuel is [Err FuelErr]; CiProofs.v proves neither happens. *)
From ChibiV Require Export C12.RangeModel Gen.C12_CaseFold.
Local Open Scope Z_scope.

(* ------------------------------------------------------------------------------------- *)
(** * (A) sexp_string_cmp_op with ci *)

(** tolower in the "C" locale, on an unsigned char *)
Definition tolower_c (b : Z) : Z := if (65 <=? b) && (b <=? 90) then b + 32 else b.

(** the loop: the first non-zero difference of the tolower'ed bytes among the first [n], else 0 *)
Fixpoint memcmp_ci (a b : list Z) (n : nat) : Z :=
  match n with
  | O => 0
  | S n' => let x := tolower_c (byte_at a 0) in let y := tolower_c (byte_at b 0) in
            if x - y =? 0 then memcmp_ci (tl a) (tl b) n' else x - y
  end.

Definition string_cmp_ci (h : heap) (s1 s2 : str) : Z :=
  let len := Nat.min (ssize s1) (ssize s2) in
  let d := memcmp_ci (sdata h s1) (sdata h s2) len in
  if d =? 0 then Z.of_nat (ssize s1) - Z.of_nat (ssize s2) else d.

(* ------------------------------------------------------------------------------------- *)
(** * (B) the tables and their two binary searches *)

(** the flat vector #(key value key value ...) *)
Definition flat_kv (m : list (Z * Z)) : list Z := flat_map (fun kv => [fst kv; snd kv]) m.

Definition vref {A} (v : list A) (i : Z) : option A := if i <? 0 then None else nth_error v (Z.to_nat i).

(** (define (bsearch-kv vec n lo hi)
      (and (<= lo hi)
           (let* ((mid (+ lo ( * (quotient (- hi lo) 4) 2))) (m (vector-ref vec mid)))
             (cond ((= n m) (integer->char (vector-ref vec (+ mid 1))))
                   ((< n m) (bsearch-kv vec n lo (- mid 2)))
                   (else (bsearch-kv vec n (+ mid 2) hi))))))          [Ok None] = #f *)
Fixpoint bsearch_kv (fuel : nat) (vec : list Z) (n lo hi : Z) : res (option Z) :=
  match fuel with
  | O => Err FuelErr
  | S f =>
      if lo <=? hi then
        let mid := lo + Z.quot (hi - lo) 4 * 2 in
        match vref vec mid with
        | None => Err RangeErr
        | Some m =>
            if n =? m then match vref vec (mid + 1) with Some v => Ok (Some v) | None => Err RangeErr end
            else if n <? m then bsearch_kv f vec n lo (mid - 2)
            else bsearch_kv f vec n (mid + 2) hi
        end
      else Ok None
  end.

Definition foldcase_vec : list Z := flat_kv foldcase_map.

Definition foldcase_lookup (c : Z) : res (option Z) :=
  bsearch_kv (S (length foldcase_vec)) foldcase_vec c 0 (Z.of_nat (length foldcase_vec) - 2).

(** (define (char-foldcase ch) (or (bsearch-kv char-foldcase-map (char->integer ch) 0 (- len 2)) ch));
    -1 = the search raised (proved impossible: CiProofs.foldcase_lookup_ok) *)
Definition char_foldcase (c : Z) : Z :=
  match foldcase_lookup c with
  | Ok (Some v) => v
  | Ok None => c
  | Err _ => -1
  end.

(** char-get-special-case with off = 4; the column selection
    (vector-ref vec (if (>= off (vector-length vec)) 1 off)) is done by the table translator.
      (let lp ((a 0) (b (vector-length special-cases)))
        (let* ((mid (+ a (quotient (- b a) 2))) (vec (vector-ref special-cases mid)) (val (vector-ref vec 0)))
          (cond ((< i val) (and (< mid b) (lp a mid)))
                ((> i val) (and (> mid a) (lp mid b)))
                (else (vector-ref vec ...)))))                           [Ok None] = #f *)
Fixpoint special_search (fuel : nat) (tab : list (Z * list Z)) (i a b : Z) : res (option (list Z)) :=
  match fuel with
  | O => Err FuelErr
  | S f =>
      let mid := a + Z.quot (b - a) 2 in
      match vref tab mid with
      | None => Err RangeErr
      | Some (val, s) =>
          if i <? val then (if mid <? b then special_search f tab i a mid else Ok None)
          else if val <? i then (if a <? mid then special_search f tab i mid b else Ok None)
          else Ok (Some s)
      end
  end.

Definition special_lookup (c : Z) : res (option (list Z)) :=
  special_search (S (S (length special_fold))) special_fold c 0 (Z.of_nat (length special_fold)).

Definition special_case_fold (c : Z) : option (list Z) :=
  match special_lookup c with Ok r => r | Err _ => None end.

(** one character of string-foldcase: the special-case string, else (char-foldcase ch) *)
Definition fold_char (c : Z) : list Z :=
  match special_case_fold c with
  | Some s => s
  | None => [char_foldcase c]
  end.

(** string-foldcase on code points *)
Definition string_foldcase_cps (cs : list Z) : list Z := flat_map fold_char cs.

(* ------------------------------------------------------------------------------------- *)
(** * (B) string-foldcase on the bytes: read-char from a string port, write to a string port *)

(** [enc_bytes]: the bytes of a special-case string literal.  The reader stores the (shortest-form)
    UTF-8 bytes of the source text: the encoding of its code points. *)
Definition enc_bytes (cs : list Z) : list Z := flat_map encode cs.

(** (let lp () (let ((ch (read-char in)))
       (cond ((not (eof-object? ch))
              (cond ((char-get-special-case ch 4) => (lambda (s) (write-string s out)))     ; = (display s out)
                    (else (write-char (char-foldcase ch) out)))
              (lp)))))
    An exception of read-char (invalid lead byte, truncated sequence) leaves the loop: [Err Utf8Err]. *)
Fixpoint foldcase_loop (fuel : nat) (p : iport) (o : oport) : res oport :=
  match fuel with
  | O => Err FuelErr
  | S f =>
      match read_char p with
      | (REof, _) => Ok o
      | (RBad, _) => Err Utf8Err
      | (RChar c, p') =>
          match (match special_case_fold c with
                 | Some s => write_bytes o (enc_bytes s)
                 | None => write_char o (char_foldcase c)
                 end) with
          | Err e => Err e
          | Ok o' => foldcase_loop f p' o'
          end
      end
  end.

(** the bytes of (string-foldcase str) (get-output-string of the port) *)
Definition string_foldcase (bufsize : nat) (h : heap) (s : str) : res (list Z) :=
  match foldcase_loop (S (ssize s)) (open_string_port (slice h s)) (open_output_string bufsize) with
  | Ok o => Ok (out_bytes o)
  | Err e => Err e
  end.

(** string-cmp of two fresh strings with these bytes (NUL-terminated stores): memcmp, then the sizes *)
Definition bytes_cmp (b1 b2 : list Z) : Z :=
  let d := memcmp (b1 ++ [0]) (b2 ++ [0]) (Nat.min (length b1) (length b2)) in
  if d =? 0 then Z.of_nat (length b1) - Z.of_nat (length b2) else d.

(** what (scheme char)'s string-ci=? string-ci<? ... test against 0 *)
Definition string_ci_cmp_full (bufsize : nat) (h : heap) (s1 s2 : str) : res Z :=
  match string_foldcase bufsize h s1, string_foldcase bufsize h s2 with
  | Ok b1, Ok b2 => Ok (bytes_cmp b1 b2)
  | Err e, _ => Err e
  | _, Err e => Err e
  end.
