(** C12 round 4 — operation histories over a larger operation set (executable model and executable
    array specification, NO proofs in this file):

      string-join / string-concatenate WITH separator   sexp_string_concatenate_op (sexp.c:1512-1552)
      string-fill! [start [end]]                        lib/init-7.scm:620-624
      string-copy! to at from [start [end]]             lib/scheme/extras.scm:271-281 (other target / the string itself)
      write-string str port [start [end]]               lib/chibi/io/io.scm:41-56 (second layer: state + output port)

    The round-1 operations (string-set!, substring, string-append, string-copy, make-string, literals)
    are embedded by [XBase]. *)
From ChibiV Require Export C12.RangeModel C12.Spec.
Local Open Scope Z_scope.

(* ------------------------------------------------------------------------------------- *)
(** * array-side helpers *)

(** the optional range as the arrays see it: start defaults to 0, end to the length *)
Definition rbounds (r : range) (len : nat) : Z * Z :=
  match r with RNone => (0, Z.of_nat len) | RStart a => (a, Z.of_nat len) | RBoth a e => (a, e) end.

(** positions a..e-1 become [c] *)
Definition fill_arr (cs : list Z) (c : Z) (a e : Z) : list Z :=
  firstn (Z.to_nat a) cs ++ repeat c (Z.to_nat (e - a)) ++ skipn (Z.to_nat e) cs.

(** positions at .. at+(e-a)-1 of the target become from[a..e-1] *)
Definition copy_arr (tcs fcs : list Z) (at_ a e : nat) : list Z :=
  firstn at_ tcs ++ sub a e fcs ++ skipn (at_ + (e - a)) tcs.

Definition range_okb (a e : Z) (len : nat) : bool := (0 <=? a) && (a <=? e) && (e <=? Z.of_nat len).

(* ------------------------------------------------------------------------------------- *)
(** * operations *)

Inductive xop : Type :=
| XBase (o : op)                                          (* the operations of round 1 *)
| XJoin (vs : list nat) (sep : option nat)                (* push (string-join (list v ...) [sep]); sep is a variable *)
| XFill (v : nat) (c : Z) (r : range)                     (* (string-fill! v c [start [end]]) *)
| XCopyBang (tv : nat) (at_ : Z) (fv : nat) (r : range).  (* (string-copy! tv at fv [start [end]]); fv = tv: the string itself *)

(** one step of the model; [None] = the operation raised (the state is unchanged) *)
Definition xstep (st : mstate) (o : xop) : option mstate :=
  let h := mheap st in
  let n := length (mvars st) in
  match o with
  | XBase o => step st o
  | XJoin vs sep =>
      if forallb (fun v => (v <? n)%nat) vs && match sep with Some w => (w <? n)%nat | None => true end then
        let '(h', s') := string_concatenate h (map (var st) vs) (option_map (var st) sep) in
        Some (mkst h' (mvars st ++ [s']))
      else None
  | XFill v c r =>
      if (v <? n)%nat then
        match string_fill h (var st v) c r with
        | Ok (h', s') => Some (mkst h' (set_nth v s' (mvars st)))
        | Err _ => None
        end
      else None
  | XCopyBang tv at_ fv r =>
      if (tv <? n)%nat && (fv <? n)%nat then
        match string_copy_bang h (var st tv) at_ (var st fv) (tv =? fv)%nat r with
        | Ok (h', s') => Some (mkst h' (set_nth tv s' (mvars st)))
        | Err _ => None
        end
      else None
  end.

Definition xrun (st : mstate) (ops : list xop) : mstate :=
  fold_left (fun st o => match xstep st o with Some st' => st' | None => st end) ops st.

(** one step of the specification: arrays of code points only *)
Definition xspec_step (sp : sstate) (o : xop) : option sstate :=
  let n := length sp in
  match o with
  | XBase o => spec_step sp o
  | XJoin vs sep =>
      if forallb (fun v => (v <? n)%nat) vs && match sep with Some w => (w <? n)%nat | None => true end then
        Some (sp ++ [intercalate (match sep with Some w => svar sp w | None => [] end) (map (svar sp) vs)])
      else None
  | XFill v c r =>
      if (v <? n)%nat then
        let cs := svar sp v in
        let '(a, e) := rbounds r (length cs) in
        if range_okb a e (length cs) then Some (upd v (fill_arr cs c a e) sp) else None
      else None
  | XCopyBang tv at_ fv r =>
      if (tv <? n)%nat && (fv <? n)%nat then
        let tcs := svar sp tv in
        let fcs := svar sp fv in
        let '(a, e) := rbounds r (length fcs) in
        if range_okb a e (length fcs) && (0 <=? at_) && (at_ + (e - a) <=? Z.of_nat (length tcs))
        then Some (upd tv (copy_arr tcs fcs (Z.to_nat at_) (Z.to_nat a) (Z.to_nat e)) sp) else None
      else None
  end.

Definition xspec_run (sp : sstate) (ops : list xop) : sstate :=
  fold_left (fun sp o => match xspec_step sp o with Some sp' => sp' | None => sp end) ops sp.

(* ------------------------------------------------------------------------------------- *)
(** * the executable precondition (for drivers)

    string-fill! and string-copy! are Scheme loops over string-set!: with an invalid range they
    mutate part of the string BEFORE raising, and string-copy! silently truncates when the
    target is too short.  The history theorem therefore asks for valid ranges (checked against
    the SPECIFICATION state reached so far) for those two; everything else may fail freely. *)

Definition cpb (c : Z) : bool := (0 <=? c) && (c <=? 1114111).

Definition op_okb (o : op) : bool :=
  match o with OSet _ _ c => cpb c | OMake _ c => cpb c | OLit cs => forallb cpb cs | _ => true end.

Definition xpreb (sp : sstate) (o : xop) : bool :=
  let n := length sp in
  match o with
  | XBase o => op_okb o
  | XJoin _ _ => true
  | XFill v c r =>
      cpb c && (if (v <? n)%nat then let '(a, e) := rbounds r (length (svar sp v)) in range_okb a e (length (svar sp v)) else true)
  | XCopyBang tv at_ fv r =>
      if (tv <? n)%nat && (fv <? n)%nat then
        let '(a, e) := rbounds r (length (svar sp fv)) in
        range_okb a e (length (svar sp fv)) && (0 <=? at_) && (at_ + (e - a) <=? Z.of_nat (length (svar sp tv)))
      else true
  end.

Fixpoint hist_okb (sp : sstate) (ops : list xop) : bool :=
  match ops with
  | [] => true
  | o :: r => xpreb sp o && hist_okb (match xspec_step sp o with Some sp' => sp' | None => sp end) r
  end.

(* ------------------------------------------------------------------------------------- *)
(** * second layer: the state carries an output string port; write-string with a range *)

Inductive wop : Type :=
| WX (o : xop)
| WWrite (v : nat) (r : range).        (* (write-string v port [start [end]]) *)

Record wstate : Type := mkw { wst : mstate; wout : oport }.

Definition wstep (w : wstate) (o : wop) : option wstate :=
  match o with
  | WX o => match xstep (wst w) o with Some st' => Some (mkw st' (wout w)) | None => None end
  | WWrite v r =>
      if (v <? length (mvars (wst w)))%nat then
        match write_string_io (mheap (wst w)) (var (wst w) v) r (wout w) with
        | Ok (h', o') => Some (mkw (mkst h' (mvars (wst w))) o')
        | Err _ => None
        end
      else None
  end.

Definition wrun (w : wstate) (ops : list wop) : wstate :=
  fold_left (fun w o => match wstep w o with Some w' => w' | None => w end) ops w.

(** specification: the arrays and the characters written so far *)
Definition wspec : Type := (sstate * list Z)%type.

Definition wspec_step (ws : wspec) (o : wop) : option wspec :=
  let '(sp, out) := ws in
  match o with
  | WX o => match xspec_step sp o with Some sp' => Some (sp', out) | None => None end
  | WWrite v r =>
      if (v <? length sp)%nat then
        let cs := svar sp v in
        let '(a, e) := rbounds r (length cs) in
        if range_okb a e (length cs) then Some (sp, out ++ sub (Z.to_nat a) (Z.to_nat e) cs) else None
      else None
  end.

Definition wspec_run (ws : wspec) (ops : list wop) : wspec :=
  fold_left (fun ws o => match wspec_step ws o with Some ws' => ws' | None => ws end) ops ws.

Definition wpreb (ws : wspec) (o : wop) : bool :=
  match o with WX o => xpreb (fst ws) o | WWrite _ _ => true end.

Fixpoint whist_okb (ws : wspec) (ops : list wop) : bool :=
  match ops with
  | [] => true
  | o :: r => wpreb ws o && whist_okb (match wspec_step ws o with Some ws' => ws' | None => ws end) r
  end.

(** the initial states: no variables, an empty string port with a buffer of [bufsize] bytes *)
Definition winit (bufsize : nat) : wstate := mkw (mkst [] []) (open_output_string bufsize).
Definition wspec_init : wspec := ([], []).
