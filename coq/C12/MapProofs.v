(** C12 round 4 — n-ary string-for-each / string-map refine the code-point arrays: the procedure is
    applied to the columns of the arrays, as many as the SHORTEST array has elements. *)
From Coq Require Import ZifyBool.
From ChibiV Require Import C12.Model C12.Spec C12.Utf8Proofs C12.Proofs C12.Proofs2 C12.Proofs3 C12.PortModel C12.PortProofs C12.RangeModel C12.OutProofs C12.MapModel.
Local Open Scope Z_scope.
Ltac Zify.zify_post_hook ::= Z.div_mod_to_equations.

(* ------------------------------------------------------------------------------------- *)
(** * Specification: the columns of a list of rows *)

(** the length of the shortest row (0 when there is no row) *)
Fixpoint min_len (css : list (list Z)) : nat :=
  match css with
  | [] => O
  | cs :: r => match r with [] => length cs | _ :: _ => Nat.min (length cs) (min_len r) end
  end.

(** the k-th column *)
Definition column (css : list (list Z)) (k : nat) : list Z := map (fun cs => nth k cs 0) css.

(** the columns, as long as EVERY row still has an element: the shortest row decides *)
Definition columns (css : list (list Z)) : list (list Z) := map (column css) (seq 0 (min_len css)).

(** what a procedure with effects does over a list of argument tuples: left to right, the first
    error ends it *)
Fixpoint fold_res {A : Type} (proc : A -> list Z -> res A) (a : A) (l : list (list Z)) : res A :=
  match l with
  | [] => Ok a
  | x :: r => match proc a x with Ok a' => fold_res proc a' r | Err e => Err e end
  end.

Lemma columns_length css : length (columns css) = min_len css.
Proof. unfold columns. rewrite map_length, seq_length. reflexivity. Qed.

Lemma min_len_le css : forall cs, In cs css -> (min_len css <= length cs)%nat.
Proof.
  induction css as [|c r IH]; intros cs HI; [contradiction|].
  cbn [min_len]. destruct r as [|c2 r'].
  - destruct HI as [<-|[]]. lia.
  - destruct HI as [<-|HI]; [lia|]. specialize (IH cs HI). lia.
Qed.

Lemma min_len_attained css : css <> [] -> exists cs, In cs css /\ length cs = min_len css.
Proof.
  induction css as [|c r IH]; intros NE; [contradiction|].
  cbn [min_len]. destruct r as [|c2 r'].
  - exists c. split; [left; reflexivity|reflexivity].
  - destruct (IH ltac:(discriminate)) as (cs & HI & L).
    destruct (Nat.le_gt_cases (length c) (min_len (c2 :: r'))) as [Hle|Hgt].
    + exists c. split; [left; reflexivity|lia].
    + exists cs. split; [right; exact HI|lia].
Qed.

(** every column has one element per row *)
Lemma columns_width css col : In col (columns css) -> length col = length css.
Proof.
  unfold columns. intros HI. apply in_map_iff in HI. destruct HI as (k & <- & _).
  unfold column. apply map_length.
Qed.

(** one row: its elements, one by one *)
Lemma map_nth_seq {B : Type} (g : Z -> B) cs : map (fun k => g (nth k cs 0)) (seq 0 (length cs)) = map g cs.
Proof.
  induction cs as [|c cs IH]; cbn [length seq map nth]; [reflexivity|]. f_equal.
  rewrite <- seq_shift, map_map. exact IH.
Qed.

Lemma columns_one cs : columns [cs] = map (fun c => [c]) cs.
Proof. unfold columns, column. cbn [min_len map]. apply (map_nth_seq (fun c => [c])). Qed.

(** the recursive reading of [columns]: no column when some row is empty, otherwise the heads of
    the rows followed by the columns of the tails *)
Lemma min_len_zero css : css <> [] -> (min_len css = 0%nat <-> Exists (fun cs => cs = []) css).
Proof.
  intros NE. split.
  - intros Z0. destruct (min_len_attained css NE) as (cs & HI & L).
    apply Exists_exists. exists cs. split; [exact HI|]. destruct cs; [reflexivity|cbn [length] in L; lia].
  - intros HE. apply Exists_exists in HE. destruct HE as (cs & HI & ->).
    pose proof (min_len_le css [] HI) as L. cbn [length] in L. lia.
Qed.

Lemma columns_nil css : Exists (fun cs => cs = []) css -> columns css = [].
Proof.
  intros HE. assert (NE : css <> []) by (intros ->; inversion HE).
  unfold columns. apply (min_len_zero css NE) in HE. rewrite HE. reflexivity.
Qed.

Lemma min_len_cons2 c c2 r : min_len (c :: c2 :: r) = Nat.min (length c) (min_len (c2 :: r)).
Proof. reflexivity. Qed.

Lemma min_len_tl css : css <> [] -> Forall (fun cs => cs <> []) css ->
  min_len css = S (min_len (map (@tl Z) css)).
Proof.
  induction css as [|c r IH]; intros NE F; [contradiction|].
  inversion F as [|? ? Hc Fr]; subst. destruct r as [|c2 r'].
  - cbn [min_len map]. destruct c; [contradiction|reflexivity].
  - pose proof (IH ltac:(discriminate) Fr) as E. cbn [map] in E |- *.
    rewrite !min_len_cons2, E. destruct c; [contradiction|]. cbn [length tl]. lia.
Qed.

Lemma columns_step css : css <> [] -> Forall (fun cs => cs <> []) css ->
  columns css = map (hd 0) css :: columns (map (@tl Z) css).
Proof.
  intros NE F. unfold columns. rewrite (min_len_tl css NE F). cbn [seq map]. f_equal.
  - unfold column. apply map_ext_in. intros cs HI. rewrite Forall_forall in F. specialize (F cs HI).
    destruct cs; [contradiction|reflexivity].
  - rewrite <- seq_shift, map_map. apply map_ext. intros k. unfold column. rewrite map_map.
    apply map_ext_in. intros cs HI. rewrite Forall_forall in F. specialize (F cs HI).
    destruct cs; [contradiction|reflexivity].
Qed.

(* ------------------------------------------------------------------------------------- *)
(** * One string and one cursor *)

Lemma cursor_of_all cs k : (length cs <= k)%nat -> cursor_of cs k = length (enc_all cs).
Proof. intros H. unfold cursor_of. rewrite firstn_all2 by exact H. reflexivity. Qed.

(** the cursor of character k is at the end exactly when k is past the last character *)
Lemma at_end_refines h s cs k : Rep h s cs ->
  (cursor_end s <=? cursor_of cs k)%nat = (length cs <=? k)%nat.
Proof.
  intros (Hcp & _ & Hsz & _). unfold cursor_end. rewrite Hsz.
  destruct (Nat.le_gt_cases (length cs) k) as [Hle|Hgt].
  - rewrite (cursor_of_all cs k Hle). rewrite Nat.leb_refl. symmetry. apply Nat.leb_le. exact Hle.
  - pose proof (prefix_len_lt cs k Hcp Hgt) as L. fold (cursor_of cs k) in L.
    transitivity false; [apply Nat.leb_gt; exact L|symmetry; apply Nat.leb_gt; exact Hgt].
Qed.

(** string-cursor-ref at the cursor of character k is character k *)
Lemma cursor_ref_refines h s cs k : Rep h s cs -> (k < length cs)%nat ->
  decode_at (sdata h s) (cursor_of cs k) (remaining s (cursor_of cs k)) = Some (nth k cs 0).
Proof.
  intros (Hcp & _ & Hsz & post & Hd & _) Hk.
  destruct (cursor_of_S cs k Hcp Hk) as (E & _ & Hc).
  set (x := nth k cs 0) in *. rewrite Hd. unfold cursor_of. rewrite E at 1.
  rewrite enc_all_app, enc_all_cons, <- !app_assoc, decode_at_app.
  destruct (utf8_roundtrip_all x Hc (enc_all (skipn (S k) cs) ++ post)) as (D & _ & W). apply D.
  assert (HL : length (enc_all cs) = Nat.add (length (enc_all (firstn k cs)))
            (Nat.add (length (encode (nth k cs 0))) (length (enc_all (skipn (S k) cs)))))
    by (rewrite E at 1; rewrite enc_all_app, enc_all_cons, !app_length; reflexivity).
  unfold remaining. rewrite Hsz, <- W. fold x in HL. lia.
Qed.

Lemma length_le_enc cs : Forall cp cs -> (length cs <= length (enc_all cs))%nat.
Proof.
  induction 1 as [|c cs Hc _ IH]; [cbn [enc_all flat_map length]; lia|].
  rewrite enc_all_cons, app_length. pose proof (encode_nonempty c Hc). cbn [length]. lia.
Qed.

Lemma rep_length_le_size h s cs : Rep h s cs -> (length cs <= ssize s)%nat.
Proof. intros (Hcp & _ & Hsz & _). rewrite Hsz. apply length_le_enc. exact Hcp. Qed.

(* ------------------------------------------------------------------------------------- *)
(** * All the cursors after k rounds *)

Definition cursors (css : list (list Z)) (k : nat) : list nat := map (fun cs => cursor_of cs k) css.

Lemma cursor_starts_refines h ss css : Forall2 (Rep h) ss css -> cursor_starts ss = cursors css 0.
Proof.
  induction 1 as [|s cs ss css R _ IH]; [reflexivity|].
  unfold cursor_starts, cursors in *. cbn [map]. rewrite IH. reflexivity.
Qed.

(** the [any] test of line 33 *)
Lemma any_at_end_refines h ss css k : Forall2 (Rep h) ss css ->
  any_at_end ss (cursors css k) = existsb (fun cs => (length cs <=? k)%nat) css.
Proof.
  induction 1 as [|s cs ss css R _ IH]; [reflexivity|].
  unfold any_at_end, cursors in *. cbn [map any2 existsb]. rewrite (at_end_refines h s cs k R), IH.
  destruct (length cs <=? k)%nat; reflexivity.
Qed.

Lemma exists_short css k : css <> [] ->
  existsb (fun cs => (length cs <=? k)%nat) css = (min_len css <=? k)%nat.
Proof.
  induction css as [|c r IH]; intros NE; [contradiction|]. destruct r as [|c2 r'].
  - cbn [existsb min_len]. apply orb_false_r.
  - rewrite min_len_cons2. cbn [existsb] in IH |- *. rewrite (IH ltac:(discriminate)).
    destruct (length c <=? k)%nat eqn:A; destruct (min_len (c2 :: r') <=? k)%nat eqn:B; cbn [orb]; symmetry;
      first [apply Nat.leb_le | apply Nat.leb_gt];
      first [apply Nat.leb_le in A | apply Nat.leb_gt in A]; first [apply Nat.leb_le in B | apply Nat.leb_gt in B]; lia.
Qed.

(** line 38: (map string-cursor-ref los is) is column k *)
Lemma cursor_refs_refines h ss css k : Forall2 (Rep h) ss css -> Forall (fun cs => (k < length cs)%nat) css ->
  cursor_refs h ss (cursors css k) = Some (column css k).
Proof.
  induction 1 as [|s cs ss css R _ IH]; intros F; [reflexivity|].
  inversion F as [|? ? Hk Fr]; subst. specialize (IH Fr).
  unfold cursor_refs, cursors, column in *. cbn [map map2 all_some].
  rewrite (cursor_ref_refines h s cs k R Hk), IH. reflexivity.
Qed.

(** line 39: (map string-cursor-next los is) moves every cursor to the next character *)
Lemma cursor_nexts_refines h ss css k : Forall2 (Rep h) ss css -> Forall (fun cs => (k < length cs)%nat) css ->
  cursor_nexts h ss (cursors css k) = cursors css (S k).
Proof.
  induction 1 as [|s cs ss css R _ IH]; intros F; [reflexivity|].
  inversion F as [|? ? Hk Fr]; subst. specialize (IH Fr).
  unfold cursor_nexts, cursors in *. cbn [map map2].
  rewrite (cursor_next_refines h s cs k R Hk), IH. reflexivity.
Qed.

Lemma below_min css k : (k < min_len css)%nat -> Forall (fun cs => (k < length cs)%nat) css.
Proof.
  intros H. apply Forall_forall. intros cs HI. pose proof (min_len_le css cs HI). lia.
Qed.

(* ------------------------------------------------------------------------------------- *)
(** * The loops *)

(** from round k on: the procedure is applied to columns k, k+1, ..., min_len - 1 *)
Lemma for_each_loop_spec {A : Type} h ss css (proc : A -> list Z -> res A) :
  Forall2 (Rep h) ss css -> css <> [] -> forall fuel k a,
  (k <= min_len css)%nat -> (min_len css - k < fuel)%nat ->
  for_each_loop fuel h ss (cursors css k) proc a = fold_res proc a (map (column css) (seq k (min_len css - k))).
Proof.
  intros R NE. induction fuel as [|fu IH]; intros k a Hk Hf; [lia|].
  cbn [for_each_loop]. rewrite (any_at_end_refines h ss css k R), (exists_short css k NE).
  destruct (min_len css <=? k)%nat eqn:T.
  - apply Nat.leb_le in T. replace (min_len css - k)%nat with O by lia. reflexivity.
  - apply Nat.leb_gt in T. pose proof (below_min css k T) as F.
    rewrite (cursor_refs_refines h ss css k R F), (cursor_nexts_refines h ss css k R F).
    replace (min_len css - k)%nat with (S (min_len css - S k)) by lia. cbn [seq map fold_res].
    destruct (proc a (column css k)) as [a'|e]; [|reflexivity].
    apply IH; lia.
Qed.

Lemma fold1_loop_spec {A : Type} h s cs (proc : A -> list Z -> res A) :
  Rep h s cs -> forall fuel k a,
  (k <= length cs)%nat -> (length cs - k < fuel)%nat ->
  fold1_loop fuel h s (cursor_of cs k) proc a = fold_res proc a (map (fun c => [c]) (skipn k cs)).
Proof.
  intros R. induction fuel as [|fu IH]; intros k a Hk Hf; [lia|].
  cbn [fold1_loop]. rewrite (at_end_refines h s cs k R).
  destruct (length cs <=? k)%nat eqn:T.
  - apply Nat.leb_le in T. rewrite skipn_all2 by exact T. reflexivity.
  - apply Nat.leb_gt in T. rewrite (cursor_ref_refines h s cs k R T), (cursor_next_refines h s cs k R T).
    destruct (Proofs.split_nth cs k 0 T) as [E L].
    assert (SK : skipn k cs = nth k cs 0 :: skipn (S k) cs).
    { rewrite E at 1. rewrite skipn_app, L, Nat.sub_diag. rewrite skipn_all2 by lia. reflexivity. }
    rewrite SK. cbn [map fold_res]. destruct (proc a [nth k cs 0]) as [a'|e]; [|reflexivity].
    apply IH; lia.
Qed.

(** string-for-each over one or more strings: [proc] over the columns of the arrays, the shortest
    array decides; whatever [proc] does, and whatever error it raises *)
Theorem string_for_each_n_refines {A : Type} h ss css (proc : A -> list Z -> res A) a :
  ss <> [] -> Forall2 (Rep h) ss css ->
  string_for_each_n h ss proc a = fold_res proc a (columns css).
Proof.
  intros NE R. destruct R as [|s cs ss css R Rs]; [congruence|].
  pose proof (rep_length_le_size h s cs R) as Lsz.
  unfold string_for_each_n. destruct Rs as [|s2 cs2 ss css R2 Rs].
  - rewrite columns_one. change O with (cursor_of cs 0).
    rewrite (fold1_loop_spec h s cs proc R (S (ssize s)) 0%nat a) by lia. reflexivity.
  - assert (RR : Forall2 (Rep h) (s :: s2 :: ss) (cs :: cs2 :: css)) by (constructor; [exact R|constructor; [exact R2|exact Rs]]).
    rewrite (cursor_starts_refines h _ _ RR).
    pose proof (min_len_le (cs :: cs2 :: css) cs (or_introl eq_refl)) as Lm.
    rewrite (for_each_loop_spec h _ _ proc RR ltac:(discriminate) (S (ssize s)) 0%nat a) by lia.
    rewrite Nat.sub_0_r. reflexivity.
Qed.

Corollary for_each_args_refines h ss css : ss <> [] -> Forall2 (Rep h) ss css ->
  for_each_args h ss = Ok (columns css).
Proof.
  intros NE R. unfold for_each_args. rewrite (string_for_each_n_refines h ss css _ [] NE R).
  assert (G : forall l acc, fold_res (fun acc args => Ok (acc ++ [args])) acc l = Ok (acc ++ l)).
  { induction l as [|x l IH]; intros acc; cbn [fold_res]; [rewrite app_nil_r; reflexivity|].
    rewrite IH, <- app_assoc. reflexivity. }
  apply (G (columns css) []).
Qed.

(* ------------------------------------------------------------------------------------- *)
(** * string-map *)

(** one string (RangeModel.map_loop, the string-fold walk): from character k on, [f] of every character is written *)
Lemma map_loop_spec h s cs f : Rep h s cs -> forall fuel k o,
  (k <= length cs)%nat -> (length cs - k <= fuel)%nat ->
  map_loop fuel h s f (cursor_of cs k) o = write_chars o (map f (skipn k cs)).
Proof.
  intros R. pose proof (at_end_refines h s cs) as AE. unfold cursor_end in AE.
  induction fuel as [|fu IH]; intros k o Hk Hf; cbn [map_loop]; rewrite Nat.ltb_antisym, (AE k R).
  - replace (length cs <=? k)%nat with true by (symmetry; apply Nat.leb_le; lia).
    rewrite skipn_all2 by lia. reflexivity.
  - destruct (length cs <=? k)%nat eqn:T; cbn [negb].
    + apply Nat.leb_le in T. rewrite skipn_all2 by exact T. reflexivity.
    + apply Nat.leb_gt in T. rewrite (cursor_ref_refines h s cs k R T), (cursor_next_refines h s cs k R T).
      destruct (Proofs.split_nth cs k 0 T) as [E L].
      assert (SK : skipn k cs = nth k cs 0 :: skipn (S k) cs).
      { rewrite E at 1. rewrite skipn_app, L, Nat.sub_diag. rewrite skipn_all2 by lia. reflexivity. }
      rewrite SK. cbn [map write_chars]. destruct (write_char o (f (nth k cs 0))) as [o'|e]; [|reflexivity].
      apply IH; lia.
Qed.

(** string-map over one string, for every buffer size of the string port: the encodings of the
    images of the characters.  [f] only has to give characters on the characters of the string. *)
Theorem string_map_refines_in bufsize h s cs f : (1 <= bufsize)%nat -> Rep h s cs -> Forall cp (map f cs) ->
  string_map bufsize h s f = Ok (enc_all (map f cs)).
Proof.
  intros Hb R Hf. unfold string_map. pose proof (rep_length_le_size h s cs R) as Lsz.
  change O with (cursor_of cs 0). rewrite (map_loop_spec h s cs f R (ssize s) 0%nat) by lia.
  cbn [skipn]. destruct (open_output_string_ok bufsize Hb) as [OK0 OUT0].
  destruct (write_chars_spec (map f cs) _ OK0 Hf) as (o & W & _ & OUT). rewrite W, OUT, OUT0. reflexivity.
Qed.

Theorem string_map_refines bufsize h s cs f : (1 <= bufsize)%nat -> Rep h s cs -> (forall c, cp (f c)) ->
  string_map bufsize h s f = Ok (enc_all (map f cs)).
Proof.
  intros Hb R Hf. apply string_map_refines_in; [exact Hb|exact R|].
  apply Forall_forall. intros y HI. apply in_map_iff in HI. destruct HI as (c & <- & _). apply Hf.
Qed.

Lemma fold_write_chars f l : forall o,
  fold_res (fun o args => write_char o (f args)) o l = write_chars o (map f l).
Proof.
  induction l as [|x l IH]; intros o; cbn [fold_res map write_chars]; [reflexivity|].
  destruct (write_char o (f x)) as [o'|e]; [apply IH|reflexivity].
Qed.

(** string-map over one or more strings of any lengths, for every buffer size of the string port:
    the encodings of [f] of every column, as many columns as the shortest string has characters.
    [f] only has to give characters on the argument tuples that occur. *)
Theorem string_map_n_refines_in bufsize h ss css f :
  (1 <= bufsize)%nat -> ss <> [] -> Forall2 (Rep h) ss css -> (forall args, In args (columns css) -> cp (f args)) ->
  string_map_n bufsize h ss f = Ok (enc_all (map f (columns css))).
Proof.
  intros Hb NE R Hf.
  assert (Hcp : Forall cp (map f (columns css))).
  { apply Forall_forall. intros y HI. apply in_map_iff in HI. destruct HI as (args & <- & HI). apply Hf. exact HI. }
  assert (GEN : match string_for_each_n h ss (fun o args => write_char o (f args)) (open_output_string bufsize) with
                | Ok o => Ok (out_bytes o) | Err e => Err e end = Ok (enc_all (map f (columns css)))).
  { rewrite (string_for_each_n_refines h ss css _ _ NE R), fold_write_chars.
    destruct (open_output_string_ok bufsize Hb) as [OK0 OUT0].
    destruct (write_chars_spec _ _ OK0 Hcp) as (o & W & _ & OUT). rewrite W, OUT, OUT0. reflexivity. }
  unfold string_map_n. destruct R as [|s cs ss css R Rs]; [exact GEN|].
  destruct Rs as [|s2 cs2 ss css R2 Rs]; [|exact GEN].
  rewrite columns_one, map_map in Hcp |- *.
  apply (string_map_refines_in bufsize h s cs (fun c => f [c]) Hb R Hcp).
Qed.

Theorem string_map_n_refines bufsize h ss css f :
  (1 <= bufsize)%nat -> ss <> [] -> Forall2 (Rep h) ss css -> (forall args, cp (f args)) ->
  string_map_n bufsize h ss f = Ok (enc_all (map f (columns css))).
Proof. intros Hb NE R Hf. apply string_map_n_refines_in; auto. Qed.

(** the result is a string of exactly as many characters as the shortest argument *)
Corollary string_map_n_length bufsize h ss css f :
  (1 <= bufsize)%nat -> ss <> [] -> Forall2 (Rep h) ss css -> (forall args, cp (f args)) ->
  exists cs', string_map_n bufsize h ss f = Ok (enc_all cs') /\ Forall cp cs' /\ length cs' = min_len css.
Proof.
  intros Hb NE R Hf. exists (map f (columns css)). split; [apply string_map_n_refines; assumption|]. split.
  - apply Forall_forall. intros y HI. apply in_map_iff in HI. destruct HI as (args & <- & _). apply Hf.
  - rewrite map_length. apply columns_length.
Qed.

(* ------------------------------------------------------------------------------------- *)
(** * Examples: non-ASCII strings of different lengths, slices of shared stores, a 3-byte port buffer *)

(** "aλ€😀z" (5 characters, offset 2 in its store), "é😀b" (3 characters, offset 1), "€λλz" (4 characters) *)
Definition ex2_heap : heap :=
  ex_heap ++ [[33; 195; 169; 240; 159; 152; 128; 98; 63; 0]; [226; 130; 172; 206; 187; 206; 187; 122; 0]].
Definition ex2_str : str := mkstr 1 1 7 false.
Definition ex2_cs : list Z := [233; 128512; 98].
Definition ex3_str : str := mkstr 2 0 8 false.
Definition ex3_cs : list Z := [8364; 955; 955; 122].
Definition zmax (args : list Z) : Z := fold_right Z.max 0 args.

Example ex_columns : columns [ex_cs; ex2_cs; ex3_cs] = [[97; 233; 8364]; [955; 128512; 955]; [8364; 98; 955]].
Proof. vm_compute. reflexivity. Qed.

Example ex_string_map_n :
  string_map_n 3 ex2_heap [ex_str; ex2_str; ex3_str] zmax = Ok (enc_all [8364; 128512; 8364])
  /\ string_map_n 3 ex2_heap [ex_str; ex2_str; ex3_str] zmax = Ok (enc_all (map zmax (columns [ex_cs; ex2_cs; ex3_cs])))
  /\ string_map_n 1 ex2_heap [ex2_str; ex_str] zmax = Ok (enc_all [233; 128512; 8364])
  /\ for_each_args ex2_heap [ex2_str; ex_str] = Ok [[233; 97]; [128512; 955]; [98; 8364]].
Proof. vm_compute. auto. Qed.

Example ex_string_map_1 :
  string_map 3 ex2_heap ex_str (fun c => c + 1) = Ok (enc_all [98; 956; 8365; 128513; 123])
  /\ string_map_n 3 ex2_heap [ex_str] zmax = Ok (enc_all ex_cs)
  /\ for_each_args ex2_heap [ex2_str] = Ok [[233]; [128512]; [98]].
Proof. vm_compute. auto. Qed.

(** the hypotheses of the theorem hold of the example data, so its conclusion is what was computed above *)
Lemma ex2_reps : Forall2 (Rep ex2_heap) [ex_str; ex2_str; ex3_str] [ex_cs; ex2_cs; ex3_cs].
Proof.
  repeat apply Forall2_cons; [| | |apply Forall2_nil]; (split; [repeat constructor; unfold cp; lia|]);
    (split; [cbn [length ex2_heap ex_heap app sbytes ex_str ex2_str ex3_str]; lia|]); (split; [vm_compute; reflexivity|]).
  - exists [33; 0]. split; [vm_compute; reflexivity|discriminate].
  - exists [63; 0]. split; [vm_compute; reflexivity|discriminate].
  - exists [0]. split; [vm_compute; reflexivity|discriminate].
Qed.

Example ex_string_map_n_by_theorem :
  string_map_n 3 ex2_heap [ex_str; ex2_str; ex3_str] (fun args => Z.min 1114111 (zmax args)) = Ok (enc_all [8364; 128512; 8364]).
Proof.
  rewrite (string_map_n_refines 3 ex2_heap [ex_str; ex2_str; ex3_str] [ex_cs; ex2_cs; ex3_cs] _ ltac:(lia) ltac:(discriminate) ex2_reps).
  - vm_compute. reflexivity.
  - intros args. unfold cp, zmax. induction args as [|x r IH]; cbn [fold_right]; lia.
Qed.

Print Assumptions string_for_each_n_refines.
Print Assumptions string_map_n_refines_in.
Print Assumptions string_map_n_refines.
Print Assumptions string_map_refines.
