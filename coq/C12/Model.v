(** C12 model: chibi-scheme strings as (bytes object, offset, byte size) over a heap of byte
    stores, mirrored function by function.  Executable, no proofs in this file.

    The UTF-8 leaf functions are NOT written here: they are the regenerated translation of the
    C functions (coq/Gen/C12_Leaf.v, rebuilt from sexp.c on every run by gen/c12_leaf.py);
    this file only gives them model-level names.

    Configuration mirrored: SEXP_USE_UTF8_STRINGS=1, SEXP_USE_MUTABLE_STRINGS=1 (hence
    SEXP_USE_PACKED_STRINGS=0), SEXP_USE_STRING_INDEX_TABLE=0, SEXP_USE_STRING_REF_CACHE=0
    (the defaults of include/chibi/features.h). *)
From ChibiV Require Export C12.CSem Gen.C12_Leaf.
Local Open Scope Z_scope.

(* ------------------------------------------------------------------------------------- *)
(** * UTF-8 leaves: names for the translated C functions *)

(** sexp_utf8_initial_byte_count (sexp.c:1225-1229): sequence length announced by a lead byte *)
Definition lead_count (b : Z) : nat := Z.to_nat (sexp_utf8_initial_byte_count b).
(** sexp_utf8_char_byte_count (sexp.c:1231-1236): encoded width of a code point *)
Definition width (c : Z) : nat := Z.to_nat (sexp_utf8_char_byte_count c).
(** sexp_utf8_encode_char (sexp.c:1267-1277) called as everywhere in chibi with
    len = sexp_utf8_char_byte_count(c) *)
Definition encode (c : Z) : list Z := sexp_utf8_encode_char (sexp_utf8_char_byte_count c) c.

Definition byte_at (d : list Z) (i : nat) : Z := nth i d 0.

(** sexp_string_utf8_ref (sexp.c:1260-1275): decode the sequence starting at byte [i];
    the result word is a character immediate, unboxed with sexp_unbox_character.
    [rem] = (sexp_sint_t)sexp_string_size(str) - sexp_unbox_string_cursor(i): the number of bytes from the
    cursor to the end of the string (the translated function's input [p_rem]); a lead byte that announces
    more bytes than that is an error ("truncated utf8 sequence"). *)
Definition decode_at (d : list Z) (i : nat) (rem : Z) : option Z :=
  match sexp_string_utf8_ref (byte_at d i) (byte_at d (i + 1)) (byte_at d (i + 2)) (byte_at d (i + 3)) rem with
  | RVal w => Some (verif_c12_unbox_character w)
  | RErr => None
  end.

(* ------------------------------------------------------------------------------------- *)
(** * Byte stores *)

(** a bytes object of length n is a list of n+1 bytes: sexp_make_bytes_op (sexp.c:1178-1194)
    allocates clen+1 and writes the hidden terminator data[clen] = 0 *)
Definition heap : Type := list (list Z).

(** include/chibi/sexp.h:473-489 (string arm of the union), plus the copy-on-write header bit *)
Record str : Type := mkstr { sbytes : nat; soff : nat; ssize : nat; scow : bool }.

Inductive err : Type := RangeErr | Utf8Err | FuelErr.
Inductive res (A : Type) : Type := Ok (a : A) | Err (e : err).
Arguments Ok {A} a.
Arguments Err {A} e.

Definition store (h : heap) (s : str) : list Z := nth (sbytes s) h [].
(** (sexp_sint_t)sexp_string_size(str) - sexp_unbox_string_cursor(i): bytes from cursor [i] to the end of [s] *)
Definition remaining (s : str) (i : nat) : Z := Z.of_nat (ssize s) - Z.of_nat i.
(** sexp_string_data(x) = sexp_bytes_data(sexp_string_bytes(x)) + sexp_string_offset(x) (sexp.h:1224) *)
Definition sdata (h : heap) (s : str) : list Z := skipn (soff s) (store h s).

(** writes [src] over [dst] starting at [pos] (never extends [dst]) *)
Definition overwrite (dst : list Z) (pos : nat) (src : list Z) : list Z :=
  firstn (length dst) (firstn pos dst ++ src ++ skipn (pos + length src) dst).
(** memcpy(dst+pos, src, n) *)
Definition memcpy (dst : list Z) (pos : nat) (src : list Z) (n : nat) : list Z :=
  overwrite dst pos (firstn n src).
(** sexp_make_bytes(ctx, len, SEXP_VOID): contents unspecified (modelled as 0), terminator 0 *)
Definition make_bytes (len : nat) : list Z := repeat 0 (len + 1).

Fixpoint set_nth {A} (n : nat) (x : A) (l : list A) : list A :=
  match l, n with
  | [], _ => []
  | _ :: r, O => x :: r
  | y :: r, S n' => y :: set_nth n' x r
  end.

(* ------------------------------------------------------------------------------------- *)
(** * Length and index translation *)

(** sexp_string_utf8_length (sexp.c:1238-1244): for (i=0; p<q; i++) p += initial_byte_count(p[0]) *)
Fixpoint utf8_length_loop (fuel : nat) (d : list Z) (p q i : nat) : res nat :=
  match fuel with
  | O => if (p <? q)%nat then Err FuelErr else Ok i
  | S f => if (p <? q)%nat then utf8_length_loop f d (p + lead_count (byte_at d p)) q (S i) else Ok i
  end.
Definition utf8_length (d : list Z) (len : nat) : res nat := utf8_length_loop len d 0 len 0.

(** sexp_string_length (sexp.h:1832; SEXP_OP_STRING_LENGTH vm.c:1602-1606) *)
Definition string_length (h : heap) (s : str) : res nat := utf8_length (sdata h s) (ssize s).

(** loop of sexp_string_index_to_cursor (sexp.c:1317-1318):
    for ( ; i>0 && j<limit; i--) j += sexp_utf8_initial_byte_count(p[j]);   returns (i, j) *)
Fixpoint i2c_loop (d : list Z) (limit : nat) (i j : nat) : nat * nat :=
  match i with
  | O => (O, j)
  | S i' => if (j <? limit)%nat then i2c_loop d limit i' (j + lead_count (byte_at d j)) else (i, j)
  end.

(** sexp_string_index_to_cursor (sexp.c:1279-1336): a negative index never enters the loop and
    fails the final i != 0 test *)
Definition index_to_cursor (h : heap) (s : str) (index : Z) : res nat :=
  if index <? 0 then Err RangeErr
  else let '(i, j) := i2c_loop (sdata h s) (ssize s) (Z.to_nat index) 0 in
       if (i =? 0)%nat then Ok j else Err RangeErr.

(** sexp_string_cursor_to_index (sexp.c:1338-1360, no-cache arm) *)
Definition cursor_to_index (h : heap) (s : str) (off : Z) : res nat :=
  if (off <? 0) || (Z.of_nat (ssize s) <? off) then Err RangeErr
  else utf8_length (sdata h s) (Z.to_nat off).

(* ------------------------------------------------------------------------------------- *)
(** * string-ref / string-set! *)

(** sexp_string_utf8_index_ref (eval.c:1998-2007) *)
Definition string_ref (h : heap) (s : str) (index : Z) : res Z :=
  match index_to_cursor h s index with
  | Err e => Err e
  | Ok off =>
      if (ssize s <=? off)%nat then Err RangeErr
      else match decode_at (sdata h s) off (remaining s off) with Some c => Ok c | None => Err Utf8Err end
  end.

(** eval.c:2090-2092  old_len = sexp_utf8_initial_byte_count( *p );
                      if (old_len > (int)sexp_string_size(str) - i) old_len = (int)sexp_string_size(str) - i;
    [avail] = size - i (the callers guarantee i < size, so the natural-number subtraction is exact) *)
Definition clamp_old_len (old_len avail : nat) : nat := if (avail <? old_len)%nat then avail else old_len.

(** sexp_string_utf8_set (eval.c:2084-2119):
    the replaced sequence is what the lead byte announces, but never more than the bytes left in the string;
    same width and not copy-on-write -> overwrite in place inside the shared store;
    otherwise allocate a new bytes object, copy prefix, copy suffix and terminator, make the
    string point at it with offset 0, then encode at q+i. *)
Definition utf8_set (h : heap) (s : str) (i : nat) (c : Z) : heap * str :=
  let d := sdata h s in
  let old_len := clamp_old_len (lead_count (byte_at d i)) (ssize s - i) in
  let new_len := width c in
  let enc := sexp_utf8_encode_char (Z.of_nat new_len) c in
  if scow s || negb (old_len =? new_len)%nat then
    let len := (ssize s + new_len - old_len)%nat in
    let q := make_bytes len in
    let q := memcpy q 0 d i in
    let q := memcpy q (i + new_len) (skipn (i + old_len) d) (len - i - new_len + 1) in
    let q := overwrite q i enc in
    (h ++ [q], mkstr (length h) 0 len false)
  else
    (set_nth (sbytes s) (overwrite (store h s) (soff s + i) enc) h, s).

(** sexp_string_utf8_index_set (eval.c:2079-2092) *)
Definition string_set (h : heap) (s : str) (index : Z) (c : Z) : res (heap * str) :=
  match index_to_cursor h s index with
  | Err e => Err e
  | Ok off => if (ssize s <=? off)%nat then Err RangeErr else Ok (utf8_set h s off c)
  end.

(* ------------------------------------------------------------------------------------- *)
(** * Constructors: substring, concatenate, make-string, conversions *)

(** sexp_c_string / sexp_substring_op tail (sexp.c:1440-1474): new bytes of n+1, memcpy n, NUL *)
Definition new_string_from (h : heap) (src : list Z) (n : nat) : heap * str :=
  let b := memcpy (make_bytes n) 0 src n in
  let b := overwrite b n [0] in
  (h ++ [b], mkstr (length h) 0 n false).

(** sexp_substring_op (sexp.c:1452-1474) on byte cursors *)
Definition substring_cursor (h : heap) (s : str) (start end_ : nat) : res (heap * str) :=
  if (ssize s <? start)%nat || (ssize s <? end_)%nat || (end_ <? start)%nat then Err RangeErr
  else Ok (new_string_from h (skipn start (sdata h s)) (end_ - start)).

(** sexp_utf8_substring_op (sexp.c:1497-1509) on character indices; [None] = #f = to the end *)
Definition substring (h : heap) (s : str) (start : Z) (end_ : option Z) : res (heap * str) :=
  match index_to_cursor h s start with
  | Err e => Err e
  | Ok st =>
      match end_ with
      | None => substring_cursor h s st (ssize s)
      | Some e =>
          match index_to_cursor h s e with
          | Err x => Err x
          | Ok en => substring_cursor h s st en
          end
      end
  end.

(** string-copy = (substring str 0) (lib/init-7.scm:397-398) *)
Definition string_copy (h : heap) (s : str) : res (heap * str) := substring h s 0 None.

(** sexp_string_concatenate_op (sexp.c:1512-1540) without separator: string-append *)
Definition string_append (h : heap) (ss : list str) : heap * str :=
  let len := fold_left (fun a s => (a + ssize s)%nat) ss O in
  let '(b, p) := fold_left (fun bp s => (memcpy (fst bp) (snd bp) (sdata h s) (ssize s), (snd bp + ssize s)%nat))
                           ss (make_bytes len, O) in
  let b := overwrite b p [0] in
  (h ++ [b], mkstr (length h) 0 len false).

(** sexp_string_concatenate_op (sexp.c:1525-1552) with its separator argument ([None] = #f or any
    non-string): string-join / string-concatenate.
      for (ls...) len += size(car ls), i++
      if (i > 0 && stringp(sep) && (sep_len = sexp_string_size(sep)) > 0) { csep = data(sep); len += sep_len*(i-1); }
      res = make_string(len); p = data(res);
      for (ls...) { memcpy(p, data(car ls), size); p += size;
                    if (sep_len && pairp(cdr ls)) { memcpy(p, csep, sep_len); p += sep_len; } }
      *p = 0
    [sep_len] is a BYTE count (sexp_string_size), used both for sizing and for every copy. *)
Fixpoint concat_loop (h : heap) (ss : list str) (csep : list Z) (sep_len : nat) (b : list Z) (p : nat)
  : list Z * nat :=
  match ss with
  | [] => (b, p)
  | s :: rest =>
      let b := memcpy b p (sdata h s) (ssize s) in
      let p := (p + ssize s)%nat in
      match rest with
      | [] => concat_loop h rest csep sep_len b p
      | _ :: _ =>
          if (0 <? sep_len)%nat
          then concat_loop h rest csep sep_len (memcpy b p csep sep_len) (p + sep_len)%nat
          else concat_loop h rest csep sep_len b p
      end
  end.

Definition string_concatenate (h : heap) (ss : list str) (sep : option str) : heap * str :=
  let len := fold_left (fun a s => (a + ssize s)%nat) ss O in
  let i := length ss in
  let sep_len := match sep with Some sp => if (0 <? i)%nat then ssize sp else O | None => O end in
  let csep := match sep with Some sp => sdata h sp | None => [] end in
  let len := (len + sep_len * (i - 1))%nat in
  let '(b, p) := concat_loop h ss csep sep_len (make_bytes len) O in
  let b := overwrite b p [0] in
  (h ++ [b], mkstr (length h) 0 len false).

(** sexp_make_string_op (sexp.c:1401-1438): ASCII -> memset; otherwise clen*len bytes, one
    sexp_utf8_encode_char per position *)
Fixpoint fill_loop (b : list Z) (enc : list Z) (clen : nat) (j n : nat) : list Z :=
  match n with
  | O => b
  | S n' => fill_loop (overwrite b (j * clen) enc) enc clen (S j) n'
  end.
Definition make_string (h : heap) (len : nat) (c : Z) : heap * str :=
  if c >=? 128 then
    let clen := width c in
    let b := fill_loop (make_bytes (len * clen)) (sexp_utf8_encode_char (Z.of_nat clen) c) clen 0 len in
    (h ++ [b], mkstr (length h) 0 (len * clen) false)
  else
    (h ++ [repeat c len ++ [0]], mkstr (length h) 0 len false).

(** sexp_bytes_to_string (lib/chibi/io/port.c:260-271) = utf8->string!: shares the bytevector *)
Definition of_utf8_shared (bv : nat) (start end_ : nat) : str := mkstr bv start (end_ - start) false.

(** utf8->string (lib/chibi/io/io.scm:12-15) = string-copy of the shared string *)
Definition of_utf8 (h : heap) (bv : nat) (start end_ : nat) : res (heap * str) :=
  string_copy h (of_utf8_shared bv start end_).

(** sexp_string_to_utf8 (port.c:337-342): sexp_c_string(data, size), returned as bytes *)
Definition to_utf8 (h : heap) (s : str) : heap * nat :=
  let '(h', r) := new_string_from h (sdata h s) (ssize s) in (h', sbytes r).

(** the bytes of a string as string->utf8 shows them *)
Definition slice (h : heap) (s : str) : list Z := firstn (ssize s) (sdata h s).

(* ------------------------------------------------------------------------------------- *)
(** * Cursors (sexp.h:1830-1831, vm.c:1573-1596) *)

Definition cursor_next (h : heap) (s : str) (i : nat) : nat := (i + lead_count (byte_at (sdata h s) i))%nat.

(** sexp_string_utf8_prev (sexp.c:1246-1250): step back while the byte is a continuation byte (b>>6 == 2) — on the store, since
    the scan is not bounded by the string's offset; leaving the store is an explicit error *)
Fixpoint utf8_prev_loop (d : list Z) (p : nat) : res nat :=
  match p with
  | O => Err RangeErr
  | S p' => if Z.shiftr (byte_at d p') 6 =? 2 then utf8_prev_loop d p' else Ok p'
  end.
Definition cursor_prev (h : heap) (s : str) (i : nat) : res Z :=
  match utf8_prev_loop (store h s) (soff s + i) with
  | Ok p => Ok (Z.of_nat p - Z.of_nat (soff s))
  | Err e => Err e
  end.
Definition cursor_end (s : str) : nat := ssize s.

(* ------------------------------------------------------------------------------------- *)
(** * Operation histories over a set of string variables *)

Inductive op : Type :=
| OSet (v : nat) (i : Z) (c : Z)                 (* (string-set! v i c) *)
| OSubstring (v : nat) (a : Z) (b : option Z)    (* push (substring v a [b]) *)
| OAppend (vs : list nat)                        (* push (string-append v ...) *)
| OCopy (v : nat)                                (* push (string-copy v) *)
| OMake (n : nat) (c : Z)                        (* push (make-string n c) *)
| OLit (cs : list Z).                            (* push a fresh string holding the given characters *)

Record mstate : Type := mkst { mheap : heap; mvars : list str }.

Definition dummy_str : str := mkstr 0 0 0 false.
Definition var (st : mstate) (v : nat) : str := nth v (mvars st) dummy_str.

(** one step; [None] = the operation raised an error (the state is unchanged) *)
Definition step (st : mstate) (o : op) : option mstate :=
  let h := mheap st in
  match o with
  | OSet v i c =>
      if (v <? length (mvars st))%nat then
        match string_set h (var st v) i c with
        | Ok (h', s') => Some (mkst h' (set_nth v s' (mvars st)))
        | Err _ => None
        end
      else None
  | OSubstring v a b =>
      if (v <? length (mvars st))%nat then
        match substring h (var st v) a b with
        | Ok (h', s') => Some (mkst h' (mvars st ++ [s']))
        | Err _ => None
        end
      else None
  | OAppend vs =>
      if forallb (fun v => (v <? length (mvars st))%nat) vs then
        let '(h', s') := string_append h (map (var st) vs) in Some (mkst h' (mvars st ++ [s']))
      else None
  | OCopy v =>
      if (v <? length (mvars st))%nat then
        match string_copy h (var st v) with
        | Ok (h', s') => Some (mkst h' (mvars st ++ [s']))
        | Err _ => None
        end
      else None
  | OMake n c =>
      let '(h', s') := make_string h n c in Some (mkst h' (mvars st ++ [s']))
  | OLit cs =>
      let b := flat_map encode cs in
      let '(h', s') := new_string_from h b (length b) in Some (mkst h' (mvars st ++ [s']))
  end.

(** a failing operation leaves the state as it was and the history goes on *)
Definition run (st : mstate) (ops : list op) : mstate :=
  fold_left (fun st o => match step st o with Some st' => st' | None => st end) ops st.
