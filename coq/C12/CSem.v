(** C12 — C integer semantics used by the regenerated leaf functions (coq/Gen/C12_Leaf.v).
    The translator gen/c12_leaf.py emits [wrap bits e] for every operation whose C type is
    unsigned, [swrap bits e] for a narrowing conversion to a signed type, and collects
    [in_s bits e] (the value of a signed operation stays inside its type) in the generated
    [<fn>_safe] predicate.  A [sexp]-returning function becomes a [cres]. *)
From Coq Require Export ZArith List Lia Bool.
Export ListNotations.
Local Open Scope Z_scope.

Definition wrap (bits x : Z) : Z := x mod 2 ^ bits.

Definition swrap (bits x : Z) : Z :=
  let r := x mod 2 ^ bits in
  if r <? 2 ^ (bits - 1) then r else r - 2 ^ bits.

Definition in_s (bits x : Z) : bool := (- 2 ^ (bits - 1) <=? x) && (x <? 2 ^ (bits - 1)).

Inductive cres : Type := RVal (w : Z) | RErr.
