(** C12 round 4 — string-copy! (lib/scheme/extras.scm:271-281) refines the array copy, for another
    target and for the string onto itself in both overlap directions. *)
From Coq Require Import ZifyBool.
From ChibiV Require Import C12.Model C12.Spec C12.Utf8Proofs C12.Proofs C12.Proofs2 C12.Proofs3 C12.PortModel C12.PortProofs C12.RangeModel C12.OutProofs C12.RangeProofs.
Local Open Scope Z_scope.
Ltac Zify.zify_post_hook ::= Z.div_mod_to_equations.

(** the specification: positions at .. at+(e-a)-1 of the target become from[a..e-1] *)
Definition copy_result (tcs fcs : list Z) (at_ a e : nat) : list Z :=
  firstn at_ tcs ++ sub a e fcs ++ skipn (at_ + (e - a)) tcs.

(* ------------------------------------------------------------------------------------- *)
(** * lists *)

Lemma nth_firstn_lt {A} (l : list A) n p d : (p < n)%nat -> nth p (firstn n l) d = nth p l d.
Proof.
  revert n p. induction l as [|x l IH]; intros n p H.
  - rewrite firstn_nil. reflexivity.
  - destruct n as [|n]; [lia|]. destruct p as [|p]; cbn [firstn nth]; [reflexivity|]. apply IH. lia.
Qed.

Lemma nth_skipn_add {A} (l : list A) n p d : nth p (skipn n l) d = nth (n + p) l d.
Proof.
  revert l. induction n as [|n IH]; intros l; [reflexivity|].
  destruct l as [|x l]; cbn [skipn Nat.add nth]; [destruct p; reflexivity|]. apply IH.
Qed.

Lemma copy_result_length tcs fcs at_ a e : (a <= e)%nat -> (e <= length fcs)%nat ->
  (at_ + (e - a) <= length tcs)%nat -> length (copy_result tcs fcs at_ a e) = length tcs.
Proof.
  intros H1 H2 H3. unfold copy_result, sub.
  rewrite !app_length, !firstn_length, !skipn_length. lia.
Qed.

Lemma copy_result_nth tcs fcs at_ a e p : (a <= e)%nat -> (e <= length fcs)%nat ->
  (at_ + (e - a) <= length tcs)%nat ->
  nth p (copy_result tcs fcs at_ a e) 0 =
  if ((at_ <=? p) && (p <? at_ + (e - a)))%nat then nth (a + (p - at_)) fcs 0 else nth p tcs 0.
Proof.
  intros H1 H2 H3. unfold copy_result, sub.
  assert (L1 : length (firstn at_ tcs) = at_) by (rewrite firstn_length; lia).
  assert (L2 : length (firstn (e - a) (skipn a fcs)) = (e - a)%nat) by (rewrite firstn_length, skipn_length; lia).
  destruct (at_ <=? p)%nat eqn:C1; cbn [andb].
  - apply Nat.leb_le in C1. rewrite app_nth2 by lia. rewrite L1.
    destruct (p <? at_ + (e - a))%nat eqn:C2.
    + apply Nat.ltb_lt in C2. rewrite app_nth1 by lia. rewrite nth_firstn_lt by lia. apply nth_skipn_add.
    + apply Nat.ltb_ge in C2. rewrite app_nth2 by lia. rewrite L2, nth_skipn_add. f_equal. lia.
  - apply Nat.leb_gt in C1. rewrite app_nth1 by lia. apply nth_firstn_lt. exact C1.
Qed.

(* ------------------------------------------------------------------------------------- *)
(** * the loop on arrays *)

(** what a string-ref reads: the target as mutated so far when source and target are one object *)
Definition srcl (same : bool) (fcs L : list Z) : list Z := if same then L else fcs.

Fixpoint copy_spec (same : bool) (fcs L : list Z) (i j d : Z) (n : nat) : list Z :=
  match n with
  | O => L
  | S n' => copy_spec same fcs (upd (Z.to_nat i) (nth (Z.to_nat j) (srcl same fcs L) 0) L) (i + d) (j + d) d n'
  end.

(** the indices i, i+d, .., i+(n-1)d are inside [0, len) (d = 1 or -1) *)
Definition in_bounds (i d : Z) (n len : nat) : Prop :=
  (0 < n)%nat -> 0 <= i < Z.of_nat len /\ 0 <= i + (Z.of_nat n - 1) * d < Z.of_nat len.

Lemma copy_spec_length same fcs d n : forall L i j, length (copy_spec same fcs L i j d n) = length L.
Proof.
  induction n as [|n IH]; intros L i j; cbn [copy_spec]; [reflexivity|]. rewrite IH. apply upd_length.
Qed.

Lemma srcl_upd_length same fcs k x L : length (srcl same fcs (upd k x L)) = length (srcl same fcs L).
Proof. destruct same; cbn [srcl]; [apply upd_length|reflexivity]. Qed.

(** pointwise: the written positions hold what the source held BEFORE the loop; when source and target
    are one array this needs the direction to be the right one ((i - j) * d <= 0) *)
Lemma copy_spec_nth same fcs d : (d = 1 \/ d = -1) -> forall n L i j p,
  (same = true -> (i - j) * d <= 0) ->
  in_bounds i d n (length L) -> in_bounds j d n (length (srcl same fcs L)) ->
  nth p (copy_spec same fcs L i j d n) 0 =
  if (0 <=? (Z.of_nat p - i) * d) && ((Z.of_nat p - i) * d <? Z.of_nat n)
  then nth (Z.to_nat (j + (Z.of_nat p - i))) (srcl same fcs L) 0 else nth p L 0.
Proof.
  intros Hd. induction n as [|n IH]; intros L i j p Hs Bi Bj.
  - cbn [copy_spec]. replace ((0 <=? (Z.of_nat p - i) * d) && ((Z.of_nat p - i) * d <? Z.of_nat 0)) with false by lia.
    reflexivity.
  - cbn [copy_spec]. unfold in_bounds in Bi, Bj.
    rewrite IH.
    + destruct (Z.eq_dec (Z.of_nat p) i) as [E|NE].
      * replace ((0 <=? (Z.of_nat p - (i + d)) * d) && ((Z.of_nat p - (i + d)) * d <? Z.of_nat n)) with false
          by (destruct Hd; subst d; lia).
        replace ((0 <=? (Z.of_nat p - i) * d) && ((Z.of_nat p - i) * d <? Z.of_nat (S n))) with true
          by (destruct Hd; subst d; lia).
        replace p with (Z.to_nat i) by lia. rewrite nth_upd_eq by lia.
        f_equal. lia.
      * replace ((0 <=? (Z.of_nat p - (i + d)) * d) && ((Z.of_nat p - (i + d)) * d <? Z.of_nat n))
          with ((0 <=? (Z.of_nat p - i) * d) && ((Z.of_nat p - i) * d <? Z.of_nat (S n)))
          by (destruct Hd; subst d; lia).
        destruct ((0 <=? (Z.of_nat p - i) * d) && ((Z.of_nat p - i) * d <? Z.of_nat (S n))) eqn:C.
        -- replace (j + d + (Z.of_nat p - (i + d))) with (j + (Z.of_nat p - i)) by lia.
           destruct same; cbn [srcl]; [|reflexivity].
           apply nth_upd_neq. specialize (Hs eq_refl). cbn [srcl] in Bj. destruct Hd; subst d; lia.
        -- apply nth_upd_neq. lia.
    + intros E. specialize (Hs E). destruct Hd; subst d; lia.
    + unfold in_bounds. rewrite upd_length. destruct Hd; subst d; lia.
    + unfold in_bounds. rewrite srcl_upd_length. destruct Hd; subst d; lia.
Qed.

(** both loops of string-copy! compute copy_result *)
Lemma copy_spec_result same fcs tcs d i j at_ a e : (same = true -> fcs = tcs) ->
  0 <= a <= e -> e <= Z.of_nat (length fcs) -> 0 <= at_ -> at_ + (e - a) <= Z.of_nat (length tcs) ->
  (d = 1 /\ i = at_ /\ j = a /\ at_ <= a) \/ (d = -1 /\ i = at_ + (e - a - 1) /\ j = e - 1 /\ a < at_) ->
  in_bounds i d (Z.to_nat (e - a)) (length tcs) /\ in_bounds j d (Z.to_nat (e - a)) (length (srcl same fcs tcs)) /\
  copy_spec same fcs tcs i j d (Z.to_nat (e - a)) = copy_result tcs fcs (Z.to_nat at_) (Z.to_nat a) (Z.to_nat e).
Proof.
  intros Hs Hae He Hat Hroom Hdir.
  assert (SL : srcl same fcs tcs = fcs) by (destruct same; cbn [srcl]; [symmetry; apply Hs; reflexivity|reflexivity]).
  assert (Bi : in_bounds i d (Z.to_nat (e - a)) (length tcs)).
  { unfold in_bounds. destruct Hdir as [(-> & -> & -> & Hle)|(-> & -> & -> & Hlt)]; lia. }
  assert (Bj : in_bounds j d (Z.to_nat (e - a)) (length (srcl same fcs tcs))).
  { rewrite SL. unfold in_bounds. destruct Hdir as [(-> & -> & -> & Hle)|(-> & -> & -> & Hlt)]; lia. }
  split; [exact Bi|]. split; [exact Bj|].
  apply nth_ext with (d := 0) (d' := 0).
  - rewrite copy_spec_length, copy_result_length by lia. reflexivity.
  - intros p _. rewrite copy_spec_nth; [| destruct Hdir as [(-> & _)|(-> & _)]; auto | | exact Bi | exact Bj].
    + rewrite copy_result_nth by lia. rewrite SL.
      destruct Hdir as [(-> & -> & -> & Hle)|(-> & -> & -> & Hlt)].
      * replace ((0 <=? (Z.of_nat p - at_) * 1) && ((Z.of_nat p - at_) * 1 <? Z.of_nat (Z.to_nat (e - a))))
          with ((Z.to_nat at_ <=? p) && (p <? Z.to_nat at_ + (Z.to_nat e - Z.to_nat a)))%nat by lia.
        destruct ((Z.to_nat at_ <=? p) && (p <? Z.to_nat at_ + (Z.to_nat e - Z.to_nat a)))%nat eqn:C; [|reflexivity].
        f_equal. lia.
      * replace ((0 <=? (Z.of_nat p - (at_ + (e - a - 1))) * -1) && ((Z.of_nat p - (at_ + (e - a - 1))) * -1 <? Z.of_nat (Z.to_nat (e - a))))
          with ((Z.to_nat at_ <=? p) && (p <? Z.to_nat at_ + (Z.to_nat e - Z.to_nat a)))%nat by lia.
        destruct ((Z.to_nat at_ <=? p) && (p <? Z.to_nat at_ + (Z.to_nat e - Z.to_nat a)))%nat eqn:C; [|reflexivity].
        f_equal. lia.
    + intros _. destruct Hdir as [(-> & -> & -> & Hle)|(-> & -> & -> & Hlt)]; lia.
Qed.

(* ------------------------------------------------------------------------------------- *)
(** * the loop on strings *)

Lemma string_set_heap_len h s i c h' s' : string_set h s i c = Ok (h', s') -> (length h <= length h')%nat.
Proof.
  unfold string_set. destruct (index_to_cursor h s i) as [off|]; [|discriminate].
  destruct (ssize s <=? off)%nat; [discriminate|]. unfold utf8_set.
  destruct (scow s || negb _); intros E; injection E as <- <-.
  - rewrite app_length. cbn [length]. lia.
  - rewrite set_nth_length. lia.
Qed.

Lemma Rep_id_lt h s cs : Rep h s cs -> (sbytes s < length h)%nat.
Proof. intros (_ & X & _). exact X. Qed.

(** every iteration is a string-ref that succeeds and a string-set! that succeeds; the target may move to
    a fresh store at every step, the source (another store) and all other strings keep their contents *)
Lemma copy_loop_spec from same fcs d : (d = 1 \/ d = -1) -> forall n h to L i j,
  Rep h to L ->
  (same = false -> Rep h from fcs /\ sbytes to <> sbytes from) ->
  in_bounds i d n (length L) -> in_bounds j d n (length (srcl same fcs L)) ->
  exists h' to', copy_loop h to from same i j d n = Ok (h', to') /\
    Rep h' to' (copy_spec same fcs L i j d n) /\
    (sbytes to' = sbytes to \/ (length h <= sbytes to')%nat) /\ (length h <= length h')%nat /\
    (forall t ct, Rep h t ct -> sbytes t <> sbytes to -> Rep h' t ct).
Proof.
  intros Hd. induction n as [|n IH]; intros h to L i j R Hf Bi Bj.
  - exists h, to. cbn [copy_loop copy_spec]. split; [reflexivity|]. split; [exact R|].
    split; [left; reflexivity|]. split; [lia|]. intros t ct Rt _. exact Rt.
  - cbn [copy_loop copy_spec].
    assert (RS : Rep h (if same then to else from) (srcl same fcs L)).
    { destruct same; cbn [srcl]; [exact R|apply Hf; reflexivity]. }
    assert (Bi' := Bi). assert (Bj' := Bj). unfold in_bounds in Bi', Bj'.
    rewrite (ref_refines _ _ _ j RS).
    replace ((0 <=? j) && (j <? Z.of_nat (length (srcl same fcs L)))) with true by lia.
    set (c := nth (Z.to_nat j) (srcl same fcs L) 0).
    assert (Hc : cp c).
    { destruct RS as (Hcp & _). apply Forall_forall with (l := srcl same fcs L); [exact Hcp|apply nth_In; lia]. }
    pose proof (set_refines h to L i c R Hc) as HS.
    replace ((0 <=? i) && (i <? Z.of_nat (length L))) with true in HS by lia.
    destruct HS as (h1 & to1 & HS & R1). rewrite HS.
    pose proof (string_set_id _ _ _ _ _ _ HS) as Hid.
    pose proof (string_set_heap_len _ _ _ _ _ _ HS) as Hlen.
    pose proof (Rep_id_lt _ _ _ R) as Hto.
    destruct (IH h1 to1 (upd (Z.to_nat i) c L) (i + d) (j + d) R1) as (h' & to' & F & R' & Hid' & Hlen' & Fr).
    + intros Es. destruct (Hf Es) as (Rf & Hne). pose proof (Rep_id_lt _ _ _ Rf) as Hfl. split.
      * apply (set_does_not_touch_other_strings h to L i c h1 to1 from fcs R Hc HS Rf). left. auto.
      * destruct Hid as [E|E]; rewrite E; [exact Hne|lia].
    + unfold in_bounds. rewrite upd_length. destruct Hd; subst d; lia.
    + unfold in_bounds. rewrite srcl_upd_length. destruct Hd; subst d; lia.
    + exists h', to'. split; [exact F|]. split; [exact R'|]. split; [|split].
      * destruct Hid' as [E|E]; [rewrite E; destruct Hid as [E2|E2]; [left; exact E2|right; lia]|right; lia].
      * lia.
      * intros t ct Rt Hne. pose proof (Rep_id_lt _ _ _ Rt) as Htl. apply Fr.
        -- apply (set_does_not_touch_other_strings h to L i c h1 to1 t ct R Hc HS Rt). left. exact Hne.
        -- destruct Hid as [E|E]; rewrite E; [exact Hne|lia].
Qed.

(** the two arms of string-copy! after the lengths and the limit are computed *)
Lemma copy_core h to from same tcs fcs at_ a e :
  Rep h to tcs -> (same = false -> Rep h from fcs /\ sbytes to <> sbytes from) -> (same = true -> fcs = tcs) ->
  0 <= a <= e -> e <= Z.of_nat (length fcs) -> 0 <= at_ -> at_ + (e - a) <= Z.of_nat (length tcs) ->
  exists h' to',
    (if at_ <=? a then copy_loop h to from same at_ a 1 (Z.to_nat (e - a))
     else copy_loop h to from same (at_ + (e - a - 1)) (e - 1) (-1) (Z.to_nat (e - a))) = Ok (h', to') /\
    Rep h' to' (copy_result tcs fcs (Z.to_nat at_) (Z.to_nat a) (Z.to_nat e)) /\
    (sbytes to' = sbytes to \/ (length h <= sbytes to')%nat) /\ (length h <= length h')%nat /\
    (forall t ct, Rep h t ct -> sbytes t <> sbytes to -> Rep h' t ct).
Proof.
  intros R Hf Hs Hae He Hat Hroom.
  destruct (at_ <=? a) eqn:C.
  - destruct (copy_spec_result same fcs tcs 1 at_ a at_ a e Hs Hae He Hat Hroom) as (Bi & Bj & E); [left; lia|].
    rewrite <- E. apply copy_loop_spec; auto.
  - destruct (copy_spec_result same fcs tcs (-1) (at_ + (e - a - 1)) (e - 1) at_ a e Hs Hae He Hat Hroom) as (Bi & Bj & E); [right; lia|].
    rewrite <- E. apply copy_loop_spec; auto.
Qed.

(* ------------------------------------------------------------------------------------- *)
(** * string-copy! *)

(** another target: source and target live in different stores *)
Theorem copy_bang_other h to from tcs fcs at_ r :
  Rep h to tcs -> Rep h from fcs -> sbytes to <> sbytes from ->
  let '(a, e) := range_bounds r (length fcs) in
  0 <= a <= e -> e <= Z.of_nat (length fcs) -> 0 <= at_ -> at_ + (e - a) <= Z.of_nat (length tcs) ->
  exists h' to', string_copy_bang h to at_ from false r = Ok (h', to') /\
    Rep h' to' (copy_result tcs fcs (Z.to_nat at_) (Z.to_nat a) (Z.to_nat e)) /\
    (sbytes to' = sbytes to \/ (length h <= sbytes to')%nat) /\ (length h <= length h')%nat /\
    (forall t ct, Rep h t ct -> sbytes t <> sbytes to -> Rep h' t ct).
Proof.
  intros R Rf Hne. destruct (range_bounds r (length fcs)) as [a e] eqn:RB. intros Hae He Hat Hroom.
  pose proof (copy_core h to from false tcs fcs at_ a e R (fun _ => conj Rf Hne)) as G.
  specialize (G (fun X => False_ind _ (Bool.diff_false_true X)) Hae He Hat Hroom).
  unfold string_copy_bang. cbv iota.
  rewrite (length_refines h from fcs Rf), (length_refines h to tcs R). cbv beta iota zeta.
  destruct r as [|a0|a0 e0]; cbn [range_bounds] in RB; apply pair_equal_spec in RB; destruct RB as [<- <-];
    rewrite Z.min_l by lia; exact G.
Qed.

(** the string onto itself: BOTH overlap directions (at <= start: forward loop; at > start: backward loop) *)
Theorem copy_bang_same h s cs at_ r :
  Rep h s cs ->
  let '(a, e) := range_bounds r (length cs) in
  0 <= a <= e -> e <= Z.of_nat (length cs) -> 0 <= at_ -> at_ + (e - a) <= Z.of_nat (length cs) ->
  exists h' s', string_copy_bang h s at_ s true r = Ok (h', s') /\
    Rep h' s' (copy_result cs cs (Z.to_nat at_) (Z.to_nat a) (Z.to_nat e)) /\
    (sbytes s' = sbytes s \/ (length h <= sbytes s')%nat) /\ (length h <= length h')%nat /\
    (forall t ct, Rep h t ct -> sbytes t <> sbytes s -> Rep h' t ct).
Proof.
  intros R. destruct (range_bounds r (length cs)) as [a e] eqn:RB. intros Hae He Hat Hroom.
  pose proof (copy_core h s s true cs cs at_ a e R) as G.
  specialize (G (fun X => False_ind _ (Bool.diff_true_false X)) (fun _ => eq_refl) Hae He Hat Hroom).
  unfold string_copy_bang. cbv iota.
  rewrite (length_refines h s cs R). cbv beta iota zeta.
  destruct r as [|a0|a0 e0]; cbn [range_bounds] in RB; apply pair_equal_spec in RB; destruct RB as [<- <-];
    rewrite Z.min_l by lia; exact G.
Qed.

(* ------------------------------------------------------------------------------------- *)
(** * non-vacuity *)

(** a second string "hé!" in its own store next to "aλ€😀z" (offset 2 of store 0) *)
Definition ex2_heap : heap := ex_heap ++ [[104; 195; 169; 33; 0]].
Definition ex2_to : str := mkstr 1 0 4 false.
Definition ex2_tcs : list Z := [104; 233; 33].

Lemma ex2_rep_to : Rep ex2_heap ex2_to ex2_tcs.
Proof.
  repeat split.
  - repeat constructor; unfold cp; lia.
  - cbn. lia.
  - exists [0]. split; [vm_compute; reflexivity|discriminate].
Qed.
Lemma ex2_rep_from : Rep ex2_heap ex_str ex_cs.
Proof. apply Rep_heap_app. exact ex_rep. Qed.

(** the hypotheses of copy_bang_other hold here; "€😀" (3 and 4 bytes) over "é!" (2 and 1 bytes);
    at = 1 <= start = 2: the forward loop *)
Example ex_copy_other_hyps :
  Rep ex2_heap ex2_to ex2_tcs /\ Rep ex2_heap ex_str ex_cs /\ sbytes ex2_to <> sbytes ex_str /\
  (let '(a, e) := range_bounds (RBoth 2 4) (length ex_cs) in
   0 <= a <= e /\ e <= Z.of_nat (length ex_cs) /\ 0 <= 1 /\ 1 + (e - a) <= Z.of_nat (length ex2_tcs)).
Proof.
  split; [exact ex2_rep_to|]. split; [exact ex2_rep_from|]. split; [cbn; lia|]. cbn. lia.
Qed.
Example ex_copy_other_fwd :
  match string_copy_bang ex2_heap ex2_to 1 ex_str false (RBoth 2 4) with
  | Ok (h', s') => slice h' s' = enc_all [104; 8364; 128512] /\ slice h' ex_str = enc_all ex_cs /\
                   copy_result ex2_tcs ex_cs 1 2 4 = [104; 8364; 128512]
  | Err _ => False end.
Proof. vm_compute. auto. Qed.
(** at = 2 > start = 0: the backward loop, another target *)
Example ex_copy_other_bwd :
  match string_copy_bang ex2_heap ex2_to 2 ex_str false (RBoth 0 1) with
  | Ok (h', s') => slice h' s' = enc_all [104; 233; 97] /\ copy_result ex2_tcs ex_cs 2 0 1 = [104; 233; 97]
  | Err _ => False end.
Proof. vm_compute. auto. Qed.
(** no range / start only: the defaults *)
Example ex_copy_other_defaults :
  match string_copy_bang ex2_heap ex_str 1 ex2_to false RNone, string_copy_bang ex2_heap ex_str 3 ex2_to false (RStart 1) with
  | Ok (h1, s1), Ok (h2, s2) => slice h1 s1 = enc_all [97; 104; 233; 33; 122] /\ slice h2 s2 = enc_all [97; 955; 8364; 233; 33]
  | _, _ => False end.
Proof. vm_compute. auto. Qed.

(** the string onto itself, overlapping, every copied character changes its byte width:
    at = 0 <= start = 1 (forward loop) and at = 2 > start = 0 (backward loop; a forward loop would
    give [97; 955; 97; 955; 97]) *)
Example ex_copy_same_hyps :
  Rep ex_heap ex_str ex_cs /\
  (let '(a, e) := range_bounds (RBoth 1 4) (length ex_cs) in
   0 <= a <= e /\ e <= Z.of_nat (length ex_cs) /\ 0 <= 0 /\ 0 + (e - a) <= Z.of_nat (length ex_cs)) /\
  (let '(a, e) := range_bounds (RBoth 0 3) (length ex_cs) in
   0 <= a <= e /\ e <= Z.of_nat (length ex_cs) /\ 0 <= 2 /\ 2 + (e - a) <= Z.of_nat (length ex_cs)).
Proof. split; [exact ex_rep|]. cbn. lia. Qed.
Example ex_copy_same_fwd :
  match string_copy_bang ex_heap ex_str 0 ex_str true (RBoth 1 4) with
  | Ok (h', s') => slice h' s' = enc_all [955; 8364; 128512; 128512; 122] /\
                   copy_result ex_cs ex_cs 0 1 4 = [955; 8364; 128512; 128512; 122]
  | Err _ => False end.
Proof. vm_compute. auto. Qed.
Example ex_copy_same_bwd :
  match string_copy_bang ex_heap ex_str 2 ex_str true (RBoth 0 3) with
  | Ok (h', s') => slice h' s' = enc_all [97; 955; 97; 955; 8364] /\
                   copy_result ex_cs ex_cs 2 0 3 = [97; 955; 97; 955; 8364]
  | Err _ => False end.
Proof. vm_compute. auto. Qed.

Print Assumptions copy_bang_other.
Print Assumptions copy_bang_same.
