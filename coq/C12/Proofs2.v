(** C12 — constructors (substring, string-append, string-copy, make-string, conversions), cursors, and
    the lift of the per-operation refinements over whole operation histories. *)
From Coq Require Import ZifyBool.
From ChibiV Require Import C12.Model C12.Spec C12.Utf8Proofs C12.Proofs.
Local Open Scope Z_scope.

Ltac Zify.zify_post_hook ::= Z.div_mod_to_equations.

(* ---------------------------------------------------------------- fresh strings *)
Lemma new_string_from_spec h src n bs rest : src = bs ++ rest -> length bs = n ->
  new_string_from h src n = (h ++ [bs ++ [0]], mkstr (length h) 0 n false).
Proof.
  intros -> <-. unfold new_string_from, memcpy, make_bytes.
  rewrite firstn_app, Nat.sub_diag, firstn_O, app_nil_r, firstn_all.
  rewrite repeat_app. cbn [repeat].
  rewrite overwrite_app0 by (rewrite repeat_length; reflexivity).
  rewrite <- (app_nil_r (bs ++ [0])) at 1. rewrite <- app_assoc.
  rewrite (overwrite_app bs [0] [] (length bs) [0]) by reflexivity.
  reflexivity.
Qed.

Lemma Rep_fresh h cs : Forall cp cs ->
  Rep (h ++ [enc_all cs ++ [0]]) (mkstr (length h) 0 (length (enc_all cs)) false) cs.
Proof.
  intros Hcp. repeat split; auto.
  - cbn [sbytes]. rewrite app_length. cbn. lia.
  - exists [0]. split; [|discriminate]. unfold sdata, store. cbn [sbytes soff skipn].
    rewrite app_nth2 by lia. rewrite Nat.sub_diag. reflexivity.
Qed.

(* ---------------------------------------------------------------- substring *)
Lemma firstn_firstn_le {A} (l : list A) i j : (i <= j)%nat -> firstn i (firstn j l) = firstn i l.
Proof. intros H. rewrite firstn_firstn. f_equal. lia. Qed.

Lemma Forall_firstn' {A} (P : A -> Prop) n l : Forall P l -> Forall P (firstn n l).
Proof. revert n; induction l as [|x l IH]; intros [|n] H; cbn; auto. inversion H; subst. constructor; auto. Qed.

Lemma Forall_skipn' {A} (P : A -> Prop) n l : Forall P l -> Forall P (skipn n l).
Proof. revert n; induction l as [|x l IH]; intros [|n] H; cbn; auto. inversion H; subst. auto. Qed.

Lemma prefix_len_strict cs e a : Forall cp cs -> (e < a)%nat -> (a <= length cs)%nat ->
  (length (enc_all (firstn e cs)) < length (enc_all (firstn a cs)))%nat.
Proof.
  intros Hcp He Ha. rewrite <- (firstn_firstn_le cs e a) by lia.
  apply prefix_len_lt.
  - apply Forall_firstn'; exact Hcp.
  - rewrite firstn_length. lia.
Qed.

Lemma prefix_len_le cs e a : Forall cp cs -> (e <= a)%nat -> (a <= length cs)%nat ->
  (length (enc_all (firstn e cs)) <= length (enc_all (firstn a cs)))%nat.
Proof.
  intros Hcp He Ha. destruct (Nat.eq_dec e a) as [->|N]; [lia|].
  pose proof (prefix_len_strict cs e a Hcp). lia.
Qed.

(** cs = firstn a cs ++ sub a e cs ++ skipn e cs *)
Lemma split3 {A} (l : list A) a e : (a <= e)%nat -> (e <= length l)%nat ->
  l = firstn a l ++ sub a e l ++ skipn e l /\ firstn e l = firstn a l ++ sub a e l.
Proof.
  intros Ha He. unfold sub.
  assert (F : firstn e l = firstn a l ++ firstn (e - a) (skipn a l)).
  { rewrite <- (firstn_skipn a l) at 1. rewrite firstn_app, firstn_length, Nat.min_l by lia.
    rewrite firstn_firstn, Nat.min_r by lia. reflexivity. }
  split; [|exact F]. rewrite app_assoc, <- F. symmetry. apply firstn_skipn.
Qed.

Lemma substring_cursor_spec h s cs a e : Rep h s cs -> (a <= e)%nat -> (e <= length cs)%nat ->
  substring_cursor h s (length (enc_all (firstn a cs))) (length (enc_all (firstn e cs)))
  = Ok (h ++ [enc_all (sub a e cs) ++ [0]], mkstr (length h) 0 (length (enc_all (sub a e cs))) false).
Proof.
  intros (Hcp & Hid & Hsz & post & Hd & Hp) Ha He. unfold substring_cursor.
  destruct (split3 cs a e Ha He) as [E3 Ee].
  assert (L1 : (length (enc_all (firstn a cs)) <= length (enc_all (firstn e cs)))%nat)
    by (apply prefix_len_le; auto).
  assert (L2 : (length (enc_all (firstn e cs)) <= ssize s)%nat).
  { rewrite Hsz. rewrite <- (firstn_all cs) at 2. apply prefix_len_le; auto. }
  assert (C1 : (ssize s <? length (enc_all (firstn a cs)))%nat = false) by (apply Nat.ltb_ge; lia).
  assert (C2 : (ssize s <? length (enc_all (firstn e cs)))%nat = false) by (apply Nat.ltb_ge; lia).
  assert (C3 : (length (enc_all (firstn e cs)) <? length (enc_all (firstn a cs)))%nat = false) by (apply Nat.ltb_ge; lia).
  rewrite C1, C2, C3. cbn [orb]. f_equal.
  assert (Ed : enc_all cs = enc_all (firstn a cs) ++ enc_all (sub a e cs) ++ enc_all (skipn e cs)).
  { rewrite E3 at 1. rewrite !enc_all_app. reflexivity. }
  rewrite Hd, Ed, <- !app_assoc.
  rewrite skipn_app, skipn_all, Nat.sub_diag. cbn [skipn app].
  rewrite Ee, enc_all_app, app_length.
  replace (length (enc_all (firstn a cs)) + length (enc_all (sub a e cs)) - length (enc_all (firstn a cs)))%nat
    with (length (enc_all (sub a e cs))) by lia.
  apply (new_string_from_spec h _ _ (enc_all (sub a e cs)) (enc_all (skipn e cs) ++ post)); reflexivity.
Qed.

(** substring refines array slicing; the result lives in a fresh store (nothing existing is written);
    an error exactly when not 0 <= a <= e <= length *)
Theorem substring_refines h s cs a b : Rep h s cs ->
  let n := Z.of_nat (length cs) in
  let e := match b with Some e => e | None => n end in
  if (0 <=? a) && (a <=? e) && (e <=? n) then
    exists q s', substring h s a b = Ok (h ++ [q], s') /\ sbytes s' = length h /\
                 Rep (h ++ [q]) s' (sub (Z.to_nat a) (Z.to_nat e) cs)
  else exists x, substring h s a b = Err x.
Proof.
  intros R n e. pose proof R as (Hcp & Hid & Hsz & post & Hd & Hp).
  unfold substring. rewrite (index_to_cursor_refines h s cs a R). fold n.
  destruct (0 <=? a) eqn:H0; cbn [andb]; [|eexists; reflexivity].
  destruct (a <=? n) eqn:H1.
  2:{ assert (E : (a <=? e) && (e <=? n) = false) by lia. rewrite E. eexists; reflexivity. }
  cbn [andb].
  assert (Fin : forall e' : nat, (Z.to_nat a <= e')%nat -> (e' <= length cs)%nat ->
            exists q s', substring_cursor h s (length (enc_all (firstn (Z.to_nat a) cs))) (length (enc_all (firstn e' cs)))
                         = Ok (h ++ [q], s') /\ sbytes s' = length h /\ Rep (h ++ [q]) s' (sub (Z.to_nat a) e' cs)).
  { intros e' Ha He. rewrite (substring_cursor_spec h s cs _ _ R Ha He).
    eexists _, _. split; [reflexivity|]. split; [reflexivity|].
    apply Rep_fresh. unfold sub. apply Forall_firstn', Forall_skipn'; exact Hcp. }
  destruct b as [eb|].
  - subst e. rewrite (index_to_cursor_refines h s cs eb R). fold n.
    destruct (a <=? eb) eqn:H2; cbn [andb].
    + destruct (eb <=? n) eqn:H3.
      * assert (E : (0 <=? eb) = true) by lia. rewrite E. cbn [andb].
        apply Fin; lia.
      * rewrite andb_false_r. eexists; reflexivity.
    + destruct ((0 <=? eb) && (eb <=? n)) eqn:H3; [|eexists; reflexivity].
      unfold substring_cursor.
      assert (S : (length (enc_all (firstn (Z.to_nat eb) cs)) < length (enc_all (firstn (Z.to_nat a) cs)))%nat)
        by (apply prefix_len_strict; [exact Hcp|lia|lia]).
      apply Nat.ltb_lt in S. rewrite S, !orb_true_r. eexists; reflexivity.
  - subst e. assert (E : (a <=? n) && (n <=? n) = true) by lia. rewrite E.
    replace (Z.to_nat n) with (length cs) by (unfold n; lia).
    rewrite Hsz.
    replace (length (enc_all cs)) with (length (enc_all (firstn (length cs) cs))) by (rewrite firstn_all; reflexivity).
    apply Fin; lia.
Qed.

Theorem string_copy_refines h s cs : Rep h s cs ->
  exists q s', string_copy h s = Ok (h ++ [q], s') /\ sbytes s' = length h /\ Rep (h ++ [q]) s' cs.
Proof.
  intros R. pose proof (substring_refines h s cs 0 None R) as S. cbv beta zeta iota in S.
  assert (E : (0 <=? 0) && (0 <=? Z.of_nat (length cs)) && (Z.of_nat (length cs) <=? Z.of_nat (length cs)) = true) by lia.
  rewrite E in S. destruct S as (q & s' & S1 & S2 & S3). exists q, s'. split; [exact S1|]. split; [exact S2|].
  unfold sub in S3. rewrite Nat2Z.id in S3. cbn [Z.to_nat skipn] in S3. rewrite Nat.sub_0_r, firstn_all in S3. exact S3.
Qed.

(* ---------------------------------------------------------------- string-append *)
Lemma sum_sizes h ss css : Forall2 (Rep h) ss css -> forall acc,
  fold_left (fun a s => (a + ssize s)%nat) ss acc = (acc + length (enc_all (concat css)))%nat.
Proof.
  induction 1 as [|s cs ss css R _ IH]; intros acc; cbn [fold_left concat].
  - cbn. lia.
  - rewrite IH. destruct R as (_ & _ & Hsz & _). rewrite enc_all_app, app_length, Hsz. lia.
Qed.

Lemma memcpy_app x y z bs post : length y = length bs ->
  memcpy (x ++ y ++ z) (length x) (bs ++ post) (length bs) = x ++ bs ++ z.
Proof.
  intros L. unfold memcpy. rewrite firstn_app, Nat.sub_diag, firstn_O, app_nil_r, firstn_all.
  apply overwrite_app; [reflexivity|exact L].
Qed.

Lemma append_loop h ss css : Forall2 (Rep h) ss css -> forall pre z,
  fold_left (fun bp s => (memcpy (fst bp) (snd bp) (sdata h s) (ssize s), (snd bp + ssize s)%nat)) ss
            (pre ++ repeat 0 (length (enc_all (concat css))) ++ z, length pre)
  = (pre ++ enc_all (concat css) ++ z, (length pre + length (enc_all (concat css)))%nat).
Proof.
  induction 1 as [|s cs ss css R _ IH]; intros pre z; cbn [fold_left concat].
  - cbn [enc_all flat_map length repeat app]. rewrite Nat.add_0_r. reflexivity.
  - cbn [fst snd]. destruct R as (Hcp & _ & Hsz & post & Hd & _).
    rewrite enc_all_app, app_length, repeat_app, <- !app_assoc.
    rewrite Hd, Hsz. rewrite memcpy_app by (rewrite repeat_length; reflexivity).
    specialize (IH (pre ++ enc_all cs) z). rewrite app_length, <- !app_assoc in IH.
    rewrite IH. f_equal. lia.
Qed.

(** string-append refines list concatenation, into a fresh store *)
Theorem append_refines h ss css : Forall2 (Rep h) ss css ->
  exists q s', string_append h ss = (h ++ [q], s') /\ sbytes s' = length h /\ Rep (h ++ [q]) s' (concat css).
Proof.
  intros F. unfold string_append. rewrite (sum_sizes h ss css F 0%nat). cbn [Nat.add].
  set (L := length (enc_all (concat css))).
  unfold make_bytes. rewrite repeat_app. cbn [repeat].
  pose proof (append_loop h ss css F [] [0]) as A. cbn [app length Nat.add] in A. fold L in A.
  rewrite A.
  rewrite <- (app_nil_r (enc_all (concat css) ++ [0])), <- app_assoc.
  rewrite (overwrite_app (enc_all (concat css)) [0] [] L [0]) by reflexivity.
  rewrite app_nil_r.
  eexists _, _. split; [reflexivity|]. split; [reflexivity|].
  apply Rep_fresh.
  clear A. induction F as [|s cs ss css R _ IH]; cbn [concat]; [constructor|].
  apply Forall_app. split; [apply R|exact IH].
Qed.

(* ---------------------------------------------------------------- make-string, literals *)
Lemma enc_all_repeat_len c n : cp c -> length (enc_all (repeat c n)) = (n * length (encode c))%nat.
Proof. intros H. induction n as [|n IH]; cbn [repeat enc_all flat_map]; [reflexivity|].
  fold (enc_all (repeat c n)). rewrite app_length, IH. cbn. lia. Qed.

Lemma enc_all_repeat_snoc c n : enc_all (repeat c n) ++ encode c = enc_all (repeat c (S n)).
Proof.
  induction n as [|n IH]; cbn [repeat enc_all flat_map]; [rewrite app_nil_r; reflexivity|].
  fold (enc_all (repeat c n)). rewrite <- app_assoc. f_equal. exact IH.
Qed.

Lemma fill_loop_spec c : cp c -> forall n j z,
  fill_loop (enc_all (repeat c j) ++ repeat 0 (n * length (encode c)) ++ z) (encode c) (length (encode c)) j n
  = enc_all (repeat c (j + n)) ++ z.
Proof.
  intros H. induction n as [|n IH]; intros j z; cbn [fill_loop].
  - cbn [Nat.mul repeat app]. rewrite Nat.add_0_r. reflexivity.
  - cbn [Nat.mul]. rewrite repeat_app, <- app_assoc.
    rewrite overwrite_app by (rewrite ?repeat_length, ?enc_all_repeat_len by exact H; reflexivity).
    rewrite app_assoc, enc_all_repeat_snoc. rewrite IH. f_equal. f_equal. f_equal. lia.
Qed.

Theorem make_string_refines h n c : cp c ->
  exists q s', make_string h n c = (h ++ [q], s') /\ sbytes s' = length h /\ Rep (h ++ [q]) s' (repeat c n).
Proof.
  intros H. unfold make_string.
  assert (Hr : Forall cp (repeat c n)) by (apply Forall_forall; intros x Hx; apply repeat_spec in Hx; subst; exact H).
  destruct (c >=? 128) eqn:Hc.
  - rewrite (encode_char_width c H), <- (encode_length c H).
    unfold make_bytes. rewrite repeat_app. cbn [repeat].
    pose proof (fill_loop_spec c H n 0%nat [0]) as F. cbn [repeat enc_all flat_map app Nat.add] in F.
    rewrite F.
    eexists _, _. split; [reflexivity|]. split; [reflexivity|].
    rewrite <- (enc_all_repeat_len c n H). apply Rep_fresh. exact Hr.
  - assert (K : 0 <= c < 128) by (unfold cp in H; lia).
    assert (E : enc_all (repeat c n) = repeat c n).
    { induction n as [|n IH]; cbn [repeat enc_all flat_map]; [reflexivity|].
      fold (enc_all (repeat c n)). rewrite IH, (encode_1 c K). reflexivity.
      apply Forall_forall; intros x Hx; apply repeat_spec in Hx; subst; exact H. }
    eexists _, _. split; [reflexivity|]. split; [reflexivity|].
    pose proof (Rep_fresh h (repeat c n) Hr) as RF. rewrite E, repeat_length in RF. exact RF.
Qed.

Theorem literal_refines h cs : Forall cp cs ->
  new_string_from h (flat_map encode cs) (length (flat_map encode cs))
  = (h ++ [enc_all cs ++ [0]], mkstr (length h) 0 (length (enc_all cs)) false).
Proof. intros _. apply (new_string_from_spec h _ _ (enc_all cs) []); [rewrite app_nil_r|]; reflexivity. Qed.

(* ---------------------------------------------------------------- what an observer sees *)
Lemma slice_rep h s cs : Rep h s cs -> slice h s = enc_all cs.
Proof.
  intros (_ & _ & Hsz & post & Hd & _). unfold slice. rewrite Hd, Hsz.
  rewrite firstn_app, Nat.sub_diag, firstn_O, app_nil_r. apply firstn_all.
Qed.

(** the bytes of a string of scalar values (what string->utf8 copies, what is handed to C or written to
    a port) are a concatenation of well-formed UTF-8 sequences denoting exactly its characters *)
Theorem slice_wellformed h s cs : Rep h s cs -> Forall is_scalar cs ->
  exists seqs, slice h s = concat seqs /\ Forall wf_seq seqs /\ map seq_value seqs = cs.
Proof.
  intros R S. exists (map encode cs). rewrite (slice_rep h s cs R). unfold enc_all.
  split; [apply flat_map_concat_map|].
  clear R. induction S as [|c cs Hc _ IH]; cbn [map]; [split; constructor|].
  destruct IH as [IH1 IH2]. destruct (encode_wellformed_scalar c Hc) as [W V].
  split; [constructor; assumption|]. rewrite V, IH2. reflexivity.
Qed.

(* ---------------------------------------------------------------- histories *)
Definition Inv (st : mstate) (sp : sstate) : Prop :=
  length (mvars st) = length sp /\ NoDup (map sbytes (mvars st)) /\
  forall v, (v < length sp)%nat -> Rep (mheap st) (var st v) (svar sp v).

Definition op_ok (o : op) : Prop :=
  match o with OSet _ _ c => cp c | OMake _ c => cp c | OLit cs => Forall cp cs | _ => True end.

Lemma NoDup_snoc {A} (l : list A) x : NoDup l -> ~ In x l -> NoDup (l ++ [x]).
Proof.
  induction l as [|y l IH]; intros N I; cbn [app].
  - constructor; [intros []|constructor].
  - inversion N; subst. constructor.
    + rewrite in_app_iff. intros [H|[H|[]]]; [contradiction|subst; apply I; left; reflexivity].
    + apply IH; [assumption|]. intros H; apply I; right; exact H.
Qed.

Lemma upd_set_nth {A} i (x : A) l : upd i x l = set_nth i x l.
Proof. revert i; induction l as [|y l IH]; intros [|i]; cbn; try reflexivity; f_equal; apply IH. Qed.

Lemma upd_length {A} n (x : A) l : length (upd n x l) = length l.
Proof. exact (set_nth_length n x l). Qed.
Lemma nth_upd_eq {A} n (x d : A) l : (n < length l)%nat -> nth n (upd n x l) d = x.
Proof. exact (nth_set_nth_eq n x d l). Qed.
Lemma nth_upd_neq {A} n m (x d : A) l : n <> m -> nth m (upd n x l) d = nth m l d.
Proof. exact (nth_set_nth_neq n m x d l). Qed.

Lemma map_set_nth {A B} (f : A -> B) i x l : map f (set_nth i x l) = set_nth i (f x) (map f l).
Proof. revert i; induction l as [|y l IH]; intros [|i]; cbn; try reflexivity; f_equal; apply IH. Qed.

Lemma set_nth_same {A} i (d : A) l : (i < length l)%nat -> set_nth i (nth i l d) l = l.
Proof. revert i; induction l as [|y l IH]; intros [|i] H; cbn in *; try lia; try reflexivity. rewrite IH by lia. reflexivity. Qed.

Lemma In_set_nth {A} i (x y : A) l : In y (set_nth i x l) -> y = x \/ In y l.
Proof.
  revert i; induction l as [|z l IH]; intros [|i]; cbn; auto.
  - intros [H|H]; auto.
  - intros [H|H]; auto. destruct (IH i H); auto.
Qed.

Lemma NoDup_set_nth {A} i (x : A) l : NoDup l -> ~ In x l -> NoDup (set_nth i x l).
Proof.
  revert i; induction l as [|y l IH]; intros [|i] N I; cbn [set_nth].
  - constructor.
  - constructor.
  - inversion N; subst. constructor; [|assumption]. intros H; apply I; right; exact H.
  - inversion N; subst. constructor.
    + intros H. destruct (In_set_nth _ _ _ _ H) as [E|H']; [subst; apply I; left; reflexivity|contradiction].
    + apply IH; [assumption|]. intros H; apply I; right; exact H.
Qed.

Lemma Inv_fresh_id st sp : Inv st sp -> ~ In (length (mheap st)) (map sbytes (mvars st)).
Proof.
  intros (Hl & _ & Hr) I. apply in_map_iff in I. destruct I as (s & E & I).
  destruct (In_nth _ _ dummy_str I) as (v & Hv & En).
  specialize (Hr v). rewrite <- Hl in Hr. specialize (Hr Hv). destruct Hr as (_ & Hid & _).
  unfold var in Hid. rewrite En, E in Hid. lia.
Qed.

Lemma Inv_push st sp q s' cs :
  Inv st sp -> sbytes s' = length (mheap st) -> Rep (mheap st ++ [q]) s' cs ->
  Inv (mkst (mheap st ++ [q]) (mvars st ++ [s'])) (sp ++ [cs]).
Proof.
  intros I Hid R. pose proof (Inv_fresh_id st sp I) as F. destruct I as (Hl & Hnd & Hr).
  split; [|split].
  - cbn [mvars]. rewrite !app_length, Hl. reflexivity.
  - cbn [mvars]. rewrite map_app. cbn [map]. apply NoDup_snoc; [exact Hnd|]. rewrite Hid. exact F.
  - intros v Hv. rewrite app_length in Hv. cbn [length] in Hv. unfold var, svar. cbn [mvars mheap].
    destruct (Nat.lt_ge_cases v (length sp)) as [L|G].
    + rewrite !app_nth1 by lia. apply Rep_heap_app. apply Hr. exact L.
    + assert (v = length sp) by lia. subst v.
      rewrite (app_nth2 sp) by lia. rewrite Nat.sub_diag. rewrite <- Hl.
      rewrite app_nth2 by lia. rewrite Nat.sub_diag. exact R.
Qed.

Lemma string_set_id h s i c h' s' : string_set h s i c = Ok (h', s') ->
  sbytes s' = sbytes s \/ sbytes s' = length h.
Proof.
  unfold string_set. destruct (index_to_cursor h s i) as [off|]; [|discriminate].
  destruct (ssize s <=? off)%nat; [discriminate|]. unfold utf8_set.
  destruct (scow s || negb _); intros E; injection E as <- <-; cbn [sbytes]; auto.
Qed.

Lemma NoDup_map_nth_neq {A} (f : A -> nat) l d v w :
  NoDup (map f l) -> (v < length l)%nat -> (w < length l)%nat -> w <> v -> f (nth w l d) <> f (nth v l d).
Proof.
  intros N Hv Hw Hne E. apply Hne.
  apply (proj1 (NoDup_nth (map f l) (f d)) N); rewrite ?map_length; auto.
  rewrite !map_nth. exact E.
Qed.

Lemma Forall2_vars st sp vs : Inv st sp -> forallb (fun v => (v <? length sp)%nat) vs = true ->
  Forall2 (Rep (mheap st)) (map (var st) vs) (map (svar sp) vs).
Proof.
  intros (_ & _ & Hr). induction vs as [|v vs IH]; cbn [forallb map]; intros H; [constructor|].
  apply andb_true_iff in H. destruct H as [H1 H2]. constructor; [|apply IH; exact H2].
  apply Hr. apply Nat.ltb_lt. exact H1.
Qed.

(** one operation: the model raises exactly when the array operation is undefined, and otherwise the
    new model state represents the new arrays *)
Theorem step_refines st sp o : Inv st sp -> op_ok o ->
  match step st o, spec_step sp o with
  | Some st', Some sp' => Inv st' sp'
  | None, None => True
  | _, _ => False
  end.
Proof.
  intros I Hok. pose proof I as (Hl & Hnd & Hr).
  destruct o as [v i c|v a b|vs|v|n c|cs]; cbn [step spec_step op_ok] in *.
  - (* string-set! *)
    rewrite Hl. destruct (v <? length sp)%nat eqn:Hv; cbn [andb]; [|exact Logic.I].
    apply Nat.ltb_lt in Hv. pose proof (Hr v Hv) as R.
    pose proof (set_refines (mheap st) (var st v) (svar sp v) i c R Hok) as S.
    destruct ((0 <=? i) && (i <? Z.of_nat (length (svar sp v)))) eqn:Hi.
    + destruct S as (h' & s' & S & R'). rewrite S.
      pose proof (string_set_id _ _ _ _ _ _ S) as Hid.
      split; [|split].
      * cbn [mvars]. rewrite set_nth_length, upd_length. exact Hl.
      * cbn [mvars]. rewrite map_set_nth. destruct Hid as [E|E]; rewrite E.
        -- unfold var. rewrite <- (map_nth sbytes). rewrite set_nth_same; [exact Hnd|]. rewrite map_length. lia.
        -- apply NoDup_set_nth; [exact Hnd|]. apply (Inv_fresh_id st sp I).
      * intros w Hw. rewrite upd_length in Hw. unfold var, svar. cbn [mvars mheap].
        destruct (Nat.eq_dec w v) as [->|Hne].
        -- rewrite nth_set_nth_eq, nth_upd_eq by lia. exact R'.
        -- rewrite nth_set_nth_neq, nth_upd_neq by auto.
           apply (set_does_not_touch_other_strings (mheap st) (var st v) (svar sp v) i c h' s' _ _ R Hok S (Hr w Hw)).
           left. unfold var. apply NoDup_map_nth_neq; auto; lia.
    + rewrite S. exact Logic.I.
  - (* substring *)
    rewrite Hl. destruct (v <? length sp)%nat eqn:Hv; cbn [andb]; [|exact Logic.I].
    apply Nat.ltb_lt in Hv. pose proof (Hr v Hv) as R.
    pose proof (substring_refines (mheap st) (var st v) (svar sp v) a b R) as S. cbv zeta in S.
    destruct ((0 <=? a) && (a <=? match b with Some e => e | None => Z.of_nat (length (svar sp v)) end)
              && (match b with Some e => e | None => Z.of_nat (length (svar sp v)) end <=? Z.of_nat (length (svar sp v)))) eqn:Hc.
    + destruct S as (q & s' & S & Hid & R'). rewrite S. apply Inv_push; assumption.
    + destruct S as (x & S). rewrite S. exact Logic.I.
  - (* string-append *)
    rewrite Hl. destruct (forallb (fun v => (v <? length sp)%nat) vs) eqn:Hv; [|exact Logic.I].
    destruct (append_refines (mheap st) _ _ (Forall2_vars st sp vs I Hv)) as (q & s' & S & Hid & R').
    rewrite S. apply Inv_push; assumption.
  - (* string-copy *)
    rewrite Hl. destruct (v <? length sp)%nat eqn:Hv; [|exact Logic.I].
    apply Nat.ltb_lt in Hv.
    destruct (string_copy_refines (mheap st) (var st v) (svar sp v) (Hr v Hv)) as (q & s' & S & Hid & R').
    rewrite S. apply Inv_push; assumption.
  - (* make-string *)
    destruct (make_string_refines (mheap st) n c Hok) as (q & s' & S & Hid & R').
    rewrite S. apply Inv_push; assumption.
  - (* a fresh string with given contents *)
    rewrite (literal_refines (mheap st) cs Hok).
    apply Inv_push; [exact I|reflexivity|apply Rep_fresh; exact Hok].
Qed.

(** the lift over histories: whatever sequence of operations is applied, every string variable of the
    model still represents the corresponding array of the specification *)
Theorem history_refines ops : forall st sp, Inv st sp -> Forall op_ok ops -> Inv (run st ops) (spec_run sp ops).
Proof.
  unfold run, spec_run. induction ops as [|o ops IH]; intros st sp I F; cbn [fold_left]; [exact I|].
  inversion F as [|? ? Ho Fo]; subst.
  pose proof (step_refines st sp o I Ho) as S.
  destruct (step st o) as [st'|], (spec_step sp o) as [sp'|]; try contradiction; apply IH; assumption.
Qed.

Lemma Inv_empty : Inv (mkst [] []) [].
Proof. split; [reflexivity|]. split; [constructor|]. intros v Hv. cbn in Hv. lia. Qed.

(** ... and therefore everything observable about every string agrees with the array *)
Theorem history_observables ops : Forall op_ok ops ->
  let st := run (mkst [] []) ops in let sp := spec_run [] ops in
  length (mvars st) = length sp /\
  forall v, (v < length sp)%nat ->
    string_length (mheap st) (var st v) = Ok (length (svar sp v)) /\
    slice (mheap st) (var st v) = enc_all (svar sp v) /\
    forall i, string_ref (mheap st) (var st v) i =
              if (0 <=? i) && (i <? Z.of_nat (length (svar sp v))) then Ok (nth (Z.to_nat i) (svar sp v) 0) else Err RangeErr.
Proof.
  intros F st sp. pose proof (history_refines ops _ _ Inv_empty F) as (Hl & _ & Hr). fold st sp in Hl, Hr.
  split; [exact Hl|]. intros v Hv. specialize (Hr v Hv).
  split; [apply length_refines; exact Hr|]. split; [apply slice_rep; exact Hr|].
  intros i. apply ref_refines; exact Hr.
Qed.

Example history_ex :
  let ops := [OLit [97; 955; 8364]; OSet 0%nat 1 128512; OSubstring 0%nat 1 None; OAppend [0%nat; 1%nat]; OCopy 2%nat;
              OMake 2%nat 233; OSet 0%nat 7 65; OSet 3%nat 0 1114111] in
  spec_run [] ops = [[97; 128512; 8364]; [128512; 8364]; [97; 128512; 8364; 128512; 8364];
                     [1114111; 128512; 8364; 128512; 8364]; [233; 233]]
  /\ map (fun s => slice (mheap (run (mkst [] []) ops)) s) (mvars (run (mkst [] []) ops))
     = map enc_all (spec_run [] ops).
Proof. vm_compute. split; reflexivity. Qed.
