(** C12 round 3 — the Scheme-level loops over string-set! (string-fill!, string-copy!) with their
    optional range arguments, string->utf8 with a range, and read-line. *)
From ChibiV Require Import C12.Model C12.Spec C12.Utf8Proofs C12.Proofs C12.Proofs2 C12.Proofs3 C12.PortModel C12.PortProofs C12.RangeModel C12.OutProofs.
Local Open Scope Z_scope.
Ltac Zify.zify_post_hook ::= Z.div_mod_to_equations.

Lemma repeat_snoc {A} (x : A) n : repeat x n ++ [x] = repeat x (S n).
Proof. induction n as [|n IH]; cbn [repeat app]; [reflexivity|]. rewrite IH. reflexivity. Qed.

Lemma split_last {A} (l : list A) n : length l = S n -> exists l' x, l = l' ++ [x] /\ length l' = n.
Proof.
  intros H. destruct (exists_last (l:=l)) as (l' & x & ->); [intro; subst; discriminate|].
  exists l', x. split; [reflexivity|]. rewrite app_length in H. cbn in H. lia.
Qed.

(* ------------------------------------------------------------------------------------- *)
(** * string-fill! *)

(** the loop runs from the last index of the range down to [start]; each string-set! may change the byte
    width of the character and re-point the string at a new store *)
Lemma fill_down_spec c a : cp c -> forall n h s l1 l2, length l1 = (a + n)%nat -> Rep h s (l1 ++ l2) ->
  exists h' s', fill_down h s c (Z.of_nat a) n = Ok (h', s') /\ Rep h' s' (firstn a l1 ++ repeat c n ++ l2).
Proof.
  intros Hc. induction n as [|n IH]; intros h s l1 l2 L R.
  - exists h, s. split; [reflexivity|]. cbn [repeat app]. rewrite firstn_all2 by lia. exact R.
  - cbn [fill_down]. destruct (split_last l1 (a + n)) as (l1' & x & -> & L'); [lia|].
    pose proof (set_refines h s _ (Z.of_nat a + Z.of_nat n) c R Hc) as HS.
    rewrite <- app_assoc in HS. cbn [app] in HS.
    replace ((0 <=? Z.of_nat a + Z.of_nat n) && (Z.of_nat a + Z.of_nat n <? Z.of_nat (length (l1' ++ x :: l2)))) with true in HS
      by (rewrite app_length; cbn [length]; lia).
    destruct HS as (h1 & s1 & HS & R1). rewrite HS.
    replace (Z.to_nat (Z.of_nat a + Z.of_nat n)) with (length l1') in R1 by lia. rewrite upd_app in R1.
    destruct (IH h1 s1 l1' (c :: l2) L' R1) as (h' & s' & F & R').
    exists h', s'. split; [exact F|].
    rewrite firstn_app. replace (a - length l1')%nat with O by lia. rewrite firstn_O, app_nil_r.
    replace (repeat c (S n) ++ l2) with (repeat c n ++ c :: l2); [exact R'|].
    rewrite <- repeat_snoc, <- app_assoc. reflexivity.
Qed.

(** string-fill! with no range, (start) or (start end): positions start..end-1 become [c], for every
    old and new width; all other positions keep their characters *)
Theorem string_fill_refines h s cs c r : Rep h s cs -> cp c ->
  let '(a, e) := range_bounds r (length cs) in
  0 <= a <= e -> e <= Z.of_nat (length cs) ->
  exists h' s', string_fill h s c r = Ok (h', s') /\
    Rep h' s' (firstn (Z.to_nat a) cs ++ repeat c (Z.to_nat (e - a)) ++ skipn (Z.to_nat e) cs).
Proof.
  intros R Hc. destruct (range_bounds r (length cs)) as [a e] eqn:RB. intros Hae He.
  assert (G : exists h' s', fill_down h s c a (Z.to_nat (e - a)) = Ok (h', s') /\
              Rep h' s' (firstn (Z.to_nat a) cs ++ repeat c (Z.to_nat (e - a)) ++ skipn (Z.to_nat e) cs)).
  { pose proof (fill_down_spec c (Z.to_nat a) Hc (Z.to_nat (e - a)) h s (firstn (Z.to_nat e) cs) (skipn (Z.to_nat e) cs)) as F.
    rewrite firstn_skipn in F. rewrite Z2Nat.id in F by lia.
    destruct F as (h' & s' & F & R'); [rewrite firstn_length; lia|exact R|].
    exists h', s'. split; [exact F|]. rewrite firstn_firstn in R'. rewrite Nat.min_l in R' by lia. exact R'. }
  unfold string_fill.
  destruct r as [|a0|a0 e0]; cbn [range_bounds] in RB; apply pair_equal_spec in RB; destruct RB as [<- <-].
  - rewrite (length_refines h s cs R). rewrite Z.sub_0_r in *. exact G.
  - rewrite (length_refines h s cs R). exact G.
  - exact G.
Qed.

Example ex_fill : match string_fill ex_heap ex_str 8364 (RBoth 1 4) with
                  | Ok (h', s') => slice h' s' = enc_all [97; 8364; 8364; 8364; 122] | Err _ => False end.
Proof. vm_compute. reflexivity. Qed.

(* ------------------------------------------------------------------------------------- *)
(** * string->utf8 with a range *)

Theorem string_to_utf8_range_refines h s cs r : Rep h s cs ->
  let '(a, e) := range_bounds r (length cs) in
  0 <= a <= e -> e <= Z.of_nat (length cs) ->
  exists h' bv, string_to_utf8_range h s r = Ok (h', bv) /\
    firstn (length (enc_all (sub (Z.to_nat a) (Z.to_nat e) cs))) (nth bv h' []) = enc_all (sub (Z.to_nat a) (Z.to_nat e) cs).
Proof.
  intros R. destruct (range_bounds r (length cs)) as [a e] eqn:RB. intros Hae He.
  assert (TU : forall h0 s0 cs0, Rep h0 s0 cs0 -> exists h' bv, to_utf8 h0 s0 = (h', bv) /\
                 firstn (length (enc_all cs0)) (nth bv h' []) = enc_all cs0).
  { intros h0 s0 cs0 R0. exists (h0 ++ [enc_all cs0 ++ [0]]), (length h0).
    split; [apply to_utf8_refines; exact R0|]. rewrite app_nth2 by lia. rewrite Nat.sub_diag. cbn [nth].
    rewrite firstn_app, Nat.sub_diag, firstn_O, app_nil_r. apply firstn_all. }
  assert (G : forall e', e' = e -> exists h' bv,
            match substring h s a (Some e') with Err x => Err x | Ok (h', s') => Ok (to_utf8 h' s') end = Ok (h', bv) /\
            firstn (length (enc_all (sub (Z.to_nat a) (Z.to_nat e) cs))) (nth bv h' []) = enc_all (sub (Z.to_nat a) (Z.to_nat e) cs)).
  { intros e' ->. pose proof (substring_refines h s cs a (Some e) R) as HS. cbv beta iota zeta in HS.
    replace ((0 <=? a) && (a <=? e) && (e <=? Z.of_nat (length cs))) with true in HS by lia. cbv iota in HS.
    destruct HS as (q & s' & HS & _ & R'). rewrite HS. destruct (TU _ _ _ R') as (h' & bv & E & Q).
    exists h', bv. rewrite E. split; [reflexivity|exact Q]. }
  unfold string_to_utf8_range.
  destruct r as [|a0|a0 e0]; cbn [range_bounds] in RB; apply pair_equal_spec in RB; destruct RB as [<- <-].
  - destruct (TU _ _ _ R) as (h' & bv & E & Q). exists h', bv. rewrite E. split; [reflexivity|].
    unfold sub. rewrite Nat2Z.id. cbn [Z.to_nat skipn]. rewrite Nat.sub_0_r, firstn_all. exact Q.
  - rewrite (length_refines h s cs R). apply G. reflexivity.
  - apply G. reflexivity.
Qed.
