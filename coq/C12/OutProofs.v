(** C12 round 3 — proofs about output ports: write-char, the write-string opcode (byte-count
    contract), display, write-string with optional range arguments, and the write/read round trip. *)
From ChibiV Require Import C12.Model C12.Spec C12.Utf8Proofs C12.Proofs C12.Proofs2 C12.Proofs3 C12.PortModel C12.PortProofs C12.RangeModel.
Local Open Scope Z_scope.
Ltac Zify.zify_post_hook ::= Z.div_mod_to_equations.

(** the output buffer invariant: offset inside the buffer, which has at least one byte *)
Definition oport_ok (o : oport) : Prop :=
  (ooff o <= osize o)%nat /\ osize o = length (obuf o) /\ (1 <= osize o)%nat.

Lemma open_output_string_ok n : (1 <= n)%nat -> oport_ok (open_output_string n) /\ out_bytes (open_output_string n) = [].
Proof.
  intros H. unfold oport_ok, open_output_string, out_bytes. cbn [ooff osize obuf ochunks concat].
  rewrite repeat_length. repeat split; try lia.
Qed.

Lemma oflush_out o : out_bytes (oflush o) = out_bytes o.
Proof.
  unfold oflush, out_bytes. destruct (0 <? ooff o)%nat; [|reflexivity].
  cbn [ochunks ooff obuf]. rewrite concat_app. cbn [concat firstn]. rewrite !app_nil_r. reflexivity.
Qed.

Lemma oflush_ok o : oport_ok o -> oport_ok (oflush o) /\ (ooff (oflush o) = 0)%nat.
Proof.
  intros (A & B & C). unfold oflush, oport_ok. destruct (0 <? ooff o)%nat eqn:E; cbn [ooff osize obuf].
  - repeat split; lia.
  - apply Nat.ltb_ge in E. repeat split; lia.
Qed.

(** putting [bs] at the write offset when it fits *)
Lemma put_out o bs : oport_ok o -> (ooff o + length bs <= osize o)%nat ->
  let o' := mkoport (overwrite (obuf o) (ooff o) bs) (ooff o + length bs) (osize o) (ochunks o) in
  oport_ok o' /\ out_bytes o' = out_bytes o ++ bs.
Proof.
  intros (A & B & C) F o'. split.
  - unfold oport_ok, o'. cbn [ooff osize obuf]. rewrite overwrite_length. repeat split; lia.
  - unfold out_bytes, o'. cbn [ooff osize obuf ochunks]. rewrite <- app_assoc. f_equal.
    rewrite overwrite_decomp by lia. rewrite app_assoc.
    rewrite firstn_app. rewrite !app_length, firstn_length, Nat.min_l by lia.
    replace (ooff o + length bs - (ooff o + length bs))%nat with O by lia. rewrite firstn_O, app_nil_r.
    apply firstn_all2. rewrite app_length, firstn_length. lia.
Qed.

(** sexp_write_char / sexp_buffered_write_char: one more byte in the output *)
Lemma write_byte_spec o c : oport_ok o ->
  oport_ok (write_byte o c) /\ out_bytes (write_byte o c) = out_bytes o ++ [c].
Proof.
  intros OK. pose proof OK as (A & B & C). unfold write_byte.
  destruct (ooff o <? osize o)%nat eqn:E.
  - apply Nat.ltb_lt in E. replace (S (ooff o)) with (ooff o + length [c])%nat by (cbn; lia).
    apply (put_out o [c] OK). cbn. lia.
  - apply Nat.ltb_ge in E. assert (ooff o = osize o) by lia.
    replace (osize o <=? ooff o + 1)%nat with true by (symmetry; apply Nat.leb_le; lia).
    destruct (oflush_ok o OK) as [OK' Z0]. pose proof (oflush_out o) as FO.
    assert (SZ : osize (oflush o) = osize o) by (unfold oflush; destruct (0 <? ooff o)%nat; reflexivity).
    pose proof (put_out (oflush o) [c] OK') as P. rewrite Z0 in P. cbn [length] in P. rewrite SZ in P.
    specialize (P ltac:(lia)). cbv zeta in P. rewrite Z0, SZ. replace (0 + 1)%nat with 1%nat in P by lia.
    rewrite FO in P. exact P.
Qed.

(** sexp_buffered_write_string_n: all of [str] reaches the output, whatever the buffer size and
    however many flushes it takes; the fuel of [write_bytes] suffices *)
Lemma write_bytes_loop_spec fuel : forall o str, oport_ok o ->
  (length str + (if (ooff o <? osize o)%nat then 0 else 1) <= fuel)%nat ->
  exists o', write_bytes_loop fuel o str = Ok o' /\ oport_ok o' /\ out_bytes o' = out_bytes o ++ str.
Proof.
  induction fuel as [|f IH]; intros o str OK F; pose proof OK as (A & B & C).
  - destruct (ooff o <? osize o)%nat eqn:E; [|lia]. apply Nat.ltb_lt in E.
    assert (length str = 0)%nat by lia. destruct str; [|discriminate]. cbn [write_bytes_loop length].
    replace (osize o <=? ooff o + 0)%nat with false by (symmetry; apply Nat.leb_gt; lia).
    pose proof (put_out o [] OK) as P. cbn [length] in P. specialize (P ltac:(lia)).
    cbv zeta in P. eexists; split; [reflexivity|exact P].
  - cbn [write_bytes_loop]. destruct (osize o <=? ooff o + length str)%nat eqn:L.
    + apply Nat.leb_le in L. set (diff := (osize o - ooff o)%nat).
      set (o1 := mkoport (overwrite (obuf o) (ooff o) (firstn diff str)) (osize o) (osize o) (ochunks o)).
      assert (LD : length (firstn diff str) = diff) by (rewrite firstn_length; lia).
      pose proof (put_out o (firstn diff str) OK) as P. rewrite LD in P.
      replace (ooff o + diff)%nat with (osize o) in P by lia. specialize (P ltac:(lia)). cbv zeta in P.
      fold o1 in P. destruct P as [OK1 OUT1].
      destruct (oflush_ok o1 OK1) as [OK2 Z2]. pose proof (oflush_out o1) as FO.
      assert (SZ : osize (oflush o1) = osize o) by (unfold oflush; destruct (0 <? ooff o1)%nat; reflexivity).
      destruct (IH (oflush o1) (skipn diff str) OK2) as (o' & W & OK' & OUT').
      * rewrite Z2, SZ. replace (0 <? osize o)%nat with true by (symmetry; apply Nat.ltb_lt; lia).
        rewrite skipn_length. destruct (ooff o <? osize o)%nat eqn:E.
        -- apply Nat.ltb_lt in E. lia.
        -- apply Nat.ltb_ge in E. lia.
      * exists o'. split; [exact W|]. split; [exact OK'|].
        rewrite OUT', FO, OUT1, <- app_assoc, firstn_skipn. reflexivity.
    + apply Nat.leb_gt in L. pose proof (put_out o str OK ltac:(lia)) as P. cbv zeta in P.
      eexists; split; [reflexivity|exact P].
Qed.

Theorem write_bytes_spec o str : oport_ok o ->
  exists o', write_bytes o str = Ok o' /\ oport_ok o' /\ out_bytes o' = out_bytes o ++ str.
Proof.
  intros OK. unfold write_bytes. apply write_bytes_loop_spec; [exact OK|].
  destruct (ooff o <? osize o)%nat; lia.
Qed.

(** SEXP_OP_WRITE_CHAR: the standard encoding of the character is appended to the output,
    for every width and wherever the character falls with respect to the end of the buffer *)
Theorem write_char_spec o c : oport_ok o -> cp c ->
  exists o', write_char o c = Ok o' /\ oport_ok o' /\ out_bytes o' = out_bytes o ++ encode c.
Proof.
  intros OK Hc. unfold write_char. destruct (128 <=? c) eqn:E.
  - rewrite (encode_char_width c Hc).
    pose proof (encode_nonempty c Hc) as NE. destruct (encode c) as [|b t] eqn:EC; [cbn in NE; lia|].
    cbn [hd tl]. destruct (write_byte_spec o b OK) as [OK1 OUT1].
    destruct (write_bytes_spec (write_byte o b) t OK1) as (o' & W & OK' & OUT').
    exists o'. split; [exact W|]. split; [exact OK'|]. rewrite OUT', OUT1, <- app_assoc. reflexivity.
  - apply Z.leb_gt in E. destruct Hc as [Hc0 Hc1]. rewrite (encode_1 c) by lia.
    destruct (write_byte_spec o c OK) as [OK1 OUT1]. eexists; split; [reflexivity|]. split; assumption.
Qed.

Theorem write_chars_spec cs : forall o, oport_ok o -> Forall cp cs ->
  exists o', write_chars o cs = Ok o' /\ oport_ok o' /\ out_bytes o' = out_bytes o ++ enc_all cs.
Proof.
  induction cs as [|c cs IH]; intros o OK H.
  - exists o. cbn. rewrite app_nil_r. auto.
  - inversion H as [|? ? Hc Hcs]; subst. cbn [write_chars].
    destruct (write_char_spec o c OK Hc) as (o1 & W & OK1 & OUT1). rewrite W.
    destruct (IH o1 OK1 Hcs) as (o' & W' & OK' & OUT'). exists o'. split; [exact W'|]. split; [exact OK'|].
    rewrite OUT', OUT1, enc_all_cons, <- app_assoc. reflexivity.
Qed.

(** the whole round trip: characters written by write-char to a string port (any buffer size)
    and read back by read-char from a string port or a file-descriptor port over the same bytes
    (any buffer size > 4, any schedule of read sizes) are the same characters *)
Theorem port_write_read_roundtrip cs wn rn sched : Forall cp cs -> (1 <= wn)%nat -> (BUF_START < rn)%nat ->
  exists o, write_chars (open_output_string wn) cs = Ok o /\ out_bytes o = enc_all cs /\
    (exists p', read_string (length cs) (open_string_port (out_bytes o)) = (Ok cs, p') /\ pending p' = []) /\
    (exists p', read_string (length cs) (open_fd_port rn (out_bytes o) sched) = (Ok cs, p') /\ pending p' = []).
Proof.
  intros Hcs Hw Hr. destruct (open_output_string_ok wn Hw) as [OK0 OUT0].
  destruct (write_chars_spec cs _ OK0 Hcs) as (o & W & OK & OUT). rewrite OUT0 in OUT. cbn [app] in OUT.
  exists o. split; [exact W|]. split; [exact OUT|].
  destruct (port_read_roundtrip cs rn (out_bytes o) sched Hcs Hr OUT) as [(p1 & R1 & P1 & _) (p2 & R2 & P2 & _)].
  split; [exists p2|exists p1]; auto.
Qed.

(* ------------------------------------------------------------------------------------- *)
(** * The write-string opcode: its count is a number of BYTES *)

(** for EVERY count in 0..size (on a character boundary or not) exactly the first [count] bytes of
    the string's data are appended; outside that interval the opcode raises *)
Theorem op_write_string_contract h s cs count o : Rep h s cs -> oport_ok o ->
  let n := match count with None => Z.of_nat (ssize s) | Some n => n end in
  if (0 <=? n) && (n <=? Z.of_nat (ssize s)) then
    exists o', op_write_string h s count o = Ok o' /\ oport_ok o' /\
               out_bytes o' = out_bytes o ++ firstn (Z.to_nat n) (enc_all cs)
  else op_write_string h s count o = Err RangeErr.
Proof.
  intros R OK n. unfold op_write_string. fold n.
  destruct ((0 <=? n) && (n <=? Z.of_nat (ssize s))) eqn:E.
  - replace ((n <? 0) || (Z.of_nat (ssize s) <? n)) with false by lia.
    destruct (write_bytes_spec o (firstn (Z.to_nat n) (sdata h s)) OK) as (o' & W & OK' & OUT).
    exists o'. split; [exact W|]. split; [exact OK'|]. rewrite OUT. f_equal.
    destruct R as (_ & _ & Hsz & post & Hd & _). rewrite Hd. rewrite firstn_app.
    replace (Z.to_nat n - length (enc_all cs))%nat with O by lia. rewrite firstn_O, app_nil_r. reflexivity.
  - replace ((n <? 0) || (Z.of_nat (ssize s) <? n)) with true by lia. reflexivity.
Qed.

(** a wrapper that converts a character index with string-index->cursor gets the characters *)
Corollary op_write_string_at_cursor h s cs k o : Rep h s cs -> oport_ok o -> (k <= length cs)%nat ->
  exists o', op_write_string h s (Some (Z.of_nat (cursor_of cs k))) o = Ok o' /\ oport_ok o' /\
             out_bytes o' = out_bytes o ++ enc_all (firstn k cs).
Proof.
  intros R OK K. pose proof (op_write_string_contract h s cs (Some (Z.of_nat (cursor_of cs k))) o R OK) as C.
  cbv beta iota zeta in C. destruct R as (Hcp & _ & Hsz & _).
  assert (LE : (cursor_of cs k <= ssize s)%nat).
  { unfold cursor_of. rewrite Hsz.
    replace (enc_all cs) with (enc_all (firstn k cs) ++ enc_all (skipn k cs)) by (rewrite <- enc_all_app, firstn_skipn; reflexivity).
    rewrite app_length. lia. }
  replace ((0 <=? Z.of_nat (cursor_of cs k)) && (Z.of_nat (cursor_of cs k) <=? Z.of_nat (ssize s))) with true in C by lia.
  cbv iota in C. destruct C as (o' & W & OK' & OUT). exists o'. split; [exact W|]. split; [exact OK'|]. rewrite OUT. f_equal.
  rewrite Nat2Z.id. unfold cursor_of.
  replace (enc_all cs) with (enc_all (firstn k cs) ++ enc_all (skipn k cs)) by (rewrite <- enc_all_app, firstn_skipn; reflexivity).
  rewrite firstn_app, Nat.sub_diag, firstn_O, app_nil_r. apply firstn_all.
Qed.

(** display of a string: all its characters, nothing of the store around a shared slice *)
Theorem display_refines h s cs o : Rep h s cs -> oport_ok o ->
  exists o', display_string h s o = Ok o' /\ oport_ok o' /\ out_bytes o' = out_bytes o ++ enc_all cs.
Proof.
  intros R OK. pose proof (op_write_string_contract h s cs None o R OK) as C. cbv beta iota zeta in C.
  replace ((0 <=? Z.of_nat (ssize s)) && (Z.of_nat (ssize s) <=? Z.of_nat (ssize s))) with true in C by lia.
  cbv iota in C. destruct C as (o' & W & OK' & OUT). exists o'. split; [exact W|]. split; [exact OK'|]. rewrite OUT. f_equal.
  destruct R as (_ & _ & Hsz & _). rewrite Nat2Z.id, Hsz. apply firstn_all.
Qed.

(** write-string with every combination of optional arguments: the bytes that reach the port are the
    standard encoding of the characters start..end-1; an invalid range raises and writes nothing *)
Definition range_bounds (r : range) (len : nat) : Z * Z :=
  match r with RNone => (0, Z.of_nat len) | RStart a => (a, Z.of_nat len) | RBoth a e => (a, e) end.

Theorem write_string_range_refines h s cs r o : Rep h s cs -> oport_ok o ->
  let '(a, e) := range_bounds r (length cs) in
  if (0 <=? a) && (a <=? e) && (e <=? Z.of_nat (length cs)) then
    exists h' o', write_string_io h s r o = Ok (h', o') /\ oport_ok o' /\
                  out_bytes o' = out_bytes o ++ enc_all (sub (Z.to_nat a) (Z.to_nat e) cs) /\
                  (forall t ct, Rep h t ct -> Rep h' t ct)
  else exists x, write_string_io h s r o = Err x.
Proof.
  intros R OK. destruct (range_bounds r (length cs)) as [a e] eqn:RB.
  assert (CORE : forall e', e' = e -> r <> RNone ->
    if (0 <=? a) && (a <=? e) && (e <=? Z.of_nat (length cs)) then
      exists h' o', match substring h s a (Some e') with
                    | Err x => Err x
                    | Ok (h', s') => match display_string h' s' o with Ok o' => Ok (h', o') | Err x => Err x end
                    end = Ok (h', o') /\ oport_ok o' /\
                    out_bytes o' = out_bytes o ++ enc_all (sub (Z.to_nat a) (Z.to_nat e) cs) /\
                    (forall t ct, Rep h t ct -> Rep h' t ct)
    else exists x, match substring h s a (Some e') with
                    | Err x => Err x
                    | Ok (h', s') => match display_string h' s' o with Ok o' => Ok (h', o') | Err x => @Err (heap * oport) x end
                    end = Err x).
  { intros e' -> _. pose proof (substring_refines h s cs a (Some e) R) as S. cbv zeta in S.
    destruct ((0 <=? a) && (a <=? e) && (e <=? Z.of_nat (length cs))).
    - destruct S as (q & s' & S & _ & R'). rewrite S.
      destruct (display_refines _ s' _ o R' OK) as (o' & D & OK' & OUT). rewrite D.
      exists (h ++ [q]), o'. split; [reflexivity|]. split; [exact OK'|]. split; [exact OUT|].
      intros t ct Rt. apply Rep_heap_app. exact Rt.
    - destruct S as (x & S). rewrite S. exists x. reflexivity. }
  destruct r as [|a0|a0 e0]; cbn [range_bounds] in RB; apply pair_equal_spec in RB; destruct RB as [<- <-].
  - (* no range: display *)
    replace ((0 <=? 0) && (0 <=? Z.of_nat (length cs)) && (Z.of_nat (length cs) <=? Z.of_nat (length cs))) with true by lia.
    cbn [write_string_io]. destruct (display_refines h s cs o R OK) as (o' & D & OK' & OUT). rewrite D.
    exists h, o'. split; [reflexivity|]. split; [exact OK'|]. split; [|intros t ct Rt; exact Rt].
    rewrite OUT. unfold sub. rewrite Nat2Z.id. cbn [Z.to_nat skipn]. rewrite Nat.sub_0_r, firstn_all. reflexivity.
  - cbn [write_string_io]. rewrite (length_refines h s cs R). apply CORE; [reflexivity|discriminate].
  - cbn [write_string_io]. apply CORE; [reflexivity|discriminate].
Qed.

(** the seeded fast path refuted: passing the character index [end] as the opcode's count (what
    "(%write-string str end out)" does) writes a truncated, ill-formed prefix *)
Example write_string_char_index_as_count_refuted :
  let h := [[206; 187; 97; 0]] in let s := mkstr 0 0 3 false in     (* "λa" *)
  exists o', op_write_string h s (Some 1) (open_output_string 8) = Ok o' /\
             out_bytes o' = [206] /\ out_bytes o' <> enc_all (firstn 1 [955; 97]).
Proof. eexists. split; [vm_compute; reflexivity|]. split; [reflexivity|]. vm_compute. discriminate. Qed.

(** examples: a slice of a shared store (offset 2) written with every kind of range through a 4-byte buffer *)
Example ex_write_range :
  match write_string_io ex_heap ex_str (RBoth 1 4) (open_output_string 4) with
  | Ok (_, o) => out_bytes o = [206; 187; 226; 130; 172; 240; 159; 152; 128]
  | Err _ => False
  end.
Proof. vm_compute. reflexivity. Qed.

Example ex_write_chars : match write_chars (open_output_string 3) ex_cs with Ok o => out_bytes o = enc_all ex_cs | Err _ => False end.
Proof. vm_compute. reflexivity. Qed.
