(** C12 round 4 — character input on FILE* ports (executable model, no proofs in this file).

    A port made by open-input-file (eval.c:1318-1332: fopen + sexp_make_input_port) has NO chibi buffer
    (sexp_port_buf = NULL): every byte goes through the C library,
      sexp_read_char(x, p)     = getc(sexp_port_stream(p))                     include/chibi/sexp.h:1661
      sexp_push_char(x, c, p)  = (c != EOF) && ungetc(c, sexp_port_stream(p))  include/chibi/sexp.h:1662
      sexp_push_utf8_char      = re-encode, then  while (len>0) ungetc(ch[--len], stream)   eval.c:2060-2066
    so peek-char of a w-byte character reads w bytes and pushes w bytes back, LAST BYTE FIRST, with w
    successive ungetc calls whose results are ignored.

    ISO C (7.21.7.10) guarantees only ONE byte of pushback; what a C library accepts beyond that is its own
    business (glibc: unbounded, it allocates a backup area; musl: 8; BSD: unbounded).  The model makes the
    capacity a parameter [fcap] of the stream: an ungetc beyond it fails and — its result being ignored — the
    byte is lost.  [fsrc] is everything getc will deliver after the pushed-back bytes (stdio's own buffer and
    the file behind it: invisible to chibi). *)
From ChibiV Require Export C12.PortModel.
Local Open Scope Z_scope.

Record fport : Type := mkfport {
  fpush : list Z;      (* pushed-back bytes, the next one to be read first *)
  fsrc : list Z;       (* the rest of the stream *)
  fcap : nat }.        (* pushback capacity of the C library *)

(** getc: pushed-back bytes first, then the stream, then EOF (-1) *)
Definition fgetc (p : fport) : Z * fport :=
  match fpush p with
  | b :: r => (b, mkfport r (fsrc p) (fcap p))
  | [] => match fsrc p with
          | b :: r => (b, mkfport [] r (fcap p))
          | [] => (-1, p)
          end
  end.

(** ungetc(c, stream), result ignored by the caller: beyond the capacity nothing happens *)
Definition fungetc (p : fport) (c : Z) : fport :=
  if (length (fpush p) <? fcap p)%nat then mkfport (c :: fpush p) (fsrc p) (fcap p) else p.

(** sexp_read_utf8_char (eval.c:2036-2058) over getc *)
Fixpoint fread_cont (n : nat) (p : fport) (i : Z) : option Z * fport :=
  match n with
  | O => (Some i, p)
  | S n' => let '(c, p1) := fgetc p in
            if c =? -1 then (None, p1)
            else fread_cont n' p1 (Z.shiftl i 6 + Z.land c 63)
  end.

Definition fread_utf8_char (p : fport) (i : Z) : option Z * fport :=
  if (i <? 192) || (247 <? i) then (None, p)
  else if i <? 224 then fread_cont 1 p (Z.land i 63)
  else if i <? 240 then fread_cont 2 p (Z.land i 31)
  else fread_cont 3 p (Z.land i 15).

(** sexp_push_utf8_char, stream arm: while (len>0) ungetc(ch[--len]) — the bytes from the last to the first *)
Definition fpush_utf8_char (p : fport) (c : Z) : fport :=
  fold_left fungetc (rev (sexp_utf8_encode_char (Z.of_nat (width c)) c)) p.

(** SEXP_OP_READ_CHAR / SEXP_OP_PEEK_CHAR (vm.c:2305-2376) on a stream port *)
Definition fread_char (p : fport) : rd * fport :=
  let '(i, p1) := fgetc p in
  if i =? -1 then (REof, p1)
  else if 128 <=? i then
    match fread_utf8_char p1 i with (Some c, p2) => (RChar c, p2) | (None, p2) => (RBad, p2) end
  else (RChar i, p1).

Definition fpeek_char (p : fport) : rd * fport :=
  let '(i, p1) := fgetc p in
  if i =? -1 then (REof, p1)
  else if 128 <=? i then
    match fread_utf8_char p1 i with
    | (Some c, p2) => (RChar c, fpush_utf8_char p2 c)
    | (None, p2) => (RBad, p2)
    end
  else (RChar i, fungetc p1 i).

Definition fpending (p : fport) : list Z := fpush p ++ fsrc p.

(** open-input-file: nothing pushed back yet *)
Definition open_file_port (cap : nat) (src : list Z) : fport := mkfport [] src cap.

(** %read-string (io.scm:114-123) on a stream port: the same peek-char / read-char loop *)
Fixpoint fread_string_loop (n : nat) (p : fport) (acc : list Z) : res (list Z) * fport :=
  match n with
  | O => (Ok (rev acc), p)
  | S n' =>
      match fpeek_char p with
      | (RChar _, p1) =>
          match fread_char p1 with
          | (RChar c, p2) => fread_string_loop n' p2 (c :: acc)
          | (REof, p2) => (Ok (rev acc), p2)
          | (RBad, p2) => (Err Utf8Err, p2)
          end
      | (REof, p1) => (Ok (rev acc), p1)
      | (RBad, p1) => (Err Utf8Err, p1)
      end
  end.
Definition fread_string (n : nat) (p : fport) : res (list Z) * fport := fread_string_loop n p [].
