From Coq Require Import ExtrOcamlBasic.
From ChibiV Require Import Common.ExtractBase C14.Spec C14.Load C14.Env C14.SynClo C14.IdEq C14.Importers C14.ExportAll.
Extraction "model.ml" ext_base denote program_origin lib_origin world_of last_binding origin_eqb run_history load_module init_state
  env_import env_cell empty_frame closed_probe def_loc local_loc stride program_env literal_probe identifier_eq same_binding run boot table_state env_exports eval_body.
