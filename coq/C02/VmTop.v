(** C02, root registration of the VM stack, two-sided:
      "every opcode that may allocate publishes the stack top first"      (no LOST root)
      "... and publishes no slot that it has not written"                  (no STALE root).

    The marker scans a thread's stack exactly below the top PUBLISHED in the context
    (`sexp_context_top(ctx)`; Stack type: slot count = top, sexp.c `_sexp_type_specs[]`); the interpreter loop
    of sexp_apply (vm.c) keeps the real top in the C local `top` and copies it into the context before calls
    that may allocate.  A live operand above the published top is swept (lost root: defect 6, opcodes that did not
    publish); a published slot that has not been written holds a word of an earlier call frame whose object may
    have been swept already (stale root: the `sexp_raise` defect, /repo e9f05cd).

    gen/c02_vmtop.py translates every case of the opcode switch into the item language below (clang AST, macros
    expanded; may-allocate set from the call graph of the LLVM IR).  [seg_ok] is an abstract interpretation over
        rel   Stale | Le | Eq d      relation of the local and the published top (top <= pub, top = pub + d)
        hi    lower bound of  written end - local top
        wp    lower bound of  written end - published top
        fe    upper bound of  fresh end - local top   (-inf: no fresh store yet, +inf: nothing known)
    where the "written end" w is a ghost quantity: every slot below w has been written under the frame protocol
    (by this opcode, or it lay below the top the opcode started with), and the "fresh end" f is 1 + the highest
    slot into which this opcode has stored a value that is neither an immediate nor a registered local (such a
    value may be kept alive by that slot alone).  A call that may allocate is accepted
    only when  top <= pub,  pub <= w  and  f <= pub;  an opcode starts in (Stale, 0, 0) = "top <= w and pub <= w" and must
    re-establish exactly that at every exit, so the condition is an inductive invariant of the interpreter loop.

    No proofs about the checker are mixed into its definition; soundness (for ALL items, including IIf, ILoop and
    IBlock) is proved below against a big-step concrete semantics on (top, pub, w). *)
From Coq Require Import ZArith List String Bool Lia.
Import ListNotations.
Local Open Scope Z_scope.

Inductive item : Type :=
| IPub (k : Z)            (* sexp_context_top(ctx) = top + k *)
| IPubUnknown             (* sexp_context_top(ctx) = <something else>: never accepted *)
| IReload                 (* top = sexp_context_top(ctx) *)
| ITop (d : Z)            (* top += d  (_PUSH, _POP, top--, top -= 2 ...) *)
| ITopDown                (* top -= <non-constant, non-negative amount> *)
| ITopUnknown             (* top = <something else>; assumed to lie at or below the written end *)
| IStore (k : Z) (stable : bool)   (* stack[top + k] = e   (emitted after the items of e); stable: e is an immediate
                                     built from an integer, or a local registered with sexp_gc_preserve *)
| IArg (k : Z)            (* the value of stack[top + k] is an argument of the next allocating call *)
| ICall (f : string)      (* call of a function from which sexp_alloc is reachable, or through a pointer *)
| IIf (a b : list item)   (* either branch *)
| ILoop (b : list item)   (* any number of iterations; IBreak inside = break or continue *)
| IBlock (b : list item)  (* nested switch: IBreak inside leaves the block *)
| IStop                   (* break of the opcode / goto / return: the opcode ends here *)
| IBreak.                 (* break / continue of the enclosing ILoop / IBlock *)

Inductive rel : Type := Stale | Le | Eq (d : Z).

Inductive ext : Type := NInf | Fin (z : Z) | PInf.

Record ast : Type := mkast { arel : rel; ahi : Z; awp : Z; afe : ext }.

Definition ext_max (a b : ext) : ext :=
  match a, b with
  | PInf, _ | _, PInf => PInf
  | NInf, x | x, NInf => x
  | Fin x, Fin y => Fin (Z.max x y)
  end.

Definition ext_add (a : ext) (d : Z) : ext := match a with Fin x => Fin (x + d) | _ => a end.

Definition ext_eqb (a b : ext) : bool :=
  match a, b with
  | NInf, NInf | PInf, PInf => true
  | Fin x, Fin y => x =? y
  | _, _ => false
  end.

(** no fresh slot at or above the published top *)
Definition fresh_ok (r : rel) (e : ext) : bool :=
  match e with
  | NInf => true
  | PInf => false
  | Fin a => match r with Stale => false | Le => a <=? 0 | Eq d => d + a <=? 0 end
  end.

Definition safe_rel (r : rel) : bool :=
  match r with Stale => false | Le => true | Eq d => d <=? 0 end.

(** acceptance of an allocating call: no lost root and no stale root *)
Definition safe (s : ast) : bool := safe_rel (arel s) && (0 <=? awp s) && fresh_ok (arel s) (afe s).

(** a stack slot handed by value to an allocating callee must lie below the published top (the callee allocates
    before it stores the argument) *)
Definition arg_ok (r : rel) (k : Z) : bool :=
  match r with Stale => false | Le => k <? 0 | Eq d => k + d <? 0 end.

(** state required at every exit of an opcode = state assumed at every entry *)
Definition start : ast := mkast Stale 0 0 NInf.
Definition exit_ok (s : ast) : bool := (0 <=? ahi s) && (0 <=? awp s).
Definition exit_oko (o : option ast) : bool := match o with None => true | Some s => exit_ok s end.

Definition join_rel (a b : rel) : rel :=
  match a, b with
  | Stale, _ | _, Stale => Stale
  | Eq x, Eq y => if x =? y then Eq x else if (x <=? 0) && (y <=? 0) then Le else Stale
  | _, _ => if safe_rel a && safe_rel b then Le else Stale
  end.

Definition join1 (a b : ast) : ast :=
  mkast (join_rel (arel a) (arel b)) (Z.min (ahi a) (ahi b)) (Z.min (awp a) (awp b)) (ext_max (afe a) (afe b)).

(** [None] = unreachable *)
Definition join (a b : option ast) : option ast :=
  match a, b with
  | None, x | x, None => x
  | Some x, Some y => Some (join1 x y)
  end.

Definition rel_eqb (a b : rel) : bool :=
  match a, b with
  | Stale, Stale | Le, Le => true
  | Eq x, Eq y => x =? y
  | _, _ => false
  end.

Definition ast_eqb (a b : option ast) : bool :=
  match a, b with
  | None, None => true
  | Some x, Some y => rel_eqb (arel x) (arel y) && (ahi x =? ahi y) && (awp x =? awp y) && ext_eqb (afe x) (afe y)
  | _, _ => false
  end.

Definition step_top (r : rel) (d : Z) : rel :=
  match r with
  | Stale => Stale
  | Le => if d <=? 0 then Le else Stale
  | Eq x => Eq (x + d)
  end.

Definition step_down (r : rel) : rel :=
  match r with Stale => Stale | Le => Le | Eq x => if x <=? 0 then Le else Stale end.

Definition step_store (s : ast) (k : Z) (stable : bool) : ast :=
  let hi' := if k =? ahi s then ahi s + 1 else ahi s in
  mkast (arel s) hi' (match arel s with Eq d => Z.max (awp s) (hi' + d) | _ => awp s end)
        (if stable then afe s else ext_max (afe s) (Fin (k + 1))).

Definition step_reload_fe (r : rel) (e : ext) : ext :=
  match r with
  | Eq d => ext_add e d
  | Le => e
  | Stale => match e with NInf => NInf | _ => PInf end
  end.

Definition widen (o : option ast) : option ast :=
  match o with None => None | Some s => Some (mkast (arel s) (ahi s) (awp s) PInf) end.

(** result of the checker on a piece of code: all calls / exits seen were acceptable; state at the fall-through
    end; join of the states at the IBreak items that leave the piece *)
Record res : Type := mkres { rok : bool; rfall : option ast; rbrk : option ast }.

Definition run_list_with (ri : item -> ast -> res) : list item -> option ast -> res :=
  fix rl (l : list item) (st : option ast) {struct l} : res :=
    match st with
    | None => mkres true None None
    | Some s0 =>
      match l with
      | [] => mkres true st None
      | x :: tl =>
        let r1 := ri x s0 in
        let r2 := rl tl (rfall r1) in
        mkres (rok r1 && rok r2) (rfall r2) (join (rbrk r1) (rbrk r2))
      end
    end.

Definition loop_round (body : option ast -> res) (inv : option ast) : option ast :=
  let r := body inv in join inv (join (rfall r) (rbrk r)).

(** three rounds reach the top of a chain Eq -> Le -> Stale; hi and wp only decrease; if the result is not stable
    the fresh end is widened to +inf and one more round is made; the result must then be stable (otherwise the
    loop is rejected) *)
Definition loop_res (body : option ast -> res) (s : ast) : res :=
  let inv3 := loop_round body (loop_round body (loop_round body (Some s))) in
  let inv := if ast_eqb (loop_round body inv3) inv3 then inv3 else loop_round body (widen inv3) in
  let r := body inv in
  mkres (rok r && ast_eqb (loop_round body inv) inv) inv None.

Fixpoint run_item (it : item) (s : ast) {struct it} : res :=
  match it with
  | IPub k => mkres true (Some (mkast (Eq (- k)) (ahi s) (ahi s - k) (afe s))) None
  | IPubUnknown => mkres false (Some s) None
  | IReload => mkres true (Some (mkast (Eq 0) (awp s) (awp s) (step_reload_fe (arel s) (afe s)))) None
  | ITop d => mkres true (Some (mkast (step_top (arel s) d) (ahi s - d) (awp s) (ext_add (afe s) (- d)))) None
  | ITopDown => mkres true (Some (mkast (step_down (arel s)) (ahi s) (awp s) (match afe s with NInf => NInf | _ => PInf end))) None
  | ITopUnknown => mkres true (Some (mkast Stale 0 (awp s) NInf)) None
  | IStore k stb => mkres true (Some (step_store s k stb)) None
  | IArg k => mkres (arg_ok (arel s) k) (Some s) None
  | ICall _ => mkres (safe s) (Some s) None
  | IIf a b =>
    let ra := run_list_with run_item a (Some s) in
    let rb := run_list_with run_item b (Some s) in
    mkres (rok ra && rok rb) (join (rfall ra) (rfall rb)) (join (rbrk ra) (rbrk rb))
  | ILoop b => loop_res (run_list_with run_item b) s
  | IBlock b =>
    let r := run_list_with run_item b (Some s) in
    mkres (rok r) (join (rfall r) (rbrk r)) None
  | IStop => mkres (exit_ok s) None None
  | IBreak => mkres true None (Some s)
  end.

Definition run_list : list item -> option ast -> res := run_list_with run_item.

(** an opcode segment starts with nothing known about the relation of the two tops, and with every slot below
    either of them written; it is accepted when every allocating call inside is [safe] and every way out of it
    (IStop, running off the end) re-establishes [exit_ok] *)
Definition seg_ok (e : string * list item) : bool :=
  let r := run_list (snd e) (Some start) in
  rok r && exit_oko (rfall r) && exit_oko (rbrk r).

(** -------------------------------------------------------------------------------------------------
    Concrete semantics.  A configuration is (local top, published top, written end, fresh end).  [OBad] = an
    allocating call ran with the local top above the published top, with a freshly stored slot at or above
    it, or was handed the value of a slot at or above it (lost root), or ran with the published top above the
    written end (stale root). *)
Record conc : Type := mkc { ctop : Z; cpub : Z; cw : Z; cf : option Z }.

Definition fresh_store (c : conc) (k : Z) (stable : bool) : option Z :=
  if stable then cf c else
  match cf c with None => Some (ctop c + k + 1) | Some f => Some (Z.max f (ctop c + k + 1)) end.

Definition fresh_below_pub (c : conc) : Prop := match cf c with None => True | Some f => f <= cpub c end.

Inductive out : Type := OFall (c : conc) | OBreak (c : conc) | OStop (c : conc) | OBad.

Definition aborts (o : out) : Prop := match o with OStop _ | OBad => True | _ => False end.
Definition not_fall (o : out) : Prop := match o with OFall _ => False | _ => True end.

Inductive exec : item -> conc -> out -> Prop :=
| EPub k c : exec (IPub k) c (OFall (mkc (ctop c) (ctop c + k) (cw c) (cf c)))
| EPubU p c : exec IPubUnknown c (OFall (mkc (ctop c) p (cw c) (cf c)))
| EReload c : exec IReload c (OFall (mkc (cpub c) (cpub c) (cw c) (cf c)))
| ETop d c : exec (ITop d) c (OFall (mkc (ctop c + d) (cpub c) (cw c) (cf c)))
| ETopDown n c : 0 <= n -> exec ITopDown c (OFall (mkc (ctop c - n) (cpub c) (cw c) (cf c)))
| ETopU t c : t <= cw c -> exec ITopUnknown c (OFall (mkc t (cpub c) (cw c) None))
| EStore k stb c : exec (IStore k stb) c
                     (OFall (mkc (ctop c) (cpub c) (if ctop c + k =? cw c then cw c + 1 else cw c) (fresh_store c k stb)))
| EArgOk k c : ctop c + k < cpub c -> exec (IArg k) c (OFall c)
| EArgLost k c : cpub c <= ctop c + k -> exec (IArg k) c OBad
| ECallOk f c : ctop c <= cpub c -> cpub c <= cw c -> fresh_below_pub c -> exec (ICall f) c (OFall c)
| ECallLost f c : cpub c < ctop c -> exec (ICall f) c OBad
| ECallStale f c : cw c < cpub c -> exec (ICall f) c OBad
| ECallFresh f c x : cf c = Some x -> cpub c < x -> exec (ICall f) c OBad
| EIfA a b c o : execs a c o -> exec (IIf a b) c o
| EIfB a b c o : execs b c o -> exec (IIf a b) c o
| ELoopDone b c : exec (ILoop b) c (OFall c)
| ELoopIter b c c1 o : execs b c (OFall c1) -> exec (ILoop b) c1 o -> exec (ILoop b) c o
| ELoopBreak b c c1 : execs b c (OBreak c1) -> exec (ILoop b) c (OFall c1)
| ELoopCont b c c1 o : execs b c (OBreak c1) -> exec (ILoop b) c1 o -> exec (ILoop b) c o
| ELoopAbort b c o : execs b c o -> aborts o -> exec (ILoop b) c o
| EBlockFall b c c1 : execs b c (OFall c1) -> exec (IBlock b) c (OFall c1)
| EBlockBreak b c c1 : execs b c (OBreak c1) -> exec (IBlock b) c (OFall c1)
| EBlockAbort b c o : execs b c o -> aborts o -> exec (IBlock b) c o
| EStop c : exec IStop c (OStop c)
| EBreak c : exec IBreak c (OBreak c)
with execs : list item -> conc -> out -> Prop :=
| ENil c : execs [] c (OFall c)
| EConsFall x tl c c1 o : exec x c (OFall c1) -> execs tl c1 o -> execs (x :: tl) c o
| EConsOther x tl c o : exec x c o -> not_fall o -> execs (x :: tl) c o.

Scheme exec_mind := Minimality for exec Sort Prop
  with execs_mind := Minimality for execs Sort Prop.
Combined Scheme exec_execs_mind from exec_mind, execs_mind.

(** concretisation *)
Definition grel (r : rel) (c : conc) : Prop :=
  match r with Stale => True | Le => ctop c <= cpub c | Eq d => ctop c = cpub c + d end.

Definition gfe (e : ext) (c : conc) : Prop :=
  match cf c with
  | None => True
  | Some f => match e with NInf => False | Fin a => f - ctop c <= a | PInf => True end
  end.

Definition gamma (s : ast) (c : conc) : Prop :=
  grel (arel s) c /\ ahi s <= cw c - ctop c /\ awp s <= cw c - cpub c /\ gfe (afe s) c.

Definition gammao (o : option ast) (c : conc) : Prop :=
  match o with None => False | Some s => gamma s c end.

(** the entry / exit condition of an opcode on configurations: every slot below the local top and below the
    published top has been written *)
Definition entry (c : conc) : Prop := ctop c <= cw c /\ cpub c <= cw c.

Definition sound_out (r : res) (o : out) : Prop :=
  match o with
  | OFall c => gammao (rfall r) c
  | OBreak c => gammao (rbrk r) c
  | OStop c => entry c
  | OBad => False
  end.

(** ---- lattice facts *)
Ltac split_ifs :=
  repeat match goal with |- context [if ?x then _ else _] => destruct x eqn:? end;
  simpl in *; auto;
  repeat match goal with
         | H : (_ <=? _) = true |- _ => apply Z.leb_le in H
         | H : (_ =? _) = true |- _ => apply Z.eqb_eq in H
         | H : (_ && _) = true |- _ => apply andb_prop in H; destruct H
         end.

Lemma grel_join_l : forall a b c, grel a c -> grel (join_rel a b) c.
Proof. intros a b c H; destruct a, b; simpl in *; auto; split_ifs; try lia. Qed.

Lemma grel_join_r : forall a b c, grel b c -> grel (join_rel a b) c.
Proof. intros a b c H; destruct a, b; simpl in *; auto; split_ifs; try lia. Qed.

Lemma gfe_max_l : forall a b c, gfe a c -> gfe (ext_max a b) c.
Proof. intros a b c; unfold gfe; destruct (cf c); auto; destruct a, b; simpl; auto; try contradiction; lia. Qed.

Lemma gfe_max_r : forall a b c, gfe b c -> gfe (ext_max a b) c.
Proof. intros a b c; unfold gfe; destruct (cf c); auto; destruct a, b; simpl; auto; try contradiction; lia. Qed.

Lemma gamma_join_l : forall a b c, gammao a c -> gammao (join a b) c.
Proof.
  intros [a|] [b|] c H; simpl in *; auto; try contradiction.
  destruct H as [H1 [H2 [H3 H4]]]. split; [apply grel_join_l; exact H1 | simpl].
  split; [lia|]. split; [lia|]. apply gfe_max_l; exact H4.
Qed.

Lemma gamma_join_r : forall a b c, gammao b c -> gammao (join a b) c.
Proof.
  intros [a|] [b|] c H; simpl in *; auto; try contradiction.
  destruct H as [H1 [H2 [H3 H4]]]. split; [apply grel_join_r; exact H1 | simpl].
  split; [lia|]. split; [lia|]. apply gfe_max_r; exact H4.
Qed.

Lemma gamma_widen : forall a c, gammao a c -> gammao (widen a) c.
Proof.
  intros [a|] c H; simpl in *; auto. destruct H as [H1 [H2 [H3 H4]]].
  unfold gamma; simpl. repeat split; auto. unfold gfe; destruct (cf c); auto.
Qed.

Lemma rel_eqb_eq : forall a b, rel_eqb a b = true -> a = b.
Proof. intros [| |x] [| |y] H; simpl in H; try discriminate; auto. apply Z.eqb_eq in H. subst; auto. Qed.

Lemma ext_eqb_eq : forall a b, ext_eqb a b = true -> a = b.
Proof. intros [|x|] [|y|] H; simpl in H; try discriminate; auto. apply Z.eqb_eq in H. subst; auto. Qed.

Lemma ast_eqb_eq : forall a b, ast_eqb a b = true -> a = b.
Proof.
  intros [[ra ha wa ea]|] [[rb hb wb eb]|] H; simpl in H; try discriminate; auto.
  apply andb_prop in H. destruct H as [H H4]. apply andb_prop in H. destruct H as [H H3].
  apply andb_prop in H. destruct H as [H1 H2].
  apply rel_eqb_eq in H1. apply Z.eqb_eq in H2. apply Z.eqb_eq in H3. apply ext_eqb_eq in H4. subst; auto.
Qed.

Lemma rel_eqb_refl : forall a, rel_eqb a a = true.
Proof. intros [| |x]; simpl; auto. apply Z.eqb_refl. Qed.

Lemma ext_eqb_refl : forall a, ext_eqb a a = true.
Proof. intros [|x|]; simpl; auto. apply Z.eqb_refl. Qed.

Lemma ast_eqb_refl : forall a, ast_eqb a a = true.
Proof. intros [[r h w e]|]; simpl; auto. rewrite rel_eqb_refl, !Z.eqb_refl, ext_eqb_refl. reflexivity. Qed.

Lemma safe_gamma : forall s c, safe s = true -> gamma s c ->
  ctop c <= cpub c /\ cpub c <= cw c /\ fresh_below_pub c.
Proof.
  intros [r h w e] c Hs [H1 [H2 [H3 H4]]]; unfold safe in Hs; simpl in *.
  apply andb_prop in Hs. destruct Hs as [Hs Hf]. apply andb_prop in Hs. destruct Hs as [Hr Hw].
  apply Z.leb_le in Hw.
  assert (Ht : ctop c <= cpub c).
  { destruct r; simpl in *; try discriminate; auto. apply Z.leb_le in Hr. lia. }
  split; [exact Ht|]. split; [lia|].
  unfold fresh_below_pub, gfe in *. destruct (cf c) as [f|]; auto.
  destruct e as [|a|]; simpl in Hf; try discriminate; try contradiction.
  destruct r; simpl in *; try discriminate; apply Z.leb_le in Hf; lia.
Qed.

Lemma exit_gamma : forall s c, exit_ok s = true -> gamma s c -> entry c.
Proof.
  intros [r h w e] c He [H1 [H2 [H3 H4]]]; unfold exit_ok in He; simpl in *.
  apply andb_prop in He. destruct He as [Ha Hb]. apply Z.leb_le in Ha. apply Z.leb_le in Hb.
  unfold entry; lia.
Qed.

Lemma entry_gamma_start : forall c, entry c -> cf c = None -> gamma start c.
Proof. intros c [H1 H2] Hf; unfold gamma, start, gfe; simpl. rewrite Hf. repeat split; auto; lia. Qed.

(** ---- unfolding equations *)
Lemma run_list_nil : forall s, run_list [] (Some s) = mkres true (Some s) None.
Proof. reflexivity. Qed.

Lemma run_list_none : forall l, run_list l None = mkres true None None.
Proof. intros [|x l]; reflexivity. Qed.

Lemma run_list_cons : forall x tl s,
  run_list (x :: tl) (Some s) =
  mkres (rok (run_item x s) && rok (run_list tl (rfall (run_item x s))))
        (rfall (run_list tl (rfall (run_item x s))))
        (join (rbrk (run_item x s)) (rbrk (run_list tl (rfall (run_item x s))))).
Proof. reflexivity. Qed.

Lemma run_item_if : forall a b s,
  run_item (IIf a b) s =
  mkres (rok (run_list a (Some s)) && rok (run_list b (Some s)))
        (join (rfall (run_list a (Some s))) (rfall (run_list b (Some s))))
        (join (rbrk (run_list a (Some s))) (rbrk (run_list b (Some s)))).
Proof. reflexivity. Qed.

Lemma run_item_loop : forall b s, run_item (ILoop b) s = loop_res (run_list b) s.
Proof. reflexivity. Qed.

Lemma run_item_block : forall b s,
  run_item (IBlock b) s =
  mkres (rok (run_list b (Some s))) (join (rfall (run_list b (Some s))) (rbrk (run_list b (Some s)))) None.
Proof. reflexivity. Qed.

Arguments loop_round : simpl never.

(** ---- loops: the accepted invariant is a post-fixpoint of the body and covers the entry state *)
Lemma loop_round_some : forall body s, exists s', loop_round body (Some s) = Some s'.
Proof.
  intros body s; unfold loop_round.
  destruct (join (rfall (body (Some s))) (rbrk (body (Some s)))) as [y|]; simpl; eauto.
Qed.

Lemma loop_round_ge : forall body inv c, gammao inv c -> gammao (loop_round body inv) c.
Proof. intros; unfold loop_round; apply gamma_join_l; assumption. Qed.

Lemma widen_some : forall s, exists s', widen (Some s) = Some s'.
Proof. intros s; simpl; eauto. Qed.

Lemma loop_res_inv : forall body s,
  rok (loop_res body s) = true ->
  exists si, rfall (loop_res body s) = Some si /\
             (forall c, gamma s c -> gamma si c) /\
             loop_round body (Some si) = Some si /\
             rok (body (Some si)) = true.
Proof.
  intros body s H. unfold loop_res in *. cbn [rok rfall rbrk] in *.
  destruct (loop_round_some body s) as [s1 E1].
  destruct (loop_round_some body s1) as [s2 E2].
  destruct (loop_round_some body s2) as [s3 E3].
  rewrite E1, E2, E3 in *.
  assert (G3 : forall c, gamma s c -> gamma s3 c).
  { intros c Hg.
    assert (G1 : gammao (Some s1) c) by (rewrite <- E1; apply loop_round_ge; exact Hg).
    assert (G2 : gammao (Some s2) c) by (rewrite <- E2; apply loop_round_ge; exact G1).
    assert (G3 : gammao (Some s3) c) by (rewrite <- E3; apply loop_round_ge; exact G2).
    exact G3. }
  destruct (ast_eqb (loop_round body (Some s3)) (Some s3)) eqn:Est.
  - apply andb_prop in H. destruct H as [Hok Hst]. apply ast_eqb_eq in Hst.
    exists s3. split; [reflexivity|]. split; [exact G3|split; [exact Hst | exact Hok]].
  - destruct (widen_some s3) as [s4 E4]. destruct (loop_round_some body s4) as [s5 E5].
    rewrite E4, E5 in *.
    apply andb_prop in H. destruct H as [Hok Hst]. apply ast_eqb_eq in Hst.
    exists s5. split; [reflexivity|]. split; [|split; [exact Hst | exact Hok]].
    intros c Hg.
    assert (G4 : gammao (Some s4) c) by (rewrite <- E4; apply gamma_widen; exact (G3 c Hg)).
    assert (G5 : gammao (Some s5) c) by (rewrite <- E5; apply loop_round_ge; exact G4).
    exact G5.
Qed.

Lemma loop_res_stable : forall body si,
  loop_round body (Some si) = Some si -> rok (body (Some si)) = true ->
  loop_res body si = mkres true (Some si) None.
Proof.
  intros body si Hst Hok. unfold loop_res. rewrite !Hst, ast_eqb_refl, Hst, Hok, ast_eqb_refl. reflexivity.
Qed.

Arguments loop_res : simpl never.

(** ---- soundness of one basic step *)
Lemma step_store_sound : forall s k stb c,
  gamma s c ->
  gamma (step_store s k stb)
        (mkc (ctop c) (cpub c) (if ctop c + k =? cw c then cw c + 1 else cw c) (fresh_store c k stb)).
Proof.
  intros [r h w e] k stb [t p ww f] [H1 [H2 [H3 H4]]]; unfold step_store; simpl in *.
  assert (Hw : ww <= (if t + k =? ww then ww + 1 else ww)) by (destruct (t + k =? ww); lia).
  assert (Hh : (if k =? h then h + 1 else h) <= (if t + k =? ww then ww + 1 else ww) - t).
  { destruct (k =? h) eqn:Ek.
    - apply Z.eqb_eq in Ek. subst k. destruct (t + h =? ww) eqn:Ew.
      + apply Z.eqb_eq in Ew. lia.
      + apply Z.eqb_neq in Ew. lia.
    - lia. }
  split; [|split; [|split]].
  - destruct r; simpl in *; auto.
  - simpl. exact Hh.
  - simpl. destruct r; simpl in *; lia.
  - unfold gfe, fresh_store in *; simpl in *. destruct stb; [exact H4|].
    destruct f as [f|]; destruct e as [|a|]; simpl; auto; try contradiction; lia.
Qed.

(** ---- the main induction, on the derivation of the concrete execution *)
Definition item_sound (it : item) (c : conc) (o : out) : Prop :=
  forall s, gamma s c -> rok (run_item it s) = true -> sound_out (run_item it s) o.

Definition list_sound (l : list item) (c : conc) (o : out) : Prop :=
  forall s, gamma s c -> rok (run_list l (Some s)) = true -> sound_out (run_list l (Some s)) o.

Lemma sound_out_abort_irrel : forall r r' o, aborts o -> sound_out r o -> sound_out r' o.
Proof. intros r r' [c|c|c|] Ha H; simpl in *; auto; contradiction. Qed.

Lemma exec_sound_both :
  (forall it c o, exec it c o -> item_sound it c o) /\
  (forall l c o, execs l c o -> list_sound l c o).
Proof.
  apply exec_execs_mind; unfold item_sound, list_sound.
  - (* IPub *) intros k c s [H1 [H2 [H3 H4]]] _; simpl. unfold gamma; simpl.
    split; [lia|]. split; [lia|]. split; [lia|]. exact H4.
  - (* IPubUnknown *) intros p c s _ Hok; simpl in Hok; discriminate.
  - (* IReload *) intros c s [H1 [H2 [H3 H4]]] _; simpl. unfold gamma; simpl.
    split; [lia|]. split; [lia|]. split; [lia|].
    unfold gfe in *; simpl. destruct (cf c) as [f|]; auto.
    destruct (arel s); simpl in *; destruct (afe s); simpl in *; auto; try contradiction; lia.
  - (* ITop *) intros d c s [H1 [H2 [H3 H4]]] _; simpl. unfold gamma; simpl. split; [|split; [lia|split; [lia|]]].
    + destruct (arel s); simpl in *; auto.
      * destruct (d <=? 0) eqn:E; simpl; auto. apply Z.leb_le in E. lia.
      * lia.
    + unfold gfe in *; simpl. destruct (cf c) as [f|]; auto.
      destruct (afe s); simpl in *; auto; lia.
  - (* ITopDown *) intros n c Hn s [H1 [H2 [H3 H4]]] _; simpl. unfold gamma; simpl. split; [|split; [lia|split; [lia|]]].
    + destruct (arel s); simpl in *; auto.
      * lia.
      * destruct (d <=? 0) eqn:E; simpl; auto. apply Z.leb_le in E. lia.
    + unfold gfe in *; simpl. destruct (cf c) as [f|]; auto.
      destruct (afe s); simpl in *; auto.
  - (* ITopUnknown *) intros t c Ht s [H1 [H2 [H3 H4]]] _; simpl. unfold gamma; simpl.
    split; [exact I|]. split; [lia|]. split; [lia|]. unfold gfe; simpl. exact I.
  - (* IStore *) intros k stb c s Hg _; simpl. apply step_store_sound; exact Hg.
  - (* IArg ok *) intros k c _ s Hg _; simpl. exact Hg.
  - (* IArg lost *) intros k c Hle s [H1 _] Hok; simpl in *. unfold arg_ok in Hok.
    destruct (arel s); simpl in *; try discriminate; apply Z.ltb_lt in Hok; lia.
  - (* ICall ok *) intros f c _ _ _ s Hg _; simpl. exact Hg.
  - (* ICall lost *) intros f c Hlt s Hg Hok; simpl in *. destruct (safe_gamma _ _ Hok Hg) as [Ha [Hb Hc]]. lia.
  - (* ICall stale *) intros f c Hlt s Hg Hok; simpl in *. destruct (safe_gamma _ _ Hok Hg) as [Ha [Hb Hc]]. lia.
  - (* ICall fresh *) intros f c x Hx Hlt s Hg Hok; simpl in *. destruct (safe_gamma _ _ Hok Hg) as [Ha [Hb Hc]].
    unfold fresh_below_pub in Hc. rewrite Hx in Hc. lia.
  - (* IIf, first branch *) intros a b c o _ IH s Hg Hok. rewrite run_item_if in *. simpl in Hok.
    apply andb_prop in Hok. destruct Hok as [Ha Hb].
    specialize (IH s Hg Ha).
    destruct o; simpl in *; auto; [apply gamma_join_l | apply gamma_join_l]; exact IH.
  - (* IIf, second branch *) intros a b c o _ IH s Hg Hok. rewrite run_item_if in *. simpl in Hok.
    apply andb_prop in Hok. destruct Hok as [Ha Hb].
    specialize (IH s Hg Hb).
    destruct o; simpl in *; auto; [apply gamma_join_r | apply gamma_join_r]; exact IH.
  - (* ILoop, no further iteration *) intros b c s Hg Hok. rewrite run_item_loop in *.
    destruct (loop_res_inv _ _ Hok) as [si [Hf [Hge _]]]. unfold sound_out. rewrite Hf. apply Hge; exact Hg.
  - (* ILoop, one iteration then the rest *) intros b c c1 o _ IH1 _ IH2 s Hg Hok. rewrite run_item_loop in *.
    destruct (loop_res_inv _ _ Hok) as [si [Hf [Hge [Hst Hokb]]]].
    specialize (IH1 si (Hge c Hg) Hokb). simpl in IH1.
    assert (G1 : gamma si c1).
    { assert (G : gammao (loop_round (run_list b) (Some si)) c1)
        by (unfold loop_round; apply gamma_join_r, gamma_join_l; exact IH1).
      rewrite Hst in G. exact G. }
    specialize (IH2 si G1). rewrite run_item_loop, (loop_res_stable _ _ Hst Hokb) in IH2.
    specialize (IH2 eq_refl).
    destruct o; unfold sound_out in *; cbn [rfall rbrk] in IH2; auto; try contradiction.
    rewrite Hf. exact IH2.
  - (* ILoop, break *) intros b c c1 _ IH1 s Hg Hok. rewrite run_item_loop in *.
    destruct (loop_res_inv _ _ Hok) as [si [Hf [Hge [Hst Hokb]]]].
    specialize (IH1 si (Hge c Hg) Hokb). simpl in IH1. unfold sound_out. rewrite Hf.
    assert (G : gammao (loop_round (run_list b) (Some si)) c1)
      by (unfold loop_round; apply gamma_join_r, gamma_join_r; exact IH1).
    rewrite Hst in G. exact G.
  - (* ILoop, continue *) intros b c c1 o _ IH1 _ IH2 s Hg Hok. rewrite run_item_loop in *.
    destruct (loop_res_inv _ _ Hok) as [si [Hf [Hge [Hst Hokb]]]].
    specialize (IH1 si (Hge c Hg) Hokb). simpl in IH1.
    assert (G1 : gamma si c1).
    { assert (G : gammao (loop_round (run_list b) (Some si)) c1)
        by (unfold loop_round; apply gamma_join_r, gamma_join_r; exact IH1).
      rewrite Hst in G. exact G. }
    specialize (IH2 si G1). rewrite run_item_loop, (loop_res_stable _ _ Hst Hokb) in IH2.
    specialize (IH2 eq_refl).
    destruct o; unfold sound_out in *; cbn [rfall rbrk] in IH2; auto; try contradiction.
    rewrite Hf. exact IH2.
  - (* ILoop, the body stops or goes wrong *) intros b c o _ IH1 Hab s Hg Hok. rewrite run_item_loop in *.
    destruct (loop_res_inv _ _ Hok) as [si [Hf [Hge [Hst Hokb]]]].
    specialize (IH1 si (Hge c Hg) Hokb).
    eapply sound_out_abort_irrel; eauto.
  - (* IBlock, falls through *) intros b c c1 _ IH s Hg Hok. rewrite run_item_block in *. simpl in *.
    apply gamma_join_l. exact (IH s Hg Hok).
  - (* IBlock, break *) intros b c c1 _ IH s Hg Hok. rewrite run_item_block in *. simpl in *.
    apply gamma_join_r. exact (IH s Hg Hok).
  - (* IBlock, abort *) intros b c o _ IH Hab s Hg Hok. rewrite run_item_block in *. simpl in Hok.
    eapply sound_out_abort_irrel; eauto.
  - (* IStop *) intros c s Hg Hok; simpl in *. eapply exit_gamma; eauto.
  - (* IBreak *) intros c s Hg _; simpl. exact Hg.
  - (* [] *) intros c s Hg _. rewrite run_list_nil. simpl. exact Hg.
  - (* x :: tl, x falls through *) intros x tl c c1 o _ IH1 _ IH2 s Hg Hok. rewrite run_list_cons in *. simpl in Hok.
    apply andb_prop in Hok. destruct Hok as [Hx Ht].
    specialize (IH1 s Hg Hx). simpl in IH1.
    destruct (rfall (run_item x s)) as [s1|] eqn:Ef; [|contradiction].
    specialize (IH2 s1 IH1 Ht).
    destruct o; simpl in *; auto. apply gamma_join_r. exact IH2.
  - (* x :: tl, x does not fall through *) intros x tl c o _ IH1 Hnf s Hg Hok. rewrite run_list_cons in *. simpl in Hok.
    apply andb_prop in Hok. destruct Hok as [Hx Ht].
    specialize (IH1 s Hg Hx).
    destruct o; simpl in *; auto; try contradiction. apply gamma_join_l. exact IH1.
Qed.

(** the checker is sound for every piece of code of the item language, branches, loops and nested switches
    included: started in a configuration described by the abstract state, an accepted piece never runs an
    allocating call with the local top above the published top or with the published top above the written end,
    every fall-through / break configuration is described by the computed states, and every configuration at
    which the opcode ends satisfies the entry condition of the next opcode *)
Theorem vm_top_checker_sound_all : forall l c o s,
  execs l c o -> gamma s c -> rok (run_list l (Some s)) = true ->
  o <> OBad /\ sound_out (run_list l (Some s)) o.
Proof.
  intros l c o s He Hg Hok.
  pose proof (proj2 exec_sound_both l c o He s Hg Hok) as H.
  split; [intros ->; exact H | exact H].
Qed.

(** an accepted opcode segment preserves the interpreter-loop invariant [entry] and never allocates in a bad
    configuration; an opcode starts with no fresh store of its own *)
Theorem seg_ok_sound : forall e c o,
  seg_ok e = true -> entry c -> cf c = None -> execs (snd e) c o ->
  match o with OBad => False | OFall c' | OBreak c' | OStop c' => entry c' end.
Proof.
  intros e c o Hs Hc Hfr He. unfold seg_ok in Hs.
  apply andb_prop in Hs. destruct Hs as [Hs Hb]. apply andb_prop in Hs. destruct Hs as [Hok Hf].
  pose proof (entry_gamma_start c Hc Hfr) as Hg.
  destruct (vm_top_checker_sound_all _ _ _ _ He Hg Hok) as [_ H].
  destruct o as [c'|c'|c'|]; simpl in H; auto.
  - destruct (rfall (run_list (snd e) (Some start))) as [s'|]; [|contradiction].
    eapply exit_gamma; eauto.
  - destruct (rbrk (run_list (snd e) (Some start))) as [s'|]; [|contradiction].
    eapply exit_gamma; eauto.
Qed.

(** ---- examples: the shapes of the two genuine defects are rejected, the repaired shapes accepted, and the
    rejected shapes really have a bad execution (the concrete semantics is not vacuous) *)
Example ex_ok : seg_ok ("ok"%string, [IPub 0; ICall "sexp_cons_op"; ITop (-1); IStop]) = true.
Proof. reflexivity. Qed.
Example ex_unpublished : seg_ok ("bad"%string, [ICall "sexp_string_utf8_ref"; ITop (-1); IStop]) = false.
Proof. reflexivity. Qed.
Example ex_push_after_publish : seg_ok ("bad"%string, [IPub 0; IStore 0 false; ITop 1; ICall "sexp_cons_op"; IStop]) = false.
Proof. reflexivity. Qed.
Example ex_branch : seg_ok ("br"%string, [IIf [IPub 0] []; ICall "sexp_cons_op"]) = false.
Proof. reflexivity. Qed.
Example ex_loop : seg_ok ("lp"%string, [IPub 0; ILoop [ICall "sexp_cons_op"; IStore 0 false; ITop 1]; IStop]) = false.
Proof. reflexivity. Qed.
Example ex_loop_ok : seg_ok ("lp"%string, [IPub 0; ILoop [ICall "sexp_cons_op"; ITop (-1)]; IStop]) = true.
Proof. reflexivity. Qed.
(** a break that leaves a loop with the top above the published one (unsound in the round-2 checker) *)
Example ex_loop_break : seg_ok ("lb"%string, [IPub 0; ILoop [IStore 0 false; ITop 1; IIf [IBreak] []; ITop (-1)]; ICall "sexp_cons_op"; IStop]) = false.
Proof. reflexivity. Qed.
(** sexp_raise before e9f05cd: publish top+1, build the irritants, store them *)
Definition raise_pinned : list item :=
  [ILoop [IPub 1; ICall "sexp_cons_op"; IStore 0 false; ICall "sexp_user_exception"; IStore 0 false; ITop 1; IStop]].
(** sexp_raise as repaired *)
Definition raise_fixed : list item :=
  [ILoop [IPub 0; ICall "sexp_cons_op"; IStore 0 false; IPub 1; ICall "sexp_user_exception"; IStore 0 false; ITop 1; IStop]].
Example ex_raise_pinned : seg_ok ("SEXP_OP_CAR"%string, raise_pinned) = false.
Proof. reflexivity. Qed.
Example ex_raise_fixed : seg_ok ("SEXP_OP_CAR"%string, raise_fixed) = true.
Proof. reflexivity. Qed.
Example ex_raise_pinned_bad : execs raise_pinned (mkc 5 5 5 None) OBad.
Proof.
  eapply EConsOther; [|exact I].
  eapply ELoopAbort; [|exact I].
  eapply EConsFall; [apply EPub|].
  eapply EConsOther; [|exact I]. apply ECallStale. simpl. lia.
Qed.
Example ex_raise_fixed_run : execs raise_fixed (mkc 5 5 5 None) (OStop (mkc 6 6 6 (Some 6))).
Proof.
  eapply EConsOther; [|exact I].
  eapply ELoopAbort; [|exact I].
  eapply EConsFall; [apply EPub|].
  eapply EConsFall; [apply ECallOk; unfold fresh_below_pub; simpl; lia|].
  eapply EConsFall; [apply EStore|]. simpl.
  eapply EConsFall; [apply EPub|]. simpl.
  eapply EConsFall; [apply ECallOk; unfold fresh_below_pub; simpl; lia|].
  eapply EConsFall; [apply EStore|]. simpl.
  eapply EConsFall; [apply ETop|]. simpl.
  eapply EConsOther; [apply EStop|exact I].
Qed.
(** publishing a slot and storing it before anything allocates is fine *)
Example ex_publish_then_store : seg_ok ("ps"%string, [IPub 1; IStore 0 false; ICall "sexp_cons_op"; ITop 1; IStop]) = true.
Proof. reflexivity. Qed.
(** an opcode may not end with an unwritten slot below its top *)
Example ex_exit_unwritten : seg_ok ("ex"%string, [ITop 1; IStop]) = false.
Proof. reflexivity. Qed.
(** breaking change "sexp_raise publishes top instead of top+1 for the exception allocation": the irritants list
    lives only in stack[top], above the published top *)
Definition raise_irritants_unrooted : list item :=
  [ILoop [IPub 0; ICall "sexp_cons_op"; IStore 0 false; IPub 0; ICall "sexp_user_exception"; IStore 0 false; ITop 1; IStop]].
Example ex_raise_irritants_unrooted : seg_ok ("SEXP_OP_CAR"%string, raise_irritants_unrooted) = false.
Proof. reflexivity. Qed.
Example ex_raise_irritants_unrooted_bad : execs raise_irritants_unrooted (mkc 5 5 5 None) OBad.
Proof.
  eapply EConsOther; [|exact I].
  eapply ELoopAbort; [|exact I].
  eapply EConsFall; [apply EPub|].
  eapply EConsFall; [apply ECallOk; unfold fresh_below_pub; simpl; lia|].
  eapply EConsFall; [apply EStore|]. simpl.
  eapply EConsFall; [apply EPub|]. simpl.
  eapply EConsOther; [|exact I]. eapply ECallFresh; simpl; [reflexivity|]. unfold fresh_store; simpl. lia.
Qed.
(** own breaking change M2: ADD passes its popped operand stack[top] to sexp_add *)
Example ex_popped_argument : seg_ok ("SEXP_OP_ADD"%string, [ITop (-1); IPub 0; IArg 0; ICall "sexp_add"; IStore (-1) false; IStop]) = false.
Proof. reflexivity. Qed.
Example ex_scanned_argument : seg_ok ("SEXP_OP_CONS"%string, [IPub 0; IArg (-1); IArg (-2); ICall "sexp_cons_op"; IStore (-2) false; ITop (-1); IStop]) = true.
Proof. reflexivity. Qed.
(** frame words (immediates and the registered local self) above the published top are fine: CALLCC *)
Example ex_callcc_frame : seg_ok ("cc"%string, [IStore 0 true; IStore 1 true; IStore 2 true; IStore 3 true; IPub 0; ICall "sexp_make_vector"; ITop 4; IStop]) = true.
Proof. reflexivity. Qed.
