(** C02, root registration of the VM stack: "every opcode that may allocate publishes the stack top first".

    The marker scans a thread's stack only below the top PUBLISHED in the context
    (`sexp_context_top(ctx)`; Stack type: slot count = top, sexp.c `_sexp_type_specs[]`); the interpreter loop
    of sexp_apply (vm.c) keeps the real top in the C local `top` and copies it into the context before calls
    that may allocate.  gen/c02_vmtop.py translates every case of the opcode switch into the item language
    below (clang AST, macros expanded; may-allocate set from the call graph of the LLVM IR); [seg_ok] is an
    abstract interpretation over the relation between the local and the published top:
        Stale   nothing known (state at the start of every opcode: an earlier opcode may have moved top)
        Le      local top <= published top
        Eq d    local top  = published top + d
    A call that may allocate is accepted only in a state where local top <= published top. *)
From Coq Require Import ZArith List String Bool Lia.
Import ListNotations.
Local Open Scope Z_scope.

Inductive item : Type :=
| IPub (k : Z)            (* sexp_context_top(ctx) = top + k *)
| IPubUnknown             (* sexp_context_top(ctx) = <something else> *)
| IReload                 (* top = sexp_context_top(ctx) *)
| ITop (d : Z)            (* top += d  (_PUSH, _POP, top--, top -= 2 ...) *)
| ITopDown                (* top -= <non-constant, non-negative amount> *)
| ITopUnknown             (* top = <something else> *)
| ICall (f : string)      (* call of a function from which sexp_alloc is reachable, or through a pointer *)
| IIf (a b : list item)   (* either branch *)
| ILoop (b : list item)   (* any number of iterations *)
| IStop                   (* break of the opcode / goto / return *)
| IBreak.                 (* break / continue of an inner loop or switch *)

Inductive ast : Type := Stale | Le | Eq (d : Z).

Definition safe (s : ast) : bool :=
  match s with Stale => false | Le => true | Eq d => d <=? 0 end.

Definition join1 (a b : ast) : ast :=
  match a, b with
  | Stale, _ | _, Stale => Stale
  | Eq x, Eq y => if x =? y then Eq x else if (x <=? 0) && (y <=? 0) then Le else Stale
  | _, _ => if safe a && safe b then Le else Stale
  end.

(** [None] = unreachable *)
Definition join (a b : option ast) : option ast :=
  match a, b with
  | None, x | x, None => x
  | Some x, Some y => Some (join1 x y)
  end.

Definition ast_eqb (a b : option ast) : bool :=
  match a, b with
  | None, None => true
  | Some Stale, Some Stale | Some Le, Some Le => true
  | Some (Eq x), Some (Eq y) => x =? y
  | _, _ => false
  end.

Definition step_top (s : ast) (d : Z) : ast :=
  match s with
  | Stale => Stale
  | Le => if d <=? 0 then Le else Stale
  | Eq x => Eq (x + d)
  end.

Definition step_down (s : ast) : ast :=
  match s with Stale => Stale | Le => Le | Eq x => if x <=? 0 then Le else Stale end.

(** result: (all calls seen so far were safe, fall-through state) *)
Fixpoint run_item (fuel : nat) (it : item) (s : ast) {struct fuel} : bool * option ast :=
  match fuel with
  | O => (false, Some Stale)
  | S f =>
    let run_list := fix rl (l : list item) (ok : bool) (st : option ast) {struct l} : bool * option ast :=
      match l with
      | [] => (ok, st)
      | IBreak :: _ => (ok, st)
      | x :: tl =>
        match st with
        | None => (ok, None)
        | Some s0 => let '(ok1, st1) := run_item f x s0 in rl tl (ok && ok1) st1
        end
      end in
    match it with
    | IPub k => (true, Some (Eq (- k)))
    | IPubUnknown => (true, Some Stale)
    | IReload => (true, Some (Eq 0))
    | ITop d => (true, Some (step_top s d))
    | ITopDown => (true, Some (step_down s))
    | ITopUnknown => (true, Some Stale)
    | ICall _ => (safe s, Some s)
    | IIf a b =>
      let '(oka, sa) := run_list a true (Some s) in
      let '(okb, sb) := run_list b true (Some s) in
      (oka && okb, join sa sb)
    | ILoop b =>
      (* three rounds reach the top of a chain Eq -> Le -> Stale; the result must be stable, else Stale *)
      let round := fun (inv : option ast) => join inv (snd (run_list b true inv)) in
      let inv3 := round (round (round (Some s))) in
      let inv := if ast_eqb (round inv3) inv3 then inv3 else Some Stale in
      (fst (run_list b true inv), inv)
    | IStop => (true, None)
    | IBreak => (true, Some s)
    end
  end.

Fixpoint run_list (fuel : nat) (l : list item) (ok : bool) (st : option ast) {struct l} : bool * option ast :=
  match l with
  | [] => (ok, st)
  | IBreak :: _ => (ok, st)
  | x :: tl =>
    match st with
    | None => (ok, None)
    | Some s0 => let '(ok1, st1) := run_item fuel x s0 in run_list fuel tl (ok && ok1) st1
    end
  end.

(** an opcode segment starts with nothing known about the published top *)
Definition seg_ok (e : string * list item) : bool := fst (run_list 40 (snd e) true (Some Stale)).

(** -------------------------------------------------------------------------------------------------
    Soundness for branch-free code (the shape of 40 of the 56 allocating opcodes): concrete semantics on
    (local top, published top); every ICall executes with top <= published. *)
Inductive flat : item -> Prop :=
| FPub k : flat (IPub k) | FReload : flat IReload | FTop d : flat (ITop d) | FCall f : flat (ICall f).

(** concrete step; [None] = the call ran with top above the published top *)
Definition cstep (it : item) (c : Z * Z) : option (Z * Z) :=
  let '(top, pub) := c in
  match it with
  | IPub k => Some (top, top + k)
  | IReload => Some (pub, pub)
  | ITop d => Some (top + d, pub)
  | ICall _ => if top <=? pub then Some c else None
  | _ => Some c
  end.

Fixpoint crun (l : list item) (c : Z * Z) : option (Z * Z) :=
  match l with
  | [] => Some c
  | x :: tl => match cstep x c with None => None | Some c' => crun tl c' end
  end.

Definition gamma (s : ast) (c : Z * Z) : Prop :=
  match s with Stale => True | Le => fst c <= snd c | Eq d => fst c = snd c + d end.

Lemma safe_gamma : forall s c, safe s = true -> gamma s c -> fst c <=? snd c = true.
Proof.
  intros s [t p] Hs Hg; destruct s; simpl in *; try discriminate.
  - apply Z.leb_le; exact Hg.
  - apply Z.leb_le in Hs. apply Z.leb_le. lia.
Qed.

Lemma run_item_flat : forall f it s, flat it ->
  run_item (S f) it s =
  match it with
  | IPub k => (true, Some (Eq (- k)))
  | IReload => (true, Some (Eq 0))
  | ITop d => (true, Some (step_top s d))
  | ICall _ => (safe s, Some s)
  | _ => (true, None)
  end.
Proof. intros f it s H; destruct H; reflexivity. Qed.

Lemma flat_step_sound : forall f it s c s',
  flat it -> gamma s c -> run_item (S f) it s = (true, Some s') ->
  exists c', cstep it c = Some c' /\ gamma s' c'.
Proof.
  intros f it s [t p] s' Hf Hg Hr.
  rewrite (run_item_flat f it s Hf) in Hr.
  destruct Hf.
  - inversion Hr; subst; eexists; split; [reflexivity|]; simpl; lia.
  - inversion Hr; subst; eexists; split; [reflexivity|]; simpl; lia.
  - inversion Hr; subst. eexists; split; [reflexivity|].
    destruct s; simpl in *; auto.
    + destruct (d <=? 0) eqn:E; simpl; auto. apply Z.leb_le in E. lia.
    + lia.
  - inversion Hr as [[Hs Hs']]; subst s'.
    pose proof (safe_gamma _ _ Hs Hg) as Hle; simpl in Hle.
    exists (t, p); split; [simpl; rewrite Hle; reflexivity | exact Hg].
Qed.

Lemma flat_never_none : forall f it s ok, flat it -> run_item (S f) it s <> (ok, None).
Proof. intros f it s ok Hf; rewrite (run_item_flat f it s Hf); destruct Hf; discriminate. Qed.

Arguments run_item : simpl never.

Lemma run_list_false : forall f l st, fst (run_list f l false st) = false.
Proof.
  intros f l; induction l as [|y l IH]; intros st; simpl; auto.
  destruct y; auto; destruct st; auto;
  match goal with |- context [run_item f ?i ?a] => destruct (run_item f i a) end; simpl; apply IH.
Qed.

(** branch-free segments accepted by the checker never allocate with the local top above the published one *)
Theorem vm_top_checker_sound_flat : forall l f s c ok,
  Forall flat l -> gamma s c -> fst (run_list (S f) l ok (Some s)) = true ->
  crun l c <> None.
Proof.
  induction l as [|x tl IH]; intros f s c ok Hfl Hg Hr; [simpl; discriminate|].
  inversion Hfl as [|? ? Hx Htl]; subst.
  assert (Hstep : run_list (S f) (x :: tl) ok (Some s) =
                  let '(ok1, st1) := run_item (S f) x s in run_list (S f) tl (ok && ok1) st1)
    by (destruct Hx; reflexivity).
  rewrite Hstep in Hr; clear Hstep.
  destruct (run_item (S f) x s) as [ok1 st1] eqn:E.
  destruct ok1.
  2:{ rewrite andb_false_r, run_list_false in Hr; discriminate. }
  destruct st1 as [s1|].
  2:{ exfalso; eapply flat_never_none; eauto. }
  destruct (flat_step_sound f x s c s1 Hx Hg E) as [c' [Hc Hg']].
  simpl; rewrite Hc. eapply IH; eauto.
Qed.

(** examples: the repaired STRING_REF shape is accepted, the pinned one (call before any publish) and a
    push after the publish are rejected *)
Example ex_ok : seg_ok ("ok"%string, [IPub 0; ICall "sexp_cons_op"; ITop (-1); IStop]) = true.
Proof. reflexivity. Qed.
Example ex_unpublished : seg_ok ("bad"%string, [ICall "sexp_string_utf8_ref"; ITop (-1); IStop]) = false.
Proof. reflexivity. Qed.
Example ex_push_after_publish : seg_ok ("bad"%string, [IPub 0; ITop 1; ICall "sexp_cons_op"; IStop]) = false.
Proof. reflexivity. Qed.
Example ex_branch : seg_ok ("br"%string, [IIf [IPub 0] []; ICall "sexp_cons_op"]) = false.
Proof. reflexivity. Qed.
Example ex_loop : seg_ok ("lp"%string, [IPub 0; ILoop [ICall "sexp_cons_op"; ITop 1]; IStop]) = false.
Proof. reflexivity. Qed.
Example ex_loop_ok : seg_ok ("lp"%string, [IPub 0; ILoop [ICall "sexp_cons_op"; ITop (-1)]; IStop]) = true.
Proof. reflexivity. Qed.
