(** C02 generated obligation: every segment (case / label) of the opcode switch of sexp_apply, as translated from
    the tree under check (Gen/C02_VmTop.v), is accepted by the checker of VmTop.v: wherever a call that may allocate
    is reached, the local stack top is at or below the top published in the context. *)
From Coq Require Import ZArith List String Bool.
From ChibiV Require Import C02.VmTop Gen.C02_VmTop.
Import ListNotations.

Lemma vm_alloc_ops_publish_top : forallb seg_ok vm_segments = true.
Proof. vm_compute. reflexivity. Qed.

(** the table is not trivial: it has the allocating opcodes in it *)
Fixpoint calls_in (fuel : nat) (l : list item) : nat :=
  match fuel with
  | O => 0%nat
  | S f => fold_right (fun it acc => match it with
                                     | ICall _ => S acc
                                     | IIf a b => (calls_in f a + calls_in f b + acc)%nat
                                     | ILoop b => (calls_in f b + acc)%nat
                                     | _ => acc
                                     end) 0%nat l
  end.

Lemma vm_table_nontrivial :
  (50 <=? List.length (filter (fun e => Nat.ltb 0 (calls_in 40 (snd e))) vm_segments))%nat = true.
Proof. vm_compute. reflexivity. Qed.
