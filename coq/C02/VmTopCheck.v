(** C02 generated obligation: every segment (case / label) of the opcode switch of sexp_apply, as translated from
    the tree under check (Gen/C02_VmTop.v), is accepted by the checker of VmTop.v: wherever a call that may allocate
    is reached, the local stack top is at or below the top published in the context (no lost root) and the published
    top is at or below the end of the slots written under the frame protocol (no stale root); and every exit of
    every opcode re-establishes the condition every opcode starts from. *)
From Coq Require Import ZArith List String Bool.
From ChibiV Require Import C02.VmTop Gen.C02_VmTop.
Import ListNotations.

Lemma vm_alloc_ops_publish_top : forallb seg_ok vm_segments = true.
Proof. vm_compute. reflexivity. Qed.

(** ... hence, by the soundness theorem of the checker: in the concrete semantics of the item language, every
    opcode of the table, started with every slot below its local top and below the published top written, never
    reaches an allocating call with the local top, or a slot into which it has stored a heap value, above the
    published top, or with the published top above the written end, and ends (break / goto / return / fall-through) in a configuration from which the next opcode
    can start: the condition is an invariant of the interpreter loop *)
Theorem vm_opcodes_scan_exactly_written_prefix : forall name items c o,
  In (name, items) vm_segments -> entry c -> cf c = None -> execs items c o ->
  match o with OBad => False | OFall c' | OBreak c' | OStop c' => entry c' end.
Proof.
  intros name items c o Hin Hc Hf He.
  pose proof (proj1 (forallb_forall seg_ok vm_segments) vm_alloc_ops_publish_top _ Hin) as Hs.
  exact (seg_ok_sound (name, items) c o Hs Hc Hf He).
Qed.

(** the table is not trivial: it has the allocating opcodes in it, and the stack stores *)
Fixpoint count_in (p : item -> bool) (fuel : nat) (l : list item) : nat :=
  match fuel with
  | O => 0%nat
  | S f => fold_right (fun it acc => ((if p it then 1 else 0) + match it with
                                     | IIf a b => (count_in p f a + count_in p f b)
                                     | ILoop b | IBlock b => count_in p f b
                                     | _ => 0
                                     end + acc)%nat) 0%nat l
  end.

Definition is_call (it : item) : bool := match it with ICall _ => true | _ => false end.
Definition is_store (it : item) : bool := match it with IStore _ _ => true | _ => false end.
Definition is_pub1 (it : item) : bool := match it with IPub 1 => true | _ => false end.

Lemma vm_table_nontrivial :
  (50 <=? List.length (filter (fun e => Nat.ltb 0 (count_in is_call 40 (snd e))) vm_segments))%nat = true.
Proof. vm_compute. reflexivity. Qed.

(** the error-raising shape (store the irritants, publish top+1, allocate the exception) is present in at least
    30 segments: the stale-root side of the check is exercised by the real table *)
Lemma vm_table_has_raise_shape :
  (30 <=? List.length (filter (fun e => Nat.ltb 0 (count_in is_pub1 40 (snd e)) && Nat.ltb 0 (count_in is_store 40 (snd e))) vm_segments))%nat = true.
Proof. vm_compute. reflexivity. Qed.
