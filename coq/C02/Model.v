(** C02 model: the mark phase of gc.c (sexp_mark_one / sexp_mark_one_start / sexp_mark), the slot
    layout computation from the type table (sexp.h:1485-1500, sexp.c:256-316) and the effect of
    sexp_sweep on marked objects.  Executable; no proofs in this file.

    Heap = finite map  address -> object.  An object keeps its raw 8-byte words (word 0 = header
    with the mark byte masked out), its tag and mark bit separately, and - for contexts - the values
    of the C locals registered through sexp_gc_preserve (the [saves] chain, sexp.h:669-723), which
    live on the C stack, not in the heap. *)
From Coq Require Export ZArith List Lia Bool FMapPositive.
Export ListNotations.
Local Open Scope Z_scope.

(** ---- machine words ---- *)
Definition B64 : Z := 18446744073709551616.      (* 2^64 *)
Definition HALF64 : Z := 9223372036854775808.    (* 2^63 *)
Definition wrap64 (x : Z) : Z := x mod B64.                       (* sexp_uint_t arithmetic *)
Definition sint64 (x : Z) : Z := if x <? HALF64 then x else x - B64.   (* (sexp_sint_t) of a sexp_uint_t *)

(** sexp_pointerp (sexp.h:761): low two bits 00; NULL is tested separately by the marker *)
Definition is_imm (x : Z) : bool := (x =? 0) || negb (Z.land x 3 =? 0) || (x <? 0).

(** ---- type table (struct sexp_type_struct, numeric fields used by the collector) ---- *)
Record tspec := mkspec {
  field_base : Z; field_eq_len_base : Z; field_len_base : Z; field_len_off : Z; field_len_scale : Z;
  size_base : Z; size_off : Z; size_scale : Z;
  weak_base : Z; weak_len_base : Z; weak_len_off : Z; weak_len_scale : Z; weak_len_extra : Z }.

Record layout := mklayout { specs : list tspec; context_tag : Z }.

Record obj := mkobj { tag : Z; marked : bool; words : list Z; saves : list Z }.

Definition heap := PositiveMap.t obj.

Definition hfind (h : heap) (x : Z) : option obj :=
  if x <=? 0 then None else PositiveMap.find (Z.to_pos x) h.
Definition set_marked (o : obj) (m : bool) : obj := mkobj (tag o) m (words o) (saves o).
(** sexp_markedp(x) = 1 *)
Definition hmark (h : heap) (x : Z) (o : obj) : heap := PositiveMap.add (Z.to_pos x) (set_marked o true) h.

Inductive err := OutOfFuel | BadPtr | BadTag | BadLayout.
Inductive res (A : Type) := Ok (a : A) | Err (e : err).
Arguments Ok {A} a.
Arguments Err {A} e.

(** word at a byte offset of an object: ((sexp_uint_t* )((char* )x + off))[0] *)
Definition word_at (o : obj) (off : Z) : option Z :=
  if (0 <=? off) && (off mod 8 =? 0) then nth_error (words o) (Z.to_nat (off / 8)) else None.

(** sexp_type_num_slots_of_object (sexp.h:1489-1492), in sexp_uint_t arithmetic *)
Definition num_slots (t : tspec) (o : obj) : option Z :=
  match word_at o (field_len_off t) with
  | Some w => Some (wrap64 (w * field_len_scale t + field_len_base t))
  | None => None
  end.

(** sexp_type_size_of_object (sexp.h:1485-1488) *)
Definition size_of_object (t : tspec) (o : obj) : option Z :=
  match word_at o (size_off t) with
  | Some w => Some (wrap64 (w * size_scale t + size_base t))
  | None => None
  end.

(** sexp_heap_align (sexp.h:244): round up to a multiple of 32; sexp_allocated_bytes (gc.c:131-145) *)
Definition heap_align (n : Z) : Z := wrap64 (Z.land (n + 31) (18446744073709551615 - 31)).
Definition alloc_size (t : tspec) (o : obj) : option Z :=
  match size_of_object t o with Some n => Some (heap_align n) | None => None end.

Definition spec_of (L : layout) (o : obj) : option tspec :=
  if tag o <? 0 then None else nth_error (specs L) (Z.to_nat (tag o)).

(** gc.c:268-272:  t = types[tag]; len = num_slots - 1 (signed); p = x + field_base.
    Result (p, ns): word index of the first slot and number of slots (0 when len < 0). *)
Definition slot_range (L : layout) (o : obj) : option (nat * nat) :=
  match spec_of L o with
  | None => None
  | Some t =>
      match num_slots t o with
      | None => None
      | Some ns =>
          let len := sint64 (wrap64 (ns - 1)) in
          if len <? 0 then Some (O, O)
          else if (0 <=? field_base t) && (field_base t mod 8 =? 0)
               then Some (Z.to_nat (field_base t / 8), S (Z.to_nat len))
               else None
      end
  end.

(** the reference slots of an object as the marker sees them *)
Definition slots_of (L : layout) (o : obj) : list Z :=
  match slot_range L o with
  | Some (p, ns) => firstn ns (skipn p (words o))
  | None => []
  end.

(** the mark stack: (object, first slot index, count) = the C pair (start, end) *)
Definition mstack := list (Z * nat * nat).
Definition state := (heap * mstack)%type.

(** gc.c:273-274  while (p < q && ( *q && sexp_pointerp( *q) ? sexp_markedp( *q) : 1)) q--;
    q = p + n; returns the new n *)
Fixpoint skip_marked (h : heap) (ws : list Z) (p n : nat) : res nat :=
  match n with
  | O => Ok O
  | S n' =>
      match nth_error ws (p + n) with
      | None => Err BadLayout
      | Some v =>
          if is_imm v then skip_marked h ws p n'
          else match hfind h v with
               | None => Err BadPtr
               | Some o' => if marked o' then skip_marked h ws p n' else Ok n
               end
      end
  end.

(** gc.c:275-276  while (p < q && *q == q[-1]) q--; *)
Fixpoint skip_dups (ws : list Z) (p n : nat) : res nat :=
  match n with
  | O => Ok O
  | S n' =>
      match nth_error ws (p + n), nth_error ws (p + n') with
      | Some a, Some b => if a =? b then skip_dups ws p n' else Ok n
      | _, _ => Err BadLayout
      end
  end.

(** a sequence of calls  step(v)  for v in l  (the saves loop gc.c:265-266) *)
Fixpoint fold_mark (step : heap -> mstack -> Z -> res state) (l : list Z) (h : heap) (stk : mstack) : res state :=
  match l with
  | [] => Ok (h, stk)
  | v :: l' =>
      match step h stk v with
      | Ok (h', stk') => fold_mark step l' h' stk'
      | Err e => Err e
      end
  end.

(** sexp_mark_one (gc.c:256-283).  One unit of fuel per entry of the function / per [goto loop]. *)
Fixpoint mark_one (fuel : nat) (L : layout) (h : heap) (stk : mstack) (x : Z) : res state :=
  match fuel with
  | O => Err OutOfFuel
  | S f =>
      if is_imm x then Ok (h, stk)                      (* !x || !sexp_pointerp(x) *)
      else match hfind h x with
      | None => Err BadPtr
      | Some o =>
          if marked o then Ok (h, stk)                  (* sexp_markedp(x) *)
          else
            let h1 := hmark h x o in
            match fold_mark (mark_one f L) (if tag o =? context_tag L then saves o else []) h1 stk with
            | Err e => Err e
            | Ok (h2, stk2) =>
                match slot_range L o with
                | None => Err BadLayout
                | Some (p, O) => Ok (h2, stk2)           (* len < 0 *)
                | Some (p, S len) =>
                    match skip_marked h2 (words o) p len with
                    | Err e => Err e
                    | Ok n1 =>
                        match skip_dups (words o) p n1 with
                        | Err e => Err e
                        | Ok n2 =>
                            let stk3 := match n2 with O => stk2 | S _ => (x, p, n2) :: stk2 end in
                            match nth_error (words o) (p + n2) with
                            | None => Err BadLayout
                            | Some y => mark_one f L h2 stk3 y          (* x = *q; goto loop *)
                            end
                        end
                    end
                end
            end
      end
  end.

(** gc.c:294-296  while (p < q) sexp_mark_one(ctx, types, *p++);   (the object is re-read from the
    current heap: the C loop dereferences the saved pointers at this moment) *)
Fixpoint mark_range (step : heap -> mstack -> Z -> res state) (h : heap) (stk : mstack) (a : Z) (p n : nat) : res state :=
  match n with
  | O => Ok (h, stk)
  | S n' =>
      match hfind h a with
      | None => Err BadPtr
      | Some o =>
          match nth_error (words o) p with
          | None => Err BadLayout
          | Some v =>
              match step h stk v with
              | Ok (h', stk') => mark_range step h' stk' a (S p) n'
              | Err e => Err e
              end
          end
      end
  end.

(** gc.c:290-297  while ( *ptr) { pop; ... } *)
Fixpoint mark_loop (fuel fuel1 : nat) (L : layout) (h : heap) (stk : mstack) : res heap :=
  match fuel with
  | O => Err OutOfFuel
  | S f =>
      match stk with
      | [] => Ok h
      | (a, p, n) :: stk' =>
          match mark_range (mark_one fuel1 L) h stk' a p n with
          | Ok (h', stk'') => mark_loop f fuel1 L h' stk''
          | Err e => Err e
          end
      end
  end.

(** sexp_mark_one_start (gc.c:285-298) *)
Definition mark_start (fuel fuel1 : nat) (L : layout) (h : heap) (x : Z) : res heap :=
  match mark_one fuel1 L h [] x with
  | Ok (h1, stk1) => mark_loop fuel fuel1 L h1 stk1
  | Err e => Err e
  end.

(** sexp_mark (gc.c:300-302) with the fuel the theorems show sufficient *)
Definition mark (L : layout) (h : heap) (x : Z) : res heap :=
  let n := PositiveMap.cardinal h in
  mark_start (S (S n)) (S n) L h x.

(** effect of sexp_sweep (gc.c:694-764) on the object map: unmarked objects become free chunks,
    marked ones stay where they are with the mark cleared (gc.c:757).  (Free-list shape: C10.) *)
Definition sweep (h : heap) : heap :=
  PositiveMap.fold (fun k o acc => if marked o then PositiveMap.add k (set_marked o false) acc else acc)
                   h (PositiveMap.empty obj).

(** sexp_gc (gc.c:776-823) without weak references and finalizers (C16): mark from the context, sweep *)
Definition gc (L : layout) (h : heap) (root : Z) : res heap :=
  match mark L h root with
  | Ok h1 => Ok (sweep h1)
  | Err e => Err e
  end.

(** ---- executable helpers for the correspondence driver ---- *)
Definition marked_addrs (h : heap) : list positive :=
  PositiveMap.fold (fun k o acc => if marked o then k :: acc else acc) h [].

Definition heap_of_list (l : list (Z * obj)) : heap :=
  fold_left (fun h p => PositiveMap.add (Z.to_pos (fst p)) (snd p) h) l (PositiveMap.empty obj).

(** per-object layout facts compared with what the C macros compute: (slot base index, slot count, chunk size) *)
Definition layout_of (L : layout) (o : obj) : option (nat * nat * Z) :=
  match spec_of L o, slot_range L o with
  | Some t, Some (p, ns) => match alloc_size t o with Some sz => Some (p, ns, sz) | None => None end
  | _, _ => None
  end.

(** boolean well-formedness of a dumped heap: every pointer slot / save designates an object *)
Definition ptr_ok (h : heap) (v : Z) : bool :=
  is_imm v || match hfind h v with Some _ => true | None => false end.
Definition obj_ok (L : layout) (h : heap) (o : obj) : bool :=
  match slot_range L o with
  | None => false
  | Some (p, ns) =>
      (Nat.leb (p + ns) (length (words o))) && forallb (ptr_ok h) (firstn ns (skipn p (words o)))
      && (if tag o =? context_tag L then forallb (ptr_ok h) (saves o) else true)
  end.
Definition heap_ok (L : layout) (h : heap) : bool :=
  PositiveMap.fold (fun k o acc => acc && obj_ok L h o) h true.
