(** C02: proofs about the root-registration macros (model: GcMacros.v).
    General part, for every arity K and every choice of K distinct record names: the canonical expansion
    registers exactly its K arguments in order (last first) in front of the caller's list and the canonical
    release gives the caller's list back.  Reflection part: [macro_okb m = true] gives the same as a
    proposition for a table entry. *)
From Coq Require Import List String Bool Arith Lia.
From ChibiV Require Import C02.GcMacros.
Import ListNotations.
Open Scope string_scope.
Open Scope list_scope.

(** the list hanging off [q]: elements visited and records passed through *)
Inductive chain (s : st) : ptr -> list elem -> list string -> Prop :=
| ch_null : chain s PNull [] []
| ch_out : chain s POut [EOut] []
| ch_rec : forall p x w vis, var s p = VAddr x -> chain s (nxt s p) w vis -> chain s (PRec p) (EVar x :: w) (p :: vis).

Lemma chain_frame : forall s s' q w vis,
  chain s q w vis ->
  (forall p, In p vis -> nxt s' p = nxt s p /\ var s' p = var s p) ->
  chain s' q w vis.
Proof.
  intros s s' q w vis H. induction H as [| | p x w vis Hv Hc IH]; intros Hsame.
  - constructor.
  - constructor.
  - destruct (Hsame p (or_introl eq_refl)) as [Hn Hv'].
    constructor.
    + rewrite Hv'. exact Hv.
    + rewrite Hn. apply IH. intros p0 Hin. apply Hsame. right. exact Hin.
Qed.

Lemma chain_walk : forall s q w vis, chain s q w vis -> forall n, (List.length vis < n)%nat -> walk n s q = Some w.
Proof.
  intros s q w vis H. induction H as [| | p x w vis Hv Hc IH]; intros n Hn.
  - destruct n; [lia | reflexivity].
  - destruct n; [lia | reflexivity].
  - destruct n as [|n]; [lia |]. cbn [walk]. cbn [List.length] in Hn.
    rewrite (IH n) by lia. rewrite Hv. reflexivity.
Qed.

Lemma upd_same : forall A (f : string -> A) k v, upd f k v k = v.
Proof. intros. unfold upd. rewrite String.eqb_refl. reflexivity. Qed.

Lemma upd_other : forall A (f : string -> A) k v k', k <> k' -> upd f k v k' = f k'.
Proof. intros A f k v k' H. unfold upd. apply String.eqb_neq in H. rewrite H. reflexivity. Qed.

(** one sexp_gc_preserve(ctx, x, p) on a record that is not yet on the list *)
Lemma preserve_step : forall s p x w vis,
  chain s (saves s) w vis -> ~ In p vis ->
  let s1 := execs [SetVar p x; SetNext p; SetSaves p] s in
  chain s1 (saves s1) (EVar x :: w) (p :: vis)
  /\ nxt s1 p = saves s
  /\ (forall p', p' <> p -> nxt s1 p' = nxt s p' /\ var s1 p' = var s p').
Proof.
  intros s p x w vis Hc Hnin s1. subst s1. cbn [execs fold_left exec saves nxt var].
  split; [| split].
  - constructor; cbn [var nxt].
    + apply upd_same.
    + rewrite upd_same.
      apply (chain_frame s); [exact Hc |].
      intros p0 Hin. cbn [nxt var].
      assert (p <> p0) by (intro; subst; contradiction).
      split; apply upd_other; assumption.
  - apply upd_same.
  - intros p' Hne. split; apply upd_other; congruence.
Qed.

Lemma execs_app : forall a b s, execs (a ++ b) s = execs b (execs a s).
Proof. intros. unfold execs. apply fold_left_app. Qed.

Lemma canon_preserve_gen : forall ps args s w vis,
  List.length ps = List.length args -> NoDup ps -> (forall p, In p ps -> ~ In p vis) ->
  chain s (saves s) w vis ->
  let s' := execs (canon_preserve ps args) s in
  chain s' (saves s') (map EVar (rev args) ++ w) (rev ps ++ vis)
  /\ (forall p, ~ In p ps -> nxt s' p = nxt s p /\ var s' p = var s p).
Proof.
  induction ps as [|p ps IH]; intros args s w vis Hlen Hnd Hdis Hc.
  - destruct args; [| discriminate]. cbn. split; [exact Hc | tauto].
  - destruct args as [|x args]; [discriminate |].
    cbn [canon_preserve].
    change (SetVar p x :: SetNext p :: SetSaves p :: canon_preserve ps args)
      with (([SetVar p x; SetNext p; SetSaves p] ++ canon_preserve ps args)%list).
    cbv zeta. rewrite execs_app.
    inversion Hnd as [| ? ? Hnotin Hnd']; subst.
    assert (Hp : ~ In p vis) by (apply Hdis; left; reflexivity).
    destruct (preserve_step s p x w vis Hc Hp) as [Hc1 [Hn1 Hoth]].
    set (s1 := execs [SetVar p x; SetNext p; SetSaves p] s) in *.
    assert (Hdis' : forall q, In q ps -> ~ In q (p :: vis)).
    { intros q Hq [Heq | Hin]; [subst; contradiction | exact (Hdis q (or_intror Hq) Hin)]. }
    injection Hlen as Hlen.
    destruct (IH args s1 (EVar x :: w) (p :: vis) Hlen Hnd' Hdis' Hc1) as [Hc2 Hoth2].
    split.
    + cbn [rev]. rewrite map_app. cbn [map]. rewrite <- !app_assoc. cbn [app]. exact Hc2.
    + intros q Hq.
      assert (Hqp : q <> p) by (intro; subst; apply Hq; left; reflexivity).
      assert (Hqps : ~ In q ps) by (intro; apply Hq; right; assumption).
      destruct (Hoth2 q Hqps) as [A B]. destruct (Hoth q Hqp) as [C D].
      split; congruence.
Qed.

(** THE general statement: any arity, any distinct record names, any caller's list *)
Theorem canon_preserve_registers_exactly : forall ps args s,
  List.length ps = List.length args -> NoDup ps -> saves s = POut ->
  let s' := execs (canon_preserve ps args) s in
  walk (S (List.length ps)) s' (saves s') = Some (map EVar (rev args) ++ [EOut])
  /\ saves (execs (canon_release ps) s') = match ps with [] => saves s' | _ => POut end.
Proof.
  intros ps args s Hlen Hnd Hs s'.
  assert (Hc : chain s (saves s) [EOut] []) by (rewrite Hs; constructor).
  split.
  - destruct (canon_preserve_gen ps args s [EOut] [] Hlen Hnd (fun _ _ H => H) Hc) as [Hc' _].
    fold s' in Hc'. apply (chain_walk _ _ _ _ Hc'). rewrite app_nil_r, rev_length. lia.
  - destruct ps as [|p ps]; [reflexivity |].
    destruct args as [|x args]; [discriminate |].
    subst s'. cbn [canon_preserve canon_release].
    change (SetVar p x :: SetNext p :: SetSaves p :: canon_preserve ps args)
      with (([SetVar p x; SetNext p; SetSaves p] ++ canon_preserve ps args)%list).
    rewrite execs_app.
    inversion Hnd as [| ? ? Hnotin Hnd']; subst.
    destruct (preserve_step s p x [EOut] [] Hc (fun H => H)) as [Hc1 [Hn1 _]].
    set (s1 := execs [SetVar p x; SetNext p; SetSaves p] s) in *.
    injection Hlen as Hlen.
    assert (Hdis' : forall q, In q ps -> ~ In q [p]).
    { intros q Hq [Heq | []]. subst. contradiction. }
    destruct (canon_preserve_gen ps args s1 _ _ Hlen Hnd' Hdis' Hc1) as [_ Hoth].
    cbn [execs fold_left exec saves].
    destruct (Hoth p Hnotin) as [A _].
    change (fold_left (fun s i => exec i s) (canon_preserve ps args) s1) with (execs (canon_preserve ps args) s1).
    rewrite A, Hn1. exact Hs.
Qed.

(** every argument is on the list the marker walks: membership form *)
Corollary canon_preserve_registers_every_argument : forall ps args s x,
  List.length ps = List.length args -> NoDup ps -> saves s = POut -> In x args ->
  let s' := execs (canon_preserve ps args) s in
  exists w, walk (S (List.length ps)) s' (saves s') = Some w /\ In (EVar x) w /\ In EOut w.
Proof.
  intros ps args s x Hlen Hnd Hs Hin s'.
  destruct (canon_preserve_registers_exactly ps args s Hlen Hnd Hs) as [Hw _].
  eexists. split; [exact Hw |]. split.
  - apply in_or_app. left. apply in_map. apply in_rev in Hin. exact Hin.
  - apply in_or_app. right. left. reflexivity.
Qed.

(** ---------- reflection of the executable obligation ---------- *)
Lemma elems_eqb_eq : forall a b, elems_eqb a b = true -> a = b.
Proof.
  induction a as [|x a IH]; destruct b as [|y b]; cbn; intros H; try discriminate; [reflexivity |].
  apply andb_true_iff in H. destruct H as [H1 H2].
  f_equal; [| apply IH; exact H2].
  destruct x, y; cbn in H1; try discriminate; [| reflexivity].
  apply String.eqb_eq in H1. congruence.
Qed.

Lemma walk_is_eq : forall r w, walk_is r w = true -> r = Some w.
Proof. intros [v|] w H; cbn in H; [apply elems_eqb_eq in H; congruence | discriminate]. Qed.

Lemma decls_eqb_eq : forall a b, decls_eqb a b = true -> a = b.
Proof.
  induction a as [|[x u] a IH]; destruct b as [|[y v] b]; cbn; intros H; try discriminate; [reflexivity |].
  apply andb_true_iff in H. destruct H as [H H3]. apply andb_true_iff in H. destruct H as [H1 H2].
  apply String.eqb_eq in H1. apply Bool.eqb_prop in H2. f_equal; [congruence | apply IH; exact H3].
Qed.

Lemma string_in_In : forall x l, string_in x l = true <-> In x l.
Proof.
  intros x l. unfold string_in. rewrite existsb_exists. split.
  - intros [y [Hy He]]. apply String.eqb_eq in He. subst. exact Hy.
  - intros H. exists x. split; [exact H | apply String.eqb_refl].
Qed.

Lemma nodupb_NoDup : forall l, nodupb l = true -> NoDup l.
Proof.
  induction l as [|x l IH]; cbn; intros H; [constructor |].
  apply andb_true_iff in H. destruct H as [H1 H2]. constructor; [| apply IH; exact H2].
  intro Hin. apply string_in_In in Hin. rewrite Hin in H1. discriminate.
Qed.

Lemma ptr_is_out_eq : forall q, ptr_is_out q = true -> q = POut.
Proof. intros [| |p] H; cbn in H; try discriminate; reflexivity. Qed.

(** what [macro_okb] says, as a proposition *)
Definition macro_spec (m : macro) : Prop :=
  let s1 := execs (var_items m) s0 in
  let s2 := execs (pres_items m) s1 in
  let s3 := execs (rel_items m) s2 in
  List.length (margs m) = arity m /\ NoDup (margs m)
  /\ decl_vars (var_items m) = map (fun x => (x, true)) (margs m)
  /\ List.length (decl_recs (var_items m)) = arity m /\ NoDup (map fst (decl_recs (var_items m)))
  /\ walk (S (S (arity m))) s1 (saves s1) = Some [EOut]
  /\ walk (S (S (arity m))) s2 (saves s2) = Some (map EVar (rev (margs m)) ++ [EOut])
  /\ saves s3 = POut.

Lemma macro_okb_spec : forall m, macro_okb m = true -> macro_spec m.
Proof.
  intros m H. unfold macro_okb in H. cbv zeta in H.
  repeat (apply andb_true_iff in H; let H' := fresh "K" in destruct H as [H H']).
  unfold macro_spec. cbv zeta.
  repeat split.
  - apply Nat.eqb_eq. exact H.
  - apply nodupb_NoDup. assumption.
  - apply decls_eqb_eq. assumption.
  - rewrite <- (map_length fst). apply Nat.eqb_eq. assumption.
  - apply nodupb_NoDup. assumption.
  - apply walk_is_eq. assumption.
  - apply walk_is_eq. assumption.
  - apply ptr_is_out_eq. assumption.
Qed.

(** non-vacuity: the hypotheses of the general theorem on a concrete arity-3 instance with a non-trivial state *)
Example ex_canon3 :
  let s := mkSt POut (fun _ => PRec "junk") (fun _ => VAddr "junk") in
  let s' := execs (canon_preserve ["p1"; "p2"; "p3"] ["a"; "b"; "c"]) s in
  walk 4 s' (saves s') = Some [EVar "c"; EVar "b"; EVar "a"; EOut]
  /\ saves (execs (canon_release ["p1"; "p2"; "p3"]) s') = POut.
Proof. vm_compute. split; reflexivity. Qed.

(** the seeded slip (sexp_gc_preserve7 registers `u` twice and `t` never) is rejected, shown on arity 3 *)
Example ex_slip_rejected :
  macro_okb (mkMacro 3 ["a"; "b"; "c"]
    (canon_var ["p1"; "p2"; "p3"] ["a"; "b"; "c"])
    (canon_preserve ["p1"; "p2"; "p3"] ["a"; "b"; "b"])
    (canon_release ["p1"; "p2"; "p3"])) = false
  /\ macro_okb (mkMacro 3 ["a"; "b"; "c"]
    (canon_var ["p1"; "p2"; "p3"] ["a"; "b"; "c"])
    (canon_preserve ["p1"; "p2"; "p3"] ["a"; "b"; "c"])
    [Restore "p2"]) = false
  /\ macro_okb (mkMacro 3 ["a"; "b"; "c"]
    (canon_var ["p1"; "p2"; "p3"] ["a"; "b"; "c"])
    (canon_preserve ["p1"; "p2"; "p3"] ["a"; "b"; "c"])
    (canon_release ["p1"; "p2"; "p3"])) = true.
Proof. vm_compute. repeat split; reflexivity. Qed.
