(** C02 proofs: the marker marks exactly the reachable objects and changes nothing but mark bits;
    sweep keeps marked objects; a collection keeps every reachable object intact. *)
From Coq Require Import SetoidList.
From ChibiV Require Import C02.Model C02.Spec.
Local Open Scope Z_scope.

Arguments slot_range : simpl never.
Arguments is_imm : simpl never.
Arguments hfind : simpl never.
Arguments hmark : simpl never.

(** ---- heap access ---- *)
Lemma hfind_pos h x o : hfind h x = Some o -> 0 < x.
Proof. unfold hfind. destruct (x <=? 0) eqn:E; [discriminate|]. intros _. lia. Qed.

Lemma hfind_hmark_same h x o : 0 < x -> hfind (hmark h x o) x = Some (set_marked o true).
Proof.
  intros Hx. unfold hfind, hmark. destruct (x <=? 0) eqn:E; [lia|].
  apply PositiveMap.gss.
Qed.

Lemma hfind_hmark_other h x o y : 0 < x -> y <> x -> hfind (hmark h x o) y = hfind h y.
Proof.
  intros Hx Hne. unfold hfind, hmark. destruct (y <=? 0) eqn:E; [reflexivity|].
  apply PositiveMap.gso. intros Heq. apply Hne. apply Z2Pos.inj; lia.
Qed.

Lemma same_shape_refl o : same_shape o o.
Proof. repeat split. Qed.

Lemma same_shape_trans a b c : same_shape a b -> same_shape b c -> same_shape a c.
Proof. intros (A1 & A2 & A3) (B1 & B2 & B3). repeat split; congruence. Qed.

Lemma same_shape_slot_range L o o' : same_shape o o' -> slot_range L o' = slot_range L o.
Proof.
  intros (A1 & A2 & A3). destruct o as [t m w s], o' as [t' m' w' s']. cbn [tag words saves] in *. subst.
  reflexivity.
Qed.

Lemma same_shape_is_slot L o o' b : same_shape o o' -> is_slot L o b -> is_slot L o' b.
Proof.
  intros Hs (p & ns & i & H1 & H2 & H3). exists p, ns, i.
  rewrite (same_shape_slot_range L o o' Hs). destruct Hs as (_ & Hw & _). rewrite Hw. auto.
Qed.

Lemma same_shape_is_save L o o' b : same_shape o o' -> is_save L o b -> is_save L o' b.
Proof. intros (A1 & A2 & A3) (H1 & H2). split; congruence. Qed.

Lemma same_shape_sym o o' : same_shape o o' -> same_shape o' o.
Proof. intros (A1 & A2 & A3). repeat split; congruence. Qed.

(** ---- mext ---- *)
Lemma mext_refl h : mext h h.
Proof.
  intros a. destruct (hfind h a) as [o|] eqn:E; [|reflexivity].
  exists o. split; [reflexivity|]. split; [apply same_shape_refl|auto].
Qed.

Lemma mext_trans h1 h2 h3 : mext h1 h2 -> mext h2 h3 -> mext h1 h3.
Proof.
  intros H12 H23 a. specialize (H12 a). specialize (H23 a).
  destruct (hfind h1 a) as [o1|].
  - destruct H12 as (o2 & E2 & S2 & M2). rewrite E2 in H23.
    destruct H23 as (o3 & E3 & S3 & M3). exists o3. split; [exact E3|].
    split; [eapply same_shape_trans; eauto|auto].
  - rewrite H12 in H23. exact H23.
Qed.

Lemma mext_hmark h x o : hfind h x = Some o -> mext h (hmark h x o).
Proof.
  intros Hx a. pose proof (hfind_pos _ _ _ Hx) as Hp.
  destruct (Z.eq_dec a x) as [->|Hne].
  - rewrite Hx. exists (set_marked o true). split; [apply hfind_hmark_same; exact Hp|].
    split; [repeat split|reflexivity].
  - rewrite (hfind_hmark_other h x o a Hp Hne).
    destruct (hfind h a) as [o1|]; [|reflexivity].
    exists o1. split; [reflexivity|]. split; [apply same_shape_refl|auto].
Qed.

Lemma mext_find h h' a o : mext h h' -> hfind h a = Some o ->
  exists o', hfind h' a = Some o' /\ same_shape o o' /\ (marked o = true -> marked o' = true).
Proof. intros M E. specialize (M a). rewrite E in M. exact M. Qed.

Lemma mext_find_rev h h' a o' : mext h h' -> hfind h' a = Some o' ->
  exists o, hfind h a = Some o /\ same_shape o o' /\ (marked o = true -> marked o' = true).
Proof.
  intros M E. specialize (M a). destruct (hfind h a) as [o|].
  - destruct M as (o2 & E2 & S2 & M2). rewrite E in E2. inversion E2; subst o2. exists o. auto.
  - congruence.
Qed.

Lemma ismarked_mext h h' a : mext h h' -> ismarked h a -> ismarked h' a.
Proof.
  intros M (o & E & Hm). destruct (mext_find _ _ _ _ M E) as (o' & E' & _ & Hm').
  exists o'. auto.
Qed.

Lemma edge_mext L h h' a b : mext h h' -> edge L h a b -> edge L h' a b.
Proof.
  intros M (Hi & o & E & Hs). destruct (mext_find _ _ _ _ M E) as (o' & E' & S' & _).
  split; [exact Hi|]. exists o'. split; [exact E'|].
  destruct Hs as [Hs|Hs]; [left; eapply same_shape_is_slot; eauto|right; eapply same_shape_is_save; eauto].
Qed.

Lemma edge_mext_rev L h h' a b : mext h h' -> edge L h' a b -> edge L h a b.
Proof.
  intros M (Hi & o' & E' & Hs). destruct (mext_find_rev _ _ _ _ M E') as (o & E & S' & _).
  apply same_shape_sym in S'.
  split; [exact Hi|]. exists o. split; [exact E|].
  destruct Hs as [Hs|Hs]; [left; eapply same_shape_is_slot; eauto|right; eapply same_shape_is_save; eauto].
Qed.

(** ---- the mark stack as a set of pending values ---- *)
Definition in_stk (h : heap) (stk : mstack) (b : Z) : Prop :=
  exists a p n o i, In (a, p, n) stk /\ hfind h a = Some o /\ (i < n)%nat /\ nth_error (words o) (p + i) = Some b.

Lemma in_stk_mext h h' stk b : mext h h' -> in_stk h stk b -> in_stk h' stk b.
Proof.
  intros M (a & p & n & o & i & H1 & H2 & H3 & H4).
  destruct (mext_find _ _ _ _ M H2) as (o' & E' & (_ & Hw & _) & _).
  exists a, p, n, o', i. rewrite Hw. auto.
Qed.

Lemma in_stk_mext_rev h h' stk b : mext h h' -> in_stk h' stk b -> in_stk h stk b.
Proof.
  intros M (a & p & n & o' & i & H1 & H2 & H3 & H4).
  destruct (mext_find_rev _ _ _ _ M H2) as (o & E & (_ & Hw & _) & _).
  exists a, p, n, o, i. rewrite <- Hw. auto.
Qed.

Lemma in_stk_incl h stk stk' b : incl stk stk' -> in_stk h stk b -> in_stk h stk' b.
Proof.
  intros I (a & p & n & o & i & H1 & H2 & H3 & H4). exists a, p, n, o, i. auto.
Qed.

Lemma in_stk_nil h b : ~ in_stk h [] b.
Proof. intros (a & p & n & o & i & H1 & _). exact H1. Qed.

(** every pointer successor of a marked object is marked, pending on the stack, or in G *)
Definition covered (h : heap) (stk : mstack) (G : Z -> Prop) (b : Z) : Prop :=
  ismarked h b \/ in_stk h stk b \/ G b.
Definition closed (L : layout) (h : heap) (stk : mstack) (G : Z -> Prop) : Prop :=
  forall a b, ismarked h a -> edge L h a b -> covered h stk G b.

Lemma closed_weaken L h stk (G G' : Z -> Prop) :
  (forall b, is_imm b = false -> G b -> G' b) -> closed L h stk G -> closed L h stk G'.
Proof.
  intros HG C a b Ha He. destruct (C a b Ha He) as [H|[H|H]].
  - left; exact H.
  - right; left; exact H.
  - right; right. apply HG; [exact (proj1 He)|exact H].
Qed.

(** ---- what one call  step(x)  /  a sequence of calls over a set S of values  establishes ---- *)
Definition sound_pre (L : layout) (h : heap) (stk : mstack) (R : Z -> Prop) : Prop :=
  (forall a b, R a -> edge L h a b -> R b) /\
  (forall b, in_stk h stk b -> is_imm b = true \/ R b) /\
  (forall a, ismarked h a -> R a).
Definition sound_post (h' : heap) (stk' : mstack) (R : Z -> Prop) : Prop :=
  (forall a, ismarked h' a -> R a) /\ (forall b, in_stk h' stk' b -> is_imm b = true \/ R b).

Definition post_set (L : layout) (h : heap) (stk : mstack) (S : Z -> Prop) (h' : heap) (stk' : mstack) : Prop :=
  mext h h' /\ incl stk stk' /\
  (forall v, S v -> is_imm v = true \/ ismarked h' v) /\
  (forall G, closed L h stk (fun b => S b \/ G b) -> closed L h' stk' G) /\
  (forall R, sound_pre L h stk R -> (forall v, S v -> is_imm v = true \/ R v) -> sound_post h' stk' R).

Definition post (L : layout) (h : heap) (stk : mstack) (x : Z) (h' : heap) (stk' : mstack) : Prop :=
  post_set L h stk (fun b => b = x) h' stk'.

Lemma post_set_nil L h stk : post_set L h stk (fun _ => False) h stk.
Proof.
  split; [apply mext_refl|]. split; [apply incl_refl|]. split; [intros v []|]. split.
  - intros G C. eapply closed_weaken; [|exact C]. intros b _ [[]|H]; exact H.
  - intros R (H1 & H2 & H3) _. split; assumption.
Qed.

Lemma post_set_equiv L h stk (S S' : Z -> Prop) h' stk' :
  (forall b, S b <-> S' b) -> post_set L h stk S h' stk' -> post_set L h stk S' h' stk'.
Proof.
  intros HE (P1 & P2 & P3 & P4 & P5). split; [exact P1|]. split; [exact P2|]. split; [|split].
  - intros v Hv. apply P3. apply HE. exact Hv.
  - intros G C. apply P4. eapply closed_weaken; [|exact C].
    intros b _ [H|H]; [left; apply HE; exact H|right; exact H].
  - intros R HR HS. apply P5; [exact HR|]. intros v Hv. apply HS. apply HE. exact Hv.
Qed.

Lemma sound_pre_mext L h (R : Z -> Prop) h1 (stk1 : mstack) :
  mext h h1 -> (forall a b, R a -> edge L h a b -> R b) -> sound_post h1 stk1 R -> sound_pre L h1 stk1 R.
Proof.
  intros M HR (Q1 & Q2). split; [|split; assumption].
  intros a b Ha He. eapply HR; [exact Ha|]. eapply edge_mext_rev; eauto.
Qed.

(** sequencing: first step(v), then the calls for S *)
Lemma post_seq L h stk v h1 stk1 (S : Z -> Prop) h' stk' :
  post L h stk v h1 stk1 -> post_set L h1 stk1 S h' stk' ->
  post_set L h stk (fun b => b = v \/ S b) h' stk'.
Proof.
  intros (A1 & A2 & A3 & A4 & A5) (B1 & B2 & B3 & B4 & B5).
  split; [eapply mext_trans; eauto|]. split; [eapply incl_tran; eauto|]. split; [|split].
  - intros w [->|Hw].
    + destruct (A3 v eq_refl) as [H|H]; [left; exact H|right; eapply ismarked_mext; eauto].
    + apply B3. exact Hw.
  - intros G C. apply B4. apply (A4 (fun b => S b \/ G b)).
    eapply closed_weaken; [|exact C]. intros b _ [[H|H]|H]; auto.
  - intros R HR HS. pose proof HR as (HR1 & HR2 & HR3).
    assert (Q : sound_post h1 stk1 R).
    { apply A5; [exact HR|]. intros w ->. apply HS. left; reflexivity. }
    apply B5; [eapply sound_pre_mext; eauto|]. intros w Hw. apply HS. right; exact Hw.
Qed.

Lemma fold_mark_post L step :
  (forall h stk x h' stk', step h stk x = Ok (h', stk') -> post L h stk x h' stk') ->
  forall l h stk h' stk', fold_mark step l h stk = Ok (h', stk') ->
  post_set L h stk (fun b => In b l) h' stk'.
Proof.
  intros Hstep. induction l as [|v l IH]; intros h stk h' stk' H; cbn [fold_mark] in H.
  - inversion H; subst. eapply post_set_equiv; [|apply post_set_nil]. intros b; cbn [In]; tauto.
  - destruct (step h stk v) as [[h1 stk1]|e] eqn:E; [|discriminate].
    eapply post_set_equiv; [|eapply post_seq; [apply Hstep; exact E|apply IH; exact H]].
    intros b; cbn [In]. split; intros [H1|H1]; auto.
Qed.

(** the values a stack entry stands for, read in heap h *)
Definition range_vals (h : heap) (a : Z) (p n : nat) (b : Z) : Prop :=
  exists o i, hfind h a = Some o /\ (i < n)%nat /\ nth_error (words o) (p + i) = Some b.

Lemma range_vals_mext h h' a p n b : mext h h' -> (range_vals h a p n b <-> range_vals h' a p n b).
Proof.
  intros M. split.
  - intros (o & i & H1 & H2 & H3). destruct (mext_find _ _ _ _ M H1) as (o' & E' & (_ & Hw & _) & _).
    exists o', i. rewrite Hw. auto.
  - intros (o' & i & H1 & H2 & H3). destruct (mext_find_rev _ _ _ _ M H1) as (o & E & (_ & Hw & _) & _).
    exists o, i. rewrite <- Hw. auto.
Qed.

Lemma mark_range_post L step :
  (forall h stk x h' stk', step h stk x = Ok (h', stk') -> post L h stk x h' stk') ->
  forall n a p h stk h' stk', mark_range step h stk a p n = Ok (h', stk') ->
  post_set L h stk (range_vals h a p n) h' stk'.
Proof.
  intros Hstep. induction n as [|n IH]; intros a p h stk h' stk' H; cbn [mark_range] in H.
  - inversion H; subst. eapply post_set_equiv; [|apply post_set_nil].
    intros b. split; [intros []|]. intros (o & i & _ & Hi & _). lia.
  - destruct (hfind h a) as [o|] eqn:Ea; [|discriminate].
    destruct (nth_error (words o) p) as [v|] eqn:Ev; [|discriminate].
    destruct (step h stk v) as [[h1 stk1]|e] eqn:E; [|discriminate].
    pose proof (Hstep _ _ _ _ _ E) as P1. pose proof (IH _ _ _ _ _ _ H) as P2.
    pose proof P1 as (M1 & _).
    eapply post_set_equiv; [|eapply post_seq; [exact P1|exact P2]].
    intros b. split.
    + intros [->|Hb].
      * exists o, O. rewrite Nat.add_0_r. repeat split; [exact Ea|lia|exact Ev].
      * apply (range_vals_mext h h1 a (S p) n b M1) in Hb. destruct Hb as (o1 & i & H1 & H2 & H3).
        exists o1, (S i). rewrite Nat.add_succ_r. rewrite Nat.add_succ_l in H3. repeat split; [exact H1|lia|exact H3].
    + intros (o1 & i & H1 & H2 & H3). rewrite Ea in H1. inversion H1; subst o1.
      destruct i as [|i].
      * rewrite Nat.add_0_r in H3. left. congruence.
      * right. apply (range_vals_mext h h1 a (S p) n b M1). exists o, i.
        rewrite Nat.add_succ_l. rewrite Nat.add_succ_r in H3. repeat split; [exact Ea|lia|exact H3].
Qed.

(** ---- the two trailing-slot skipping loops drop no unmarked pointer ---- *)
Lemma skip_marked_spec h ws p : forall n n1, skip_marked h ws p n = Ok n1 ->
  (n1 <= n)%nat /\
  forall i, (n1 < i <= n)%nat -> exists v, nth_error ws (p + i) = Some v /\ (is_imm v = true \/ ismarked h v).
Proof.
  induction n as [|n IH]; intros n1 H; cbn [skip_marked] in H.
  - inversion H; subst. split; [lia|]. intros i Hi; lia.
  - destruct (nth_error ws (p + S n)) as [v|] eqn:Ev; [|discriminate].
    destruct (is_imm v) eqn:Ei.
    + destruct (IH _ H) as (Hle & Hall). split; [lia|]. intros i Hi.
      destruct (Nat.eq_dec i (S n)) as [->|Hne]; [exists v; auto|]. apply Hall; lia.
    + destruct (hfind h v) as [o'|] eqn:Eo; [|discriminate].
      destruct (marked o') eqn:Em.
      * destruct (IH _ H) as (Hle & Hall). split; [lia|]. intros i Hi.
        destruct (Nat.eq_dec i (S n)) as [->|Hne]; [exists v; split; [exact Ev|right; exists o'; auto]|]. apply Hall; lia.
      * inversion H; subst. split; [lia|]. intros i Hi; lia.
Qed.

Lemma skip_dups_spec ws p : forall n n2, skip_dups ws p n = Ok n2 ->
  (n2 <= n)%nat /\
  forall i, (n2 < i <= n)%nat -> exists v, nth_error ws (p + i) = Some v /\ nth_error ws (p + n2) = Some v.
Proof.
  induction n as [|n IH]; intros n2 H; cbn [skip_dups] in H.
  - inversion H; subst. split; [lia|]. intros i Hi; lia.
  - destruct (nth_error ws (p + S n)) as [a|] eqn:Ea; [|discriminate].
    destruct (nth_error ws (p + n)) as [b|] eqn:Eb; [|discriminate].
    destruct (a =? b) eqn:Eab.
    + apply Z.eqb_eq in Eab. subst b. destruct (IH _ H) as (Hle & Hall). split; [lia|]. intros i Hi.
      destruct (Nat.eq_dec i (S n)) as [->|Hne]; [|apply Hall; lia].
      exists a. split; [exact Ea|].
      destruct (Nat.eq_dec n2 n) as [->|Hne2]; [exact Eb|].
      destruct (Hall n ltac:(lia)) as (v & Hv1 & Hv2). congruence.
    + inversion H; subst. split; [lia|]. intros i Hi; lia.
Qed.

(** ---- structure of a successful call of mark_one ---- *)
Lemma mark_one_S f L h stk x h' stk' : mark_one (S f) L h stk x = Ok (h', stk') ->
  (is_imm x = true /\ h' = h /\ stk' = stk) \/
  (is_imm x = false /\ exists o, hfind h x = Some o /\
     ((marked o = true /\ h' = h /\ stk' = stk) \/
      (marked o = false /\ exists h2 stk2 p ns,
          fold_mark (mark_one f L) (if tag o =? context_tag L then saves o else []) (hmark h x o) stk = Ok (h2, stk2) /\
          slot_range L o = Some (p, ns) /\
          ((ns = O /\ h' = h2 /\ stk' = stk2) \/
           (exists len n1 n2 y, ns = S len /\ skip_marked h2 (words o) p len = Ok n1 /\
                skip_dups (words o) p n1 = Ok n2 /\ nth_error (words o) (p + n2) = Some y /\
                mark_one f L h2 (match n2 with O => stk2 | S _ => (x, p, n2) :: stk2 end) y = Ok (h', stk')))))).
Proof.
  intros H. cbn [mark_one] in H.
  destruct (is_imm x) eqn:Ei.
  { inversion H; subst. left. auto. }
  right. split; [reflexivity|].
  destruct (hfind h x) as [o|] eqn:Eo; [|discriminate]. exists o. split; [reflexivity|].
  destruct (marked o) eqn:Em.
  { inversion H; subst. left. auto. }
  right. split; [reflexivity|].
  destruct (fold_mark (mark_one f L) (if tag o =? context_tag L then saves o else []) (hmark h x o) stk) as [[h2 stk2]|e] eqn:Ef; [|discriminate].
  destruct (slot_range L o) as [[p ns]|] eqn:Es; [|discriminate].
  exists h2, stk2, p, ns. split; [reflexivity|]. split; [reflexivity|].
  destruct ns as [|len].
  { inversion H; subst. left. auto. }
  right.
  destruct (skip_marked h2 (words o) p len) as [n1|e] eqn:E1; [|discriminate].
  destruct (skip_dups (words o) p n1) as [n2|e] eqn:E2; [|discriminate].
  destruct (nth_error (words o) (p + n2)) as [y|] eqn:Ey; [|discriminate].
  exists len, n1, n2, y. repeat split; auto.
Qed.

(** successors of an object, as a set *)
Definition succ_set (L : layout) (o : obj) (b : Z) : Prop := is_slot L o b \/ is_save L o b.

(** after  sexp_markedp(x) = 1 : everything that was covered stays covered, and the successors of x
    are the new obligations *)
Lemma closed_after_hmark L h stk x o (G : Z -> Prop) :
  hfind h x = Some o ->
  closed L h stk (fun b => b = x \/ G b) ->
  closed L (hmark h x o) stk (fun b => succ_set L o b \/ G b).
Proof.
  intros Ex C a b Ha He. pose proof (hfind_pos _ _ _ Ex) as Hp.
  pose proof (mext_hmark _ _ _ Ex) as M.
  destruct (Z.eq_dec a x) as [->|Hne].
  - right; right; left. destruct He as (Hi & o1 & E1 & Hs).
    rewrite (hfind_hmark_same h x o Hp) in E1. inversion E1; subst o1.
    assert (SS : same_shape (set_marked o true) o) by (repeat split).
    destruct Hs as [Hs|Hs]; [left; eapply same_shape_is_slot; eauto|right; eapply same_shape_is_save; eauto].
  - assert (Ha' : ismarked h a).
    { destruct Ha as (oa & Ea & Hm). rewrite (hfind_hmark_other h x o a Hp Hne) in Ea. exists oa; auto. }
    destruct (C a b Ha' (edge_mext_rev _ _ _ _ _ M He)) as [H|[H|[H|H]]].
    + left. eapply ismarked_mext; eauto.
    + right; left. eapply in_stk_mext; eauto.
    + subst b. left. exists (set_marked o true). split; [apply hfind_hmark_same; exact Hp|reflexivity].
    + right; right; right. exact H.
Qed.

Lemma sound_after_hmark L h stk x o (R : Z -> Prop) :
  hfind h x = Some o -> is_imm x = false ->
  sound_pre L h stk R -> R x ->
  sound_pre L (hmark h x o) stk R /\ (forall b, succ_set L o b -> is_imm b = true \/ R b).
Proof.
  intros Ex Hi (H1 & H2 & H3) Rx. pose proof (hfind_pos _ _ _ Ex) as Hp.
  pose proof (mext_hmark _ _ _ Ex) as M. split; [split; [|split]|].
  - intros a b Ra He. eapply H1; [exact Ra|]. eapply edge_mext_rev; eauto.
  - intros b Hb. apply H2. eapply in_stk_mext_rev; eauto.
  - intros a (oa & Ea & Hm). destruct (Z.eq_dec a x) as [->|Hne]; [exact Rx|].
    rewrite (hfind_hmark_other h x o a Hp Hne) in Ea. apply H3. exists oa; auto.
  - intros b Hs. destruct (is_imm b) eqn:Eb; [left; reflexivity|right].
    apply (H1 x b Rx). split; [exact Eb|]. exists o. split; [exact Ex|exact Hs].
Qed.

Lemma mark_one_post L : forall fuel h stk x h' stk',
  mark_one fuel L h stk x = Ok (h', stk') -> post L h stk x h' stk'.
Proof.
  induction fuel as [|f IH]; intros h stk x h' stk' H; [discriminate|].
  apply mark_one_S in H.
  destruct H as [(Hi & -> & ->)|(Hi & o & Ex & [(Hm & -> & ->)|(Hm & h2 & stk2 & p & ns & Hf & Hs & Hrest)])].
  - (* immediate *)
    split; [apply mext_refl|]. split; [apply incl_refl|]. split; [intros v ->; left; exact Hi|]. split.
    + intros G C. eapply closed_weaken; [|exact C]. intros b Hb [->|H]; [congruence|exact H].
    + intros R (H1 & H2 & H3) _. split; assumption.
  - (* already marked *)
    split; [apply mext_refl|]. split; [apply incl_refl|].
    split; [intros v ->; right; exists o; auto|]. split.
    + intros G C a b Ha He. destruct (C a b Ha He) as [H|[H|[->|H]]].
      * left; exact H.
      * right; left; exact H.
      * left. exists o; auto.
      * right; right; exact H.
    + intros R (H1 & H2 & H3) _. split; assumption.
  - (* newly marked *)
    pose proof (hfind_pos _ _ _ Ex) as Hp.
    pose proof (mext_hmark _ _ _ Ex) as M1.
    set (h1 := hmark h x o) in *.
    set (sv := if tag o =? context_tag L then saves o else []) in *.
    pose proof (fold_mark_post L (mark_one f L) (IH) _ _ _ _ _ Hf) as (F1 & F2 & F3 & F4 & F5).
    assert (Hx1 : hfind h1 x = Some (set_marked o true)) by (apply hfind_hmark_same; exact Hp).
    destruct (mext_find _ _ _ _ F1 Hx1) as (o2 & Ex2 & (_ & Hw2 & _) & Hm2).
    cbn [set_marked words marked] in Hw2, Hm2.
    assert (Hsv : forall b, is_save L o b -> In b sv).
    { intros b (Ht & Hin). unfold sv. rewrite Ht, Z.eqb_refl. exact Hin. }
    assert (Hsv' : forall b, In b sv -> is_save L o b).
    { intros b Hin. unfold sv in Hin. destruct (tag o =? context_tag L) eqn:Et; [|destruct Hin].
      apply Z.eqb_eq in Et. split; assumption. }
    destruct Hrest as [(-> & -> & ->)|(len & n1 & n2 & y & -> & E1 & E2 & Ey & Hrec)].
    + (* no slots *)
      split; [eapply mext_trans; eauto|]. split; [exact F2|].
      split; [intros v ->; right; exists o2; auto|]. split.
      * intros G C. apply F4. eapply closed_weaken; [|apply (closed_after_hmark L h stk x o G Ex C)].
        intros b _ [[Hsl|Hsa]|HG]; [|left; auto|right; exact HG].
        destruct Hsl as (p' & ns' & i & Hr & Hlt & _). rewrite Hs in Hr. inversion Hr; subst. lia.
      * intros R HR HS. assert (Rx : R x) by (destruct (HS x eq_refl); [congruence|assumption]).
        destruct (sound_after_hmark L h stk x o R Ex Hi HR Rx) as (HR1 & Hsucc).
        apply F5; [exact HR1|]. intros v Hv. apply Hsucc. right. apply Hsv'. exact Hv.
    + (* slots p .. p+len; n2 = index of the slot that is followed, entries below it are pushed *)
      set (stk3 := match n2 with O => stk2 | S _ => (x, p, n2) :: stk2 end) in *.
      pose proof (IH _ _ _ _ _ Hrec) as (R1 & R2 & R3 & R4 & R5).
      destruct (skip_marked_spec _ _ _ _ _ E1) as (Hle1 & Hsk1).
      destruct (skip_dups_spec _ _ _ _ E2) as (Hle2 & Hsk2).
      assert (I23 : incl stk2 stk3) by (unfold stk3; destruct n2; [apply incl_refl|apply incl_tl, incl_refl]).
      assert (Hlow : forall i b, (i < n2)%nat -> nth_error (words o) (p + i) = Some b -> in_stk h2 stk3 b).
      { intros i b Hi2 Hb. exists x, p, n2, o2, i. rewrite Hw2. unfold stk3. destruct n2; [lia|].
        repeat split; auto. left; reflexivity. }
      assert (Hslot : forall i b, (i <= len)%nat -> nth_error (words o) (p + i) = Some b -> is_slot L o b).
      { intros i b Hi2 Hb. exists p, (S len), i. repeat split; [exact Hs|lia|exact Hb]. }
      split; [eapply mext_trans; [exact M1|eapply mext_trans; eauto]|].
      split; [eapply incl_tran; [exact F2|eapply incl_tran; eauto]|].
      split; [intros v ->; right; eapply ismarked_mext; [exact R1|exists o2; auto]|]. split.
      * intros G C. apply R4.
        assert (C2 : closed L h2 stk2 (fun b => is_slot L o b \/ G b)).
        { apply F4. eapply closed_weaken; [|apply (closed_after_hmark L h stk x o G Ex C)].
          intros b _ [[Hsl|Hsa]|HG]; [right; left; exact Hsl|left; auto|right; right; exact HG]. }
        intros a b Ha He. destruct (C2 a b Ha He) as [H|[H|[H|H]]].
        -- left; exact H.
        -- right; left. eapply in_stk_incl; eauto.
        -- destruct H as (p' & ns' & i & Hr & Hlt & Hb). rewrite Hs in Hr. inversion Hr; subst p' ns'.
           destruct (Nat.lt_ge_cases n1 i) as [Hgt|Hle].
           { destruct (Hsk1 i ltac:(lia)) as (v & Hv & [Hvi|Hvm]); rewrite Hb in Hv; inversion Hv; subst v.
             - destruct He as (Hbi & _). congruence.
             - left; exact Hvm. }
           destruct (Nat.lt_ge_cases n2 i) as [Hgt2|Hle2'].
           { destruct (Hsk2 i ltac:(lia)) as (v & Hv & Hv2). right; right; left. congruence. }
           destruct (Nat.eq_dec i n2) as [->|Hne].
           { right; right; left. congruence. }
           right; left. apply (Hlow i b); [lia|exact Hb].
        -- right; right; right; exact H.
      * intros R HR HS. assert (Rx : R x) by (destruct (HS x eq_refl); [congruence|assumption]).
        destruct (sound_after_hmark L h stk x o R Ex Hi HR Rx) as (HR1 & Hsucc).
        assert (Q2 : sound_post h2 stk2 R).
        { apply F5; [exact HR1|]. intros v Hv. apply Hsucc. right. apply Hsv'. exact Hv. }
        pose proof HR as (HRe & _).
        assert (M02 : mext h h2) by (eapply mext_trans; eauto).
        apply R5.
        -- destruct Q2 as (Q2a & Q2b). split; [|split].
           ++ intros a b Ra He. eapply HRe; [exact Ra|]. eapply edge_mext_rev; eauto.
           ++ intros b (a & p' & n' & oa & i & Hin & Ea & Hlt & Hb).
              unfold stk3 in Hin. destruct n2 as [|n2'].
              ** apply Q2b. exists a, p', n', oa, i. auto.
              ** destruct Hin as [Heq|Hin]; [|apply Q2b; exists a, p', n', oa, i; auto].
                 inversion Heq; subst a p' n'. rewrite Ex2 in Ea. inversion Ea; subst oa.
                 rewrite Hw2 in Hb. apply Hsucc. left. apply (Hslot i b); [lia|exact Hb].
           ++ exact Q2a.
        -- intros v ->. apply Hsucc. left. apply (Hslot n2 y); [lia|exact Ey].
Qed.

(** ---- the driver loop over the mark stack ---- *)
Lemma mark_loop_post L fuel1 : forall fuel h stk h', mark_loop fuel fuel1 L h stk = Ok h' ->
  mext h h' /\
  (closed L h stk (fun _ => False) -> closed L h' [] (fun _ => False)) /\
  (forall R, sound_pre L h stk R -> forall a, ismarked h' a -> R a).
Proof.
  induction fuel as [|f IH]; intros h stk h' H; [discriminate|]. cbn [mark_loop] in H.
  destruct stk as [|[[a p] n] stk1].
  - inversion H; subst. split; [apply mext_refl|]. split; [auto|]. intros R (_ & _ & H3). exact H3.
  - destruct (mark_range (mark_one fuel1 L) h stk1 a p n) as [[h1 stk2]|e] eqn:E; [|discriminate].
    pose proof (mark_range_post L _ (mark_one_post L fuel1) _ _ _ _ _ _ _ E) as (P1 & P2 & P3 & P4 & P5).
    destruct (IH _ _ _ H) as (Q1 & Q2 & Q3).
    split; [eapply mext_trans; eauto|]. split.
    + intros C. apply Q2. apply P4. intros a' b Ha He. destruct (C a' b Ha He) as [Hc|[Hc|[]]].
      * left; exact Hc.
      * destruct Hc as (a2 & p2 & n2 & o2 & i & [Heq|Hin] & Eo & Hlt & Hb).
        -- inversion Heq; subst a2 p2 n2. right; right; left. exists o2, i. auto.
        -- right; left. exists a2, p2, n2, o2, i. auto.
    + intros R HR. apply Q3. pose proof HR as (HR1 & HR2 & HR3).
      eapply sound_pre_mext; [exact P1|exact HR1|]. apply P5.
      * split; [exact HR1|]. split; [|exact HR3].
        intros b Hb. apply HR2. eapply in_stk_incl; [|exact Hb]. apply incl_tl, incl_refl.
      * intros v (o & i & Eo & Hlt & Hb). apply HR2. exists a, p, n, o, i. repeat split; auto. left; reflexivity.
Qed.

Lemma mark_start_post L fuel fuel1 h x h' : mark_start fuel fuel1 L h x = Ok h' ->
  mext h h' /\
  (all_unmarked h -> (is_imm x = true \/ ismarked h' x) /\ closed L h' [] (fun _ => False)) /\
  (forall R : Z -> Prop, (forall a b, R a -> edge L h a b -> R b) -> (is_imm x = true \/ R x) ->
      (forall a, ismarked h a -> R a) -> forall a, ismarked h' a -> R a).
Proof.
  unfold mark_start. intros H.
  destruct (mark_one fuel1 L h [] x) as [[h1 stk1]|e] eqn:E; [|discriminate].
  pose proof (mark_one_post L _ _ _ _ _ _ E) as (P1 & P2 & P3 & P4 & P5).
  destruct (mark_loop_post L fuel1 _ _ _ _ H) as (Q1 & Q2 & Q3).
  split; [eapply mext_trans; eauto|]. split.
  - intros U. split.
    + destruct (P3 x eq_refl) as [Hi|Hm]; [left; exact Hi|right; eapply ismarked_mext; eauto].
    + apply Q2. apply P4. intros a b (o & Eo & Hm) _. rewrite (U _ _ Eo) in Hm. discriminate.
  - intros R HR Hx Hm. apply Q3. eapply sound_pre_mext; [exact P1|exact HR|]. apply P5.
    + split; [exact HR|]. split; [|exact Hm]. intros b Hb. destruct (in_stk_nil _ _ Hb).
    + intros v ->. exact Hx.
Qed.

(** ---- main theorems about mark ---- *)
Theorem mark_start_exactly_reachable L fuel fuel1 h root h' :
  all_unmarked h -> mark_start fuel fuel1 L h root = Ok h' ->
  forall a, ismarked h' a <-> reachable L h root a.
Proof.
  intros U H. destruct (mark_start_post L _ _ _ _ _ H) as (M & HC & HS).
  destruct (HC U) as (Hroot & Hclosed). intros a. split.
  - apply (HS (reachable L h root)).
    + intros a1 b Ra He. eapply reach_step; eauto.
    + destruct (is_imm root) eqn:Ei; [left; reflexivity|right; apply reach_root; exact Ei].
    + intros a1 (o & Eo & Hm). rewrite (U _ _ Eo) in Hm. discriminate.
  - induction 1 as [Hi|a b Hr IHr He].
    + destruct Hroot as [Hi'|Hm]; [congruence|exact Hm].
    + destruct (Hclosed a b IHr (edge_mext _ _ _ _ _ M He)) as [Hc|[Hc|[]]]; [exact Hc|].
      destruct (in_stk_nil _ _ Hc).
Qed.

Theorem mark_exactly_reachable L h root h' :
  all_unmarked h -> mark L h root = Ok h' -> forall a, ismarked h' a <-> reachable L h root a.
Proof. unfold mark. apply mark_start_exactly_reachable. Qed.

Theorem mark_only_marks L h root h' : mark L h root = Ok h' -> mext h h'.
Proof. unfold mark. intros H. exact (proj1 (mark_start_post L _ _ _ _ _ H)). Qed.

(** ---- sweep ---- *)
Definition sweep_step (a : heap) (p : positive * obj) : heap :=
  if marked (snd p) then PositiveMap.add (fst p) (set_marked (snd p) false) a else a.

Lemma sweep_fold_notin l : forall acc k, (forall o, ~ In (k, o) l) ->
  PositiveMap.find k (fold_left sweep_step l acc) = PositiveMap.find k acc.
Proof.
  induction l as [|[k1 o1] l IH]; intros acc k Hn; cbn [fold_left]; [reflexivity|].
  rewrite IH by (intros o Hin; apply (Hn o); right; exact Hin).
  unfold sweep_step; cbn [fst snd]. destruct (marked o1); [|reflexivity].
  apply PositiveMap.gso. intros ->. apply (Hn o1). left; reflexivity.
Qed.

Lemma sweep_fold_in l : NoDupA (@PositiveMap.eq_key obj) l -> forall acc k o, In (k, o) l ->
  PositiveMap.find k (fold_left sweep_step l acc) = if marked o then Some (set_marked o false) else PositiveMap.find k acc.
Proof.
  induction 1 as [|[k1 o1] l Hnin Hnd IH]; intros acc k o Hin; [destruct Hin|].
  cbn [fold_left]. destruct Hin as [Heq|Hin].
  - inversion Heq; subst k1 o1. rewrite sweep_fold_notin.
    + unfold sweep_step; cbn [fst snd]. destruct (marked o); [apply PositiveMap.gss|reflexivity].
    + intros o2 Hin2. apply Hnin. apply InA_alt. exists (k, o2). split; [reflexivity|exact Hin2].
  - rewrite (IH _ _ _ Hin). destruct (marked o); [reflexivity|].
    unfold sweep_step; cbn [fst snd]. destruct (marked o1); [|reflexivity].
    apply PositiveMap.gso. intros ->. apply Hnin. apply InA_alt. exists (k1, o). split; [reflexivity|exact Hin].
Qed.

Lemma sweep_find h k : PositiveMap.find k (sweep h) =
  match PositiveMap.find k h with
  | Some o => if marked o then Some (set_marked o false) else None
  | None => None
  end.
Proof.
  unfold sweep. rewrite PositiveMap.fold_1.
  change (fun (a : PositiveMap.t obj) (p : PositiveMap.key * obj) =>
            if marked (snd p) then PositiveMap.add (fst p) (set_marked (snd p) false) a else a) with sweep_step.
  destruct (PositiveMap.find k h) as [o|] eqn:E.
  - apply PositiveMap.elements_correct in E.
    rewrite (sweep_fold_in _ (PositiveMap.elements_3w h) _ _ _ E).
    destruct (marked o); [reflexivity|apply PositiveMap.gempty].
  - rewrite sweep_fold_notin; [apply PositiveMap.gempty|].
    intros o Hin. apply PositiveMap.elements_complete in Hin. congruence.
Qed.

Theorem sweep_spec h a : hfind (sweep h) a =
  match hfind h a with
  | Some o => if marked o then Some (set_marked o false) else None
  | None => None
  end.
Proof. unfold hfind. destruct (a <=? 0); [reflexivity|apply sweep_find]. Qed.

Theorem sweep_keeps_marked h a o : hfind h a = Some o -> marked o = true ->
  hfind (sweep h) a = Some (set_marked o false).
Proof. intros E Hm. rewrite sweep_spec, E, Hm. reflexivity. Qed.

Theorem sweep_all_unmarked h : all_unmarked (sweep h).
Proof.
  intros a o E. rewrite sweep_spec in E. destruct (hfind h a) as [o1|]; [|discriminate].
  destruct (marked o1); [|discriminate]. inversion E; subst. reflexivity.
Qed.

(** ---- a whole collection ---- *)
Lemma set_marked_back o o' : same_shape o o' -> marked o = false -> set_marked o' false = o.
Proof.
  intros (A1 & A2 & A3) Hm. destruct o as [t m w s], o' as [t' m' w' s']. cbn [tag words saves marked] in *.
  subst. reflexivity.
Qed.

Theorem gc_keeps_reachable L h root h' :
  all_unmarked h -> gc L h root = Ok h' ->
  forall a, reachable L h root a -> exists o, hfind h a = Some o /\ hfind h' a = Some o.
Proof.
  unfold gc. intros U H a Hr. destruct (mark L h root) as [h1|e] eqn:E; [|discriminate].
  inversion H; subst h'. pose proof (mark_only_marks _ _ _ _ E) as M.
  apply (mark_exactly_reachable _ _ _ _ U E) in Hr. destruct Hr as (o1 & E1 & Hm1).
  destruct (mext_find_rev _ _ _ _ M E1) as (o & Eo & SS & _).
  exists o. split; [exact Eo|]. rewrite (sweep_keeps_marked _ _ _ E1 Hm1).
  f_equal. apply set_marked_back; [exact SS|]. exact (U _ _ Eo).
Qed.

Theorem gc_frees_unreachable L h root h' :
  all_unmarked h -> gc L h root = Ok h' ->
  forall a, ~ reachable L h root a -> hfind h' a = None.
Proof.
  unfold gc. intros U H a Hr. destruct (mark L h root) as [h1|e] eqn:E; [|discriminate].
  inversion H; subst h'. rewrite sweep_spec. destruct (hfind h1 a) as [o1|] eqn:E1; [|reflexivity].
  destruct (marked o1) eqn:Hm; [|reflexivity]. exfalso. apply Hr.
  apply (mark_exactly_reachable _ _ _ _ U E). exists o1. auto.
Qed.

Theorem gc_all_unmarked L h root h' : gc L h root = Ok h' -> all_unmarked h'.
Proof.
  unfold gc. intros H. destruct (mark L h root) as [h1|e]; [|discriminate]. inversion H; subst.
  apply sweep_all_unmarked.
Qed.

(** the graph seen from the root is the same after the collection *)
Lemma gc_edge L h root h' a b :
  all_unmarked h -> gc L h root = Ok h' -> reachable L h root a -> (edge L h a b <-> edge L h' a b).
Proof.
  intros U H Hr. destruct (gc_keeps_reachable _ _ _ _ U H a Hr) as (o & E1 & E2).
  split; intros (Hi & o1 & Eo & Hs); (split; [exact Hi|]); exists o1; split; auto; congruence.
Qed.

Theorem gc_keeps_reachability L h root h' :
  all_unmarked h -> gc L h root = Ok h' ->
  forall a, reachable L h root a <-> reachable L h' root a.
Proof.
  intros U H a. split.
  - induction 1 as [Hi|a b Hr IHr He]; [apply reach_root; exact Hi|].
    eapply reach_step; [exact IHr|]. apply (gc_edge _ _ _ _ _ _ U H Hr). exact He.
  - induction 1 as [Hi|a b Hr IHr He]; [apply reach_root; exact Hi|].
    eapply reach_step; [exact IHr|]. apply (gc_edge _ _ _ _ _ _ U H IHr). exact He.
Qed.

(** ---- fuel: [mark] never runs out of fuel ---- *)
Definition unmarkedb (h : heap) (a : Z) : bool :=
  match hfind h a with Some o => negb (marked o) | None => false end.
(** number of unmarked objects among the addresses dom *)
Definition U (dom : list Z) (h : heap) : nat := length (filter (unmarkedb h) dom).
Definition pot (dom : list Z) (h : heap) (stk : mstack) : nat := (length stk + U dom h)%nat.
Definition dom_covers (dom : list Z) (h : heap) : Prop := forall a o, hfind h a = Some o -> In a dom.

Lemma unmarkedb_mext h h' a : mext h h' -> unmarkedb h' a = true -> unmarkedb h a = true.
Proof.
  intros M. unfold unmarkedb. destruct (hfind h' a) as [o'|] eqn:E'; [|discriminate].
  destruct (mext_find_rev _ _ _ _ M E') as (o & E & _ & Hm). rewrite E.
  destruct (marked o); [|reflexivity]. rewrite (Hm eq_refl). auto.
Qed.

Lemma U_mext dom h h' : mext h h' -> (U dom h' <= U dom h)%nat.
Proof.
  intros M. unfold U. induction dom as [|a d IH]; cbn [filter length]; [lia|].
  destruct (unmarkedb h' a) eqn:E'.
  - rewrite (unmarkedb_mext _ _ _ M E'). cbn [length]. lia.
  - destruct (unmarkedb h a); cbn [length]; lia.
Qed.

Lemma U_hmark_lt dom h x o : hfind h x = Some o -> marked o = false -> In x dom ->
  (U dom (hmark h x o) < U dom h)%nat.
Proof.
  intros Ex Hm. pose proof (hfind_pos _ _ _ Ex) as Hp. pose proof (mext_hmark _ _ _ Ex) as M.
  unfold U. induction dom as [|a d IH]; intros Hin; [destruct Hin|]. cbn [filter].
  destruct (Z.eq_dec a x) as [->|Hne].
  - assert (E1 : unmarkedb (hmark h x o) x = false).
    { unfold unmarkedb. rewrite (hfind_hmark_same h x o Hp). reflexivity. }
    assert (E2 : unmarkedb h x = true) by (unfold unmarkedb; rewrite Ex, Hm; reflexivity).
    rewrite E1, E2. cbn [length]. pose proof (U_mext d _ _ M) as Hle. unfold U in Hle. lia.
  - assert (E : unmarkedb (hmark h x o) a = unmarkedb h a).
    { unfold unmarkedb. rewrite (hfind_hmark_other h x o a Hp Hne). reflexivity. }
    rewrite E. destruct Hin as [Heq|Hin]; [congruence|]. specialize (IH Hin).
    destruct (unmarkedb h a); cbn [length]; lia.
Qed.

Lemma dom_covers_mext dom h h' : mext h h' -> dom_covers dom h -> dom_covers dom h'.
Proof.
  intros M D a o' E'. destruct (mext_find_rev _ _ _ _ M E') as (o & E & _). eapply D; eauto.
Qed.

Definition step_ok (dom : list Z) (fb : nat) (step : heap -> mstack -> Z -> res state) : Prop :=
  forall h stk x, dom_covers dom h -> (U dom h < fb)%nat ->
    step h stk x <> Err OutOfFuel /\
    (forall h' stk', step h stk x = Ok (h', stk') -> mext h h' /\ (pot dom h' stk' <= pot dom h stk)%nat).

Lemma fold_ok dom fb step : step_ok dom fb step ->
  forall l h stk, dom_covers dom h -> (U dom h < fb)%nat ->
    fold_mark step l h stk <> Err OutOfFuel /\
    (forall h' stk', fold_mark step l h stk = Ok (h', stk') -> mext h h' /\ (pot dom h' stk' <= pot dom h stk)%nat).
Proof.
  intros Hs. induction l as [|v l IH]; intros h stk D HU; cbn [fold_mark].
  - split; [discriminate|]. intros h' stk' H. inversion H; subst. split; [apply mext_refl|lia].
  - destruct (Hs h stk v D HU) as (S1 & S2).
    destruct (step h stk v) as [[h1 stk1]|e] eqn:E.
    + destruct (S2 _ _ eq_refl) as (M1 & P1).
      assert (D1 : dom_covers dom h1) by (eapply dom_covers_mext; eauto).
      assert (U1 : (U dom h1 < fb)%nat) by (pose proof (U_mext dom _ _ M1); lia).
      destruct (IH h1 stk1 D1 U1) as (I1 & I2). split; [exact I1|].
      intros h' stk' H. destruct (I2 _ _ H) as (M2 & P2). split; [eapply mext_trans; eauto|lia].
    + split; [intros H; inversion H; subst; apply S1; reflexivity|]. intros h' stk' H; discriminate.
Qed.

Lemma range_ok dom fb step : step_ok dom fb step ->
  forall n a p h stk, dom_covers dom h -> (U dom h < fb)%nat ->
    mark_range step h stk a p n <> Err OutOfFuel /\
    (forall h' stk', mark_range step h stk a p n = Ok (h', stk') -> mext h h' /\ (pot dom h' stk' <= pot dom h stk)%nat).
Proof.
  intros Hs. induction n as [|n IH]; intros a p h stk D HU; cbn [mark_range].
  - split; [discriminate|]. intros h' stk' H. inversion H; subst. split; [apply mext_refl|lia].
  - destruct (hfind h a) as [o|]; [|split; [discriminate|intros ? ? H; discriminate]].
    destruct (nth_error (words o) p) as [v|]; [|split; [discriminate|intros ? ? H; discriminate]].
    destruct (Hs h stk v D HU) as (S1 & S2).
    destruct (step h stk v) as [[h1 stk1]|e] eqn:E.
    + destruct (S2 _ _ eq_refl) as (M1 & P1).
      assert (D1 : dom_covers dom h1) by (eapply dom_covers_mext; eauto).
      assert (U1 : (U dom h1 < fb)%nat) by (pose proof (U_mext dom _ _ M1); lia).
      destruct (IH a (S p) h1 stk1 D1 U1) as (I1 & I2). split; [exact I1|].
      intros h' stk' H. destruct (I2 _ _ H) as (M2 & P2). split; [eapply mext_trans; eauto|lia].
    + split; [intros H; inversion H; subst; apply S1; reflexivity|]. intros h' stk' H; discriminate.
Qed.

Lemma skip_marked_nofuel h ws p : forall n, skip_marked h ws p n <> Err OutOfFuel.
Proof.
  induction n as [|n IH]; cbn [skip_marked]; [discriminate|].
  destruct (nth_error ws (p + S n)) as [v|]; [|discriminate].
  destruct (is_imm v); [exact IH|]. destruct (hfind h v) as [o|]; [|discriminate].
  destruct (marked o); [exact IH|discriminate].
Qed.

Lemma skip_dups_nofuel ws p : forall n, skip_dups ws p n <> Err OutOfFuel.
Proof.
  induction n as [|n IH]; cbn [skip_dups]; [discriminate|].
  destruct (nth_error ws (p + S n)) as [a|]; [|discriminate].
  destruct (nth_error ws (p + n)) as [b|]; [|discriminate].
  destruct (a =? b); [exact IH|discriminate].
Qed.

Lemma mark_one_ok L dom : forall fuel, step_ok dom fuel (mark_one fuel L).
Proof.
  induction fuel as [|f IH]; intros h stk x D HU; [lia|].
  split.
  - (* never out of fuel *)
    cbn [mark_one].
    destruct (is_imm x); [discriminate|].
    destruct (hfind h x) as [o|] eqn:Ex; [|discriminate].
    destruct (marked o) eqn:Hm; [discriminate|].
    pose proof (mext_hmark _ _ _ Ex) as M1.
    assert (D1 : dom_covers dom (hmark h x o)) by (eapply dom_covers_mext; eauto).
    pose proof (U_hmark_lt dom h x o Ex Hm (D _ _ Ex)) as Hlt.
    assert (U1 : (U dom (hmark h x o) < f)%nat) by lia.
    destruct (fold_ok dom f _ IH (if tag o =? context_tag L then saves o else []) _ stk D1 U1) as (F1 & F2).
    destruct (fold_mark (mark_one f L) (if tag o =? context_tag L then saves o else []) (hmark h x o) stk) as [[h2 stk2]|e] eqn:Ef;
      [|intros H; inversion H; subst; apply F1; reflexivity].
    destruct (F2 _ _ eq_refl) as (M2 & P2).
    assert (D2 : dom_covers dom h2) by (eapply dom_covers_mext; eauto).
    assert (U2 : (U dom h2 < f)%nat) by (pose proof (U_mext dom _ _ M2); lia).
    destruct (slot_range L o) as [[p ns]|]; [|discriminate].
    destruct ns as [|len]; [discriminate|].
    pose proof (skip_marked_nofuel h2 (words o) p len) as K1.
    destruct (skip_marked h2 (words o) p len) as [n1|e1]; [|congruence].
    pose proof (skip_dups_nofuel (words o) p n1) as K2.
    destruct (skip_dups (words o) p n1) as [n2|e2]; [|congruence].
    destruct (nth_error (words o) (p + n2)) as [y|]; [|discriminate].
    exact (proj1 (IH h2 _ y D2 U2)).
  - (* mark bits only; the potential does not grow *)
    intros h' stk' H. split; [exact (proj1 (mark_one_post L _ _ _ _ _ _ H))|].
    cbn [mark_one] in H.
    destruct (is_imm x); [inversion H; subst; lia|].
    destruct (hfind h x) as [o|] eqn:Ex; [|discriminate].
    destruct (marked o) eqn:Hm; [inversion H; subst; lia|].
    pose proof (mext_hmark _ _ _ Ex) as M1.
    assert (D1 : dom_covers dom (hmark h x o)) by (eapply dom_covers_mext; eauto).
    pose proof (U_hmark_lt dom h x o Ex Hm (D _ _ Ex)) as Hlt.
    assert (U1 : (U dom (hmark h x o) < f)%nat) by lia.
    destruct (fold_ok dom f _ IH (if tag o =? context_tag L then saves o else []) _ stk D1 U1) as (F1 & F2).
    destruct (fold_mark (mark_one f L) (if tag o =? context_tag L then saves o else []) (hmark h x o) stk) as [[h2 stk2]|e] eqn:Ef;
      [|discriminate].
    destruct (F2 _ _ eq_refl) as (M2 & P2).
    assert (D2 : dom_covers dom h2) by (eapply dom_covers_mext; eauto).
    assert (U2 : (U dom h2 < f)%nat) by (pose proof (U_mext dom _ _ M2); lia).
    destruct (slot_range L o) as [[p ns]|]; [|discriminate].
    destruct ns as [|len]; [inversion H; subst; unfold pot in *; lia|].
    destruct (skip_marked h2 (words o) p len) as [n1|e1]; [|discriminate].
    destruct (skip_dups (words o) p n1) as [n2|e2]; [|discriminate].
    destruct (nth_error (words o) (p + n2)) as [y|]; [|discriminate].
    destruct (proj2 (IH h2 _ y D2 U2) _ _ H) as (_ & P3).
    unfold pot in *. destruct n2; cbn [length] in P3; lia.
Qed.

Lemma mark_loop_nofuel L dom fuel1 : forall fuel h stk,
  dom_covers dom h -> (U dom h < fuel1)%nat -> (pot dom h stk < fuel)%nat ->
  mark_loop fuel fuel1 L h stk <> Err OutOfFuel.
Proof.
  induction fuel as [|f IH]; intros h stk D HU HP; [lia|]. cbn [mark_loop].
  destruct stk as [|[[a p] n] stk1]; [discriminate|].
  destruct (range_ok dom fuel1 _ (mark_one_ok L dom fuel1) n a p h stk1 D HU) as (R1 & R2).
  destruct (mark_range (mark_one fuel1 L) h stk1 a p n) as [[h1 stk2]|e] eqn:E.
  - destruct (R2 _ _ eq_refl) as (M1 & P1). apply IH.
    + eapply dom_covers_mext; eauto.
    + pose proof (U_mext dom _ _ M1); lia.
    + unfold pot in *. cbn [length] in HP. lia.
  - intros H; inversion H; subst; apply R1; reflexivity.
Qed.

Definition heap_dom (h : heap) : list Z := map (fun p => Zpos (fst p)) (PositiveMap.elements h).

Lemma heap_dom_covers h : dom_covers (heap_dom h) h.
Proof.
  intros a o E. pose proof (hfind_pos _ _ _ E) as Hp. unfold hfind in E.
  destruct (a <=? 0) eqn:Ea; [discriminate|]. apply PositiveMap.elements_correct in E.
  unfold heap_dom. apply in_map_iff. exists (Z.to_pos a, o). split; [|exact E].
  cbn [fst]. apply Z2Pos.id. exact Hp.
Qed.

Lemma U_le_length dom h : (U dom h <= length dom)%nat.
Proof. unfold U. induction dom as [|a d IH]; cbn [filter length]; [lia|]. destruct (unmarkedb h a); cbn [length]; lia. Qed.

Theorem mark_never_out_of_fuel L h root : mark L h root <> Err OutOfFuel.
Proof.
  unfold mark, mark_start. set (n := PositiveMap.cardinal h).
  assert (Hn : (U (heap_dom h) h <= n)%nat).
  { pose proof (U_le_length (heap_dom h) h) as Hle. unfold heap_dom in Hle at 2. rewrite map_length in Hle.
    unfold n. rewrite PositiveMap.cardinal_1. exact Hle. }
  destruct (mark_one_ok L (heap_dom h) (S n) h [] root (heap_dom_covers h) ltac:(lia)) as (S1 & S2).
  destruct (mark_one (S n) L h [] root) as [[h1 stk1]|e] eqn:E.
  - destruct (S2 _ _ eq_refl) as (M1 & P1). apply (mark_loop_nofuel L (heap_dom h)).
    + eapply dom_covers_mext; [exact M1|apply heap_dom_covers].
    + pose proof (U_mext (heap_dom h) _ _ M1); lia.
    + unfold pot in *. cbn [length] in P1. lia.
  - intros H; inversion H; subst; apply S1; reflexivity.
Qed.

(** ---- non-vacuity: the hypotheses of the theorems hold on a concrete heap ----
    tags 0 ("pair": two slots) and 1 ("context": two slots + registered C locals);
    32 = context -> 64 (slot) and 96 (registered local); 64 -> 128 and itself (cycle);
    128 -> 96 twice (trailing duplicate); 96 holds immediates only; 160 is garbage pointing into the
    live part. *)
Definition exL : layout :=
  mklayout [mkspec 8 2 2 0 0 24 0 0 0 0 0 0 0; mkspec 8 2 2 0 0 24 0 0 0 0 0 0 0] 1.
Definition exM : heap := heap_of_list
  [(32, mkobj 1 true [1; 64; 0] [96]); (64, mkobj 0 true [0; 128; 64] []); (96, mkobj 0 true [0; 1; 5] []);
   (128, mkobj 0 true [0; 96; 96] []); (160, mkobj 0 true [0; 64; 1] [])].
Definition exH : heap := sweep exM.
Definition ex_marks (h : heap) : list bool :=
  map (fun a => match hfind h a with Some o => marked o | None => false end) [32; 64; 96; 128; 160].

Example ex_all_unmarked : all_unmarked exH.
Proof. apply sweep_all_unmarked. Qed.

Example ex_mark : exists h', mark exL exH 32 = Ok h' /\ ex_marks h' = [true; true; true; true; false].
Proof. eexists. split; vm_compute; reflexivity. Qed.

Example ex_reachable : reachable exL exH 32 128 /\ ~ reachable exL exH 32 160.
Proof.
  destruct ex_mark as (h' & Hm & Hb).
  pose proof (mark_exactly_reachable exL exH 32 h' ex_all_unmarked Hm) as Hiff.
  split.
  - apply Hiff. unfold ex_marks in Hb. cbn [map] in Hb.
    destruct (hfind h' 128) as [o|] eqn:E.
    + exists o. split; [exact E|]. inversion Hb. reflexivity.
    + inversion Hb.
  - intros Hr. apply Hiff in Hr. destruct Hr as (o & E & Ho).
    unfold ex_marks in Hb. cbn [map] in Hb. rewrite E in Hb. inversion Hb. congruence.
Qed.

Example ex_gc : exists h', gc exL exH 32 = Ok h' /\ hfind h' 128 = hfind exH 128 /\ hfind exH 128 <> None /\
                           hfind h' 160 = None /\ hfind exH 160 <> None.
Proof. eexists. repeat split; vm_compute; try reflexivity; discriminate. Qed.

Example ex_wf_bool : heap_ok exL exH = true.
Proof. vm_compute. reflexivity. Qed.
