(** C02 generated obligations about the type table regenerated from the tree under check
    (Gen/C02_Layout.v): the marker's view of every core type agrees with struct sexp_struct
    (the "must be kept in sync" comment, sexp.h:432-435), and slot ranges lie inside the objects. *)
From ChibiV Require Import C02.Model Gen.C02_Layout.
Local Open Scope Z_scope.

Definition offs_from (base : Z) (n : Z) : list Z := map (fun i => base + 8 * Z.of_nat i) (seq 0 (Z.to_nat n)).

(** byte offsets the collector treats as references for a type whose slot count does not depend on
    the object: strong slots (gc.c:268-272) then weak slots + extra (gc.c:390-405) *)
Definition visited (t : tspec) : list Z :=
  (if field_len_scale t =? 0 then offs_from (field_base t) (field_len_base t) else []) ++
  (if (0 <? weak_base t) && (weak_len_scale t =? 0) then offs_from (weak_base t) (weak_len_base t + weak_len_extra t) else []).

(** struct fields of C type sexp that the type table deliberately leaves untraced:
    Cpointer.parent (tag 37, offset 8): the base Cpointer type registers field_len_base = 0
    (sexp.c:306); types made by sexp_register_c_type have their own table entries. *)
Definition untraced : list (Z * Z) := [(37, 8)].

Definition is_untraced (tag off : Z) : bool := existsb (fun p => (fst p =? tag) && (snd p =? off)) untraced.

Fixpoint zlist_eqb (a b : list Z) : bool :=
  match a, b with
  | [], [] => true
  | x :: a', y :: b' => (x =? y) && zlist_eqb a' b'
  | _, _ => false
  end.

Definition covers (e : Z * list Z * bool) : bool :=
  let '(tg, offs, _) := e in
  match nth_error (specs core_layout) (Z.to_nat tg) with
  | None => false
  | Some t => zlist_eqb (visited t) (filter (fun o => negb (is_untraced tg o)) offs)
  end.

Lemma layout_covers : forallb covers sexp_fields = true.
Proof. vm_compute. reflexivity. Qed.

(** slot ranges lie inside the object: fixed-size types by arithmetic on the table; for types whose
    slot count is read from the object the count word is the size word with scale 8 (Vector); the
    Stack type (tag 35) counts slots by `top`, which the VM keeps <= length (not checked here). *)
Definition inside (t : tspec) : bool :=
  (field_base t mod 8 =? 0) && (field_len_off t mod 8 =? 0) && (size_off t mod 8 =? 0) &&
  (if field_len_scale t =? 0
   then (field_len_base t <=? 0) || ((size_scale t =? 0) && (field_base t + 8 * field_len_base t <=? size_base t))
        || (field_base t + 8 * field_len_base t <=? size_base t)
   else (field_len_base t =? 0) && (field_base t <=? size_base t) && (8 * field_len_scale t =? size_scale t)).

Lemma layout_inside : forallb inside (specs core_layout) = true.
Proof. vm_compute. reflexivity. Qed.

Lemma context_tag_is_context : nth_error (specs core_layout) (Z.to_nat (context_tag core_layout)) <> None.
Proof. vm_compute. discriminate. Qed.
