(** C02: proofs about sexp_preserve_object / sexp_release_object (model: Preserve.v): the list is a multiset of
    registrations; preserve adds exactly one registration of x, release removes exactly one registration of x (the most
    recent) and touches no other object's registrations nor their order. *)
From Coq Require Import List Arith Bool Lia.
From ChibiV Require Import C02.Preserve.
Import ListNotations.

Lemma preserve_count : forall x y l,
  count_occ Nat.eq_dec (preserve_obj x l) y = ((if Nat.eqb x y then 1 else 0) + count_occ Nat.eq_dec l y)%nat.
Proof.
  intros x y l. unfold preserve_obj. cbn [count_occ].
  destruct (Nat.eq_dec x y) as [E|E].
  - apply Nat.eqb_eq in E. rewrite E. reflexivity.
  - apply Nat.eqb_neq in E. rewrite E. reflexivity.
Qed.

Lemma release_count : forall x y l,
  count_occ Nat.eq_dec (release_obj x l) y =
  if Nat.eqb x y then pred (count_occ Nat.eq_dec l y) else count_occ Nat.eq_dec l y.
Proof.
  intros x y l. induction l as [|z r IH]; cbn [release_obj count_occ].
  - destruct (Nat.eqb x y); reflexivity.
  - destruct (Nat.eqb z x) eqn:Ezx.
    + apply Nat.eqb_eq in Ezx. subst z.
      destruct (Nat.eq_dec x y) as [E|E].
      * apply Nat.eqb_eq in E. rewrite E. reflexivity.
      * apply Nat.eqb_neq in E. rewrite E. reflexivity.
    + apply Nat.eqb_neq in Ezx. cbn [count_occ].
      destruct (Nat.eq_dec z y) as [E|E].
      * subst z. assert (H : Nat.eqb x y = false) by (apply Nat.eqb_neq; congruence).
        rewrite H in *. rewrite IH. reflexivity.
      * exact IH.
Qed.

(** an object stays on the list (hence reachable, hence kept by every collection) until it has been released as often
    as it was preserved *)
Theorem preserved_until_released : forall x y l,
  In y (release_obj x l) <-> (if Nat.eqb x y then (2 <= count_occ Nat.eq_dec l y)%nat else In y l).
Proof.
  intros x y l. rewrite (count_occ_In Nat.eq_dec). rewrite release_count.
  destruct (Nat.eqb x y).
  - lia.
  - symmetry. apply (count_occ_In Nat.eq_dec).
Qed.

(** release keeps the relative order of everything else (the marker does not care, hash-table-walk style users might) *)
Lemma release_other_order : forall x l, filter (fun y => negb (Nat.eqb y x)) (release_obj x l) = filter (fun y => negb (Nat.eqb y x)) l.
Proof.
  intros x l. induction l as [|z r IH]; cbn [release_obj filter]; [reflexivity |].
  destruct (Nat.eqb z x) eqn:E; cbn [negb].
  - reflexivity.
  - cbn [filter]. rewrite E. cbn [negb]. rewrite IH. reflexivity.
Qed.

Example ex_preserve_release :
  run_ops [(true, 1); (true, 2); (true, 1); (true, 3); (false, 1); (false, 2); (false, 7)] [] = [3; 1].
Proof. reflexivity. Qed.
