(** C02: the root-registration macro families of include/chibi/sexp.h (lines 669-723, native GC branch):

      sexp_gc_var(x, y)           sexp x = SEXP_VOID;  struct sexp_gc_var_t y = {NULL, NULL};
      sexp_gc_preserve(ctx, x, y) do { (y).var = &(x); (y).next = sexp_context_saves(ctx); sexp_context_saves(ctx) = &(y); } while (0)
      sexp_gc_release(ctx, x, y)  (sexp_context_saves(ctx) = y.next)
      sexp_gc_varK / sexp_gc_preserveK / sexp_gc_releaseK      K = 1..7

    and the walk of the marker over the list they build (gc.c:264-267, sexp_mark_one on a context:
      for (saves=sexp_context_saves(ctx); saves; saves=saves->next) if (saves->var) sexp_mark_one(ctx, *(saves->var)); ).

    Executable model only; proofs in GcMacrosProofs.v; the table of the tree under check is Gen/C02_GcMacros.v
    (gen/c02_gcmacros.py: cc -E of every member of the three families on fresh argument names). *)
From Coq Require Import List String Bool Arith.
Import ListNotations.
Open Scope string_scope.

(** a pointer to a preserver record: NULL, the list the caller handed over (abstract: the records of the
    enclosing C frames), or a record of this frame, by name *)
Inductive ptr := PNull | POut | PRec (p : string).
(** the [var] field of a record: NULL or the address of a C local *)
Inductive vfield := VNull | VAddr (x : string).

Inductive item :=
| DVar (x : string) (init_imm : bool)             (* sexp x = SEXP_VOID;   (init_imm: the initialiser is SEXP_VOID) *)
| DRec (p : string) (var_null next_null : bool)   (* struct sexp_gc_var_t p = {NULL, NULL}; *)
| SetVar (p x : string)                           (* (p).var = &(x); *)
| SetNext (p : string)                            (* (p).next = sexp_context_saves(ctx); *)
| SetSaves (p : string)                           (* sexp_context_saves(ctx) = &(p); *)
| Restore (p : string).                           (* sexp_context_saves(ctx) = p.next *)

Record st := mkSt { saves : ptr; nxt : string -> ptr; var : string -> vfield }.

Definition upd {A} (f : string -> A) (k : string) (v : A) : string -> A :=
  fun k' => if String.eqb k k' then v else f k'.

Definition exec (i : item) (s : st) : st :=
  match i with
  | DVar _ _ => s
  | DRec p _ _ => mkSt (saves s) (upd (nxt s) p PNull) (upd (var s) p VNull)
  | SetVar p x => mkSt (saves s) (nxt s) (upd (var s) p (VAddr x))
  | SetNext p => mkSt (saves s) (upd (nxt s) p (saves s)) (var s)
  | SetSaves p => mkSt (PRec p) (nxt s) (var s)
  | Restore p => mkSt (nxt s p) (nxt s) (var s)
  end.

Definition execs (l : list item) (s : st) : st := fold_left (fun s i => exec i s) l s.

(** what the marker visits: registered locals, then the caller's list *)
Inductive elem := EVar (x : string) | EOut.

(** gc.c:264-267; fuel exhausted = the list is cyclic (the C loops for ever) *)
Fixpoint walk (fuel : nat) (s : st) (q : ptr) : option (list elem) :=
  match fuel with
  | O => None
  | S f =>
    match q with
    | PNull => Some []
    | POut => Some [EOut]
    | PRec p =>
      match walk f s (nxt s p) with
      | None => None
      | Some w => Some (match var s p with VAddr x => EVar x :: w | VNull => w end)
      end
    end
  end.

(** the state a function body starts from: the context's list is the caller's *)
Definition s0 : st := mkSt POut (fun _ => PNull) (fun _ => VNull).

(** the canonical shape: one (var, next, saves) triple per argument, in order *)
Fixpoint canon_preserve (ps args : list string) : list item :=
  match ps, args with
  | p :: ps', x :: args' => SetVar p x :: SetNext p :: SetSaves p :: canon_preserve ps' args'
  | _, _ => []
  end.

Definition canon_release (ps : list string) : list item :=
  match ps with p :: _ => [Restore p] | [] => [] end.

Fixpoint canon_var (ps args : list string) : list item :=
  match ps, args with
  | p :: ps', x :: args' => DVar x true :: DRec p true true :: canon_var ps' args'
  | _, _ => []
  end.

(** one arity of the three families, expanded on the argument names [margs] *)
Record macro := mkMacro { arity : nat; margs : list string; var_items : list item; pres_items : list item; rel_items : list item }.

Definition decl_vars (l : list item) : list (string * bool) :=
  flat_map (fun i => match i with DVar x b => [(x, b)] | _ => [] end) l.
Definition decl_recs (l : list item) : list (string * bool) :=
  flat_map (fun i => match i with DRec p a b => [(p, a && b)] | _ => [] end) l.
Definition is_decl (i : item) : bool := match i with DVar _ _ | DRec _ _ _ => true | _ => false end.
Definition used_rec (i : item) : list string :=
  match i with SetVar p _ | SetNext p | SetSaves p | Restore p => [p] | _ => [] end.

Definition string_in (x : string) (l : list string) : bool := existsb (String.eqb x) l.
Fixpoint nodupb (l : list string) : bool :=
  match l with [] => true | x :: r => negb (string_in x r) && nodupb r end.

Definition elem_eqb (a b : elem) : bool :=
  match a, b with EVar x, EVar y => String.eqb x y | EOut, EOut => true | _, _ => false end.
Fixpoint elems_eqb (a b : list elem) : bool :=
  match a, b with [] , [] => true | x :: a', y :: b' => elem_eqb x y && elems_eqb a' b' | _, _ => false end.
Definition walk_is (r : option (list elem)) (w : list elem) : bool :=
  match r with Some v => elems_eqb v w | None => false end.
Definition ptr_is_out (q : ptr) : bool := match q with POut => true | _ => false end.
Fixpoint decls_eqb (a b : list (string * bool)) : bool :=
  match a, b with
  | [], [] => true
  | (x, u) :: a', (y, v) :: b' => String.eqb x y && Bool.eqb u v && decls_eqb a' b'
  | _, _ => false
  end.

(** the executable obligation for one arity:
    - sexp_gc_varK declares exactly its K distinct arguments, each initialised to the immediate SEXP_VOID, and K
      distinct records initialised {NULL, NULL}, and nothing else; declaring registers nothing;
    - sexp_gc_preserveK only touches records declared by sexp_gc_varK, and after it the marker visits exactly the
      K arguments (last one first), then the caller's list;
    - sexp_gc_releaseK leaves the context with exactly the caller's list. *)
Definition macro_okb (m : macro) : bool :=
  let recs := map fst (decl_recs (var_items m)) in
  let s1 := execs (var_items m) s0 in
  let s2 := execs (pres_items m) s1 in
  let s3 := execs (rel_items m) s2 in
  let fuel := S (S (arity m)) in
  (Nat.eqb (List.length (margs m)) (arity m)) && (Nat.ltb 0 (arity m)) && nodupb (margs m)
  && forallb is_decl (var_items m)
  && decls_eqb (decl_vars (var_items m)) (map (fun x => (x, true)) (margs m))
  && Nat.eqb (List.length recs) (arity m) && nodupb recs && forallb snd (decl_recs (var_items m))
  && forallb (fun i => negb (is_decl i) && forallb (fun p => string_in p recs) (used_rec i)) (pres_items m ++ rel_items m)
  && walk_is (walk fuel s1 (saves s1)) [EOut]
  && walk_is (walk fuel s2 (saves s2)) (map EVar (rev (margs m)) ++ [EOut])
  && ptr_is_out (saves s3).

Fixpoint items_eqb (a b : list item) : bool :=
  match a, b with
  | [], [] => true
  | x :: a', y :: b' =>
    (match x, y with
     | DVar p u, DVar q v => String.eqb p q && Bool.eqb u v
     | DRec p u1 u2, DRec q v1 v2 => String.eqb p q && Bool.eqb u1 v1 && Bool.eqb u2 v2
     | SetVar p x1, SetVar q y1 => String.eqb p q && String.eqb x1 y1
     | SetNext p, SetNext q | SetSaves p, SetSaves q | Restore p, Restore q => String.eqb p q
     | _, _ => false
     end) && items_eqb a' b'
  | _, _ => false
  end.

(** the table entry has the canonical shape (ties the general theorems about [canon_*] to the header) *)
Definition macro_canonb (m : macro) : bool :=
  let recs := map fst (decl_recs (var_items m)) in
  items_eqb (var_items m) (canon_var recs (margs m))
  && items_eqb (pres_items m) (canon_preserve recs (margs m))
  && items_eqb (rel_items m) (canon_release recs).

(** what the compiled macros must show on a real collection (harness/embed_c02.c, mode gcmacros), computed from a
    table entry: the list the marker walks after preserve<K>, as 1-based argument positions (0 = the caller's list;
    None = cyclic / unknown variable), and whether release<K> restores the caller's list *)
Fixpoint index_of (x : string) (l : list string) (i : nat) : option nat :=
  match l with [] => None | y :: r => if String.eqb x y then Some i else index_of x r (S i) end.
Fixpoint chain_idx (args : list string) (w : list elem) : option (list nat) :=
  match w with
  | [] => Some []
  | EOut :: r => option_map (cons O) (chain_idx args r)
  | EVar x :: r => match index_of x args 1, chain_idx args r with Some i, Some l => Some (i :: l) | _, _ => None end
  end.
Definition macro_report (m : macro) : nat * (option (list nat) * bool) :=
  let s2 := execs (pres_items m) (execs (var_items m) s0) in
  let s3 := execs (rel_items m) s2 in
  (arity m,
   (match walk (S (S (List.length (pres_items m)))) s2 (saves s2) with Some w => chain_idx (margs m) w | None => None end,
    ptr_is_out (saves s3))).
