(** C02: on a well-formed heap the marker raises none of the model's errors (no wild pointer, no
    unknown tag, no slot range outside an object), so with [mark_never_out_of_fuel] it returns Ok. *)
From ChibiV Require Import C02.Model C02.Spec C02.Proofs.
Local Open Scope Z_scope.

Arguments slot_range : simpl never.
Arguments is_imm : simpl never.
Arguments hfind : simpl never.
Arguments hmark : simpl never.

Definition Wf (L : layout) (h : heap) : Prop := forall a o, hfind h a = Some o -> wf_obj L h o.
Definition entry_ok (h : heap) (a : Z) (p n : nat) : Prop :=
  exists o, hfind h a = Some o /\ (p + n <= length (words o))%nat /\
            forall i v, (i < n)%nat -> nth_error (words o) (p + i) = Some v -> ptr_valid h v.
Definition SV (h : heap) (stk : mstack) : Prop := forall a p n, In (a, p, n) stk -> entry_ok h a p n.
Definition okres {A : Type} (r : res A) : Prop := forall e, r = Err e -> e = OutOfFuel.

Lemma ptr_valid_mext h h' v : mext h h' -> ptr_valid h v -> ptr_valid h' v.
Proof.
  intros M [Hi|(o & E)]; [left; exact Hi|right].
  destruct (mext_find _ _ _ _ M E) as (o' & E' & _). exists o'. exact E'.
Qed.

Lemma Wf_mext L h h' : mext h h' -> Wf L h -> Wf L h'.
Proof.
  intros M W a o' E'. destruct (mext_find_rev _ _ _ _ M E') as (o & E & SS & _).
  destruct (W _ _ E) as (p & ns & H1 & H2 & H3 & H4).
  pose proof SS as (St & Sw & Ss).
  exists p, ns. split; [rewrite (same_shape_slot_range L o o' SS); exact H1|].
  split; [rewrite Sw; exact H2|]. split.
  - intros b Hb. eapply ptr_valid_mext; [exact M|]. apply H3.
    eapply same_shape_is_slot; [apply same_shape_sym; exact SS|exact Hb].
  - intros b Hb. eapply ptr_valid_mext; [exact M|]. apply H4.
    eapply same_shape_is_save; [apply same_shape_sym; exact SS|exact Hb].
Qed.

Lemma entry_ok_mext h h' a p n : mext h h' -> entry_ok h a p n -> entry_ok h' a p n.
Proof.
  intros M (o & E & Hl & Hv). destruct (mext_find _ _ _ _ M E) as (o' & E' & (_ & Sw & _) & _).
  exists o'. split; [exact E'|]. rewrite Sw. split; [exact Hl|].
  intros i v Hi Hn. eapply ptr_valid_mext; [exact M|]. eapply Hv; eauto.
Qed.

Lemma SV_mext h h' stk : mext h h' -> SV h stk -> SV h' stk.
Proof. intros M HS a p n Hin. eapply entry_ok_mext; [exact M|]. apply HS; exact Hin. Qed.

Definition step_wf (L : layout) (step : heap -> mstack -> Z -> res state) : Prop :=
  forall h stk x, Wf L h -> SV h stk -> ptr_valid h x ->
    okres (step h stk x) /\
    (forall h' stk', step h stk x = Ok (h', stk') -> mext h h' /\ SV h' stk').

Lemma fold_wf L step : step_wf L step ->
  forall l h stk, Wf L h -> SV h stk -> (forall v, In v l -> ptr_valid h v) ->
    okres (fold_mark step l h stk) /\
    (forall h' stk', fold_mark step l h stk = Ok (h', stk') -> mext h h' /\ SV h' stk').
Proof.
  intros Hs. induction l as [|v l IH]; intros h stk W HS Hl; cbn [fold_mark].
  - split; [intros e H; discriminate|]. intros h' stk' H; inversion H; subst. split; [apply mext_refl|exact HS].
  - destruct (Hs h stk v W HS (Hl v (or_introl eq_refl))) as (S1 & S2).
    destruct (step h stk v) as [[h1 stk1]|e0] eqn:E.
    + destruct (S2 _ _ eq_refl) as (M1 & SV1).
      destruct (IH h1 stk1 (Wf_mext L _ _ M1 W) SV1) as (I1 & I2).
      { intros w Hw. eapply ptr_valid_mext; [exact M1|]. apply Hl. right; exact Hw. }
      split; [exact I1|]. intros h' stk' H. destruct (I2 _ _ H) as (M2 & SV2).
      split; [eapply mext_trans; eauto|exact SV2].
    + split; [intros e H; inversion H; subst; apply S1; reflexivity|intros ? ? H; discriminate].
Qed.

Lemma range_wf L step : step_wf L step ->
  forall n a p h stk, Wf L h -> SV h stk -> entry_ok h a p n ->
    okres (mark_range step h stk a p n) /\
    (forall h' stk', mark_range step h stk a p n = Ok (h', stk') -> mext h h' /\ SV h' stk').
Proof.
  intros Hs. induction n as [|n IH]; intros a p h stk W HS He; cbn [mark_range].
  - split; [intros e H; discriminate|]. intros h' stk' H; inversion H; subst. split; [apply mext_refl|exact HS].
  - destruct He as (o & Eo & Hlen & Hv). rewrite Eo.
    destruct (nth_error (words o) p) as [v|] eqn:Ev.
    2:{ apply nth_error_None in Ev. lia. }
    assert (Pv : ptr_valid h v) by (apply (Hv O v); [lia|rewrite Nat.add_0_r; exact Ev]).
    destruct (Hs h stk v W HS Pv) as (S1 & S2).
    destruct (step h stk v) as [[h1 stk1]|e0] eqn:E.
    + destruct (S2 _ _ eq_refl) as (M1 & SV1).
      assert (He1 : entry_ok h1 a (S p) n).
      { eapply entry_ok_mext; [exact M1|]. exists o. split; [exact Eo|]. split; [lia|].
        intros i w Hi Hn. apply (Hv (S i) w); [lia|]. rewrite Nat.add_succ_r. rewrite Nat.add_succ_l in Hn. exact Hn. }
      destruct (IH a (S p) h1 stk1 (Wf_mext L _ _ M1 W) SV1 He1) as (I1 & I2).
      split; [exact I1|]. intros h' stk' H. destruct (I2 _ _ H) as (M2 & SV2).
      split; [eapply mext_trans; eauto|exact SV2].
    + split; [intros e H; inversion H; subst; apply S1; reflexivity|intros ? ? H; discriminate].
Qed.

Lemma skip_marked_wf h ws p : forall n,
  (forall i, (i <= n)%nat -> exists v, nth_error ws (p + i) = Some v /\ ptr_valid h v) ->
  exists n1, skip_marked h ws p n = Ok n1.
Proof.
  induction n as [|n IH]; intros Hv; cbn [skip_marked]; [eexists; reflexivity|].
  destruct (Hv (S n) (le_n _)) as (v & Ev & Pv). rewrite Ev.
  assert (IH' : exists n1, skip_marked h ws p n = Ok n1) by (apply IH; intros i Hi; apply Hv; lia).
  destruct (is_imm v) eqn:Ei; [exact IH'|].
  destruct Pv as [Hi|(o & Eo)]; [congruence|]. rewrite Eo.
  destruct (marked o); [exact IH'|eexists; reflexivity].
Qed.

Lemma skip_dups_wf ws p : forall n,
  (forall i, (i <= n)%nat -> exists v, nth_error ws (p + i) = Some v) ->
  exists n2, skip_dups ws p n = Ok n2.
Proof.
  induction n as [|n IH]; intros Hv; cbn [skip_dups]; [eexists; reflexivity|].
  destruct (Hv (S n) (le_n _)) as (a & Ea). destruct (Hv n ltac:(lia)) as (b & Eb). rewrite Ea, Eb.
  destruct (a =? b); [apply IH; intros i Hi; apply Hv; lia|eexists; reflexivity].
Qed.

Lemma mark_one_wf L : forall fuel, step_wf L (mark_one fuel L).
Proof.
  induction fuel as [|f IH]; intros h stk x W HS Px.
  { split; [intros e H; cbn [mark_one] in H; inversion H; reflexivity|intros ? ? H; discriminate]. }
  assert (Hpost : forall h' stk', mark_one (S f) L h stk x = Ok (h', stk') -> mext h h').
  { intros h' stk' H. exact (proj1 (mark_one_post L _ _ _ _ _ _ H)). }
  cbn [mark_one] in *.
  destruct (is_imm x) eqn:Ei.
  { split; [intros e H; discriminate|]. intros h' stk' H; inversion H; subst. split; [apply mext_refl|exact HS]. }
  destruct Px as [Hi|(o & Ex)]; [congruence|]. rewrite Ex in *.
  destruct (marked o) eqn:Hm.
  { split; [intros e H; discriminate|]. intros h' stk' H; inversion H; subst. split; [apply mext_refl|exact HS]. }
  pose proof (mext_hmark _ _ _ Ex) as M1.
  destruct (W _ _ Ex) as (p & ns & Hsr & Hlen & Hslots & Hsaves).
  set (sv := if tag o =? context_tag L then saves o else []) in *.
  assert (Hsv : forall v, In v sv -> ptr_valid (hmark h x o) v).
  { intros v Hin. eapply ptr_valid_mext; [exact M1|]. apply Hsaves. unfold sv in Hin.
    destruct (tag o =? context_tag L) eqn:Et; [|destruct Hin]. apply Z.eqb_eq in Et. split; assumption. }
  destruct (fold_wf L _ IH sv _ stk (Wf_mext L _ _ M1 W) (SV_mext _ _ _ M1 HS) Hsv) as (F1 & F2).
  destruct (fold_mark (mark_one f L) sv (hmark h x o) stk) as [[h2 stk2]|e0] eqn:Ef.
  2:{ split; [intros e H; inversion H; subst; apply F1; reflexivity|intros ? ? H; discriminate]. }
  destruct (F2 _ _ eq_refl) as (M2 & SV2).
  assert (M02 : mext h h2) by (eapply mext_trans; eauto).
  rewrite Hsr in *.
  destruct ns as [|len].
  { split; [intros e H; discriminate|]. intros h' stk' H; inversion H; subst. split; [exact M02|exact SV2]. }
  assert (Hval : forall i, (i <= len)%nat -> exists v, nth_error (words o) (p + i) = Some v /\ ptr_valid h2 v).
  { intros i Hi. destruct (nth_error (words o) (p + i)) as [v|] eqn:Ev.
    - exists v. split; [reflexivity|]. eapply ptr_valid_mext; [exact M02|]. apply Hslots.
      exists p, (S len), i. repeat split; [exact Hsr|lia|exact Ev].
    - apply nth_error_None in Ev. lia. }
  destruct (skip_marked_wf h2 (words o) p len Hval) as (n1 & E1). rewrite E1 in *.
  destruct (skip_marked_spec _ _ _ _ _ E1) as (Hle1 & _).
  destruct (skip_dups_wf (words o) p n1) as (n2 & E2).
  { intros i Hi. destruct (Hval i ltac:(lia)) as (v & Ev & _). exists v; exact Ev. }
  rewrite E2 in *. destruct (skip_dups_spec _ _ _ _ E2) as (Hle2 & _).
  destruct (Hval n2 ltac:(lia)) as (y & Ey & Py). rewrite Ey in *.
  assert (Hx2 : exists o2, hfind h2 x = Some o2 /\ words o2 = words o).
  { destruct (mext_find _ _ _ _ M02 Ex) as (o2 & E2' & (_ & Sw & _) & _). exists o2. auto. }
  destruct Hx2 as (o2 & Ex2 & Hw2).
  assert (SV3 : SV h2 (match n2 with O => stk2 | S _ => (x, p, n2) :: stk2 end)).
  { destruct n2 as [|n2']; [exact SV2|]. intros a p' n' [Heq|Hin]; [|apply SV2; exact Hin].
    inversion Heq; subst a p' n'. exists o2. split; [exact Ex2|]. rewrite Hw2. split; [lia|].
    intros i v Hi Hn. destruct (Hval i ltac:(lia)) as (v' & Ev' & Pv'). congruence. }
  destruct (IH h2 _ y (Wf_mext L _ _ M02 W) SV3 Py) as (R1 & R2).
  split; [exact R1|]. intros h' stk' H. destruct (R2 _ _ H) as (M3 & SV').
  split; [eapply mext_trans; eauto|exact SV'].
Qed.

Lemma mark_loop_wf L fuel1 : forall fuel h stk, Wf L h -> SV h stk -> okres (mark_loop fuel fuel1 L h stk).
Proof.
  induction fuel as [|f IH]; intros h stk W HS; cbn [mark_loop].
  { intros e H; inversion H; reflexivity. }
  destruct stk as [|[[a p] n] stk1]; [intros e H; discriminate|].
  assert (S1 : SV h stk1) by (intros a' p' n' Hin; apply HS; right; exact Hin).
  destruct (range_wf L _ (mark_one_wf L fuel1) n a p h stk1 W S1 (HS a p n (or_introl eq_refl))) as (R1 & R2).
  destruct (mark_range (mark_one fuel1 L) h stk1 a p n) as [[h1 stk2]|e0] eqn:E.
  - destruct (R2 _ _ eq_refl) as (M1 & SV1). apply IH; [eapply Wf_mext; eauto|exact SV1].
  - intros e H; inversion H; subst; apply R1; reflexivity.
Qed.

Theorem mark_succeeds L h root : wf_heap L h root -> exists h', mark L h root = Ok h'.
Proof.
  intros (Proot & W).
  destruct (mark L h root) as [h'|e] eqn:E; [exists h'; reflexivity|exfalso].
  assert (e = OutOfFuel).
  { revert E. unfold mark, mark_start. set (n := PositiveMap.cardinal h).
    assert (S0 : SV h []) by (intros a p k []).
    destruct (mark_one_wf L (S n) h [] root W S0 Proot) as (S1 & S2).
    destruct (mark_one (S n) L h [] root) as [[h1 stk1]|e0] eqn:E1.
    - destruct (S2 _ _ eq_refl) as (M1 & SV1). intros H.
      apply (mark_loop_wf L (S n) (S (S n)) h1 stk1 (Wf_mext L _ _ M1 W) SV1 e H).
    - intros H; inversion H; subst. apply S1; reflexivity. }
  subst e. exact (mark_never_out_of_fuel L h root E).
Qed.

Example ex_wf : wf_heap exL exH 32 -> exists h', mark exL exH 32 = Ok h'.
Proof. apply mark_succeeds. Qed.

Lemma gc_total : forall L h root, wf_heap L h root -> all_unmarked h ->
  exists h', (gc L h root = Ok h') /\ (all_unmarked h') /\
    (forall a, reachable L h root a -> exists o, hfind h a = Some o /\ hfind h' a = Some o).
Proof.
  intros L h root W U. destruct (mark_succeeds L h root W) as (h1 & E).
  exists (sweep h1). assert (G : gc L h root = Ok (sweep h1)) by (unfold gc; rewrite E; reflexivity).
  split; [exact G|]. split; [exact (gc_all_unmarked L h root _ G)|exact (gc_keeps_reachable L h root _ U G)].
Qed.

(** ---- the executable well-formedness test the correspondence runs on every dump implies wf_heap ---- *)
Lemma ptr_ok_valid h v : ptr_ok h v = true -> ptr_valid h v.
Proof.
  unfold ptr_ok, ptr_valid. intros H. apply orb_true_iff in H. destruct H as [H|H]; [left; exact H|right].
  destruct (hfind h v) as [o|]; [exists o; reflexivity|discriminate].
Qed.

Lemma fold_andb_true {A : Type} (f : A -> bool) : forall l b,
  fold_left (fun a p => a && f p) l b = true -> b = true /\ forall p, In p l -> f p = true.
Proof.
  induction l as [|x l IH]; intros b H; cbn [fold_left] in H.
  - split; [exact H|intros p []].
  - destruct (IH _ H) as (Hb & Hl). apply andb_true_iff in Hb. destruct Hb as (Hb1 & Hb2).
    split; [exact Hb1|]. intros p [->|Hin]; [exact Hb2|apply Hl; exact Hin].
Qed.

Lemma nth_firstn_lt {A : Type} : forall (l : list A) n i, (i < n)%nat -> nth_error (firstn n l) i = nth_error l i.
Proof.
  induction l as [|x l IH]; intros n i Hi.
  - rewrite firstn_nil. reflexivity.
  - destruct n as [|n]; [lia|]. destruct i as [|i]; [reflexivity|]. cbn [firstn nth_error]. apply IH. lia.
Qed.

Lemma nth_skipn_add {A : Type} : forall p (l : list A) i, nth_error (skipn p l) i = nth_error l (p + i).
Proof.
  induction p as [|p IH]; intros l i; [reflexivity|].
  destruct l as [|x l]; [cbn [skipn]; destruct i; reflexivity|]. cbn [skipn Nat.add nth_error]. apply IH.
Qed.

Lemma obj_ok_wf L h o : obj_ok L h o = true -> wf_obj L h o.
Proof.
  unfold obj_ok. destruct (slot_range L o) as [[p ns]|] eqn:Es; [|discriminate].
  intros H. apply andb_true_iff in H. destruct H as (H12 & H3). apply andb_true_iff in H12. destruct H12 as (H1 & H2).
  apply Nat.leb_le in H1. exists p, ns. split; [exact Es|]. split; [exact H1|]. split.
  - intros b (p' & ns' & i & Hr & Hi & Hn). rewrite Es in Hr. inversion Hr; subst p' ns'.
    apply ptr_ok_valid. rewrite forallb_forall in H2. apply H2.
    apply nth_error_In with (n := i). rewrite (nth_firstn_lt _ _ _ Hi). rewrite nth_skipn_add. exact Hn.
  - intros b (Ht & Hin). rewrite Ht, Z.eqb_refl in H3. apply ptr_ok_valid. rewrite forallb_forall in H3. apply H3. exact Hin.
Qed.

Theorem heap_ok_wf L h root : heap_ok L h = true -> ptr_ok h root = true -> wf_heap L h root.
Proof.
  intros H Hr. split; [apply ptr_ok_valid; exact Hr|]. intros a o E.
  unfold heap_ok in H. rewrite PositiveMap.fold_1 in H.
  apply (fold_andb_true (fun p : PositiveMap.key * obj => obj_ok L h (snd p))) in H. destruct H as (_ & Hall).
  unfold hfind in E. destruct (a <=? 0); [discriminate|]. apply PositiveMap.elements_correct in E.
  apply obj_ok_wf. exact (Hall _ E).
Qed.

Example ex_wf_heap : wf_heap exL exH 32.
Proof. apply heap_ok_wf; vm_compute; reflexivity. Qed.

Example ex_gc_total : exists h', gc exL exH 32 = Ok h' /\ all_unmarked h'.
Proof. destruct (gc_total exL exH 32 ex_wf_heap ex_all_unmarked) as (h' & H1 & H2 & _). exists h'. auto. Qed.

(** the two trailing-slot skipping loops of sexp_mark_one drop no unmarked pointer: every slot above the
    one that is finally followed is an immediate, already marked, or equal to the followed slot *)
Lemma trailing_skip : forall h ws p len n1 n2,
  skip_marked h ws p len = Ok n1 -> skip_dups ws p n1 = Ok n2 ->
  (n2 <= n1 <= len)%nat /\
  forall i, (n2 < i <= len)%nat -> exists v, nth_error ws (p + i) = Some v /\
    (is_imm v = true \/ ismarked h v \/ nth_error ws (p + n2) = Some v).
Proof.
  intros h ws p len n1 n2 E1 E2.
  destruct (skip_marked_spec _ _ _ _ _ E1) as (H1 & A1). destruct (skip_dups_spec _ _ _ _ E2) as (H2 & A2).
  split; [lia|]. intros i Hi. destruct (Nat.lt_ge_cases n1 i) as [Hgt|Hle].
  - destruct (A1 i ltac:(lia)) as (v & Hv & Hc). exists v. split; [exact Hv|]. destruct Hc; auto.
  - destruct (A2 i ltac:(lia)) as (v & Hv & Hc). exists v. auto.
Qed.
