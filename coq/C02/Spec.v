(** C02 SPEC: reachability in the object graph, and the relations the theorems are stated with. *)
From ChibiV Require Export C02.Model.
Local Open Scope Z_scope.

(** b is one of the reference slots of o (as given by the type table) *)
Definition is_slot (L : layout) (o : obj) (b : Z) : Prop :=
  exists p ns i, slot_range L o = Some (p, ns) /\ (i < ns)%nat /\ nth_error (words o) (p + i) = Some b.

(** b is held in a C local registered with sexp_gc_preserve in context o *)
Definition is_save (L : layout) (o : obj) (b : Z) : Prop :=
  tag o = context_tag L /\ In b (saves o).

(** the object at a refers to the heap pointer b *)
Definition edge (L : layout) (h : heap) (a b : Z) : Prop :=
  is_imm b = false /\ exists o, hfind h a = Some o /\ (is_slot L o b \/ is_save L o b).

(** reachable from the root: reflexive transitive closure of [edge] *)
Inductive reachable (L : layout) (h : heap) (root : Z) : Z -> Prop :=
| reach_root : is_imm root = false -> reachable L h root root
| reach_step : forall a b, reachable L h root a -> edge L h a b -> reachable L h root b.

Definition ismarked (h : heap) (a : Z) : Prop := exists o, hfind h a = Some o /\ marked o = true.

(** state of the heap between collections: sweep clears every mark (gc.c:757) *)
Definition all_unmarked (h : heap) : Prop := forall a o, hfind h a = Some o -> marked o = false.

(** h' differs from h at most by mark bits that went from 0 to 1: same addresses, same tag, same
    words, same registered locals *)
Definition same_shape (o o' : obj) : Prop := tag o' = tag o /\ words o' = words o /\ saves o' = saves o.
Definition mext (h h' : heap) : Prop :=
  forall a, match hfind h a with
            | Some o => exists o', hfind h' a = Some o' /\ same_shape o o' /\ (marked o = true -> marked o' = true)
            | None => hfind h' a = None
            end.

(** the heap is closed: the root, every reference slot and every registered local is an immediate
    or designates an object; slot ranges lie inside the objects *)
Definition ptr_valid (h : heap) (v : Z) : Prop := is_imm v = true \/ exists o, hfind h v = Some o.
Definition wf_obj (L : layout) (h : heap) (o : obj) : Prop :=
  exists p ns, slot_range L o = Some (p, ns) /\ (p + ns <= length (words o))%nat /\
    (forall b, is_slot L o b -> ptr_valid h b) /\ (forall b, is_save L o b -> ptr_valid h b).
Definition wf_heap (L : layout) (h : heap) (root : Z) : Prop :=
  ptr_valid h root /\ forall a o, hfind h a = Some o -> wf_obj L h o.
