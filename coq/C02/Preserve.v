(** C02: the other half of the documented preservation interface, gc.c:116-129:

      void sexp_preserve_object(sexp ctx, sexp x) { G[PRESERVATIVES] = sexp_cons(ctx, x, G[PRESERVATIVES]); }
      void sexp_release_object(sexp ctx, sexp x) {
        for (ls1=NULL, ls2=G[PRESERVATIVES]; sexp_pairp(ls2); ls1=ls2, ls2=sexp_cdr(ls2))
          if (sexp_car(ls2) == x) { if (ls1) sexp_cdr(ls1) = sexp_cdr(ls2); else G[PRESERVATIVES] = sexp_cdr(ls2); break; }
      }

    The list hangs off the context's globals vector, so everything on it is reachable (C02.Model / mark).  Objects are
    compared by address (==): natural numbers here.  Executable model + its proofs are separated by the marker below;
    tied by running the extracted [run_ops] against the compiled functions (harness/embed_c02.c, mode gcmacros, lines P). *)
From Coq Require Import List Arith Bool.
Import ListNotations.

Definition preserve_obj (x : nat) (l : list nat) : list nat := x :: l.

(** the in-place unlink of the first cell whose car is x: ls1 = the cell before, [rev seen] its prefix *)
Fixpoint release_obj (x : nat) (l : list nat) : list nat :=
  match l with
  | [] => []
  | y :: r => if Nat.eqb y x then r else y :: release_obj x r
  end.

(** a sequence of calls: (true, x) = sexp_preserve_object(ctx, x), (false, x) = sexp_release_object(ctx, x) *)
Definition run_ops (ops : list (bool * nat)) (l : list nat) : list nat :=
  fold_left (fun (l : list nat) (op : bool * nat) => if fst op then preserve_obj (snd op) l else release_obj (snd op) l) ops l.
