(** C02 generated obligation: the sexp_gc_var<K> / sexp_gc_preserve<K> / sexp_gc_release<K> families of
    include/chibi/sexp.h, as expanded by the compiler's preprocessor from the tree under check
    (Gen/C02_GcMacros.v), register exactly their K distinct arguments in order and release exactly K. *)
From Coq Require Import List String Bool Arith.
From ChibiV Require Import C02.GcMacros C02.GcMacrosProofs Gen.C02_GcMacros.
Import ListNotations.

Lemma gc_macro_table_ok : forallb macro_okb gc_macro_table = true.
Proof. vm_compute. reflexivity. Qed.

(** arities 1..n, n >= 7 (the arities the tree uses; the use sites are checked by gen/c02_gcmacros.py) *)
Lemma gc_macro_table_arities :
  map arity gc_macro_table = seq 1 (List.length gc_macro_table) /\ (7 <=? List.length gc_macro_table)%nat = true.
Proof. vm_compute. split; reflexivity. Qed.

Lemma gc_macro_table_canonical : forallb macro_canonb gc_macro_table = true.
Proof. vm_compute. reflexivity. Qed.

Theorem gc_macros_spec : forall m, In m gc_macro_table -> macro_spec m.
Proof.
  intros m Hin. apply macro_okb_spec.
  exact (proj1 (forallb_forall macro_okb gc_macro_table) gc_macro_table_ok m Hin).
Qed.
