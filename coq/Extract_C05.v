From Coq Require Import ExtrOcamlBasic.
From ChibiV Require Import Common.ExtractBase C03.Defs C03.Model C05.Spec C05.Model C05.Depth.
Extraction "model.ml" ext_base annotate compile_toplevel calls_of bodies_calls tail_sites ensure_stack grow_stack deep_outcome session_z body_depth bodies_depth.
