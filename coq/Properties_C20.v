(** C20 — regular-expression matching agrees with SRFI 115: property theorems only. *)
From ChibiV Require Import C20.Re C20.Proofs C20.FoldIdem C20.SubsNest C20.CsNary.
From ChibiV Require Import C20.Nfa C20.NfaOrd C20.NfaSem C20.NfaCount C20.NfaBounded C20.NfaThompson C20.NfaRun C20.NfaMain C20.NfaSpan C20.NfaSubsDefs C20.NfaSubs C20.NfaSubsFinal C20.NfaAnyOrder C20.NfaAnyOrderSpan C20.NfaAnyOrderSubs.

(** the derivative of a core expression denotes the left quotient of its language *)
Theorem deriv_correct : forall r p c s n, LR (deriv p c r) (Some c) s n <-> LR r p (c :: s) n.
Proof. exact deriv_spec. Qed.
Print Assumptions deriv_correct.

(** expanding the SRE sugar (case flags, +, ?, bounded repeats, submatches) keeps the language *)
Theorem desugar_preserves_language : forall r ci p s n, L ci r p s n <-> LR (desugar ci r) p s n.
Proof. exact desugar_spec. Qed.
Print Assumptions desugar_preserves_language.

(** character-set membership, with the case flag, is decided by [cs_mem] *)
Theorem cset_member_iff : forall cs ci c, cs_mem ci cs c = true <-> cs_in ci cs c.
Proof. exact cs_mem_spec. Qed.
Print Assumptions cset_member_iff.

(** the n-ary spellings of a class -- (or A B ...) printed flat, ("...") and (/ lo hi ...) -- reach the model as a left-nested union
    (props/C20.py cs_bin); it denotes "member of some operand" *)
Theorem charclass_union_members : forall ci c ys x,
  cs_in ci (cs_union x ys) c <-> exists a, In a (x :: ys) /\ cs_in ci a c.
Proof. exact cs_union_in. Qed.
Print Assumptions charclass_union_members.

(** a case-sensitive class of single characters has exactly the listed characters as members, in whatever order they are inserted
    (what the charclass-tree stream demands of lib/chibi/iset, member by member and neighbour by neighbour) *)
Theorem charclass_chars_exact_members : forall c ds d, cs_in false (cs_chars c ds) d <-> In d (c :: ds).
Proof. exact cs_chars_members. Qed.
Print Assumptions charclass_chars_exact_members.

(** (/ lo hi lo1 hi1 ...) case-sensitively: inside one of the listed ranges *)
Theorem charclass_ranges_exact_members : forall lo hi rs d,
  cs_in false (cs_ranges lo hi rs) d <-> exists p, In p ((lo, hi) :: rs) /\ (fst p <= d /\ d <= snd p)%N.
Proof. exact cs_ranges_members. Qed.
Print Assumptions charclass_ranges_exact_members.

(** regexp-matches?: the verified matcher accepts exactly the strings of the SPEC language *)
Theorem matches_iff_in_language : forall r s, matchb r s = true <-> L false r None s None.
Proof. exact matchb_spec. Qed.
Print Assumptions matches_iff_in_language.

(** regexp-search: succeeds exactly when some substring, in its context, is in the language *)
Theorem search_iff_some_substring : forall r s, searchb r s = true <-> exists i j, in_lang false r s i j.
Proof. exact searchb_spec. Qed.
Print Assumptions search_iff_some_substring.

(** the span computed for a search is in the language, no match starts further left, and no match
    with the same start is longer (POSIX leftmost-longest); [None] only when nothing matches *)
Theorem search_span_is_leftmost_longest : forall r s,
  match search_span r s with
  | Some (i, j) => in_lang false r s i j /\
                   forall i' j', in_lang false r s i' j' -> (i < i')%nat \/ (i = i' /\ (j' <= j)%nat)
  | None => forall i j, ~ in_lang false r s i j
  end.
Proof. exact search_span_spec. Qed.
Print Assumptions search_span_is_leftmost_longest.

(** a set of reported spans accepted by [check_spans]: span 0 delimits text in the language of the
    whole SRE, there is one entry per submatch, every reported submatch span delimits text in the
    language of its own subexpression (under the case flag in force there) and lies inside the span
    of the nearest enclosing submatch that is not under a repetition *)
Theorem submatch_span_check_sound : forall r s spans, check_spans r s spans = true -> spans_valid r s spans.
Proof. exact check_spans_sound. Qed.
Print Assumptions submatch_span_check_sound.

(** ... and exact: it accepts every valid set of spans (so the check raises no alarm on valid reports) *)
Theorem submatch_span_check_complete : forall r s spans, spans_valid r s spans -> check_spans r s spans = true.
Proof. exact check_spans_complete. Qed.
Print Assumptions submatch_span_check_complete.

(** the enclosing submatch that [check_spans] requires submatch n+1 to lie in is the whole match or a submatch
    with a smaller number (the opening parenthesis of an enclosing submatch comes first) *)
Theorem submatch_nesting_outside_in : forall r n c body a,
  nth_error (subs false 0 false 1 r) n = Some (c, body, a) -> (a <= n)%nat.
Proof. exact subs_enclosing_earlier. Qed.
Print Assumptions submatch_nesting_outside_in.

(** regexp-fold: the model of the iteration always terminates within its fuel, every span it hands to kons
    delimits text in the language (in its true context inside the subject), and the first one is the
    leftmost-longest match of the whole subject *)
Theorem fold_spans_sound : forall r s,
  exists l, fold_spans r s = Some l /\
            Forall (fun ab => in_lang false r s (fst ab) (snd ab)) l /\
            (s <> [] -> hd_error l = search_span r s).
Proof. exact fold_spans_spec. Qed.
Print Assumptions fold_spans_sound.

(** sanity of the SPEC: an SRE without anchors denotes a plain language (the surrounding characters do not
    matter), and character comparison under w/nocase is equality of simple case foldings *)
Theorem anchor_free_language_ignores_context : forall r, anchor_free r = true ->
  forall ci p s n p' n', L ci r p s n -> L ci r p' s n'.
Proof. exact anchor_free_context_independent. Qed.
Print Assumptions anchor_free_language_ignores_context.

Theorem ci_fold_law : forall c d, (ci_eq true c d <-> fold c = fold d) /\ (ci_eq false c d <-> c = d).
Proof. intros c d. split; [apply ci_eq_fold|apply ci_eq_false]. Qed.
Print Assumptions ci_fold_law.

(** sre-expand-reps (the rewriting of (= n x), (>= n x) and the bounded repeat into copies / optional copies / a star
    before compilation), as mirrored by [expand_reps], has exactly the language "between from and to pieces" *)
Theorem expand_reps_language : forall P from p s n,
  (items_lang P (expand_reps from None) p s n <-> exists k, (from <= k)%nat /\ LPow P k p s n) /\
  (forall t, (from <= t)%nat ->
     (items_lang P (expand_reps from (Some t)) p s n <-> exists k, (from <= k /\ k <= t)%nat /\ LPow P k p s n)).
Proof. intros. split; [apply expand_reps_unbounded|intros; apply expand_reps_bounded; assumption]. Qed.
Print Assumptions expand_reps_language.

(** regexp-match>=? (the preference used when two searchers meet, and at the accept state), as mirrored by
    [match_ge]: total on well-formed vectors, and on the whole-match slots it prefers the leftmost start, then
    the longest end -- the shortest when that end slot is registered non-greedy *)
Theorem merge_preference_total : forall ng m1 m2 i, wf_vec m1 -> wf_vec m2 ->
  match_ge ng i m1 m2 = true \/ match_ge ng i m2 m1 = true.
Proof. exact match_ge_total. Qed.
Print Assumptions merge_preference_total.

Theorem merge_preference_leftmost_longest : forall ng s1 e1 s2 e2 r1 r2,
  (s1 <= e1)%nat -> (s2 <= e2)%nat -> (s1, e1) <> (s2, e2) ->
  (match_ge ng 0 (Some s1 :: Some e1 :: r1) (Some s2 :: Some e2 :: r2) = true <->
   (s1 < s2)%nat \/ (s1 = s2 /\ if existsb (Nat.eqb 1) ng then (e1 <= e2)%nat else (e2 <= e1)%nat)).
Proof. exact match_ge_leftmost_longest. Qed.
Print Assumptions merge_preference_leftmost_longest.

(** simple case folding is idempotent on all code points: [fold c] is the canonical representative of the
    case-insensitive class of [c] (so [ci_eq true c (fold c)]) *)
Theorem fold_idempotent : forall c, fold (fold c) = fold c.
Proof. exact fold_idem. Qed.
Print Assumptions fold_idempotent.

(* ------------------------------------------------------------------------------------------ *)
(** round 3: the NFA engine of regexp.scm inside the model (C20/Nfa.v: [compile_top] mirrors regexp / ->rx state by state,
    [run] mirrors regexp-run-offsets over regexp-advance! / posse-advance!; tied to the running code by comparing the state
    graphs and the posse after every character, props/C20.py stage "engine") *)

(** MAIN: regexp-matches? as computed by the modelled engine -- Thompson-style graph built by ->rx, simulated by a posse of
    searchers with match vectors merged by regexp-match>=? -- accepts exactly the strings of the SPEC language.  For every
    well-formed surface SRE ([wf_x]: bounded repeats have m <= n; a w/nocase inside an all-char-set alternation has one element) *)
Theorem nfa_accepts_iff_language : forall x s, wf_x x = true ->
  (nfa_matches x s = true <-> L false (to_sre false x) None s None).
Proof. exact nfa_accepts_iff_language_all. Qed.
Print Assumptions nfa_accepts_iff_language.

(** regexp-search by the modelled engine (start searcher injected at every position, early exit) succeeds exactly when some
    substring, in its context, is in the language *)
Theorem nfa_search_iff_substring : forall x s, wf_x x = true ->
  (nfa_search x s = true <-> exists i j, in_lang false (to_sre false x) s i j).
Proof. exact nfa_search_iff_substring_all. Qed.
Print Assumptions nfa_search_iff_substring.

(** the two halves.  Thompson correctness of the construction: the graph [compile_top x] has a path from the start state at 0
    to the accept state at the end of s exactly when s is in the language (anchors as guarded epsilon edges, (= n) (>= n) and
    bounded repeats through sre-expand-reps, all-char-set alternations as one state, w/nocase, w/nocapture) *)
Theorem nfa_graph_accepts_iff_language : forall x s, wf_x x = true ->
  (accepts_path (compile_top x) s <-> L false (to_sre false x) None s None).
Proof. exact compile_top_path_iff_language. Qed.
Print Assumptions nfa_graph_accepts_iff_language.

(** ... and the simulation finds an accept exactly when the graph has an accepting path: neither the merging of searchers that
    meet in a state, nor the "seen" set of the epsilon closure, nor the early exit loses a reachable state (any state table) *)
Theorem nfa_simulation_search_iff_path : forall N s, run_nfa true N s = true <-> finds_path N s.
Proof. exact run_search_iff_path. Qed.
Print Assumptions nfa_simulation_search_iff_path.

Theorem nfa_simulation_matches_iff_path : forall x s,
  run_nfa false (compile_top x) s = true <-> accepts_path (compile_top x) s.
Proof. exact run_matches_iff_path. Qed.
Print Assumptions nfa_simulation_matches_iff_path.

(** termination: the epsilon closure (posse-advance!) never runs out of the fuel 2 * states + 2, so the whole run is total *)
Theorem nfa_closure_fuel_suffices : forall N p n i atend whole sr new acc,
  adv (adv_fuel N) N p n i atend whole [sr] new [] acc <> None.
Proof. exact adv_fuel_suffices. Qed.
Print Assumptions nfa_closure_fuel_suffices.

Theorem nfa_run_total : forall search N s, run search N s <> None.
Proof. exact run_total. Qed.
Print Assumptions nfa_run_total.

(** the posse never holds two searchers for one state, only character states, hence at most as many searchers as states *)
Theorem nfa_posse_size_bounded : forall search N s s1 acc,
  loop search N s (length s) 0 [] None = Some (s1, acc) ->
  NoDup (keys s1) /\
  (forall q, In q (keys s1) -> exists st ci cs, nth_error (n_tb N) q = Some st /\ s_kind st = KChar ci cs) /\
  length s1 <= length (n_tb N).
Proof. exact posse_keys_bounded. Qed.
Print Assumptions nfa_posse_size_bounded.

(** rx-num-save-indexes of the compiled regexp is two slots per submatch the SPEC syntax counts, plus the whole match:
    the match vector has exactly one pair per [$] that [check_spans] expects (all SREs) *)
Theorem nfa_save_slots_match_submatch_count : forall x, n_nsave (compile_top x) = 2 * S (count_subs (to_sre false x)).
Proof. exact compile_top_nsave. Qed.
Print Assumptions nfa_save_slots_match_submatch_count.

(** the snapshot-keeping loop the tie compares step by step is the loop: its last snapshot is the loop's result *)
Theorem nfa_trace_ends_in_result : forall search N s k i s1 acc,
  match loop_tr search N s k i s1 acc, loop search N s k i s1 acc with
  | Some tr, Some (p, a) => tr <> [] /\ exists j, last tr (0, [], None) = (j, p, a)
  | None, None => True
  | _, _ => False
  end.
Proof. exact loop_tr_last. Qed.
Print Assumptions nfa_trace_ends_in_result.

(** every set of spans the modelled engine reports -- regexp-matches (b = false) or regexp-search (b = true) -- passes the exact
    validator [check_spans]: span 0 is in the language, one entry per submatch, every reported submatch span delimits text in
    the language of its own body (with its case flag, in its context) and lies inside the nearest enclosing non-repeated
    submatch (submatch_span_check_sound gives this reading).  For every wf SRE, every string: the merging of searchers, the
    non-greedy-left rule and stale spans of earlier loop iterations never produce an invalid span *)
Theorem nfa_submatch_spans_valid : forall x s b spans, wf_x x = true ->
  nfa_spans b x s = Some spans -> check_spans (to_sre false x) s spans = true.
Proof. exact NfaSubsFinal.nfa_submatch_spans_valid. Qed.
Print Assumptions nfa_submatch_spans_valid.

(** the vector the simulation returns is the trace (update_match folded over the states entered) of ONE accepting path of the
    graph: merging keeps one of two whole vectors, never mixes them (any state table) *)
Theorem nfa_vector_is_path_trace : forall b N s m, run b N s = Some (Some m) ->
  exists i0 l qa j,
    (b = true \/ i0 = 0) /\ (b = true \/ j = length s) /\ (i0 <= j)%nat /\ (j <= length s)%nat /\
    chain (n_tb N) s (n_start N, i0) l /\ last l (n_start N, i0) = (qa, j) /\ is_accept (n_tb N) qa /\
    m = trace (n_tb N) (repeat None (n_nsave N)) ((n_start N, i0) :: l).
Proof. exact run_vector_is_trace. Qed.
Print Assumptions nfa_vector_is_path_trace.

(** span 0 of both front ends is in the language; regexp-matches reports the whole string *)
Theorem nfa_span0_in_language : forall x s b m, wf_x x = true -> run b (compile_top x) s = Some (Some m) ->
  exists i j, getm m 0 = Some i /\ getm m 1 = Some j /\ in_lang false (to_sre false x) s i j /\
              (b = false -> i = 0 /\ j = length s).
Proof. exact nfa_span0_valid. Qed.
Print Assumptions nfa_span0_in_language.

(** the span regexp-search reports (slots 0 and 1 of the accept's vector after the posse simulation with merging by
    regexp-match>=? and the early exit) is the POSIX leftmost-longest one: in the language, no match starts further left, none
    with the same start is longer; no span only when nothing matches.  For every wf SRE whose whole-match end slot is not
    registered non-greedy ([ngs x = false]: the SRE does not END in a non-greedy operator; inner non-greedy operators are allowed) *)
Theorem nfa_search_span_leftmost_longest : forall x s, wf_x x = true -> ngs x = false ->
  match NfaSpan.span0 (nfa_spans true x s) with
  | Some (i, j) => in_lang false (to_sre false x) s i j /\
                   forall i' j', in_lang false (to_sre false x) s i' j' -> (i < i')%nat \/ (i = i' /\ (j' <= j)%nat)
  | None => forall i j, ~ in_lang false (to_sre false x) s i j
  end.
Proof. exact NfaSpan.nfa_search_span_leftmost_longest. Qed.
Print Assumptions nfa_search_span_leftmost_longest.

(* ------------------------------------------------------------------------------------------ *)
(** the same four theorems for EVERY order in which the posses are walked.  regexp-advance! walks searchers1 in hash-table
    order (regexp.scm:495 "non-deterministic from hash order") and the vectors kept can depend on it; [run_ord ords] is the run
    with the order of every step given by [ords] (any lists: absent, missing and repeated state ids allowed).  The tie replays
    the order observed in the running code through exactly this function ([nfa_replayed_trace_is_run_ord]). *)
Theorem nfa_accepts_iff_language_any_order : forall ords x s, wf_x x = true ->
  ((exists m, run_ord ords false (compile_top x) s = Some (Some m)) <-> L false (to_sre false x) None s None).
Proof. exact NfaAnyOrder.nfa_accepts_iff_language_any_order. Qed.
Print Assumptions nfa_accepts_iff_language_any_order.

Theorem nfa_search_iff_substring_any_order : forall ords x s, wf_x x = true ->
  ((exists m, run_ord ords true (compile_top x) s = Some (Some m)) <-> exists i j, in_lang false (to_sre false x) s i j).
Proof. exact NfaAnyOrder.nfa_search_iff_substring_any_order. Qed.
Print Assumptions nfa_search_iff_substring_any_order.

Theorem nfa_search_span_leftmost_longest_any_order : forall ords x s, wf_x x = true -> ngs x = false ->
  match NfaSpan.span0 (nfa_spans_ord ords true x s) with
  | Some (i, j) => in_lang false (to_sre false x) s i j /\
                   forall i' j', in_lang false (to_sre false x) s i' j' -> (i < i')%nat \/ (i = i' /\ (j' <= j)%nat)
  | None => forall i j, ~ in_lang false (to_sre false x) s i j
  end.
Proof. exact NfaAnyOrderSpan.nfa_search_span_leftmost_longest_any_order. Qed.
Print Assumptions nfa_search_span_leftmost_longest_any_order.

Theorem nfa_submatch_spans_valid_any_order : forall ords x s b spans, wf_x x = true ->
  nfa_spans_ord ords b x s = Some spans -> check_spans (to_sre false x) s spans = true.
Proof. exact NfaAnyOrderSubs.nfa_submatch_spans_valid_any_order. Qed.
Print Assumptions nfa_submatch_spans_valid_any_order.

Theorem nfa_run_any_order_total : forall ords search N s, run_ord ords search N s <> None.
Proof. exact run_ord_total. Qed.
Print Assumptions nfa_run_any_order_total.

(** what the tie replays and compares step by step ([loop_tr_ord] with the observed orders, its result by [result_of]) is [run_ord] *)
Theorem nfa_replayed_trace_is_run_ord : forall ords search N s,
  option_map (result_of search s) (loop_tr_ord ords search N s (length s) 0 [] None) = run_ord ords search N s.
Proof. exact loop_tr_ord_result. Qed.
Print Assumptions nfa_replayed_trace_is_run_ord.

(** independent cross-check by computation (C20/NfaBounded.v): on 870 SREs (every SRE of depth <= 1 over 15 atoms, 15 unary and
    2 binary forms, and the family "loop around a submatch around an operator") x 44 strings (all of length <= 3 over
    {a, b, newline}, 4 with upper-case letters) the modelled engine and the derivative oracle give the same booleans, the
    engine's spans pass check_spans, and for SREs without non-greedy operators span 0 = search_span *)
Theorem nfa_engine_agrees_with_oracle_small_domain :
  forallb (fun x => forallb (check_one x) small_strings) small_xsres = true.
Proof. exact small_domain_checked. Qed.
Print Assumptions nfa_engine_agrees_with_oracle_small_domain.
