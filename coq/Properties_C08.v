(** C08 — external representations round-trip: property theorems only. *)
From Coq Require Import ZArith List Bool.
From ChibiV Require Import C08.Datum C08.Tables Gen.C08_Tables Gen.C08_Leaf C08.Write C08.Read C08.Proofs C08.Proofs2 C08.Labels C08.LabelProofs
  C08.Model3 C08.Model4 Gen.C08_Lib38 C08.Lib38Proofs C08.FloSpec C08.CharProofs C08.CompoundProofs C08.FloProofs C08.LabelVecProofs C08.Numbers C08.NumberProofs C08.InjProofs C08.SRead C08.SReadProofs C08.SReadChar C08.SReadCharProofs.
Import ListNotations.
Local Open Scope Z_scope.

(* the static tables of sexp.c, as regenerated on this run, are the ones the proofs were made for *)
Theorem tables_regenerated : sexp_separators = ref_separators /\ sexp_char_names = ref_char_names.
Proof. exact tables_regenerated_ok. Qed.
Print Assumptions tables_regenerated.

(* every byte string written as a string literal reads back as the same bytes, whatever follows *)
Theorem string_roundtrip : forall dec2flo f bs rest, bytes bs ->
  read_raw dec2flo (S f) (write_string bs ++ rest) = Ok (TDatum (Str bs)) rest.
Proof. exact string_roundtrip_ok. Qed.
Print Assumptions string_roundtrip.

(* sexp_decode_utf8_char (regenerated from sexp.c) inverts sexp_utf8_encode_char on every code point
   that takes 2, 3 or 4 bytes — the path of a raw #\<char> literal in the native reader (F-C08-3) *)
Theorem utf8_char_literal_decode : forall c, 128 <= c <= 1114111 -> decode_bytes (utf8_encode c) = c.
Proof. exact decode_encode_ok. Qed.
Print Assumptions utf8_char_literal_decode.

(* every byte string, written as a symbol by sexp_write_one (quoting conditions regenerated from
   sexp.c), reads back as the same symbol when followed by end of input or a separator.  On the
   pinned code this failed for ".5", "`a", "+Inf.0" (F-C08-1, repaired by fixes/C08-symbol-quoting) *)
Theorem symbol_roundtrip : forall dec2flo f bs rest, bytes bs -> at_delim rest = true ->
  read_raw dec2flo (S f) (write_symbol bs ++ rest) = Ok (TDatum (Sym bs)) rest.
Proof. exact symbol_roundtrip_ok. Qed.
Print Assumptions symbol_roundtrip.

(* every exact integer (any magnitude), written in decimal, reads back as itself when followed by end
   of input or a separator (fixnum/bignum accumulation abstracted to Z; bignum.c is C04's subject) *)
Theorem integer_roundtrip : forall dec2flo f z rest, at_delim rest = true ->
  read_raw dec2flo (S f) (write_int z ++ rest) = Ok (TDatum (Int z)) rest.
Proof. exact integer_roundtrip_ok. Qed.
Print Assumptions integer_roundtrip.

(* every symbol that sexp_intern (conditions regenerated from sexp.c) can turn into an immediate
   (huffman) symbol — which sexp_write_one writes raw, bypassing the quoting predicate — is written
   as the same raw bytes by the lsymbol arm, so symbol_roundtrip covers immediate symbols too.
   On the pinned code "`a" was such a symbol (second half of F-C08-1). *)
Theorem isymbol_text_same : forall bs, bytes bs -> may_be_immediate bs -> write_symbol bs = bs.
Proof. exact isymbol_text_same_ok. Qed.
Print Assumptions isymbol_text_same.

(* datum labels: every graph in the form the shared-structure writer (lib/srfi/38.scm) emits - labels
   0,1,2,... in the order of the walk, ANY number of them, references to open and to closed labels,
   labelled list tails - is rebuilt by the model of the native reader's #n= / #n# arm, whose label
   table is the C's (24 slots, last slot = highest label, doubled when n+1 >= length by copying
   length-1 slots and carrying the last one over), followed by sexp_fill_reader_labels.
   Token level; vector-free graphs (the "#(" arm is the same list loop + list->vector; (K) runs). *)
Theorem label_roundtrip : forall t c', novec t = true -> wf 0 t = Some c' ->
  read_labels (wr t) = LOk (g2l t, []).
Proof. exact label_roundtrip_ok. Qed.
Print Assumptions label_roundtrip.

(* ---- round 3 ---- *)

(* characters at reader level, both writers: for every code point c <= U+10FFFF (all scalar values), the
   text of sexp_write_one's character arm (names of the regenerated table, printable ASCII, x + 2/4/6 hex
   digits) and the text (scheme write) emits (names of lib/srfi/38.scm's own table, else the raw character:
   control characters raw, UTF-8 for non-ASCII, decoded by the regenerated sexp_decode_utf8_char), followed
   by ANY continuation that starts with a delimiter, reads back as Chr c and leaves the continuation *)
Theorem char_roundtrip : forall dec2flo f c rest, 0 <= c <= 1114111 -> at_delim rest = true ->
  read_raw dec2flo (S f) (write_char c ++ rest) = Ok (TDatum (Chr c)) rest /\
  read_raw dec2flo (S f) (swrite_char c ++ rest) = Ok (TDatum (Chr c)) rest.
Proof. exact char_roundtrip_ok. Qed.
Print Assumptions char_roundtrip.

(* the compound datum theorem, by structural induction: every datum built from integers, characters,
   strings, symbols, booleans, () with pairs (proper and dotted lists), vectors and bytevectors - no
   flonum leaves (wfd0: bytes are bytes, characters are code points) - written by the model of
   sexp_write_one and followed by a delimiter or the end of input, is read back by the model of
   sexp_read_raw as the same datum, leaving the continuation.  Visible premise on the reader's fuel:
   height d + 2 <= f (height = height as a binary tree of pairs; a vector costs 2 + its length). *)
Theorem list_vector_bytes_roundtrip : forall fmt_g scan_g dec2flo d f rest,
  wfd0 d -> (height d + 2 <= f)%nat -> at_delim rest = true ->
  read_raw dec2flo f (write fmt_g scan_g d ++ rest) = Ok (TDatum d) rest.
Proof. exact list_vector_bytes_roundtrip_ok. Qed.
Print Assumptions list_vector_bytes_roundtrip.

(* flonums, given libc: under the explicit hypotheses libc_flonum (C08/FloProofs.v: shape of printf
   "%.{15,16,17}lg" output, sscanf "%lg" = strtod on it, strtod of "-"u = -strtod u >= 0 for unsigned u,
   strtod is a function of the denoted decimal number, strtod (printf "%.17lg" x) = x, "%.0f" of the integer
   part converts back) the writer's try-15/16/17 selection and ".0" patching composed with the reader's
   tokenizer and its strtod path (dec2flo_strtod, fix 2a27451) is the identity on the bit pattern of every
   double; every NaN (any sign, any payload) comes back as 0x7FF8000000000000 (flo_canon) *)
Theorem flonum_roundtrip_given : forall fmt_g scan_g strtod fmt_0f i2d old_arith,
  libc_flonum fmt_g scan_g strtod fmt_0f i2d ->
  forall b f rest, 0 <= b < TWO64 -> at_delim rest = true ->
  read_raw (dec2flo_strtod strtod fmt_0f i2d old_arith) (S f) (write_flo fmt_g scan_g b ++ rest) =
  Ok (TDatum (Flo (flo_canon b))) rest.
Proof. exact flonum_roundtrip_given_ok. Qed.
Print Assumptions flonum_roundtrip_given.

(* the compound theorem with flonum leaves (any double that is not a NaN), under the same hypotheses *)
Theorem datum_roundtrip_flonums : forall fmt_g scan_g strtod fmt_0f i2d old_arith,
  libc_flonum fmt_g scan_g strtod fmt_0f i2d ->
  forall d f rest, wfd flo_leaf_ok d -> (height d + 2 <= f)%nat -> at_delim rest = true ->
  read_raw (dec2flo_strtod strtod fmt_0f i2d old_arith) f (write fmt_g scan_g d ++ rest) = Ok (TDatum d) rest.
Proof. exact datum_roundtrip_flonums_ok. Qed.
Print Assumptions datum_roundtrip_flonums.

(* datum labels, graphs WITH vectors: label_roundtrip without the novec premise (labelled vectors, vectors
   nested in vectors, references to open and closed labels from inside vectors, vectors as dotted tails) *)
Theorem label_roundtrip_vec : forall t c', wf 0 t = Some c' -> read_labels (wr t) = LOk (g2l t, []).
Proof. exact label_roundtrip_vec_ok. Qed.
Print Assumptions label_roundtrip_vec.

(* exact rationals at token level (C08/Numbers.v: the '/' arm of sexp_read_number with sexp_ratio_normalize's
   Euclid loop, the '+'/'-' arm's negation; fixnum/bignum split abstracted to Z as in integer_roundtrip):
   n/d in lowest terms, d > 1, any sign of n, written as <n>/<d> and followed by a delimiter, reads back *)
Theorem ratio_roundtrip : forall f n d rest,
  1 < d -> Z.gcd n d = 1 -> at_delim rest = true -> (2 <= f)%nat ->
  read_num_token f (write_xnum (XReal (ERat n d)) ++ rest) = NOk (XReal (ERat n d)) rest.
Proof. exact ratio_roundtrip_ok. Qed.
Print Assumptions ratio_roundtrip.

(* exact complex numbers at token level (sexp_write_one's SEXP_COMPLEX arm; sexp_read_complex_tail, the
   right-nested recursion sexp_read_number -> complex tail -> sexp_read_number, the negation of the real part
   in the '-' arm): parts integers or ratios in lowest terms, imaginary part not exact 0; covers a+bi, a-bi,
   a+i, a-i, 0+bi, 1/2-3/4i, negative real parts; polar notation excluded *)
Theorem exact_complex_roundtrip : forall f re im rest,
  wf_enum re -> wf_enum im -> im <> EInt 0 -> at_delim rest = true -> (4 <= f)%nat ->
  read_num_token f (write_xnum (XCpx re im) ++ rest) = NOk (XCpx re im) rest.
Proof. exact complex_roundtrip_ok. Qed.
Print Assumptions exact_complex_roundtrip.

(* ---- round 4 ---- *)

(* the hand-written copies inside the model of the library writer's character-name table (lib/srfi/38.scm
   escaped-chars) and of the constants of sexp_read_float_tail's strtod path (SEXP_FLOAT_DIGITS_LEN, the
   bound of |exponent|) are what gen/c08_lib38.py regenerated from the checked tree on this run: the model
   functions swrite_char and dec2flo_strtod, unfolded, are stated over the regenerated values *)
Theorem lib38_regenerated :
  escaped_chars_38_gen = ref_escaped_chars_38 /\
  float_digits_len_gen = ref_float_digits_len /\
  (forall strtod fmt_0f i2d old_arith whole fr e,
     dec2flo_strtod strtod fmt_0f i2d old_arith whole fr e =
     let w := fmt_0f (i2d whole) in
     if (Z.of_nat (length w + length fr) <? float_digits_len_gen) && (Z.abs e <? float_exp_bound_gen)
     then strtod (w ++ fr ++ 101 :: write_int (e - Z.of_nat (length fr)))
     else old_arith whole fr e) /\
  (forall c, swrite_char c =
     35 :: 92 :: match find (fun p => fst p =? c) escaped_chars_38_gen with
                 | Some p => snd p
                 | None => utf8_encode c
                 end).
Proof. exact lib38_regenerated_ok. Qed.
Print Assumptions lib38_regenerated.

(* the library pair's writer: the text (scheme write) emits for a tree - lib/srfi/38.scm wr-one: its own
   pair loop (" " between elements, " . " before a non-list tail), its own vector loop, its own character arm
   (swrite_char), "()" "#t" "#f", everything else through the native writer - followed by a delimiter or the end
   of input, is read back by the model of sexp_read_raw as the same datum (scheme-write -> native-read for all
   compound data without flonum leaves).  Same visible fuel premise as list_vector_bytes_roundtrip. *)
Theorem scheme_write_roundtrip : forall fmt_g scan_g dec2flo d f rest,
  wfd0 d -> (height d + 2 <= f)%nat -> at_delim rest = true ->
  read_raw dec2flo f (swrite fmt_g scan_g d ++ rest) = Ok (TDatum d) rest.
Proof. exact scheme_write_roundtrip_ok. Qed.
Print Assumptions scheme_write_roundtrip.

(* the same with flonum leaves (any double that is not a NaN), under the libc hypotheses of theorem 10 *)
Theorem scheme_write_roundtrip_flonums : forall fmt_g scan_g strtod fmt_0f i2d old_arith,
  libc_flonum fmt_g scan_g strtod fmt_0f i2d ->
  forall d f rest, wfd flo_leaf_ok d -> (height d + 2 <= f)%nat -> at_delim rest = true ->
  read_raw (dec2flo_strtod strtod fmt_0f i2d old_arith) f (swrite fmt_g scan_g d ++ rest) = Ok (TDatum d) rest.
Proof. exact scheme_write_roundtrip_flonums_ok. Qed.
Print Assumptions scheme_write_roundtrip_flonums.

(* the two writers print the SAME text for every datum (flonum leaves included, any libc) none of whose
   character leaves has two different texts; printable ASCII and the named characters have one text
   (CompoundProofs.same_char_text_ascii), so the texts differ only below unnamed control characters and
   from U+0080 up (x-hex against raw UTF-8) *)
Theorem writers_agree : forall fmt_g scan_g d, same_char_text d = true ->
  swrite fmt_g scan_g d = write fmt_g scan_g d.
Proof. exact writers_agree_ok. Qed.
Print Assumptions writers_agree.

(* the text determines the datum: two data without flonum leaves that are written as the same text - by the same
   writer, or one by sexp_write_one (text_of false) and the other by (scheme write) (text_of true) - are the same
   datum: the writers never print two different data alike *)
Theorem texts_determine_datum : forall fmt_g scan_g l1 l2 d1 d2, wfd0 d1 -> wfd0 d2 ->
  text_of l1 fmt_g scan_g d1 = text_of l2 fmt_g scan_g d2 -> d1 = d2.
Proof. exact texts_determine_datum_ok. Qed.
Print Assumptions texts_determine_datum.

(* the same with flonum leaves (not NaN) under the libc hypotheses: two different doubles never share a text *)
Theorem texts_determine_datum_flonums :
  forall fmt_g scan_g strtod fmt_0f i2d, libc_flonum fmt_g scan_g strtod fmt_0f i2d ->
  forall l1 l2 d1 d2, wfd flo_leaf_ok d1 -> wfd flo_leaf_ok d2 ->
  text_of l1 fmt_g scan_g d1 = text_of l2 fmt_g scan_g d2 -> d1 = d2.
Proof. exact texts_determine_datum_flonums_ok. Qed.
Print Assumptions texts_determine_datum_flonums.

(* the library reader's own string / |symbol| arm (C08/SRead.v: lib/srfi/38.scm read-delimited, read-escape-sequence,
   read-number 16 for \x..;) and the native reader read every string text, and every barred symbol text, that the writers
   emit (both writers print strings and symbols through sexp_write_one) as the same datum.  Partial: the library works on
   characters; the model passes bytes >= 0x80 through unchanged, which is decoding + re-encoding on valid UTF-8 (C12) *)
Theorem readers_agree_quoted_partial : forall dec2flo f bs rest, bytes bs ->
  (sread_quoted (write_string bs ++ rest) = Ok (TDatum (Str bs)) rest /\
   read_raw dec2flo (S f) (write_string bs ++ rest) = Ok (TDatum (Str bs)) rest) /\
  (sym_needs_bars bs = true -> at_delim rest = true ->
   sread_quoted (write_symbol bs ++ rest) = Ok (TDatum (Sym bs)) rest /\
   read_raw dec2flo (S f) (write_symbol bs ++ rest) = Ok (TDatum (Sym bs)) rest).
Proof. exact readers_agree_quoted_ok. Qed.
Print Assumptions readers_agree_quoted_partial.

(* the library reader's tables `delimiters` and `named-chars` (lib/srfi/38.scm), as regenerated on this run, are the
   ones the model of its character arm (C08/SReadChar.v) uses *)
Theorem lib38_reader_tables : delimiters_38_gen = delimiters_38 /\ named_chars_38_gen = named_chars_38.
Proof. exact lib38_reader_tables_ok. Qed.
Print Assumptions lib38_reader_tables.

(* native-write -> scheme-read for characters: the library reader's character arm (lib/srfi/38.scm read-hash #\\ case,
   read-named-char, read-name, its own delimiters and named-chars tables, string->number in base 16 for #\\x..) reads the
   text sexp_write_one emits for EVERY Unicode scalar value (names of the regenerated sexp_char_names, printable ASCII,
   x + 2/4/6 hex digits), followed by the end of input or one of the library's delimiters, as that character.
   (The text (scheme write) emits for a non-ASCII character is the raw character: the port's UTF-8 decoder, C12.) *)
Theorem scheme_read_char : forall c rest, 0 <= c <= 1114111 -> ~ (55296 <= c <= 57343) ->
  lib_delim_start rest = true ->
  sread_atom (write_char c ++ rest) = Ok (TDatum (Chr c)) rest.
Proof. exact scheme_read_char_ok. Qed.
Print Assumptions scheme_read_char.
