(** C08 — external representations round-trip: property theorems only. *)
From Coq Require Import ZArith List.
From ChibiV Require Import C08.Datum C08.Tables Gen.C08_Tables Gen.C08_Leaf C08.Write C08.Read C08.Proofs C08.Proofs2 C08.Labels C08.LabelProofs.
Import ListNotations.
Local Open Scope Z_scope.

(* the static tables of sexp.c, as regenerated on this run, are the ones the proofs were made for *)
Theorem tables_regenerated : sexp_separators = ref_separators /\ sexp_char_names = ref_char_names.
Proof. exact tables_regenerated_ok. Qed.
Print Assumptions tables_regenerated.

(* every byte string written as a string literal reads back as the same bytes, whatever follows *)
Theorem string_roundtrip : forall dec2flo f bs rest, bytes bs ->
  read_raw dec2flo (S f) (write_string bs ++ rest) = Ok (TDatum (Str bs)) rest.
Proof. exact string_roundtrip_ok. Qed.
Print Assumptions string_roundtrip.

(* sexp_decode_utf8_char (regenerated from sexp.c) inverts sexp_utf8_encode_char on every code point
   that takes 2, 3 or 4 bytes — the path of a raw #\<char> literal in the native reader (F-C08-3) *)
Theorem utf8_char_literal_decode : forall c, 128 <= c <= 1114111 -> decode_bytes (utf8_encode c) = c.
Proof. exact decode_encode_ok. Qed.
Print Assumptions utf8_char_literal_decode.

(* every byte string, written as a symbol by sexp_write_one (quoting conditions regenerated from
   sexp.c), reads back as the same symbol when followed by end of input or a separator.  On the
   pinned code this failed for ".5", "`a", "+Inf.0" (F-C08-1, repaired by fixes/C08-symbol-quoting) *)
Theorem symbol_roundtrip : forall dec2flo f bs rest, bytes bs -> at_delim rest = true ->
  read_raw dec2flo (S f) (write_symbol bs ++ rest) = Ok (TDatum (Sym bs)) rest.
Proof. exact symbol_roundtrip_ok. Qed.
Print Assumptions symbol_roundtrip.

(* every exact integer (any magnitude), written in decimal, reads back as itself when followed by end
   of input or a separator (fixnum/bignum accumulation abstracted to Z; bignum.c is C04's subject) *)
Theorem integer_roundtrip : forall dec2flo f z rest, at_delim rest = true ->
  read_raw dec2flo (S f) (write_int z ++ rest) = Ok (TDatum (Int z)) rest.
Proof. exact integer_roundtrip_ok. Qed.
Print Assumptions integer_roundtrip.

(* every symbol that sexp_intern (conditions regenerated from sexp.c) can turn into an immediate
   (huffman) symbol — which sexp_write_one writes raw, bypassing the quoting predicate — is written
   as the same raw bytes by the lsymbol arm, so symbol_roundtrip covers immediate symbols too.
   On the pinned code "`a" was such a symbol (second half of F-C08-1). *)
Theorem isymbol_text_same : forall bs, bytes bs -> may_be_immediate bs -> write_symbol bs = bs.
Proof. exact isymbol_text_same_ok. Qed.
Print Assumptions isymbol_text_same.

(* datum labels: every graph in the form the shared-structure writer (lib/srfi/38.scm) emits - labels
   0,1,2,... in the order of the walk, ANY number of them, references to open and to closed labels,
   labelled list tails - is rebuilt by the model of the native reader's #n= / #n# arm, whose label
   table is the C's (24 slots, last slot = highest label, doubled when n+1 >= length by copying
   length-1 slots and carrying the last one over), followed by sexp_fill_reader_labels.
   Token level; vector-free graphs (the "#(" arm is the same list loop + list->vector; (K) runs). *)
Theorem label_roundtrip : forall t c', novec t = true -> wf 0 t = Some c' ->
  read_labels (wr t) = LOk (g2l t, []).
Proof. exact label_roundtrip_ok. Qed.
Print Assumptions label_roundtrip.
