From Coq Require Import ExtrOcamlBasic.
From ChibiV Require Import Common.ExtractBase C18.Spec C18.Model C18.Oracle C18.SpecCont C18.ISet C18.Deque C18.RaList C18.RBDefs C18.RBTree C18.LQueue C18.ISetInter.
Extraction "model.ml" ext_base spec_sort spec_merge spec_sorted spec_select spec_dedup
  model_sort_less model_sort_basic model_merge95 model_vmerge132 model_scratch_less
  set_mem set_adjoin set_delete set_union set_of_list set_inter set_diff set_xor set_subset set_equal set_disjoint
  set_filter_mod set_remove_mod set_map_half zsum
  bag_count bag_incr bag_size bag_union bag_inter bag_sum bag_diff bag_of_list
  map_ref map_set map_has map_delete map_adjoin map_replace map_bump map_union map_inter map_diff map_xor map_filter_mod map_range_lt map_range_le map_range_gt map_range_ge
  seq_set seq_take_right seq_drop_right seq_index_mod seq_delete_dups seq_delete seq_count_mod seq_cumulate
  seq_take_while_mod seq_drop_while_mod seq_skip_mod seq_index_right_mod seq_sub seq_reverse_range seq_fill_range
  seq_swap seq_iota seq_partition_mod seq_remove_front seq_remove_back seq_back seq_add_back seq_take seq_drop
  contains adjoin1 adjoin_list delete1 union2 make_iset0 to_list iset_size is_empty
  seq_append_reverse seq_map1 seq_filter_mod seq_remove_mod seq_any_mod seq_every_mod seq_equal
  dq_empty dq_check dq_to_list dq_of_list dq_tabulate dq_is_empty dq_add_front dq_front dq_remove_front dq_add_back dq_back dq_remove_back
  dq_reverse dq_length dq_ref dq_take dq_take_right dq_drop dq_drop_right dq_split_at dq_append_all dq_append dq_count dq_zip2 dq_map
  dq_filter_map dq_fold dq_fold_right dq_for_each_order dq_for_each_right_order dq_append_map dq_filter dq_remove dq_partition dq_find
  dq_find_right dq_take_while dq_take_while_right dq_drop_while dq_drop_while_right dq_span dq_break dq_any dq_every dq_drain dq_equal
  span_list break_list filter_map_list remove_list count_list list_eq take_right_list
  ra_cons ra_car_cdr ra_car ra_cdr ra_list_ref ra_list_ref_update ra_list_set ra_of_list ra_largest_skew_binary ra_make_list ra_length
  ra_to_list ra_flat ra_append ra_reverse ra_list_tail ra_map ra_map2 ra_map3 ra_for_each2 ra_equal ra_sizes
  make_tree mapping_set mapping_adjoin mapping_replace mapping_delete mapping_delete_all mapping_update mapping_union mapping_intersection
  mapping_difference mapping_xor mapping_filter mapping_ref mapping_contains mapping_size mapping_keys mapping_empty mapping_to_alist tree_fold
  lqs_init lqs_run intersection2 difference2.
