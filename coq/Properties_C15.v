(** C15 — equal?/eqv?/hash coherence; hash tables are finite maps: property theorems only. *)
From Coq Require Import List ZArith Bool.
From ChibiV Require Import Common.Words Gen.C15_Consts C15.Table C15.TableProofs C15.Obj C15.ObjProofs C15.ObjEqual C15.Graph Gen.C15_Equiv C15.Combined.
From ChibiV Require C15.GraphProofs C15.GraphSpec C15.ObjSound C15.DefaultHash C15.DefaultHashProofs Gen.C15_OptHash.
From ChibiV Require C15.Table2 C15.Table2Proofs C15.Run C15.RunProofs C15.Chain C15.ChainProofs.
Import ListNotations.
Local Open Scope Z_scope.

(** Any history of hash-table-set! / hash-table-delete! / hash-table-copy (with every regrow the
    resize rule triggers), for ANY equivalence and ANY hash function that respects it: each lookup
    of the table returns exactly the cell the association-list map returns. *)
Theorem table_refines_map : forall (K V : Type) (hashf : K -> nat -> nat) (eqf : K -> K -> bool),
  (forall a, eqf a a = true) -> (forall a b, eqf a b = true -> eqf b a = true) ->
  (forall a b c, eqf a b = true -> eqf b c = true -> eqf a c = true) ->
  (forall a b n, eqf a b = true -> hashf a n = hashf b n) ->
  forall (ops : list (@op K V)) (k : K),
    tref hashf eqf (run_table hashf eqf ops) k = mref eqf (run_map eqf ops) k.
Proof. exact @TableProofs.table_refines_map. Qed.
Print Assumptions table_refines_map.

(** The size slot is the number of cells in the buckets and the number of keys of the map. *)
Theorem size_is_cardinality : forall (K V : Type) (hashf : K -> nat -> nat) (eqf : K -> K -> bool),
  (forall a, eqf a a = true) -> (forall a b, eqf a b = true -> eqf b a = true) ->
  (forall a b c, eqf a b = true -> eqf b c = true -> eqf a c = true) ->
  (forall a b n, eqf a b = true -> hashf a n = hashf b n) ->
  forall (ops : list (@op K V)),
    tsize (run_table hashf eqf ops) = Z.of_nat (length (concat (buckets (run_table hashf eqf ops)))) /\
    tsize (run_table hashf eqf ops) = Z.of_nat (length (run_map eqf ops)).
Proof. exact @TableProofs.size_is_cardinality. Qed.
Print Assumptions size_is_cardinality.

(** No two cells of the whole table carry equivalent keys, and every cell is in the bucket its
    key hashes to under the current bucket count. *)
Theorem no_duplicate_keys : forall (K V : Type) (hashf : K -> nat -> nat) (eqf : K -> K -> bool),
  (forall a, eqf a a = true) -> (forall a b, eqf a b = true -> eqf b a = true) ->
  (forall a b c, eqf a b = true -> eqf b c = true -> eqf a c = true) ->
  (forall a b n, eqf a b = true -> hashf a n = hashf b n) ->
  forall (ops : list (@op K V)) (k : K),
    (cnt eqf k (concat (buckets (run_table hashf eqf ops))) <= 1)%nat /\
    placed hashf (buckets (run_table hashf eqf ops)).
Proof. exact @TableProofs.no_duplicate_keys. Qed.
Print Assumptions no_duplicate_keys.

(** sexp_regrow_hash_table doubles the bucket vector and keeps every lookup and the invariant. *)
Theorem regrow_preserves_contents : forall (K V : Type) (hashf : K -> nat -> nat) (eqf : K -> K -> bool),
  (forall a b n, eqf a b = true -> hashf a n = hashf b n) ->
  forall (t : @table K V) (k : K), inv hashf eqf t ->
    tref hashf eqf (Tbl (regrow hashf (buckets t)) (tsize t)) k = tref hashf eqf t k /\
    inv hashf eqf (Tbl (regrow hashf (buckets t)) (tsize t)) /\
    length (regrow hashf (buckets t)) = (2 * length (buckets t))%nat.
Proof. exact @TableProofs.regrow_preserves_contents. Qed.
Print Assumptions regrow_preserves_contents.

(** The SPEC (association list, first match) is a finite map modulo the equivalence. *)
Theorem map_laws : forall (K V : Type) (eqf : K -> K -> bool),
  (forall a b, eqf a b = true -> eqf b a = true) ->
  (forall a b c, eqf a b = true -> eqf b c = true -> eqf a c = true) ->
  forall (m : @amap K V) (k : K) (v : V) (k' : K), muniq eqf m ->
  option_map snd (mref eqf (mset eqf m k v) k') = (if eqf k k' then Some v else option_map snd (mref eqf m k')) /\
  option_map snd (mref eqf (mdel eqf m k) k') = (if eqf k k' then None else option_map snd (mref eqf m k')) /\
  mref eqf (@nil (K * V)) k' = None /\ muniq eqf (mset eqf m k v) /\ muniq eqf (mdel eqf m k).
Proof. exact @TableProofs.map_laws. Qed.
Print Assumptions map_laws.

(** the constants of the hand-written table model are those of the current source *)
Theorem table_constants_match_source : INIT_BUCKETS = 23 /\ RESIZE_MUL = 3 /\ RESIZE_SHIFT = 2.
Proof. exact (conj eq_refl (conj eq_refl eq_refl)). Qed.
Print Assumptions table_constants_match_source.

(** sexp_bignum_compare is 0 exactly for bignums denoting the same integer, whatever their
    allocated lengths (unused high words). *)
Theorem bignum_compare_zero : forall sa a sb b, wf_big sa a -> wf_big sb b ->
  (bignum_compare sa a sb b = 0 <-> sa * val a = sb * val b).
Proof. exact ObjProofs.bignum_compare_zero. Qed.
Print Assumptions bignum_compare_zero.

(** sexp_equalp_bound (with the repaired string case) answers "same abstract value" exactly and uses
    at most one unit of bound per node, whenever the first argument fits the depth / node limits:
    integers by value, flonums by bits, strings by their own bytes whatever offset / store, pairs and
    vectors structurally (cdr-chains need no depth). *)
Theorem equal_iff_same_abstract_value : forall a b fuel depth bound,
  wf a -> wf b -> (osize a <= fuel)%nat -> within a depth bound ->
  (absv a = absv b -> exists b', equal_bound fuel a b depth bound = EBound b' /\ bound - Z.of_nat (osize a) <= b' <= bound) /\
  (absv a <> absv b -> equal_bound fuel a b depth bound = EFalse).
Proof. exact ObjEqual.equal_iff_same_abstract_value. Qed.
Print Assumptions equal_iff_same_abstract_value.

Theorem equal_terminates : forall a b, wf a -> wf b -> inb a -> equal_op a b <> EFuel.
Proof. exact ObjEqual.equal_terminates. Qed.
Print Assumptions equal_terminates.

Theorem equal_refl : forall a, wf a -> inb a -> equalb a a = true.
Proof. exact ObjEqual.equal_refl. Qed.
Print Assumptions equal_refl.

Theorem equal_sym : forall a b, wf a -> wf b -> inb a -> inb b -> equalb a b = equalb b a.
Proof. exact ObjEqual.equal_sym. Qed.
Print Assumptions equal_sym.

Theorem equal_trans : forall a b c, wf a -> wf b -> wf c -> inb a -> inb b ->
  equalb a b = true -> equalb b c = true -> equalb a c = true.
Proof. exact ObjEqual.equal_trans. Qed.
Print Assumptions equal_trans.

(** equal? objects have the same default hash for every bound (with both repairs): spare bignum
    words, string offsets and store sizes do not reach the hash. *)
Theorem hash_respects_equal : forall a b bound, wf a -> wf b -> inb a -> equalb a b = true -> hash_one a bound = hash_one b bound.
Proof. exact ObjEqual.hash_respects_equal. Qed.
Print Assumptions hash_respects_equal.

Theorem eqv_implies_equal : forall a b, wf a -> wf b -> inb a -> eqvb a b = true -> equalb a b = true.
Proof. exact ObjEqual.eqv_implies_equal. Qed.
Print Assumptions eqv_implies_equal.

(** Consequence for tables keyed by objects: with `hash' and equal? on well-formed objects inside
    the limits (where equal? is an equivalence) the hypotheses of table_refines_map hold, so such a
    table is a finite map modulo equal?. *)
Theorem object_tables_are_maps : forall (V : Type) (ops : list (@op okey V)) (k : okey),
  tref okey_hash okey_eq (run_table okey_hash okey_eq ops) k = mref okey_eq (run_map okey_eq ops) k.
Proof. exact Combined.object_tables_are_maps. Qed.
Print Assumptions object_tables_are_maps.

(** ---- data with sharing and cycles: the slow path of (scheme base) equal?, lib/chibi/equiv.scm, REGENERATED
    into Gen/C15_Equiv.v; SPEC = bisimilarity of the two rooted graphs (same possibly infinite unfolding) *)

(** equiv? terminates on every finite graph, cyclic or not, within the fuel |g|^2 + 1 *)
Theorem equiv_terminates : forall (L : Type) (leq : L -> L -> bool) (g : list (node L)) (a b : nat),
  fst (equiv leq g (equiv_fuel g) a b []) <> None.
Proof. exact @GraphProofs.equiv_terminates. Qed.
Print Assumptions equiv_terminates.

(** #t only for bisimilar data (closed graph, leaf comparison reflexive and transitive on the leaves present) *)
Theorem equiv_sound : forall (L : Type) (leq : L -> L -> bool) (g : list (node L)) (a b : nat),
  wfg g -> GraphProofs.leaves_ok leq g -> (a < length g)%nat -> (b < length g)%nat ->
  fst (equiv leq g (equiv_fuel g) a b []) = Some true -> bisim leq g a b.
Proof. exact @GraphProofs.equiv_sound_thm. Qed.
Print Assumptions equiv_sound.

(** bisimilar data are answered #t (no hypothesis on the graph at all) *)
Theorem equiv_complete : forall (L : Type) (leq : L -> L -> bool) (g : list (node L)) (a b : nat),
  bisim leq g a b -> fst (equiv leq g (equiv_fuel g) a b []) = Some true.
Proof. exact @GraphProofs.equiv_complete_thm. Qed.
Print Assumptions equiv_complete.

(** composition with the bounded C pass (any answer that is sound in its two definite cases) *)
Theorem equal_total_correct : forall (L : Type) (leq : L -> L -> bool) (g : list (node L)) (res : option Z) (a b : nat),
  wfg g -> GraphProofs.leaves_ok leq g -> (a < length g)%nat -> (b < length g)%nat -> GraphProofs.bounded_sound leq g res a b ->
  (equal_top leq g res a b = Some true <-> bisim leq g a b) /\
  (equal_top leq g res a b = Some false <-> ~ bisim leq g a b) /\
  equal_top leq g res a b <> None.
Proof. exact @GraphProofs.equal_total_correct. Qed.
Print Assumptions equal_total_correct.

(** the same with the leaves of Obj.v compared by the model of the core equal? *)
Theorem equal_on_object_graphs : forall (g : list (node obj)) res a b,
  wfg g -> (forall l, In (NLeaf l) g -> wf l /\ inb l) -> (a < length g)%nat -> (b < length g)%nat ->
  GraphProofs.bounded_sound equalb g res a b ->
  (equal_top equalb g res a b = Some true <-> bisim equalb g a b) /\
  (equal_top equalb g res a b = Some false <-> ~ bisim equalb g a b) /\
  equal_top equalb g res a b <> None.
Proof. exact Combined.equal_on_object_graphs. Qed.
Print Assumptions equal_on_object_graphs.

(** the oracle of the correspondence runs on small graphs decides the SPEC *)
Theorem bisim_dec_decides_bisim : forall (L : Type) (leq : L -> L -> bool) (g : list (node L)) (x y : nat),
  bisim_dec leq g x y = true <-> bisim leq g x y.
Proof. exact @GraphSpec.bisim_dec_correct. Qed.
Print Assumptions bisim_dec_decides_bisim.

(* ------------------------------------------------------------------ round 3 *)
(** The definite answers of sexp_equalp_bound (#f; a remaining bound >= 0) are sound for data of ANY
    size and depth and any fuel of the model, provided bound <= depth at the call: what must not
    change is that every nesting level costs at least one unit of bound. *)
Theorem equal_bound_sound : forall a b fuel depth bound, wf a -> wf b -> bound <= depth ->
  (equal_bound fuel a b depth bound = EFalse -> absv a <> absv b) /\
  (forall r, equal_bound fuel a b depth bound = EBound r -> 0 <= r -> absv a = absv b).
Proof. exact ObjSound.equal_bound_sound. Qed.
Print Assumptions equal_bound_sound.

(** (scheme base) equal? calls the bounded pass with the limits regenerated from lib/chibi/equiv.scm
    (D = B): `bounded_sound' holds for tree-shaped data beyond every limit. *)
Theorem slow_path_bounded_pass_sound : forall a b, wf a -> wf b ->
  (equal_bounded a b SLOW_DEPTH SLOW_BOUND = EFalse -> absv a <> absv b) /\
  (forall r, equal_bounded a b SLOW_DEPTH SLOW_BOUND = EBound r -> 0 < r -> absv a = absv b).
Proof. exact ObjSound.slow_path_bounded_pass_sound. Qed.
Print Assumptions slow_path_bounded_pass_sound.

(** REFUTED for bound > depth (the core `equal?' primitive: depth 10000, bound 10^8): at the depth
    cut-off a positive bound comes back for different data.  Recorded as F-C15-4. *)
Theorem core_equal_depth_cutoff_refuted :
  exists a b depth bound r, wf a /\ wf b /\ depth < bound /\
    equal_bounded a b depth bound = EBound r /\ 0 < r /\ absv a <> absv b.
Proof. exact ObjSound.depth_cutoff_unsound. Qed.
Print Assumptions core_equal_depth_cutoff_refuted.

(** The hash function a (srfi 69) / (srfi 125) constructor picks when given only eq?, eqv?, equal? or
    string=? (REGENERATED from opt-hash / make-hash-table) respects that equivalence, on objects
    living at addresses (eq? = same immediate or same address; hash-by-identity = address). *)
Theorem default_hash_respects_equivalence : forall e, In e DefaultHash.standard_eqs ->
  forall x y n, DefaultHashProofs.wfl x -> DefaultHashProofs.wfl y -> DefaultHashProofs.consistent x y ->
    DefaultHash.sem_eq e x y = true ->
    DefaultHash.sem_hash (C15_OptHash.opt_hash_125 e) x n = DefaultHash.sem_hash (C15_OptHash.opt_hash_125 e) y n /\
    DefaultHash.sem_hash (C15_OptHash.opt_hash_69 e) x n = DefaultHash.sem_hash (C15_OptHash.opt_hash_69 e) y n.
Proof. exact DefaultHashProofs.default_hash_respects_equivalence. Qed.
Print Assumptions default_hash_respects_equivalence.

(** the same for the (equality, hash) pairs of (srfi 128) make-eq/eqv/equal-comparator *)
Theorem comparator_hash_respects_equality : forall e h, In (e, h) C15_OptHash.comparators_128 ->
  forall x y n, DefaultHashProofs.wfl x -> DefaultHashProofs.wfl y -> DefaultHashProofs.consistent x y ->
    DefaultHash.sem_eq e x y = true -> DefaultHash.sem_hash h x n = DefaultHash.sem_hash h y n.
Proof. exact DefaultHashProofs.comparator_hash_respects_equality. Qed.
Print Assumptions comparator_hash_respects_equality.

(** hash-by-identity respects only eq?: two eqv? bignums at different addresses hash differently *)
Theorem identity_hash_does_not_respect_eqv :
  exists x y n, DefaultHashProofs.wfl x /\ DefaultHashProofs.wfl y /\ DefaultHashProofs.consistent x y /\
    DefaultHash.sem_eq DefaultHash.EqEqv x y = true /\
    DefaultHash.sem_hash DefaultHash.HIdentity x n <> DefaultHash.sem_hash DefaultHash.HIdentity y n.
Proof. exact DefaultHashProofs.identity_hash_does_not_respect_eqv. Qed.
Print Assumptions identity_hash_does_not_respect_eqv.

(** ---- round 4 ---- *)

(** Histories on TWO tables in the operation language of the correspondence runs (set!, delete!, update!/default and
    update! with any procedure, copy continued on / kept aside, swap, an update that raises = no change, update! without
    default = only a present key): after ANY history both tables are in the invariant and agree, lookup by lookup and in
    size, with two INDEPENDENT association maps (a copy shares nothing with its original). *)
Theorem two_table_histories_refine_maps : forall (K V : Type) (hashf : K -> nat -> nat) (eqf : K -> K -> bool),
  (forall a, eqf a a = true) -> (forall a b, eqf a b = true -> eqf b a = true) ->
  (forall a b c, eqf a b = true -> eqf b c = true -> eqf a c = true) ->
  (forall a b n, eqf a b = true -> hashf a n = hashf b n) ->
  forall ops : list (@Table2.op2 K V),
    Table2Proofs.sim2 hashf eqf (Table2.run_table2 hashf eqf ops) (Table2.run_map2 eqf ops).
Proof. exact @Table2Proofs.two_table_histories_refine_maps. Qed.
Print Assumptions two_table_histories_refine_maps.

(** the executable history functions that are cross-run against the implementation (Run.v) are these generic steps *)
Theorem run_steps_are_generic_steps : forall kind keys tt mm cls o,
  Run.ostep kind keys tt o = Table2.tstep2 (Run.hf kind keys) (Run.ef kind keys) tt (RunProofs.hop2 o) /\
  Run.mstep' cls mm o = Table2.mstep2 (Run.cf cls) mm (RunProofs.hop2 o).
Proof. exact (fun kind keys tt mm cls o => conj (RunProofs.ostep_is_tstep2 kind keys tt o) (RunProofs.mstep'_is_mstep2 cls mm o)). Qed.
Print Assumptions run_steps_are_generic_steps.

(** hash-table->alist / hash-table-fold / keys / values of a table related to a map: exactly the cells the map's lookups
    return, no key twice (modulo the equivalence), as many as the size slot says. *)
Theorem alist_is_graph_of_map : forall (K V : Type) (hashf : K -> nat -> nat) (eqf : K -> K -> bool),
  (forall a, eqf a a = true) ->
  (forall a b n, eqf a b = true -> hashf a n = hashf b n) ->
  forall (t : @table K V) (m : @amap K V), TableProofs.sim hashf eqf t m ->
    (forall e, In e (to_alist t) <-> mref eqf m (fst e) = Some e) /\
    (forall k, (cnt eqf k (to_alist t) <= 1)%nat) /\
    Z.of_nat (length (to_alist t)) = tsize t.
Proof. exact @Table2Proofs.alist_graph. Qed.
Print Assumptions alist_is_graph_of_map.

(** POINTER LEVEL.  The bucket chains as spine pairs in a heap (Chain.v).  sexp_hash_table_delete's in-place unlinking
    (head: bucket := cdr; otherwise walk to the predecessor and overwrite its cdr) applied to a chain of pairwise distinct
    spine pairs yields a chain whose cells are [brem] of the cells (what Table.v's tdelete computes), allocates nothing,
    touches no cell and no pair outside the chain. *)
Theorem chain_delete_refines_brem : forall (K V : Type) (eqf : K -> K -> bool)
  (fuel : nat) (h : @Chain.heap K V) (head : Chain.ptr) (as_ : list nat) (k : K),
  Chain.is_chain h head as_ -> NoDup as_ -> (length as_ <= fuel)%nat ->
  exists h' head' as',
    Chain.chain_delete eqf fuel h head k = Some (h', head') /\
    Chain.is_chain h' head' as' /\ NoDup as' /\
    Chain.cells h' as' = brem eqf (Chain.cells h as_) k /\
    (forall a, In a as' -> In a as_) /\
    (forall a, Chain.scar (h' a) = Chain.scar (h a)) /\
    (forall a, ~ In a as_ -> h' a = h a).
Proof. exact @ChainProofs.chain_delete_refines_brem. Qed.
Print Assumptions chain_delete_refines_brem.

(** The variant of sexp_regrow_hash_table that MOVES the existing spine pairs into the new vector instead of consing
    (seeded change C02-c2; gen/c15_consts.py accepts either loop and says which one the tree has): on a bucket vector
    without sharing it computes exactly the functional [regrow] of Table.v, with the same pairs (none allocated, none
    lost), untouched cells, and no effect outside the chains.  (No garbage collector in this model: that the pairs stay
    reachable during a user hash procedure's callback is C02's clause.) *)
Theorem regrow_relink_refines_regrow : forall (K V : Type) (hashf : K -> nat -> nat)
  (fuel : nat) (h : @Chain.heap K V) (ov : list Chain.ptr) (ass : list (list nat)) (bs : list (list (K * V))),
  Chain.heap_buckets h ov ass bs ->
  (forall as_, In as_ ass -> (length as_ <= fuel)%nat) ->
  exists h' nv ass',
    Chain.regrow_relink hashf fuel h ov = Some (h', nv) /\
    Chain.heap_buckets h' nv ass' (regrow hashf bs) /\
    (forall a, In a (concat ass') <-> In a (concat ass)) /\
    (forall a, Chain.scar (h' a) = Chain.scar (h a)) /\
    (forall a, ~ In a (concat ass) -> h' a = h a).
Proof. exact @ChainProofs.regrow_relink_refines_regrow. Qed.
Print Assumptions regrow_relink_refines_regrow.
