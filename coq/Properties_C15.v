(** C15 — equal?/eqv?/hash coherence; hash tables are finite maps: property theorems only. *)
From Coq Require Import List ZArith Bool.
From ChibiV Require Import Common.Words Gen.C15_Consts C15.Table C15.TableProofs C15.Obj C15.ObjProofs C15.ObjEqual C15.Graph Gen.C15_Equiv C15.Combined.
From ChibiV Require C15.GraphProofs C15.GraphSpec C15.ObjSound C15.DefaultHash C15.DefaultHashProofs Gen.C15_OptHash.
Import ListNotations.
Local Open Scope Z_scope.

(** Any history of hash-table-set! / hash-table-delete! / hash-table-copy (with every regrow the
    resize rule triggers), for ANY equivalence and ANY hash function that respects it: each lookup
    of the table returns exactly the cell the association-list map returns. *)
Theorem table_refines_map : forall (K V : Type) (hashf : K -> nat -> nat) (eqf : K -> K -> bool),
  (forall a, eqf a a = true) -> (forall a b, eqf a b = true -> eqf b a = true) ->
  (forall a b c, eqf a b = true -> eqf b c = true -> eqf a c = true) ->
  (forall a b n, eqf a b = true -> hashf a n = hashf b n) ->
  forall (ops : list (@op K V)) (k : K),
    tref hashf eqf (run_table hashf eqf ops) k = mref eqf (run_map eqf ops) k.
Proof. exact @TableProofs.table_refines_map. Qed.
Print Assumptions table_refines_map.

(** The size slot is the number of cells in the buckets and the number of keys of the map. *)
Theorem size_is_cardinality : forall (K V : Type) (hashf : K -> nat -> nat) (eqf : K -> K -> bool),
  (forall a, eqf a a = true) -> (forall a b, eqf a b = true -> eqf b a = true) ->
  (forall a b c, eqf a b = true -> eqf b c = true -> eqf a c = true) ->
  (forall a b n, eqf a b = true -> hashf a n = hashf b n) ->
  forall (ops : list (@op K V)),
    tsize (run_table hashf eqf ops) = Z.of_nat (length (concat (buckets (run_table hashf eqf ops)))) /\
    tsize (run_table hashf eqf ops) = Z.of_nat (length (run_map eqf ops)).
Proof. exact @TableProofs.size_is_cardinality. Qed.
Print Assumptions size_is_cardinality.

(** No two cells of the whole table carry equivalent keys, and every cell is in the bucket its
    key hashes to under the current bucket count. *)
Theorem no_duplicate_keys : forall (K V : Type) (hashf : K -> nat -> nat) (eqf : K -> K -> bool),
  (forall a, eqf a a = true) -> (forall a b, eqf a b = true -> eqf b a = true) ->
  (forall a b c, eqf a b = true -> eqf b c = true -> eqf a c = true) ->
  (forall a b n, eqf a b = true -> hashf a n = hashf b n) ->
  forall (ops : list (@op K V)) (k : K),
    (cnt eqf k (concat (buckets (run_table hashf eqf ops))) <= 1)%nat /\
    placed hashf (buckets (run_table hashf eqf ops)).
Proof. exact @TableProofs.no_duplicate_keys. Qed.
Print Assumptions no_duplicate_keys.

(** sexp_regrow_hash_table doubles the bucket vector and keeps every lookup and the invariant. *)
Theorem regrow_preserves_contents : forall (K V : Type) (hashf : K -> nat -> nat) (eqf : K -> K -> bool),
  (forall a b n, eqf a b = true -> hashf a n = hashf b n) ->
  forall (t : @table K V) (k : K), inv hashf eqf t ->
    tref hashf eqf (Tbl (regrow hashf (buckets t)) (tsize t)) k = tref hashf eqf t k /\
    inv hashf eqf (Tbl (regrow hashf (buckets t)) (tsize t)) /\
    length (regrow hashf (buckets t)) = (2 * length (buckets t))%nat.
Proof. exact @TableProofs.regrow_preserves_contents. Qed.
Print Assumptions regrow_preserves_contents.

(** The SPEC (association list, first match) is a finite map modulo the equivalence. *)
Theorem map_laws : forall (K V : Type) (eqf : K -> K -> bool),
  (forall a b, eqf a b = true -> eqf b a = true) ->
  (forall a b c, eqf a b = true -> eqf b c = true -> eqf a c = true) ->
  forall (m : @amap K V) (k : K) (v : V) (k' : K), muniq eqf m ->
  option_map snd (mref eqf (mset eqf m k v) k') = (if eqf k k' then Some v else option_map snd (mref eqf m k')) /\
  option_map snd (mref eqf (mdel eqf m k) k') = (if eqf k k' then None else option_map snd (mref eqf m k')) /\
  mref eqf (@nil (K * V)) k' = None /\ muniq eqf (mset eqf m k v) /\ muniq eqf (mdel eqf m k).
Proof. exact @TableProofs.map_laws. Qed.
Print Assumptions map_laws.

(** the constants of the hand-written table model are those of the current source *)
Theorem table_constants_match_source : INIT_BUCKETS = 23 /\ RESIZE_MUL = 3 /\ RESIZE_SHIFT = 2.
Proof. exact (conj eq_refl (conj eq_refl eq_refl)). Qed.
Print Assumptions table_constants_match_source.

(** sexp_bignum_compare is 0 exactly for bignums denoting the same integer, whatever their
    allocated lengths (unused high words). *)
Theorem bignum_compare_zero : forall sa a sb b, wf_big sa a -> wf_big sb b ->
  (bignum_compare sa a sb b = 0 <-> sa * val a = sb * val b).
Proof. exact ObjProofs.bignum_compare_zero. Qed.
Print Assumptions bignum_compare_zero.

(** sexp_equalp_bound (with the repaired string case) answers "same abstract value" exactly and uses
    at most one unit of bound per node, whenever the first argument fits the depth / node limits:
    integers by value, flonums by bits, strings by their own bytes whatever offset / store, pairs and
    vectors structurally (cdr-chains need no depth). *)
Theorem equal_iff_same_abstract_value : forall a b fuel depth bound,
  wf a -> wf b -> (osize a <= fuel)%nat -> within a depth bound ->
  (absv a = absv b -> exists b', equal_bound fuel a b depth bound = EBound b' /\ bound - Z.of_nat (osize a) <= b' <= bound) /\
  (absv a <> absv b -> equal_bound fuel a b depth bound = EFalse).
Proof. exact ObjEqual.equal_iff_same_abstract_value. Qed.
Print Assumptions equal_iff_same_abstract_value.

Theorem equal_terminates : forall a b, wf a -> wf b -> inb a -> equal_op a b <> EFuel.
Proof. exact ObjEqual.equal_terminates. Qed.
Print Assumptions equal_terminates.

Theorem equal_refl : forall a, wf a -> inb a -> equalb a a = true.
Proof. exact ObjEqual.equal_refl. Qed.
Print Assumptions equal_refl.

Theorem equal_sym : forall a b, wf a -> wf b -> inb a -> inb b -> equalb a b = equalb b a.
Proof. exact ObjEqual.equal_sym. Qed.
Print Assumptions equal_sym.

Theorem equal_trans : forall a b c, wf a -> wf b -> wf c -> inb a -> inb b ->
  equalb a b = true -> equalb b c = true -> equalb a c = true.
Proof. exact ObjEqual.equal_trans. Qed.
Print Assumptions equal_trans.

(** equal? objects have the same default hash for every bound (with both repairs): spare bignum
    words, string offsets and store sizes do not reach the hash. *)
Theorem hash_respects_equal : forall a b bound, wf a -> wf b -> inb a -> equalb a b = true -> hash_one a bound = hash_one b bound.
Proof. exact ObjEqual.hash_respects_equal. Qed.
Print Assumptions hash_respects_equal.

Theorem eqv_implies_equal : forall a b, wf a -> wf b -> inb a -> eqvb a b = true -> equalb a b = true.
Proof. exact ObjEqual.eqv_implies_equal. Qed.
Print Assumptions eqv_implies_equal.

(** Consequence for tables keyed by objects: with `hash' and equal? on well-formed objects inside
    the limits (where equal? is an equivalence) the hypotheses of table_refines_map hold, so such a
    table is a finite map modulo equal?. *)
Theorem object_tables_are_maps : forall (V : Type) (ops : list (@op okey V)) (k : okey),
  tref okey_hash okey_eq (run_table okey_hash okey_eq ops) k = mref okey_eq (run_map okey_eq ops) k.
Proof. exact Combined.object_tables_are_maps. Qed.
Print Assumptions object_tables_are_maps.

(** ---- data with sharing and cycles: the slow path of (scheme base) equal?, lib/chibi/equiv.scm, REGENERATED
    into Gen/C15_Equiv.v; SPEC = bisimilarity of the two rooted graphs (same possibly infinite unfolding) *)

(** equiv? terminates on every finite graph, cyclic or not, within the fuel |g|^2 + 1 *)
Theorem equiv_terminates : forall (L : Type) (leq : L -> L -> bool) (g : list (node L)) (a b : nat),
  fst (equiv leq g (equiv_fuel g) a b []) <> None.
Proof. exact @GraphProofs.equiv_terminates. Qed.
Print Assumptions equiv_terminates.

(** #t only for bisimilar data (closed graph, leaf comparison reflexive and transitive on the leaves present) *)
Theorem equiv_sound : forall (L : Type) (leq : L -> L -> bool) (g : list (node L)) (a b : nat),
  wfg g -> GraphProofs.leaves_ok leq g -> (a < length g)%nat -> (b < length g)%nat ->
  fst (equiv leq g (equiv_fuel g) a b []) = Some true -> bisim leq g a b.
Proof. exact @GraphProofs.equiv_sound_thm. Qed.
Print Assumptions equiv_sound.

(** bisimilar data are answered #t (no hypothesis on the graph at all) *)
Theorem equiv_complete : forall (L : Type) (leq : L -> L -> bool) (g : list (node L)) (a b : nat),
  bisim leq g a b -> fst (equiv leq g (equiv_fuel g) a b []) = Some true.
Proof. exact @GraphProofs.equiv_complete_thm. Qed.
Print Assumptions equiv_complete.

(** composition with the bounded C pass (any answer that is sound in its two definite cases) *)
Theorem equal_total_correct : forall (L : Type) (leq : L -> L -> bool) (g : list (node L)) (res : option Z) (a b : nat),
  wfg g -> GraphProofs.leaves_ok leq g -> (a < length g)%nat -> (b < length g)%nat -> GraphProofs.bounded_sound leq g res a b ->
  (equal_top leq g res a b = Some true <-> bisim leq g a b) /\
  (equal_top leq g res a b = Some false <-> ~ bisim leq g a b) /\
  equal_top leq g res a b <> None.
Proof. exact @GraphProofs.equal_total_correct. Qed.
Print Assumptions equal_total_correct.

(** the same with the leaves of Obj.v compared by the model of the core equal? *)
Theorem equal_on_object_graphs : forall (g : list (node obj)) res a b,
  wfg g -> (forall l, In (NLeaf l) g -> wf l /\ inb l) -> (a < length g)%nat -> (b < length g)%nat ->
  GraphProofs.bounded_sound equalb g res a b ->
  (equal_top equalb g res a b = Some true <-> bisim equalb g a b) /\
  (equal_top equalb g res a b = Some false <-> ~ bisim equalb g a b) /\
  equal_top equalb g res a b <> None.
Proof. exact Combined.equal_on_object_graphs. Qed.
Print Assumptions equal_on_object_graphs.

(** the oracle of the correspondence runs on small graphs decides the SPEC *)
Theorem bisim_dec_decides_bisim : forall (L : Type) (leq : L -> L -> bool) (g : list (node L)) (x y : nat),
  bisim_dec leq g x y = true <-> bisim leq g x y.
Proof. exact @GraphSpec.bisim_dec_correct. Qed.
Print Assumptions bisim_dec_decides_bisim.

(* ------------------------------------------------------------------ round 3 *)
(** The definite answers of sexp_equalp_bound (#f; a remaining bound >= 0) are sound for data of ANY
    size and depth and any fuel of the model, provided bound <= depth at the call: what must not
    change is that every nesting level costs at least one unit of bound. *)
Theorem equal_bound_sound : forall a b fuel depth bound, wf a -> wf b -> bound <= depth ->
  (equal_bound fuel a b depth bound = EFalse -> absv a <> absv b) /\
  (forall r, equal_bound fuel a b depth bound = EBound r -> 0 <= r -> absv a = absv b).
Proof. exact ObjSound.equal_bound_sound. Qed.
Print Assumptions equal_bound_sound.

(** (scheme base) equal? calls the bounded pass with the limits regenerated from lib/chibi/equiv.scm
    (D = B): `bounded_sound' holds for tree-shaped data beyond every limit. *)
Theorem slow_path_bounded_pass_sound : forall a b, wf a -> wf b ->
  (equal_bounded a b SLOW_DEPTH SLOW_BOUND = EFalse -> absv a <> absv b) /\
  (forall r, equal_bounded a b SLOW_DEPTH SLOW_BOUND = EBound r -> 0 < r -> absv a = absv b).
Proof. exact ObjSound.slow_path_bounded_pass_sound. Qed.
Print Assumptions slow_path_bounded_pass_sound.

(** REFUTED for bound > depth (the core `equal?' primitive: depth 10000, bound 10^8): at the depth
    cut-off a positive bound comes back for different data.  Recorded as F-C15-4. *)
Theorem core_equal_depth_cutoff_refuted :
  exists a b depth bound r, wf a /\ wf b /\ depth < bound /\
    equal_bounded a b depth bound = EBound r /\ 0 < r /\ absv a <> absv b.
Proof. exact ObjSound.depth_cutoff_unsound. Qed.
Print Assumptions core_equal_depth_cutoff_refuted.

(** The hash function a (srfi 69) / (srfi 125) constructor picks when given only eq?, eqv?, equal? or
    string=? (REGENERATED from opt-hash / make-hash-table) respects that equivalence, on objects
    living at addresses (eq? = same immediate or same address; hash-by-identity = address). *)
Theorem default_hash_respects_equivalence : forall e, In e DefaultHash.standard_eqs ->
  forall x y n, DefaultHashProofs.wfl x -> DefaultHashProofs.wfl y -> DefaultHashProofs.consistent x y ->
    DefaultHash.sem_eq e x y = true ->
    DefaultHash.sem_hash (C15_OptHash.opt_hash_125 e) x n = DefaultHash.sem_hash (C15_OptHash.opt_hash_125 e) y n /\
    DefaultHash.sem_hash (C15_OptHash.opt_hash_69 e) x n = DefaultHash.sem_hash (C15_OptHash.opt_hash_69 e) y n.
Proof. exact DefaultHashProofs.default_hash_respects_equivalence. Qed.
Print Assumptions default_hash_respects_equivalence.

(** the same for the (equality, hash) pairs of (srfi 128) make-eq/eqv/equal-comparator *)
Theorem comparator_hash_respects_equality : forall e h, In (e, h) C15_OptHash.comparators_128 ->
  forall x y n, DefaultHashProofs.wfl x -> DefaultHashProofs.wfl y -> DefaultHashProofs.consistent x y ->
    DefaultHash.sem_eq e x y = true -> DefaultHash.sem_hash h x n = DefaultHash.sem_hash h y n.
Proof. exact DefaultHashProofs.comparator_hash_respects_equality. Qed.
Print Assumptions comparator_hash_respects_equality.

(** hash-by-identity respects only eq?: two eqv? bignums at different addresses hash differently *)
Theorem identity_hash_does_not_respect_eqv :
  exists x y n, DefaultHashProofs.wfl x /\ DefaultHashProofs.wfl y /\ DefaultHashProofs.consistent x y /\
    DefaultHash.sem_eq DefaultHash.EqEqv x y = true /\
    DefaultHash.sem_hash DefaultHash.HIdentity x n <> DefaultHash.sem_hash DefaultHash.HIdentity y n.
Proof. exact DefaultHashProofs.identity_hash_does_not_respect_eqv. Qed.
Print Assumptions identity_hash_does_not_respect_eqv.
