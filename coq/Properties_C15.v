(** C15 — equal?/eqv?/hash coherence; hash tables are finite maps: property theorems only. *)
From Coq Require Import List ZArith Bool.
From ChibiV Require Import Gen.C15_Consts C15.Table C15.TableProofs.
Import ListNotations.
Local Open Scope Z_scope.

(** Any history of hash-table-set! / hash-table-delete! / hash-table-copy (with every regrow the
    resize rule triggers), for ANY equivalence and ANY hash function that respects it: each lookup
    of the table returns exactly the cell the association-list map returns. *)
Theorem table_refines_map : forall (K V : Type) (hashf : K -> nat -> nat) (eqf : K -> K -> bool),
  (forall a, eqf a a = true) -> (forall a b, eqf a b = true -> eqf b a = true) ->
  (forall a b c, eqf a b = true -> eqf b c = true -> eqf a c = true) ->
  (forall a b n, eqf a b = true -> hashf a n = hashf b n) ->
  forall (ops : list (@op K V)) (k : K),
    tref hashf eqf (run_table hashf eqf ops) k = mref eqf (run_map eqf ops) k.
Proof. exact @TableProofs.table_refines_map. Qed.
Print Assumptions table_refines_map.

(** The size slot is the number of cells in the buckets and the number of keys of the map. *)
Theorem size_is_cardinality : forall (K V : Type) (hashf : K -> nat -> nat) (eqf : K -> K -> bool),
  (forall a, eqf a a = true) -> (forall a b, eqf a b = true -> eqf b a = true) ->
  (forall a b c, eqf a b = true -> eqf b c = true -> eqf a c = true) ->
  (forall a b n, eqf a b = true -> hashf a n = hashf b n) ->
  forall (ops : list (@op K V)),
    tsize (run_table hashf eqf ops) = Z.of_nat (length (concat (buckets (run_table hashf eqf ops)))) /\
    tsize (run_table hashf eqf ops) = Z.of_nat (length (run_map eqf ops)).
Proof. exact @TableProofs.size_is_cardinality. Qed.
Print Assumptions size_is_cardinality.

(** No two cells of the whole table carry equivalent keys, and every cell is in the bucket its
    key hashes to under the current bucket count. *)
Theorem no_duplicate_keys : forall (K V : Type) (hashf : K -> nat -> nat) (eqf : K -> K -> bool),
  (forall a, eqf a a = true) -> (forall a b, eqf a b = true -> eqf b a = true) ->
  (forall a b c, eqf a b = true -> eqf b c = true -> eqf a c = true) ->
  (forall a b n, eqf a b = true -> hashf a n = hashf b n) ->
  forall (ops : list (@op K V)) (k : K),
    (cnt eqf k (concat (buckets (run_table hashf eqf ops))) <= 1)%nat /\
    placed hashf (buckets (run_table hashf eqf ops)).
Proof. exact @TableProofs.no_duplicate_keys. Qed.
Print Assumptions no_duplicate_keys.

(** sexp_regrow_hash_table doubles the bucket vector and keeps every lookup and the invariant. *)
Theorem regrow_preserves_contents : forall (K V : Type) (hashf : K -> nat -> nat) (eqf : K -> K -> bool),
  (forall a b n, eqf a b = true -> hashf a n = hashf b n) ->
  forall (t : @table K V) (k : K), inv hashf eqf t ->
    tref hashf eqf (Tbl (regrow hashf (buckets t)) (tsize t)) k = tref hashf eqf t k /\
    inv hashf eqf (Tbl (regrow hashf (buckets t)) (tsize t)) /\
    length (regrow hashf (buckets t)) = (2 * length (buckets t))%nat.
Proof. exact @TableProofs.regrow_preserves_contents. Qed.
Print Assumptions regrow_preserves_contents.

(** The SPEC (association list, first match) is a finite map modulo the equivalence. *)
Theorem map_laws : forall (K V : Type) (eqf : K -> K -> bool),
  (forall a b, eqf a b = true -> eqf b a = true) ->
  (forall a b c, eqf a b = true -> eqf b c = true -> eqf a c = true) ->
  forall (m : @amap K V) (k : K) (v : V) (k' : K), muniq eqf m ->
  option_map snd (mref eqf (mset eqf m k v) k') = (if eqf k k' then Some v else option_map snd (mref eqf m k')) /\
  option_map snd (mref eqf (mdel eqf m k) k') = (if eqf k k' then None else option_map snd (mref eqf m k')) /\
  mref eqf (@nil (K * V)) k' = None /\ muniq eqf (mset eqf m k v) /\ muniq eqf (mdel eqf m k).
Proof. exact @TableProofs.map_laws. Qed.
Print Assumptions map_laws.

(** the constants of the hand-written table model are those of the current source *)
Theorem table_constants_match_source : INIT_BUCKETS = 23 /\ RESIZE_MUL = 3 /\ RESIZE_SHIFT = 2.
Proof. exact (conj eq_refl (conj eq_refl eq_refl)). Qed.
Print Assumptions table_constants_match_source.
