(** C06 — the print-level encoding of a multi-binding parameterize form.
    The generator prints the nested DSL term  Parameterize a (PRef b) (Parameterize b (Const c) body)  (a <> b)
    as ONE Scheme form  (parameterize ((pb c) (pa (pb))) body).  R7RS 4.2.6 evaluates all value expressions
    outside the new bindings, so pa must receive the OLD value of pb.  Here: the nested DSL term means exactly
    that in the machine. *)
From Coq Require Import List Arith Lia Bool.
From ChibiV Require Import C06.Defs C06.WindSpec Gen.C06_Travel C06.Machine C06.MachineProofs C06.MachineThms.
Import ListNotations.

(** exactly n machine steps (unlike [run], no early stop: [step] itself is the identity on non-Running states) *)
Fixpoint iter_step (n : nat) (s : state) : state :=
  match n with
  | O => s
  | S m => iter_step m (step_impl s)
  end.

(** six steps: eval outer Parameterize; PRef b (the one read event); FParamVal a (extent 1);
    eval inner Parameterize; Const c; FParamVal b (extent 2) *)
Lemma parameterize_simultaneous_lemma : forall s a b c body k,
  st s = Running -> ctl s = CEval (Parameterize a (PRef b) (Parameterize b (Const c) body)) -> kont s = k ->
  let old := lookup_param b (params s) in
  let s4 := iter_step 6 s in
  ctl s4 = CEval body /\ st s4 = Running /\
  params s4 = BParam b c :: BParam a old :: params s /\
  out s4 = (10 + b, old) :: out s /\
  kont s4 = FWindExit (S (length (hp s))) (length (hp s)) [ASetParams (BParam a old :: params s)]
              :: FWindExit (length (hp s)) (dk s) [ASetParams (params s)] :: k /\
  (a <> b -> lookup_param a (params s4) = old /\ lookup_param b (params s4) = c).
Proof.
  intros s a b c body k Hst Hc Hk.
  destruct s as [ctl0 kont0 dk0 params0 hp0 conts0 slots0 counts0 out0 st0].
  cbn [st ctl kont params out hp dk] in *. subst.
  cbv zeta.
  unfold iter_step, step_impl. cbn.
  rewrite app_length. cbn [length]. rewrite Nat.add_1_r.
  repeat split; try reflexivity.
  - rewrite (proj2 (Nat.eqb_neq a b) H). rewrite Nat.eqb_refl. reflexivity.
  - rewrite Nat.eqb_refl. reflexivity.
Qed.

(** non-vacuity: a closed script that reaches the hypotheses (p1 = 5 outside; the form binds p1 := 7 and
    p0 := (p1) simultaneously); the read of p1 inside the form's value expression gives 5 (event (11,5)) and
    the body's (p0) gives 5, not 7 (event (10,5)); (p1) in the body gives 7 *)
Definition ex_param_script : exp :=
  Parameterize 1 (Const 5) (Parameterize 0 (PRef 1) (Parameterize 1 (Const 7) (Seq (Show (PRef 0)) (Show (PRef 1))))).

Example ex_param_simultaneous :
  run_script_impl 100 ex_param_script = (1, [(11,5); (10,5); (3,5); (11,7); (3,7)]).
Proof. vm_compute. reflexivity. Qed.

(** ... and the state after the 3 steps that bind p1 := 5 satisfies the hypotheses of the lemma *)
Example ex_param_hyps :
  let s := iter_step 3 (init ex_param_script) in
  st s = Running /\
  ctl s = CEval (Parameterize 0 (PRef 1) (Parameterize 1 (Const 7) (Seq (Show (PRef 0)) (Show (PRef 1))))) /\
  lookup_param 1 (params s) = 5 /\
  params (iter_step 6 s) = [BParam 1 7; BParam 0 5; BParam 1 5].
Proof. vm_compute. repeat split; reflexivity. Qed.
