(** C06 — the regenerated [travel_to_point] (Gen/C06_Travel.v, from lib/init-7.scm) runs exactly the
    R7RS wind script, for every well-formed heap and every pair of points. *)
From Coq Require Import List Arith Lia Bool.
From ChibiV Require Import C06.Defs C06.WindSpec Gen.C06_Travel.
Import ListNotations.

(** ---------------------------------------------------------------- strip_common *)
Lemma strip_same : forall l, strip_common l l = ([], []).
Proof. induction l as [|a l IH]; cbn; [reflexivity|]. rewrite Nat.eqb_refl. exact IH. Qed.

Lemma strip_snoc_r : forall x y t, length x <= length y ->
  strip_common x (y ++ [t]) = (fst (strip_common x y), snd (strip_common x y) ++ [t]).
Proof.
  induction x as [|a x IH]; intros y t Hl.
  - destruct y; reflexivity.
  - destruct y as [|b y]; cbn in Hl; [lia|].
    cbn. destruct (Nat.eqb a b) eqn:E.
    + apply IH. lia.
    + reflexivity.
Qed.

Lemma strip_snoc_l : forall x y hh,
  (length y <= length x \/ exists y' t, y = y' ++ [t] /\ t <> hh /\ length y' = length x) ->
  strip_common (x ++ [hh]) y = (fst (strip_common x y) ++ [hh], snd (strip_common x y)).
Proof.
  induction x as [|a x IH]; intros y hh H.
  - destruct y as [|b y].
    + reflexivity.
    + destruct H as [H|(y' & t & Hy & Hne & Hl)]; [cbn in H; lia|].
      destruct y' as [|c y']; [|cbn in Hl; lia].
      cbn in Hy. injection Hy as -> ->. cbn.
      destruct (Nat.eqb hh t) eqn:E; [apply Nat.eqb_eq in E; congruence|reflexivity].
  - destruct y as [|b y].
    + reflexivity.
    + cbn. destruct (Nat.eqb a b) eqn:E.
      * apply IH. destruct H as [H|(y' & t & Hy & Hne & Hl)].
        -- left. cbn in H. lia.
        -- right. destruct y' as [|c y']; [cbn in Hl; lia|].
           cbn in Hy. injection Hy as -> ->. exists y', t. cbn in Hl. repeat split; auto.
      * reflexivity.
Qed.

Lemma strip_spec : forall x y a b, strip_common x y = (a, b) ->
  exists c, x = c ++ a /\ y = c ++ b /\ (a = [] \/ b = [] \/ hd 0 a <> hd 0 b).
Proof.
  induction x as [|u x IH]; intros y a b H.
  - cbn in H. injection H as <- <-. exists []. auto.
  - destruct y as [|v y].
    + cbn in H. injection H as <- <-. exists []. auto.
    + cbn in H. destruct (Nat.eqb u v) eqn:E.
      * apply Nat.eqb_eq in E. subst v. destruct (IH _ _ _ H) as (c & -> & -> & Hd).
        exists (u :: c). auto.
      * apply Nat.eqb_neq in E. injection H as <- <-. exists []. cbn. auto.
Qed.

(** ---------------------------------------------------------------- chains in a well-formed heap *)
Lemma chain_length : forall h n p, length (chain h n p) = n.
Proof. induction n; intros; cbn; auto. Qed.

Lemma chainp_length : forall h p, length (chainp h p) = depth h p.
Proof. intros. apply chain_length. Qed.

Lemma chainp_root : forall h, wf_heap h -> chainp h 0 = [].
Proof. intros h [H0 _]. unfold chainp. rewrite H0. reflexivity. Qed.

Lemma chainp_step : forall h p, wf_heap h -> 0 < p -> p < length h ->
  chainp h p = p :: chainp h (parent h p).
Proof.
  intros h p [H0 Hw] Hp Hl. unfold chainp. destruct (Hw p Hp Hl) as [_ Hd]. rewrite Hd. reflexivity.
Qed.

Lemma depth_pos : forall h p, wf_heap h -> 0 < p -> p < length h -> 0 < depth h p.
Proof. intros h p [H0 Hw] Hp Hl. destruct (Hw p Hp Hl) as [_ Hd]. lia. Qed.

Lemma depth_zero_root : forall h p, wf_heap h -> p < length h -> depth h p = 0 -> p = 0.
Proof.
  intros h p Hwf Hl Hd. destruct p; auto.
  pose proof (depth_pos h (S p) Hwf ltac:(lia) Hl). lia.
Qed.

Lemma chainp_bounds : forall h, wf_heap h -> forall p, p < length h ->
  Forall (fun q => 0 < q /\ q <= p) (chainp h p).
Proof.
  intros h Hwf p. induction p as [p IH] using lt_wf_ind. intros Hl.
  destruct p as [|p].
  - rewrite chainp_root by assumption. constructor.
  - rewrite chainp_step by (auto; lia).
    destruct Hwf as [H0 Hw]. destruct (Hw (S p) ltac:(lia) Hl) as [Hpar _].
    constructor; [lia|].
    eapply Forall_impl; [|apply IH; [exact Hpar|lia]].
    cbn. intros q [? ?]. lia.
Qed.

Lemma chainp_nodup : forall h, wf_heap h -> forall p, p < length h -> NoDup (chainp h p).
Proof.
  intros h Hwf p. induction p as [p IH] using lt_wf_ind. intros Hl.
  destruct p as [|p].
  - rewrite chainp_root by assumption. constructor.
  - rewrite chainp_step by (auto; lia).
    pose proof Hwf as [H0 Hw]. destruct (Hw (S p) ltac:(lia) Hl) as [Hpar _].
    constructor.
    + intro Hin. pose proof (chainp_bounds h Hwf (parent h (S p)) ltac:(lia)) as Hb.
      rewrite Forall_forall in Hb. specialize (Hb _ Hin). lia.
    + apply IH; [exact Hpar|lia].
Qed.

(** ---------------------------------------------------------------- the two recursive arms, at SPEC level *)
Lemma wind_script_same : forall h p, wind_script h p p = [].
Proof. intros. unfold wind_script. rewrite strip_same. reflexivity. Qed.

Lemma wind_script_in : forall h here target, wf_heap h -> here < length h -> target < length h ->
  depth h here < depth h target ->
  wind_script h here target = wind_script h here (parent h target) ++ [WIn target].
Proof.
  intros h here target Hwf Hh Ht Hd.
  assert (Hpos : 0 < target).
  { destruct target; [|lia]. destruct Hwf as [H0 _]. rewrite H0 in Hd. lia. }
  unfold wind_script. rewrite (chainp_step h target) by auto. cbn [rev].
  rewrite strip_snoc_r.
  - cbn [fst snd]. rewrite map_app, app_assoc. reflexivity.
  - rewrite !rev_length, !chainp_length.
    destruct Hwf as [H0 Hw]. destruct (Hw target Hpos Ht) as [_ Hdt]. lia.
Qed.

Lemma wind_script_out : forall h here target, wf_heap h -> here < length h -> target < length h ->
  here <> target -> depth h target <= depth h here ->
  0 < here /\ wind_script h here target = WOut here :: wind_script h (parent h here) target.
Proof.
  intros h here target Hwf Hh Ht Hne Hd.
  assert (Hpos : 0 < here).
  { destruct here; [|lia]. exfalso. apply Hne. symmetry.
    apply (depth_zero_root h target Hwf Ht). destruct Hwf as [H0 _]. rewrite H0 in Hd. lia. }
  split; [exact Hpos|].
  unfold wind_script. rewrite (chainp_step h here) by auto. cbn [rev].
  pose proof Hwf as [H0 Hw]. destruct (Hw here Hpos Hh) as [Hpar Hdh].
  rewrite strip_snoc_l.
  - cbn [fst snd]. rewrite rev_app_distr. reflexivity.
  - rewrite !rev_length, !chainp_length.
    destruct (Nat.eq_dec (depth h target) (depth h here)) as [E|E]; [right|left; lia].
    assert (Htp : 0 < target).
    { destruct target; [|lia]. rewrite H0 in E. lia. }
    rewrite (chainp_step h target) by auto. cbn [rev].
    exists (rev (chainp h (parent h target))), target. repeat split; auto.
    rewrite rev_length, chainp_length. destruct (Hw target Htp Ht) as [_ Hdt]. lia.
Qed.

(** ---------------------------------------------------------------- main theorems about the generated function *)
Theorem travel_runs_wind_script_lemma : forall h, wf_heap h -> forall fuel here target s,
  here < length h -> target < length h ->
  travel_to_point h fuel here target = Some s -> s = wind_script h here target.
Proof.
  intros h Hwf. induction fuel as [|fuel IH]; intros here target s Hh Ht H; [discriminate|].
  cbn [travel_to_point] in H.
  destruct (Nat.eqb here target) eqn:E.
  - apply Nat.eqb_eq in E. subst. rewrite wind_script_same. unfold t_done in H. congruence.
  - apply Nat.eqb_neq in E.
    destruct (Nat.ltb (depth h here) (depth h target)) eqn:L.
    + apply Nat.ltb_lt in L.
      assert (Hpos : 0 < target).
      { destruct target; [|lia]. destruct Hwf as [H0 _]. rewrite H0 in L. lia. }
      pose proof Hwf as [_ Hw]. destruct (Hw target Hpos Ht) as [Hpar _].
      destruct (travel_to_point h fuel here (parent h target)) as [s1|] eqn:R; [|discriminate].
      cbn in H. injection H as <-.
      rewrite (IH here (parent h target) s1 Hh ltac:(lia) R). symmetry. apply wind_script_in; auto.
    + apply Nat.ltb_ge in L.
      destruct (wind_script_out h here target Hwf Hh Ht E L) as [Hpos Hs].
      pose proof Hwf as [_ Hw]. destruct (Hw here Hpos Hh) as [Hpar _].
      destruct (travel_to_point h fuel (parent h here) target) as [s1|] eqn:R; [|discriminate].
      cbn in H. injection H as <-.
      rewrite (IH (parent h here) target s1 ltac:(lia) Ht R). symmetry. exact Hs.
Qed.

Theorem travel_fuel_suffices_lemma : forall h, wf_heap h -> forall fuel here target,
  here < length h -> target < length h ->
  depth h here + depth h target < fuel ->
  exists s, travel_to_point h fuel here target = Some s.
Proof.
  intros h Hwf. induction fuel as [|fuel IH]; intros here target Hh Ht Hf; [lia|].
  cbn [travel_to_point].
  destruct (Nat.eqb here target) eqn:E; [eexists; reflexivity|].
  apply Nat.eqb_neq in E.
  destruct (Nat.ltb (depth h here) (depth h target)) eqn:L.
  - apply Nat.ltb_lt in L.
    assert (Hpos : 0 < target).
    { destruct target; [|lia]. destruct Hwf as [H0 _]. rewrite H0 in L. lia. }
    pose proof Hwf as [_ Hw]. destruct (Hw target Hpos Ht) as [Hpar Hd].
    destruct (IH here (parent h target) Hh ltac:(lia) ltac:(lia)) as [s1 ->].
    eexists; reflexivity.
  - apply Nat.ltb_ge in L.
    destruct (wind_script_out h here target Hwf Hh Ht E L) as [Hpos _].
    pose proof Hwf as [_ Hw]. destruct (Hw here Hpos Hh) as [Hpar Hd].
    destruct (IH (parent h here) target ltac:(lia) Ht ltac:(lia)) as [s1 ->].
    eexists; reflexivity.
Qed.

Theorem travel_total : forall h, wf_heap h -> forall here target,
  here < length h -> target < length h ->
  travel_to_point h (travel_fuel h here target) here target = Some (wind_script h here target).
Proof.
  intros h Hwf here target Hh Ht.
  destruct (travel_fuel_suffices_lemma h Hwf (travel_fuel h here target) here target Hh Ht) as [s Hs].
  { unfold travel_fuel. lia. }
  rewrite Hs. f_equal. eapply travel_runs_wind_script_lemma; eauto.
Qed.

(** ---------------------------------------------------------------- minimality / shape of the script *)
Lemma nodup_app_disjoint : forall (a c : list nat) p, NoDup (a ++ c) -> In p a -> In p c -> False.
Proof.
  induction a as [|x a IH]; intros c p Hn Ha Hc; [destruct Ha|].
  cbn in Hn. inversion Hn as [|? ? Hnx Hn']; subst.
  destruct Ha as [->|Ha].
  - apply Hnx. apply in_or_app. auto.
  - eapply IH; eauto.
Qed.

Theorem wind_script_minimal_lemma : forall h here target, wf_heap h -> here < length h -> target < length h ->
  exists a b common,
    chainp h here = a ++ common /\ chainp h target = b ++ common /\
    (a = [] \/ b = [] \/ hd 0 (rev a) <> hd 0 (rev b)) /\
    wind_script h here target = map WOut a ++ map WIn (rev b) /\
    (forall p, In p common -> ~ In (WOut p) (wind_script h here target) /\ ~ In (WIn p) (wind_script h here target)).
Proof.
  intros h here target Hwf Hh Ht.
  destruct (strip_common (rev (chainp h here)) (rev (chainp h target))) as [a' b'] eqn:S.
  destruct (strip_spec _ _ _ _ S) as (c & Hx & Hy & Hd).
  assert (Ha : chainp h here = rev a' ++ rev c).
  { rewrite <- rev_app_distr, <- Hx, rev_involutive. reflexivity. }
  assert (Hb : chainp h target = rev b' ++ rev c).
  { rewrite <- rev_app_distr, <- Hy, rev_involutive. reflexivity. }
  assert (Hs : wind_script h here target = map WOut (rev a') ++ map WIn (rev (rev b'))).
  { unfold wind_script. rewrite S. cbn [fst snd]. rewrite rev_involutive. reflexivity. }
  exists (rev a'), (rev b'), (rev c).
  split; [exact Ha|]. split; [exact Hb|]. split.
  { rewrite !rev_involutive. destruct Hd as [->|[->|Hd]]; auto. }
  split; [exact Hs|]. intros p Hp. split.
  - rewrite Hs. intro Hin. apply in_app_or in Hin. destruct Hin as [Hin|Hin].
    + apply in_map_iff in Hin. destruct Hin as (q & Hq & Hin). injection Hq as ->.
      pose proof (chainp_nodup h Hwf here Hh) as Hn. rewrite Ha in Hn.
      exact (nodup_app_disjoint _ _ _ Hn Hin Hp).
    + apply in_map_iff in Hin. destruct Hin as (q & Hq & _). discriminate.
  - rewrite Hs. intro Hin. apply in_app_or in Hin. destruct Hin as [Hin|Hin].
    + apply in_map_iff in Hin. destruct Hin as (q & Hq & _). discriminate.
    + apply in_map_iff in Hin. destruct Hin as (q & Hq & Hin). injection Hq as ->.
      apply <- in_rev in Hin.
      pose proof (chainp_nodup h Hwf target Ht) as Hn. rewrite Hb in Hn.
      exact (nodup_app_disjoint _ _ _ Hn Hin Hp).
Qed.

(** ---------------------------------------------------------------- non-vacuity *)
(** root <- 1 <- 2 <- 3 and 1 <- 4 <- 5 : from 3 to 5 leaves 3, 2 and enters 4, 5; point 1 is shared *)
Definition ex_heap : heap :=
  [ mkP 0 [] [] 0; mkP 1 [] [] 0; mkP 2 [] [] 1; mkP 3 [] [] 2; mkP 2 [] [] 1; mkP 3 [] [] 4 ].

Example ex_heap_wf : wf_heap ex_heap.
Proof.
  split; [reflexivity|]. intros p Hp Hl. cbn in Hl.
  do 6 (destruct p as [|p]; [cbn; lia|]). lia.
Qed.

Example ex_travel : travel_to_point ex_heap (travel_fuel ex_heap 3 5) 3 5 = Some [WOut 3; WOut 2; WIn 4; WIn 5]
                    /\ wind_script ex_heap 3 5 = [WOut 3; WOut 2; WIn 4; WIn 5].
Proof. split; reflexivity. Qed.
