(** C06 — RESUMECC after CALLCC resumes with the stack contents that were captured. *)
From Coq Require Import List Arith Lia.
From ChibiV Require Import C06.StackModel.
Import ListNotations.

Lemma sset_length : forall s i w, length (sset s i w) = length s.
Proof. induction s as [|x s IH]; intros [|i] w; cbn; auto. Qed.

Lemma sref_sset_same : forall s i w, i < length s -> sref (sset s i w) i = w.
Proof.
  induction s as [|x s IH]; intros [|i] w H; cbn in *; try lia; auto.
  apply IH. lia.
Qed.

Lemma sref_sset_other : forall s i j w, i <> j -> sref (sset s i w) j = sref s j.
Proof.
  induction s as [|x s IH]; intros [|i] [|j] w H; cbn; auto; try lia.
  apply IH. lia.
Qed.

Lemma sref_firstn : forall s n i, i < n -> sref (firstn n s) i = sref s i.
Proof.
  induction s as [|x s IH]; intros [|n] [|i] H; cbn; auto; try lia.
  apply IH. lia.
Qed.

Lemma sref_app_l : forall a b i, i < length a -> sref (a ++ b) i = sref a i.
Proof. intros. unfold sref. apply app_nth1. assumption. Qed.

Lemma nth_skipn_ : forall (s : list word) n i d, nth i (skipn n s) d = nth (n + i) s d.
Proof.
  intros s n. revert s. induction n as [|n IH]; intros s i d; [reflexivity|].
  destruct s as [|x s]; cbn; [destruct i; reflexivity|]. apply IH.
Qed.

Lemma sref_app_skipn : forall a s i, length a <= i -> length a <= length s -> sref (a ++ skipn (length a) s) i = sref s i.
Proof.
  intros a s i Hi Hl. unfold sref. rewrite app_nth2 by lia.
  rewrite nth_skipn_. f_equal. lia.
Qed.

(** capture in VM state [m] (top >= 1, four free words above top), then ANY later VM state [m2] on a stack that is
    not too small (no growth needed), carrying the value [v] for the continuation in stack2[fp2-1]:
    RESUMECC yields top, fp, self, ip as captured, every word below the call/cc argument slot as captured, the
    value [v] in the slot where call/cc's result is expected, and leaves the words above the copied area alone *)
Theorem callcc_resume_restores_lemma : forall m kobj m1 saved m2,
  1 <= top m -> top m + 4 <= length (stack m) ->
  callcc m kobj = (m1, saved) ->
  top m + 4 + 64 < length (stack m2) ->
  exists m3, resumecc m2 saved = Some m3 /\
    top m3 = top m /\ fp m3 = fp m /\ self m3 = self m /\ ip m3 = ip m /\
    length (stack m3) = length (stack m2) /\
    (forall i, i < top m - 1 -> sref (stack m3) i = sref (stack m) i) /\
    sref (stack m3) (top m - 1) = sref (stack m2) (fp m2 - 1) /\
    (forall i, top m + 4 <= i -> sref (stack m3) i = sref (stack m2) i).
Proof.
  intros m kobj m1 saved m2 Ht Hl Hc Hl2.
  unfold callcc in Hc. injection Hc as _ Hs.
  set (s4 := sset (sset (sset (sset (stack m) (top m) (WFix 1)) (top m + 1) (WFix (ip m))) (top m + 2) (self m))
                  (top m + 3) (WFix (fp m))) in *.
  assert (L4 : length s4 = length (stack m)) by (unfold s4; rewrite !sset_length; reflexivity).
  assert (Lsv : length saved = top m + 4).
  { rewrite <- Hs. unfold save_stack. rewrite firstn_length. lia. }
  assert (Hsv : forall i, i < top m + 4 -> sref saved i = sref s4 i).
  { intros i Hi. rewrite <- Hs. unfold save_stack. apply sref_firstn. exact Hi. }
  unfold resumecc, restore_stack. rewrite Lsv.
  destruct (Nat.leb (length (stack m2)) (top m + 4 + 64)) eqn:E; [apply Nat.leb_le in E; lia|].
  eexists. split; [reflexivity|]. cbn [top fp self ip stack].
  replace (top m + 4 - 4) with (top m) by lia.
  replace (top m + 4 - 1) with (top m + 3) by lia.
  replace (top m + 4 - 2) with (top m + 2) by lia.
  replace (top m + 4 - 3) with (top m + 1) by lia.
  rewrite !sref_app_l by lia. rewrite !Hsv by lia.
  split; [reflexivity|].
  split.
  { unfold s4. rewrite sref_sset_same by (rewrite !sset_length; lia). reflexivity. }
  split.
  { unfold s4. rewrite sref_sset_other by lia. rewrite sref_sset_same by (rewrite !sset_length; lia). reflexivity. }
  split.
  { unfold s4. rewrite !(sref_sset_other _ (top m + 3)) by lia. rewrite !(sref_sset_other _ (top m + 2)) by lia.
    rewrite sref_sset_same by (rewrite !sset_length; lia). reflexivity. }
  split.
  { rewrite sset_length, app_length, skipn_length. lia. }
  split.
  { intros i Hi. rewrite sref_sset_other by lia. rewrite sref_app_l by lia. rewrite Hsv by lia.
    unfold s4. rewrite !sref_sset_other by lia. reflexivity. }
  split.
  { rewrite sref_sset_same; [reflexivity|]. rewrite app_length, skipn_length. lia. }
  intros i Hi. rewrite sref_sset_other by lia.
  rewrite <- Lsv in *. rewrite sref_app_skipn by lia. reflexivity.
Qed.

Example ex_callcc_resume :
  let m := mkVM ([WObj 7; WFix 5; WObj 9] ++ repeat (WFix 0) 80) 3 1 (WObj 3) 12 in
  let '(m1, saved) := callcc m (WObj 100) in
  let m2 := mkVM ([WObj 1; WObj 2; WFix 42; WObj 4; WObj 5] ++ repeat (WObj 6) 78) 5 3 (WObj 8) 99 in
  option_map (fun m3 => (top m3, fp m3, self m3, ip m3, firstn 3 (stack m3))) (resumecc m2 saved)
  = Some (3, 1, WObj 3, 12, [WObj 7; WFix 5; WFix 42]).
Proof. vm_compute. reflexivity. Qed.
