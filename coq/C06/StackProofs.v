(** C06 — RESUMECC after CALLCC resumes with the stack contents that were captured. *)
From Coq Require Import List Arith Lia.
From ChibiV Require Import C06.StackModel.
Import ListNotations.

Lemma sset_length : forall s i w, length (sset s i w) = length s.
Proof. induction s as [|x s IH]; intros [|i] w; cbn; auto. Qed.

Lemma sref_sset_same : forall s i w, i < length s -> sref (sset s i w) i = w.
Proof.
  induction s as [|x s IH]; intros [|i] w H; cbn in *; try lia; auto.
  apply IH. lia.
Qed.

Lemma sref_sset_other : forall s i j w, i <> j -> sref (sset s i w) j = sref s j.
Proof.
  induction s as [|x s IH]; intros [|i] [|j] w H; cbn; auto; try lia.
  apply IH. lia.
Qed.

Lemma sref_firstn : forall s n i, i < n -> sref (firstn n s) i = sref s i.
Proof.
  induction s as [|x s IH]; intros [|n] [|i] H; cbn; auto; try lia.
  apply IH. lia.
Qed.

Lemma sref_app_l : forall a b i, i < length a -> sref (a ++ b) i = sref a i.
Proof. intros. unfold sref. apply app_nth1. assumption. Qed.

Lemma nth_skipn_ : forall (s : list word) n i d, nth i (skipn n s) d = nth (n + i) s d.
Proof.
  intros s n. revert s. induction n as [|n IH]; intros s i d; [reflexivity|].
  destruct s as [|x s]; cbn; [destruct i; reflexivity|]. apply IH.
Qed.

Lemma sref_app_skipn : forall a s i, length a <= i -> length a <= length s -> sref (a ++ skipn (length a) s) i = sref s i.
Proof.
  intros a s i Hi Hl. unfold sref. rewrite app_nth2 by lia.
  rewrite nth_skipn_. f_equal. lia.
Qed.

(** capture in VM state [m] (top >= 1, four free words above top), then ANY later VM state [m2] on a stack that is
    not too small (no growth needed), carrying the value [v] for the continuation in stack2[fp2-1]:
    RESUMECC yields top, fp, self, ip as captured, every word below the call/cc argument slot as captured, the
    value [v] in the slot where call/cc's result is expected, and leaves the words above the copied area alone *)
Theorem callcc_resume_restores_lemma : forall m kobj m1 saved m2,
  1 <= top m -> top m + 4 <= length (stack m) ->
  callcc m kobj = (m1, saved) ->
  top m + 4 + 64 < length (stack m2) ->
  exists m3, resumecc m2 saved = Some m3 /\
    top m3 = top m /\ fp m3 = fp m /\ self m3 = self m /\ ip m3 = ip m /\
    length (stack m3) = length (stack m2) /\
    (forall i, i < top m - 1 -> sref (stack m3) i = sref (stack m) i) /\
    sref (stack m3) (top m - 1) = sref (stack m2) (fp m2 - 1) /\
    (forall i, top m + 4 <= i -> sref (stack m3) i = sref (stack m2) i).
Proof.
  intros m kobj m1 saved m2 Ht Hl Hc Hl2.
  unfold callcc in Hc. injection Hc as _ Hs.
  set (s4 := sset (sset (sset (sset (stack m) (top m) (WFix 1)) (top m + 1) (WFix (ip m))) (top m + 2) (self m))
                  (top m + 3) (WFix (fp m))) in *.
  assert (L4 : length s4 = length (stack m)) by (unfold s4; rewrite !sset_length; reflexivity).
  assert (Lsv : length saved = top m + 4).
  { rewrite <- Hs. unfold save_stack. rewrite firstn_length. lia. }
  assert (Hsv : forall i, i < top m + 4 -> sref saved i = sref s4 i).
  { intros i Hi. rewrite <- Hs. unfold save_stack. apply sref_firstn. exact Hi. }
  unfold resumecc, restore_stack. rewrite Lsv.
  destruct (Nat.leb (length (stack m2)) (top m + 4 + 64)) eqn:E; [apply Nat.leb_le in E; lia|].
  eexists. split; [reflexivity|]. cbn [top fp self ip stack].
  replace (top m + 4 - 4) with (top m) by lia.
  replace (top m + 4 - 1) with (top m + 3) by lia.
  replace (top m + 4 - 2) with (top m + 2) by lia.
  replace (top m + 4 - 3) with (top m + 1) by lia.
  rewrite !sref_app_l by lia. rewrite !Hsv by lia.
  split; [reflexivity|].
  split.
  { unfold s4. rewrite sref_sset_same by (rewrite !sset_length; lia). reflexivity. }
  split.
  { unfold s4. rewrite sref_sset_other by lia. rewrite sref_sset_same by (rewrite !sset_length; lia). reflexivity. }
  split.
  { unfold s4. rewrite !(sref_sset_other _ (top m + 3)) by lia. rewrite !(sref_sset_other _ (top m + 2)) by lia.
    rewrite sref_sset_same by (rewrite !sset_length; lia). reflexivity. }
  split.
  { rewrite sset_length, app_length, skipn_length. lia. }
  split.
  { intros i Hi. rewrite sref_sset_other by lia. rewrite sref_app_l by lia. rewrite Hsv by lia.
    unfold s4. rewrite !sref_sset_other by lia. reflexivity. }
  split.
  { rewrite sref_sset_same; [reflexivity|]. rewrite app_length, skipn_length. lia. }
  intros i Hi. rewrite sref_sset_other by lia.
  rewrite <- Lsv in *. rewrite sref_app_skipn by lia. reflexivity.
Qed.

Example ex_callcc_resume :
  let m := mkVM ([WObj 7; WFix 5; WObj 9] ++ repeat (WFix 0) 80) 3 1 (WObj 3) 12 in
  let '(m1, saved) := callcc m (WObj 100) in
  let m2 := mkVM ([WObj 1; WObj 2; WFix 42; WObj 4; WObj 5] ++ repeat (WObj 6) 78) 5 3 (WObj 8) 99 in
  option_map (fun m3 => (top m3, fp m3, self m3, ip m3, firstn 3 (stack m3))) (resumecc m2 saved)
  = Some (3, 1, WObj 3, 12, [WObj 7; WFix 5; WFix 42]).
Proof. vm_compute. reflexivity. Qed.

(** ------------------------------------------------------------------ the growth path (round 3) *)
Lemma grow_size_ge : forall size mn maxs n, size <= maxs -> grow_size size mn maxs = Some n -> mn <= n /\ size <= n.
Proof.
  intros size mn maxs n Hm H. unfold grow_size in H.
  destruct (Nat.ltb (size * 2) mn) eqn:E1.
  - apply Nat.ltb_lt in E1.
    destruct (Nat.ltb maxs mn) eqn:E2.
    + rewrite Bool.orb_true_r in H. discriminate.
    + apply Nat.ltb_ge in E2. injection H as <-. lia.
  - apply Nat.ltb_ge in E1.
    destruct (Nat.ltb maxs (size * 2)) eqn:E2.
    + destruct (Nat.eqb size maxs) eqn:E3; [discriminate|].
      destruct (Nat.ltb maxs mn) eqn:E4; [discriminate|].
      cbn in H. injection H as <-. apply Nat.ltb_ge in E4. lia.
    + apply Nat.ltb_ge in E2. injection H as <-. lia.
Qed.

Lemma grow_stack_length : forall s t mn maxs junk s', t + 2 <= length s -> length s <= maxs ->
  grow_stack s t mn maxs junk = Some s' -> mn <= length s' /\ length s <= length s'.
Proof.
  intros s t mn maxs junk s' Ht Hm H. unfold grow_stack in H.
  destruct (grow_size (length s) mn maxs) as [n|] eqn:G; [|discriminate].
  apply grow_size_ge in G; [|exact Hm]. injection H as <-.
  rewrite app_length, !firstn_length, app_length, repeat_length. lia.
Qed.

(** the theorem of round 1 WITHOUT its no-growth premise, for the repaired opcode: capture in [m]; ANY later VM state
    [m2] (of any stack size, e.g. the fresh 1024-word stack of another green thread) — if the restore does not report
    out-of-stack, RESUMECC yields top, fp, self, ip as captured, every word below the call/cc slot as captured and the
    passed value in the slot; the stack is at least as long as before *)
Theorem callcc_resume_restores_grown_lemma : forall m kobj m1 saved m2 maxs junk m3,
  1 <= top m -> top m + 4 <= length (stack m) ->
  callcc m kobj = (m1, saved) ->
  top m2 + 2 <= length (stack m2) -> length (stack m2) <= maxs ->
  resumecc_g m2 saved maxs junk = Some m3 ->
    top m3 = top m /\ fp m3 = fp m /\ self m3 = self m /\ ip m3 = ip m /\
    length (stack m2) <= length (stack m3) /\ top m + 4 + 64 <= length (stack m3) /\
    (forall i, i < top m - 1 -> sref (stack m3) i = sref (stack m) i) /\
    sref (stack m3) (top m - 1) = sref (stack m2) (fp m2 - 1).
Proof.
  intros m kobj m1 saved m2 maxs junk m3 Ht Hl Hc Ht2 Hm2 Hr.
  unfold callcc in Hc. injection Hc as _ Hs.
  set (s4 := sset (sset (sset (sset (stack m) (top m) (WFix 1)) (top m + 1) (WFix (ip m))) (top m + 2) (self m))
                  (top m + 3) (WFix (fp m))) in *.
  assert (L4 : length s4 = length (stack m)) by (unfold s4; rewrite !sset_length; reflexivity).
  assert (Lsv : length saved = top m + 4).
  { rewrite <- Hs. unfold save_stack. rewrite firstn_length. lia. }
  assert (Hsv : forall i, i < top m + 4 -> sref saved i = sref s4 i).
  { intros i Hi. rewrite <- Hs. unfold save_stack. apply sref_firstn. exact Hi. }
  unfold resumecc_g, restore_stack_g in Hr. rewrite Lsv in Hr.
  (* in both branches the restored stack is saved ++ skipn len s' with length s' >= len + 64 *)
  assert (Hex : exists s', length (stack m2) <= length s' /\ top m + 4 + 64 <= length s' /\
            m3 = mkVM (sset (saved ++ skipn (top m + 4) s') (top m + 4 - 4 - 1) (sref (stack m2) (fp m2 - 1))) (top m + 4 - 4)
                      (unfix (sref (saved ++ skipn (top m + 4) s') (top m + 4 - 1)))
                      (sref (saved ++ skipn (top m + 4) s') (top m + 4 - 2))
                      (unfix (sref (saved ++ skipn (top m + 4) s') (top m + 4 - 3)))).
  { destruct (Nat.leb (length (stack m2)) (top m + 4 + 64)) eqn:E.
    - destruct (grow_stack (stack m2) (top m2) (top m + 4 + 64) maxs junk) as [s'|] eqn:G; [|discriminate].
      injection Hr as <-. exists s'. apply grow_stack_length in G; [|exact Ht2|exact Hm2]. repeat split; lia.
    - injection Hr as <-. apply Nat.leb_gt in E. exists (stack m2). repeat split; lia. }
  destruct Hex as (s' & Hl1 & Hl2 & ->). cbn [top fp self ip stack].
  replace (top m + 4 - 4) with (top m) by lia.
  replace (top m + 4 - 1) with (top m + 3) by lia.
  replace (top m + 4 - 2) with (top m + 2) by lia.
  replace (top m + 4 - 3) with (top m + 1) by lia.
  rewrite !sref_app_l by lia. rewrite !Hsv by lia.
  split; [reflexivity|].
  split.
  { unfold s4. rewrite sref_sset_same by (rewrite !sset_length; lia). reflexivity. }
  split.
  { unfold s4. rewrite sref_sset_other by lia. rewrite sref_sset_same by (rewrite !sset_length; lia). reflexivity. }
  split.
  { unfold s4. rewrite !(sref_sset_other _ (top m + 3)) by lia. rewrite !(sref_sset_other _ (top m + 2)) by lia.
    rewrite sref_sset_same by (rewrite !sset_length; lia). reflexivity. }
  assert (Ln : length (saved ++ skipn (top m + 4) s') = length s').
  { rewrite app_length, skipn_length. lia. }
  split; [rewrite sset_length, Ln; lia|].
  split; [rewrite sset_length, Ln; lia|].
  split.
  { intros i Hi. rewrite sref_sset_other by lia. rewrite sref_app_l by lia. rewrite Hsv by lia.
    unfold s4. rewrite !sref_sset_other by lia. reflexivity. }
  rewrite sref_sset_same; [reflexivity|]. rewrite Ln. lia.
Qed.

(** non-vacuity + the defect of the pinned opcode: a continuation captured on a deep stack (top 74) and resumed on a
    fresh small stack (length 70: growth needed).  The repaired opcode restores fp = 1, self = obj 3, ip = 12; the
    pinned one reads them from the old stack object (here: beyond its end) *)
Definition ex_deep : vm := mkVM ([WObj 7; WFix 5] ++ repeat (WObj 9) 72 ++ repeat (WFix 0) 80) 74 1 (WObj 3) 12.
Definition ex_small : vm := mkVM ([WObj 1; WObj 2; WFix 42; WObj 4; WObj 5] ++ repeat (WObj 6) 65) 5 3 (WObj 8) 99.

Example ex_resume_grown :
  let '(m1, saved) := callcc ex_deep (WObj 100) in
  option_map (fun m3 => (top m3, fp m3, self m3, ip m3, length (stack m3), sref (stack m3) 73))
             (resumecc_g ex_small saved 5000 [])
  = Some (74, 1, WObj 3, 12, 142, WFix 42).
Proof. vm_compute. reflexivity. Qed.

(** "RESUMECC of the pinned code restores the captured registers on every stack" is FALSE when the stack has to grow *)
Theorem resumecc_stale_stack_refuted_lemma :
  ~ (forall m kobj m1 saved m2 maxs junk m3,
       1 <= top m -> top m + 4 <= length (stack m) -> callcc m kobj = (m1, saved) ->
       top m2 + 2 <= length (stack m2) -> length (stack m2) <= maxs ->
       resumecc_stale m2 saved maxs junk = Some m3 ->
       fp m3 = fp m /\ self m3 = self m /\ ip m3 = ip m).
Proof.
  intro H.
  destruct (callcc ex_deep (WObj 100)) as [m1 saved] eqn:Hc.
  destruct (resumecc_stale ex_small saved 5000 []) as [m3|] eqn:Hr.
  - specialize (H ex_deep (WObj 100) m1 saved ex_small 5000 [] m3).
    assert (A1 : 1 <= top ex_deep) by (cbn; lia).
    assert (A2 : top ex_deep + 4 <= length (stack ex_deep)) by (vm_compute; lia).
    assert (A3 : top ex_small + 2 <= length (stack ex_small)) by (vm_compute; lia).
    assert (A4 : length (stack ex_small) <= 5000).
    { apply Nat.leb_le. vm_compute. reflexivity. }
    specialize (H A1 A2 Hc A3 A4 Hr). destruct H as (_ & Hself & _).
    vm_compute in Hc. injection Hc as <- <-. vm_compute in Hr. injection Hr as <-. cbn in Hself. discriminate.
  - vm_compute in Hc. injection Hc as <- <-. vm_compute in Hr. discriminate.
Qed.
