(** C06 — SPEC of winding: the R7RS wind script between two points of the extent tree.
    Short mathematical object: chains to the root, longest common suffix removed, afters of the
    source side innermost first, then befores of the target side outermost first. *)
From Coq Require Import List Arith Lia Bool.
From ChibiV Require Import C06.Defs.
Import ListNotations.

(** well-formed heap of points: address 0 is the root (depth 0); every other point was made by
    dynamic-wind from an older point: parent address smaller, depth one more than the parent's
    (init-7.scm:800-803). *)
Definition wf_heap (h : heap) : Prop :=
  depth h 0 = 0 /\
  forall p, 0 < p -> p < length h -> parent h p < p /\ depth h p = S (depth h (parent h p)).

(** [chain h n p]: p, parent p, ... (n points) *)
Fixpoint chain (h : heap) (n : nat) (p : nat) : list nat :=
  match n with
  | O => []
  | S n' => p :: chain h n' (parent h p)
  end.

(** the extents a point lies in, innermost first, root excluded *)
Definition chainp (h : heap) (p : nat) : list nat := chain h (depth h p) p.

Fixpoint strip_common (x y : list nat) : list nat * list nat :=
  match x, y with
  | a :: x', b :: y' => if Nat.eqb a b then strip_common x' y' else (x, y)
  | _, _ => (x, y)
  end.

(** the wind script: leave [here]'s extents that do not contain [target] (innermost first), then
    enter [target]'s extents that do not contain [here] (outermost first) *)
Definition wind_script (h : heap) (here target : nat) : list wev :=
  let ab := strip_common (rev (chainp h here)) (rev (chainp h target)) in
  map WOut (rev (fst ab)) ++ map WIn (snd ab).

Definition travel_fuel (h : heap) (here target : nat) : nat := depth h here + depth h target + 1.
