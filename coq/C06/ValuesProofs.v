(** C06 — multiple values reach the consumer intact, also through a continuation. *)
From Coq Require Import List.
From ChibiV Require Import C06.ValuesModel.
Import ListNotations.

(** premise [single_ordinary]: when exactly ONE value is passed it is an ordinary object, not itself a
    multiple-values object (chibi splices such a value: R7RS leaves "multiple values to a one-value continuation"
    undefined, and (values (values 1 2)) is that case) *)
Definition single_ordinary (ls : list mval) : Prop := forall x, ls = [x] -> ordinary x = true.

Lemma cwv_pct_values : forall ls, single_ordinary ls -> cwv_args (pct_values ls) = ls.
Proof.
  intros ls H. destruct ls as [|x [|y r]]; cbn; try reflexivity.
  specialize (H x eq_refl). destruct x; [reflexivity|discriminate].
Qed.

(** (call-with-values (lambda () (values v ...)) consumer) applies consumer to exactly v ... — any number of values,
    zero and one included *)
Theorem values_reach_consumer_lemma : forall ls, single_ordinary ls -> cwv_args (values ls) = ls.
Proof. exact cwv_pct_values. Qed.

(** (call-with-values (lambda () (call/cc (lambda (k) ... (k v ...) ...))) consumer): invoking the continuation procedure
    with the arguments v ... — now or after the call/cc has returned (re-entry) — applies consumer to exactly v ... *)
Theorem values_through_continuation_lemma : forall res, single_ordinary res -> cwv_args (cont_deliver res) = res.
Proof. exact cwv_pct_values. Qed.

(** the premise is needed: one value that is itself a multiple-values object is spliced *)
Theorem values_single_tagged_spliced_lemma :
  cwv_args (values [MTagged [MObj 1; MObj 2]]) = [MObj 1; MObj 2].
Proof. reflexivity. Qed.

Example ex_values : cwv_args (cont_deliver [MObj 0; MObj 7; MObj 0]) = [MObj 0; MObj 7; MObj 0]
                    /\ cwv_args (cont_deliver []) = [] /\ cwv_args (cont_deliver [MObj 5]) = [MObj 5].
Proof. repeat split. Qed.

(** the multiple-values print mode of the trace correspondence (props/C06.py mv_mode): every call/cc receiver is
    [(call-with-values (lambda () (call/cc ...)) (lambda vs (apply + vs)))] and a throw of the model's value [v] passes
    numbers [vs] with sum [v] ((k v 0), (k 0 v 0), (apply k (list v 0)) ...).  Under this model of values the consumer
    computes exactly [v], for EVERY such list — so an mv script means what the one-value script of the machine means. *)
Definition obj_num (x : mval) : nat := match x with MObj n => n | MTagged _ => 0 end.
Definition sum_consumer (args : list mval) : nat := fold_right (fun x acc => obj_num x + acc) 0 args.

Theorem mv_encoding_sound_lemma : forall vs : list nat,
  sum_consumer (cwv_args (cont_deliver (map MObj vs))) = list_sum vs.
Proof.
  intro vs. rewrite values_through_continuation_lemma.
  - induction vs as [|v r IH]; cbn; [reflexivity|]. unfold sum_consumer in IH. rewrite IH. reflexivity.
  - intros x H. destruct vs as [|v [|w r]]; cbn in H; try discriminate. injection H as <-. reflexivity.
Qed.
