(** C06 — property theorems about the machine (statements used by Properties_C06.v). *)
From Coq Require Import List Arith Lia Bool.
From ChibiV Require Import C06.Defs C06.WindSpec Gen.C06_Travel C06.WindProofs C06.Machine C06.MachineProofs.
Import ListNotations.

(** ---------------------------------------------------------------- the machine over the regenerated travel-to-point!
    and the machine over the SPEC wind script are the same machine on every reachable state *)
Section TwoTravels.
Variables t1 t2 : heap -> nat -> nat -> nat -> tr.
Hypothesis ok1 : forall h here target, wf_heap h -> here < length h -> target < length h ->
  t1 h (travel_fuel h here target) here target = Some (wind_script h here target).
Hypothesis ok2 : forall h here target, wf_heap h -> here < length h -> target < length h ->
  t2 h (travel_fuel h here target) here target = Some (wind_script h here target).

Lemma do_throw_eq : forall s idx v, Inv s -> do_throw t1 s idx v = do_throw t2 s idx v.
Proof.
  intros s idx v HI. pose proof HI as (Hok & Hk & Hd & Hpa & Hcs). pose proof Hok as (Hwf & Hl & _).
  unfold do_throw. destruct (nth_error (conts s) idx) as [[kk pt]|] eqn:E; [|reflexivity].
  assert (Hc : cont_ok (hp s) (kk, pt)).
  { rewrite Forall_forall in Hcs. apply Hcs. eapply nth_error_In; eauto. }
  destruct Hc as [Hkk Hpt]. cbn in Hkk, Hpt.
  assert (Hdl : dk s < length (hp s)) by (rewrite Hd; apply kont_point_lt; auto).
  assert (Hptl : pt < length (hp s)) by (rewrite Hpt; apply kont_point_lt; auto).
  rewrite ok1, ok2 by auto. reflexivity.
Qed.

Lemma do_raise_eq : forall s k c v, Invk s k -> do_raise t1 s k c v = do_raise t2 s k c v.
Proof.
  intros s k c v HI. unfold do_raise.
  destruct (lookup_handler (params s)) as [[hb orig]|]; [|reflexivity].
  destruct hb as [tag e|gk only tag e]; [reflexivity|].
  apply do_throw_eq.
  pose proof (do_wind_inv s k [ASetParams (BHandler orig :: params s)] [ASetParams (params s)]
                          [FCallThunk; FHandlerDone c] (CRet (VNat 0)) HI) as H.
  specialize (H ltac:(right; eauto) ltac:(repeat constructor)).
  destruct H as (A & B & C & D & E).
  unfold Inv, Invk, inv. cbn [hp kont dk params conts].
  split; [exact A|]. split; [exact B|]. split; [exact C|]. split; [exact D|].
  apply conts_snoc; auto.
Qed.

Lemma step_eq : forall s, Inv s -> step t1 s = step t2 s.
Proof.
  intros s HI. unfold step. destruct (st s); try reflexivity.
  destruct (ctl s) as [e|v] eqn:C.
  - unfold step_eval. destruct e; reflexivity.
  - unfold step_ret. destruct (kont s) as [|f k] eqn:K; [reflexivity|].
    unfold Inv in HI. rewrite K in HI.
    destruct f; try reflexivity.
    + destruct v; try reflexivity.
      destruct (assoc k0 (slots s)); [|reflexivity].
      destruct (Nat.ltb (count_of k0 (counts s)) limit); [|reflexivity].
      apply do_throw_eq. refine (nonwind_pop _ _ _ _ _ _ _ HI); exact I.
    + destruct v; try reflexivity. apply do_raise_eq. refine (nonwind_pop _ _ _ _ _ _ _ HI); exact I.
    + destruct c; [reflexivity|]. apply do_raise_eq. refine (nonwind_pop _ _ _ _ _ _ _ HI); exact I.
    + assert (HI' : Invk s k) by (refine (nonwind_pop _ _ _ _ _ _ _ HI); exact I).
      destruct v; try reflexivity.
      * destruct (clause_test only payload); [reflexivity|]. apply do_throw_eq. exact HI'.
      * apply do_raise_eq. exact HI'.
    + destruct v; try reflexivity. apply do_throw_eq. refine (nonwind_pop _ _ _ _ _ _ _ HI); exact I.
Qed.

Lemma run_eq : forall n s, Inv s -> run t1 n s = run t2 n s.
Proof.
  induction n as [|n IH]; intros s HI; cbn; [reflexivity|].
  destruct (st s); auto. rewrite (step_eq s HI). apply IH. apply step_inv; auto.
Qed.
End TwoTravels.

Theorem machine_impl_eq_spec_lemma : forall n e, run_impl n (init e) = run_spec n (init e).
Proof.
  intros. unfold run_impl, run_spec. apply run_eq.
  - exact travel_impl_ok.
  - exact travel_spec_ok.
  - apply init_inv.
Qed.

(** ---------------------------------------------------------------- reachable states of the implementation machine *)
Definition reachable (s : state) : Prop := exists n e, s = run_impl n (init e).

Lemma reachable_inv : forall s, reachable s -> Inv s.
Proof. intros s (n & e & ->). apply run_inv; [exact travel_impl_ok|apply init_inv]. Qed.

(** wind order: whenever a continuation procedure (kk, pt) is invoked in a reachable state, exactly the
    before/after thunks of the R7RS script between the two CONTINUATIONS' dynamic-wind frames run — afters of
    the frames only in the current continuation innermost first, then befores of the frames only in the target
    outermost first — and afterwards (%dk) is the target's innermost extent and the parameters are the target's *)
Theorem machine_wind_order_lemma : forall s idx v kk pt, reachable s -> nth_error (conts s) idx = Some (kk, pt) ->
  let po := run_wevs (hp s) (frames_script (kont s) kk) (params s) (out s) in
  do_throw travel_to_point s idx v =
    mkS (CRet v) kk (kont_point kk) (fst po) (hp s) (conts s) (slots s) (counts s) (snd po) (st s)
  /\ fst po = point_params (hp s) (kont_point kk).
Proof.
  intros s idx v kk pt Hr E. apply (do_throw_r7rs travel_to_point travel_impl_ok s idx v kk pt); auto.
  apply reachable_inv. exact Hr.
Qed.

(** (%dk) always is the innermost dynamic-wind frame of the current continuation; the heap chain of that point is
    exactly the continuation's list of dynamic-wind frames *)
Theorem dk_is_continuation_extent_lemma : forall s, reachable s ->
  dk s = kont_point (kont s) /\ chainp (hp s) (dk s) = kont_winds (kont s).
Proof.
  intros s Hr. destruct (reachable_inv s Hr) as (Hok & Hk & Hd & _). split; [exact Hd|].
  rewrite Hd. apply kont_chain; auto.
Qed.

(** parameters: in every reachable state the thread-parameters alist is the one of the extent the current
    CONTINUATION is in (fixed when that extent was created; independent of how control got here) *)
Theorem param_value_is_extent_value_lemma : forall s p, reachable s ->
  lookup_param p (params s) = lookup_param p (point_params (hp s) (kont_point (kont s))).
Proof.
  intros s p Hr. destruct (reachable_inv s Hr) as (_ & _ & Hd & Hpa & _). rewrite Hpa, Hd. reflexivity.
Qed.

(** ... and parameterize creates an extent whose alist is the binding consed on the alist at entry *)
Theorem parameterize_binds_lemma : forall s p n body k, reachable s -> st s = Running ->
  ctl s = CRet (VNat n) -> kont s = FParamVal p body :: k ->
  let s' := step_impl s in
  ctl s' = CEval body /\ params s' = BParam p n :: params s /\
  point_params (hp s') (kont_point (kont s')) = BParam p n :: params s /\
  kont s' = FWindExit (length (hp s)) (dk s) [ASetParams (params s)] :: k.
Proof.
  intros s p n body k Hr Hst Hc Hk.
  assert (HI' : Inv (step_impl s)).
  { apply step_inv; [exact travel_impl_ok|apply reachable_inv; exact Hr]. }
  destruct HI' as (_ & _ & Hd & Hpa & _). revert Hd Hpa.
  unfold step_impl, step. rewrite Hst, Hc. unfold step_ret. rewrite Hk.
  unfold do_wind. cbn [ctl kont dk params hp run_actions fst snd app].
  intros Hd Hpa. cbn [kont_point]. rewrite <- Hpa. repeat split; reflexivity.
Qed.

(** handlers: a handler installed by with-exception-handler is entered with, as current handler, the handler that
    was current when it was installed ([orig]), with the parameters of the raise point, on top of the raise point's
    continuation *)
Theorem handler_runs_in_outer_handler_context_lemma : forall travel s k c v tag e orig,
  lookup_handler (params s) = Some (HC (HUser tag e) orig) ->
  let s' := do_raise travel s k c v in
  ctl s' = CEval e /\ lookup_handler (params s') = orig /\
  (forall p, lookup_param p (params s') = lookup_param p (params s)) /\
  kont s' = FHandlerDone c :: FWindExit (length (hp s)) (dk s) [ASetParams (params s)] :: k /\
  out s' = (6, v) :: (5, tag) :: out s.
Proof.
  intros travel s k c v tag e orig H. unfold do_raise. rewrite H. cbn. repeat split; reflexivity.
Qed.

Theorem handler_installed_with_current_lemma : forall s tag h body, st s = Running -> ctl s = CEval (WithHandler tag h body) ->
  lookup_handler (params (step_impl s)) = Some (HC (HUser tag h) (lookup_handler (params s))).
Proof.
  intros s tag h body Hst Hc. unfold step_impl, step. rewrite Hst, Hc. reflexivity.
Qed.

(** raise-continuable: when the handler body returns r to the frames pushed by the raise, two steps later r is
    returned to the raise point's continuation k with (%dk) and the parameters of the raise point *)
Theorem raise_continuable_returns_to_raise_point_lemma : forall travel s k v tag e orig s2 r,
  lookup_handler (params s) = Some (HC (HUser tag e) orig) ->
  let s1 := do_raise travel s k true v in
  st s2 = Running -> ctl s2 = CRet r -> kont s2 = kont s1 ->
  let s4 := step travel (step travel s2) in
  ctl s4 = CRet r /\ kont s4 = k /\ dk s4 = dk s /\ params s4 = params s /\ out s4 = out s2.
Proof.
  intros travel s k v tag e orig s2 r H s1 Hst Hc Hk.
  assert (Hk1 : kont s1 = FHandlerDone true :: FWindExit (length (hp s)) (dk s) [ASetParams (params s)] :: k).
  { unfold s1, do_raise. rewrite H. reflexivity. }
  rewrite Hk1 in Hk.
  unfold step at 2. rewrite Hst, Hc. unfold step_ret. rewrite Hk.
  unfold with_ck. unfold step. cbn [st ctl kont]. rewrite Hst. unfold step_ret. cbn [kont].
  cbn. repeat split; reflexivity.
Qed.

(** raise (non-continuable): if the handler returns, a secondary exception is raised in the handler's context,
    i.e. it goes to the OUTER handler *)
Theorem raise_handler_return_is_secondary_error_lemma : forall travel s2 k r,
  st s2 = Running -> ctl s2 = CRet r -> kont s2 = FHandlerDone false :: k ->
  step travel s2 = do_raise travel s2 k false ERRV.
Proof.
  intros travel s2 k r Hst Hc Hk. unfold step. rewrite Hst, Hc. unfold step_ret. rewrite Hk. reflexivity.
Qed.

(** ---------------------------------------------------------------- non-vacuity *)
Definition ex_script : exp :=
  Show (CallCC 0 (WithHandler 99 (Throw 0 99 (Const 98))
    (Seq (Parameterize 0 (Const 7) (DynWind 6 (Seq (CallCC 1 (PRef 0)) (PRef 0))))
         (Seq (PRef 0) (Throw 1 2 (PRef 0)))))).

Example ex_script_runs :
  run_script_impl 300 ex_script =
    (1, [(1,6); (10,7); (10,7); (2,6); (10,0); (10,0); (1,6); (10,7); (2,6); (10,0); (10,0); (1,6); (10,7); (2,6); (10,0); (10,0); (3,0)]).
Proof. vm_compute. reflexivity. Qed.

Example ex_handler : run_script_impl 300
   (WithHandler 1 (Const 6) (WithHandler 2 (RaiseC (Const 2)) (Show (RaiseC (Const 1))))) =
   (1, [(5,2); (6,1); (5,1); (6,2); (3,6)]).
Proof. vm_compute. reflexivity. Qed.

(** ---------------------------------------------------------------- REFUTED: procedures called back from C are not transparent
    Full statement that R7RS requires and that FAILS for the mirrored implementation:
      forall n e, run_script_impl n e = run_script_impl n (erase_ccall e)
    (a procedure that C code calls back — sort comparator, hash function, macro transformer under eval — behaves
    like any other procedure w.r.t. escapes).  Witness: escape by call/cc from inside the callback, then let the
    program finish: the VM loop that finishes is the NESTED one, so control returns into the C caller whose Scheme
    stack has been replaced (observed on the real binary: SIGSEGV at exit, or the program tail runs twice). *)
Definition ex_ccall : exp := Seq (Show (CallCC 1 (CCall (Throw 1 1 (Const 5))))) (Mark 1).

Theorem c_callback_transparent_refuted_lemma :
  ~ (forall n e, run_script_impl n e = run_script_impl n (erase_ccall e)).
Proof.
  intro H. specialize (H 100 ex_ccall). vm_compute in H. discriminate H.
Qed.

Example ex_ccall_runs :
  run_script_impl 100 ex_ccall = (10 + STALE_C_FRAME, [(3,5); (0,1)]) /\
  run_script_impl 100 (erase_ccall ex_ccall) = (1, [(3,5); (0,1)]).
Proof. split; vm_compute; reflexivity. Qed.

(** ---------------------------------------------------------------- guard: the clause thunk is delivered to the guard's continuation
    When a raise in a reachable state finds the handler installed by a guard form (HGuard gk ...), one machine step
    later: the continuation is guard-k (the one captured when the guard form was entered), (%dk) and the parameters are
    those of guard-k's extent (the dynamic environment of the guard expression), the value is the clause thunk carrying the
    condition, and handler-k — the continuation INSIDE the handler call at the raise point, to which a non-matching
    clause re-enters in order to raise-continuable again — has been recorded. *)
Theorem guard_handler_escapes_to_guard_context_lemma : forall s0 c v k gk only tag e orig kk pt,
  reachable s0 -> st s0 = Running -> ctl s0 = CRet (VNat v) -> kont s0 = FRaise c :: k ->
  lookup_handler (params s0) = Some (HC (HGuard gk only tag e) orig) ->
  nth_error (conts s0) gk = Some (kk, pt) ->
  let s' := step_impl s0 in
  ctl s' = CRet (VClauseThunk only tag e v (length (conts s0))) /\ kont s' = kk /\ dk s' = kont_point kk /\
  params s' = point_params (hp s') (kont_point kk) /\
  nth_error (conts s') (length (conts s0)) =
    Some (FCallThunk :: FHandlerDone c :: FWindExit (length (hp s0)) (dk s0) [ASetParams (params s0)] :: k, length (hp s0)) /\
  hp s' = hp s0 ++ [mkP (depth (hp s0) (dk s0) + 1) [ASetParams (BHandler orig :: params s0)] [ASetParams (params s0)] (dk s0)] /\
  st s' = Running.
Proof.
  intros s0 c v k gk only tag e orig kk pt Hr Hst Hc Hk Hh Hn.
  assert (HI : Invk s0 k).
  { pose proof (reachable_inv s0 Hr) as HI. unfold Inv in HI. rewrite Hk in HI.
    refine (nonwind_pop _ _ _ _ _ _ _ HI); exact I. }
  unfold step_impl, step. rewrite Hst, Hc. unfold step_ret. rewrite Hk. unfold do_raise. rewrite Hh.
  set (s1 := do_wind s0 k [ASetParams (BHandler orig :: params s0)] [ASetParams (params s0)]
                     [FCallThunk; FHandlerDone c] (CRet (VNat 0))).
  set (s2 := mkS (ctl s1) (kont s1) (dk s1) (params s1) (hp s1) (conts s1 ++ [(kont s1, dk s1)])
                 (slots s1) (counts s1) (out s1) (st s1)).
  assert (HI2 : Inv s2).
  { pose proof (do_wind_inv s0 k [ASetParams (BHandler orig :: params s0)] [ASetParams (params s0)]
                            [FCallThunk; FHandlerDone c] (CRet (VNat 0)) HI) as H.
    specialize (H ltac:(right; eauto) ltac:(repeat constructor)). fold s1 in H.
    destruct H as (A & B & C & D & E).
    unfold Inv, Invk, inv, s2. cbn [hp kont dk params conts].
    split; [exact A|]. split; [exact B|]. split; [exact C|]. split; [exact D|]. apply conts_snoc; auto. }
  assert (Hn2 : nth_error (conts s2) gk = Some (kk, pt)).
  { unfold s2. cbn [conts]. unfold s1, do_wind. cbn [conts].
    rewrite nth_error_app1; [exact Hn|]. apply nth_error_Some. rewrite Hn. discriminate. }
  destruct (do_throw_r7rs travel_to_point travel_impl_ok s2 gk (VClauseThunk only tag e v (length (conts s1))) kk pt HI2 Hn2)
    as [E1 E2].
  rewrite E1. cbn [ctl kont dk params hp conts st]. rewrite E2.
  split; [reflexivity|]. split; [reflexivity|]. split; [reflexivity|]. split; [reflexivity|].
  split; [|split; [reflexivity|exact Hst]].
  unfold s2, s1, do_wind. cbn [conts kont dk hp app].
  rewrite nth_error_app2 by lia. rewrite Nat.sub_diag. reflexivity.
Qed.

(** the guard form records guard-k = (the application frame over the guard's own continuation, the current extent) and
    installs its handler with, as [orig], the handler current at the guard form *)
Theorem guard_installs_lemma : forall s only tag h body, st s = Running -> ctl s = CEval (Guard only tag h body) ->
  let s' := step_impl s in
  nth_error (conts s') (length (conts s)) = Some (FCallThunk :: kont s, dk s) /\
  lookup_handler (params s') = Some (HC (HGuard (length (conts s)) only tag h) (lookup_handler (params s))) /\
  ctl s' = CEval body.
Proof.
  intros s only tag h body Hst Hc. unfold step_impl, step. rewrite Hst, Hc. unfold step_eval, do_wind.
  cbn [conts params ctl run_actions fst snd].
  rewrite nth_error_app2 by lia. rewrite Nat.sub_diag. repeat split; reflexivity.
Qed.

(** guard, clause does not match: the clause thunk (called in the guard expression's context) re-enters handler-k, i.e. the
    continuation INSIDE the handler call at the raise point — same extent (the one made by [self]'s
    %with-exception-handler: current handler = [orig], the handler outside the guard; parameters of the raise point) —
    and there the condition is raised again with raise-continuable, on top of the raise point's continuation *)
Theorem guard_reraise_in_raise_context_lemma : forall s0 c v k gk only tag e orig kg pt,
  reachable s0 -> st s0 = Running -> ctl s0 = CRet (VNat v) -> kont s0 = FRaise c :: k ->
  lookup_handler (params s0) = Some (HC (HGuard gk only tag e) orig) ->
  nth_error (conts s0) gk = Some (FCallThunk :: kg, pt) ->
  clause_test only v = false ->
  let kin := FHandlerDone c :: FWindExit (length (hp s0)) (dk s0) [ASetParams (params s0)] :: k in
  let s2 := step_impl (step_impl s0) in
  ctl s2 = CRet (VReraiseThunk v) /\ kont s2 = FCallThunk :: kin /\ dk s2 = length (hp s0) /\
  params s2 = BHandler orig :: params s0 /\ lookup_handler (params s2) = orig /\
  step_impl s2 = do_raise travel_to_point s2 kin true v.
Proof.
  intros s0 c v k gk only tag e orig kg pt Hr Hst Hc Hk Hh Hn Htest kin.
  destruct (guard_handler_escapes_to_guard_context_lemma s0 c v k gk only tag e orig _ _ Hr Hst Hc Hk Hh Hn)
    as (C1 & K1 & D1 & P1 & N1 & H1 & S1).
  assert (HI0 : Inv s0) by (apply reachable_inv; exact Hr).
  assert (HI1 : Inv (step_impl s0)) by (apply step_inv; [exact travel_impl_ok|exact HI0]).
  set (s1 := step_impl s0) in *.
  set (s1' := with_ck s1 (ctl s1) kg).
  assert (HI1' : Inv s1').
  { unfold Inv, Invk, s1', with_ck. cbn [hp kont dk params conts].
    unfold Inv, Invk in HI1. rewrite K1 in HI1. refine (nonwind_pop _ _ _ _ _ _ _ HI1); exact I. }
  assert (N1' : nth_error (conts s1') (length (conts s0)) = Some (FCallThunk :: kin, length (hp s0))) by exact N1.
  destruct (do_throw_r7rs travel_to_point travel_impl_ok s1' (length (conts s0)) (VReraiseThunk v) _ _ HI1' N1') as [E1 E2].
  assert (Hs2 : step_impl s1 = do_throw travel_to_point s1' (length (conts s0)) (VReraiseThunk v)).
  { unfold step_impl, step. rewrite S1, C1. unfold step_ret. rewrite K1, Htest. reflexivity. }
  cbv zeta. rewrite Hs2, E1. cbn [ctl kont dk params hp conts st kont_point kin].
  assert (Hpar : fst (run_wevs (hp s1') (frames_script (kont s1') (FCallThunk :: kin)) (params s1') (out s1'))
                 = BHandler orig :: params s0).
  { rewrite E2. cbn [kont_point kin]. unfold s1', with_ck. cbn [hp].
    destruct HI1 as (Hok1 & _). destruct HI0 as (Hok0 & _). pose proof Hok0 as (_ & Hl0 & _).
    rewrite (point_params_step (hp s1) (length (hp s0)) Hok1) by (rewrite ?H1, ?app_length; cbn; lia).
    rewrite H1, hget_new. reflexivity. }
  rewrite Hpar.
  split; [reflexivity|]. split; [reflexivity|]. split; [reflexivity|]. split; [reflexivity|]. split; [reflexivity|].
  unfold step_impl, step. cbn [st ctl kont]. unfold s1', with_ck. cbn [st]. rewrite S1.
  unfold step_ret. cbn [kont]. reflexivity.
Qed.

(** guard, clause matches: the clause body runs on the guard form's own continuation, in the guard form's extent
    ((%dk) and parameters of guard-k), after the winds between the raise point and the guard have been left *)
Theorem guard_clause_runs_in_guard_context_lemma : forall s0 c v k gk only tag e orig kg pt,
  reachable s0 -> st s0 = Running -> ctl s0 = CRet (VNat v) -> kont s0 = FRaise c :: k ->
  lookup_handler (params s0) = Some (HC (HGuard gk only tag e) orig) ->
  nth_error (conts s0) gk = Some (FCallThunk :: kg, pt) ->
  clause_test only v = true ->
  let s1 := step_impl s0 in let s2 := step_impl s1 in
  ctl s2 = CEval e /\ kont s2 = kg /\ dk s2 = kont_point kg /\
  params s2 = point_params (hp s2) (kont_point kg) /\ out s2 = (6, v) :: (7, tag) :: out s1 /\
  out s1 = snd (run_wevs (hp s1) (frames_script (FCallThunk :: FHandlerDone c :: FWindExit (length (hp s0)) (dk s0) [ASetParams (params s0)] :: k) (FCallThunk :: kg))
                         (BHandler orig :: params s0) (out s0)).
Proof.
  intros s0 c v k gk only tag e orig kg pt Hr Hst Hc Hk Hh Hn Htest.
  destruct (guard_handler_escapes_to_guard_context_lemma s0 c v k gk only tag e orig _ _ Hr Hst Hc Hk Hh Hn)
    as (C1 & K1 & D1 & P1 & N1 & H1 & S1).
  cbv zeta. set (s1 := step_impl s0) in *.
  assert (Hs2 : step_impl s1 = emit (emit (with_ck s1 (CEval e) kg) (7, tag)) (6, v)).
  { unfold step_impl, step. rewrite S1, C1. unfold step_ret. rewrite K1, Htest. reflexivity. }
  rewrite Hs2. unfold emit, with_ck. cbn [ctl kont dk params hp out].
  split; [reflexivity|]. split; [reflexivity|]. split; [exact D1|]. split; [exact P1|]. split; [reflexivity|].
  (* the events of the raise step itself: the wind script from inside the handler call to guard-k *)
  assert (HI : Invk s0 k).
  { pose proof (reachable_inv s0 Hr) as HI. unfold Inv in HI. rewrite Hk in HI.
    refine (nonwind_pop _ _ _ _ _ _ _ HI); exact I. }
  unfold s1, step_impl, step. rewrite Hst, Hc. unfold step_ret. rewrite Hk. unfold do_raise. rewrite Hh.
  set (w1 := do_wind s0 k [ASetParams (BHandler orig :: params s0)] [ASetParams (params s0)]
                     [FCallThunk; FHandlerDone c] (CRet (VNat 0))).
  set (w2 := mkS (ctl w1) (kont w1) (dk w1) (params w1) (hp w1) (conts w1 ++ [(kont w1, dk w1)])
                 (slots w1) (counts w1) (out w1) (st w1)).
  assert (HI2 : Inv w2).
  { pose proof (do_wind_inv s0 k [ASetParams (BHandler orig :: params s0)] [ASetParams (params s0)]
                            [FCallThunk; FHandlerDone c] (CRet (VNat 0)) HI) as H.
    specialize (H ltac:(right; eauto) ltac:(repeat constructor)). fold w1 in H.
    destruct H as (A & B & C & D & E).
    unfold Inv, Invk, inv, w2. cbn [hp kont dk params conts].
    split; [exact A|]. split; [exact B|]. split; [exact C|]. split; [exact D|]. apply conts_snoc; auto. }
  assert (Hn2 : nth_error (conts w2) gk = Some (FCallThunk :: kg, pt)).
  { unfold w2. cbn [conts]. unfold w1, do_wind. cbn [conts].
    rewrite nth_error_app1; [exact Hn|]. apply nth_error_Some. rewrite Hn. discriminate. }
  destruct (do_throw_r7rs travel_to_point travel_impl_ok w2 gk (VClauseThunk only tag e v (length (conts w1))) _ _ HI2 Hn2)
    as [E1 _].
  rewrite E1. cbn [out hp]. reflexivity.
Qed.

(** dynamic-wind without escapes: entry runs the before thunk once and opens a new extent under the current one; normal return
    of the body closes it and runs the after thunk once, giving the body's value to the dynamic-wind's continuation *)
Theorem dynamic_wind_normal_entry_exit_lemma :
  (forall s i body, st s = Running -> ctl s = CEval (DynWind i body) ->
     let s' := step_impl s in
     ctl s' = CEval body /\ out s' = (1, i) :: out s /\ dk s' = length (hp s) /\ params s' = params s /\
     kont s' = FWindExit (length (hp s)) (dk s) [AEmit 2 i] :: kont s /\
     hp s' = hp s ++ [mkP (depth (hp s) (dk s) + 1) [AEmit 1 i] [AEmit 2 i] (dk s)]) /\
  (forall s v np here i k, st s = Running -> ctl s = CRet v -> kont s = FWindExit np here [AEmit 2 i] :: k ->
     let s' := step_impl s in
     ctl s' = CRet v /\ out s' = (2, i) :: out s /\ dk s' = here /\ params s' = params s /\ kont s' = k /\ hp s' = hp s).
Proof.
  split.
  - intros s i body Hst Hc. unfold step_impl, step. rewrite Hst, Hc. cbn. repeat split; reflexivity.
  - intros s v np here i k Hst Hc Hk. unfold step_impl, step. rewrite Hst, Hc. unfold step_ret. rewrite Hk.
    cbn. repeat split; reflexivity.
Qed.

(** ---------------------------------------------------------------- the dynamic environment before/after thunks run in *)
Definition thunk_of (h : heap) (w : wev) : thunk :=
  match w with WIn p => pin (hget h p) | WOut p => pout (hget h p) end.

(** the parameter alist each thunk of a script is run with, when the script starts with [pa] *)
Fixpoint wevs_envs (h : heap) (ws : list wev) (pa : alist) : list (wev * alist) :=
  match ws with
  | [] => []
  | w :: r => (w, pa) :: wevs_envs h r (fst (run_actions (thunk_of h w) pa []))
  end.

Lemma run_actions_fst : forall t pa o o', fst (run_actions t pa o) = fst (run_actions t pa o').
Proof. induction t as [|[k v|a|p] t IH]; intros; cbn; auto. Qed.

Lemma run_wevs_fst : forall h ws pa o o', fst (run_wevs h ws pa o) = fst (run_wevs h ws pa o').
Proof.
  induction ws as [|w ws IH]; intros; cbn; auto.
  destruct w; cbn; rewrite (run_actions_fst _ pa o o'); apply IH.
Qed.

(** [wevs_envs] really is what the machine's [run_wevs] does: the trace it produces is the one obtained by running
    every thunk with the alist paired with it *)
Lemma run_wevs_uses_envs : forall h ws pa o,
  snd (run_wevs h ws pa o) =
  fold_left (fun o' we => snd (run_actions (thunk_of h (fst we)) (snd we) o')) (wevs_envs h ws pa) o.
Proof.
  induction ws as [|w ws IH]; intros pa o; [reflexivity|].
  cbn [wevs_envs fold_left fst snd].
  destruct w; cbn [run_wevs thunk_of]; rewrite IH;
    rewrite (run_actions_fst _ pa o []); reflexivity.
Qed.

Lemma wevs_envs_app : forall h a b pa,
  wevs_envs h (a ++ b) pa = wevs_envs h a pa ++ wevs_envs h b (fst (run_wevs h a pa [])).
Proof.
  induction a as [|w a IH]; intros b pa; [reflexivity|].
  cbn [app wevs_envs]. rewrite IH. f_equal. f_equal.
  destruct w; cbn [run_wevs thunk_of];
    rewrite (run_wevs_fst h a _ (snd (run_actions _ pa [])) []); reflexivity.
Qed.

Lemma out_thunk_params : forall h p o, heap_ok h -> 0 < p -> p < length h ->
  fst (run_actions (pout (hget h p)) (point_params h p) o) = point_params h (parent h p).
Proof.
  intros h p o Hok Hp Hl. pose proof Hok as (_ & _ & _ & Hth).
  destruct (Hth p Hp Hl) as [[Hi Ho]|(new & Hi & ->)]; [|reflexivity].
  rewrite silent_run by assumption.
  rewrite (point_params_step h p Hok Hp Hl), silent_head by assumption. reflexivity.
Qed.

(** R7RS: "the before and after thunks are called in the same dynamic environment as the call to dynamic-wind".
    Along the wind script between ANY two points of a machine heap, the before thunk of point p runs with the parameters
    in force at p's parent (where the dynamic-wind was called), the after thunk with the parameters in force at p —
    which for a user dynamic-wind (silent thunks) are again those of the parent *)
Theorem thunks_run_in_call_environment_lemma : forall h, heap_ok h -> forall here target,
  here < length h -> target < length h ->
  Forall (fun we => snd we = match fst we with
                             | WIn p => point_params h (parent h p)
                             | WOut p => point_params h p
                             end)
         (wevs_envs h (wind_script h here target) (point_params h here))
  /\ (forall p, 0 < p -> p < length h -> silent (pin (hget h p)) -> point_params h p = point_params h (parent h p)).
Proof.
  intros h Hok. pose proof Hok as (Hwf & Hl & H0 & Hth).
  assert (Hgen : forall n here target, depth h here + depth h target <= n -> here < length h -> target < length h ->
     Forall (fun we => snd we = match fst we with WIn p => point_params h (parent h p) | WOut p => point_params h p end)
            (wevs_envs h (wind_script h here target) (point_params h here))).
  { induction n as [|n IH]; intros here target Hn Hh Ht.
    - assert (here = 0) by (apply (depth_zero_root h); auto; lia).
      assert (target = 0) by (apply (depth_zero_root h); auto; lia). subst.
      rewrite wind_script_same. constructor.
    - destruct (Nat.eq_dec here target) as [->|Hne]; [rewrite wind_script_same; constructor|].
      destruct (Nat.lt_ge_cases (depth h here) (depth h target)) as [L|L].
      + assert (Hpos : 0 < target).
        { destruct target; [|lia]. destruct Hwf as [Hd0 _]. rewrite Hd0 in L. lia. }
        pose proof Hwf as [_ Hw]. destruct (Hw target Hpos Ht) as [Hpar Hdt].
        rewrite wind_script_in by auto. rewrite wevs_envs_app. apply Forall_app. split.
        * apply IH; auto; lia.
        * cbn [wevs_envs]. constructor; [|constructor]. cbn [fst snd].
          eapply script_params; eauto; lia.
      + destruct (wind_script_out h here target Hwf Hh Ht Hne L) as [Hpos ->].
        pose proof Hwf as [_ Hw]. destruct (Hw here Hpos Hh) as [Hpar Hdh].
        cbn [wevs_envs thunk_of]. constructor; [reflexivity|].
        rewrite out_thunk_params by auto. apply IH; auto; lia. }
  intros here target Hh Ht. split.
  - eapply Hgen; eauto.
  - intros p Hp Hpl Hs. rewrite (point_params_step h p Hok Hp Hpl), silent_head by assumption. reflexivity.
Qed.

Theorem thunks_run_in_call_environment_reachable : forall s here target, reachable s ->
  here < length (hp s) -> target < length (hp s) ->
  Forall (fun we => snd we = match fst we with
                             | WIn p => point_params (hp s) (parent (hp s) p)
                             | WOut p => point_params (hp s) p
                             end)
         (wevs_envs (hp s) (wind_script (hp s) here target) (point_params (hp s) here))
  /\ (forall p, 0 < p -> p < length (hp s) -> silent (pin (hget (hp s) p)) ->
        point_params (hp s) p = point_params (hp s) (parent (hp s) p)).
Proof.
  intros s here target Hr Hh Ht. destruct (reachable_inv s Hr) as (Hok & _).
  apply thunks_run_in_call_environment_lemma; auto.
Qed.
