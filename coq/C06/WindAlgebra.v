(** C06 — algebra of wind scripts: escape and re-entry are mirror images, travelling to oneself is a no-op,
    and the net number of extents entered is the depth difference. *)
From Coq Require Import List Arith Lia Bool.
From ChibiV Require Import C06.Defs C06.WindSpec Gen.C06_Travel C06.WindProofs.
Import ListNotations.

(** SPEC: the mirror of a wind event (before <-> after of the same point), and the "is a before" test *)
Definition flip_wev (w : wev) : wev := match w with WIn p => WOut p | WOut p => WIn p end.
Definition is_in (w : wev) : bool := match w with WIn _ => true | WOut _ => false end.

(** ---------------------------------------------------------------- strip_common is symmetric *)
Lemma strip_swap : forall x y,
  strip_common y x = (snd (strip_common x y), fst (strip_common x y)).
Proof.
  induction x as [|a x IH]; intros y.
  - destruct y as [|b y]; reflexivity.
  - destruct y as [|b y]; [reflexivity|].
    cbn [strip_common]. rewrite (Nat.eqb_sym b a).
    destruct (Nat.eqb a b) eqn:E.
    + apply IH.
    + reflexivity.
Qed.

Lemma flip_map_out : forall l, map flip_wev (map WOut l) = map WIn l.
Proof. intros l. rewrite map_map. apply map_ext. intros p. reflexivity. Qed.

Lemma flip_map_in : forall l, map flip_wev (map WIn l) = map WOut l.
Proof. intros l. rewrite map_map. apply map_ext. intros p. reflexivity. Qed.

(** 1. escape and re-entry are mirror images *)
Lemma wind_script_reverse_lemma : forall h here target,
  wind_script h target here = rev (map flip_wev (wind_script h here target)).
Proof.
  intros h here target. unfold wind_script.
  rewrite (strip_swap (rev (chainp h here)) (rev (chainp h target))).
  cbn [fst snd].
  rewrite map_app, rev_app_distr, flip_map_out, flip_map_in.
  rewrite <- !map_rev, rev_involutive. reflexivity.
Qed.

(** 2. the generated travel-to-point! does nothing when here = target *)
Lemma travel_self_noop_lemma : forall h fuel p, travel_to_point h (S fuel) p p = Some [].
Proof. intros h fuel p. cbn [travel_to_point]. rewrite Nat.eqb_refl. reflexivity. Qed.

(** 3. round trip: going back runs the mirror script *)
Lemma travel_round_trip_lemma : forall h, wf_heap h -> forall a b, a < length h -> b < length h ->
  exists s, travel_to_point h (travel_fuel h a b) a b = Some s /\
            travel_to_point h (travel_fuel h b a) b a = Some (rev (map flip_wev s)).
Proof.
  intros h Hwf a b Ha Hb. exists (wind_script h a b). split.
  - apply travel_total; assumption.
  - rewrite <- wind_script_reverse_lemma. apply travel_total; assumption.
Qed.

(** ---------------------------------------------------------------- filters on pure-out / pure-in lists *)
Lemma filter_in_out : forall l, filter is_in (map WOut l) = [].
Proof. induction l as [|p l IH]; [reflexivity|]. cbn [map filter is_in]. exact IH. Qed.

Lemma filter_in_in : forall l, filter is_in (map WIn l) = map WIn l.
Proof. induction l as [|p l IH]; [reflexivity|]. cbn [map filter is_in]. rewrite IH. reflexivity. Qed.

Lemma filter_out_out : forall l, filter (fun w => negb (is_in w)) (map WOut l) = map WOut l.
Proof. induction l as [|p l IH]; [reflexivity|]. cbn [map filter is_in negb]. rewrite IH. reflexivity. Qed.

Lemma filter_out_in : forall l, filter (fun w => negb (is_in w)) (map WIn l) = [].
Proof. induction l as [|p l IH]; [reflexivity|]. cbn [map filter is_in negb]. exact IH. Qed.

(** 4. net number of extents entered = depth difference *)
Lemma wind_script_depth_balance_lemma : forall h here target,
  wf_heap h -> here < length h -> target < length h ->
  let s := wind_script h here target in
  depth h here + length (filter is_in s) = depth h target + length (filter (fun w => negb (is_in w)) s).
Proof.
  intros h here target Hwf Hh Ht s. subst s.
  destruct (wind_script_minimal_lemma h here target Hwf Hh Ht) as (a & b & c & Ha & Hb & _ & Hs & _).
  rewrite Hs. rewrite !filter_app.
  rewrite filter_in_out, filter_in_in, filter_out_out, filter_out_in.
  rewrite app_nil_l, app_nil_r, !map_length, rev_length.
  rewrite <- (chainp_length h here), <- (chainp_length h target), Ha, Hb, !app_length. lia.
Qed.

(** 5. non-vacuity: the way back from 5 to 3 in [ex_heap] is the mirror of [ex_travel] *)
Example ex_wind_reverse : wind_script ex_heap 5 3 = [WOut 5; WOut 4; WIn 2; WIn 3].
Proof. vm_compute. reflexivity. Qed.

Example ex_wind_reverse_mirror :
  wind_script ex_heap 5 3 = rev (map flip_wev [WOut 3; WOut 2; WIn 4; WIn 5]).
Proof. vm_compute. reflexivity. Qed.
