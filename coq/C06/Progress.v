(** C06 — PROGRESS of the machine of Machine.v: from [init e], for EVERY script [e] and every number of steps, the
    machine never reaches a stuck state other than the modelled "stale C frame" (status [Stuck 9], which only scripts
    with [CCall] can reach).  In particular: every continuation index the machine ever dereferences (a k_i slot, the
    guard-k recorded in a guard's handler closure or in the [FGuardBodyDone] frame, the handler-k carried by a clause
    thunk) is bound in the continuation table ([Stuck 1] unreachable), travel-to-point! never runs out of fuel
    ([Stuck 2] unreachable, also for the REGENERATED travel_to_point, through [machine_impl_eq_spec]), and a frame
    never receives a value of the wrong sort — a number where the [((call/cc ...))] application of guard expects a
    thunk, or a thunk where a number is expected ([Stuck 3] unreachable).

    The proof is a typing invariant.  Sorts: numbers ([true]) and thunks ([false]).  [kaccb k t]: continuation [k]
    accepts a value of sort [t].  Validity of the continuation indexes stored anywhere in the state (handler closures
    inside parameter alists, alists inside the after-thunks of wind points and of [FWindExit] frames, frames of saved
    continuations) is stated relative to a predicate [G] on indexes, instantiated with "bound in the table to a
    continuation that accepts a thunk"; the table only grows, so [G] only grows. *)
From Coq Require Import List Arith Lia Bool.
From ChibiV Require Import C06.Defs C06.WindSpec Gen.C06_Travel C06.Machine C06.MachineThms.
Import ListNotations.

Definition vkind (v : value) : bool := match v with VNat _ => true | _ => false end.

Fixpoint kaccb (k : list frame) (t : bool) : bool :=
  match k with
  | [] => true
  | f :: r =>
      match f with
      | FSeq _ => kaccb r true
      | FAdd1 _ | FAdd2 _ | FShow | FThrow _ _ | FParamVal _ _ | FRaise _ | FHandlerDone _ => t && kaccb r true
      | FGuardBodyDone _ => t
      | FWindExit _ _ _ | FCReturn => kaccb r t
      | FCallThunk => negb t && kaccb r true
      end
  end.

Definition table := list (list frame * nat).

Definition gk_ok (cs : table) (g : nat) : Prop :=
  exists kk pt, nth_error cs g = Some (kk, pt) /\ kaccb kk false = true.

Definition slot_ok (cs : table) (i : nat) : Prop :=
  exists kk pt, nth_error cs i = Some (kk, pt) /\ kaccb kk true = true.

Section OK.
Variable G : nat -> Prop.

Fixpoint hc_ok (h : hclos) : Prop :=
  match h with
  | HC b orig =>
      match b with HGuard gk _ _ _ => G gk | HUser _ _ => True end /\
      match orig with None => True | Some o => hc_ok o end
  end.

Definition oh_ok (o : option hclos) : Prop := match o with None => True | Some h => hc_ok h end.
Definition b_ok (b : binding) : Prop := match b with BHandler o => oh_ok o | BParam _ _ => True end.
Definition al_ok (a : alist) : Prop := Forall b_ok a.
Definition act_ok (a : action) : Prop := match a with ASetParams al => al_ok al | _ => True end.
Definition th_ok (t : thunk) : Prop := Forall act_ok t.
Definition prec_ok (p : prec) : Prop := th_ok (pin p) /\ th_ok (pout p).
Definition heap_gok (h : heap) : Prop := Forall prec_ok h.
Definition frame_ok (f : frame) : Prop :=
  match f with FWindExit _ _ outt => th_ok outt | FGuardBodyDone gk => G gk | _ => True end.
Definition k_ok (k : list frame) : Prop := Forall frame_ok k.
Definition val_ok (v : value) : Prop := match v with VClauseThunk _ _ _ _ hk => G hk | _ => True end.
End OK.

(** the well-formedness of everything but the control *)
Definition Wf (cs : table) (k : list frame) (pa : alist) (h : heap) (sl : list (nat * nat)) : Prop :=
  k_ok (gk_ok cs) k /\ al_ok (gk_ok cs) pa /\ heap_gok (gk_ok cs) h /\
  Forall (fun c => k_ok (gk_ok cs) (fst c)) cs /\ Forall (fun p => slot_ok cs (snd p)) sl.

Definition ctl_ok (cs : table) (c : control) (k : list frame) : Prop :=
  match c with
  | CEval _ => kaccb k true = true
  | CRet v => val_ok (gk_ok cs) v /\ kaccb k (vkind v) = true
  end.

Definition T (s : state) : Prop :=
  Wf (conts s) (kont s) (params s) (hp s) (slots s) /\ ctl_ok (conts s) (ctl s) (kont s).

(** what holds of every state the machine reaches *)
Definition P (s : state) : Prop :=
  match st s with
  | Running => T s
  | Stuck c => c = STALE_C_FRAME
  | _ => True
  end.

(** ------------------------------------------------------------------ monotonicity in G *)
Section Mono.
Variables G G' : nat -> Prop.
Hypothesis HG : forall g, G g -> G' g.

Lemma hc_mono : forall h, hc_ok G h -> hc_ok G' h.
Proof.
  fix IH 1. intros [b orig] [H1 H2]. split.
  - destruct b; auto.
  - destruct orig as [o|]; [apply IH; exact H2|exact I].
Qed.

Lemma oh_mono : forall o, oh_ok G o -> oh_ok G' o.
Proof. intros [h|] H; [apply hc_mono; exact H|exact I]. Qed.

Lemma al_mono : forall a, al_ok G a -> al_ok G' a.
Proof.
  intros a H. unfold al_ok in *. eapply Forall_impl; [|exact H].
  intros [p v|o] Hb; [exact I|apply oh_mono; exact Hb].
Qed.

Lemma th_mono : forall t, th_ok G t -> th_ok G' t.
Proof.
  intros t H. unfold th_ok in *. eapply Forall_impl; [|exact H].
  intros [k v|a|p] Ha; cbn in *; auto. apply al_mono; exact Ha.
Qed.

Lemma heap_mono : forall h, heap_gok G h -> heap_gok G' h.
Proof.
  intros h H. unfold heap_gok in *. eapply Forall_impl; [|exact H].
  intros p [H1 H2]. split; apply th_mono; assumption.
Qed.

Lemma k_mono : forall k, k_ok G k -> k_ok G' k.
Proof.
  intros k H. unfold k_ok in *. eapply Forall_impl; [|exact H].
  intros f Hf. destruct f; cbn in *; auto. apply th_mono; exact Hf.
Qed.

Lemma val_mono : forall v, val_ok G v -> val_ok G' v.
Proof. intros [n|n|o t e p hk|p] H; cbn in *; auto. Qed.
End Mono.

Lemma nth_error_snoc_old : forall (A : Type) (l : list A) x i y, nth_error l i = Some y -> nth_error (l ++ [x]) i = Some y.
Proof.
  intros A l x i y H. rewrite nth_error_app1; [exact H|]. apply nth_error_Some. rewrite H. discriminate.
Qed.

Lemma nth_error_snoc_new : forall (A : Type) (l : list A) x, nth_error (l ++ [x]) (length l) = Some x.
Proof. intros. rewrite nth_error_app2 by lia. rewrite Nat.sub_diag. reflexivity. Qed.

Lemma gk_snoc : forall cs x g, gk_ok cs g -> gk_ok (cs ++ [x]) g.
Proof. intros cs x g (kk & pt & H1 & H2). exists kk, pt. split; [apply nth_error_snoc_old; exact H1|exact H2]. Qed.

Lemma slot_snoc : forall cs x g, slot_ok cs g -> slot_ok (cs ++ [x]) g.
Proof. intros cs x g (kk & pt & H1 & H2). exists kk, pt. split; [apply nth_error_snoc_old; exact H1|exact H2]. Qed.

(** adding a continuation to the table keeps everything well-formed *)
Lemma Wf_snoc : forall cs k pa h sl kk pt,
  Wf cs k pa h sl -> k_ok (gk_ok cs) kk -> Wf (cs ++ [(kk, pt)]) k pa h sl.
Proof.
  intros cs k pa h sl kk pt (H1 & H2 & H3 & H4 & H5) Hk.
  assert (HG : forall g, gk_ok cs g -> gk_ok (cs ++ [(kk, pt)]) g) by (intros; apply gk_snoc; assumption).
  split; [eapply k_mono; eauto|]. split; [eapply al_mono; eauto|]. split; [eapply heap_mono; eauto|]. split.
  - apply Forall_app. split.
    + eapply Forall_impl; [|exact H4]. intros c Hc. eapply k_mono; eauto.
    + constructor; [|constructor]. cbn. eapply k_mono; eauto.
  - eapply Forall_impl; [|exact H5]. intros p Hp. apply slot_snoc. exact Hp.
Qed.

(** ------------------------------------------------------------------ thunks keep the alist well-formed *)
Lemma run_actions_ok : forall G t pa o, th_ok G t -> al_ok G pa -> al_ok G (fst (run_actions t pa o)).
Proof.
  intros G. induction t as [|a t IH]; intros pa o Ht Hp; [exact Hp|].
  inversion Ht as [|? ? Ha Ht']; subst. destruct a as [k v|al|p]; cbn [run_actions]; apply IH; auto.
Qed.

Lemma hget_ok : forall G h p, heap_gok G h -> prec_ok G (hget h p).
Proof.
  intros G h p H. unfold hget. destruct (nth_in_or_default p h root_rec) as [Hin|Hd].
  - unfold heap_gok in H. rewrite Forall_forall in H. apply H. exact Hin.
  - rewrite Hd. split; constructor.
Qed.

Lemma run_wevs_ok : forall G h ws pa o, heap_gok G h -> al_ok G pa -> al_ok G (fst (run_wevs h ws pa o)).
Proof.
  intros G h. induction ws as [|w ws IH]; intros pa o Hh Hp; [exact Hp|].
  destruct w as [p|p]; cbn [run_wevs]; apply IH; auto; apply run_actions_ok; auto; apply (hget_ok G h p Hh).
Qed.

Lemma lookup_handler_ok : forall G a, al_ok G a -> oh_ok G (lookup_handler a).
Proof.
  intros G. induction a as [|b a IH]; intros H; [exact I|].
  inversion H as [|? ? Hb Ha]; subst. destruct b as [p v|o]; cbn [lookup_handler]; [apply IH; exact Ha|exact Hb].
Qed.

(** ------------------------------------------------------------------ the building blocks of a step *)
Definition setst (s : state) (x : status) : state :=
  mkS (ctl s) (kont s) (dk s) (params s) (hp s) (conts s) (slots s) (counts s) (out s) x.

(** dynamic-wind: the state after (in) and the new point *)
Lemma do_wind_T : forall s k inn outt inner c,
  st s = Running ->
  Wf (conts s) k (params s) (hp s) (slots s) ->
  th_ok (gk_ok (conts s)) inn -> th_ok (gk_ok (conts s)) outt -> k_ok (gk_ok (conts s)) inner ->
  ctl_ok (conts s) c (inner ++ FWindExit (length (hp s)) (dk s) outt :: k) ->
  P (do_wind s k inn outt inner c).
Proof.
  intros s k inn outt inner c Hst (H1 & H2 & H3 & H4 & H5) Hi Ho Hin Hc.
  unfold P, do_wind. cbn [st]. rewrite Hst. unfold T. cbn [conts kont params hp slots ctl]. split; [|exact Hc].
  refine (conj _ (conj _ (conj _ (conj H4 H5)))).
  - unfold k_ok. apply Forall_app. split; [exact Hin|]. constructor; [exact Ho|exact H1].
  - apply run_actions_ok; assumption.
  - unfold heap_gok. apply Forall_app. split; [exact H3|]. constructor; [|constructor]. split; assumption.
Qed.

(** invoking a continuation that is bound and accepts the sort of the value *)
Lemma do_throw_T : forall s idx v kk pt,
  st s = Running ->
  Wf (conts s) (kont s) (params s) (hp s) (slots s) ->
  nth_error (conts s) idx = Some (kk, pt) -> kaccb kk (vkind v) = true -> val_ok (gk_ok (conts s)) v ->
  P (do_throw travel_spec s idx v).
Proof.
  intros s idx v kk pt Hst (H1 & H2 & H3 & H4 & H5) Hn Hk Hv.
  unfold do_throw. rewrite Hn. unfold travel_spec.
  unfold P. cbn [st]. rewrite Hst. unfold T. cbn [conts kont params hp slots ctl]. split; [|split; assumption].
  refine (conj _ (conj _ (conj H3 (conj H4 H5)))).
  - pose proof H4 as H4'. rewrite Forall_forall in H4'. apply (H4' (kk, pt)). eapply nth_error_In. exact Hn.
  - apply run_wevs_ok; assumption.
Qed.

Lemma Wf_kont : forall cs k k' pa h sl, Wf cs k pa h sl -> k_ok (gk_ok cs) k' -> Wf cs k' pa h sl.
Proof. intros cs k k' pa h sl (H1 & H2 & H3 & H4 & H5) Hk. repeat split; assumption. Qed.

Lemma k_ok_tail : forall G f k, k_ok G (f :: k) -> k_ok G k.
Proof. intros G f k H. inversion H; assumption. Qed.

Lemma k_ok_head : forall G f k, k_ok G (f :: k) -> frame_ok G f.
Proof. intros G f k H. inversion H; assumption. Qed.

(** raise / raise-continuable from the raise point [k] *)
Lemma do_raise_T : forall s k c v,
  st s = Running ->
  Wf (conts s) k (params s) (hp s) (slots s) -> kaccb k true = true ->
  P (do_raise travel_spec s k c v).
Proof.
  intros s k c v Hst HW Hk. unfold do_raise.
  pose proof HW as (H1 & H2 & H3 & H4 & H5).
  pose proof (lookup_handler_ok _ _ H2) as Hh.
  destruct (lookup_handler (params s)) as [[hb orig]|] eqn:El.
  2:{ unfold P. cbn [st]. exact I. }
  cbn [oh_ok hc_ok] in Hh. destruct Hh as [Hg Horig].
  assert (Hnew : al_ok (gk_ok (conts s)) (BHandler orig :: params s)) by (constructor; [exact Horig|exact H2]).
  assert (Hti : th_ok (gk_ok (conts s)) [ASetParams (BHandler orig :: params s)]) by (constructor; [exact Hnew|constructor]).
  assert (Hto : th_ok (gk_ok (conts s)) [ASetParams (params s)]) by (constructor; [exact H2|constructor]).
  destruct hb as [tag e|gk only tag e].
  - (* user handler: called from the raise point *)
    pose proof (do_wind_T s k [ASetParams (BHandler orig :: params s)] [ASetParams (params s)] [FHandlerDone c] (CEval e)
                  Hst HW Hti Hto ltac:(constructor; [exact I|constructor])) as Hw.
    assert (Hc : ctl_ok (conts s) (CEval e) ([FHandlerDone c] ++ FWindExit (length (hp s)) (dk s) [ASetParams (params s)] :: k)).
    { cbn. exact Hk. }
    specialize (Hw Hc). unfold P in *. cbn [st do_wind] in *. rewrite Hst in *. exact Hw.
  - (* guard's handler: ((call/cc (lambda (handler-k) (guard-k (lambda () clauses))))) *)
    cbn zeta.
    set (s1 := do_wind s k [ASetParams (BHandler orig :: params s)] [ASetParams (params s)] [FCallThunk; FHandlerDone c] (CRet (VNat 0))).
    assert (Hc : ctl_ok (conts s) (CRet (VNat 0)) ([FCallThunk; FHandlerDone c] ++ FWindExit (length (hp s)) (dk s) [ASetParams (params s)] :: k)
                 \/ True) by (right; exact I).
    (* well-formedness of s1 (its control is irrelevant: do_throw replaces it) *)
    assert (HW1 : Wf (conts s1) (kont s1) (params s1) (hp s1) (slots s1)).
    { unfold s1, do_wind. cbn [conts kont params hp slots].
      refine (conj _ (conj _ (conj _ (conj H4 H5)))).
      - unfold k_ok. cbn [app]. constructor; [exact I|]. constructor; [exact I|]. constructor; [exact Hto|exact H1].
      - apply run_actions_ok; assumption.
      - unfold heap_gok. apply Forall_app. split; [exact H3|]. constructor; [|constructor]. split; assumption. }
    assert (Hst1 : st s1 = Running) by (unfold s1, do_wind; cbn [st]; exact Hst).
    assert (Hk1 : kaccb (kont s1) false = true).
    { unfold s1, do_wind. cbn [kont app kaccb negb andb]. exact Hk. }
    destruct Hg as (kk & pt & Hn & Hkk).
    assert (Hcs1 : conts s1 = conts s) by reflexivity.
    set (s2 := mkS (ctl s1) (kont s1) (dk s1) (params s1) (hp s1) (conts s1 ++ [(kont s1, dk s1)]) (slots s1) (counts s1) (out s1) (st s1)).
    apply (do_throw_T s2 gk (VClauseThunk only tag e v (length (conts s1))) kk pt).
    + exact Hst1.
    + unfold s2. cbn [conts kont params hp slots]. apply Wf_snoc; [exact HW1|]. destruct HW1 as (X & _). exact X.
    + unfold s2. cbn [conts]. apply nth_error_snoc_old. rewrite Hcs1. exact Hn.
    + cbn [vkind]. exact Hkk.
    + unfold s2. cbn [conts val_ok]. exists (kont s1), (dk s1). split; [apply nth_error_snoc_new|exact Hk1].
Qed.

(** ------------------------------------------------------------------ one step *)
Lemma T_with_ck : forall s c k,
  st s = Running -> Wf (conts s) k (params s) (hp s) (slots s) -> ctl_ok (conts s) c k -> P (with_ck s c k).
Proof. intros s c k Hst HW Hc. unfold P, with_ck. cbn [st]. rewrite Hst. split; assumption. Qed.

Lemma P_emit : forall s e, P s -> P (emit s e).
Proof. intros s e H. unfold P, emit in *. cbn [st] in *. destruct (st s); auto. Qed.

Lemma andb_true_l : forall a b, a && b = true -> a = true.
Proof. intros a b H. apply andb_true_iff in H. tauto. Qed.
Lemma andb_true_r : forall a b, a && b = true -> b = true.
Proof. intros a b H. apply andb_true_iff in H. tauto. Qed.

Lemma step_eval_P : forall s e, st s = Running -> T s -> ctl s = CEval e -> P (step_eval s e).
Proof.
  intros s e Hst [HW Hc] Hctl. rewrite Hctl in Hc. cbn [ctl_ok] in Hc.
  pose proof HW as (H1 & H2 & H3 & H4 & H5).
  assert (Hto : th_ok (gk_ok (conts s)) [ASetParams (params s)]) by (constructor; [exact H2|constructor]).
  destruct e; cbn [step_eval].
  - apply T_with_ck; [exact Hst|exact HW|cbn; split; [exact I|exact Hc]].
  - apply P_emit. apply T_with_ck; [exact Hst|exact HW|cbn; split; [exact I|exact Hc]].
  - apply T_with_ck; [exact Hst| eapply Wf_kont; [exact HW|]; constructor; [exact I|exact H1] | cbn; exact Hc].
  - apply T_with_ck; [exact Hst| eapply Wf_kont; [exact HW|]; constructor; [exact I|exact H1] | cbn; exact Hc].
  - apply T_with_ck; [exact Hst| eapply Wf_kont; [exact HW|]; constructor; [exact I|exact H1] | cbn; exact Hc].
  - apply do_wind_T; auto.
    + constructor; [exact I|constructor].
    + constructor; [exact I|constructor].
    + constructor.
  - (* call/cc: the continuation (k, dk) is recorded and bound to the slot *)
    unfold P. cbn [st]. rewrite Hst. unfold T. cbn [conts kont params hp slots ctl]. split.
    + pose proof (Wf_snoc _ _ _ _ _ (kont s) (dk s) HW H1) as (X1 & X2 & X3 & X4 & X5).
      refine (conj X1 (conj X2 (conj X3 (conj X4 _)))).
      constructor; [|exact X5]. cbn [snd]. exists (kont s), (dk s). split; [apply nth_error_snoc_new|exact Hc].
    + cbn. exact Hc.
  - apply T_with_ck; [exact Hst| eapply Wf_kont; [exact HW|]; constructor; [exact I|exact H1] | cbn; exact Hc].
  - apply T_with_ck; [exact Hst| eapply Wf_kont; [exact HW|]; constructor; [exact I|exact H1] | cbn; exact Hc].
  - apply P_emit. apply T_with_ck; [exact Hst|exact HW|cbn; split; [exact I|exact Hc]].
  - (* with-exception-handler *)
    apply do_wind_T; auto.
    + constructor; [|constructor]. cbn. constructor; [|exact H2]. cbn. split; [exact I|].
      exact (lookup_handler_ok _ _ H2).
    + constructor.
  - apply T_with_ck; [exact Hst| eapply Wf_kont; [exact HW|]; constructor; [exact I|exact H1] | cbn; exact Hc].
  - apply T_with_ck; [exact Hst| eapply Wf_kont; [exact HW|]; constructor; [exact I|exact H1] | cbn; exact Hc].
  - (* guard *)
    cbn zeta.
    set (kg := FCallThunk :: kont s).
    set (s1 := mkS (ctl s) kg (dk s) (params s) (hp s) (conts s ++ [(kg, dk s)]) (slots s) (counts s) (out s) (st s)).
    assert (Hkg : k_ok (gk_ok (conts s)) kg) by (constructor; [exact I|exact H1]).
    pose proof (Wf_snoc _ _ _ _ _ kg (dk s) (Wf_kont _ _ kg _ _ _ HW Hkg) Hkg) as HW1.
    assert (Hgk : gk_ok (conts s1) (length (conts s))).
    { unfold s1. cbn [conts]. exists kg, (dk s). split; [apply nth_error_snoc_new|]. unfold kg. cbn. exact Hc. }
    pose proof HW1 as (Y1 & Y2 & Y3 & Y4 & Y5).
    apply (do_wind_T s1 kg); auto.
    + constructor; [|constructor]. cbn. constructor; [|exact Y2]. cbn. split; [exact Hgk|].
      exact (lookup_handler_ok _ _ Y2).
    + constructor; [exact Y2|constructor].
    + constructor; [exact Hgk|constructor].
    + cbn. reflexivity.
  - (* ccall *)
    unfold P. cbn [st]. rewrite Hst. unfold T. cbn [conts kont params hp slots ctl]. split.
    + eapply Wf_kont; [exact HW|]. constructor; [exact I|exact H1].
    + cbn. exact Hc.
  - apply do_wind_T; auto.
    + constructor; [exact I|]. constructor; [exact I|constructor].
    + constructor; [exact I|]. constructor; [exact I|constructor].
    + constructor.
Qed.

Lemma P_counts : forall s c k cnt,
  st s = Running -> Wf (conts s) k (params s) (hp s) (slots s) -> ctl_ok (conts s) c k ->
  P (mkS c k (dk s) (params s) (hp s) (conts s) (slots s) cnt (out s) (st s)).
Proof. intros s c k cnt Hst HW Hc. unfold P. cbn [st]. rewrite Hst. split; assumption. Qed.

Lemma vkind_nat : forall v, vkind v = true -> exists n, v = VNat n.
Proof. intros [n|n|o t e p hk|p] H; cbn in H; try discriminate. exists n. reflexivity. Qed.

Lemma assoc_slot : forall cs kn sl idx,
  Forall (fun p : nat * nat => slot_ok cs (snd p)) sl -> assoc kn sl = Some idx -> slot_ok cs idx.
Proof.
  intros cs kn. induction sl as [|[a b] sl IH]; intros idx H Ha; cbn in Ha; [discriminate|].
  inversion H as [|? ? Hh Ht]; subst. destruct (Nat.eqb kn a).
  - injection Ha as <-. exact Hh.
  - apply IH; assumption.
Qed.

Lemma step_ret_P : forall s v, st s = Running -> T s -> ctl s = CRet v -> P (step_ret travel_spec s v).
Proof.
  intros s v Hst [HW Hc] Hctl. rewrite Hctl in Hc. cbn [ctl_ok] in Hc. destruct Hc as [Hv Hk].
  pose proof HW as (H1 & H2 & H3 & H4 & H5).
  unfold step_ret. destruct (kont s) as [|f k] eqn:Ek.
  - (* the outermost frame returns *)
    unfold P. cbn [st]. destruct (Nat.ltb 0 (count_of CDEPTH (counts s))); [reflexivity|exact I].
  - pose proof (k_ok_tail _ _ _ H1) as Hkt. pose proof (k_ok_head _ _ _ H1) as Hkh.
    assert (HWk : Wf (conts s) k (params s) (hp s) (slots s)) by (eapply Wf_kont; [exact HW|exact Hkt]).
    assert (Hto : th_ok (gk_ok (conts s)) [ASetParams (params s)]) by (constructor; [exact H2|constructor]).
    destruct f; cbn [kaccb] in Hk.
    + (* FSeq *) apply T_with_ck; [exact Hst|exact HWk|cbn; exact Hk].
    + (* FAdd1 *)
      destruct (vkind_nat v (andb_true_l _ _ Hk)) as [n ->].
      apply T_with_ck; [exact Hst| eapply Wf_kont; [exact HW|]; constructor; [exact I|exact Hkt] | cbn; exact (andb_true_r _ _ Hk)].
    + (* FAdd2 *)
      destruct (vkind_nat v (andb_true_l _ _ Hk)) as [n ->].
      apply T_with_ck; [exact Hst|exact HWk|cbn; split; [exact I|exact (andb_true_r _ _ Hk)]].
    + (* FShow *)
      destruct (vkind_nat v (andb_true_l _ _ Hk)) as [n ->].
      apply P_emit. apply T_with_ck; [exact Hst|exact HWk|cbn; split; [exact I|exact (andb_true_r _ _ Hk)]].
    + (* FWindExit *)
      cbn [frame_ok] in Hkh.
      unfold P. cbn [st]. rewrite Hst. unfold T. cbn [conts kont params hp slots ctl]. split.
      * refine (conj Hkt (conj _ (conj H3 (conj H4 H5)))). apply run_actions_ok; assumption.
      * split; [exact Hv|exact Hk].
    + (* FThrow *)
      destruct (vkind_nat v (andb_true_l _ _ Hk)) as [n ->].
      destruct (assoc k0 (slots s)) as [idx|] eqn:Ea.
      2:{ apply T_with_ck; [exact Hst|exact HWk|cbn; split; [exact I|exact (andb_true_r _ _ Hk)]]. }
      destruct (Nat.ltb (count_of k0 (counts s)) limit).
      2:{ apply T_with_ck; [exact Hst|exact HWk|cbn; split; [exact I|exact (andb_true_r _ _ Hk)]]. }
      destruct (assoc_slot _ _ _ _ H5 Ea) as (kk & pt & Hn & Hkk).
      apply (do_throw_T _ idx (VNat n) kk pt); cbn [st conts kont params hp slots vkind val_ok]; auto.
    + (* FParamVal *)
      destruct (vkind_nat v (andb_true_l _ _ Hk)) as [n ->].
      apply do_wind_T; [exact Hst|exact HWk| | exact Hto | constructor | cbn; exact (andb_true_r _ _ Hk)].
      constructor; [|constructor]. cbn. constructor; [exact I|exact H2].
    + (* FRaise *)
      destruct (vkind_nat v (andb_true_l _ _ Hk)) as [n ->].
      apply do_raise_T; [exact Hst|exact HWk|exact (andb_true_r _ _ Hk)].
    + (* FHandlerDone *)
      destruct (vkind_nat v (andb_true_l _ _ Hk)) as [n ->].
      destruct c.
      * apply T_with_ck; [exact Hst|exact HWk|cbn; split; [exact I|exact (andb_true_r _ _ Hk)]].
      * apply do_raise_T; [exact Hst|exact HWk|exact (andb_true_r _ _ Hk)].
    + (* FCallThunk *)
      pose proof (andb_true_l _ _ Hk) as Hnk. pose proof (andb_true_r _ _ Hk) as Hkn.
      destruct v as [n|n|only tag e payload hk|payload]; cbn in Hnk; try discriminate.
      * apply T_with_ck; [exact Hst|exact HWk|cbn; split; [exact I|exact Hkn]].
      * destruct (clause_test only payload).
        -- apply P_emit. apply P_emit. apply T_with_ck; [exact Hst|exact HWk|cbn; exact Hkn].
        -- cbn [val_ok] in Hv. destruct Hv as (kk & pt & Hn & Hkk).
           apply (do_throw_T _ hk (VReraiseThunk payload) kk pt); cbn [with_ck st conts kont params hp slots vkind val_ok]; auto.
      * apply do_raise_T; [exact Hst|exact HWk|exact Hkn].
    + (* FGuardBodyDone *)
      destruct (vkind_nat v Hk) as [n ->].
      cbn [frame_ok] in Hkh. destruct Hkh as (kk & pt & Hn & Hkk).
      apply (do_throw_T _ gk (VResThunk n) kk pt); cbn [with_ck st conts kont params hp slots vkind val_ok]; auto.
    + (* FCReturn *)
      apply P_counts; [exact Hst|exact HWk|]. cbn. split; [exact Hv|exact Hk].
Qed.

Lemma step_P : forall s, P s -> P (step travel_spec s).
Proof.
  intros s H. unfold step. unfold P in H. destruct (st s) eqn:Hst; try (unfold P; rewrite Hst; exact H).
  destruct (ctl s) as [e|v] eqn:Hc.
  - apply step_eval_P; assumption.
  - apply step_ret_P; assumption.
Qed.

Lemma run_P : forall n s, P s -> P (run travel_spec n s).
Proof.
  induction n as [|n IH]; intros s H; [exact H|].
  cbn [run]. destruct (st s) eqn:Hst; try exact H. apply IH. apply step_P. exact H.
Qed.

Lemma init_P : forall e, P (init e).
Proof.
  intros e. unfold P, init. cbn [st]. unfold T. cbn [conts kont params hp slots ctl]. split.
  - refine (conj _ (conj _ (conj _ (conj _ _)))); try constructor.
    + split; constructor.
    + constructor.
  - reflexivity.
Qed.

(** PROGRESS, machine over the SPEC wind script *)
Theorem progress_spec_lemma : forall n e c, st (run_spec n (init e)) = Stuck c -> c = STALE_C_FRAME.
Proof.
  intros n e c H. pose proof (run_P n (init e) (init_P e)) as HP. unfold P in HP. fold run_spec in HP.
  unfold run_spec in *. rewrite H in HP. exact HP.
Qed.

(** PROGRESS, machine over the REGENERATED travel_to_point: by machine_impl_eq_spec the two machines are in the same
    state after every number of steps, so the regenerated code never runs out of fuel in a reachable state either *)
Theorem progress_impl_lemma : forall n e c, st (run_impl n (init e)) = Stuck c -> c = STALE_C_FRAME.
Proof.
  intros n e c H. rewrite MachineThms.machine_impl_eq_spec_lemma in H. eapply progress_spec_lemma. exact H.
Qed.

(** a reachable running state is never a dead end: one more step leaves it running, finished, with an uncaught
    condition at top level, or in the modelled stale-C-frame state *)
Theorem step_never_stuck_lemma : forall n e c,
  st (step_impl (run_impl n (init e))) = Stuck c -> c = STALE_C_FRAME.
Proof.
  intros n e c H.
  assert (HP : P (step travel_spec (run travel_spec n (init e)))) by (apply step_P; apply run_P; apply init_P).
  unfold step_impl in H. rewrite MachineThms.machine_impl_eq_spec_lemma in H.
  assert (E : step travel_to_point (run_spec n (init e)) = step travel_spec (run_spec n (init e))).
  { pose proof (MachineThms.machine_impl_eq_spec_lemma (S n) e) as E1.
    (* run (S n) = run n then one more step, on both sides *)
    revert E1. unfold run_impl, run_spec.
    assert (R : forall tv m s, run tv (S m) s = step tv (run tv m s)).
    { intros tv. induction m as [|m IH]; intros s.
      - cbn [run]. unfold step. destruct (st s); reflexivity.
      - change (run tv (S (S m)) s) with (match st s with Running => run tv (S m) (step tv s) | _ => s end).
        cbn [run]. destruct (st s) eqn:Es; try (unfold step; rewrite Es; reflexivity). apply IH. }
    rewrite !R. intros E1. rewrite <- E1. f_equal. symmetry. apply MachineThms.machine_impl_eq_spec_lemma. }
  rewrite E in H. unfold P in HP. unfold run_spec in H. rewrite H in HP. exact HP.
Qed.

(** non-vacuity: a script with a guard whose clause does not match inside winds, re-raised to an outer handler that
    escapes through a continuation, runs to [Done]; one with an escape out of a C callback ends in [Stuck 9] *)
Example ex_progress_done :
  st (run_impl 200 (init (Seq (Show (CallCC 1 (WithHandler 1 (Throw 1 1 (Const 7))
        (DynWind 1 (Guard (Some 5) 2 (Const 0) (DynWind 2 (Seq (Mark 1) (Raise (Const 3))))))))) (Mark 2)))) = Done.
Proof. vm_compute. reflexivity. Qed.

Example ex_progress_stale :
  st (run_impl 100 (init (Seq (Show (CallCC 1 (CCall (Throw 1 1 (Const 5))))) (Mark 1)))) = Stuck STALE_C_FRAME.
Proof. vm_compute. reflexivity. Qed.
