(** C06 — algebra of continuation invocation at the frame (R7RS) level: jumping back between two continuations
    runs the mirror script, and invoking a continuation of the same dynamic extent runs no thunk at all. *)
From Coq Require Import List Arith Lia Bool.
From ChibiV Require Import C06.Defs C06.WindSpec Gen.C06_Travel C06.WindProofs C06.WindAlgebra
  C06.Machine C06.MachineProofs C06.MachineThms.
Import ListNotations.

(** 1. the script from k2 back to k1 is the mirror image of the script from k1 to k2 *)
Lemma frames_script_reverse_lemma : forall k1 k2,
  frames_script k2 k1 = rev (map flip_wev (frames_script k1 k2)).
Proof.
  intros k1 k2. unfold frames_script.
  rewrite (strip_swap (rev (kont_winds k1)) (rev (kont_winds k2))).
  cbn [fst snd].
  rewrite map_app, rev_app_distr, flip_map_out, flip_map_in.
  rewrite <- !map_rev, rev_involutive. reflexivity.
Qed.

(** 2. two continuations with the same dynamic-wind frames: the script is empty *)
Lemma frames_script_same_extent_lemma : forall k1 k2,
  kont_winds k1 = kont_winds k2 -> frames_script k1 k2 = [].
Proof.
  intros k1 k2 E. unfold frames_script. rewrite E, strip_same. reflexivity.
Qed.

(** 3. invoking a continuation lying in the same dynamic extent as the current one runs no before/after thunk:
    parameters and trace are untouched *)
Lemma machine_throw_same_extent_silent_lemma : forall s idx v kk pt,
  reachable s -> nth_error (conts s) idx = Some (kk, pt) ->
  kont_winds kk = kont_winds (kont s) ->
  do_throw travel_to_point s idx v =
    mkS (CRet v) kk (kont_point kk) (params s) (hp s) (conts s) (slots s) (counts s) (out s) (st s).
Proof.
  intros s idx v kk pt Hr E Hw.
  destruct (machine_wind_order_lemma s idx v kk pt Hr E) as [H1 _].
  rewrite (frames_script_same_extent_lemma (kont s) kk (eq_sym Hw)) in H1.
  cbn [run_wevs fst snd] in H1. exact H1.
Qed.

(** 4. non-vacuity: concrete continuations sharing the outer extent 1 *)
Example ex_throw_algebra :
  frames_script [FWindExit 3 1 []; FShow; FWindExit 1 0 []] [FWindExit 2 1 []; FWindExit 1 0 []] = [WOut 3; WIn 2]
  /\ frames_script [FWindExit 2 1 []; FWindExit 1 0 []] [FWindExit 3 1 []; FShow; FWindExit 1 0 []] = [WOut 2; WIn 3]
  /\ frames_script [FShow; FWindExit 1 0 []] [FWindExit 1 0 []; FShow] = [].
Proof. vm_compute. repeat split. Qed.
