(** C06 — the VM side of call/cc: CALLCC copies stack[0 .. top+4) into a vector, RESUMECC copies it back and
    rebuilds fp / self / ip (vm.c:890-913 sexp_save_stack / sexp_restore_stack, vm.c:1220-1251).
    Executable model, NO proofs in this file.  The stack is a list of words of fixed allocated length. *)
From Coq Require Import List Arith.
Import ListNotations.

Inductive word := WFix (n : nat) | WObj (id : nat).      (* fixnum | any other object (identity) *)

Record vm := mkVM { stack : list word; top : nat; fp : nat; self : word; ip : nat }.

Definition sref (s : list word) (i : nat) : word := nth i s (WFix 0).

Fixpoint sset (s : list word) (i : nat) (w : word) : list word :=
  match s, i with
  | [], _ => []
  | _ :: r, O => w :: r
  | x :: r, S j => x :: sset r j w
  end.

(** sexp_save_stack (vm.c:890-898): data[i] = stack[i] for i < to *)
Definition save_stack (s : list word) (to : nat) : list word := firstn to s.

(** sexp_restore_stack (vm.c:900-913): needs len+64 < stack length (otherwise the stack is grown — outside this
    model: None); to[i] = from[i] for i < len; top = len *)
Definition restore_stack (s : list word) (saved : list word) : option (list word * nat) :=
  let len := length saved in
  if Nat.leb (length s) (len + 64) then None
  else Some (saved ++ skipn len s, len).

(** SEXP_OP_CALLCC (vm.c:1234-1251): push the return frame words above top, copy stack[0..top+4), replace the
    argument (the procedure to call, _ARG1) by the new continuation object [kobj]; returns the VM about to call
    the procedure with one argument, and the saved vector *)
Definition callcc (m : vm) (kobj : word) : vm * list word :=
  let s1 := sset (stack m) (top m) (WFix 1) in
  let s2 := sset s1 (top m + 1) (WFix (ip m)) in
  let s3 := sset s2 (top m + 2) (self m) in
  let s4 := sset s3 (top m + 3) (WFix (fp m)) in
  let saved := save_stack s4 (top m + 4) in
  let s5 := sset s4 (top m - 1) kobj in
  (mkVM s5 (top m + 1) (fp m) (self m) (ip m), saved).

Definition unfix (w : word) : nat := match w with WFix n => n | WObj _ => 0 end.

(** SEXP_OP_RESUMECC (vm.c:1220-1233): tmp1 = stack[fp-1] (the value passed to the continuation); restore;
    fp = unbox(_ARG1); self = _ARG2; ip = unbox(_ARG3); top -= 4; _ARG1 = tmp1 *)
Definition resumecc (m : vm) (saved : list word) : option vm :=
  let tmp1 := sref (stack m) (fp m - 1) in
  match restore_stack (stack m) saved with
  | None => None
  | Some (s1, t1) =>
      let fp' := unfix (sref s1 (t1 - 1)) in
      let self' := sref s1 (t1 - 2) in
      let ip' := unfix (sref s1 (t1 - 3)) in
      let t2 := t1 - 4 in
      Some (mkVM (sset s1 (t2 - 1) tmp1) t2 fp' self' ip')
  end.

(** ------------------------------------------------------------------ the growth path (round 3)
    sexp_grow_stack (vm.c:861-885): new_size = max (2*size) min_size, capped by [maxs] = SEXP_MAX_STACK_SIZE (fails when
    the stack already has the maximal size or min_size exceeds it); a NEW stack object is allocated, words 0..top+1 are
    copied, the rest is whatever the allocator left there ([junk]: any list, only its first words are used).
    The context's stack pointer is updated; C locals pointing into the old object are NOT. *)
Definition grow_size (size min_size maxs : nat) : option nat :=
  let n0 := if Nat.ltb (size * 2) min_size then min_size else size * 2 in
  if Nat.ltb maxs n0 then
    (if orb (Nat.eqb size maxs) (Nat.ltb maxs min_size) then None else Some maxs)
  else Some n0.

Definition grow_stack (s : list word) (t min_size maxs : nat) (junk : list word) : option (list word) :=
  match grow_size (length s) min_size maxs with
  | None => None
  | Some n => let keep := firstn (t + 2) s in
              Some (keep ++ firstn (n - length keep) (junk ++ repeat (WFix 0) n))
  end.

(** sexp_restore_stack (vm.c:900-913) with its growth branch: returns (stack object of the context afterwards, top,
    grown?) or None = the out-of-stack error *)
Definition restore_stack_g (s : list word) (t : nat) (saved : list word) (maxs : nat) (junk : list word)
  : option (list word * nat * bool) :=
  let len := length saved in
  if Nat.leb (length s) (len + 64) then
    match grow_stack s t (len + 64) maxs junk with
    | None => None
    | Some s' => Some (saved ++ skipn len s', len, true)
    end
  else Some (saved ++ skipn len s, len, false).

(** SEXP_OP_RESUMECC as REPAIRED by fixes/C06-resumecc-reload-stack-after-growth.patch: the C local [stack] is
    re-read from the context after sexp_restore_stack, so _ARG1.._ARG3 are words of the stack that was restored *)
Definition resumecc_g (m : vm) (saved : list word) (maxs : nat) (junk : list word) : option vm :=
  let tmp1 := sref (stack m) (fp m - 1) in
  match restore_stack_g (stack m) (top m) saved maxs junk with
  | None => None
  | Some (s1, t1, _) =>
      let fp' := unfix (sref s1 (t1 - 1)) in
      let self' := sref s1 (t1 - 2) in
      let ip' := unfix (sref s1 (t1 - 3)) in
      let t2 := t1 - 4 in
      Some (mkVM (sset s1 (t2 - 1) tmp1) t2 fp' self' ip')
  end.

(** SEXP_OP_RESUMECC as PINNED (vm.c:1320-1333 before the repair): after a growth the local [stack] still points to the
    OLD stack object: _ARG1.._ARG3 are read from it (beyond its end: [sref] gives the default word, the C code reads
    whatever lies behind the object) and `_ARG1 = tmp1` is written into it; the context continues on the new object *)
Definition resumecc_stale (m : vm) (saved : list word) (maxs : nat) (junk : list word) : option vm :=
  let tmp1 := sref (stack m) (fp m - 1) in
  match restore_stack_g (stack m) (top m) saved maxs junk with
  | None => None
  | Some (s1, t1, grown) =>
      let rd := if grown then stack m else s1 in
      let fp' := unfix (sref rd (t1 - 1)) in
      let self' := sref rd (t1 - 2) in
      let ip' := unfix (sref rd (t1 - 3)) in
      let t2 := t1 - 4 in
      Some (mkVM (if grown then s1 else sset s1 (t2 - 1) tmp1) t2 fp' self' ip')
  end.
