(** C06 — global form of the wind-order property: the subsequence of before/after-thunk events of ANY run of the machine is
    the concatenation, step by step, of the R7RS wind scripts between the extents of consecutive continuations. *)
From Coq Require Import List Arith Lia Bool.
From ChibiV Require Import C06.Defs C06.WindSpec Gen.C06_Travel C06.WindProofs C06.Machine C06.MachineProofs C06.MachineThms.
Import ListNotations.

Definition is_wind (e : ev) : bool := Nat.eqb (fst e) 1 || Nat.eqb (fst e) 2.
Definition windf (l : list ev) : list ev := filter is_wind l.

(** the before/after events a thunk / a script emits (newest first, like [out]); a SPEC-level definition: it does not
    mention parameters or the machine *)
Fixpoint thunk_winds (t : thunk) : list ev :=
  match t with
  | [] => []
  | AEmit k v :: r => thunk_winds r ++ windf [(k, v)]
  | _ :: r => thunk_winds r
  end.

Definition wev_thunk (h : heap) (w : wev) : thunk :=
  match w with WIn p => pin (hget h p) | WOut p => pout (hget h p) end.

Fixpoint script_winds (h : heap) (ws : list wev) : list ev :=
  match ws with
  | [] => []
  | w :: r => script_winds h r ++ thunk_winds (wev_thunk h w)
  end.

Lemma windf_app : forall a b, windf (a ++ b) = windf a ++ windf b.
Proof. intros. apply filter_app. Qed.

Lemma actions_winds : forall t pa o,
  windf (snd (run_actions t pa o)) = thunk_winds t ++ windf o.
Proof.
  induction t as [|[k v|a|p] t IH]; intros pa o; cbn [run_actions thunk_winds].
  - reflexivity.
  - rewrite IH. rewrite <- app_assoc. f_equal.
    change ((k, v) :: o) with ([(k, v)] ++ o). apply windf_app.
  - apply IH.
  - rewrite IH. reflexivity.
Qed.

Lemma wevs_winds : forall h ws pa o,
  windf (snd (run_wevs h ws pa o)) = script_winds h ws ++ windf o.
Proof.
  induction ws as [|w ws IH]; intros pa o; [reflexivity|].
  destruct w; cbn [run_wevs script_winds wev_thunk]; rewrite IH, actions_winds, app_assoc; reflexivity.
Qed.

(** ---------------------------------------------------------------- the scripts of the three kinds of moves *)
Lemma script_enter_child : forall h d inn outt, heap_ok h -> d < length h ->
  wind_thunks inn outt (point_params h d) ->
  let h' := h ++ [mkP (depth h d + 1) inn outt d] in
  wind_script h' d (length h) = [WIn (length h)].
Proof.
  intros h d inn outt Hok Hd Ht h'.
  assert (Hok' : heap_ok h') by (apply heap_ok_extend; auto).
  destruct Hok' as (Hwf' & _).
  assert (Hpar : parent h' (length h) = d) by (unfold parent, h'; rewrite hget_new; reflexivity).
  assert (Hdep : depth h' (length h) = depth h d + 1) by (unfold depth, h'; rewrite hget_new; reflexivity).
  rewrite wind_script_in; auto.
  - rewrite Hpar, wind_script_same. reflexivity.
  - unfold h'. rewrite app_length. cbn. lia.
  - unfold h'. rewrite app_length. cbn. lia.
  - rewrite Hdep. unfold h'. rewrite depth_app by assumption. lia.
Qed.

Lemma script_exit_to_parent : forall h np, heap_ok h -> 0 < np -> np < length h ->
  wind_script h np (parent h np) = [WOut np].
Proof.
  intros h np (Hwf & Hl & H0 & _) Hp Hn.
  pose proof Hwf as [_ Hw]. destruct (Hw np Hp Hn) as [Hpar Hd].
  destruct (wind_script_out h np (parent h np) Hwf Hn ltac:(lia) ltac:(lia) ltac:(lia)) as [_ ->].
  rewrite wind_script_same. reflexivity.
Qed.

Lemma strip_snoc_l_notin : forall x y hh, ~ In hh y ->
  strip_common (x ++ [hh]) y = (fst (strip_common x y) ++ [hh], snd (strip_common x y)).
Proof.
  induction x as [|a x IH]; intros y hh Hn.
  - destruct y as [|b y]; [reflexivity|]. cbn.
    destruct (Nat.eqb hh b) eqn:E; [apply Nat.eqb_eq in E; subst; exfalso; apply Hn; left; reflexivity|reflexivity].
  - destruct y as [|b y]; [reflexivity|]. cbn.
    destruct (Nat.eqb a b) eqn:E; [|reflexivity].
    apply IH. intro Hin. apply Hn. right. exact Hin.
Qed.

(** leaving a leaf towards any older point starts with the leaf's after thunk *)
Lemma script_from_leaf : forall h np p, heap_ok h -> 0 < np -> np < length h -> p < np ->
  wind_script h np p = WOut np :: wind_script h (parent h np) p.
Proof.
  intros h np p Hok Hp Hn Hlt. pose proof Hok as (Hwf & _).
  unfold wind_script. rewrite (chainp_step h np) by auto. cbn [rev].
  rewrite strip_snoc_l_notin.
  - cbn [fst snd]. rewrite rev_app_distr. reflexivity.
  - intro Hin. apply in_rev in Hin.
    pose proof (chainp_bounds h Hwf p ltac:(lia)) as Hb. rewrite Forall_forall in Hb.
    specialize (Hb _ Hin). lia.
Qed.

(** ---------------------------------------------------------------- every step emits the wind script of its move *)
(** the wind script between the extent of the continuation before a step and the one after it, in the heap after it *)
Definition move_winds (s s' : state) : list ev := script_winds (hp s') (wind_script (hp s') (dk s) (dk s')).

Lemma move_winds_same : forall s s', dk s' = dk s -> move_winds s s' = [].
Proof. intros s s' H. unfold move_winds. rewrite H, wind_script_same. reflexivity. Qed.

Lemma leaf_script_winds : forall h d inn outt p, heap_ok h -> d < length h ->
  wind_thunks inn outt (point_params h d) -> thunk_winds inn = [] -> thunk_winds outt = [] ->
  let h' := h ++ [mkP (depth h d + 1) inn outt d] in
  p <= length h ->
  script_winds h' (wind_script h' (length h) p) = script_winds h' (wind_script h' d p).
Proof.
  intros h d inn outt p Hok Hd Ht Hi Ho h' Hp.
  assert (Hok' : heap_ok h') by (apply heap_ok_extend; auto).
  assert (Hlen : length h' = S (length h)) by (unfold h'; rewrite app_length; cbn; lia).
  assert (Hpar : parent h' (length h) = d) by (unfold parent, h'; rewrite hget_new; reflexivity).
  assert (Hget : hget h' (length h) = mkP (depth h d + 1) inn outt d) by (unfold h'; apply hget_new).
  destruct (Nat.eq_dec p (length h)) as [->|Hne].
  - rewrite wind_script_same.
    pose proof (script_enter_child h d inn outt Hok Hd Ht) as E. cbv zeta in E. fold h' in E. rewrite E.
    cbn [script_winds wev_thunk]. rewrite Hget. cbn [pin]. rewrite Hi. reflexivity.
  - pose proof Hok as (_ & Hl & _).
    rewrite (script_from_leaf h' (length h) p Hok') by lia.
    cbn [script_winds wev_thunk]. rewrite Hget. cbn [pout]. rewrite Ho, app_nil_r, Hpar. reflexivity.
Qed.

Section WithTravel.
Variable travel : heap -> nat -> nat -> nat -> tr.
Hypothesis travel_ok : forall h here target, wf_heap h -> here < length h -> target < length h ->
  travel h (travel_fuel h here target) here target = Some (wind_script h here target).

Lemma do_wind_winds : forall s k inn outt inner c, Invk s k -> wind_thunks inn outt (params s) ->
  windf (out (do_wind s k inn outt inner c)) = move_winds s (do_wind s k inn outt inner c) ++ windf (out s).
Proof.
  intros s k inn outt inner c (Hok & Hk & Hd & Hpa & Hcs) Ht.
  pose proof Hok as (_ & Hl & _).
  assert (Hdl : dk s < length (hp s)) by (rewrite Hd; apply kont_point_lt; assumption).
  unfold move_winds, do_wind. cbn [out hp dk]. rewrite actions_winds. f_equal.
  assert (Ht' : wind_thunks inn outt (point_params (hp s) (dk s))) by (rewrite <- Hpa; exact Ht).
  pose proof (script_enter_child (hp s) (dk s) inn outt Hok Hdl Ht') as E. cbv zeta in E. rewrite E.
  cbn [script_winds wev_thunk].
  pose proof (hget_new (hp s) (mkP (depth (hp s) (dk s) + 1) inn outt (dk s))) as G. rewrite G. reflexivity.
Qed.

Lemma do_throw_winds : forall s idx v, Inv s ->
  windf (out (do_throw travel s idx v)) = move_winds s (do_throw travel s idx v) ++ windf (out s)
  /\ hp (do_throw travel s idx v) = hp s /\ dk (do_throw travel s idx v) < length (hp s).
Proof.
  intros s idx v HI. pose proof HI as (Hok & Hk & Hd & Hpa & Hcs). pose proof Hok as (Hwf & Hl & _).
  assert (Hdl : dk s < length (hp s)) by (rewrite Hd; apply kont_point_lt; auto).
  unfold do_throw. destruct (nth_error (conts s) idx) as [[kk pt]|] eqn:E.
  - assert (Hc : cont_ok (hp s) (kk, pt)).
    { rewrite Forall_forall in Hcs. apply Hcs. eapply nth_error_In; eauto. }
    destruct Hc as [Hkk Hpt]. cbn in Hkk, Hpt.
    assert (Hptl : pt < length (hp s)) by (rewrite Hpt; apply kont_point_lt; auto).
    rewrite travel_ok by auto. unfold move_winds. cbn [out hp dk]. rewrite wevs_winds. auto.
  - unfold stuck. cbn [out hp dk]. rewrite move_winds_same by reflexivity. auto.
Qed.

Lemma do_raise_winds : forall s k c v, Invk s k ->
  windf (out (do_raise travel s k c v)) = move_winds s (do_raise travel s k c v) ++ windf (out s).
Proof.
  intros s k c v HI. pose proof HI as (Hok & Hk & Hd & Hpa & Hcs). pose proof Hok as (_ & Hl & _).
  assert (Hdl : dk s < length (hp s)) by (rewrite Hd; apply kont_point_lt; assumption).
  unfold do_raise. destruct (lookup_handler (params s)) as [[hb orig]|].
  2:{ cbn [out]. rewrite move_winds_same by reflexivity. reflexivity. }
  assert (Hwt : wind_thunks [ASetParams (BHandler orig :: params s)] [ASetParams (params s)] (params s)) by (right; eauto).
  destruct hb as [tag e|gk only tag e].
  - pose proof (do_wind_winds s k _ _ [FHandlerDone c] (CEval e) HI Hwt) as H.
    set (s1 := do_wind s k [ASetParams (BHandler orig :: params s)] [ASetParams (params s)] [FHandlerDone c] (CEval e)) in *.
    unfold move_winds in *. cbn [out hp dk].
    change (windf ((6, v) :: (5, tag) :: out s1)) with (windf (out s1)). exact H.
  - set (s1 := do_wind s k [ASetParams (BHandler orig :: params s)] [ASetParams (params s)]
                       [FCallThunk; FHandlerDone c] (CRet (VNat 0))).
    set (s2 := mkS (ctl s1) (kont s1) (dk s1) (params s1) (hp s1) (conts s1 ++ [(kont s1, dk s1)])
                   (slots s1) (counts s1) (out s1) (st s1)).
    assert (HI2 : Inv s2).
    { pose proof (do_wind_inv s k [ASetParams (BHandler orig :: params s)] [ASetParams (params s)]
                              [FCallThunk; FHandlerDone c] (CRet (VNat 0)) HI Hwt ltac:(repeat constructor)) as H.
      fold s1 in H. destruct H as (A & B & C & D & E).
      unfold Inv, Invk, inv, s2. cbn [hp kont dk params conts].
      split; [exact A|]. split; [exact B|]. split; [exact C|]. split; [exact D|]. apply conts_snoc; auto. }
    destruct (do_throw_winds s2 gk (VClauseThunk only tag e v (length (conts s1))) HI2) as (W & Hh & Hdk).
    rewrite W.
    assert (Ho1 : windf (out s2) = windf (out s)).
    { unfold s2, s1, do_wind. cbn [out]. rewrite actions_winds. reflexivity. }
    rewrite Ho1. f_equal.
    unfold move_winds. rewrite Hh.
    assert (Hh2 : hp s2 = hp s ++ [mkP (depth (hp s) (dk s) + 1) [ASetParams (BHandler orig :: params s)] [ASetParams (params s)] (dk s)])
      by reflexivity.
    assert (Hd2 : dk s2 = length (hp s)) by reflexivity.
    rewrite Hd2, Hh2. apply leaf_script_winds; auto.
    + rewrite <- Hpa. exact Hwt.
    + rewrite Hh2, app_length in Hdk. cbn [length] in Hdk. lia.
Qed.
End WithTravel.

Section Steps.
Variable travel : heap -> nat -> nat -> nat -> tr.
Hypothesis travel_ok : forall h here target, wf_heap h -> here < length h -> target < length h ->
  travel h (travel_fuel h here target) here target = Some (wind_script h here target).

Ltac same_place := rewrite move_winds_same by reflexivity; reflexivity.

Theorem step_winds : forall s, Inv s ->
  windf (out (step travel s)) = move_winds s (step travel s) ++ windf (out s).
Proof.
  intros s HI. unfold step. destruct (st s); try same_place.
  destruct (ctl s) as [e|v] eqn:C.
  - unfold step_eval. destruct e; try same_place.
    + (* DynWind *) apply do_wind_winds; [exact HI|left; split; exact I].
    + (* WithHandler *) apply do_wind_winds; [exact HI|right; eauto].
    + (* Guard *)
      destruct HI as (A & B & C' & D & E).
      match goal with |- windf (out (do_wind ?s1 ?kg ?i ?o ?inner ?c)) = _ =>
        apply (do_wind_winds s1 kg i o inner c) end.
      * unfold Invk, inv. cbn [hp kont dk params conts].
        split; [exact A|]. split; [exact B|]. split; [exact C'|]. split; [exact D|]. apply conts_snoc; auto.
      * right. cbn [params]. eauto.
    + (* DynWindP *) apply do_wind_winds; [exact HI|left; split; exact I].
  - unfold step_ret. destruct (kont s) as [|f k] eqn:K; [same_place|].
    unfold Inv in HI. rewrite K in HI.
    destruct f.
    + same_place.
    + destruct v; same_place.
    + destruct v; same_place.
    + destruct v; same_place.
    + (* FWindExit *)
      pose proof HI as (Hok & Hk & Hd & Hpa & Hcs). cbn in Hk, Hd.
      destruct Hk as (H1 & H2 & H3 & H4 & H5 & H6).
      unfold move_winds. cbn [out hp dk]. rewrite actions_winds. f_equal.
      rewrite Hd, <- H3, script_exit_to_parent by auto.
      cbn [script_winds wev_thunk]. rewrite H5. reflexivity.
    + (* FThrow *)
      destruct v; try same_place.
      destruct (assoc k0 (slots s)); [|same_place].
      destruct (Nat.ltb (count_of k0 (counts s)) limit); [|same_place].
      match goal with |- windf (out (do_throw travel ?s' ?i ?x)) = _ =>
        destruct (do_throw_winds travel travel_ok s' i x) as (W & _ & _); [|exact W] end.
      unfold Inv, Invk. cbn [hp kont dk params conts]. refine (nonwind_pop _ _ _ _ _ _ _ HI); exact I.
    + (* FParamVal *)
      destruct v; try same_place.
      apply do_wind_winds; [refine (nonwind_pop _ _ _ _ _ _ _ HI); exact I|right; eauto].
    + (* FRaise *)
      destruct v; try same_place.
      apply do_raise_winds; [exact travel_ok|refine (nonwind_pop _ _ _ _ _ _ _ HI); exact I].
    + (* FHandlerDone *)
      destruct c; [same_place|].
      apply do_raise_winds; [exact travel_ok|refine (nonwind_pop _ _ _ _ _ _ _ HI); exact I].
    + (* FCallThunk *)
      assert (HI' : Invk s k) by (refine (nonwind_pop _ _ _ _ _ _ _ HI); exact I).
      destruct v; try same_place.
      * destruct (clause_test only payload); [same_place|].
        match goal with |- windf (out (do_throw travel ?s' ?i ?x)) = _ =>
          destruct (do_throw_winds travel travel_ok s' i x) as (W & _ & _); [exact HI'|exact W] end.
      * apply do_raise_winds; [exact travel_ok|exact HI'].
    + (* FGuardBodyDone *)
      destruct v; try same_place.
      match goal with |- windf (out (do_throw travel ?s' ?i ?x)) = _ =>
        destruct (do_throw_winds travel travel_ok s' i x) as (W & _ & _); [|exact W] end.
      unfold Inv, Invk. cbn [hp kont dk params conts with_ck]. refine (nonwind_pop _ _ _ _ _ _ _ HI); exact I.
    + (* FCReturn *) same_place.
Qed.

(** the wind scripts of the successive moves of a run, newest first *)
Fixpoint run_moves (n : nat) (s : state) : list ev :=
  match n with
  | O => []
  | S n' => match st s with
            | Running => run_moves n' (step travel s) ++ move_winds s (step travel s)
            | _ => []
            end
  end.

Theorem run_winds : forall n s, Inv s -> windf (out (run travel n s)) = run_moves n s ++ windf (out s).
Proof.
  induction n as [|n IH]; intros s HI; cbn [run run_moves]; [reflexivity|].
  destruct (st s); try reflexivity.
  rewrite IH by (apply step_inv; auto). rewrite step_winds by exact HI. rewrite app_assoc. reflexivity.
Qed.
End Steps.

(** In every run of the machine built on the code's travel-to-point!, the before/after-thunk events of the trace are
    exactly the wind scripts ([wind_script], the R7RS script) between the extents of the consecutive continuations
    ([dk] is the extent of the current continuation: theorem dk_is_continuation_extent), concatenated *)
Theorem machine_wind_trace_lemma : forall n e,
  windf (out (run_impl n (init e))) = run_moves travel_to_point n (init e).
Proof.
  intros n e. unfold run_impl. rewrite (run_winds travel_to_point travel_impl_ok n (init e) (init_inv e)).
  cbn [out init windf filter]. apply app_nil_r.
Qed.

Theorem machine_step_winds_lemma : forall s, MachineThms.reachable s ->
  windf (out (step_impl s)) = move_winds s (step_impl s) ++ windf (out s).
Proof. intros s Hr. apply (step_winds travel_to_point travel_impl_ok). apply MachineThms.reachable_inv. exact Hr. Qed.

(** non-vacuity: a script that re-enters an exited extent twice *)
Example ex_wind_trace :
  let e := Seq (DynWind 2 (DynWind 1 (Seq (CallCC 1 (Const 3)) (Mark 1)))) (Throw 1 2 (Const 5)) in
  rev (windf (out (run_impl 200 (init e)))) =
    [(1,2); (1,1); (2,1); (2,2); (1,2); (1,1); (2,1); (2,2); (1,2); (1,1); (2,1); (2,2)]
  /\ rev (run_moves travel_to_point 200 (init e)) =
    [(1,2); (1,1); (2,1); (2,2); (1,2); (1,1); (2,1); (2,2); (1,2); (1,1); (2,1); (2,2)].
Proof. split; vm_compute; reflexivity. Qed.
