(** C06 — shared definitions: wind points kept in a grow-only heap (a point IS its address, so the
    Scheme [eq?] on point vectors is address equality), thunks as atomic action lists, dynamic
    bindings (thread-parameters alist), and the combinators used by the regenerated
    [Gen/C06_Travel.v] (translation of [travel-to-point!], lib/init-7.scm:809-818). *)
From Coq Require Import List Arith Lia Bool.
Import ListNotations.

(** trace events: (kind, value).  kinds: 0 mark, 1 before-thunk of wind i, 2 after-thunk of wind i,
    3 show value, 5 handler tag entered, 6 condition payload seen by handler/guard clause,
    7 guard clause tag taken, 10+p read of parameter p. *)
Definition ev := (nat * nat)%type.

(** ------------------------------------------------------------------ expressions of the control DSL *)
Inductive exp :=
| Const (n : nat)
| Mark (n : nat)                         (* push (0,n); value n *)
| Show (e : exp)                         (* push (3,v); value v *)
| Seq (a b : exp)
| Add (a b : exp)                        (* (let* ((x a) (y b)) (+ x y)): a's value lives on the VM stack while b runs *)
| DynWind (i : nat) (body : exp)         (* (dynamic-wind (lambda () (push 1 i)) (lambda () body) (lambda () (push 2 i))) *)
| CallCC (k : nat) (body : exp)          (* (call/cc (lambda (c) (set! k_k c) body)) *)
| Throw (k limit : nat) (e : exp)        (* v := e; if k_k bound and count_k < limit then count_k++, (k_k v) else v *)
| Parameterize (p : nat) (e body : exp)
| PRef (p : nat)                         (* push (10+p, (p_p)); value (p_p) *)
| WithHandler (tag : nat) (h body : exp) (* (with-exception-handler (lambda (c) (push 5 tag) (push 6 c) h) (lambda () body)) *)
| Raise (e : exp)
| RaiseC (e : exp)
| Guard (only : option nat) (tag : nat) (h body : exp)
                                         (* (guard (c ((eqv? c only) | #t   (push 7 tag) (push 6 c) h)) body) *)
| CCall (body : exp)                     (* body runs in a procedure that C code calls back through a NESTED sexp_apply
                                            (comparator of srfi-95 sort, hash function of srfi-69, macro transformer in eval) *)
| DynWindP (i p : nat) (body : exp).     (* dynamic-wind whose before/after thunks also READ parameter p:
                                            (lambda () (push 1 i) (push (+ 10 p) (p_p))) ... (lambda () (push 2 i) (push (+ 10 p) (p_p))) *)

(** ------------------------------------------------------------------ dynamic bindings *)
(** handler closures: the [self] closure built by with-exception-handler (init-7.scm:1180-1192)
    closes over the user handler and over [orig-handler] *)
Inductive hbody :=
| HUser (tag : nat) (e : exp)
| HGuard (gk : nat) (only : option nat) (tag : nat) (e : exp).   (* gk: index of guard-k in the continuation table *)

Inductive hclos := HC (b : hbody) (orig : option hclos).

Inductive binding :=
| BParam (p v : nat)
| BHandler (h : option hclos).           (* (current-exception-handler . h); h may be #f *)

Definition alist := list binding.

Fixpoint lookup_param (p : nat) (a : alist) : nat :=      (* sexp_parameter_ref eval.c:2460-2469; default value 0 *)
  match a with
  | [] => 0
  | BParam q v :: r => if Nat.eqb p q then v else lookup_param p r
  | BHandler _ :: r => lookup_param p r
  end.

Fixpoint lookup_handler (a : alist) : option hclos :=
  match a with
  | [] => None
  | BHandler h :: _ => h
  | BParam _ _ :: r => lookup_handler r
  end.

(** ------------------------------------------------------------------ thunks, points, heap *)
Inductive action :=
| AEmit (k v : nat)
| ASetParams (a : alist)                 (* (thread-parameters-set! a) *)
| AReadParam (p : nat).                  (* (push (+ 10 p) (p_p)): observes the parameter value the thunk runs with *)

Definition thunk := list action.

Record prec := mkP { pdepth : nat; pin : thunk; pout : thunk; pparent : nat }.

(** heap of point vectors; address 0 is [root-point] (depth 0).  Only ever extended at the end. *)
Definition heap := list prec.

Definition root_rec := mkP 0 [] [] 0.
Definition hget (h : heap) (p : nat) : prec := nth p h root_rec.
Definition depth (h : heap) (p : nat) : nat := pdepth (hget h p).       (* %point-depth *)
Definition parent (h : heap) (p : nat) : nat := pparent (hget h p).     (* %point-parent *)

(** a wind event: which thunk of which point is called *)
Inductive wev := WIn (p : nat) | WOut (p : nat).

(** ------------------------------------------------------------------ combinators for Gen/C06_Travel.v *)
Definition tr := option (list wev).
Definition t_done : tr := Some [].
Definition t_in (p : nat) : tr := Some [WIn p].            (* ((%point-in p)) *)
Definition t_out (p : nat) : tr := Some [WOut p].          (* ((%point-out p)) *)
Definition t_seq (a b : tr) : tr :=
  match a with
  | None => None
  | Some x => match b with None => None | Some y => Some (x ++ y) end
  end.
