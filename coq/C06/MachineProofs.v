(** C06 — invariants of the machine of Machine.v and the property theorems that follow from them.
    Everything is proved for ANY travel function that computes the wind script on well-formed heaps
    ([travel_ok]); both the regenerated [travel_to_point] and the SPEC [travel_spec] are such functions. *)
From Coq Require Import List Arith Lia Bool.
From ChibiV Require Import C06.Defs C06.WindSpec Gen.C06_Travel C06.WindProofs C06.Machine.
Import ListNotations.

(** ---------------------------------------------------------------- frame-level (R7RS-level) notions *)
(** the extents a continuation lies in = its dynamic-wind frames, innermost first *)
Fixpoint kont_winds (k : list frame) : list nat :=
  match k with
  | [] => []
  | FWindExit np _ _ :: r => np :: kont_winds r
  | _ :: r => kont_winds r
  end.

Fixpoint kont_point (k : list frame) : nat :=
  match k with
  | [] => 0
  | FWindExit np _ _ :: _ => np
  | _ :: r => kont_point r
  end.

(** the R7RS wind script between two continuations, defined on their frames only *)
Definition frames_script (k1 k2 : list frame) : list wev :=
  let ab := strip_common (rev (kont_winds k1)) (rev (kont_winds k2)) in
  map WOut (rev (fst ab)) ++ map WIn (snd ab).

Definition non_wind (f : frame) : Prop := match f with FWindExit _ _ _ => False | _ => True end.

(** ---------------------------------------------------------------- parameters in force at a point *)
Fixpoint pparams (h : heap) (n : nat) (p : nat) : alist :=
  match n with
  | O => []
  | S n' => match pin (hget h p) with
            | ASetParams a :: _ => a
            | _ => pparams h n' (parent h p)
            end
  end.

Definition point_params (h : heap) (p : nat) : alist := pparams h (depth h p) p.

(** thunks of a user dynamic-wind: they emit and read, they never set the parameters *)
Fixpoint silent (t : thunk) : Prop :=
  match t with
  | [] => True
  | ASetParams _ :: _ => False
  | _ :: r => silent r
  end.

Definition thunks_ok (h : heap) (p : nat) : Prop :=
  (silent (pin (hget h p)) /\ silent (pout (hget h p))) \/
  (exists new, pin (hget h p) = [ASetParams new] /\ pout (hget h p) = [ASetParams (point_params h (parent h p))]).

Definition heap_ok (h : heap) : Prop :=
  wf_heap h /\ 0 < length h /\ parent h 0 = 0 /\ forall p, 0 < p -> p < length h -> thunks_ok h p.

Fixpoint kont_ok (h : heap) (k : list frame) : Prop :=
  match k with
  | [] => True
  | FWindExit np here outt :: r =>
      0 < np /\ np < length h /\ parent h np = here /\ here = kont_point r /\ pout (hget h np) = outt /\ kont_ok h r
  | _ :: r => kont_ok h r
  end.

Definition cont_ok (h : heap) (c : list frame * nat) : Prop := kont_ok h (fst c) /\ snd c = kont_point (fst c).

Definition inv (h : heap) (k : list frame) (d : nat) (pa : alist) (cs : list (list frame * nat)) : Prop :=
  heap_ok h /\ kont_ok h k /\ d = kont_point k /\ pa = point_params h d /\ Forall (cont_ok h) cs.

Definition Invk (s : state) (k : list frame) : Prop := inv (hp s) k (dk s) (params s) (conts s).
Definition Inv (s : state) : Prop := Invk s (kont s).

(** ---------------------------------------------------------------- basic facts *)
Lemma silent_head : forall t (x : alist), silent t -> match t with ASetParams a :: _ => a | _ => x end = x.
Proof. intros [|[k v|a|p] t] x H; cbn in *; tauto. Qed.

Lemma silent_run : forall t pa o, silent t -> fst (run_actions t pa o) = pa.
Proof.
  induction t as [|[k v|a|p] t IH]; intros pa o H; cbn in *; try tauto; auto.
Qed.

Lemma kont_point_lt : forall h k, 0 < length h -> kont_ok h k -> kont_point k < length h.
Proof.
  induction k as [|f k IH]; intros Hl Hk; cbn; [exact Hl|].
  destruct f; cbn in *; try (apply IH; assumption).
  destruct Hk as (_ & Hlt & _). exact Hlt.
Qed.

Lemma nonwind_push : forall h k d pa cs f, non_wind f -> inv h k d pa cs -> inv h (f :: k) d pa cs.
Proof.
  intros h k d pa cs f Hf (H1 & H2 & H3 & H4 & H5).
  destruct f; cbn in Hf; try contradiction; unfold inv; cbn [kont_ok kont_point]; (split; [exact H1|split; [exact H2|split; [exact H3|split; [exact H4|exact H5]]]]).
Qed.

Lemma nonwind_pop : forall h k d pa cs f, non_wind f -> inv h (f :: k) d pa cs -> inv h k d pa cs.
Proof.
  intros h k d pa cs f Hf (H1 & H2 & H3 & H4 & H5).
  destruct f; cbn in Hf; try contradiction; unfold inv; cbn [kont_ok kont_point] in *; (split; [exact H1|split; [exact H2|split; [exact H3|split; [exact H4|exact H5]]]]).
Qed.

Lemma hget_app : forall h r p, p < length h -> hget (h ++ [r]) p = hget h p.
Proof. intros. unfold hget. apply app_nth1. assumption. Qed.

Lemma hget_new : forall h r, hget (h ++ [r]) (length h) = r.
Proof. intros. unfold hget. rewrite app_nth2 by lia. rewrite Nat.sub_diag. reflexivity. Qed.

Lemma depth_app : forall h r p, p < length h -> depth (h ++ [r]) p = depth h p.
Proof. intros. unfold depth. rewrite hget_app; auto. Qed.

Lemma parent_app : forall h r p, p < length h -> parent (h ++ [r]) p = parent h p.
Proof. intros. unfold parent. rewrite hget_app; auto. Qed.

Lemma parent_lt : forall h p, heap_ok h -> p < length h -> parent h p < length h.
Proof.
  intros h p (Hwf & Hl & H0 & _) Hp. destruct p; [rewrite H0; exact Hl|].
  destruct Hwf as [_ Hw]. destruct (Hw (S p) ltac:(lia) Hp). lia.
Qed.

Lemma pparams_app : forall h r, heap_ok h -> forall n p, p < length h -> pparams (h ++ [r]) n p = pparams h n p.
Proof.
  intros h r Hok. induction n as [|n IH]; intros p Hp; [reflexivity|].
  cbn [pparams]. rewrite hget_app by assumption.
  destruct (pin (hget h p)) as [|[k v|a|q] t]; auto.
  - rewrite parent_app by assumption. apply IH. apply parent_lt; auto.
  - rewrite parent_app by assumption. apply IH. apply parent_lt; auto.
  - rewrite parent_app by assumption. apply IH. apply parent_lt; auto.
Qed.

Lemma point_params_app : forall h r p, heap_ok h -> p < length h -> point_params (h ++ [r]) p = point_params h p.
Proof. intros. unfold point_params. rewrite depth_app by assumption. apply pparams_app; auto. Qed.

Lemma point_params_step : forall h p, heap_ok h -> 0 < p -> p < length h ->
  point_params h p = match pin (hget h p) with ASetParams a :: _ => a | _ => point_params h (parent h p) end.
Proof.
  intros h p (Hwf & _) Hp Hl. destruct Hwf as [_ Hw]. destruct (Hw p Hp Hl) as [_ Hd].
  unfold point_params. rewrite Hd. reflexivity.
Qed.

Lemma kont_ok_app : forall h r k, kont_ok h k -> kont_ok (h ++ [r]) k.
Proof.
  induction k as [|f k IH]; intros Hk; [exact I|].
  destruct f; cbn in *; auto.
  destruct Hk as (H1 & H2 & H3 & H4 & H5 & H6).
  rewrite app_length. cbn. rewrite parent_app, hget_app by assumption. repeat split; auto. lia.
Qed.

Lemma conts_ok_app : forall h r cs, Forall (cont_ok h) cs -> Forall (cont_ok (h ++ [r])) cs.
Proof.
  intros h r cs H. eapply Forall_impl; [|exact H]. intros [k d] [Hk Hd]. split; auto. apply kont_ok_app. exact Hk.
Qed.

(** ---------------------------------------------------------------- dynamic-wind entry keeps the invariant *)
Definition wind_thunks (inn outt : thunk) (pa : alist) : Prop :=
  (silent inn /\ silent outt) \/ (exists new, inn = [ASetParams new] /\ outt = [ASetParams pa]).

Lemma heap_ok_extend : forall h here inn outt,
  heap_ok h -> here < length h -> wind_thunks inn outt (point_params h here) ->
  heap_ok (h ++ [mkP (depth h here + 1) inn outt here]).
Proof.
  intros h here inn outt Hok Hh Ht. pose proof Hok as (Hwf & Hl & H0 & Hth).
  set (r := mkP (depth h here + 1) inn outt here).
  assert (Hwf' : wf_heap (h ++ [r])).
  { destruct Hwf as [Hd0 Hw]. split.
    - rewrite depth_app by assumption. exact Hd0.
    - intros p Hp Hpl. rewrite app_length in Hpl. cbn in Hpl.
      destruct (Nat.eq_dec p (length h)) as [->|Hne].
      + unfold parent, depth. rewrite hget_new. cbn. fold (depth (h ++ [r]) here).
        rewrite depth_app by assumption. lia.
      + assert (Hlt : p < length h) by lia. destruct (Hw p Hp Hlt) as [Hpar Hd].
        rewrite parent_app, depth_app by assumption. rewrite depth_app by lia. auto. }
  split; [exact Hwf'|]. split; [rewrite app_length; lia|]. split; [rewrite parent_app; assumption|].
  intros p Hp Hpl. rewrite app_length in Hpl. cbn in Hpl.
  destruct (Nat.eq_dec p (length h)) as [->|Hne].
  - unfold thunks_ok, parent. rewrite hget_new. cbn.
    destruct Ht as [[Hi Ho]|(new & -> & ->)]; [left; split; assumption|right].
    exists new. split; auto. rewrite point_params_app by assumption. reflexivity.
  - assert (Hlt : p < length h) by lia. unfold thunks_ok. rewrite hget_app, parent_app by assumption.
    rewrite point_params_app by (auto; apply parent_lt; auto). apply Hth; assumption.
Qed.

Section WithTravel.
Variable travel : heap -> nat -> nat -> nat -> tr.
Hypothesis travel_ok : forall h here target, wf_heap h -> here < length h -> target < length h ->
  travel h (travel_fuel h here target) here target = Some (wind_script h here target).

Lemma do_wind_inv : forall s k inn outt inner c,
  Invk s k -> wind_thunks inn outt (params s) -> Forall non_wind inner ->
  Inv (do_wind s k inn outt inner c).
Proof.
  intros s k inn outt inner c (Hok & Hk & Hd & Hpa & Hcs) Ht Hin.
  pose proof Hok as (Hwf & Hl & H0 & Hth).
  assert (Hdl : dk s < length (hp s)). { rewrite Hd. apply kont_point_lt; assumption. }
  unfold Inv, Invk, do_wind. cbn [hp kont dk params conts].
  set (r := mkP (depth (hp s) (dk s) + 1) inn outt (dk s)).
  assert (Hok' : heap_ok (hp s ++ [r])). { apply heap_ok_extend; auto. rewrite <- Hpa. exact Ht. }
  assert (Hbase : inv (hp s ++ [r]) (FWindExit (length (hp s)) (dk s) outt :: k) (length (hp s))
                      (fst (run_actions inn (params s) (out s))) (conts s)).
  { split; [exact Hok'|]. split.
    - cbn. rewrite app_length. cbn. unfold parent. rewrite hget_new. cbn.
      repeat split; auto; try lia. apply kont_ok_app. exact Hk.
    - split; [reflexivity|]. split; [|apply conts_ok_app; exact Hcs].
      rewrite (point_params_step _ (length (hp s)) Hok') by (rewrite ?app_length; cbn; lia).
      rewrite hget_new. unfold parent. rewrite hget_new. cbn [pin pparent r].
      destruct Ht as [[Hi Ho]|(new & -> & ->)].
      + rewrite silent_run, silent_head by assumption.
        rewrite point_params_app by assumption. exact Hpa.
      + reflexivity. }
  clear - Hbase Hin. induction inner as [|f inner IH]; cbn; [exact Hbase|].
  inversion Hin; subst. apply nonwind_push; auto.
Qed.

(** ---------------------------------------------------------------- running a wind script moves the parameters along *)
Lemma run_wevs_app : forall h a b pa o,
  run_wevs h (a ++ b) pa o = run_wevs h b (fst (run_wevs h a pa o)) (snd (run_wevs h a pa o)).
Proof.
  induction a as [|w a IH]; intros; cbn; [reflexivity|]. destruct w; apply IH.
Qed.

Lemma script_params : forall h, heap_ok h -> forall n here target o,
  depth h here + depth h target <= n -> here < length h -> target < length h ->
  fst (run_wevs h (wind_script h here target) (point_params h here) o) = point_params h target.
Proof.
  intros h Hok. pose proof Hok as (Hwf & Hl & H0 & Hth).
  induction n as [|n IH]; intros here target o Hn Hh Ht.
  - assert (here = 0) by (apply (depth_zero_root h); auto; lia).
    assert (target = 0) by (apply (depth_zero_root h); auto; lia). subst.
    rewrite wind_script_same. reflexivity.
  - destruct (Nat.eq_dec here target) as [->|Hne]; [rewrite wind_script_same; reflexivity|].
    destruct (Nat.lt_ge_cases (depth h here) (depth h target)) as [L|L].
    + assert (Hpos : 0 < target).
      { destruct target; [|lia]. destruct Hwf as [Hd0 _]. rewrite Hd0 in L. lia. }
      pose proof Hwf as [_ Hw]. destruct (Hw target Hpos Ht) as [Hpar Hdt].
      rewrite wind_script_in by auto. rewrite run_wevs_app.
      rewrite (surjective_pairing (run_wevs h (wind_script h here (parent h target)) (point_params h here) o)).
      rewrite IH by (auto; lia). cbn [run_wevs fst snd].
      rewrite (point_params_step h target Hok Hpos Ht).
      destruct (Hth target Hpos Ht) as [[Hi _]|(new & -> & _)]; [|reflexivity].
      rewrite silent_run, silent_head by assumption. reflexivity.
    + destruct (wind_script_out h here target Hwf Hh Ht Hne L) as [Hpos ->].
      pose proof Hwf as [_ Hw]. destruct (Hw here Hpos Hh) as [Hpar Hdh].
      cbn [run_wevs].
      assert (E : fst (run_actions (pout (hget h here)) (point_params h here) o) = point_params h (parent h here)).
      { destruct (Hth here Hpos Hh) as [[Hi Ho]|(new & Hi & ->)]; [|reflexivity].
        rewrite silent_run by assumption.
        rewrite (point_params_step h here Hok Hpos Hh), silent_head by assumption. reflexivity. }
      rewrite E. apply IH; auto; lia.
Qed.

Lemma kont_chain : forall h k, heap_ok h -> kont_ok h k -> chainp h (kont_point k) = kont_winds k.
Proof.
  intros h k Hok. pose proof Hok as (Hwf & _).
  induction k as [|f k IH]; intros Hk; [apply chainp_root; exact Hwf|].
  destruct f; cbn in *; auto.
  destruct Hk as (H1 & H2 & H3 & H4 & H5 & H6).
  rewrite chainp_step by auto. rewrite H3, H4. f_equal. apply IH. exact H6.
Qed.

Lemma do_throw_inv : forall s idx v, Inv s -> Inv (do_throw travel s idx v).
Proof.
  intros s idx v HI. pose proof HI as (Hok & Hk & Hd & Hpa & Hcs).
  pose proof Hok as (Hwf & Hl & _).
  unfold do_throw. destruct (nth_error (conts s) idx) as [[kk pt]|] eqn:E; [|exact HI].
  assert (Hc : cont_ok (hp s) (kk, pt)).
  { rewrite Forall_forall in Hcs. apply Hcs. eapply nth_error_In; eauto. }
  destruct Hc as [Hkk Hpt]. cbn in Hkk, Hpt.
  assert (Hdl : dk s < length (hp s)) by (rewrite Hd; apply kont_point_lt; auto).
  assert (Hptl : pt < length (hp s)) by (rewrite Hpt; apply kont_point_lt; auto).
  rewrite travel_ok by auto.
  unfold Inv, Invk, inv. cbn [hp kont dk params conts fst snd].
  split; [exact Hok|]. split; [exact Hkk|]. split; [exact Hpt|]. split; [|exact Hcs].
  rewrite Hpa. eapply script_params; eauto.
Qed.

Lemma conts_snoc : forall h cs k d, Forall (cont_ok h) cs -> kont_ok h k -> d = kont_point k ->
  Forall (cont_ok h) (cs ++ [(k, d)]).
Proof. intros. apply Forall_app. split; auto. constructor; [split; auto|constructor]. Qed.

Lemma do_raise_inv : forall s k c v, Invk s k -> Inv (do_raise travel s k c v).
Proof.
  intros s k c v HI. unfold do_raise.
  destruct (lookup_handler (params s)) as [[hb orig]|]; [|exact HI].
  destruct hb as [tag e|gk only tag e].
  - pose proof (do_wind_inv s k [ASetParams (BHandler orig :: params s)] [ASetParams (params s)] [FHandlerDone c] (CEval e) HI) as H.
    apply H; [right; eauto|repeat constructor].
  - apply do_throw_inv.
    pose proof (do_wind_inv s k [ASetParams (BHandler orig :: params s)] [ASetParams (params s)]
                            [FCallThunk; FHandlerDone c] (CRet (VNat 0)) HI) as H.
    specialize (H ltac:(right; eauto) ltac:(repeat constructor)).
    destruct H as (A & B & C & D & E).
    unfold Inv, Invk, inv. cbn [hp kont dk params conts].
    split; [exact A|]. split; [exact B|]. split; [exact C|]. split; [exact D|].
    apply conts_snoc; auto.
Qed.

Lemma wind_exit_inv : forall h np here outt k d pa cs o,
  inv h (FWindExit np here outt :: k) d pa cs -> inv h k here (fst (run_actions outt pa o)) cs.
Proof.
  intros h np here outt k d pa cs o (Hok & Hk & Hd & Hpa & Hcs).
  cbn in Hk, Hd. destruct Hk as (H1 & H2 & H3 & H4 & H5 & H6). subst d.
  split; [exact Hok|]. split; [exact H6|]. split; [exact H4|]. split; [|exact Hcs].
  pose proof Hok as (_ & _ & _ & Hth).
  rewrite Hpa, (point_params_step h np Hok H1 H2).
  destruct (Hth np H1 H2) as [[Hi Ho]|(new & Hi & Ho)]; rewrite <- H5.
  - rewrite silent_run, silent_head by assumption. rewrite H3. reflexivity.
  - rewrite Ho, Hi. cbn. rewrite H3. reflexivity.
Qed.

(** ---------------------------------------------------------------- the invariant is preserved by every step *)
Theorem step_inv : forall s, Inv s -> Inv (step travel s).
Proof.
  intros s HI. unfold step. destruct (st s); try exact HI.
  destruct (ctl s) as [e|v] eqn:C.
  - (* evaluation *)
    unfold step_eval. destruct e.
    + exact HI.
    + exact HI.
    + apply (nonwind_push _ _ _ _ _ FShow I HI).
    + apply (nonwind_push _ _ _ _ _ (FSeq e2) I HI).
    + apply (nonwind_push _ _ _ _ _ (FAdd1 e2) I HI).
    + apply do_wind_inv; [exact HI|left; split; exact I|constructor].
    + destruct HI as (A & B & C' & D & E). unfold Inv, Invk, inv. cbn [hp kont dk params conts].
      split; [exact A|]. split; [exact B|]. split; [exact C'|]. split; [exact D|]. apply conts_snoc; auto.
    + apply (nonwind_push _ _ _ _ _ (FThrow k limit) I HI).
    + apply (nonwind_push _ _ _ _ _ (FParamVal p e2) I HI).
    + exact HI.
    + apply do_wind_inv; [exact HI|right; eauto|constructor].
    + apply (nonwind_push _ _ _ _ _ (FRaise false) I HI).
    + apply (nonwind_push _ _ _ _ _ (FRaise true) I HI).
    + (* guard *)
      destruct HI as (A & B & C' & D & E).
      apply do_wind_inv.
      * unfold Invk, inv. cbn [hp kont dk params conts].
        split; [exact A|]. split; [exact B|]. split; [exact C'|]. split; [exact D|].
        apply conts_snoc; auto.
      * right. cbn [params]. eauto.
      * repeat constructor.
    + (* CCall *) apply (nonwind_push _ _ _ _ _ FCReturn I HI).
    + (* DynWindP *) apply do_wind_inv; [exact HI|left; split; exact I|constructor].
  - (* return *)
    unfold step_ret. destruct (kont s) as [|f k] eqn:K.
    + unfold Inv, Invk in *. cbn [hp kont dk params conts]. rewrite K in HI. exact HI.
    + unfold Inv in HI. rewrite K in HI.
      destruct f.
      * refine (nonwind_pop _ _ _ _ _ _ _ HI); exact I.
      * destruct v; try exact (eq_ind_r (fun kk => Invk s kk) HI K).
        apply (nonwind_push _ _ _ _ _ (FAdd2 n) I). refine (nonwind_pop _ _ _ _ _ _ _ HI); exact I.
      * destruct v; try exact (eq_ind_r (fun kk => Invk s kk) HI K).
        refine (nonwind_pop _ _ _ _ _ _ _ HI); exact I.
      * destruct v; try exact (eq_ind_r (fun kk => Invk s kk) HI K).
        refine (nonwind_pop _ _ _ _ _ _ _ HI); exact I.
      * (* FWindExit *)
        unfold Inv, Invk. cbn [hp kont dk params conts]. eapply wind_exit_inv. exact HI.
      * destruct v; try exact (eq_ind_r (fun kk => Invk s kk) HI K).
        assert (HI' : Invk s k) by (refine (nonwind_pop _ _ _ _ _ _ _ HI); exact I).
        destruct (assoc k0 (slots s)); [|exact HI'].
        destruct (Nat.ltb (count_of k0 (counts s)) limit); [|exact HI'].
        apply do_throw_inv. exact HI'.
      * destruct v; try exact (eq_ind_r (fun kk => Invk s kk) HI K).
        assert (HI' : Invk s k) by (refine (nonwind_pop _ _ _ _ _ _ _ HI); exact I).
        apply do_wind_inv; [exact HI'|right; eauto|constructor].
      * destruct v; try exact (eq_ind_r (fun kk => Invk s kk) HI K).
        apply do_raise_inv. refine (nonwind_pop _ _ _ _ _ _ _ HI); exact I.
      * assert (HI' : Invk s k) by (refine (nonwind_pop _ _ _ _ _ _ _ HI); exact I).
        destruct c; [exact HI'|]. apply do_raise_inv. exact HI'.
      * assert (HI' : Invk s k) by (refine (nonwind_pop _ _ _ _ _ _ _ HI); exact I).
        destruct v; try exact (eq_ind_r (fun kk => Invk s kk) HI K).
        -- exact HI'.
        -- destruct (clause_test only payload); [exact HI'|]. apply do_throw_inv. exact HI'.
        -- apply do_raise_inv. exact HI'.
      * destruct v; try exact (eq_ind_r (fun kk => Invk s kk) HI K).
        apply do_throw_inv. refine (nonwind_pop _ _ _ _ _ _ _ HI); exact I.
      * (* FCReturn *) refine (nonwind_pop _ _ _ _ _ _ _ HI); exact I.
Qed.

Lemma init_inv : forall e, Inv (init e).
Proof.
  intros e. unfold Inv, Invk, inv, init. cbn [hp kont dk params conts].
  split.
  { split; [|split; [cbn; lia|split; [reflexivity|]]].
    - split; [reflexivity|]. intros p Hp Hl. cbn in Hl. lia.
    - intros p Hp Hl. cbn in Hl. lia. }
  split; [exact I|]. split; [reflexivity|]. split; [reflexivity|constructor].
Qed.

Theorem run_inv : forall n s, Inv s -> Inv (run travel n s).
Proof.
  induction n as [|n IH]; intros s HI; cbn; [exact HI|].
  destruct (st s); auto. apply IH. apply step_inv. exact HI.
Qed.

(** ---------------------------------------------------------------- wind order: a throw runs the R7RS script of the two CONTINUATIONS *)
Theorem do_throw_r7rs : forall s idx v kk pt, Inv s -> nth_error (conts s) idx = Some (kk, pt) ->
  let po := run_wevs (hp s) (frames_script (kont s) kk) (params s) (out s) in
  do_throw travel s idx v =
    mkS (CRet v) kk (kont_point kk) (fst po) (hp s) (conts s) (slots s) (counts s) (snd po) (st s)
  /\ fst po = point_params (hp s) (kont_point kk).
Proof.
  intros s idx v kk pt HI E. pose proof HI as (Hok & Hk & Hd & Hpa & Hcs).
  pose proof Hok as (Hwf & Hl & _).
  assert (Hc : cont_ok (hp s) (kk, pt)).
  { rewrite Forall_forall in Hcs. apply Hcs. eapply nth_error_In; eauto. }
  destruct Hc as [Hkk Hpt]. cbn in Hkk, Hpt.
  assert (Hdl : dk s < length (hp s)) by (rewrite Hd; apply kont_point_lt; auto).
  assert (Hptl : pt < length (hp s)) by (rewrite Hpt; apply kont_point_lt; auto).
  assert (Hscr : wind_script (hp s) (dk s) pt = frames_script (kont s) kk).
  { unfold wind_script, frames_script. rewrite Hd, Hpt, !kont_chain by auto. reflexivity. }
  cbv zeta. split.
  - unfold do_throw. rewrite E, travel_ok by auto. rewrite Hscr, Hpt. reflexivity.
  - rewrite <- Hscr, Hpa, <- Hpt. eapply script_params; eauto.
Qed.

End WithTravel.

(** ---------------------------------------------------------------- the two instances *)
Lemma travel_spec_ok : forall h here target, wf_heap h -> here < length h -> target < length h ->
  travel_spec h (travel_fuel h here target) here target = Some (wind_script h here target).
Proof. reflexivity. Qed.

Lemma travel_impl_ok : forall h here target, wf_heap h -> here < length h -> target < length h ->
  travel_to_point h (travel_fuel h here target) here target = Some (wind_script h here target).
Proof. intros. apply travel_total; auto. Qed.
