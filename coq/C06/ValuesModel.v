(** C06 — multiple values as chibi represents them (lib/init-7.scm:756-770) and how they travel through a continuation
    (continuation->procedure, init-7.scm:820-824: [(lambda res ... (cont (%values res)))]).  Executable model, NO proofs.
      (define *values-tag* (list 'values))
      (define (%values ls) (if (and (pair? ls) (null? (cdr ls))) (car ls) (cons *values-tag* ls)))
      (define (values . ls) (%values ls))
      (define (call-with-values producer consumer)
        (let ((res (producer)))
          (if (and (pair? res) (eq? *values-tag* (car res))) (apply consumer (cdr res)) (consumer res))))  *)
From Coq Require Import List.
Import ListNotations.

(** an object: an ordinary one (identified by a number) or the tagged list (cons *values-tag* ls) *)
Inductive mval := MObj (n : nat) | MTagged (ls : list mval).

(** %values *)
Definition pct_values (ls : list mval) : mval :=
  match ls with
  | [x] => x
  | _ => MTagged ls
  end.

(** (values . ls) *)
Definition values (ls : list mval) : mval := pct_values ls.

(** what a continuation procedure made by continuation->procedure hands to the raw continuation when called with
    the argument list [res] *)
Definition cont_deliver (res : list mval) : mval := pct_values res.

(** call-with-values: the argument list the consumer is applied to, given what (producer) returned *)
Definition cwv_args (res : mval) : list mval :=
  match res with
  | MTagged ls => ls
  | x => [x]
  end.

Definition ordinary (x : mval) : bool := match x with MObj _ => true | MTagged _ => false end.
