(** C06 — executable abstract machine (with fuel) for the control DSL of Defs.v.  It mirrors what the
    pinned chibi-scheme does, at the level of its Scheme runtime library:
      dynamic-wind / continuation->procedure / call-with-current-continuation   lib/init-7.scm:797-829
      travel-to-point!  = the REGENERATED Gen.C06_Travel.travel_to_point        lib/init-7.scm:809-818
      raise-continuable / %with-exception-handler / with-exception-handler      lib/init-7.scm:1160-1192
      raise: look the handler up in the thread-parameters alist and CALL it from the raise point
                                                                                vm.c:1180-1219
      parameterize = dynamic-wind around thread-parameters-set!                 lib/srfi/39/syntax.scm
      guard = the R7RS reference macro                                          lib/scheme/misc-macros.scm:22-42
      %call/cc copies the whole stack, a continuation is (stack copy, wind point)   vm.c:1220-1251
    Raw continuations are lists of frames kept in a grow-only table ([conts]); wind points live in the
    grow-only heap [hp]; [dk] is the (%dk) register; [params] the thread-parameters alist.
    before/after thunks are atomic action lists (no escapes from inside them: R7RS leaves that open).
    NO proofs in this file. *)
From Coq Require Import List Arith Bool.
From ChibiV Require Import C06.Defs C06.WindSpec Gen.C06_Travel.
Import ListNotations.

Definition ERRV : nat := 999.     (* payload standing for the error object of (error "exception handler returned") *)

Inductive value :=
| VNat (n : nat)
| VResThunk (n : nat)                                                  (* (lambda () res)               guard, body finished *)
| VClauseThunk (only : option nat) (tag : nat) (e : exp) (payload hk : nat)   (* (lambda () (let ((var condition)) (guard-aux ...))) *)
| VReraiseThunk (payload : nat).                                       (* (lambda () (raise-continuable condition)) *)

Inductive frame :=
| FSeq (b : exp)
| FAdd1 (b : exp)
| FAdd2 (va : nat)
| FShow
| FWindExit (np here : nat) (outt : thunk)   (* rest of dynamic-wind after (body): (%dk here) (out) res; np is a ghost *)
| FThrow (k limit : nat)
| FParamVal (p : nat) (body : exp)
| FRaise (c : bool)
| FHandlerDone (c : bool)                    (* rest of the lambda in [self] after (handler ...) *)
| FCallThunk                                 (* the outer application in ((call/cc ...)) of guard *)
| FGuardBodyDone (gk : nat)                  (* (guard-k (lambda () res)) *)
| FCReturn.                                  (* bottom of a nested sexp_apply: the value goes back to the C caller *)

Inductive control := CEval (e : exp) | CRet (v : value).
Inductive status := Running | Done | Uncaught | Stuck (code : nat).

Record state := mkS {
  ctl : control; kont : list frame; dk : nat; params : alist; hp : heap;
  conts : list (list frame * nat);          (* continuation procedures: (raw continuation, point) *)
  slots : list (nat * nat);                 (* k_i variable -> index in conts (newest binding first) *)
  counts : list (nat * nat);                (* c_i counters (newest first) *)
  out : list ev;                            (* trace, newest first *)
  st : status }.

Definition init (e : exp) : state := mkS (CEval e) [] 0 [] [root_rec] [] [] [] [] Running.

Fixpoint assoc (k : nat) (l : list (nat * nat)) : option nat :=
  match l with
  | [] => None
  | (a, b) :: r => if Nat.eqb k a then Some b else assoc k r
  end.

Definition count_of (k : nat) (l : list (nat * nat)) : nat := match assoc k l with Some n => n | None => 0 end.

(** number of nested sexp_apply invocations (C frames) currently on the C stack; kept in the counter table under a
    reserved key so that the state record stays the same.  Invoking a continuation replaces the Scheme stack but
    does NOT unwind these C frames (vm.c:1220-1233 runs inside whatever VM loop is current). *)
Definition CDEPTH : nat := 1000.
Definition STALE_C_FRAME : nat := 9.        (* status Stuck 9: control returned into a C frame whose VM state is stale *)

Fixpoint run_actions (acts : thunk) (pa : alist) (o : list ev) : alist * list ev :=
  match acts with
  | [] => (pa, o)
  | AEmit k v :: r => run_actions r pa ((k, v) :: o)
  | ASetParams a :: r => run_actions r a o
  | AReadParam p :: r => run_actions r pa ((10 + p, lookup_param p pa) :: o)
  end.

Fixpoint run_wevs (h : heap) (ws : list wev) (pa : alist) (o : list ev) : alist * list ev :=
  match ws with
  | [] => (pa, o)
  | WIn p :: r => let po := run_actions (pin (hget h p)) pa o in run_wevs h r (fst po) (snd po)
  | WOut p :: r => let po := run_actions (pout (hget h p)) pa o in run_wevs h r (fst po) (snd po)
  end.

Section WithTravel.
(** the machine is parameterised by the function used for (travel-to-point! here target):
    [machine_impl] uses the regenerated code, [machine_spec] the SPEC wind script (the oracle of the
    correspondence); MachineProofs.v shows they coincide on every reachable state. *)
Variable travel : heap -> nat -> nat -> nat -> tr.

Definition stuck (s : state) (code : nat) : state :=
  mkS (ctl s) (kont s) (dk s) (params s) (hp s) (conts s) (slots s) (counts s) (out s) (Stuck code).

(** dynamic-wind (init-7.scm:797-807): (in); here := (%dk); (%dk (make-point (+ depth 1) in out here)); then the
    body runs with [inner] frames above the FWindExit frame, over the continuation [k] *)
Definition do_wind (s : state) (k : list frame) (inn outt : thunk) (inner : list frame) (c : control) : state :=
  let po := run_actions inn (params s) (out s) in
  let here := dk s in
  let np := length (hp s) in
  mkS c (inner ++ FWindExit np here outt :: k) np (fst po)
      (hp s ++ [mkP (depth (hp s) here + 1) inn outt here])
      (conts s) (slots s) (counts s) (snd po) (st s).

(** continuation->procedure (init-7.scm:820-824): (travel-to-point! (%dk) point) (%dk point) (cont v) *)
Definition do_throw (s : state) (idx : nat) (v : value) : state :=
  match nth_error (conts s) idx with
  | None => stuck s 1
  | Some (kk, pt) =>
      match travel (hp s) (travel_fuel (hp s) (dk s) pt) (dk s) pt with
      | None => stuck s 2
      | Some ws =>
          let po := run_wevs (hp s) ws (params s) (out s) in
          mkS (CRet v) kk pt (fst po) (hp s) (conts s) (slots s) (counts s) (snd po) (st s)
      end
  end.

Definition clause_test (only : option nat) (payload : nat) : bool :=
  match only with None => true | Some m => Nat.eqb payload m end.

(** raise (vm.c:1180-1219) + [self] of with-exception-handler (init-7.scm:1182-1191): the handler is CALLED from
    the raise point [k]; it runs inside (%with-exception-handler orig-handler ...) *)
Definition do_raise (s : state) (k : list frame) (c : bool) (v : nat) : state :=
  match lookup_handler (params s) with
  | None => mkS (ctl s) k (dk s) (params s) (hp s) (conts s) (slots s) (counts s) (out s) Uncaught
  | Some (HC hb orig) =>
      let old := params s in
      let new := BHandler orig :: old in
      match hb with
      | HUser tag e =>
          let s1 := do_wind s k [ASetParams new] [ASetParams old] [FHandlerDone c] (CEval e) in
          mkS (ctl s1) (kont s1) (dk s1) (params s1) (hp s1) (conts s1) (slots s1) (counts s1)
              ((6, v) :: (5, tag) :: out s1) (st s1)
      | HGuard gk only tag e =>
          (* ((call/cc (lambda (handler-k) (guard-k (lambda () clauses))))) *)
          let s1 := do_wind s k [ASetParams new] [ASetParams old] [FCallThunk; FHandlerDone c] (CRet (VNat 0)) in
          let hk := length (conts s1) in
          let s2 := mkS (ctl s1) (kont s1) (dk s1) (params s1) (hp s1) (conts s1 ++ [(kont s1, dk s1)])
                        (slots s1) (counts s1) (out s1) (st s1) in
          do_throw s2 gk (VClauseThunk only tag e v hk)
      end
  end.

Definition with_ck (s : state) (c : control) (k : list frame) : state :=
  mkS c k (dk s) (params s) (hp s) (conts s) (slots s) (counts s) (out s) (st s).

Definition emit (s : state) (e : ev) : state :=
  mkS (ctl s) (kont s) (dk s) (params s) (hp s) (conts s) (slots s) (counts s) (e :: out s) (st s).

Definition step_eval (s : state) (e : exp) : state :=
  let k := kont s in
  match e with
  | Const n => with_ck s (CRet (VNat n)) k
  | Mark n => emit (with_ck s (CRet (VNat n)) k) (0, n)
  | Show a => with_ck s (CEval a) (FShow :: k)
  | Seq a b => with_ck s (CEval a) (FSeq b :: k)
  | Add a b => with_ck s (CEval a) (FAdd1 b :: k)
  | DynWind i body => do_wind s k [AEmit 1 i] [AEmit 2 i] [] (CEval body)
  | CallCC kn body =>
      let idx := length (conts s) in
      mkS (CEval body) k (dk s) (params s) (hp s) (conts s ++ [(k, dk s)]) ((kn, idx) :: slots s) (counts s) (out s) (st s)
  | Throw kn limit a => with_ck s (CEval a) (FThrow kn limit :: k)
  | Parameterize p a body => with_ck s (CEval a) (FParamVal p body :: k)
  | PRef p => let v := lookup_param p (params s) in emit (with_ck s (CRet (VNat v)) k) (10 + p, v)
  | WithHandler tag h body =>
      let orig := lookup_handler (params s) in
      let self := HC (HUser tag h) orig in
      let old := params s in
      do_wind s k [ASetParams (BHandler (Some self) :: old)] [ASetParams old] [] (CEval body)
  | Raise a => with_ck s (CEval a) (FRaise false :: k)
  | RaiseC a => with_ck s (CEval a) (FRaise true :: k)
  | Guard only tag h body =>
      let kg := FCallThunk :: k in
      let gk := length (conts s) in
      let s1 := mkS (ctl s) kg (dk s) (params s) (hp s) (conts s ++ [(kg, dk s)]) (slots s) (counts s) (out s) (st s) in
      let orig := lookup_handler (params s) in
      let self := HC (HGuard gk only tag h) orig in
      let old := params s in
      do_wind s1 kg [ASetParams (BHandler (Some self) :: old)] [ASetParams old] [FGuardBodyDone gk] (CEval body)
  | DynWindP i p body => do_wind s k [AEmit 1 i; AReadParam p] [AEmit 2 i; AReadParam p] [] (CEval body)
  | CCall body =>
      mkS (CEval body) (FCReturn :: k) (dk s) (params s) (hp s) (conts s) (slots s)
          ((CDEPTH, S (count_of CDEPTH (counts s))) :: counts s) (out s) (st s)
  end.

Definition step_ret (s : state) (v : value) : state :=
  match kont s with
  | [] => (* the outermost frame returns: the CURRENT VM loop ends; if nested loops are still on the C stack the value
             goes to a C caller whose Scheme stack was replaced long ago *)
          mkS (ctl s) [] (dk s) (params s) (hp s) (conts s) (slots s) (counts s) (out s)
              (if Nat.ltb 0 (count_of CDEPTH (counts s)) then Stuck STALE_C_FRAME else Done)
  | f :: k =>
      match f, v with
      | FSeq b, _ => with_ck s (CEval b) k
      | FAdd1 b, VNat n => with_ck s (CEval b) (FAdd2 n :: k)
      | FAdd2 a, VNat n => with_ck s (CRet (VNat (a + n))) k
      | FShow, VNat n => emit (with_ck s (CRet v) k) (3, n)
      | FWindExit np here outt, _ =>
          let po := run_actions outt (params s) (out s) in
          mkS (CRet v) k here (fst po) (hp s) (conts s) (slots s) (counts s) (snd po) (st s)
      | FThrow kn limit, VNat n =>
          match assoc kn (slots s) with
          | Some idx =>
              if Nat.ltb (count_of kn (counts s)) limit then
                do_throw (mkS (ctl s) k (dk s) (params s) (hp s) (conts s) (slots s)
                              ((kn, S (count_of kn (counts s))) :: counts s) (out s) (st s)) idx v
              else with_ck s (CRet v) k
          | None => with_ck s (CRet v) k
          end
      | FParamVal p body, VNat n =>
          let old := params s in
          do_wind s k [ASetParams (BParam p n :: old)] [ASetParams old] [] (CEval body)
      | FRaise c, VNat n => do_raise s k c n
      | FHandlerDone c, _ => if c then with_ck s (CRet v) k else do_raise s k false ERRV
      | FCallThunk, VResThunk n => with_ck s (CRet (VNat n)) k
      | FCallThunk, VClauseThunk only tag e payload hk =>
          if clause_test only payload then
            emit (emit (with_ck s (CEval e) k) (7, tag)) (6, payload)
          else do_throw (with_ck s (ctl s) k) hk (VReraiseThunk payload)
      | FCallThunk, VReraiseThunk payload => do_raise s k true payload
      | FGuardBodyDone gk, VNat n => do_throw (with_ck s (ctl s) k) gk (VResThunk n)
      | FCReturn, _ =>
          mkS (CRet v) k (dk s) (params s) (hp s) (conts s) (slots s)
              ((CDEPTH, pred (count_of CDEPTH (counts s))) :: counts s) (out s) (st s)
      | _, _ => stuck s 3
      end
  end.

Definition step (s : state) : state :=
  match st s with
  | Running => match ctl s with CEval e => step_eval s e | CRet v => step_ret s v end
  | _ => s
  end.

Fixpoint run (fuel : nat) (s : state) : state :=
  match fuel with
  | O => s
  | S f => match st s with Running => run f (step s) | _ => s end
  end.

End WithTravel.

(** what the correspondence compares: final status and the trace, oldest event first *)
Definition status_code (x : status) : nat :=
  match x with Running => 0 | Done => 1 | Uncaught => 2 | Stuck c => 10 + c end.

Definition travel_spec (h : heap) (fuel here target : nat) : tr := Some (wind_script h here target).

Definition step_impl := step travel_to_point.
Definition step_spec := step travel_spec.
Definition run_impl := run travel_to_point.
Definition run_spec := run travel_spec.

Definition run_script_impl (fuel : nat) (e : exp) : nat * list ev :=
  let s := run_impl fuel (init e) in (status_code (st s), rev (out s)).
(** R7RS knows no C stack: a procedure called back from C is just a procedure *)
Fixpoint erase_ccall (e : exp) : exp :=
  match e with
  | Const _ | Mark _ | PRef _ => e
  | Show a => Show (erase_ccall a)
  | Seq a b => Seq (erase_ccall a) (erase_ccall b)
  | Add a b => Add (erase_ccall a) (erase_ccall b)
  | DynWind i b => DynWind i (erase_ccall b)
  | CallCC k b => CallCC k (erase_ccall b)
  | Throw k l a => Throw k l (erase_ccall a)
  | Parameterize p a b => Parameterize p (erase_ccall a) (erase_ccall b)
  | WithHandler t h b => WithHandler t (erase_ccall h) (erase_ccall b)
  | Raise a => Raise (erase_ccall a)
  | RaiseC a => RaiseC (erase_ccall a)
  | Guard o t h b => Guard o t (erase_ccall h) (erase_ccall b)
  | CCall b => erase_ccall b
  | DynWindP i p b => DynWindP i p (erase_ccall b)
  end.

Definition run_script_spec (fuel : nat) (e : exp) : nat * list ev :=
  let s := run_spec fuel (init e) in (status_code (st s), rev (out s)).
