(** C08 proofs, round 4: consequences of the two compound round-trip theorems.
    The text determines the datum: two data (without flonum leaves) that are written as the same text -
    by the same writer or one by sexp_write_one and the other by (scheme write) - are the same datum.
    So no reader whatsoever could tell them apart, and the writers never print two different data alike. *)
From Coq Require Import ZArith List Bool Lia Arith.
From ChibiV Require Import C08.Datum Gen.C08_Tables Gen.C08_Leaf C08.Write C08.Read C08.Model3 C08.Model4
  C08.FloSpec C08.CompoundProofs C08.FloProofs.
Import ListNotations.
Local Open Scope Z_scope.

(** which writer: false = sexp_write_one, true = (scheme write) *)
Definition text_of (lib : bool) fmt_g scan_g (d : datum) : list Z :=
  if lib then swrite fmt_g scan_g d else write fmt_g scan_g d.

Lemma text_of_reads_back : forall lib fmt_g scan_g d f, wfd0 d -> (height d + 2 <= f)%nat ->
  read_raw (fun _ _ _ => 0) f (text_of lib fmt_g scan_g d) = Ok (TDatum d) [].
Proof.
  intros lib fmt_g scan_g d f Hw Hf.
  rewrite <- (app_nil_r (text_of lib fmt_g scan_g d)). destruct lib; cbn [text_of].
  - apply scheme_write_roundtrip_ok; [assumption|assumption|reflexivity].
  - apply list_vector_bytes_roundtrip_ok; [assumption|assumption|reflexivity].
Qed.

Theorem texts_determine_datum_ok : forall fmt_g scan_g l1 l2 d1 d2, wfd0 d1 -> wfd0 d2 ->
  text_of l1 fmt_g scan_g d1 = text_of l2 fmt_g scan_g d2 -> d1 = d2.
Proof.
  intros fmt_g scan_g l1 l2 d1 d2 H1 H2 E.
  pose (f := (Nat.max (height d1) (height d2) + 2)%nat).
  assert (R1 := text_of_reads_back l1 fmt_g scan_g d1 f H1 ltac:(unfold f; lia)).
  assert (R2 := text_of_reads_back l2 fmt_g scan_g d2 f H2 ltac:(unfold f; lia)).
  rewrite E in R1. rewrite R1 in R2. congruence.
Qed.

(** (1 2) and (1 . (2)) are the same datum and have the same text; (1 2) and (12) do not *)
Example texts_determine_datum_example :
  text_of false (fun _ _ => []) (fun _ => None) (Pair (Int 1) (Pair (Int 2) Nil)) = [40; 49; 32; 50; 41] /\
  text_of true (fun _ _ => []) (fun _ => None) (Pair (Int 12) Nil) = [40; 49; 50; 41] /\
  text_of true (fun _ _ => []) (fun _ => None) (Chr 955) <> text_of false (fun _ _ => []) (fun _ => None) (Chr 955).
Proof. repeat split; try (vm_compute; reflexivity). vm_compute. discriminate. Qed.

(** the same with flonum leaves (not NaN), under the libc hypotheses of flonum_roundtrip_given: in particular two
    different doubles are never written as the same text *)
Theorem texts_determine_datum_flonums_ok :
  forall fmt_g scan_g strtod fmt_0f i2d, libc_flonum fmt_g scan_g strtod fmt_0f i2d ->
  forall l1 l2 d1 d2, wfd flo_leaf_ok d1 -> wfd flo_leaf_ok d2 ->
  text_of l1 fmt_g scan_g d1 = text_of l2 fmt_g scan_g d2 -> d1 = d2.
Proof.
  intros fmt_g scan_g strtod fmt_0f i2d libc l1 l2 d1 d2 H1 H2 E.
  pose (f := (Nat.max (height d1) (height d2) + 2)%nat).
  assert (R : forall l d, wfd flo_leaf_ok d -> (height d + 2 <= f)%nat ->
            read_raw (dec2flo_strtod strtod fmt_0f i2d (fun _ _ _ => 0)) f (text_of l fmt_g scan_g d) = Ok (TDatum d) []).
  { intros l d Hw Hf. rewrite <- (app_nil_r (text_of l fmt_g scan_g d)). destruct l; cbn [text_of].
    - apply scheme_write_roundtrip_flonums_ok; [assumption|assumption|assumption|reflexivity].
    - apply datum_roundtrip_flonums_ok; [assumption|assumption|assumption|reflexivity]. }
  assert (R1 := R l1 d1 H1 ltac:(unfold f; lia)).
  assert (R2 := R l2 d2 H2 ltac:(unfold f; lia)).
  rewrite E in R1. rewrite R1 in R2. congruence.
Qed.
