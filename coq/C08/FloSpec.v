(** C08 spec, round 3 (no proofs in this file): the grammar of the decimal texts printf "%.<p>lg" emits,
    the hypotheses about libc under which flonum_roundtrip_given is proved (record libc_flonum), and
    the NaN canonicalisation.  Extracted: the check rebuilds printf's texts with utext/stext and tests
    every hypothesis on every generated double (driver request "flohyp"). *)
From Coq Require Import ZArith List Bool.
From ChibiV Require Import C08.Datum Gen.C08_Tables Gen.C08_Leaf C08.Write C08.Read C08.Model3.
Import ListNotations.
Local Open Scope Z_scope.

(** ** the decimal texts printf emits, as a grammar *)
(** value of a digit string (Proofs.dstep unfolded: v * 10 + digit_value d) *)
Definition dval (ds : list Z) : Z := fold_left (fun v d => v * 10 + digit_value d) ds 0.
Definition TWO63 : Z := 9223372036854775808.
Definition TWO64 : Z := 18446744073709551616.
Definition signbit (b : Z) : bool := TWO63 <=? b.
Definition finite (b : Z) : Prop := 0 <= b < TWO64 /\ flo_class b = 0.

(** exponent part: (negative?, digits) *)
Definition exv (ex : option (bool * list Z)) : Z :=
  match ex with None => 0 | Some (neg, ed) => if neg then - dval ed else dval ed end.

Definition utext (w fr : list Z) (ex : option (bool * list Z)) : list Z :=
  w ++ match fr with [] => [] | _ => 46 :: fr end
    ++ match ex with None => [] | Some (neg, ed) => 101 :: (if neg then 45 else 43) :: ed end.

Definition stext (neg : bool) (u : list Z) : list Z := if neg then 45 :: u else u.

Definition is_digit_char (d : Z) : Prop := 48 <= d <= 57.

Definition shape_ok (w fr : list Z) (ex : option (bool * list Z)) : Prop :=
  w <> [] /\ Forall is_digit_char w /\ Forall is_digit_char fr /\ (length w + length fr <= 40)%nat /\
  match ex with None => True | Some (_, ed) => ed <> [] /\ Forall is_digit_char ed /\ (length ed <= 4)%nat end.

(** mantissa * 10^k denote the same number *)
Definition deq (m1 k1 m2 k2 : Z) : Prop := m1 * 10 ^ Z.max 0 (k1 - k2) = m2 * 10 ^ Z.max 0 (k2 - k1).

(** ** hypotheses about libc (recorded by the check as assumptions and tested on every generated
    double by the extracted driver: request "flohyp") *)
Record libc_flonum (fmt_g : Z -> Z -> list Z) (scan_g : list Z -> option Z) (strtod : list Z -> Z)
                   (fmt_0f : Z -> list Z) (i2d : Z -> Z) : Prop := {
  (* printf "%.{15,16,17}lg" of a finite double is total and has the shape [-]digits[.digits][e(+|-)digits],
     '-' exactly when the sign bit is set; its integer part converts to double and prints back with
     "%.0f" unchanged *)
  lf_shape : forall p b, p = 15 \/ p = 16 \/ p = 17 -> finite b ->
    exists w fr ex, shape_ok w fr ex /\ fmt_g p b = stext (signbit b) (utext w fr ex) /\
                    fmt_0f (i2d (dval w)) = w;
  (* sscanf "%lg" succeeds on such a text and agrees with strtod *)
  lf_scan : forall neg w fr ex, shape_ok w fr ex ->
    scan_g (stext neg (utext w fr ex)) = Some (strtod (stext neg (utext w fr ex)));
  (* strtod of "-"u is the negation of strtod u; strtod of an unsigned text has the sign bit clear *)
  lf_sign : forall w fr ex, shape_ok w fr ex -> strtod (45 :: utext w fr ex) = flip_sign (strtod (utext w fr ex));
  lf_pos : forall w fr ex, shape_ok w fr ex -> 0 <= strtod (utext w fr ex) < TWO63;
  (* strtod is a function of the number denoted: digits"e"k and w.fr e(+|-)dd with the same value *)
  lf_val : forall ds k w fr ex, ds <> [] -> Forall is_digit_char ds -> (length ds <= 41)%nat -> shape_ok w fr ex ->
    deq (dval ds) k (dval (w ++ fr)) (exv ex - Z.of_nat (length fr)) ->
    strtod (ds ++ 101 :: write_int k) = strtod (utext w fr ex);
  (* 17 significant digits determine a double: strtod (printf "%.17lg" x) = x *)
  lf_rt17 : forall b, finite b -> strtod (fmt_g 17 b) = b
}.

(** the unsigned text of printf gets ".0" appended when it has neither '.' nor 'e' (sexp.c:2270-2293) *)
Definition patched (fr : list Z) (ex : option (bool * list Z)) : bool :=
  match fr, ex with [], None => true | _, _ => false end.

(** NaN canonicalisation of the round trip: every NaN is written "+nan.0" and read as 0x7FF8000000000000 *)
Definition flo_canon (b : Z) : Z := if flo_class b =? 3 then A_NAN else b.
