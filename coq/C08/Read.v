(** C08 model, reader side: the tokeniser decisions of sexp_read_raw (sexp.c:3377-3931) and its
    helpers sexp_read_string (2601-2681), sexp_read_symbol (2683-2722), sexp_read_number
    (2935-3106), sexp_read_float_tail (2819-2890) for the data of C08/Datum.v.
    Input is the list of bytes still to be read; sexp_push_char = not consuming.
    Every syntax the model does not cover answers [Err Unmodelled] (never a guess): numeric
    prefixes other than #x, ratios, complex numbers, uniform vectors other than #u8, datum labels,
    block/datum comments, #! directives, brace literals, line continuations inside strings,
    a \x escape that is not closed by ';'.  No proofs in this file. *)
From Coq Require Import ZArith List Bool.
From ChibiV Require Import C08.Datum Gen.C08_Tables Gen.C08_Leaf C08.Write.
Import ListNotations.
Local Open Scope Z_scope.

Inductive err := ReadErr | Unmodelled | OutOfFuel.
Inductive tok := TDatum (d : datum) | TClose | TDot | TEof.
Inductive res := Ok (t : tok) (rest : list Z) | Err (e : err).

Definition MAX_FIXNUM : Z := 4611686018427387903.

(** is the next character EOF or a separator? *)
Definition at_delim (s : list Z) : bool :=
  match s with [] => true | c :: _ => is_separator c end.

(** sexp_read_symbol, the loop (2696-2714); [acc] is buf reversed (init already in it).
    A backslash takes the next character literally, except that EOF/separator still ends the
    symbol (the backslash is then dropped). *)
Fixpoint read_symbol_loop (s acc : list Z) : list Z * list Z :=
  match s with
  | [] => (rev acc, [])
  | c :: s' =>
      if c =? 92 then
        match s' with
        | [] => (rev acc, [])
        | c2 :: s'' => if is_separator c2 then (rev acc, s') else read_symbol_loop s'' (c2 :: acc)
        end
      else if is_separator c then (rev acc, s)
      else read_symbol_loop s' (c :: acc)
  end.

(** sexp_read_string (2611-2673) as a state machine over the input: SNorm = the for loop,
    SHex = inside the sexp_read_number(in, 16, 0) call of a \x escape (value so far, digit seen). *)
Inductive sstate := SNorm | SHex (val : Z) (got : bool).
Inductive sres := SOk (bs : list Z) (rest : list Z) | SErr (e : err).

Fixpoint read_string_loop (sentinel : Z) (st : sstate) (s acc : list Z) : sres :=
  match s with
  | [] => SErr ReadErr                                   (* premature end of string *)
  | c :: s' =>
      match st with
      | SNorm =>
          if c =? sentinel then SOk (rev acc) s'
          else if c =? 92 then
            match s' with
            | [] => SErr ReadErr
            | c2 :: s'' =>
                if c2 =? 97 then read_string_loop sentinel SNorm s'' (7 :: acc)
                else if c2 =? 98 then read_string_loop sentinel SNorm s'' (8 :: acc)
                else if c2 =? 110 then read_string_loop sentinel SNorm s'' (10 :: acc)
                else if c2 =? 114 then read_string_loop sentinel SNorm s'' (13 :: acc)
                else if c2 =? 116 then read_string_loop sentinel SNorm s'' (9 :: acc)
                else if (c2 =? 120) || (c2 =? 88) then read_string_loop sentinel (SHex 0 false) s'' acc
                else if isspace c2 then SErr Unmodelled   (* SEXP_USE_ESCAPE_NEWLINE continuation *)
                else read_string_loop sentinel SNorm s'' (c2 :: acc)
            end
          else read_string_loop sentinel SNorm s' (c :: acc)
      | SHex val got =>
          if isxdigit c then
            let v := val * 16 + digit_value c in
            if v >? MAX_FIXNUM then SErr Unmodelled       (* bignum: not a fixnum, 'x' is kept *)
            else read_string_loop sentinel (SHex v true) s' acc
          else if c =? 59 then
            if negb got then SErr ReadErr                 (* digitless numeric literal *)
            else if val >? 1114111 then SErr Unmodelled
            else if val >? 128                           (* (unsigned)c > 0x80: re-encoded as UTF-8 *)
                 then read_string_loop sentinel SNorm s' (rev (utf8_encode val) ++ acc)
                 else read_string_loop sentinel SNorm s' (val :: acc)
          else SErr Unmodelled
      end
  end.

(** the digit loop of sexp_read_number (2967-2980); overflow into sexp_read_bignum is abstracted:
    the value is accumulated in Z (exact arithmetic of bignum.c is C04's subject). *)
Fixpoint read_digits (base : Z) (s : list Z) (val : Z) (got : bool) : Z * bool * list Z :=
  match s with
  | c :: s' =>
      if isxdigit c && (0 <=? digit_value c) && (digit_value c <? base)
      then read_digits base s' (val * base + digit_value c) true
      else (val, got, s)
  | [] => (val, got, [])
  end.

Fixpoint span_digits (s : list Z) : list Z * list Z :=
  match s with
  | c :: s' => if isdigit c then let '(d, r) := span_digits s' in (c :: d, r) else ([], s)
  | [] => ([], [])
  end.

Definition flip_sign (b : Z) : Z :=
  if b <? 9223372036854775808 then b + 9223372036854775808 else b - 9223372036854775808.

Definition POS_INF : Z := 9218868437227405312.      (* 0x7FF0000000000000 *)
Definition NEG_INF : Z := 18442240474082181120.     (* 0xFFF0000000000000 *)
Definition A_NAN   : Z := 9221120237041090560.      (* 0x7FF8000000000000 *)

Definition lower (s : list Z) : list Z := map tolower s.

(** C string view of a buffer: up to the first NUL *)
Fixpoint cstr (s : list Z) : list Z :=
  match s with [] => [] | c :: s' => if c =? 0 then [] else c :: cstr s' end.

Definition mk_list (elems : list datum) (tail : datum) : datum := fold_right Pair tail elems.

(** proper list of bytes -> Some bytes (sexp_list_to_uvector for SEXP_U8) *)
Fixpoint list_to_u8 (d : datum) : option (list Z) :=
  match d with
  | Nil => Some []
  | Pair (Int z) t =>
      if (0 <=? z) && (z <=? 255) then
        match list_to_u8 t with Some l => Some (z :: l) | None => None end
      else None
  | _ => None
  end.

Fixpoint list_to_vec (d : datum) : option (list datum) :=
  match d with
  | Nil => Some []
  | Pair a t => match list_to_vec t with Some l => Some (a :: l) | None => None end
  | _ => None
  end.

Definition sym_quote    : list Z := [113; 117; 111; 116; 101].
Definition sym_qquote   : list Z := [113; 117; 97; 115; 105; 113; 117; 111; 116; 101].
Definition sym_unquote  : list Z := [117; 110; 113; 117; 111; 116; 101].
Definition sym_unquote_splicing : list Z :=
  [117; 110; 113; 117; 111; 116; 101; 45; 115; 112; 108; 105; 99; 105; 110; 103].

Section Reader.
  (** the decimal -> double arithmetic of sexp_read_float_tail (2822-2835, 2864-2867: long double
      accumulation, pow, exp/log) is a parameter: whole part, fraction digits, exponent -> bits of
      the non-negative double *)
  Variable dec2flo : Z -> list Z -> Z -> Z.

  (** sexp_read_float_tail after the '.', or at the precision indicator when there was none *)
  Definition read_float_tail (whole : Z) (s : list Z) : res :=
    let '(fr, s1) := span_digits s in
    match s1 with
    | [] => Ok (TDatum (Flo (dec2flo whole fr 0))) []
    | c :: s2 =>
        if is_prec c then
          let s3 := match s2 with 43 :: t => t | _ => s2 end in
          let '(neg, s4) := match s3 with 45 :: t => (true, t) | 43 :: t => (false, t) | _ => (false, s3) end in
          let '(e, got, s5) := read_digits 10 s4 0 false in
          if e >? MAX_FIXNUM then Err Unmodelled
          else if at_delim s5 then
            (if got then Ok (TDatum (Flo (dec2flo whole fr (if neg then - e else e)))) s5 else Err ReadErr)
          else Err Unmodelled
        else if is_separator c then Ok (TDatum (Flo (dec2flo whole fr 0))) s1
        else if (c =? 105) || (c =? 73) || (c =? 43) || (c =? 45) || (c =? 64) then Err Unmodelled
        else Err ReadErr
    end.

  (** sexp_read_number(in, 10, 0) entered at a digit or at '.' (no sign, no # prefix) *)
  Definition read_number10 (s : list Z) : res :=
    if (match s with c :: _ => (c =? 35) || (c =? 45) || (c =? 43) | [] => false end) then Err Unmodelled
    else
      let '(val, got, s1) := read_digits 10 s 0 false in
      match s1 with
      | [] => if got then Ok (TDatum (Int val)) [] else Err ReadErr
      | c :: s2 =>
          if c =? 46 then read_float_tail val s2
          else if is_prec c then read_float_tail val s1
          else if (c =? 47) || (c =? 105) || (c =? 73) || (c =? 43) || (c =? 45) || (c =? 64) || (c =? 35)
               then Err Unmodelled
          else if is_separator c then (if got then Ok (TDatum (Int val)) s1 else Err ReadErr)
          else Err ReadErr
      end.

  (** sexp_read_number(in, 16, 0): optional sign, hex digits, then EOF/separator *)
  Definition read_number16 (s : list Z) : res :=
    let neg := match s with c :: _ => c =? 45 | [] => false end in
    let s0 := match s with c :: t => if (c =? 45) || (c =? 43) then t else s | [] => s end in
    if (match s0 with c :: _ => c =? 35 | [] => false end) then Err Unmodelled
    else
      let '(val, got, s1) := read_digits 16 s0 0 false in
      if at_delim s1 then (if got then Ok (TDatum (Int (if neg then - val else val))) s1 else Err ReadErr)
      else Err Unmodelled.

  (** scan_loop (3384-3401): white space and ; comments *)
  Fixpoint skip_ws (s : list Z) (in_comment : bool) : list Z :=
    match s with
    | [] => []
    | c :: s' =>
        if in_comment then (if c =? 10 then skip_ws s' false else skip_ws s' true)
        else if c =? 59 then skip_ws s' true
        else if (c =? 10) || (c =? 32) || (c =? 9) || (c =? 12) || (c =? 13) then skip_ws s' false
        else s
    end.

  (** the '(' arm (3427-3472): [rd] reads one raw token (read_raw with the remaining fuel) *)
  Fixpoint list_loop (rd : list Z -> res) (n : nat) (acc : list datum) (s : list Z) : res :=
    match n with
    | O => Err OutOfFuel
    | S n' =>
        match rd s with
        | Err e => Err e
        | Ok (TDatum x) r => list_loop rd n' (x :: acc) r
        | Ok TClose r => Ok (TDatum (mk_list (rev acc) Nil)) r
        | Ok TEof _ => Err ReadErr
        | Ok TDot r =>
            match acc with
            | [] => Err ReadErr
            | _ =>
                match rd r with
                | Err e => Err e
                | Ok TClose _ => Err ReadErr
                | Ok t r2 =>
                    match rd r2 with
                    | Ok TClose r3 =>
                        match t with
                        | TDatum x => Ok (TDatum (mk_list (rev acc) x)) r3
                        | _ => Err ReadErr
                        end
                    | _ => Err ReadErr
                    end
                end
            end
        end
    end.

  Definition quote_form (name : list Z) (r : res) : res :=
    match r with
    | Ok (TDatum x) rest => Ok (TDatum (Pair (Sym name) (Pair x Nil))) rest
    | Ok TEof _ => Err Unmodelled
    | Ok _ _ => Err ReadErr
    | Err e => Err e
    end.

  (** the '+' / '-' arm when no number follows (3866-3915): symbol, infinities, NaN *)
  Definition plus_minus_symbol (c1 : Z) (s1 : list Z) : res :=
    let '(str, rest) := read_symbol_loop s1 [c1] in
    let cs := lower (cstr str) in
    if list_eqb cs [43; 105; 110; 102; 46; 48] then Ok (TDatum (Flo POS_INF)) rest
    else if list_eqb cs [45; 105; 110; 102; 46; 48] then Ok (TDatum (Flo NEG_INF)) rest
    else if list_eqb (tl cs) [110; 97; 110; 46; 48] then Ok (TDatum (Flo A_NAN)) rest
    else if list_eqb (firstn 5 (tl cs)) [105; 110; 102; 46; 48] then Err Unmodelled
    else if list_eqb str [43; 105] || list_eqb str [45; 105] then Err Unmodelled
    else Ok (TDatum (Sym str)) rest.

  Definition negate (r : res) : res :=
    match r with
    | Ok (TDatum (Int z)) rest => Ok (TDatum (Int (- z))) rest
    | Ok (TDatum (Flo b)) rest => Ok (TDatum (Flo (flip_sign b))) rest
    | _ => r
    end.

  (** #\ arm (3718-3759) *)
  Definition read_char_literal (s2 : list Z) : res :=
    match s2 with
    | [] => Err ReadErr
    | c1 :: s3 =>
        if ((c1 =? 120) || (c1 =? 88)) && (match s3 with c2 :: _ => isxdigit c2 | [] => false end) then
          match read_number16 s3 with
          | Ok (TDatum (Int v)) rest =>
              if (0 <=? v) && (v <=? 1114111) then Ok (TDatum (Chr v)) rest else Err ReadErr
          | Ok _ _ => Err ReadErr
          | Err e => Err e
          end
        else
          let '(str, rest) := read_symbol_loop s3 [c1] in
          if (length str =? 1)%nat then Ok (TDatum (Chr c1)) rest
          else
            let cs := cstr str in
            match find (fun p => list_eqb cs (fst p)) sexp_char_names with
            | Some p => Ok (TDatum (Chr (snd p))) rest
            | None =>
                let v := sexp_decode_utf8_char (nth 0 cs 0) (nth 1 cs 0) (nth 2 cs 0) (nth 3 cs 0)
                                               (Z.of_nat (length cs)) in
                if v >? 0 then Ok (TDatum (Chr v)) rest else Err ReadErr
            end
    end.

  Fixpoint read_raw (f : nat) (s : list Z) : res :=
    match f with
    | O => Err OutOfFuel
    | S f' =>
      let read_one (s : list Z) : res :=
        match read_raw f' s with
        | Ok TClose _ | Ok TDot _ => Err ReadErr
        | r => r
        end in
      match skip_ws s false with
      | [] => Ok TEof []
      | c :: s1 =>
        if c =? 39 then quote_form sym_quote (read_one s1)
        else if c =? 96 then quote_form sym_qquote (read_one s1)
        else if c =? 44 then
          match s1 with
          | 64 :: s2 => quote_form sym_unquote_splicing (read_one s2)
          | _ => quote_form sym_unquote (read_one s1)
          end
        else if c =? 34 then
          match read_string_loop 34 SNorm s1 [] with
          | SOk bs rest => Ok (TDatum (Str bs)) rest
          | SErr e => Err e
          end
        else if c =? 40 then list_loop (read_raw f') f' [] s1
        else if (c =? 123) || (c =? 125) then Err Unmodelled
        else if c =? 35 then
          match s1 with
          | [] => Err ReadErr
          | h :: s2 =>
              if (h =? 120) || (h =? 88) then read_number16 s2
              else if (h =? 116) || (h =? 84) || (h =? 102) || (h =? 70) then
                if at_delim s2 then Ok (TDatum (Bool ((h =? 116) || (h =? 84)))) s2
                else if (match s2 with c2 :: _ => isdigit c2 | [] => false end) then Err Unmodelled
                else
                  let '(str, rest) := read_symbol_loop s2 [h] in
                  let cs := lower (cstr str) in
                  if list_eqb cs [116; 114; 117; 101] then Ok (TDatum (Bool true)) rest
                  else if list_eqb cs [102; 97; 108; 115; 101] then Ok (TDatum (Bool false)) rest
                  else Err ReadErr
              else if (h =? 117) || (h =? 85) then
                let '(val, got, s3) := read_digits 10 s2 0 false in
                if negb (at_delim s3) then Err Unmodelled
                else if negb got then Err ReadErr
                else if val =? 8 then
                  match read_one s3 with
                  | Ok (TDatum x) rest =>
                      match list_to_u8 x with
                      | Some l => Ok (TDatum (Bytes l)) rest
                      | None => Err Unmodelled
                      end
                  | Ok _ _ => Err Unmodelled
                  | Err e => Err e
                  end
                else Err Unmodelled
              else if h =? 92 then read_char_literal s2
              else if h =? 40 then
                match read_one s1 with
                | Ok (TDatum x) rest =>
                    match list_to_vec x with
                    | Some l => Ok (TDatum (Vec l)) rest
                    | None => Err ReadErr
                    end
                | Ok _ _ => Err ReadErr
                | Err e => Err e
                end
              else Err Unmodelled
          end
        else if c =? 46 then
          if at_delim s1 then Ok TDot s1
          else if (match s1 with d :: _ => isdigit d | [] => false end) then read_float_tail 0 s1
          else let '(str, rest) := read_symbol_loop s1 [46] in Ok (TDatum (Sym str)) rest
        else if c =? 41 then Ok TClose s1
        else if c =? 124 then
          match read_string_loop 124 SNorm s1 [] with
          | SOk bs rest => Ok (TDatum (Sym bs)) rest
          | SErr e => Err e
          end
        else if (c =? 43) || (c =? 45) then
          match s1 with
          | c2 :: s2 =>
              if ((c2 =? 46) && (match s2 with d :: _ => isdigit d | [] => false end)) || isdigit c2
              then (if c =? 45 then negate (read_number10 s1) else read_number10 s1)
              else plus_minus_symbol c s1
          | [] => plus_minus_symbol c s1
          end
        else if isdigit c then read_number10 (c :: s1)
        else let '(str, rest) := read_symbol_loop s1 [c] in Ok (TDatum (Sym str)) rest
      end
    end.

  (** sexp_read_one / sexp_read_op without datum labels *)
  Definition read_top (f : nat) (s : list Z) : res :=
    match read_raw f s with
    | Ok TClose _ | Ok TDot _ => Err ReadErr
    | r => r
    end.
End Reader.
