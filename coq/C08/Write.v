(** C08 model, writer side: sexp_write_one (sexp.c:2185-2557) on the data of C08/Datum.v.
    No proofs in this file.  Output is the list of bytes given to sexp_write_char/_string. *)
From Coq Require Import ZArith List Bool.
From ChibiV Require Import C08.Datum Gen.C08_Tables Gen.C08_Leaf.
Import ListNotations.
Local Open Scope Z_scope.

(** sexp_is_separator (sexp.c:49-51, regenerated) as a boolean; is_precision_indicator likewise *)
Definition is_separator (c : Z) : bool := negb (sexp_is_separator c =? 0).
Definition is_prec (c : Z) : bool := negb (is_precision_indicator c =? 0).

(** SEXP_STRING arm (sexp.c:2331-2356).  str[0] is a (signed) char: bytes >= 0x80 are negative and
    take the default arm's else branch (written raw). *)
Definition write_str_byte (b : Z) : list Z :=
  if b =? 92 then [92; 92]
  else if b =? 34 then [92; 34]
  else if b =? 7 then [92; 97]
  else if b =? 8 then [92; 98]
  else if b =? 10 then [92; 110]
  else if b =? 13 then [92; 114]
  else if b =? 9 then [92; 116]
  else if (schar b <? 32) && (schar b >=? 0)
       then [92; 120; hex_digit (Z.shiftr (schar b) 4); hex_digit (Z.land (schar b) 15); 59]
       else [b].

Definition write_string (bs : list Z) : list Z := 34 :: flat_map write_str_byte bs ++ [34].

(** SEXP_SYMBOL arm (sexp.c:2357-2380).  The head condition `c = (...) ? '|' : EOF` and the
    condition of the loop over the characters are regenerated from sexp.c
    (Gen/C08_Leaf.v: sym_quote_head, sym_quote_char) with str[i] = schar of byte i (0 past the end:
    the symbol data is NUL-terminated). *)
Definition sym_needs_bars (s : list Z) : bool :=
  let at_ i := schar (nth i s 0) in
  negb (sym_quote_head (at_ 0%nat) (at_ 1%nat) (at_ 2%nat) (at_ 3%nat) (Z.of_nat (length s)) =? 0)
  || existsb (fun b => negb (sym_quote_char (schar b) =? 0)) s.

Definition write_sym_byte (b : Z) : list Z :=
  if (b =? 92) || (b =? 124) then [92; b] else [b].

Definition write_symbol (s : list Z) : list Z :=
  if sym_needs_bars s then 124 :: flat_map write_sym_byte s ++ [124]
  else flat_map write_sym_byte s.

(** character arm (sexp.c:2500-2526): name table, printable ASCII, else x + 2/4/6 hex digits *)
Definition write_char (c : Z) : list Z :=
  35 :: 92 ::
  match find (fun p => snd p =? c) sexp_char_names with
  | Some p => fst p
  | None =>
      if (33 <=? c) && (c <? 127) then [c]
      else 120 ::
           (if c >=? 256 then
              (if c >=? 65536 then [hex_digit (Z.land (Z.shiftr c 20) 15); hex_digit (Z.land (Z.shiftr c 16) 15)] else [])
              ++ [hex_digit (Z.land (Z.shiftr c 12) 15); hex_digit (Z.land (Z.shiftr c 8) 15)]
            else [])
           ++ [hex_digit (Z.land (Z.shiftr c 4) 15); hex_digit (Z.land c 15)]
  end.

(** fixnums by "%ld", bignums by sexp_write_bignum(…, 10): decimal digits, most significant first.
    [dec_digits f n acc] peels the low digit f times at most; f = S (log2 n) always suffices
    (Proofs.dec_digits_spec).  The fixnum/bignum split is not visible in the text. *)
Fixpoint dec_digits (f : nat) (n : Z) (acc : list Z) : list Z :=
  match f with
  | O => acc
  | S f' => if n <? 10 then (48 + n) :: acc else dec_digits f' (n / 10) ((48 + n mod 10) :: acc)
  end.

Definition write_nat (n : Z) : list Z := dec_digits (S (Z.to_nat (Z.log2 n))) n [].

Definition write_int (z : Z) : list Z :=
  if z <? 0 then 45 :: write_nat (- z) else write_nat z.

(** SEXP_BYTES arm (sexp.c:2412-2430) with SEXP_BYTEVECTOR_HEX_LITERALS: 0 | #xHH (upper case) *)
Definition write_u8 (b : Z) : list Z :=
  if b =? 0 then [48] else [35; 120; hex_digit_upper (b / 16); hex_digit_upper (b mod 16)].

Definition write_bytes (l : list Z) : list Z :=
  [35; 117; 56; 40] ++
  match l with
  | [] => []
  | b :: l' => write_u8 b ++ flat_map (fun x => 32 :: write_u8 x) l'
  end ++ [41].

Section Flonum.
  (** snprintf(numbuf, …, "%.<p>lg", f) and sscanf(numbuf, "%lg", &ftmp) are parameters of the model
      (libc); [fmt_g p bits] is the text, [scan_g text] the bit pattern scanned back.
      flo_class: 0 finite, 1 +inf, 2 -inf, 3 nan *)
  Variable fmt_g : Z -> Z -> list Z.
  Variable scan_g : list Z -> option Z.

  Definition flo_class (b : Z) : Z :=
    let e := (b / 4503599627370496) mod 2048 in
    let m := b mod 4503599627370496 in
    if e =? 2047 then (if m =? 0 then (if b <? 9223372036854775808 then 1 else 2) else 3) else 0.

  (** ftmp != f on doubles that are not NaN: different bit patterns, except +0.0 == -0.0 *)
  Definition flo_ne (a b : Z) : bool :=
    negb (a =? b) && negb ((a mod 9223372036854775808 =? 0) && (b mod 9223372036854775808 =? 0)).

  (** SEXP_FLONUM arm (sexp.c:2243-2288): try %.15lg, %.16lg, %.17lg; append ".0" when the text has
      neither '.' nor 'e' (the locale patching of lines 2265-2280 is outside the model: C locale). *)
  Definition flo_text (b : Z) : list Z :=
    let t15 := fmt_g 15 b in
    match scan_g t15 with
    | Some r15 =>
        if flo_ne r15 b then
          let t16 := fmt_g 16 b in
          match scan_g t16 with
          | Some r16 => if flo_ne r16 b then fmt_g 17 b else t16
          | None => t16
          end
        else t15
    | None => t15
    end.

  Definition has_point_or_e (t : list Z) : bool := existsb (fun c => (c =? 46) || (c =? 101)) t.

  Definition write_flo (b : Z) : list Z :=
    let k := flo_class b in
    if k =? 1 then [43; 105; 110; 102; 46; 48]
    else if k =? 2 then [45; 105; 110; 102; 46; 48]
    else if k =? 3 then [43; 110; 97; 110; 46; 48]
    else let t := flo_text b in if has_point_or_e t then t else t ++ [46; 48].

  (** sexp_write_one.  Pairs (sexp.c:2208-2225): "(" car, then for every further pair of the cdr
      chain " " car, then " . " tail when the chain does not end in (), then ")".  The text of the
      cdr chain of (a . t) is the text of t without its opening parenthesis, which lets the
      definition stay structural.  Not modelled: the depth bound (SEXP_DEFAULT_WRITE_BOUND = 10000
      nested objects print "...") and the hare/tortoise cycle test — data here are finite trees. *)
  Fixpoint write (d : datum) : list Z :=
    match d with
    | Int z => write_int z
    | Flo b => write_flo b
    | Chr c => write_char c
    | Str s => write_string s
    | Sym s => write_symbol s
    | Bool true => [35; 116]
    | Bool false => [35; 102]
    | Nil => [40; 41]
    | Pair a t =>
        40 :: write a ++
        match t with
        | Nil => [41]
        | Pair _ _ => 32 :: tl (write t)
        | _ => [32; 46; 32] ++ write t ++ [41]
        end
    | Vec l =>
        match l with
        | [] => [35; 40; 41]
        | e :: l' => [35; 40] ++ write e ++ flat_map (fun x => 32 :: write x) l' ++ [41]
        end
    | Bytes l => write_bytes l
    end.
End Flonum.
