(** C08 proofs, round 3, part 1: character literals at reader level (both writers). *)
From Coq Require Import ZArith List Bool Lia.
From ChibiV Require Import C08.Datum C08.CSem C08.Tables Gen.C08_Tables Gen.C08_Leaf C08.Write C08.Read
  C08.Model3 C08.Proofs.
Import ListNotations.
Local Open Scope Z_scope.
Ltac Zify.zify_post_hook ::= Z.div_mod_to_equations.

(** the #\ arm is entered on "#\\" *)
Lemma read_raw_char : forall d f s, read_raw d (S f) (35 :: 92 :: s) = read_char_literal s.
Proof. reflexivity. Qed.

(** what sexp_read_raw does with the token collected by sexp_read_symbol *)
Definition char_of_token (c1 : Z) (str rest : list Z) : res :=
  if (length str =? 1)%nat then Ok (TDatum (Chr c1)) rest
  else
    let cs := cstr str in
    match find (fun p => list_eqb cs (fst p)) sexp_char_names with
    | Some p => Ok (TDatum (Chr (snd p))) rest
    | None =>
        let v := sexp_decode_utf8_char (nth 0 cs 0) (nth 1 cs 0) (nth 2 cs 0) (nth 3 cs 0)
                                       (Z.of_nat (length cs)) in
        if v >? 0 then Ok (TDatum (Chr v)) rest else Err ReadErr
    end.

Lemma rcl_sym : forall c1 s3,
  ((c1 =? 120) || (c1 =? 88)) && (match s3 with c2 :: _ => isxdigit c2 | [] => false end) = false ->
  read_char_literal (c1 :: s3) =
  let '(str, rest) := read_symbol_loop s3 [c1] in char_of_token c1 str rest.
Proof. intros c1 s3 H. unfold read_char_literal. rewrite H. reflexivity. Qed.

Lemma delim_not_xdigit : forall rest, at_delim rest = true ->
  (match rest with c2 :: _ => isxdigit c2 | [] => false end) = false.
Proof.
  intros [|c r] H; [reflexivity|]. cbn [at_delim] in H. sf T c (fun b => negb (isxdigit b)). exact T.
Qed.

(** a single character before a delimiter: printable ASCII of the native writer, every unnamed
    ASCII character (control characters included) of the library writer *)
Lemma rcl_single : forall c1 rest, at_delim rest = true ->
  read_char_literal (c1 :: rest) = Ok (TDatum (Chr c1)) rest.
Proof.
  intros c1 rest H. rewrite rcl_sym by (rewrite delim_not_xdigit by assumption; apply andb_false_r).
  rewrite rsl_delim by assumption. reflexivity.
Qed.

(** symbol-loop characters in general: not a backslash, not a separator *)
Definition symch (b : Z) : bool := negb (b =? 92) && negb (is_separator b).

Lemma rsl_symch : forall bs rest acc, Forall (fun b => symch b = true) bs -> at_delim rest = true ->
  read_symbol_loop (bs ++ rest) acc = (rev acc ++ bs, rest).
Proof.
  induction bs as [|b bs IH]; intros rest acc Hp Hd.
  - cbn [app]. rewrite app_nil_r. apply rsl_delim, Hd.
  - inversion Hp as [|? ? Hb Hp2]; subst. unfold symch in Hb. apply andb_prop in Hb as [G1 G2].
    apply negb_true_iff in G1, G2.
    cbn [app read_symbol_loop]. rewrite G1, G2. rewrite IH by assumption.
    cbn [rev]. rewrite <- app_assoc. reflexivity.
Qed.

(** ** names *)
Lemma name_chars_ok :
  forallb (fun p => forallb symch (fst p) && negb (existsb (fun b => b =? 0) (fst p))
                    && negb (match fst p with c1 :: _ => (c1 =? 120) || (c1 =? 88) | [] => true end)
                    && (2 <=? length (fst p))%nat) sexp_char_names = true.
Proof. vm_compute. reflexivity. Qed.

Lemma cstr_nonzero : forall l, existsb (fun b => b =? 0) l = false -> cstr l = l.
Proof.
  induction l as [|b l IH]; intros H; [reflexivity|]. cbn [existsb] in H.
  apply orb_false_elim in H as [H1 H2]. cbn [cstr]. rewrite H1, IH by assumption. reflexivity.
Qed.

(** the table maps names to distinct values and back: looking the written name up gives the value *)
Lemma names_lookup :
  forallb (fun p => match find (fun q => list_eqb (fst p) (fst q)) sexp_char_names with
                    | Some q => snd q =? snd p | None => false end) sexp_char_names = true.
Proof. vm_compute. reflexivity. Qed.

Lemma rcl_name : forall p rest, In p sexp_char_names -> at_delim rest = true ->
  read_char_literal (fst p ++ rest) = Ok (TDatum (Chr (snd p))) rest.
Proof.
  intros p rest Hin Hd.
  pose proof name_chars_ok as H1. rewrite forallb_forall in H1. specialize (H1 p Hin).
  pose proof names_lookup as H2. rewrite forallb_forall in H2. specialize (H2 p Hin).
  cbv beta in H1, H2.
  apply andb_prop in H1 as [H1 Hlen]. apply andb_prop in H1 as [H1 Hx]. apply andb_prop in H1 as [Hs Hz].
  apply negb_true_iff in Hz, Hx. rewrite forallb_forall in Hs.
  destruct (fst p) as [|c1 bs] eqn:Ep; [discriminate|].
  cbn [app]. rewrite rcl_sym by (rewrite Hx; reflexivity).
  rewrite rsl_symch; [|apply Forall_forall; intros b Hb; apply Hs; right; exact Hb|assumption].
  cbn [rev app]. unfold char_of_token.
  destruct bs as [|b2 bs']; [discriminate|].
  cbn [length Nat.eqb]. rewrite cstr_nonzero by assumption.
  destruct (find (fun q => list_eqb (c1 :: b2 :: bs') (fst q)) sexp_char_names) as [q|]; [|discriminate].
  apply Z.eqb_eq in H2. rewrite H2. reflexivity.
Qed.

(** ** hexadecimal scalar values *)
Lemma read_digits_delim : forall base rest v got, at_delim rest = true ->
  read_digits base rest v got = (v, got, rest).
Proof.
  intros base [|c r] v got H; [reflexivity|]. cbn [at_delim] in H.
  sf T c (fun b => negb (isxdigit b)). cbn [read_digits]. rewrite T. reflexivity.
Qed.

Lemma nibble_cases : forall n, 0 <= n < 16 ->
  n = 0 \/ n = 1 \/ n = 2 \/ n = 3 \/ n = 4 \/ n = 5 \/ n = 6 \/ n = 7 \/ n = 8 \/ n = 9 \/
  n = 10 \/ n = 11 \/ n = 12 \/ n = 13 \/ n = 14 \/ n = 15.
Proof. intros. lia. Qed.

Lemma hex_digit_read : forall n s v got, 0 <= n < 16 ->
  read_digits 16 (hex_digit n :: s) v got = read_digits 16 s (v * 16 + n) true.
Proof.
  intros n s v got H. apply nibble_cases in H.
  repeat (destruct H as [H|H]); subst; reflexivity.
Qed.

Lemma hex_digit_head : forall n, 0 <= n < 16 ->
  isxdigit (hex_digit n) = true /\ (hex_digit n =? 45) = false /\ (hex_digit n =? 43) = false /\
  (hex_digit n =? 35) = false.
Proof.
  intros n H. apply nibble_cases in H.
  repeat (destruct H as [H|H]); subst; repeat split; reflexivity.
Qed.

Definition nib (c k : Z) : Z := Z.land (Z.shiftr c k) 15.

Lemma nib_spec : forall c k, 0 <= k -> nib c k = (c / 2 ^ k) mod 16.
Proof. intros c k Hk. unfold nib. rewrite Z.shiftr_div_pow2 by assumption. apply (land_mod _ 4 15); lia. Qed.

Lemma nib_range : forall c k, 0 <= k -> 0 <= nib c k < 16.
Proof. intros c k Hk. rewrite nib_spec by assumption. apply Z.mod_pos_bound. lia. Qed.

(** read_number16 on hex digits d ++ rest where the digits spell the value v *)
Lemma read_number16_hex : forall n ds rest v, 0 <= n < 16 -> at_delim rest = true ->
  read_digits 16 (hex_digit n :: ds ++ rest) 0 false = (v, true, rest) ->
  read_number16 (hex_digit n :: ds ++ rest) = Ok (TDatum (Int v)) rest.
Proof.
  intros n ds rest v Hn Hd Hr. destruct (hex_digit_head n Hn) as (_ & H45 & H43 & H35).
  unfold read_number16. rewrite H45, H43. cbn [orb]. rewrite H35. rewrite Hr, Hd. reflexivity.
Qed.

Definition hex_digits (c : Z) : list Z :=
  (if c >=? 256 then
     (if c >=? 65536 then [hex_digit (nib c 20); hex_digit (nib c 16)] else [])
     ++ [hex_digit (nib c 12); hex_digit (nib c 8)]
   else [])
  ++ [hex_digit (nib c 4); hex_digit (nib c 0)].

Lemma hex_digits_read : forall c rest, 0 <= c <= 1114111 -> at_delim rest = true ->
  exists n ds, hex_digits c = hex_digit n :: ds /\ 0 <= n < 16 /\
               read_digits 16 (hex_digits c ++ rest) 0 false = (c, true, rest).
Proof.
  intros c rest Hc Hd.
  pose proof (nib_range c 0 ltac:(lia)) as R0. pose proof (nib_range c 4 ltac:(lia)) as R4.
  pose proof (nib_range c 8 ltac:(lia)) as R8. pose proof (nib_range c 12 ltac:(lia)) as R12.
  pose proof (nib_range c 16 ltac:(lia)) as R16. pose proof (nib_range c 20 ltac:(lia)) as R20.
  pose proof (nib_spec c 0 ltac:(lia)) as S0. pose proof (nib_spec c 4 ltac:(lia)) as S4.
  pose proof (nib_spec c 8 ltac:(lia)) as S8. pose proof (nib_spec c 12 ltac:(lia)) as S12.
  pose proof (nib_spec c 16 ltac:(lia)) as S16. pose proof (nib_spec c 20 ltac:(lia)) as S20.
  change (2 ^ 0) with 1 in S0. change (2 ^ 4) with 16 in S4. change (2 ^ 8) with 256 in S8.
  change (2 ^ 12) with 4096 in S12. change (2 ^ 16) with 65536 in S16. change (2 ^ 20) with 1048576 in S20.
  unfold hex_digits.
  destruct (Z.geb_spec c 256) as [E1|E1]; [destruct (Z.geb_spec c 65536) as [E2|E2]|].
  - exists (nib c 20). eexists. split; [reflexivity|]. split; [assumption|].
    cbn [app]. rewrite !hex_digit_read by assumption. rewrite read_digits_delim by assumption.
    f_equal. f_equal. lia.
  - exists (nib c 12). eexists. split; [reflexivity|]. split; [assumption|].
    cbn [app]. rewrite !hex_digit_read by assumption. rewrite read_digits_delim by assumption.
    f_equal. f_equal. lia.
  - exists (nib c 4). eexists. split; [reflexivity|]. split; [assumption|].
    cbn [app]. rewrite !hex_digit_read by assumption. rewrite read_digits_delim by assumption.
    f_equal. f_equal. lia.
Qed.

Lemma rcl_hex : forall c rest, 0 <= c <= 1114111 -> at_delim rest = true ->
  read_char_literal (120 :: hex_digits c ++ rest) = Ok (TDatum (Chr c)) rest.
Proof.
  intros c rest Hc Hd. destruct (hex_digits_read c rest Hc Hd) as (n & ds & E & Hn & Hr).
  rewrite E in *. cbn [app] in *. destruct (hex_digit_head n Hn) as (Hx & _).
  unfold read_char_literal. rewrite Hx. cbn [Z.eqb Pos.eqb orb andb].
  rewrite (read_number16_hex n ds rest c Hn Hd Hr).
  replace ((0 <=? c) && (c <=? 1114111)) with true
    by (symmetry; apply andb_true_intro; split; apply Z.leb_le; lia).
  reflexivity.
Qed.

Lemma write_char_hex : forall c,
  find (fun p => snd p =? c) sexp_char_names = None -> (33 <=? c) && (c <? 127) = false ->
  write_char c = 35 :: 92 :: 120 :: hex_digits c.
Proof. intros c H1 H2. unfold write_char. rewrite H1, H2. reflexivity. Qed.

(** ** the native writer's text *)
Theorem char_roundtrip_native : forall dec2flo f c rest, 0 <= c <= 1114111 -> at_delim rest = true ->
  read_raw dec2flo (S f) (write_char c ++ rest) = Ok (TDatum (Chr c)) rest.
Proof.
  intros d f c rest Hc Hd.
  destruct (find (fun p => snd p =? c) sexp_char_names) as [p|] eqn:E.
  - apply find_some in E as [Hin Hv]. apply Z.eqb_eq in Hv.
    unfold write_char. destruct (find (fun p => snd p =? c) sexp_char_names) as [p'|] eqn:E'.
    + apply find_some in E' as [Hin' Hv']. apply Z.eqb_eq in Hv'.
      cbn [app]. rewrite read_raw_char. rewrite rcl_name by assumption. rewrite Hv'. reflexivity.
    + exfalso. apply (find_none _ _ E') in Hin. rewrite Hv, Z.eqb_refl in Hin. discriminate.
  - destruct ((33 <=? c) && (c <? 127)) eqn:Ep.
    + unfold write_char. rewrite E, Ep. cbn [app]. rewrite read_raw_char. apply rcl_single, Hd.
    + rewrite write_char_hex by assumption. cbn [app]. rewrite read_raw_char. apply rcl_hex; assumption.
Qed.

(** ** the library writer's text: names or raw UTF-8 *)
(** both name tables denote the same map (value -> name) *)
Lemma escaped_chars_38_same :
  forallb (fun c => match find (fun p => fst p =? c) escaped_chars_38,
                          find (fun p => snd p =? c) sexp_char_names with
                    | Some p, Some q => list_eqb (snd p) (fst q) && list_eqb (fst q) (snd p)
                    | None, None => true
                    | _, _ => false
                    end) (map Z.of_nat (seq 0 128)) = true.
Proof. vm_compute. reflexivity. Qed.

Lemma list_eqb_eq : forall a b, list_eqb a b = true -> a = b.
Proof.
  induction a as [|x a IH]; intros [|y b] H; try discriminate; [reflexivity|].
  cbn [list_eqb] in H. apply andb_prop in H as [H1 H2]. apply Z.eqb_eq in H1. f_equal; auto.
Qed.

Lemma find38_high : forall c, 128 <= c -> find (fun p => fst p =? c) escaped_chars_38 = None.
Proof.
  intros c Hc. unfold escaped_chars_38. cbn [find fst].
  repeat (match goal with |- context [?k =? c] => replace (k =? c) with false by (symmetry; apply Z.eqb_neq; lia) end).
  reflexivity.
Qed.

Lemma findnames_high : forall c, 128 <= c -> find (fun p => snd p =? c) sexp_char_names = None.
Proof.
  intros c Hc. unfold sexp_char_names. cbn [find snd].
  repeat (match goal with |- context [?k =? c] => replace (k =? c) with false by (symmetry; apply Z.eqb_neq; lia) end).
  reflexivity.
Qed.

Lemma utf8_shape : forall c, 128 <= c <= 1114111 ->
  exists lead b2 conts, utf8_encode c = lead :: b2 :: conts /\ 192 <= lead <= 247 /\
                        Forall (fun b => 128 <= b <= 191) (b2 :: conts).
Proof.
  intros c Hc. unfold utf8_encode.
  destruct (Z.ltb_spec c 128) as [E1|E1]; [lia|].
  destruct (Z.ltb_spec c 2048) as [E2|E2]; [|destruct (Z.ltb_spec c 65536) as [E3|E3]].
  - do 3 eexists. split; [reflexivity|]. split; [lia|]. repeat constructor; lia.
  - do 3 eexists. split; [reflexivity|]. split; [lia|]. repeat constructor; lia.
  - do 3 eexists. split; [reflexivity|]. split; [lia|]. repeat constructor; lia.
Qed.

Lemma cont_symch : forall b, 128 <= b -> symch b = true.
Proof.
  intros b Hb. unfold symch, is_separator, sexp_is_separator.
  replace (b =? 92) with false by (symmetry; apply Z.eqb_neq; lia).
  replace (b <? 128) with false by (symmetry; apply Z.ltb_ge; lia).
  rewrite andb_false_r. reflexivity.
Qed.

Lemma names_ascii : forallb (fun p => match fst p with c1 :: _ => c1 <? 128 | [] => false end) sexp_char_names = true.
Proof. vm_compute. reflexivity. Qed.

Lemma find_name_high : forall lead cs, 128 <= lead ->
  find (fun p => list_eqb (lead :: cs) (fst p)) sexp_char_names = None.
Proof.
  intros lead cs Hl. pose proof names_ascii as H. revert H.
  generalize sexp_char_names. induction l as [|p l IH]; intros H; [reflexivity|].
  cbn [forallb] in H. apply andb_prop in H as [Hp Hl']. cbn [find].
  destruct (fst p) as [|c1 r]; [discriminate|]. apply Z.ltb_lt in Hp. cbn [list_eqb].
  replace (lead =? c1) with false by (symmetry; apply Z.eqb_neq; lia). cbn [andb]. apply IH, Hl'.
Qed.

Lemma rcl_utf8 : forall c rest, 128 <= c <= 1114111 -> at_delim rest = true ->
  read_char_literal (utf8_encode c ++ rest) = Ok (TDatum (Chr c)) rest.
Proof.
  intros c rest Hc Hd. pose proof (decode_encode_ok c Hc) as Hdec. unfold decode_bytes in Hdec.
  destruct (utf8_shape c Hc) as (lead & b2 & conts & E & Hl & Hcs). rewrite E in *.
  cbn [app]. rewrite rcl_sym
    by (replace (lead =? 120) with false by (symmetry; apply Z.eqb_neq; lia);
        replace (lead =? 88) with false by (symmetry; apply Z.eqb_neq; lia); reflexivity).
  change (b2 :: conts ++ rest) with ((b2 :: conts) ++ rest).
  rewrite rsl_symch;
    [|eapply Forall_impl; [|exact Hcs]; intros b Hb; cbv beta in Hb; apply cont_symch; lia|assumption].
  cbn [rev app]. unfold char_of_token. cbn [length Nat.eqb].
  assert (Hz : existsb (fun b => b =? 0) (lead :: b2 :: conts) = false).
  { apply not_true_is_false. intros Hex. apply existsb_exists in Hex as (b & Hin & Hb0). apply Z.eqb_eq in Hb0.
    destruct Hin as [<-|Hin]; [lia|]. rewrite Forall_forall in Hcs. specialize (Hcs b Hin). lia. }
  rewrite cstr_nonzero by assumption. rewrite find_name_high by lia.
  cbv zeta. rewrite Hdec. replace (c >? 0) with true by (symmetry; apply Z.gtb_lt; lia). reflexivity.
Qed.

Theorem char_roundtrip_library : forall dec2flo f c rest, 0 <= c <= 1114111 -> at_delim rest = true ->
  read_raw dec2flo (S f) (swrite_char c ++ rest) = Ok (TDatum (Chr c)) rest.
Proof.
  intros d f c rest Hc Hd. unfold swrite_char. cbn [app]. rewrite read_raw_char.
  destruct (Z.ltb_spec c 128) as [Hlo|Hhi].
  - (* ASCII: the two tables agree; an unnamed character is written raw *)
    pose proof escaped_chars_38_same as T. rewrite forallb_forall in T.
    specialize (T c). cbv beta in T.
    assert (Hin : In c (map Z.of_nat (seq 0 128))).
    { apply in_map_iff. exists (Z.to_nat c). split; [lia|]. apply in_seq. lia. }
    specialize (T Hin).
    destruct (find (fun p => fst p =? c) escaped_chars_38) as [p|] eqn:E38;
      destruct (find (fun p => snd p =? c) sexp_char_names) as [q|] eqn:En; try discriminate.
    + apply andb_prop in T as [T _]. apply list_eqb_eq in T. rewrite T.
      apply find_some in En as [Hq Hv]. apply Z.eqb_eq in Hv. rewrite rcl_name by assumption.
      rewrite Hv. reflexivity.
    + unfold utf8_encode. replace (c <? 128) with true by (symmetry; apply Z.ltb_lt; lia).
      cbn [app]. apply rcl_single, Hd.
  - rewrite find38_high by lia. apply rcl_utf8; [lia|assumption].
Qed.

(** both writers; every code point up to U+10FFFF (the scalar values are a subset) *)
Theorem char_roundtrip_ok : forall dec2flo f c rest, 0 <= c <= 1114111 -> at_delim rest = true ->
  read_raw dec2flo (S f) (write_char c ++ rest) = Ok (TDatum (Chr c)) rest /\
  read_raw dec2flo (S f) (swrite_char c ++ rest) = Ok (TDatum (Chr c)) rest.
Proof. intros. split; [apply char_roundtrip_native|apply char_roundtrip_library]; assumption. Qed.

Example char_roundtrip_example :
  write_char 128512 = [35; 92; 120; 48; 49; 102; 54; 48; 48] /\
  swrite_char 128512 = [35; 92; 240; 159; 152; 128] /\
  read_raw (fun _ _ _ => 0) 1 (write_char 128512 ++ [41]) = Ok (TDatum (Chr 128512)) [41] /\
  read_raw (fun _ _ _ => 0) 1 (swrite_char 128512 ++ [41]) = Ok (TDatum (Chr 128512)) [41] /\
  read_raw (fun _ _ _ => 0) 1 (write_char 120 ++ [32; 97]) = Ok (TDatum (Chr 120)) [32; 97] /\
  read_raw (fun _ _ _ => 0) 1 (swrite_char 12 ++ [40]) = Ok (TDatum (Chr 12)) [40] /\
  write_char 127 = [35; 92; 100; 101; 108; 101; 116; 101].
Proof. vm_compute. repeat split; reflexivity. Qed.
