(** C08: datum labels, vectors included - the theorem of C08/LabelProofs.v without its [novec]
    premise: the reader's label table rebuilds every graph the shared-structure writer emits, also
    when the graph has vectors ([#(...)], empty, nested, in a list tail, labelled [#n=#(...)], with
    references to open and to closed labels among the elements).
    The "#(" arm of the model ([KVec] in [rd]) reads the '(' loop and converts the proper list with a
    local [to_vec] fixpoint; [wf] threads the label counter through the elements with [fold_left].
    Both need an induction that goes through the element list ([gterm_ind'] below). *)
From Coq Require Import ZArith List Bool Lia Arith.
From ChibiV Require Import C08.Labels C08.LabelProofs.
Import ListNotations.
Local Open Scope Z_scope.

(** ---- induction on [gterm] with the hypothesis on every element of a vector *)
Fixpoint gterm_ind' (P : gterm -> Prop)
    (HAtom : forall a, P (GAtom a)) (HNil : P GNil)
    (HPair : forall a d, P a -> P d -> P (GPair a d))
    (HVec : forall l, Forall P l -> P (GVec l))
    (HDef : forall n b, P b -> P (GDef n b))
    (HRef : forall n, P (GRef n)) (t : gterm) {struct t} : P t :=
  let rec := gterm_ind' P HAtom HNil HPair HVec HDef HRef in
  match t with
  | GAtom a => HAtom a
  | GNil => HNil
  | GPair a d => HPair a d (rec a) (rec d)
  | GVec l => HVec l ((fix go (l : list gterm) : Forall P l :=
                         match l with
                         | [] => Forall_nil P
                         | x :: l' => Forall_cons x (rec x) (go l')
                         end) l)
  | GDef n b => HDef n b (rec b)
  | GRef n => HRef n
  end.

(** ---- [wf] on the elements of a vector *)
Definition wfstep (acc : option Z) (x : gterm) : option Z :=
  match acc with Some c1 => wf c1 x | None => None end.
Definition wfl (o : option Z) (l : list gterm) : option Z := fold_left wfstep l o.

Lemma wf_vec : forall c l, wf c (GVec l) = wfl (Some c) l.
Proof. reflexivity. Qed.

Lemma wfl_none : forall l, wfl None l = None.
Proof. induction l; simpl; auto. Qed.

Lemma wfl_cons : forall c x l, wfl (Some c) (x :: l) = wfl (wf c x) l.
Proof. reflexivity. Qed.

Lemma wfl_cons_inv : forall c x l c', wfl (Some c) (x :: l) = Some c' ->
  exists c1, wf c x = Some c1 /\ wfl (Some c1) l = Some c'.
Proof.
  intros c x l c' H. rewrite wfl_cons in H. destruct (wf c x) as [c1|] eqn:E.
  - eauto.
  - rewrite wfl_none in H. discriminate.
Qed.

(** [wf_mono] of LabelProofs.v without [novec] *)
Lemma wf_mono_vec : forall t c c', wf c t = Some c' -> c <= c'.
Proof.
  intro t. induction t as [a | | t1 t2 IHt1 IHt2 | l IHl | n t IHt | n] using gterm_ind';
    intros c c' H.
  - simpl in H. inversion H; lia.
  - simpl in H. inversion H; lia.
  - simpl in H. destruct (wf c t1) eqn:E; try discriminate.
    apply IHt1 in E. apply IHt2 in H. lia.
  - rewrite wf_vec in H. revert c H. induction IHl as [|x l Hx Hl IH]; intros c H.
    + inversion H; lia.
    + apply wfl_cons_inv in H. destruct H as (c1 & E1 & E2).
      apply Hx in E1. apply IH in E2. lia.
  - simpl in H. destruct (n =? c) eqn:E; try discriminate.
    destruct t; try discriminate; apply IHt in H; lia.
  - simpl in H. destruct ((0 <=? n) && (n <? c)); inversion H; lia.
Qed.

(** ---- the "#(" arm: the local [to_vec] of [rd] under a name *)
Definition to_vec (r' : list ltok) (tb' : table) : lval -> list lval -> lres (lval * list ltok * table) :=
  fix to_vec (v : lval) (acc : list lval) : lres (lval * list ltok * table) :=
    match v with
    | LNil => LOk (LVec (rev acc), r', tb')
    | LPair a d => to_vec d (a :: acc)
    | _ => LErr LReadErr
    end.

Lemma rd_vec_eq : forall f r tb,
  rd (S f) MOne (KVec :: r) tb =
  match rd f (MList []) r tb with
  | LOk (v, r', tb') => to_vec r' tb' v []
  | LErr e => LErr e
  end.
Proof. reflexivity. Qed.

Lemma to_vec_build : forall r' tb' xs acc,
  to_vec r' tb' (build_list xs LNil) acc = LOk (LVec (rev acc ++ xs), r', tb').
Proof.
  induction xs as [|x xs IH]; intros acc; simpl.
  - now rewrite app_nil_r.
  - rewrite IH. simpl. now rewrite <- app_assoc.
Qed.

(** ---- the two reading statements of [rd_wr] *)
Definition rd_one (t : gterm) : Prop :=
  forall fuel c c' opens tb rest, 0 <= c -> wf c t = Some c' -> tinv c opens tb ->
    (length (wr t) <= fuel)%nat ->
    exists tb', rd fuel MOne (wr t ++ rest) tb = LOk (emb opens t, rest, tb') /\ tinv c' opens tb'.

Definition rd_tail (t : gterm) : Prop :=
  forall fuel c c' opens tb rest acc, 0 <= c -> wf c t = Some c' -> tinv c opens tb ->
    (length (tailtoks t) <= fuel)%nat -> acc <> [] ->
    exists tb', rd fuel (MList acc) (tailtoks t ++ rest) tb
                = LOk (build_list acc (emb opens t), rest, tb') /\ tinv c' opens tb'.

(** a datum that is written after " . " in a list tail *)
Lemma rd_tail_dotted : forall t, tailtoks t = KDot :: wr t ++ [KClose] -> rd_one t -> rd_tail t.
Proof.
  intros t Et P fuel c c' opens tb rest acc Hc Hwf Hinv Hf Hacc.
  rewrite Et in *. simpl length in Hf. rewrite app_length in Hf. simpl in Hf.
  destruct fuel; [lia|]. simpl app. simpl rd. destruct acc as [|a0 acc0]; [congruence|].
  destruct (P fuel c c' opens tb (KClose :: rest) Hc Hwf Hinv ltac:(lia)) as (tb' & R & I).
  rewrite <- app_assoc. simpl app. rewrite R. eauto.
Qed.

(** the elements of a vector up to the closing parenthesis *)
Lemma rd_elems : forall l, Forall rd_one l ->
  forall f c c' opens tb rest acc, 0 <= c -> wfl (Some c) l = Some c' -> tinv c opens tb ->
    (length (flat_map wr l) + 1 <= f)%nat ->
    exists tb', rd f (MList acc) (flat_map wr l ++ KClose :: rest) tb
                = LOk (build_list (acc ++ map (emb opens) l) LNil, rest, tb') /\ tinv c' opens tb'.
Proof.
  intros l HF. induction HF as [|x l Hx Hl IH]; intros f c c' opens tb rest acc Hc Hwf Hinv Hf.
  - simpl in Hwf. inversion Hwf; subst. simpl in Hf. destruct f; [lia|].
    simpl. rewrite app_nil_r. eauto.
  - apply wfl_cons_inv in Hwf. destruct Hwf as (c1 & E1 & E2).
    simpl flat_map in *. rewrite app_length in Hf. pose proof (wr_length_pos x).
    destruct f; [lia|].
    rewrite <- app_assoc. rewrite rd_list_elem by apply wr_starts.
    destruct (Hx f c c1 opens tb (flat_map wr l ++ KClose :: rest) Hc E1 Hinv ltac:(lia))
      as (tb1 & R1 & I1).
    rewrite R1.
    assert (c <= c1) by (eapply wf_mono_vec; eauto).
    destruct (IH f c1 c' opens tb1 rest (acc ++ [emb opens x]) ltac:(lia) E2 I1 ltac:(lia))
      as (tb2 & R2 & I2).
    rewrite R2. simpl map. rewrite <- app_assoc. simpl app. eauto.
Qed.

(** [rd_wr] of LabelProofs.v without [novec] *)
Theorem rd_wr_vec : forall t, rd_one t /\ rd_tail t.
Proof.
  intro t. induction t as [a | | t1 t2 IHt1 IHt2 | l IHl | n t IHt | n] using gterm_ind'.
  - (* atom *)
    split; unfold rd_one, rd_tail; intros.
    + destruct fuel; simpl in *; [lia|]. inversion H0; subst. eauto.
    + inversion H0; subst. destruct fuel as [|[|f]]; simpl in *; try lia.
      destruct acc; [congruence|]. eauto.
  - (* () *)
    split; unfold rd_one, rd_tail; intros.
    + inversion H0; subst. destruct fuel as [|[|f]]; simpl in *; try lia. eauto.
    + inversion H0; subst. destruct fuel; simpl in *; [lia|]. eauto.
  - (* pair *)
    destruct IHt1 as [P1 _]. destruct IHt2 as [_ Q2].
    assert (Hlist : forall f c c' opens tb rest acc, 0 <= c -> wf c (GPair t1 t2) = Some c' -> tinv c opens tb ->
              (length (wr t1 ++ tailtoks t2) <= S f)%nat ->
              exists tb', rd (S f) (MList acc) ((wr t1 ++ tailtoks t2) ++ rest) tb
                          = LOk (build_list (acc ++ [emb opens t1]) (emb opens t2), rest, tb') /\ tinv c' opens tb').
    { intros f c c' opens tb rest acc Hc Hwf Hinv Hf. simpl in Hwf.
      destruct (wf c t1) as [c1|] eqn:E1; try discriminate.
      rewrite app_length in Hf. pose proof (wr_length_pos t1). pose proof (tailtoks_length_pos t2).
      rewrite <- app_assoc. rewrite rd_list_elem by apply wr_starts.
      destruct (P1 f c c1 opens tb (tailtoks t2 ++ rest) Hc E1 Hinv ltac:(lia)) as (tb1 & R1 & I1).
      rewrite R1.
      assert (c <= c1) by (eapply wf_mono_vec; eauto).
      destruct (Q2 f c1 c' opens tb1 rest (acc ++ [emb opens t1]) ltac:(lia) Hwf I1 ltac:(lia)) as (tb2 & R2 & I2).
      { destruct acc; simpl; congruence. }
      eauto. }
    split; unfold rd_one, rd_tail; intros.
    + rewrite wr_pair in *. simpl in H2. destruct fuel; [lia|].
      simpl app. simpl rd.
      destruct fuel; [rewrite app_length in H2; pose proof (wr_length_pos t1); simpl in H2; lia|].
      destruct (Hlist fuel c c' opens tb rest [] H H0 H1) as (tb' & R & I).
      { pose proof (tailtoks_length_pos t2). pose proof (wr_length_pos t1). rewrite app_length in *. simpl in *. lia. }
      rewrite R. simpl. eauto.
    + (* a pair in the cdr continues the list *)
      change (tailtoks (GPair t1 t2)) with (List.tl (wr (GPair t1 t2))) in *.
      rewrite wr_pair in *. simpl List.tl in *.
      destruct fuel; [rewrite app_length in H2; pose proof (wr_length_pos t1); lia|].
      destruct (Hlist fuel c c' opens tb rest acc H H0 H1) as (tb' & R & I).
      { pose proof (tailtoks_length_pos t2). pose proof (wr_length_pos t1). rewrite app_length in *. simpl in *. lia. }
      rewrite R. simpl emb.
      replace (build_list (acc ++ [emb opens t1]) (emb opens t2))
        with (build_list acc (LPair (emb opens t1) (emb opens t2))).
      eauto.
      clear. induction acc; simpl; auto. now rewrite IHacc.
  - (* vector *)
    assert (HF : Forall rd_one l).
    { eapply Forall_impl; [|exact IHl]. simpl. intros x [Hx _]. exact Hx. }
    assert (Hone : rd_one (GVec l)).
    { intros fuel c c' opens tb rest Hc Hwf Hinv Hf. rewrite wf_vec in Hwf.
      simpl wr in *. simpl length in Hf. rewrite app_length in Hf. simpl length in Hf.
      destruct fuel; [lia|]. simpl app. rewrite <- app_assoc. simpl app.
      rewrite rd_vec_eq.
      destruct (rd_elems l HF fuel c c' opens tb rest [] Hc Hwf Hinv ltac:(lia)) as (tb' & R & I).
      rewrite R. simpl app. rewrite to_vec_build. simpl. eauto. }
    split; [exact Hone|]. apply rd_tail_dotted; [reflexivity|exact Hone].
  - (* label definition *)
    destruct IHt as [P _].
    assert (Hone : rd_one (GDef n t)).
    { intros fuel c c' opens tb rest Hc Hwf Hinv Hf. simpl in Hwf.
      destruct (n =? c) eqn:E; try discriminate. apply Z.eqb_eq in E. subst n.
      assert (Hnr : forall m, t <> GRef m) by (intros m ->; discriminate).
      assert (Hwf' : wf (c + 1) t = Some c') by (destruct t; auto; discriminate).
      simpl in Hf. destruct fuel; [lia|]. simpl app. simpl rd.
      destruct (label_open_ok c opens tb Hc Hinv) as (v' & O & I').
      rewrite O.
      destruct (P fuel (c + 1) c' (c :: opens) (Some v') rest ltac:(lia) Hwf' I' ltac:(lia)) as (tb1 & R1 & I1).
      rewrite R1.
      assert (Hm : mem c opens = false) by (destruct Hinv; eapply mem_false_of_bound; eauto).
      destruct (label_close_ok c' opens tb1 c (emb (c :: opens) t) I1 Hm (emb_not_hole_def _ _ Hnr)) as (tb2 & C & I2).
      rewrite C. simpl. eauto. }
    split; [exact Hone|]. apply rd_tail_dotted; [reflexivity|exact Hone].
  - (* reference *)
    assert (Hone : rd_one (GRef n)).
    { intros fuel c c' opens tb rest Hc Hwf Hinv Hf. simpl in Hwf.
      destruct ((0 <=? n) && (n <? c)) eqn:E; try discriminate. inversion Hwf; subst.
      apply andb_true_iff in E. destruct E as [E1 E2]. apply Z.leb_le in E1. apply Z.ltb_lt in E2.
      simpl in Hf. destruct fuel; [lia|]. simpl. erewrite label_ref_ok by eauto. eauto. }
    split; [exact Hone|]. apply rd_tail_dotted; [reflexivity|exact Hone].
Qed.

(** [fill_emb] of LabelProofs.v without [novec] *)
Lemma fill_emb_vec : forall t opens, fill (emb opens t) = g2l t.
Proof.
  intro t. induction t as [a | | t1 t2 IHt1 IHt2 | l IHl | n t IHt | n] using gterm_ind';
    intros opens; simpl; auto.
  - now rewrite IHt1, IHt2.
  - f_equal. rewrite map_map. induction IHl as [|x l Hx Hl IH]; simpl; auto.
    now rewrite Hx, IH.
  - now rewrite IHt.
  - destruct (mem n opens); reflexivity.
Qed.

(** label_roundtrip, vectors included: every graph in the form the shared-structure writer emits -
    any number of labels, references to open and to closed labels, labelled list tails, vectors
    (empty, nested, in list tails, labelled, holding references) - is rebuilt by the reader. *)
Theorem label_roundtrip_vec_ok : forall t c', wf 0 t = Some c' ->
  read_labels (wr t) = LOk (g2l t, []).
Proof.
  intros t c' W. unfold read_labels.
  destruct (rd_wr_vec t) as [P _].
  destruct (P (S (length (wr t))) 0 c' [] None [] ltac:(lia) W tinv_start ltac:(lia)) as (tb' & R & _).
  rewrite app_nil_r in R. rewrite R. now rewrite fill_emb_vec.
Qed.

(** an example: [(#0=(7) #1=#(1 #1# #(#0# #() #1#) #2=#(#2#)) . #3=#(#1# #3# #2# #()))]:
    label 1 is a vector that holds itself, a nested vector with a reference to label 0 (defined
    earlier, in a pair, already closed), an empty vector and a reference to the enclosing open
    label, and a labelled one-element vector that holds itself; the list tail is a labelled vector *)
Definition vec_graph : gterm :=
  GPair (GDef 0 (GPair (GAtom 7) GNil))
    (GPair (GDef 1 (GVec [GAtom 1; GRef 1; GVec [GRef 0; GVec []; GRef 1]; GDef 2 (GVec [GRef 2])]))
       (GDef 3 (GVec [GRef 1; GRef 3; GRef 2; GVec []]))).

Example label_roundtrip_vec_example :
  wf 0 vec_graph = Some 4 /\ novec vec_graph = false /\
  read_labels (wr vec_graph) = LOk (g2l vec_graph, []).
Proof. vm_compute. auto. Qed.

(** a second one where the table grows inside a vector: 30 labelled vectors [#k=#(k #k#)] as the
    elements of one vector, followed by references to all of them *)
Definition vec_graph30 : gterm :=
  GVec (map (fun k => GDef k (GVec [GAtom k; GRef k])) (map Z.of_nat (seq 0 30))
        ++ map (fun k => GRef k) (map Z.of_nat (seq 0 30))).

Example label_roundtrip_vec_example30 :
  wf 0 vec_graph30 = Some 30 /\
  read_labels (wr vec_graph30) = LOk (g2l vec_graph30, []).
Proof. vm_compute. auto. Qed.

Print Assumptions label_roundtrip_vec_ok.
