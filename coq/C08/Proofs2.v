(** C08 proofs, part 2: symbols that sexp_intern may encode as immediate (huffman) symbols are written
    raw by sexp_write_one's isymbol arm; the lsymbol arm would write the same bytes. *)
From Coq Require Import ZArith List Bool Lia.
From ChibiV Require Import C08.Datum C08.CSem C08.Tables Gen.C08_Tables Gen.C08_Leaf C08.Write C08.Read C08.Proofs.
Import ListNotations.
Local Open Scope Z_scope.

Definition may_be_immediate (bs : list Z) : Prop :=
  intern_head (schar (nth 0 bs 0)) (Z.of_nat (length bs)) = 0 /\
  Forall (fun b => intern_char (schar b) = 0) bs.

Lemma intern_char_plain : forall b, byte b -> intern_char (schar b) = 0 ->
  plainb b = true /\ (b =? 46) = false.
Proof.
  intros b Hb H.
  apply (bytes_forallb (fun b => implb (intern_char (schar b) =? 0) (plainb b && negb (b =? 46)))) in Hb;
    [|vm_compute; reflexivity].
  rewrite H in Hb. cbn [Z.eqb implb] in Hb. apply andb_prop in Hb as [H1 H2].
  apply negb_true_iff in H2. split; assumption.
Qed.

Theorem isymbol_text_same_ok : forall bs, bytes bs -> may_be_immediate bs -> write_symbol bs = bs.
Proof.
  intros bs Hb [Hh Hc].
  assert (Hp : Forall plain bs).
  { apply Forall_forall. intros b Hin. unfold bytes in Hb. rewrite Forall_forall in Hb, Hc.
    split; [apply Hb, Hin|]. apply intern_char_plain; [apply Hb, Hin|apply Hc, Hin]. }
  assert (Hnb : sym_needs_bars bs = false).
  { unfold sym_needs_bars. apply orb_false_intro.
    - apply negb_false_iff, Z.eqb_eq.
      destruct (at_norm bs 0 Hp) as [N0 W0]. destruct (at_norm bs 1 Hp) as [N1 W1].
      destruct (at_norm bs 2 Hp) as [N2 W2]. destruct (at_norm bs 3 Hp) as [N3 W3].
      rewrite N0 in Hh. rewrite N0, N1, N2, N3. unfold intern_head in Hh. unfold sym_quote_head.
      rewrite W0 in Hh. rewrite W0, W1, W2, W3.
      change (wrap 64 0) with 0. change (wrap 64 1) with 1. change (wrap 64 3) with 3.
      match type of Hh with (if ?D then _ else _) = _ => destruct D eqn:ED; [discriminate|] end.
      apply orb_false_elim in ED as [ED HF]. apply orb_false_elim in ED as [ED HD].
      apply orb_false_elim in ED as [HA HC].
      assert (H46 : (nth 0 bs 0 =? 46) = false).
      { destruct bs as [|c bs']; [reflexivity|]. cbn [nth]. unfold bytes in Hb.
        apply (intern_char_plain c (Forall_inv Hb) (Forall_inv Hc)). }
      rewrite HA, HC, HD, H46. cbn [andb orb]. rewrite andb_false_r. cbn [orb].
      destruct ((nth 0 bs 0 =? 43) || (nth 0 bs 0 =? 45)) eqn:EPM.
      + cbn [andb] in HF. rewrite HF. reflexivity.
      + cbn [andb]. rewrite andb_false_r. reflexivity.
    - apply not_true_is_false. intros Hex. apply existsb_exists in Hex as (b & Hin & Hq).
      rewrite Forall_forall in Hp. destruct (Hp b Hin) as [_ Hpb]. unfold plainb in Hpb.
      rewrite Hpb in Hq. discriminate. }
  unfold write_symbol. rewrite Hnb. apply sym_bytes_plain, Hp.
Qed.

Example isymbol_example : may_be_immediate [97; 98; 99] /\ ~ may_be_immediate [96; 97].
Proof.
  split; [split; [reflexivity|repeat constructor]|].
  intros [H _]. vm_compute in H. discriminate.
Qed.
