(** C08 proofs, part 1: tables, strings, characters, integers. *)
From Coq Require Import ZArith List Bool Lia.
From ChibiV Require Import C08.Datum C08.CSem C08.Tables Gen.C08_Tables Gen.C08_Leaf C08.Write C08.Read.
Import ListNotations.
Local Open Scope Z_scope.
Ltac Zify.zify_post_hook ::= Z.div_mod_to_equations.

(** the tables regenerated from sexp.c are the ones the proofs below were made for *)
Lemma tables_regenerated_ok : sexp_separators = ref_separators /\ sexp_char_names = ref_char_names.
Proof. split; reflexivity. Qed.

(** ** enumeration of the 256 bytes *)
Definition all_bytes : list Z := map Z.of_nat (seq 0 256).

Lemma byte_in_all : forall b, byte b -> In b all_bytes.
Proof.
  intros b [H0 H1]. unfold all_bytes. apply in_map_iff. exists (Z.to_nat b). split; [lia|].
  apply in_seq. lia.
Qed.

Lemma bytes_forall (P : Z -> Prop) : Forall P all_bytes -> forall b, byte b -> P b.
Proof. intros H b Hb. rewrite Forall_forall in H. apply H, byte_in_all, Hb. Qed.

Ltac each_byte tac :=
  let l := eval vm_compute in all_bytes in
  change all_bytes with l; repeat (apply Forall_cons; [tac|]); apply Forall_nil.

Lemma bytes_forallb (p : Z -> bool) : forallb p all_bytes = true -> forall b, byte b -> p b = true.
Proof. intros H b Hb. rewrite forallb_forall in H. apply H, byte_in_all, Hb. Qed.

(** ** strings *)
Lemma str_step : forall b, byte b -> forall rest acc,
  read_string_loop 34 SNorm (write_str_byte b ++ rest) acc = read_string_loop 34 SNorm rest (b :: acc).
Proof.
  apply (bytes_forall (fun b => forall rest acc,
    read_string_loop 34 SNorm (write_str_byte b ++ rest) acc = read_string_loop 34 SNorm rest (b :: acc))).
  each_byte ltac:(intros; reflexivity).
Qed.

Lemma str_body : forall bs, bytes bs -> forall rest acc,
  read_string_loop 34 SNorm (flat_map write_str_byte bs ++ 34 :: rest) acc = SOk (rev acc ++ bs) rest.
Proof.
  induction bs as [|b bs IH]; intros Hb rest acc.
  - cbn [flat_map app]. cbn. rewrite app_nil_r. reflexivity.
  - inversion Hb as [|? ? Hb1 Hb2]; subst. cbn [flat_map]. rewrite <- app_assoc.
    rewrite str_step by assumption. rewrite IH by assumption. cbn [rev]. rewrite <- app_assoc. reflexivity.
Qed.

Theorem string_roundtrip_ok : forall dec2flo f bs rest, bytes bs ->
  read_raw dec2flo (S f) (write_string bs ++ rest) = Ok (TDatum (Str bs)) rest.
Proof.
  intros dec2flo f bs rest Hb. unfold write_string. cbn [app].
  cbn [read_raw skip_ws Z.eqb Pos.eqb orb].
  rewrite <- app_assoc. cbn [app]. rewrite str_body by assumption. reflexivity.
Qed.

Example string_roundtrip_example :
  read_raw (fun _ _ _ => 0) 1 (write_string [97; 0; 1; 34; 92; 10; 206; 187; 127]) =
  Ok (TDatum (Str [97; 0; 1; 34; 92; 10; 206; 187; 127])) [].
Proof. reflexivity. Qed.

(** ** UTF-8 character literals: sexp_decode_utf8_char (regenerated) inverts sexp_utf8_encode_char *)
Lemma land_mod (x : Z) (k : Z) (n : Z) : 0 <= k -> n = 2 ^ k - 1 -> Z.land x n = x mod 2 ^ k.
Proof.
  intros Hk ->. replace (2 ^ k - 1) with (Z.ones k) by (rewrite Z.ones_equiv; lia).
  apply Z.land_ones. assumption.
Qed.

Definition decode_bytes (l : list Z) : Z :=
  sexp_decode_utf8_char (nth 0 l 0) (nth 1 l 0) (nth 2 l 0) (nth 3 l 0) (Z.of_nat (length l)).

Lemma decode_encode_ok : forall c, 128 <= c <= 1114111 -> decode_bytes (utf8_encode c) = c.
Proof.
  intros c Hc. unfold decode_bytes, utf8_encode.
  destruct (Z.ltb_spec c 128) as [E1|E1]; [lia|].
  destruct (Z.ltb_spec c 2048) as [E2|E2]; [|destruct (Z.ltb_spec c 65536) as [E3|E3]].
  - cbn [nth length Z.of_nat Pos.of_succ_nat Pos.succ]. unfold sexp_decode_utf8_char.
    cbv zeta. change (swrap 32 2) with 2.
    rewrite !Z.shiftr_div_pow2, !Z.shiftl_mul_pow2 by lia.
    repeat rewrite (land_mod _ 6 63) by lia.
    change (2 ^ 6) with 64.
    assert (H1: (192 + c / 64 >=? 192) = true) by (apply Z.geb_le; lia).
    assert (H2: (192 + c / 64 <=? 247) = true) by (apply Z.leb_le; lia).
    assert (H3: ((128 + c mod 64) / 64 =? 2) = true) by (apply Z.eqb_eq; lia).
    assert (H4: (192 + c / 64 <? 224) = true) by (apply Z.ltb_lt; lia).
    rewrite H1, H2, H3, H4. cbn [andb Z.eqb Pos.eqb]. lia.
  - cbn [nth length Z.of_nat Pos.of_succ_nat Pos.succ]. unfold sexp_decode_utf8_char.
    cbv zeta. change (swrap 32 3) with 3.
    rewrite !Z.shiftr_div_pow2, !Z.shiftl_mul_pow2 by lia.
    repeat rewrite (land_mod _ 6 63) by lia. repeat rewrite (land_mod _ 5 31) by lia.
    change (2 ^ 6) with 64. change (2 ^ 5) with 32. change (2 ^ 12) with 4096.
    assert (H1: (224 + c / 4096 >=? 192) = true) by (apply Z.geb_le; lia).
    assert (H2: (224 + c / 4096 <=? 247) = true) by (apply Z.leb_le; lia).
    assert (H3: ((128 + (c / 64) mod 64) / 64 =? 2) = true) by (apply Z.eqb_eq; lia).
    assert (H4: (224 + c / 4096 <? 224) = false) by (apply Z.ltb_ge; lia).
    assert (H5: (224 + c / 4096 <? 240) = true) by (apply Z.ltb_lt; lia).
    assert (H6: ((128 + c mod 64) / 64 =? 2) = true) by (apply Z.eqb_eq; lia).
    rewrite H1, H2, H3, H4, H5, H6. cbn [andb Z.eqb Pos.eqb]. lia.
  - cbn [nth length Z.of_nat Pos.of_succ_nat Pos.succ]. unfold sexp_decode_utf8_char.
    cbv zeta. change (swrap 32 4) with 4.
    rewrite !Z.shiftr_div_pow2, !Z.shiftl_mul_pow2 by lia.
    repeat rewrite (land_mod _ 6 63) by lia. repeat rewrite (land_mod _ 5 31) by lia. repeat rewrite (land_mod _ 3 7) by lia.
    change (2 ^ 6) with 64. change (2 ^ 3) with 8. change (2 ^ 12) with 4096. change (2 ^ 18) with 262144.
    assert (H1: (240 + c / 262144 >=? 192) = true) by (apply Z.geb_le; lia).
    assert (H2: (240 + c / 262144 <=? 247) = true) by (apply Z.leb_le; lia).
    assert (H3: ((128 + (c / 4096) mod 64) / 64 =? 2) = true) by (apply Z.eqb_eq; lia).
    assert (H4: (240 + c / 262144 <? 224) = false) by (apply Z.ltb_ge; lia).
    assert (H5: (240 + c / 262144 <? 240) = false) by (apply Z.ltb_ge; lia).
    assert (H6: ((128 + (c / 64) mod 64) / 64 =? 2) = true) by (apply Z.eqb_eq; lia).
    assert (H7: ((128 + c mod 64) / 64 =? 2) = true) by (apply Z.eqb_eq; lia).
    rewrite H1, H2, H3, H4, H5, H6, H7. cbn [andb Z.eqb Pos.eqb]. lia.
Qed.

(** ** symbols *)
Definition plainb (b : Z) : bool := sym_quote_char (schar b) =? 0.
Definition plain (b : Z) : Prop := byte b /\ plainb b = true.

Lemma plain_imp (q : Z -> bool) :
  forallb (fun b => implb (plainb b) (q b)) all_bytes = true -> forall b, plain b -> q b = true.
Proof.
  intros H b [Hb Hp]. apply (bytes_forallb _ H) in Hb. cbv beta in Hb. rewrite Hp in Hb. exact Hb.
Qed.

Lemma sep_imp (q : Z -> bool) :
  forallb (fun b => implb (is_separator b) (q b)) all_bytes = true -> forall c, is_separator c = true -> q c = true.
Proof.
  intros H c Hs.
  assert (Hb : byte c).
  { unfold is_separator, sexp_is_separator in Hs.
    destruct (Z.ltb_spec 0 c); destruct (Z.ltb_spec c 128); cbn [andb negb] in Hs; try discriminate.
    unfold byte. lia. }
  apply (bytes_forallb _ H) in Hb. cbv beta in Hb. rewrite Hs in Hb. exact Hb.
Qed.

(* pf H b q : from [plain b] derive the boolean fact q b = true (checked on all 256 bytes) *)
Ltac pf H b q :=
  assert (H : q b = true) by (apply (plain_imp q); [vm_compute; reflexivity|assumption]);
  cbv beta in H; try apply negb_true_iff in H.
Ltac sf H c q :=
  assert (H : q c = true) by (apply (sep_imp q); [vm_compute; reflexivity|assumption]);
  cbv beta in H; try apply negb_true_iff in H.

Lemma rsl_delim : forall rest acc, at_delim rest = true -> read_symbol_loop rest acc = (rev acc, rest).
Proof.
  intros [|c r] acc H; [reflexivity|]. cbn [at_delim] in H.
  sf G c (fun c => negb (c =? 92)).
  cbn [read_symbol_loop]. rewrite G, H. reflexivity.
Qed.

Lemma rsl_plain : forall bs rest acc, Forall plain bs -> at_delim rest = true ->
  read_symbol_loop (bs ++ rest) acc = (rev acc ++ bs, rest).
Proof.
  induction bs as [|b bs IH]; intros rest acc Hp Hd.
  - cbn [app]. rewrite app_nil_r. apply rsl_delim, Hd.
  - inversion Hp as [|? ? Hpb Hp2]; subst.
    pf G1 b (fun b => negb (b =? 92)). pf G2 b (fun b => negb (is_separator b)).
    cbn [app read_symbol_loop]. rewrite G1, G2. rewrite IH by assumption.
    cbn [rev]. rewrite <- app_assoc. reflexivity.
Qed.

Lemma sym_bytes_plain : forall bs, Forall plain bs -> flat_map write_sym_byte bs = bs.
Proof.
  induction bs as [|b bs IH]; intros Hp; [reflexivity|].
  inversion Hp as [|? ? Hpb Hp2]; subst.
  pf G1 b (fun b => negb (b =? 92)). pf G2 b (fun b => negb (b =? 124)).
  cbn [flat_map]. rewrite IH by assumption. unfold write_sym_byte. rewrite G1, G2. reflexivity.
Qed.

Lemma no_bars_plain : forall bs, bytes bs -> sym_needs_bars bs = false ->
  Forall plain bs /\
  sym_quote_head (schar (nth 0 bs 0)) (schar (nth 1 bs 0)) (schar (nth 2 bs 0)) (schar (nth 3 bs 0)) (Z.of_nat (length bs)) = 0.
Proof.
  intros bs Hb H. unfold sym_needs_bars in H. apply orb_false_elim in H. destruct H as [H1 H2].
  split.
  - apply Forall_forall. intros b Hin. split; [unfold bytes in Hb; rewrite Forall_forall in Hb; apply Hb, Hin|].
    unfold plainb. destruct (sym_quote_char (schar b) =? 0) eqn:E; [reflexivity|].
    exfalso. assert (existsb (fun b => negb (sym_quote_char (schar b) =? 0)) bs = true).
    { apply existsb_exists. exists b. split; [assumption|]. rewrite E. reflexivity. }
    congruence.
  - apply negb_false_iff, Z.eqb_eq in H1. exact H1.
Qed.

(** symbols written with bars *)
Lemma symq_step : forall b, byte b -> forall rest acc,
  read_string_loop 124 SNorm (write_sym_byte b ++ rest) acc = read_string_loop 124 SNorm rest (b :: acc).
Proof.
  apply (bytes_forall (fun b => forall rest acc,
    read_string_loop 124 SNorm (write_sym_byte b ++ rest) acc = read_string_loop 124 SNorm rest (b :: acc))).
  each_byte ltac:(intros; reflexivity).
Qed.

Lemma symq_body : forall bs, bytes bs -> forall rest acc,
  read_string_loop 124 SNorm (flat_map write_sym_byte bs ++ 124 :: rest) acc = SOk (rev acc ++ bs) rest.
Proof.
  induction bs as [|b bs IH]; intros Hb rest acc.
  - cbn [flat_map app]. cbn. rewrite app_nil_r. reflexivity.
  - inversion Hb as [|? ? Hb1 Hb2]; subst. cbn [flat_map]. rewrite <- app_assoc.
    rewrite symq_step by assumption. rewrite IH by assumption. cbn [rev]. rewrite <- app_assoc. reflexivity.
Qed.

Lemma at_norm : forall bs k, Forall plain bs ->
  schar (nth k bs 0) = nth k bs 0 /\ wrap 8 (nth k bs 0) = nth k bs 0.
Proof.
  intros bs k Hp. destruct (nth_in_or_default k bs 0) as [Hin| ->]; [|split; reflexivity].
  rewrite Forall_forall in Hp. pose proof (Hp _ Hin) as Hpl.
  set (b := nth k bs 0) in *.
  pf G1 b (fun b => schar b =? b). pf G2 b (fun b => wrap 8 b =? b).
  apply Z.eqb_eq in G1, G2. split; assumption.
Qed.

Lemma cstr_plain : forall l, Forall plain l -> cstr l = l.
Proof.
  induction l as [|b l IH]; intros Hp; [reflexivity|]. inversion Hp as [|? ? Hb Hl]; subst.
  pf G b (fun b => negb (b =? 0)). cbn [cstr]. rewrite G, IH by assumption. reflexivity.
Qed.

Ltac rw_false := repeat match goal with H : (_ =? _) = false |- _ => rewrite H end.

Theorem symbol_roundtrip_ok : forall dec2flo f bs rest, bytes bs -> at_delim rest = true ->
  read_raw dec2flo (S f) (write_symbol bs ++ rest) = Ok (TDatum (Sym bs)) rest.
Proof.
  intros d f bs rest Hb Hd. unfold write_symbol.
  destruct (sym_needs_bars bs) eqn:Hn.
  - cbn [app]. cbn [read_raw skip_ws Z.eqb Pos.eqb orb]. rewrite <- app_assoc. cbn [app].
    rewrite symq_body by assumption. reflexivity.
  - destruct (no_bars_plain bs Hb Hn) as [Hp Hh].
    rewrite sym_bytes_plain by assumption.
    destruct (at_norm bs 0 Hp) as [N0 W0]. destruct (at_norm bs 1 Hp) as [N1 W1].
    destruct (at_norm bs 2 Hp) as [N2 W2]. destruct (at_norm bs 3 Hp) as [N3 W3].
    rewrite N0, N1, N2, N3 in Hh. unfold sym_quote_head in Hh. rewrite W0, W1, W2, W3 in Hh.
    change (wrap 64 0) with 0 in Hh. change (wrap 64 1) with 1 in Hh. change (wrap 64 3) with 3 in Hh.
    match type of Hh with (if ?D then _ else _) = _ => destruct D eqn:ED; [discriminate|] end. clear Hh.
    apply orb_false_elim in ED as [ED HF]. apply orb_false_elim in ED as [ED HE].
    apply orb_false_elim in ED as [ED HD]. apply orb_false_elim in ED as [ED HC].
    apply orb_false_elim in ED as [HA HB].
    destruct bs as [|c bs']; [cbn in HA; discriminate|].
    inversion Hp as [|? ? Hpc Hp']; subst. cbn [nth] in *.
    pf G59 c (fun b => negb (b =? 59)). pf G10 c (fun b => negb (b =? 10)). pf G32 c (fun b => negb (b =? 32)).
    pf G9 c (fun b => negb (b =? 9)). pf G12 c (fun b => negb (b =? 12)). pf G13 c (fun b => negb (b =? 13)).
    pf G39 c (fun b => negb (b =? 39)). pf G44 c (fun b => negb (b =? 44)). pf G34 c (fun b => negb (b =? 34)).
    pf G40 c (fun b => negb (b =? 40)). pf G123 c (fun b => negb (b =? 123)). pf G125 c (fun b => negb (b =? 125)).
    pf G35 c (fun b => negb (b =? 35)). pf G41 c (fun b => negb (b =? 41)). pf G124 c (fun b => negb (b =? 124)).
    cbn [app]. cbn [read_raw skip_ws]. rewrite G59, G10, G32, G9, G12, G13. cbn [orb].
    rewrite G39, HD, G44, G34, G40, G123, G125. cbn [orb]. rewrite G35.
    assert (Hdig : isdigit c = false).
    { apply negb_false_iff, Z.eqb_eq in HC. unfold c_isdigit in HC. destruct (isdigit c); [discriminate|reflexivity]. }
    destruct (Z.eqb_spec c 46) as [E46|E46].
    { (* leading '.' *)
      subst c. cbn [Z.eqb Pos.eqb andb] in HB, HE.
      destruct bs' as [|b1 bs'']; [cbn in HB; discriminate|].
      inversion Hp' as [|? ? Hp1 Hp'']; subst. cbn [nth] in HE.
      pf S1 b1 (fun b => negb (is_separator b)).
      assert (Hd1 : isdigit b1 = false).
      { apply negb_false_iff, Z.eqb_eq in HE. unfold c_isdigit in HE. destruct (isdigit b1); [discriminate|reflexivity]. }
      cbn [app at_delim]. rewrite S1, Hd1.
      change (b1 :: bs'' ++ rest) with ((b1 :: bs'') ++ rest). rewrite rsl_plain by assumption. reflexivity. }
    rewrite G41, G124.
    destruct ((c =? 43) || (c =? 45)) eqn:EPM.
    2:{ rewrite Hdig. rewrite rsl_plain by assumption. reflexivity. }
    assert (Hc : c = 43 \/ c = 45) by (apply orb_prop in EPM; destruct EPM as [E|E]; apply Z.eqb_eq in E; auto).
    cbn [andb] in HF.
    destruct bs' as [|b1 bs''].
    { (* "+" or "-" alone *)
      cbn [app]. destruct rest as [|c2 s2].
      - destruct Hc; subst c; reflexivity.
      - cbn [at_delim] in Hd.
        sf T1 c2 (fun b => negb (b =? 46)). sf T2 c2 (fun b => negb (isdigit b)).
        rewrite T1, T2. cbn [andb orb]. unfold plus_minus_symbol.
        rewrite rsl_delim by exact Hd. destruct Hc; subst c; reflexivity. }
    inversion Hp' as [|? ? Hp1 Hp'']; subst. cbn [nth] in HF.
    replace (Z.of_nat (length (c :: b1 :: bs'')) >? 1) with true in HF
      by (symmetry; apply Z.gtb_lt; cbn [length]; lia).
    cbn [andb] in HF.
    apply orb_false_elim in HF as [HF Hnan]. apply orb_false_elim in HF as [HF Hi].
    apply orb_false_elim in HF as [Hd1 H46].
    assert (Hdig1 : isdigit b1 = false).
    { apply negb_false_iff, Z.eqb_eq in Hd1. unfold c_isdigit in Hd1. destruct (isdigit b1); [discriminate|reflexivity]. }
    cbn [app]. rewrite H46, Hdig1. cbn [andb orb].
    unfold plus_minus_symbol.
    change (b1 :: bs'' ++ rest) with ((b1 :: bs'') ++ rest). rewrite rsl_plain by assumption.
    cbn [rev app].
    rewrite cstr_plain by assumption. cbn [lower map tl firstn list_eqb].
    unfold c_tolower in Hi, Hnan. rewrite Hi. cbn [andb]. rewrite !andb_false_r.
    assert (H105 : (b1 =? 105) = false).
    { destruct (Z.eqb_spec b1 105) as [->|]; [vm_compute in Hi; discriminate|reflexivity]. }
    rewrite H105. cbn [andb]. rewrite !andb_false_r. cbn [orb].
    destruct ((tolower b1 =? 110) && list_eqb (map tolower bs'') [97; 110; 46; 48]) eqn:E3; [exfalso|reflexivity].
    apply andb_prop in E3 as [E3a E3b].
    destruct bs'' as [|b2 [|b3 [|b4 [|b5 [|b6 bs6]]]]]; cbn [map list_eqb] in E3b;
      repeat rewrite andb_false_r in E3b; try discriminate.
    apply andb_prop in E3b as [Ea E3b]. apply andb_prop in E3b as [Eb _].
    cbn [nth] in Hnan. rewrite E3a, Ea, Eb in Hnan.
    replace (Z.of_nat (length [c; b1; b2; b3; b4; b5]) >? 3) with true in Hnan by reflexivity.
    discriminate.
Qed.

Example symbol_roundtrip_example :
  read_raw (fun _ _ _ => 0) 1 (write_symbol [46; 53] ++ [41]) = Ok (TDatum (Sym [46; 53])) [41]
  /\ write_symbol [46; 53] = [124; 46; 53; 124] /\ write_symbol [96; 97] = [124; 96; 97; 124]
  /\ write_symbol [43; 73; 110; 102; 46; 48] = [124; 43; 73; 110; 102; 46; 48; 124]
  /\ write_symbol [97; 46; 98] = [97; 46; 98].
Proof. repeat split; reflexivity. Qed.

(** ** integers *)
Definition dstep (v d : Z) : Z := v * 10 + digit_value d.

Lemma dec_digits_spec : forall f n acc, 0 <= n < 2 ^ Z.of_nat f -> (0 < f)%nat ->
  exists ds, dec_digits f n acc = ds ++ acc /\ ds <> [] /\ Forall (fun d => 48 <= d <= 57) ds /\
             forall v, fold_left dstep ds v = v * 10 ^ Z.of_nat (length ds) + n.
Proof.
  induction f as [|f IH]; intros n acc Hn Hf; [lia|].
  cbn [dec_digits]. destruct (Z.ltb_spec n 10) as [H10|H10].
  - exists [48 + n]. repeat split.
    + discriminate.
    + constructor; [lia|constructor].
    + intros v. cbn [fold_left length]. unfold dstep, digit_value.
      destruct (Z.leb_spec (48 + n) 57); [|lia]. change (10 ^ Z.of_nat 1) with 10. lia.
  - assert (Hf' : (0 < f)%nat).
    { destruct f; [|lia]. change (2 ^ Z.of_nat 1) with 2 in Hn. lia. }
    assert (Hn' : 0 <= n / 10 < 2 ^ Z.of_nat f).
    { rewrite Nat2Z.inj_succ, Z.pow_succ_r in Hn by lia. split; [apply Z.div_pos; lia|].
      apply Z.div_lt_upper_bound; lia. }
    destruct (IH (n / 10) ((48 + n mod 10) :: acc) Hn' Hf') as (ds & E & Hne & Hall & Hfold).
    exists (ds ++ [48 + n mod 10]). repeat split.
    + rewrite E, <- app_assoc. reflexivity.
    + destruct ds; discriminate.
    + apply Forall_app. split; [assumption|]. constructor; [|constructor].
      pose proof (Z.mod_pos_bound n 10). lia.
    + intros v. rewrite fold_left_app, Hfold. cbn [fold_left]. unfold dstep at 1, digit_value.
      pose proof (Z.mod_pos_bound n 10 ltac:(lia)).
      destruct (Z.leb_spec (48 + n mod 10) 57); [|lia].
      rewrite app_length. cbn [length]. rewrite Nat2Z.inj_add. change (Z.of_nat 1) with 1.
      rewrite Z.pow_add_r by lia. change (10 ^ 1) with 10.
      pose proof (Z.div_mod n 10 ltac:(lia)). nia.
Qed.

Definition digit (d : Z) : Prop := 48 <= d <= 57.

Lemma digit_cases : forall d, digit d ->
  d = 48 \/ d = 49 \/ d = 50 \/ d = 51 \/ d = 52 \/ d = 53 \/ d = 54 \/ d = 55 \/ d = 56 \/ d = 57.
Proof. unfold digit. intros. lia. Qed.

Ltac digit_split H := apply digit_cases in H; repeat (destruct H as [H|H]); subst.

Lemma read_digits_app : forall ds rest v got, Forall digit ds -> at_delim rest = true ->
  read_digits 10 (ds ++ rest) v got = (fold_left dstep ds v, got || negb (Nat.eqb (length ds) 0), rest).
Proof.
  induction ds as [|d ds IH]; intros rest v got Hd Hr.
  - cbn [app fold_left length Nat.eqb negb]. rewrite orb_false_r. destruct rest as [|c r]; [reflexivity|].
    cbn [at_delim] in Hr. sf T c (fun b => negb (isxdigit b)). cbn [read_digits]. rewrite T. reflexivity.
  - inversion Hd as [|? ? Hd1 Hd2]; subst. cbn [app fold_left length Nat.eqb negb].
    rewrite orb_true_r. cbn [read_digits].
    replace (isxdigit d && (0 <=? digit_value d) && (digit_value d <? 10)) with true
      by (digit_split Hd1; reflexivity).
    rewrite IH by assumption. rewrite orb_true_l. reflexivity.
Qed.

Lemma read_number10_digits : forall dec2flo ds rest, ds <> [] -> Forall digit ds -> at_delim rest = true ->
  read_number10 dec2flo (ds ++ rest) = Ok (TDatum (Int (fold_left dstep ds 0))) rest.
Proof.
  intros d ds rest Hne Hd Hr. destruct ds as [|d0 ds]; [congruence|].
  unfold read_number10.
  replace (match (d0 :: ds) ++ rest with c :: _ => (c =? 35) || (c =? 45) || (c =? 43) | [] => false end) with false
    by (inversion Hd as [|? ? Hd1 Hd2]; subst; cbn [app]; digit_split Hd1; reflexivity).
  rewrite read_digits_app by assumption. cbn [length Nat.eqb negb orb].
  destruct rest as [|c r]; [reflexivity|]. cbn [at_delim] in Hr.
  sf T1 c (fun b => negb (b =? 46)). sf T2 c (fun b => negb (is_prec b)).
  sf T3 c (fun b => negb ((b =? 47) || (b =? 105) || (b =? 73) || (b =? 43) || (b =? 45) || (b =? 64) || (b =? 35))).
  rewrite T1, T2, T3, Hr. reflexivity.
Qed.

Lemma read_raw_digit : forall dec2flo f d0 s, digit d0 ->
  read_raw dec2flo (S f) (d0 :: s) = read_number10 dec2flo (d0 :: s).
Proof. intros d f d0 s H. digit_split H; reflexivity. Qed.

Lemma read_raw_minus_digit : forall dec2flo f d0 s, digit d0 ->
  read_raw dec2flo (S f) (45 :: d0 :: s) = negate (read_number10 dec2flo (d0 :: s)).
Proof. intros d f d0 s H. digit_split H; reflexivity. Qed.

Lemma write_nat_spec : forall n, 0 <= n ->
  exists ds, write_nat n = ds /\ ds <> [] /\ Forall digit ds /\ fold_left dstep ds 0 = n.
Proof.
  intros n Hn. unfold write_nat.
  destruct (dec_digits_spec (S (Z.to_nat (Z.log2 n))) n []) as (ds & E & Hne & Hall & Hfold).
  - rewrite Nat2Z.inj_succ, Z2Nat.id by apply Z.log2_nonneg.
    destruct (Z.eq_dec n 0) as [->|]; [cbn; lia|]. pose proof (Z.log2_spec n ltac:(lia)). lia.
  - lia.
  - exists ds. rewrite app_nil_r in E. repeat split; try assumption. rewrite Hfold. lia.
Qed.

Theorem integer_roundtrip_ok : forall dec2flo f z rest, at_delim rest = true ->
  read_raw dec2flo (S f) (write_int z ++ rest) = Ok (TDatum (Int z)) rest.
Proof.
  intros d f z rest Hr. unfold write_int. destruct (Z.ltb_spec z 0) as [Hneg|Hpos].
  - destruct (write_nat_spec (- z) ltac:(lia)) as (ds & -> & Hne & Hall & Hval).
    destruct ds as [|d0 ds]; [congruence|]. pose proof (Forall_inv Hall) as Hd0.
    cbn [app]. rewrite read_raw_minus_digit by assumption.
    change (d0 :: ds ++ rest) with ((d0 :: ds) ++ rest).
    rewrite read_number10_digits by assumption. cbn [negate]. rewrite Hval. f_equal. f_equal. f_equal. lia.
  - destruct (write_nat_spec z ltac:(lia)) as (ds & -> & Hne & Hall & Hval).
    destruct ds as [|d0 ds]; [congruence|]. pose proof (Forall_inv Hall) as Hd0.
    cbn [app]. rewrite read_raw_digit by assumption.
    change (d0 :: ds ++ rest) with ((d0 :: ds) ++ rest).
    rewrite read_number10_digits by assumption. rewrite Hval. reflexivity.
Qed.

Example integer_roundtrip_example :
  read_raw (fun _ _ _ => 0) 1 (write_int (-1208925819614629174706176) ++ [32; 49]) =
  Ok (TDatum (Int (-1208925819614629174706176))) [32; 49].
Proof. vm_compute. reflexivity. Qed.
