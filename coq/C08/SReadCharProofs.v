(** C08 proofs, round 4: the library reader's character arm (C08/SReadChar.v) reads the text
    sexp_write_one emits for every Unicode scalar value (names, printable ASCII, x + 2/4/6 hex digits)
    as that character - native-write -> scheme-read for characters. *)
From Coq Require Import ZArith List Bool Lia.
From ChibiV Require Import C08.Datum C08.CSem C08.Tables Gen.C08_Tables Gen.C08_Leaf C08.Write C08.Read C08.SRead C08.SReadChar
  C08.Proofs C08.CharProofs.
Import ListNotations.
Local Open Scope Z_scope.
Ltac Zify.zify_post_hook ::= Z.div_mod_to_equations.

Definition lib_delim_start (rest : list Z) : bool :=
  match rest with [] => true | c :: _ => is_lib_delim c end.

Definition name_char (b : Z) : bool := negb (is_lib_delim b) && (b <? 128).

Lemma read_name_app : forall l rest acc, forallb name_char l = true -> lib_delim_start rest = true ->
  read_name (l ++ rest) acc = (rev acc ++ l, rest).
Proof.
  induction l as [|b l IH]; intros rest acc Hl Hr.
  - cbn [app]. rewrite app_nil_r. destruct rest as [|c r]; [reflexivity|].
    cbn [lib_delim_start] in Hr. cbn [read_name]. rewrite Hr. reflexivity.
  - cbn [forallb] in Hl. apply andb_prop in Hl as [Hb Hl]. unfold name_char in Hb.
    apply andb_prop in Hb as [Hb _]. apply negb_true_iff in Hb.
    cbn [app read_name]. rewrite Hb. rewrite IH by assumption. cbn [rev]. rewrite <- app_assoc. reflexivity.
Qed.

Lemma name_char_no128 : forall l, forallb name_char l = true -> existsb (fun b => b >=? 128) l = false.
Proof.
  induction l as [|b l IH]; intros H; [reflexivity|]. cbn [forallb] in H. apply andb_prop in H as [Hb Hl].
  unfold name_char in Hb. apply andb_prop in Hb as [_ Hb]. apply Z.ltb_lt in Hb.
  cbn [existsb]. rewrite IH by assumption. destruct (Z.geb_spec b 128); [lia|reflexivity].
Qed.

(** every native character name is a library name (up to case) of the same character *)
Lemma native_names_in_library :
  forallb (fun p => forallb name_char (fst p) && (2 <=? length (fst p))%nat &&
                    match find (fun q => ci_eq (fst p) (fst q)) named_chars_38 with
                    | Some q => snd q =? snd p | None => false end) sexp_char_names = true.
Proof. vm_compute. reflexivity. Qed.

Lemma src_name : forall p rest, In p sexp_char_names -> lib_delim_start rest = true ->
  sread_char (fst p ++ rest) = Ok (TDatum (Chr (snd p))) rest.
Proof.
  intros p rest Hin Hr.
  pose proof native_names_in_library as H. rewrite forallb_forall in H. specialize (H p Hin). cbv beta in H.
  apply andb_prop in H as [H Hf]. apply andb_prop in H as [Hn Hlen].
  destruct (fst p) as [|c1 [|c2 bs]] eqn:Ep; try discriminate.
  pose proof Hn as Hn'. cbn [forallb] in Hn. apply andb_prop in Hn as [H1 Hn2].
  pose proof Hn2 as Hn2'. cbn [forallb] in Hn2. apply andb_prop in Hn2 as [H2 _].
  unfold name_char in H1, H2. apply andb_prop in H1 as [_ H1]. apply andb_prop in H2 as [H2 _].
  apply Z.ltb_lt in H1. apply negb_true_iff in H2.
  cbn [app sread_char]. destruct (Z.geb_spec c1 128); [lia|]. rewrite H2.
  change (c2 :: bs ++ rest) with ((c2 :: bs) ++ rest). rewrite read_name_app by assumption. cbn [rev app].
  rewrite (name_char_no128 _ Hn').
  destruct (find (fun q => ci_eq (c1 :: c2 :: bs) (fst q)) named_chars_38) as [q|]; [|discriminate].
  apply Z.eqb_eq in Hf. rewrite Hf. reflexivity.
Qed.

(** hexadecimal digits *)
Lemma hcv_digit : forall n l v, 0 <= n < 16 ->
  hex_chars_value (hex_digit n :: l) v = hex_chars_value l (v * 16 + n).
Proof.
  intros n l v H. apply nibble_cases in H. repeat (destruct H as [H|H]); subst; reflexivity.
Qed.

Lemma hex_digit_name_char : forall n, 0 <= n < 16 -> name_char (hex_digit n) = true.
Proof. intros n H. apply nibble_cases in H. repeat (destruct H as [H|H]); subst; reflexivity. Qed.

Lemma hex_digits_facts : forall c, 0 <= c <= 1114111 ->
  hex_chars_value (hex_digits c) 0 = Some c /\ forallb name_char (hex_digits c) = true /\
  exists d ds, hex_digits c = d :: ds.
Proof.
  intros c Hc.
  pose proof (nib_range c 0 ltac:(lia)) as R0. pose proof (nib_range c 4 ltac:(lia)) as R4.
  pose proof (nib_range c 8 ltac:(lia)) as R8. pose proof (nib_range c 12 ltac:(lia)) as R12.
  pose proof (nib_range c 16 ltac:(lia)) as R16. pose proof (nib_range c 20 ltac:(lia)) as R20.
  pose proof (nib_spec c 0 ltac:(lia)) as S0. pose proof (nib_spec c 4 ltac:(lia)) as S4.
  pose proof (nib_spec c 8 ltac:(lia)) as S8. pose proof (nib_spec c 12 ltac:(lia)) as S12.
  pose proof (nib_spec c 16 ltac:(lia)) as S16. pose proof (nib_spec c 20 ltac:(lia)) as S20.
  change (2 ^ 0) with 1 in S0. change (2 ^ 4) with 16 in S4. change (2 ^ 8) with 256 in S8.
  change (2 ^ 12) with 4096 in S12. change (2 ^ 16) with 65536 in S16. change (2 ^ 20) with 1048576 in S20.
  unfold hex_digits.
  destruct (Z.geb_spec c 256) as [E1|E1]; [destruct (Z.geb_spec c 65536) as [E2|E2]|];
    cbn [app]; (split; [|split; [|eexists; eexists; reflexivity]]).
  - rewrite !hcv_digit by assumption. cbn [hex_chars_value]. f_equal. lia.
  - cbn [forallb]. rewrite !hex_digit_name_char by assumption. reflexivity.
  - rewrite !hcv_digit by assumption. cbn [hex_chars_value]. f_equal. lia.
  - cbn [forallb]. rewrite !hex_digit_name_char by assumption. reflexivity.
  - rewrite !hcv_digit by assumption. cbn [hex_chars_value]. f_equal. lia.
  - cbn [forallb]. rewrite !hex_digit_name_char by assumption. reflexivity.
Qed.

Lemma no_x_name : forall l, find (fun p => ci_eq (120 :: l) (fst p)) named_chars_38 = None.
Proof. intros l. reflexivity. Qed.

Lemma src_hex_gen : forall l rest v, l <> [] -> forallb name_char l = true -> hex_chars_value l 0 = Some v ->
  0 <= v <= 1114111 -> ~ (55296 <= v <= 57343) -> lib_delim_start rest = true ->
  sread_char (120 :: l ++ rest) = Ok (TDatum (Chr v)) rest.
Proof.
  intros l rest v Hne Hn Hv Hc Hs Hr. destruct l as [|d ds]; [congruence|].
  assert (Hd : is_lib_delim d = false).
  { cbn [forallb] in Hn. apply andb_prop in Hn as [Hn _]. unfold name_char in Hn.
    apply andb_prop in Hn as [Hn _]. apply negb_true_iff in Hn. exact Hn. }
  cbn [sread_char app]. change (120 >=? 128) with false. cbv iota. rewrite Hd.
  change (d :: ds ++ rest) with ((d :: ds) ++ rest). rewrite read_name_app by assumption. cbn [rev app].
  assert (Hall : forallb name_char (120 :: d :: ds) = true) by (cbn [forallb] in *; rewrite Hn; reflexivity).
  rewrite (name_char_no128 _ Hall).
  rewrite no_x_name. cbn [Z.eqb Pos.eqb orb tl]. rewrite Hv.
  replace ((v >? 1114111) || ((55296 <=? v) && (v <=? 57343))) with false; [reflexivity|].
  symmetry. apply orb_false_intro; [destruct (Z.gtb_spec v 1114111); [lia|reflexivity]|].
  destruct (Z.leb_spec 55296 v); destruct (Z.leb_spec v 57343); try reflexivity. lia.
Qed.

Lemma src_hex : forall c rest, 0 <= c <= 1114111 -> ~ (55296 <= c <= 57343) -> lib_delim_start rest = true ->
  sread_char (120 :: hex_digits c ++ rest) = Ok (TDatum (Chr c)) rest.
Proof.
  intros c rest Hc Hs Hr. destruct (hex_digits_facts c Hc) as (Hv & Hn & d & ds & E).
  apply src_hex_gen; try assumption. rewrite E. discriminate.
Qed.

Theorem scheme_read_char_ok : forall c rest, 0 <= c <= 1114111 -> ~ (55296 <= c <= 57343) ->
  lib_delim_start rest = true ->
  sread_atom (write_char c ++ rest) = Ok (TDatum (Chr c)) rest.
Proof.
  intros c rest Hc Hs Hr.
  destruct (find (fun p => snd p =? c) sexp_char_names) as [p|] eqn:E.
  - unfold write_char. rewrite E. cbn [app sread_atom].
    apply find_some in E as [Hin Hp]. apply Z.eqb_eq in Hp. subst c. apply src_name; assumption.
  - destruct ((33 <=? c) && (c <? 127)) eqn:Ep.
    + unfold write_char. rewrite E, Ep. cbn [app sread_atom sread_char].
      apply andb_prop in Ep as [_ E2]. apply Z.ltb_lt in E2.
      destruct (Z.geb_spec c 128); [lia|].
      destruct rest as [|c2 r]; [reflexivity|]. cbn [lib_delim_start] in Hr. rewrite Hr. reflexivity.
    + rewrite write_char_hex by assumption. cbn [app sread_atom]. apply src_hex; assumption.
Qed.

(** #\x3bb followed by ")" ; #\space followed by a space; #\( at the end of input *)
Example scheme_read_char_example :
  sread_atom (write_char 955 ++ [41]) = Ok (TDatum (Chr 955)) [41] /\
  write_char 955 = [35; 92; 120; 48; 51; 98; 98] /\
  sread_atom (write_char 32 ++ [32]) = Ok (TDatum (Chr 32)) [32] /\
  sread_atom (write_char 40) = Ok (TDatum (Chr 40)) [] /\
  sread_atom [35; 92; 83; 80; 65; 67; 69] = Ok (TDatum (Chr 32)) [].
Proof. repeat split; vm_compute; reflexivity. Qed.
