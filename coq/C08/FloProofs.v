(** C08 proofs, round 3, part 3: flonums.  With libc (snprintf "%.15/16/17lg", sscanf "%lg", strtod,
    snprintf "%.0f", the conversion (double)long) as Section variables and explicit hypotheses about
    them, the writer's try-15/16/17 selection + ".0" patching and the reader's number tokenizer
    (sign, digits, '.', fraction, 'e', exponent sign, exponent digits; +inf.0 -inf.0 +nan.0) followed
    by the repaired decimal path (strtod on the collected digits, fix 2a27451) compose to the
    identity on bit patterns; every NaN is canonicalised to 0x7FF8000000000000. *)
From Coq Require Import ZArith List Bool Lia Arith.
From ChibiV Require Import C08.Datum C08.CSem C08.Tables Gen.C08_Tables Gen.C08_Leaf C08.Write C08.Read
  C08.Model3 C08.Model4 C08.FloSpec C08.Proofs C08.CharProofs C08.CompoundProofs.
Import ListNotations.
Local Open Scope Z_scope.
Ltac Zify.zify_post_hook ::= Z.div_mod_to_equations.

(** ** tokenizer lemmas *)
Lemma dval_dstep : forall ds, dval ds = fold_left dstep ds 0.
Proof. reflexivity. Qed.
Lemma is_digit_char_digit : forall d, is_digit_char d <-> digit d.
Proof. intros d. unfold is_digit_char, digit. tauto. Qed.

Lemma val_app : forall a b, dval (a ++ b) = fold_left dstep b (dval a).
Proof. intros a b. unfold dval. apply fold_left_app. Qed.

Lemma fold_dstep_bound : forall ds v, Forall digit ds -> 0 <= v ->
  v * 10 ^ Z.of_nat (length ds) <= fold_left dstep ds v < (v + 1) * 10 ^ Z.of_nat (length ds).
Proof.
  induction ds as [|d ds IH]; intros v Hd Hv.
  - cbn [fold_left length]. change (10 ^ Z.of_nat 0) with 1. lia.
  - inversion Hd as [|? ? Hd1 Hd2]; subst. cbn [fold_left length].
    rewrite Nat2Z.inj_succ, Z.pow_succ_r by lia.
    assert (Hs : dstep v d = v * 10 + (d - 48)).
    { unfold dstep, digit_value. unfold digit in Hd1. destruct (Z.leb_spec d 57); lia. }
    assert (Hv' : 0 <= dstep v d) by (unfold digit in Hd1; lia).
    specialize (IH (dstep v d) Hd2 Hv'). unfold digit in Hd1.
    assert (0 < 10 ^ Z.of_nat (length ds)) by (apply Z.pow_pos_nonneg; lia). nia.
Qed.

Lemma val_bound : forall ds, Forall digit ds -> 0 <= dval ds < 10 ^ Z.of_nat (length ds).
Proof. intros ds Hd. pose proof (fold_dstep_bound ds 0 Hd ltac:(lia)). rewrite dval_dstep. lia. Qed.

Definition stops (c : Z) : bool := negb (isxdigit c && (0 <=? digit_value c) && (digit_value c <? 10)).

Lemma read_digits_stop : forall ds c rest v got, Forall digit ds -> stops c = true ->
  read_digits 10 (ds ++ c :: rest) v got = (fold_left dstep ds v, got || negb (Nat.eqb (length ds) 0), c :: rest).
Proof.
  induction ds as [|d ds IH]; intros c rest v got Hd Hc.
  - cbn [app fold_left length Nat.eqb negb]. rewrite orb_false_r. unfold stops in Hc. apply negb_true_iff in Hc.
    cbn [read_digits]. rewrite Hc. reflexivity.
  - inversion Hd as [|? ? Hd1 Hd2]; subst. cbn [app fold_left length Nat.eqb negb].
    rewrite orb_true_r. cbn [read_digits].
    replace (isxdigit d && (0 <=? digit_value d) && (digit_value d <? 10)) with true
      by (digit_split Hd1; reflexivity).
    rewrite IH by assumption. rewrite orb_true_l. reflexivity.
Qed.

Lemma head_not_sign : forall d0, digit d0 -> (d0 =? 35) || (d0 =? 45) || (d0 =? 43) = false.
Proof. intros d0 H. digit_split H; reflexivity. Qed.

Section Tok.
  Variable D : Z -> list Z -> Z -> Z.

  Lemma read_number10_point : forall w s, w <> [] -> Forall digit w ->
    read_number10 D (w ++ 46 :: s) = read_float_tail D (dval w) s.
  Proof.
    intros w s Hne Hd. destruct w as [|d0 w']; [congruence|]. unfold read_number10.
    cbn [app]. cbv iota. rewrite (head_not_sign d0 (Forall_inv Hd)).
    change (d0 :: w' ++ 46 :: s) with ((d0 :: w') ++ 46 :: s).
    rewrite read_digits_stop by (assumption || reflexivity). reflexivity.
  Qed.

  Lemma read_number10_e : forall w s, w <> [] -> Forall digit w ->
    read_number10 D (w ++ 101 :: s) = read_float_tail D (dval w) (101 :: s).
  Proof.
    intros w s Hne Hd. destruct w as [|d0 w']; [congruence|]. unfold read_number10.
    cbn [app]. cbv iota. rewrite (head_not_sign d0 (Forall_inv Hd)).
    change (d0 :: w' ++ 101 :: s) with ((d0 :: w') ++ 101 :: s).
    rewrite read_digits_stop by (assumption || reflexivity). reflexivity.
  Qed.

  Lemma span_digits_app : forall fr tail, Forall digit fr ->
    (match tail with c :: _ => isdigit c | [] => false end) = false ->
    span_digits (fr ++ tail) = (fr, tail).
  Proof.
    induction fr as [|d fr IH]; intros tail Hd Ht.
    - cbn [app]. destruct tail as [|c t]; [reflexivity|]. cbn [span_digits]. rewrite Ht. reflexivity.
    - inversion Hd as [|? ? Hd1 Hd2]; subst. cbn [app span_digits].
      replace (isdigit d) with true by (digit_split Hd1; reflexivity).
      rewrite IH by assumption. reflexivity.
  Qed.

  Lemma delim_not_digit : forall rest, at_delim rest = true ->
    (match rest with c :: _ => isdigit c | [] => false end) = false.
  Proof.
    intros [|c r] H; [reflexivity|]. cbn [at_delim] in H. sf Hsf c (fun b => negb (isdigit b)). exact Hsf.
  Qed.

  (** no exponent: the fraction digits run up to the delimiter *)
  Lemma rft_noexp : forall whole fr rest, Forall digit fr -> at_delim rest = true ->
    read_float_tail D whole (fr ++ rest) = Ok (TDatum (Flo (D whole fr 0))) rest.
  Proof.
    intros whole fr rest Hd Hr. unfold read_float_tail.
    rewrite span_digits_app by (assumption || apply delim_not_digit, Hr).
    destruct rest as [|c r]; [reflexivity|]. cbn [at_delim] in Hr.
    sf Hsf c (fun b => negb (is_prec b)). rewrite Hsf, Hr. reflexivity.
  Qed.

  (** exponent: 'e', the sign printf always writes, the exponent digits up to the delimiter *)
  Lemma rft_exp : forall whole fr (neg : bool) ed rest, Forall digit fr -> ed <> [] -> Forall digit ed ->
    (length ed <= 4)%nat -> at_delim rest = true ->
    read_float_tail D whole (fr ++ 101 :: (if neg then 45 else 43) :: ed ++ rest) =
    Ok (TDatum (Flo (D whole fr (if neg then - dval ed else dval ed)))) rest.
  Proof.
    intros whole fr neg ed rest Hd Hne Hed Hlen Hr. unfold read_float_tail.
    rewrite span_digits_app by (assumption || reflexivity).
    change (is_prec 101) with true. cbv iota.
    destruct ed as [|d0 ed']; [congruence|]. pose proof (Forall_inv Hed) as Hd0.
    pose proof (val_bound _ Hed) as Hb.
    assert (Hpow : 10 ^ Z.of_nat (length (d0 :: ed')) <= 10 ^ 4) by (apply Z.pow_le_mono_r; lia).
    change (10 ^ 4) with 10000 in Hpow.
    assert (Hmax : (dval (d0 :: ed') >? MAX_FIXNUM) = false) by (unfold MAX_FIXNUM; destruct (Z.gtb_spec (dval (d0 :: ed')) 4611686018427387903); [lia|reflexivity]).
    destruct neg.
    - cbn [app]. change (read_digits 10 (d0 :: ed' ++ rest) 0 false) with (read_digits 10 ((d0 :: ed') ++ rest) 0 false).
      rewrite read_digits_app by assumption. rewrite <- (dval_dstep (d0 :: ed')). rewrite Hmax, Hr. reflexivity.
    - cbn [app].
      replace (match d0 :: ed' ++ rest with 45 :: t => (true, t) | 43 :: t => (false, t) | _ => (false, d0 :: ed' ++ rest) end)
        with (false, d0 :: ed' ++ rest) by (clear - Hd0; digit_split Hd0; reflexivity).
      change (read_digits 10 (d0 :: ed' ++ rest) 0 false) with (read_digits 10 ((d0 :: ed') ++ rest) 0 false).
      rewrite read_digits_app by assumption. rewrite <- (dval_dstep (d0 :: ed')). rewrite Hmax, Hr. reflexivity.
  Qed.

  Lemma read_unsigned : forall w fr ex rest, shape_ok w fr ex -> at_delim rest = true ->
    read_number10 D (utext w fr ex ++ (if patched fr ex then [46; 48] else []) ++ rest) =
    Ok (TDatum (Flo (D (dval w) (if patched fr ex then [48] else fr) (exv ex)))) rest.
  Proof.
    intros w fr ex rest (Hne & Hw & Hfr & _ & Hex) Hr. unfold utext.
    destruct fr as [|f0 fr']; destruct ex as [[neg ed]|]; cbn [patched exv].
    - destruct Hex as (He1 & He2 & He3). rewrite app_nil_l, app_nil_l, <- !app_assoc. cbn [app].
      rewrite read_number10_e by assumption.
      apply (rft_exp (dval w) [] neg ed rest); auto.
    - rewrite !app_nil_r. cbn [app]. rewrite read_number10_point by assumption.
      apply (rft_noexp (dval w) [48] rest); [repeat constructor; unfold digit; lia|assumption].
    - destruct Hex as (He1 & He2 & He3). rewrite app_nil_l, <- !app_assoc. cbn [app].
      rewrite read_number10_point by assumption.
      change (f0 :: fr' ++ 101 :: (if neg then 45 else 43) :: ed ++ rest)
        with ((f0 :: fr') ++ 101 :: (if neg then 45 else 43) :: ed ++ rest).
      apply rft_exp; auto.
    - rewrite app_nil_r, app_nil_l, <- !app_assoc. cbn [app]. rewrite read_number10_point by assumption.
      change (f0 :: fr' ++ rest) with ((f0 :: fr') ++ rest). apply rft_noexp; assumption.
  Qed.
End Tok.

Lemma has_point_or_e_utext : forall neg w fr ex, Forall digit w ->Forall digit fr ->
  match ex with None => True | Some (_, ed) => Forall digit ed end ->
  has_point_or_e (stext neg (utext w fr ex)) = negb (patched fr ex).
Proof.
  intros neg w fr ex Hw Hfr Hex.
  assert (Hdig : forall l, Forall digit l -> existsb (fun c => (c =? 46) || (c =? 101)) l = false).
  { induction l as [|d l IH]; intros Hl; [reflexivity|]. inversion Hl as [|? ? H1 H2]; subst.
    cbn [existsb]. rewrite IH by assumption. digit_split H1; reflexivity. }
  unfold has_point_or_e.
  assert (Hs : forall u, existsb (fun c => (c =? 46) || (c =? 101)) (stext neg u) =
                         existsb (fun c => (c =? 46) || (c =? 101)) u) by (intros u; destruct neg; reflexivity).
  rewrite Hs. unfold utext. rewrite !existsb_app, Hdig by assumption. cbn [orb].
  destruct fr as [|f0 fr']; destruct ex as [[n ed]|]; cbn [patched negb existsb app]; try reflexivity.
Qed.

(** ** the theorem *)
Section Flo.
  Variable fmt_g : Z -> Z -> list Z.
  Variable scan_g : list Z -> option Z.
  Variable strtod : list Z -> Z.
  Variable fmt_0f : Z -> list Z.
  Variable i2d : Z -> Z.
  Variable old_arith : Z -> list Z -> Z -> Z.
  Hypothesis libc : libc_flonum fmt_g scan_g strtod fmt_0f i2d.

  Notation D := (dec2flo_strtod strtod fmt_0f i2d old_arith).

  (** the writer's selection returns one of the three printf texts, and strtod of it is the double *)
  Lemma flo_text_sel : forall b, finite b ->
    exists p, (p = 15 \/ p = 16 \/ p = 17) /\ flo_text fmt_g scan_g b = fmt_g p b /\ strtod (fmt_g p b) = b.
  Proof.
    intros b Hb.
    assert (Hzero : forall p, p = 15 \/ p = 16 \/ p = 17 -> forall r, scan_g (fmt_g p b) = Some r ->
              flo_ne r b = false -> strtod (fmt_g p b) = b).
    { intros p Hp r Hs Hne.
      destruct (lf_shape _ _ _ _ _ libc p b Hp Hb) as (w & fr & ex & Hsh & Et & _).
      rewrite Et in *. rewrite (lf_scan _ _ _ _ _ libc) in Hs by assumption. injection Hs as <-.
      unfold flo_ne in Hne. apply andb_false_iff in Hne as [Hne|Hne].
      - apply negb_false_iff, Z.eqb_eq in Hne. exact Hne.
      - apply negb_false_iff, andb_prop in Hne as [Z1 Z2]. apply Z.eqb_eq in Z1, Z2.
        fold TWO63 in Z1, Z2. destruct Hb as [[Hb0 Hb1] _]. unfold TWO64 in Hb1.
        pose proof (lf_pos _ _ _ _ _ libc w fr ex Hsh) as Hp0.
        unfold signbit in *. destruct (Z.leb_spec TWO63 b) as [Hs1|Hs1]; cbn [stext] in *.
        + rewrite (lf_sign _ _ _ _ _ libc) in * by assumption. unfold flip_sign in *. fold TWO63 in *.
          destruct (Z.ltb_spec (strtod (utext w fr ex)) TWO63); unfold TWO63 in *; lia.
        + unfold TWO63 in *. lia. }
    unfold flo_text.
    destruct (lf_shape _ _ _ _ _ libc 15 b (or_introl eq_refl) Hb) as (w5 & fr5 & ex5 & Hsh5 & Et5 & _).
    pose proof (lf_scan _ _ _ _ _ libc (signbit b) w5 fr5 ex5 Hsh5) as Hs5. rewrite <- Et5 in Hs5.
    rewrite Hs5. destruct (flo_ne (strtod (fmt_g 15 b)) b) eqn:N5.
    2:{ exists 15. split; [auto|]. split; [reflexivity|]. apply (Hzero 15 (or_introl eq_refl) _ Hs5 N5). }
    destruct (lf_shape _ _ _ _ _ libc 16 b (or_intror (or_introl eq_refl)) Hb) as (w6 & fr6 & ex6 & Hsh6 & Et6 & _).
    pose proof (lf_scan _ _ _ _ _ libc (signbit b) w6 fr6 ex6 Hsh6) as Hs6. rewrite <- Et6 in Hs6.
    rewrite Hs6. destruct (flo_ne (strtod (fmt_g 16 b)) b) eqn:N6.
    2:{ exists 16. split; [auto|]. split; [reflexivity|]. apply (Hzero 16 (or_intror (or_introl eq_refl)) _ Hs6 N6). }
    exists 17. split; [auto|]. split; [reflexivity|]. apply (lf_rt17 _ _ _ _ _ libc), Hb.
  Qed.

  (** the reader's decimal path on what the tokenizer collected from such a text *)
  Lemma D_value : forall w fr ex, shape_ok w fr ex -> fmt_0f (i2d (dval w)) = w ->
    D (dval w) (if patched fr ex then [48] else fr) (exv ex) = strtod (utext w fr ex).
  Proof.
    intros w fr ex Hsh H0f. pose proof Hsh as (Hne & Hw & Hfr & Hlen & Hex).
    unfold dec2flo_strtod. rewrite H0f.
    set (fr' := if patched fr ex then [48] else fr).
    assert (Hfr' : Forall digit fr') by (unfold fr'; destruct (patched fr ex); [repeat constructor; unfold digit; lia|assumption]).
    assert (Hlen' : (length fr' <= length fr + 1)%nat) by (unfold fr'; destruct (patched fr ex); cbn [length]; lia).
    assert (He : Z.abs (exv ex) < 1000000).
    { destruct ex as [[neg ed]|]; cbn [exv]; [|lia]. destruct Hex as (_ & He2 & He3).
      pose proof (val_bound _ He2) as Hb.
      assert (10 ^ Z.of_nat (length ed) <= 10 ^ 4) by (apply Z.pow_le_mono_r; lia).
      change (10 ^ 4) with 10000 in *. destruct neg; lia. }
    replace (Z.of_nat (length w + length fr') <? FLOAT_DIGITS_LEN) with true
      by (symmetry; apply Z.ltb_lt; unfold FLOAT_DIGITS_LEN; lia).
    replace (Z.abs (exv ex) <? 1000000) with true by (symmetry; apply Z.ltb_lt; lia).
    cbn [andb]. rewrite app_assoc.
    apply (lf_val _ _ _ _ _ libc); try assumption.
    - destruct w; [congruence|discriminate].
    - apply Forall_app; split; assumption.
    - rewrite app_length. lia.
    - unfold deq, fr'. destruct fr as [|f0 fr0]; destruct ex as [[neg ed]|]; cbn [patched].
      + replace (exv (Some (neg, ed)) - Z.of_nat (length (@nil Z)) - (exv (Some (neg, ed)) - Z.of_nat (length (@nil Z)))) with 0 by lia.
        reflexivity.
      + cbn [exv length]. rewrite app_nil_r, val_app. cbn [fold_left]. unfold dstep at 1.
        change (digit_value 48) with 0. change (Z.of_nat 1) with 1. change (Z.of_nat 0) with 0.
        change (Z.max 0 (0 - 1 - (0 - 0))) with 0. change (Z.max 0 (0 - 0 - (0 - 1))) with 1. lia.
      + rewrite Z.sub_diag. reflexivity.
      + rewrite Z.sub_diag. reflexivity.
  Qed.

  Lemma class_inf_pos : forall b, 0 <= b < TWO64 -> flo_class b = 1 -> b = POS_INF.
  Proof.
    intros b Hb H. unfold flo_class in H. cbv zeta in H. unfold TWO64 in Hb. unfold POS_INF.
    destruct (Z.eqb_spec ((b / 4503599627370496) mod 2048) 2047) as [E|E]; [|discriminate].
    destruct (Z.eqb_spec (b mod 4503599627370496) 0) as [E2|E2]; [|discriminate].
    destruct (Z.ltb_spec b 9223372036854775808); [|discriminate]. lia.
  Qed.

  Lemma class_inf_neg : forall b, 0 <= b < TWO64 -> flo_class b = 2 -> b = NEG_INF.
  Proof.
    intros b Hb H. unfold flo_class in H. cbv zeta in H. unfold TWO64 in Hb. unfold NEG_INF.
    destruct (Z.eqb_spec ((b / 4503599627370496) mod 2048) 2047) as [E|E]; [|discriminate].
    destruct (Z.eqb_spec (b mod 4503599627370496) 0) as [E2|E2]; [|discriminate].
    destruct (Z.ltb_spec b 9223372036854775808); [discriminate|]. lia.
  Qed.

  Lemma class_cases : forall b, flo_class b = 0 \/ flo_class b = 1 \/ flo_class b = 2 \/ flo_class b = 3.
  Proof.
    intros b. unfold flo_class. cbv zeta.
    destruct ((b / 4503599627370496) mod 2048 =? 2047); [|auto].
    destruct (b mod 4503599627370496 =? 0); [|auto]. destruct (b <? 9223372036854775808); auto.
  Qed.

  (** +inf.0 -inf.0 +nan.0 through the '+'/'-' arm *)
  Lemma read_special : forall f sg name v rest, at_delim rest = true ->
    (sg = 43 \/ sg = 45) ->
    (name = [105; 110; 102; 46; 48] /\ v = (if sg =? 43 then POS_INF else NEG_INF) \/
     name = [110; 97; 110; 46; 48] /\ sg = 43 /\ v = A_NAN) ->
    read_raw D (S f) (sg :: name ++ rest) = Ok (TDatum (Flo v)) rest.
  Proof.
    intros f sg name v rest Hr Hsg Hn.
    assert (Hp : Forall plain name).
    { destruct Hn as [[-> _]|[-> _]]; repeat constructor; unfold byte; try lia; reflexivity. }
    destruct Hsg as [-> | ->]; destruct Hn as [[-> ->]|(-> & E & ->)]; try discriminate;
      cbn [app]; cbn [read_raw skip_ws Z.eqb Pos.eqb orb andb isdigit Z.leb Z.compare Pos.compare Pos.compare_cont];
      unfold plus_minus_symbol;
      match goal with |- context [read_symbol_loop (?a :: ?b :: ?c :: ?d :: ?e :: rest) ?acc] =>
        change (a :: b :: c :: d :: e :: rest) with ([a; b; c; d; e] ++ rest) end;
      rewrite rsl_plain by assumption; reflexivity.
  Qed.


  Theorem flonum_roundtrip_given_ok : forall b f rest, 0 <= b < TWO64 -> at_delim rest = true ->
    read_raw D (S f) (write_flo fmt_g scan_g b ++ rest) = Ok (TDatum (Flo (flo_canon b))) rest.
  Proof.
    intros b f rest Hb Hr. unfold write_flo, flo_canon.
    destruct (class_cases b) as [C|[C|[C|C]]]; rewrite C; cbn [Z.eqb Pos.eqb].
    2:{ rewrite (class_inf_pos b Hb C). apply (read_special f 43 [105; 110; 102; 46; 48]); auto. }
    2:{ rewrite (class_inf_neg b Hb C). apply (read_special f 45 [105; 110; 102; 46; 48]); auto. }
    2:{ apply (read_special f 43 [110; 97; 110; 46; 48]); auto. }
    assert (Hfin : finite b) by (split; assumption).
    destruct (flo_text_sel b Hfin) as (p & Hp & -> & Hst).
    destruct (lf_shape _ _ _ _ _ libc p b Hp Hfin) as (w & fr & ex & Hsh & Et & H0f).
    pose proof Hsh as (Hne & Hw & Hfr & Hlen & Hex).
    rewrite Et in *. rewrite has_point_or_e_utext;
      [|assumption|assumption|destruct ex as [[n ed]|]; [apply Hex|exact I]].
    assert (Htxt : (if negb (patched fr ex) then stext (signbit b) (utext w fr ex)
                    else stext (signbit b) (utext w fr ex) ++ [46; 48]) ++ rest =
                   stext (signbit b) (utext w fr ex ++ (if patched fr ex then [46; 48] else []) ++ rest)).
    { destruct (patched fr ex), (signbit b); cbn [negb stext app]; rewrite <- ?app_assoc; try reflexivity.
      all: rewrite ?app_nil_l; reflexivity. }
    rewrite Htxt. clear Htxt.
    destruct w as [|d0 w']; [congruence|]. pose proof (Forall_inv Hw) as Hd0.
    destruct (signbit b) eqn:Sb; cbn [stext] in *.
    - (* negative: the '-' arm reads the unsigned text and negates *)
      unfold utext at 1. cbn [app]. rewrite read_raw_minus_digit by assumption.
      change (d0 :: (w' ++ match fr with [] => [] | _ :: _ => 46 :: fr end ++
                match ex with Some (neg, ed) => 101 :: (if neg then 45 else 43) :: ed | None => [] end) ++
                (if patched fr ex then [46; 48] else []) ++ rest)
        with (utext (d0 :: w') fr ex ++ (if patched fr ex then [46; 48] else []) ++ rest).
      rewrite read_unsigned by assumption. cbn [negate].
      rewrite D_value by assumption.
      rewrite (lf_sign _ _ _ _ _ libc) in Hst by assumption. rewrite Hst. reflexivity.
    - unfold utext at 1. cbn [app]. rewrite read_raw_digit by assumption.
      change (d0 :: (w' ++ match fr with [] => [] | _ :: _ => 46 :: fr end ++
                match ex with Some (neg, ed) => 101 :: (if neg then 45 else 43) :: ed | None => [] end) ++
                (if patched fr ex then [46; 48] else []) ++ rest)
        with (utext (d0 :: w') fr ex ++ (if patched fr ex then [46; 48] else []) ++ rest).
      rewrite read_unsigned by assumption.
      rewrite D_value by assumption. rewrite Hst. reflexivity.
  Qed.
End Flo.

(** the tokenizer on a concrete text: "-12.5e-7)" -> sign flipped, whole 12, fraction "5", exponent -7 *)
Example flonum_tokens_example :
  read_raw (fun w fr e => w * 1000 + dval fr * 100 + (e + 50)) 1 [45; 49; 50; 46; 53; 101; 45; 55; 41] =
  Ok (TDatum (Flo (flip_sign (12 * 1000 + 5 * 100 + 43)))) [41]
  /\ read_raw (fun _ _ _ => 0) 1 [43; 110; 97; 110; 46; 48; 32] = Ok (TDatum (Flo A_NAN)) [32]
  /\ flo_canon 18444492273895866369 = A_NAN /\ flo_canon NEG_INF = NEG_INF.
Proof. repeat split; vm_compute; reflexivity. Qed.

(** ** data with flonum leaves: the compound theorem instantiated with the flonum theorem *)
Definition flo_leaf_ok (b : Z) : Prop := 0 <= b < TWO64 /\ flo_class b <> 3.

Theorem datum_roundtrip_flonums_ok :
  forall fmt_g scan_g strtod fmt_0f i2d old_arith, libc_flonum fmt_g scan_g strtod fmt_0f i2d ->
  forall d f rest, wfd flo_leaf_ok d -> (height d + 2 <= f)%nat -> at_delim rest = true ->
  read_raw (dec2flo_strtod strtod fmt_0f i2d old_arith) f (write fmt_g scan_g d ++ rest) = Ok (TDatum d) rest.
Proof.
  intros fmt_g scan_g strtod fmt_0f i2d old_arith libc d f rest Hw Hf Hd.
  rewrite <- write_gen_native.
  apply (datum_roundtrip_gen fmt_g scan_g _ flo_leaf_ok); try assumption.
  - intros b [Hb Hc] f' rest' Hd'.
    rewrite (flonum_roundtrip_given_ok fmt_g scan_g strtod fmt_0f i2d old_arith libc b f' rest' Hb Hd').
    unfold flo_canon. destruct (Z.eqb_spec (flo_class b) 3); [contradiction|reflexivity].
  - intros c Hc f' rest' Hd'. apply char_roundtrip_native; assumption.
Qed.

(** round 4: the same for the library writer's text ((scheme write) prints a flonum with
    (display (number->string x)), the text of sexp_write_one's flonum arm) *)
Theorem scheme_write_roundtrip_flonums_ok :
  forall fmt_g scan_g strtod fmt_0f i2d old_arith, libc_flonum fmt_g scan_g strtod fmt_0f i2d ->
  forall d f rest, wfd flo_leaf_ok d -> (height d + 2 <= f)%nat -> at_delim rest = true ->
  read_raw (dec2flo_strtod strtod fmt_0f i2d old_arith) f (swrite fmt_g scan_g d ++ rest) = Ok (TDatum d) rest.
Proof.
  intros fmt_g scan_g strtod fmt_0f i2d old_arith libc d f rest Hw Hf Hd. unfold swrite.
  apply (datum_roundtrip_gen fmt_g scan_g _ flo_leaf_ok); try assumption.
  - intros b [Hb Hc] f' rest' Hd'.
    rewrite (flonum_roundtrip_given_ok fmt_g scan_g strtod fmt_0f i2d old_arith libc b f' rest' Hb Hd').
    unfold flo_canon. destruct (Z.eqb_spec (flo_class b) 3); [contradiction|reflexivity].
  - intros c Hc f' rest' Hd'. apply char_roundtrip_library; assumption.
Qed.
Print Assumptions flonum_roundtrip_given_ok.
Print Assumptions datum_roundtrip_flonums_ok.
Print Assumptions scheme_write_roundtrip_flonums_ok.
