(** C08 model, exact non-integer numbers at token level: ratios and exact complex numbers.
    Writer: the SEXP_RATIO and SEXP_COMPLEX arms of sexp_write_one (sexp.c:2398-2416).
    Reader: sexp_read_number (sexp.c:2967-3138) with sexp_ratio_normalize (2932-2964),
    sexp_read_complex_tail (2758-2807), sexp_complex_normalize (2748-2756) and the '+' / '-' and
    digit arms of sexp_read_raw (3872-3960).
    Input is the list of bytes still to be read; sexp_push_char = not consuming (the two
    consecutive sexp_push_char of sexp_read_complex_tail, c2 then '-', are both honoured: string
    ports step their offset back).
    Every syntax outside exact integers / ratios / rectangular complex answers [NErr Unmodelled]
    (never a guess): '#' prefixes and placeholder digits, '.', exponent markers (flonums), polar
    '@', the inf/nan spellings.  [NErr ReadErr] stands for any exception object returned by the C
    code (read errors and the type exception of sexp_remainder on a ratio operand).
    ABSTRACTION: the fixnum overflow of the digit loop into sexp_read_bignum (bignum.c:303-403) is
    abstracted exactly as in C08/Read.v: values accumulate in Z and there is ONE code path, the one
    of sexp_read_number.  sexp_read_bignum has its own copies of the '/' arm and of the call of
    sexp_read_complex_tail; on the writer's texts they take the same decisions (they differ on
    inputs the writer never produces: an upper-case 'I' or an '@' directly after a bignum-sized
    digit string is "invalid numeric syntax" there, and the kind of the denominator is not
    checked).  Likewise fixnum/bignum arithmetic of sexp_remainder / sexp_quotient / sexp_mul and
    sexp_bignum_normalize are Z.rem / Z.quot / Z.mul / identity (exact arithmetic is C04's
    subject).
    No proofs in this file. *)
From Coq Require Import ZArith List Bool.
From ChibiV Require Import C08.Datum Gen.C08_Tables Gen.C08_Leaf C08.Write C08.Read.
Import ListNotations.
Local Open Scope Z_scope.

(** an exact real: fixnum/bignum, or a ratio object (numerator, denominator) *)
Inductive enum := EInt (z : Z) | ERat (n d : Z).
(** a number object: exact real, or a complex object (real part, imaginary part) *)
Inductive xnum := XReal (r : enum) | XCpx (re im : enum).
Inductive nres := NOk (x : xnum) (rest : list Z) | NErr (e : err).

(** ** writer *)

(** sexp_write_one on an exact real: fixnum "%ld" / sexp_write_bignum (Write.write_int), and the
    SEXP_RATIO arm (sexp.c:2398-2403): numerator, '/', denominator *)
Definition write_enum (r : enum) : list Z :=
  match r with
  | EInt z => write_int z
  | ERat n d => write_int n ++ 47 :: write_int d
  end.

(** sexp_pedantic_negativep (sexp.h:1054-1061) on an exact real: a negative fixnum/bignum, or a
    ratio with a negative numerator *)
Definition enum_negativep (r : enum) : bool :=
  match r with EInt z => z <? 0 | ERat n _ => n <? 0 end.

(** SEXP_COMPLEX arm (sexp.c:2405-2416): the real part (always, also when it is 0); '+' unless the
    imaginary part is negative (or infinite: not exact); then '-' alone for the fixnum -1, nothing
    for the fixnum 1, the imaginary part otherwise; then 'i' *)
Definition write_imag (im : enum) : list Z :=
  match im with
  | EInt (-1) => [45]
  | EInt 1 => []
  | _ => write_enum im
  end.

Definition write_xnum (x : xnum) : list Z :=
  match x with
  | XReal r => write_enum r
  | XCpx re im =>
      write_enum re ++ (if enum_negativep im then [] else [43]) ++ write_imag im ++ [105]
  end.

(** ** sexp_ratio_normalize (sexp.c:2932-2964) *)

(** the Euclid loop `while (den != SEXP_ZERO) { tmp = sexp_remainder(num, den); num = den, den = tmp; }`
    (2941-2948); sexp_remainder truncates toward zero: Z.rem.  The C loop has no counter; the fuel
    of the model is [gcd_fuel] below, which always suffices (NumberProofs.gcd_loop_ok), so that the
    [None] answer is never produced by [ratio_normalize]. *)
Fixpoint gcd_loop (f : nat) (num den : Z) : option Z :=
  match f with
  | O => None
  | S f' => if den =? 0 then Some num else gcd_loop f' den (Z.rem num den)
  end.

Definition gcd_fuel (num den : Z) : nat :=
  S (S (Z.to_nat (Z.log2_up (Z.abs num * Z.abs den + 1)))).

Inductive eres := EOk (r : enum) | EErr (e : err).

(** [num] is the fixnum/bignum numerator; [den] the object put in the denominator slot, which
    sexp_read_number does not check to be an integer when it comes out of a complex number.
    Order of the tests as in C: zero denominator -> "zero denominator in ratio"; zero numerator
    -> 0; gcd loop (a ratio operand makes sexp_remainder answer a type exception, returned at
    2944-2947); both quotients (sexp_quotient truncates: Z.quot); a negative denominator moves the
    sign to the numerator (2953-2958); denominator 1 -> the numerator alone. *)
Definition ratio_normalize (num : Z) (den : enum) : eres :=
  match den with
  | EInt 0 => EErr ReadErr
  | _ =>
      if num =? 0 then EOk (EInt 0)
      else
        match den with
        | ERat _ _ => EErr ReadErr
        | EInt d =>
            match gcd_loop (gcd_fuel num d) num d with
            | None => EErr OutOfFuel
            | Some g =>
                let d1 := Z.quot d g in
                let n1 := Z.quot num g in
                let n2 := if d1 <? 0 then n1 * -1 else n1 in
                let d2 := if d1 <? 0 then d1 * -1 else d1 in
                if d2 =? 1 then EOk (EInt n2) else EOk (ERat n2 d2)
            end
        end
  end.

(** ** sexp_complex_normalize (sexp.c:2748-2756): only an exact zero imaginary part is dropped *)
Definition complex_normalize (x : xnum) : xnum :=
  match x with
  | XCpx re (EInt 0) => XReal re
  | _ => x
  end.

Definition is_i (c : Z) : bool := (c =? 105) || (c =? 73).

(** ** sexp_read_complex_tail (sexp.c:2758-2807) *)

(** label trailing_i (2765-2782), entered after the 'i' has been consumed: the next character must
    be EOF or a separator (pushed back); 'n'/'N' starts the "inf.0i" spelling (a flonum:
    unmodelled); the result is make_complex(default_real, real), then sexp_complex_normalize *)
Definition trailing_i (s : list Z) (default_real real : Z) : nres :=
  match s with
  | c :: _ =>
      if (c =? 110) || (c =? 78) then NErr Unmodelled
      else if negb (is_separator c) then NErr ReadErr     (* invalid complex numeric syntax *)
      else NOk (complex_normalize (XCpx (EInt default_real) (EInt real))) s
  | [] => NOk (complex_normalize (XCpx (EInt default_real) (EInt real))) []
  end.

(** [s] starts at the character pushed back by the caller ('i' 'I' '+' or '-'); [real] is the
    integer read so far (with its sign); [rd] is the recursive sexp_read_number(in, 10, 0) *)
Definition complex_tail (rd : list Z -> nres) (s : list Z) (real : Z) : nres :=
  match s with
  | [] => rd []                                   (* not reached: the caller pushed a character *)
  | c :: s1 =>
      if is_i c then trailing_i s1 0 real         (* trailing i, no sign: NNNNi has 0 real *)
      else                                        (* trailing + or - *)
        if (match s1 with c2 :: _ => is_i c2 | [] => false end)
        then trailing_i (tl s1) real (if c =? 45 then -1 else 1)
        else
          (* c2 pushed back; '-' pushed back too, '+' dropped; read the imaginary part *)
          match rd (if c =? 45 then c :: s1 else s1) with
          | NOk (XCpx re im) rest =>
              match re with
              | EInt 0 => NOk (complex_normalize (XCpx (EInt real) im)) rest
              | _ => NErr ReadErr                 (* multiple real parts of complex *)
              end
          | NOk (XReal (EInt 0)) rest => NOk (complex_normalize (XCpx (EInt real) (EInt 0))) rest
          | NOk (XReal _) _ => NErr ReadErr       (* missing imaginary part of complex *)
          | NErr e => NErr e
          end
  end.

(** ** sexp_read_number(in, 10, 0) (sexp.c:2967-3138)
    The recursion sexp_read_number -> ('/' arm | sexp_read_complex_tail) -> sexp_read_number
    consumes at least one character per level; [f] bounds its depth. *)
Fixpoint read_number (f : nat) (s : list Z) : nres :=
  match f with
  | O => NErr OutOfFuel
  | S f' =>
      if (match s with c :: _ => c =? 35 | [] => false end) then NErr Unmodelled   (* # prefixes *)
      else
        (* sign (2989-2994) *)
        let negativep := match s with c :: _ => c =? 45 | [] => false end in
        let s0 := match s with c :: t => if (c =? 45) || (c =? 43) then t else s | [] => s end in
        (* `if (c == 'i' || c == 'I') val = 1;` (2997): no digit follows, tmp stays -1 *)
        let init := if (match s0 with c :: _ => is_i c | [] => false end) then 1 else 0 in
        (* digit loop (2999-3012), Read.read_digits: value, "tmp >= 0", rest *)
        let '(val, got, s1) := read_digits 10 s0 init false in
        let sval := if negativep then - val else val in
        match s1 with
        | [] => if got then NOk (XReal (EInt sval)) [] else NErr ReadErr   (* digitless literal *)
        | c :: s2 =>
            if c =? 35 then NErr Unmodelled                  (* placeholder digits *)
            else if (c =? 46) || is_prec c then NErr Unmodelled   (* sexp_read_float_tail *)
            else if c =? 47 then
              (* '/' arm (3067-3118): den = sexp_read_number(in, base, exactp) *)
              match read_number f' s2 with
              | NErr e => NErr e
              | NOk (XReal (EInt d)) rest =>
                  match ratio_normalize sval (EInt d) with
                  | EOk r => NOk (XReal r) rest
                  | EErr e => NErr e
                  end
              | NOk (XReal (ERat _ _)) _ => NErr ReadErr     (* invalid rational syntax *)
              | NOk (XCpx re im) rest =>
                  (* NNN/DDDi puts the ratio in the imaginary part, NNN/DDD+IIIi in the real part *)
                  match re with
                  | EInt 0 =>
                      match ratio_normalize sval im with
                      | EOk r => NOk (XCpx re r) rest
                      | EErr e => NErr e
                      end
                  | _ =>
                      match ratio_normalize sval re with
                      | EOk r => NOk (XCpx r im) rest
                      | EErr e => NErr e
                      end
                  end
              end
            else if is_i c || (c =? 43) || (c =? 45) || (c =? 64) then
              (* complex arm (3120-3129) *)
              if c =? 64 then NErr Unmodelled                (* sexp_read_polar_tail *)
              else complex_tail (read_number f') s1 sval
            else if negb (is_separator c) then NErr ReadErr  (* invalid numeric syntax *)
            else if negb got then NErr ReadErr               (* digitless numeric literal *)
            else NOk (XReal (EInt sval)) s1
        end
  end.

(** ** the '+' / '-' arm and the digit arm of sexp_read_raw (sexp.c:3872-3960) *)

(** sexp_negate_exact / sexp_negate_maybe_ratio (sexp.h:1070-1093) + sexp_normalize_negated *)
Definition neg_enum (r : enum) : enum :=
  match r with EInt z => EInt (- z) | ERat n d => ERat (- n) d end.

(** 3879-3914: the number read after a '-' is negated: integer; ratio: numerator; complex: the
    imaginary part when the real part is the fixnum 0, the real part otherwise *)
Definition negate_num (r : nres) : nres :=
  match r with
  | NOk (XReal x) rest => NOk (XReal (neg_enum x)) rest
  | NOk (XCpx re im) rest =>
      match re with
      | EInt 0 => NOk (XCpx re (neg_enum im)) rest
      | _ => NOk (XCpx (neg_enum re) im) rest
      end
  | NErr e => NErr e
  end.

(** 3915-3955 when no digit follows the sign: the token is read as a symbol; "+i" / "-i" (exact
    spelling) are the complex numbers 0+1i / 0-1i; anything else (a symbol, an infinity, a NaN) is
    not an exact number: unmodelled here (Read.plus_minus_symbol covers those) *)
Definition sign_symbol (c1 : Z) (s1 : list Z) : nres :=
  let '(str, rest) := read_symbol_loop s1 [c1] in
  if list_eqb str [43; 105] then NOk (XCpx (EInt 0) (EInt 1)) rest
  else if list_eqb str [45; 105] then NOk (XCpx (EInt 0) (EInt (-1))) rest
  else NErr Unmodelled.

(** [s] starts at the first character of the token (c1 of sexp_read_raw): a sign or a digit *)
Definition read_num_token (f : nat) (s : list Z) : nres :=
  match s with
  | [] => NErr Unmodelled
  | c1 :: s1 =>
      if (c1 =? 43) || (c1 =? 45) then
        match s1 with
        | c2 :: s2 =>
            if ((c2 =? 46) && (match s2 with d :: _ => isdigit d | [] => false end)) || isdigit c2
            then (if c1 =? 45 then negate_num (read_number f s1) else read_number f s1)
            else sign_symbol c1 s1
        | [] => sign_symbol c1 s1
        end
      else if isdigit c1 then read_number f s
      else NErr Unmodelled
  end.
