(** C08 proofs, round 3, part 2: the compound datum theorem (pairs incl. dotted tails, vectors,
    bytevectors over the atoms that have their own theorems), by structural induction.
    Key facts: every atom's text ends where the reader's token ends (the atom theorems are stated
    for ANY continuation that starts with a delimiter), and the writer puts a space or a parenthesis
    - both separators of the regenerated table - between adjacent tokens. *)
From Coq Require Import ZArith List Bool Lia Arith.
From ChibiV Require Import C08.Datum C08.CSem C08.Tables Gen.C08_Tables Gen.C08_Leaf C08.Write C08.Read
  C08.Model3 C08.Model4 C08.Proofs C08.CharProofs.
Import ListNotations.
Local Open Scope Z_scope.
Ltac Zify.zify_post_hook ::= Z.div_mod_to_equations.

(** ** upper-case hex digits of bytevector elements *)
Lemma hexU_read : forall n s v got, 0 <= n < 16 ->
  read_digits 16 (hex_digit_upper n :: s) v got = read_digits 16 s (v * 16 + n) true.
Proof.
  intros n s v got H. apply nibble_cases in H.
  repeat (destruct H as [H|H]); subst; reflexivity.
Qed.

Lemma hexU_head : forall n, 0 <= n < 16 ->
  (hex_digit_upper n =? 45) = false /\ (hex_digit_upper n =? 43) = false /\ (hex_digit_upper n =? 35) = false.
Proof.
  intros n H. apply nibble_cases in H.
  repeat (destruct H as [H|H]); subst; repeat split; reflexivity.
Qed.

Lemma read_raw_hash_x : forall d f s, read_raw d (S f) (35 :: 120 :: s) = read_number16 s.
Proof. reflexivity. Qed.

Lemma u8_roundtrip : forall d f b rest, byte b -> at_delim rest = true ->
  read_raw d (S f) (write_u8 b ++ rest) = Ok (TDatum (Int b)) rest.
Proof.
  intros d f b rest Hb Hd. unfold write_u8. destruct (Z.eqb_spec b 0) as [->|Hnz].
  - apply (integer_roundtrip_ok d f 0 rest Hd).
  - unfold byte in Hb. cbn [app]. rewrite read_raw_hash_x.
    assert (H1 : 0 <= b / 16 < 16) by lia. assert (H2 : 0 <= b mod 16 < 16) by lia.
    destruct (hexU_head (b / 16) H1) as (H45 & H43 & H35).
    unfold read_number16. rewrite H45, H43. cbn [orb]. rewrite H35.
    rewrite !hexU_read by assumption. rewrite read_digits_delim by assumption. rewrite Hd.
    f_equal. f_equal. f_equal. lia.
Qed.

(** ** shapes of read_raw on the opening tokens *)
Section Compound.
  Variable fmt_g : Z -> Z -> list Z.
  Variable scan_g : list Z -> option Z.
  Variable dec2flo : Z -> list Z -> Z -> Z.
  (** the flonum leaves are a parameter of this section: [flo_ok b] is whatever the flonum theorem
      (FloProofs.v, under explicit libc hypotheses) establishes; with [flo_ok := fun _ => False] the
      result is closed and speaks about data without flonum leaves. *)
  Variable flo_ok : Z -> Prop.
  Hypothesis flo_roundtrip : forall b, flo_ok b -> forall f rest, at_delim rest = true ->
    read_raw dec2flo (S f) (write_flo fmt_g scan_g b ++ rest) = Ok (TDatum (Flo b)) rest.

  (** round 4: the character arm of the writer is a parameter too ([write_gen], C08/Model4.v):
      [write_char] = sexp_write_one, [swrite_char] = the library writer of lib/srfi/38.scm *)
  Variable wchr : Z -> list Z.
  Hypothesis chr_roundtrip : forall c, 0 <= c <= 1114111 -> forall f rest, at_delim rest = true ->
    read_raw dec2flo (S f) (wchr c ++ rest) = Ok (TDatum (Chr c)) rest.

  Notation wr := (write_gen wchr fmt_g scan_g).
  Notation rd := (read_raw dec2flo).

  Lemma read_raw_space : forall f s, rd (S f) (32 :: s) = rd (S f) s.
  Proof. reflexivity. Qed.
  Lemma read_raw_close : forall f s, rd (S f) (41 :: s) = Ok TClose s.
  Proof. reflexivity. Qed.
  Lemma read_raw_dot : forall f s, rd (S f) (46 :: 32 :: s) = Ok TDot (32 :: s).
  Proof. reflexivity. Qed.
  Lemma read_raw_list : forall f s, rd (S f) (40 :: s) = list_loop (rd f) f [] s.
  Proof. reflexivity. Qed.
  Lemma read_raw_vec : forall f s, rd (S f) (35 :: 40 :: s) =
    match (match rd f (40 :: s) with Ok TClose _ | Ok TDot _ => Err ReadErr | r => r end) with
    | Ok (TDatum x) rest =>
        match list_to_vec x with Some l => Ok (TDatum (Vec l)) rest | None => Err ReadErr end
    | Ok _ _ => Err ReadErr
    | Err e => Err e
    end.
  Proof. reflexivity. Qed.
  Lemma read_raw_u8 : forall f s, rd (S f) (35 :: 117 :: 56 :: 40 :: s) =
    match (match rd f (40 :: s) with Ok TClose _ | Ok TDot _ => Err ReadErr | r => r end) with
    | Ok (TDatum x) rest =>
        match list_to_u8 x with Some l => Ok (TDatum (Bytes l)) rest | None => Err Unmodelled end
    | Ok _ _ => Err Unmodelled
    | Err e => Err e
    end.
  Proof. reflexivity. Qed.

  (** well-formed data: bytes are bytes, characters are code points, flonums are covered *)
  Fixpoint wfd (d : datum) : Prop :=
    match d with
    | Int _ | Bool _ | Nil => True
    | Flo b => flo_ok b
    | Chr c => 0 <= c <= 1114111
    | Str s => bytes s
    | Sym s => bytes s
    | Pair a t => wfd a /\ wfd t
    | Vec l => fold_right (fun x p => wfd x /\ p) True l
    | Bytes l => bytes l
    end.

  (** the text of the cdr chain: what follows the first element inside the parentheses *)
  Fixpoint tail_text (t : datum) : list Z :=
    match t with
    | Nil => [41]
    | Pair a t' => 32 :: wr a ++ tail_text t'
    | _ => [32; 46; 32] ++ wr t ++ [41]
    end.

  Lemma tl_write_pair : forall t a, tl (wr (Pair a t)) = wr a ++ tail_text t.
  Proof.
    induction t as [| | | | | | |a2 _ t2 IH| |]; intros a; try reflexivity.
    cbn [write_gen tl tail_text]. f_equal. f_equal. specialize (IH a2). cbn [write_gen tl] in IH. exact IH.
  Qed.

  Lemma write_pair : forall a t, wr (Pair a t) = 40 :: wr a ++ tail_text t.
  Proof. intros a t. rewrite <- tl_write_pair. reflexivity. Qed.

  Lemma tail_text_delim : forall t rest, at_delim (tail_text t ++ rest) = true.
  Proof. intros t rest. destruct t; reflexivity. Qed.

  Definition RtP (d : datum) : Prop := wfd d -> forall f rest, (height d + 2 <= f)%nat -> at_delim rest = true ->
    rd f (wr d ++ rest) = Ok (TDatum d) rest.

  Definition RtT (t : datum) : Prop := wfd t -> forall f n acc rest, acc <> [] ->
    (height t + 2 <= f)%nat -> (height t < n)%nat ->
    list_loop (rd f) n acc (tail_text t ++ rest) = Ok (TDatum (mk_list (rev acc) t)) rest.

  (** a tail that is neither () nor a pair is written after " . " *)
  Lemma dotted_tail : forall t, RtP t -> tail_text t = [32; 46; 32] ++ wr t ++ [41] ->
    mk_list [] t = t -> RtT t.
  Proof.
    intros t Pt Et _ Hw f n acc rest Hacc Hf Hn. rewrite Et.
    destruct n as [|n']; [lia|]. destruct f as [|f']; [lia|].
    cbn [list_loop app]. rewrite read_raw_space, read_raw_dot.
    destruct acc as [|x acc']; [congruence|].
    rewrite <- app_assoc. rewrite read_raw_space.
    rewrite (Pt Hw (S f') ([41] ++ rest) Hf eq_refl).
    cbn [app]. rewrite read_raw_close. reflexivity.
  Qed.

  Lemma atom_T : forall t, RtP t ->
    match t with Nil | Pair _ _ => False | _ => True end -> RtT t.
  Proof.
    intros t Pt Ht. apply dotted_tail; [exact Pt| |reflexivity].
    destruct t; try reflexivity; contradiction.
  Qed.

  Lemma mk_list_snoc : forall l x t, mk_list (l ++ [x]) t = mk_list l (Pair x t).
  Proof. intros l x t. unfold mk_list. rewrite fold_right_app. reflexivity. Qed.

  Lemma list_to_vec_mk : forall l, list_to_vec (mk_list l Nil) = Some l.
  Proof. induction l as [|x l IH]; [reflexivity|]. cbn [mk_list fold_right list_to_vec] in *. unfold mk_list in IH. rewrite IH. reflexivity. Qed.

  Lemma list_to_u8_mk : forall l, bytes l -> list_to_u8 (mk_list (map Int l) Nil) = Some l.
  Proof.
    induction l as [|x l IH]; intros Hb; [reflexivity|]. inversion Hb as [|? ? Hx Hl]; subst.
    unfold mk_list in *. cbn [map fold_right list_to_u8]. unfold byte in Hx.
    replace ((0 <=? x) && (x <=? 255)) with true by (symmetry; apply andb_true_intro; split; apply Z.leb_le; lia).
    rewrite IH by assumption. reflexivity.
  Qed.

  Lemma fold_max_ge : forall (g : datum -> nat) l k,
    (k <= fold_right (fun x m => Nat.max (g x) m) k l)%nat /\
    forall e, In e l -> (g e <= fold_right (fun x m => Nat.max (g x) m) k l)%nat.
  Proof.
    intros g l k. induction l as [|x l IH]; cbn [fold_right]; [split; [lia|intros e []]|].
    destruct IH as [IH1 IH2]. split; [lia|].
    intros e [<-|Hin]; [lia|]. specialize (IH2 e Hin). lia.
  Qed.

  Lemma wfd_vec_in : forall l e, wfd (Vec l) -> In e l -> wfd e.
  Proof.
    induction l as [|x l IH]; intros e Hw Hin; [destruct Hin|].
    cbn [wfd fold_right] in Hw. destruct Hw as [Hx Hl]. destruct Hin as [<-|Hin]; [exact Hx|].
    apply IH; [exact Hl|exact Hin].
  Qed.

  (** the elements of a vector after the first one *)
  Lemma vec_loop : forall l, Forall RtP l -> (forall e, In e l -> wfd e) ->
    forall f n acc rest, (2 <= f)%nat -> (forall e, In e l -> (height e + 2 <= f)%nat) -> (length l < n)%nat ->
    list_loop (rd f) n acc (flat_map (fun x => 32 :: wr x) l ++ 41 :: rest) =
    Ok (TDatum (mk_list (rev acc ++ l) Nil)) rest.
  Proof.
    induction l as [|e l IH]; intros HP Hw f n acc rest Hf2 Hf Hn.
    - destruct n as [|n']; [cbn [length] in Hn; lia|]. destruct f as [|f']; [lia|].
      cbn [flat_map app list_loop]. rewrite read_raw_close. rewrite app_nil_r. reflexivity.
    - inversion HP as [|? ? HPe HPl]; subst.
      destruct n as [|n']; [cbn [length] in Hn; lia|]. destruct f as [|f']; [lia|].
      cbn [flat_map app list_loop]. rewrite read_raw_space. rewrite <- app_assoc.
      rewrite (HPe (Hw e (or_introl eq_refl)) (S f')); [|apply Hf; left; reflexivity|].
      2:{ destruct l; reflexivity. }
      rewrite IH; [|assumption|intros; apply Hw; right; assumption|lia|intros; apply Hf; right; assumption|cbn [length] in Hn; lia].
      cbn [rev]. rewrite <- app_assoc. reflexivity.
  Qed.

  Lemma u8_loop : forall l, bytes l ->
    forall f n acc rest, (1 <= f)%nat -> (length l < n)%nat ->
    list_loop (rd f) n acc (flat_map (fun x => 32 :: write_u8 x) l ++ 41 :: rest) =
    Ok (TDatum (mk_list (rev acc ++ map Int l) Nil)) rest.
  Proof.
    induction l as [|e l IH]; intros Hb f n acc rest Hf Hn.
    - destruct n as [|n']; [cbn [length] in Hn; lia|]. destruct f as [|f']; [lia|].
      cbn [flat_map app list_loop map]. rewrite read_raw_close. rewrite app_nil_r. reflexivity.
    - inversion Hb as [|? ? Hbe Hbl]; subst.
      destruct n as [|n']; [cbn [length] in Hn; lia|]. destruct f as [|f']; [lia|].
      cbn [flat_map app list_loop]. rewrite read_raw_space. rewrite <- app_assoc.
      rewrite u8_roundtrip; [|assumption|destruct l; reflexivity].
      rewrite IH; [|assumption|lia|cbn [length] in Hn; lia].
      cbn [rev map]. rewrite <- app_assoc. reflexivity.
  Qed.

  Theorem datum_PT : forall d, RtP d /\ RtT d.
  Proof.
    induction d as [z|b|c|s|s|b| |a t [Pa Ta] [Pt Tt]|l HQ|l] using datum_ind'.
    - (* Int *)
      assert (Pd : RtP (Int z)).
      { intros _ f rest Hf Hd. destruct f as [|f]; [lia|]. apply integer_roundtrip_ok, Hd. }
      split; [exact Pd|apply atom_T; [exact Pd|exact I]].
    - (* Flo *)
      assert (Pd : RtP (Flo b)).
      { intros Hw f rest Hf Hd. destruct f as [|f]; [lia|]. apply flo_roundtrip; assumption. }
      split; [exact Pd|apply atom_T; [exact Pd|exact I]].
    - (* Chr *)
      assert (Pd : RtP (Chr c)).
      { intros Hw f rest Hf Hd. destruct f as [|f]; [lia|]. apply chr_roundtrip; assumption. }
      split; [exact Pd|apply atom_T; [exact Pd|exact I]].
    - (* Str *)
      assert (Pd : RtP (Str s)).
      { intros Hw f rest Hf Hd. destruct f as [|f]; [lia|]. apply string_roundtrip_ok; assumption. }
      split; [exact Pd|apply atom_T; [exact Pd|exact I]].
    - (* Sym *)
      assert (Pd : RtP (Sym s)).
      { intros Hw f rest Hf Hd. destruct f as [|f]; [lia|]. apply symbol_roundtrip_ok; assumption. }
      split; [exact Pd|apply atom_T; [exact Pd|exact I]].
    - (* Bool *)
      assert (Pd : RtP (Bool b)).
      { intros Hw f rest Hf Hd. destruct f as [|f]; [lia|].
        destruct b; cbn [write_gen app]; cbn [read_raw skip_ws Z.eqb Pos.eqb orb]; rewrite Hd; reflexivity. }
      split; [exact Pd|apply atom_T; [exact Pd|exact I]].
    - (* Nil *)
      split.
      + intros _ f rest Hf Hd. destruct f as [|[|f]]; [lia|lia|].
        cbn [write_gen app]. rewrite read_raw_list. cbn [list_loop]. rewrite read_raw_close. reflexivity.
      + intros _ f n acc rest Hacc Hf Hn. destruct n as [|n']; [lia|]. destruct f as [|f']; [lia|].
        cbn [tail_text app list_loop]. rewrite read_raw_close. reflexivity.
    - (* Pair *)
      split.
      + intros [Hwa Hwt] f rest Hf Hd. cbn [height] in Hf.
        destruct f as [|f]; [lia|]. rewrite write_pair. cbn [app]. rewrite read_raw_list.
        destruct f as [|n']; [lia|]. cbn [list_loop]. rewrite <- app_assoc.
        rewrite (Pa Hwa (S n')); [|lia|apply tail_text_delim].
        apply (Tt Hwt (S n') n' [a] rest); [discriminate|lia|lia].
      + intros [Hwa Hwt] f n acc rest Hacc Hf Hn. cbn [height] in Hf, Hn.
        destruct n as [|n']; [lia|]. destruct f as [|f']; [lia|].
        cbn [tail_text app list_loop]. rewrite read_raw_space. rewrite <- app_assoc.
        rewrite (Pa Hwa (S f')); [|lia|apply tail_text_delim].
        rewrite (Tt Hwt (S f') n' (a :: acc) rest); [|discriminate|lia|lia].
        cbn [rev]. rewrite mk_list_snoc. reflexivity.
    - (* Vec *)
      assert (Pd : RtP (Vec l)).
      { intros Hw f rest Hf Hd. cbn [height] in Hf.
        destruct (fold_max_ge height l (length l)) as [Hlen Hel].
        set (M := fold_right (fun x m => Nat.max (height x) m) (length l) l) in *.
        destruct f as [|[|f2]]; [lia|lia|].
        assert (HP : Forall RtP l) by (eapply Forall_impl; [|exact HQ]; intros x [Hx _]; exact Hx).
        destruct l as [|e l'].
        - cbn [write_gen app]. rewrite read_raw_vec, read_raw_list.
          destruct f2 as [|f3]; [lia|]. cbn [list_loop]. rewrite read_raw_close. reflexivity.
        - cbn [write_gen]. rewrite <- !app_assoc. cbn [app]. rewrite read_raw_vec, read_raw_list.
          destruct f2 as [|n']; [lia|]. cbn [list_loop].
          inversion HP as [|? ? HPe HPl]; subst.
          rewrite (HPe (wfd_vec_in _ e Hw (or_introl eq_refl)) (S n'));
            [|specialize (Hel e (or_introl eq_refl)); lia|destruct l'; reflexivity].
          rewrite vec_loop;
            [|assumption|intros x Hx; apply (wfd_vec_in _ x Hw); right; assumption|lia
             |intros x Hx; specialize (Hel x (or_intror Hx)); lia|cbn [length] in Hlen; lia].
          cbn [rev app]. rewrite (list_to_vec_mk (e :: l')). reflexivity. }
      split; [exact Pd|apply atom_T; [exact Pd|exact I]].
    - (* Bytes *)
      assert (Pd : RtP (Bytes l)).
      { intros Hw f rest Hf Hd. cbn [height] in Hf. cbn [wfd] in Hw.
        destruct f as [|[|f2]]; [lia|lia|].
        destruct l as [|e l'].
        - cbn [write_gen write_bytes app]. rewrite read_raw_u8, read_raw_list.
          destruct f2 as [|f3]; [cbn [length] in Hf; lia|]. cbn [list_loop]. rewrite read_raw_close. reflexivity.
        - cbn [write_gen]. unfold write_bytes. rewrite <- !app_assoc. cbn [app]. rewrite read_raw_u8, read_raw_list.
          cbn [length] in Hf. destruct f2 as [|n']; [lia|]. cbn [list_loop].
          inversion Hw as [|? ? Hbe Hbl]; subst.
          rewrite u8_roundtrip; [|assumption|destruct l'; reflexivity].
          rewrite u8_loop; [|assumption|lia|lia].
          cbn [rev app]. change (Int e :: map Int l') with (map Int (e :: l')).
          rewrite list_to_u8_mk by assumption. reflexivity. }
      split; [exact Pd|apply atom_T; [exact Pd|exact I]].
  Qed.

  Theorem datum_roundtrip_gen : forall d f rest, wfd d -> (height d + 2 <= f)%nat -> at_delim rest = true ->
    rd f (wr d ++ rest) = Ok (TDatum d) rest.
  Proof. intros d f rest Hw Hf Hd. destruct (datum_PT d) as [Pd _]. apply Pd; assumption. Qed.
End Compound.

(** ** the native writer is the instance wchr := write_char *)
Lemma write_gen_native : forall fmt_g scan_g d, write_gen write_char fmt_g scan_g d = write fmt_g scan_g d.
Proof.
  (* the two fixpoints have the same body once wchr is instantiated: convertible *)
  intros fmt_g scan_g. induction d using datum_ind'; reflexivity.
Qed.

(** ** the closed instance: data without flonum leaves; libc parameters arbitrary *)
Definition wfd0 : datum -> Prop := wfd (fun _ => False).

Theorem list_vector_bytes_roundtrip_ok : forall fmt_g scan_g dec2flo d f rest,
  wfd0 d -> (height d + 2 <= f)%nat -> at_delim rest = true ->
  read_raw dec2flo f (write fmt_g scan_g d ++ rest) = Ok (TDatum d) rest.
Proof.
  intros fmt_g scan_g dec2flo d f rest Hw Hf Hd. rewrite <- write_gen_native.
  apply (datum_roundtrip_gen fmt_g scan_g dec2flo (fun _ => False)); try assumption.
  - intros b [].
  - intros c Hc f0 rest0 Hd0. apply char_roundtrip_native; assumption.
Qed.

(** ** round 4: the same for the text (scheme write) emits (lib/srfi/38.scm wr-one on a tree) *)
Theorem scheme_write_roundtrip_ok : forall fmt_g scan_g dec2flo d f rest,
  wfd0 d -> (height d + 2 <= f)%nat -> at_delim rest = true ->
  read_raw dec2flo f (swrite fmt_g scan_g d ++ rest) = Ok (TDatum d) rest.
Proof.
  intros fmt_g scan_g dec2flo d f rest Hw Hf Hd. unfold swrite.
  apply (datum_roundtrip_gen fmt_g scan_g dec2flo (fun _ => False)); try assumption.
  - intros b [].
  - intros c Hc f0 rest0 Hd0. apply char_roundtrip_library; assumption.
Qed.

(** the two writers print the same text unless a character leaf has two different texts
    (control characters other than the named ones, DEL excluded, and everything from U+0080 up) *)
Theorem writers_agree_ok : forall fmt_g scan_g d, same_char_text d = true ->
  swrite fmt_g scan_g d = write fmt_g scan_g d.
Proof.
  intros fmt_g scan_g d. rewrite <- write_gen_native. unfold swrite.
  induction d as [z|b|c|s|s|b| |a t IHa IHt|l HQ|l] using datum_ind'; intros H; try reflexivity.
  - cbn [same_char_text] in H. cbn [write_gen].
    destruct (list_eq_dec Z.eq_dec (swrite_char c) (write_char c)) as [E|E]; [exact E|discriminate].
  - cbn [same_char_text] in H. apply andb_prop in H. destruct H as [Ha Ht].
    cbn [write_gen]. rewrite (IHa Ha), (IHt Ht). reflexivity.
  - cbn [same_char_text] in H. destruct l as [|e l']; [reflexivity|]. cbn [write_gen].
    cbn [forallb] in H. apply andb_prop in H. destruct H as [He Hl'].
    inversion HQ as [|? ? Pe Pl]; subst. rewrite (Pe He). do 2 f_equal. f_equal.
    clear Pe HQ He. induction Pl as [|x l2 Hx Pl IH]; [reflexivity|].
    cbn [forallb] in Hl'. apply andb_prop in Hl'. destruct Hl' as [Hx' Hl2].
    cbn [flat_map]. rewrite (Hx Hx'), (IH Hl2). reflexivity.
Qed.

(** printable ASCII and the nine named characters have one text *)
Lemma same_char_text_ascii : forall c, 32 <= c < 128 -> same_char_text (Chr c) = true.
Proof.
  intros c Hc. assert (H : forallb (fun c => same_char_text (Chr c)) (map Z.of_nat (seq 32 96)) = true) by (vm_compute; reflexivity).
  rewrite forallb_forall in H. apply H. apply in_map_iff. exists (Z.to_nat c). split; [lia|]. apply in_seq. lia.
Qed.

(** ((1 . #\x) #("a" #u8(0 255)) |b c| . #t) *)
Definition compound_example : datum :=
  Pair (Pair (Int 1) (Chr 120))
    (Pair (Vec [Str [97]; Bytes [0; 255]; Nil; Vec []])
       (Pair (Sym [98; 32; 99]) (Bool true))).

Example list_vector_bytes_roundtrip_example :
  wfd0 compound_example /\ height compound_example = 8%nat /\
  read_raw (fun _ _ _ => 0) 10 (write (fun _ _ => []) (fun _ => None) compound_example ++ [32; 49]) =
  Ok (TDatum compound_example) [32; 49] /\
  read_raw (fun _ _ _ => 0) 10 (swrite (fun _ _ => []) (fun _ => None) compound_example ++ [32; 49]) =
  Ok (TDatum compound_example) [32; 49].
Proof.
  split; [|split; [reflexivity|split; vm_compute; reflexivity]].
  unfold wfd0, compound_example. cbn [wfd fold_right]. unfold bytes, byte.
  repeat split; try lia; repeat constructor; lia.
Qed.

(** (#\x7 #(#\x3bb "a") . #\space): the library writer prints U+0007 as "alarm" (its own table), U+03BB raw *)
Definition swrite_example : datum :=
  Pair (Chr 7) (Pair (Vec [Chr 955; Str [97]]) (Chr 32)).

Example scheme_write_roundtrip_example :
  wfd0 swrite_example /\
  swrite (fun _ _ => []) (fun _ => None) swrite_example =
    [40; 35; 92; 97; 108; 97; 114; 109; 32; 35; 40; 35; 92; 206; 187; 32; 34; 97; 34; 41; 32; 46; 32; 35; 92; 115; 112; 97; 99; 101; 41] /\
  same_char_text swrite_example = false /\
  read_raw (fun _ _ _ => 0) 7 (swrite (fun _ _ => []) (fun _ => None) swrite_example ++ [41]) =
  Ok (TDatum swrite_example) [41].
Proof.
  split; [|split; [vm_compute; reflexivity|split; vm_compute; reflexivity]].
  unfold wfd0, swrite_example. cbn [wfd fold_right]. unfold bytes, byte.
  repeat split; try lia; repeat constructor; lia.
Qed.
